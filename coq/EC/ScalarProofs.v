(* Proofs about EC/P256Model.v, part 2: variable-point scalar multiplication.
   Under the group-law premises (p prime, associativity of the affine law on curve points) and for a
   point P whose first six multiples are finite (true for every finite point of a curve of prime order
   n > 7 such as SM2: cofactor 1), for EVERY byte string k
        ScalarMult P k = [OS2IP(k) mod n] P      (infinity as (0,0)).
   Uses the totality of PointDouble / PointAdd / PointSub (EC/P256Proofs.v), the recoding theorem
   (EC/WnafProofs.v) and the Z-module lemmas (EC/ECGroup.v). *)
From Coq Require Import ZArith Znumtheory Lia List Bool.
From GmsmVerif Require Import Lib.Outcome EC.ECAffine EC.ECAffineProofs EC.JacFormulas EC.ECGroup
  EC.P256Model EC.P256Proofs EC.WnafProofs.
Import ListNotations.
Open Scope Z_scope.

Section Scalar.
  Variable c : curve.
  Variables (n rinv : Z) (factorT : list (list Z)).
  Notation p := (cp c).
  Hypothesis HH : P256Hyps c rinv factorT.
  Hypothesis Hassoc : forall P Q R, point_ok c P = true -> point_ok c Q = true -> point_ok c R = true ->
    ec_add c (ec_add c P Q) R = ec_add c P (ec_add c Q R).
  Hypothesis Hn : 0 < n.

  Let Hp : prime p := h_prime _ _ _ HH.
  Let Hp3 : 3 < p := h_p3 _ _ _ HH.

  Notation ok := (fun Q => point_ok c Q = true).
  Notation mul := (ec_mul c).
  Notation J := (Jpt c).
  Notation PD := (sm2P256PointDouble c rinv factorT).
  Notation PM := (sm2P256PointAddMixed c).

  (* the base point of the multiplication *)
  Variables (x1 y1 : Z).
  Notation Pt := (Some (x1, y1)).
  Hypothesis HPt : ok Pt.
  (* [j]P is finite for j = 1..6 *)
  Hypothesis Hsmall : forall j, 1 <= j <= 6 -> mul j Pt <> None.

  Lemma mul_is_ok : forall k, ok (mul k Pt).
  Proof. intros. apply (mul_ok c Hp Hp3). exact HPt. Qed.

  Lemma mul_succ : forall k, mul (k + 1) Pt = ec_add c (mul k Pt) Pt.
  Proof. intros. rewrite (mul_add c Hp Hp3 Hassoc) by exact HPt. reflexivity. Qed.

  (* [j]P <> P for j = 2,4,6 *)
  Lemma mul_neq_P : forall j, 2 <= j <= 6 -> mul j Pt <> Pt.
  Proof.
    intros j Hj E. apply (Hsmall (j - 1) ltac:(lia)).
    pose proof (mul_succ (j - 1)) as H. replace (j - 1 + 1) with j in H by lia. rewrite E in H.
    (* P = [j-1]P + P  gives [j-1]P = 0 *)
    set (A := mul (j - 1) Pt) in *. assert (HA : ok A) by apply mul_is_ok.
    assert (E2 : ec_add c (ec_add c A Pt) (ec_neg c Pt) = ec_add c Pt (ec_neg c Pt)) by (rewrite <- H; reflexivity).
    rewrite Hassoc in E2 by (try apply (ec_neg_ok c Hp Hp3); assumption).
    rewrite (ec_add_neg c Hp3) in E2 by exact HPt. rewrite ec_add_0_r in E2. exact E2.
  Qed.

  (* ---------- the table of small multiples ------------------------------------------------------- *)
  Lemma J_p1 : J (sm2P256FromBig c x1, sm2P256FromBig c y1, factor c rinv factorT 1) Pt.
  Proof.
    pose proof HPt as HPt'. apply (point_ok_some c) in HPt'. destruct HPt' as (Rx & Ry & _).
    cbn [Jpt]. unfold jrep. rewrite (h_f1 _ _ _ HH). unfold sm2P256FromBig, P256Model.P.
    rewrite !Z.mod_small by lia. split; [apply small_neq_0; [exact Hp|lia]|].
    split; unfold feq; f_equal; ring.
  Qed.

  Lemma mixed_step : forall Jq j, 2 <= j <= 6 -> J Jq (mul j Pt) ->
    J (PM Jq (sm2P256FromBig c x1) (sm2P256FromBig c y1)) (mul (j + 1) Pt).
  Proof.
    intros Jq j Hj HJ.
    assert (Ex : sm2P256FromBig c x1 = x1 /\ sm2P256FromBig c y1 = y1).
    { pose proof HPt as HPt'. apply (point_ok_some c) in HPt'. destruct HPt' as (Rx & Ry & _).
      unfold sm2P256FromBig, P256Model.P. rewrite !Z.mod_small by lia. split; reflexivity. }
    destruct Ex as [-> ->]. rewrite mul_succ.
    pose proof (mul_is_ok j) as Ho. pose proof (mul_neq_P j Hj) as Hne.
    pose proof (Hsmall j ltac:(lia)) as Hfin.
    destruct (mul j Pt) as [[xj yj]|]; [|congruence].
    apply (PointAddMixed_total c rinv factorT HH); try assumption. congruence.
  Qed.

  Lemma precomp_spec : forall j, 1 <= j <= 7 ->
    J (nth (Z.to_nat j) (scalarMult_precomp c rinv factorT (sm2P256FromBig c x1) (sm2P256FromBig c y1)) jzero)
      (mul j Pt).
  Proof.
    intros j Hj. unfold scalarMult_precomp.
    set (X := sm2P256FromBig c x1). set (Y := sm2P256FromBig c y1).
    set (p1 := (X, Y, factor c rinv factorT 1)).
    assert (H1 : J p1 (mul 1 Pt)) by exact J_p1.
    assert (Hd : forall Jq k, J Jq (mul k Pt) -> J (PD Jq) (mul (2 * k) Pt)).
    { intros Jq k HJ. rewrite (mul_double c Hp Hp3 Hassoc) by exact HPt.
      apply (PointDouble_total c rinv factorT HH). exact HJ. }
    pose proof (Hd _ 1 H1) as H2. change (2 * 1) with 2 in H2.
    pose proof (mixed_step _ 2 ltac:(lia) H2) as H3. change (2 + 1) with 3 in H3.
    pose proof (Hd _ 2 H2) as H4. change (2 * 2) with 4 in H4.
    pose proof (mixed_step _ 4 ltac:(lia) H4) as H5. change (4 + 1) with 5 in H5.
    pose proof (Hd _ 3 H3) as H6. change (2 * 3) with 6 in H6.
    pose proof (mixed_step _ 6 ltac:(lia) H6) as H7. change (6 + 1) with 7 in H7.
    assert (Hc : j = 1 \/ j = 2 \/ j = 3 \/ j = 4 \/ j = 5 \/ j = 6 \/ j = 7) by lia.
    destruct Hc as [->|[->|[->|[->|[->|[->| ->]]]]]]; assumption.
  Qed.

  (* ---------- the main loop -------------------------------------------------------------------------- *)
  Lemma double_n_spec : forall k Jq u, J Jq (mul u Pt) ->
    J (double_n c rinv factorT k Jq) (mul (u * 2 ^ Z.of_nat k) Pt).
  Proof.
    induction k as [|k IH]; intros Jq u HJ.
    - cbn [double_n Nat.iter]. change (2 ^ Z.of_nat 0) with 1. rewrite Z.mul_1_r. exact HJ.
    - unfold double_n. cbn [Nat.iter]. fold (double_n c rinv factorT k Jq).
      rewrite Nat2Z.inj_succ, Z.pow_succ_r by lia.
      replace (u * (2 * 2 ^ Z.of_nat k)) with (2 * (u * 2 ^ Z.of_nat k)) by ring.
      rewrite (mul_double c Hp Hp3 Hassoc) by exact HPt.
      apply (PointDouble_total c rinv factorT HH). apply IH. exact HJ.
  Qed.

  (* Horner value of a digit list, most significant first *)
  Definition hval (l : list Z) (v : Z) : Z := fold_left (fun a d => 2 * a + d) l v.

  Lemma hval_rev : forall ds, hval (rev ds) 0 = wval ds.
  Proof.
    induction ds as [|d t IH]; [reflexivity|].
    unfold hval in *. cbn [rev wval]. rewrite fold_left_app. cbn [fold_left]. rewrite IH. ring.
  Qed.

  Notation precomp := (scalarMult_precomp c rinv factorT (sm2P256FromBig c x1) (sm2P256FromBig c y1)).

  Lemma loop_spec : forall scalar acc nIsInf zeroes u,
    Forall digit_ok scalar ->
    J acc (mul u Pt) -> (nIsInf = true -> u = 0) ->
    let '(acc', z') := scalarMult_loop c rinv factorT precomp scalar acc nIsInf zeroes in
    J (double_n c rinv factorT z' acc') (mul (hval scalar (u * 2 ^ Z.of_nat zeroes)) Pt).
  Proof.
    induction scalar as [|d rest IH]; intros acc nIsInf zeroes u HF HJ Hinf.
    - cbn [scalarMult_loop hval fold_left]. apply double_n_spec. exact HJ.
    - cbn [scalarMult_loop]. inversion HF as [|d' r' Hd HF']; subst d' r'.
      destruct (Z.eqb_spec d 0) as [->|Hnz].
      + (* a zero digit: one more pending doubling *)
        specialize (IH acc nIsInf (S zeroes) u HF' HJ Hinf).
        unfold hval in *. cbn [fold_left]. rewrite Z.add_0_r.
        rewrite Nat2Z.inj_succ, Z.pow_succ_r in IH by lia.
        replace (2 * (u * 2 ^ Z.of_nat zeroes)) with (u * (2 * 2 ^ Z.of_nat zeroes)) by ring. exact IH.
      + destruct Hd as [Hd|[Hodd Hr]]; [contradiction|].
        set (v := u * 2 ^ Z.of_nat zeroes).
        pose proof (double_n_spec zeroes acc u HJ) as H1. fold v in H1.
        pose proof (PointDouble_total c rinv factorT HH _ _ H1) as H2.
        rewrite <- (mul_double c Hp Hp3 Hassoc) in H2 by exact HPt.
        set (acc2 := PD (double_n c rinv factorT zeroes acc)) in *.
        assert (Hidx : 1 <= Z.abs d <= 7) by lia.
        unfold sm2P256SelectJacobianPoint.
        replace ((1 <=? Z.abs d) && (Z.abs d <? 16))%bool with true
          by (symmetry; apply andb_true_iff; split; [apply Z.leb_le|apply Z.ltb_lt]; lia).
        pose proof (precomp_spec (Z.abs d) Hidx) as Hpc.
        destruct (nth (Z.to_nat (Z.abs d)) precomp jzero) as [[px py] pz] eqn:Epc.
        replace (negb (Z.abs d =? 0)) with true by (symmetry; apply negb_true_iff; apply Z.eqb_neq; lia).
        cbn [andb negb].
        destruct (Z.ltb_spec 0 d) as [Hpos|Hneg].
        * (* positive digit: PointAdd *)
          rewrite Z.abs_eq in Hpc by lia.
          assert (Ht : J (sm2P256PointAdd c rinv factorT acc2 (px, py, pz)) (mul (2 * v + d) Pt)).
          { rewrite (mul_add c Hp Hp3 Hassoc) by exact HPt.
            apply (PointAdd_total c rinv factorT HH); try assumption; apply mul_is_ok. }
          specialize (IH (if nIsInf then (px, py, pz) else sm2P256PointAdd c rinv factorT acc2 (px, py, pz))
                         (nIsInf && false)%bool O (2 * v + d) HF').
          rewrite andb_false_r in *.
          change (2 ^ Z.of_nat 0) with 1 in IH. rewrite Z.mul_1_r in IH.
          unfold hval in *. cbn [fold_left]. destruct nIsInf.
          -- apply IH; [|discriminate]. assert (u = 0) by (apply Hinf; reflexivity). subst u.
             unfold v. rewrite Z.mul_0_l, Z.mul_0_r, Z.add_0_l. exact Hpc.
          -- apply IH; [exact Ht|discriminate].
        * (* negative digit: PointSub, which also negates py in place *)
          rewrite Z.abs_neq in Hpc by lia.
          pose proof (PointSub_total c rinv factorT HH acc2 (px, py, pz) _ _ H2 Hpc (mul_is_ok _) (mul_is_ok _))
            as [Ht Hp'].
          rewrite <- (mul_opp c Hp Hp3) in Ht, Hp' by exact HPt. rewrite Z.opp_involutive in Ht, Hp'.
          rewrite <- (mul_add c Hp Hp3 Hassoc) in Ht by exact HPt.
          cbn [fst snd] in Hp'.
          destruct (sm2P256PointSub c rinv factorT acc2 (px, py, pz)) as [t py'] eqn:Esub.
          cbn [fst snd] in Ht, Hp'.
          specialize (IH (if nIsInf then (px, py', pz) else t) (nIsInf && false)%bool O (2 * v + d) HF').
          rewrite andb_false_r in *.
          change (2 ^ Z.of_nat 0) with 1 in IH. rewrite Z.mul_1_r in IH.
          unfold hval in *. cbn [fold_left]. destruct nIsInf.
          -- apply IH; [|discriminate]. assert (u = 0) by (apply Hinf; reflexivity). subst u.
             unfold v. rewrite Z.mul_0_l, Z.mul_0_r, Z.add_0_l. exact Hp'.
          -- apply IH; [exact Ht|discriminate].
  Qed.

  Theorem sm2P256ScalarMult_spec : forall ds, Forall digit_ok ds ->
    J (sm2P256ScalarMult c rinv factorT (sm2P256FromBig c x1) (sm2P256FromBig c y1) (rev ds)) (mul (wval ds) Pt).
  Proof.
    intros ds HF. unfold sm2P256ScalarMult.
    assert (HF' : Forall digit_ok (rev ds)).
    { apply Forall_forall. intros x Hx. apply in_rev in Hx. rewrite Forall_forall in HF. apply HF. exact Hx. }
    pose proof (loop_spec (rev ds) jzero true O 0 HF') as H.
    destruct (scalarMult_loop c rinv factorT precomp (rev ds) jzero true 0) as [acc' z'].
    rewrite Z.mul_0_l, hval_rev in H. apply H; [|reflexivity].
    cbn [ec_mul Jpt]. cbn. reflexivity.
  Qed.

  Theorem ScalarMult_spec : forall b,
    ScalarMult c n rinv factorT x1 y1 b = Ok (encode_point (mul (os2ip b mod n) Pt)).
  Proof.
    intros b. unfold ScalarMult.
    destruct (wnaf_spec n b Hn) as (ds & E & Hv & HF & _).
    rewrite E. cbn [obind]. unfold WNafReversed. f_equal.
    rewrite <- reduced_scalar_mod by exact Hn. rewrite <- Hv.
    apply (ToAffine_Jpt c rinv factorT HH).
    - apply sm2P256ScalarMult_spec. exact HF.
    - apply point_ok_red. apply mul_is_ok.
  Qed.
End Scalar.
