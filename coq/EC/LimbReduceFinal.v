(* sm2P256ReduceDegree, part (d): the elimination loop as a whole, the repacking (with ReduceCarry), and the
   conclusion  value(ReduceDegree b) * 2^257 = value64(b)  (mod p)  with loose output limbs; then sm2P256Mul and
   sm2P256Square on limbs, and their refinement of the F_p-level operations of EC/P256Model.v. *)
From Coq Require Import ZArith NArith NArithRing List Bool Lia Zify.
From GmsmVerif Require Import EC.ECAffine EC.P256Model Gen.SM2Params Gen.P256Limbs EC.LimbModel EC.LimbTactics
  EC.LimbProofs EC.LimbReduceDefs EC.LimbUnpack EC.LimbStepEven EC.LimbStepOdd EC.LimbStepLast.
Import ListNotations.
Open Scope N_scope.

(* ---------- the elimination loop --------------------------------------------------------------------------------- *)
(* nine steps (even at i = 0,2,4,6,8, odd at i+1 = 1,3,5,7): limbs 0..8 become 0, a multiple of p is added *)
Definition elim_post (t0 t1 t2 t3 t4 t5 t6 t7 t8 t9 t10 t11 t12 t13 t14 t15 t16 t17 : N) (out : N*N*N*N*N*N*N*N*N*N*N*N*N*N*N*N*N*N) : Prop :=
  let '(o0, o1, o2, o3, o4, o5, o6, o7, o8, o9, o10, o11, o12, o13, o14, o15, o16, o17) := out in
  (o0 = 0 /\ o1 = 0 /\ o2 = 0 /\ o3 = 0 /\ o4 = 0 /\ o5 = 0 /\ o6 = 0 /\ o7 = 0 /\ o8 = 0) /\
  (o9 <= 805306369 /\ o10 <= 1610612734 /\ o11 <= 536871038 /\ o12 <= 1073741823 /\ o13 <= 536870911 /\ o14 <= 1073741823 /\ o15 <= 536870911 /\ o16 <= 1073741823 /\ o17 <= 2415919239) /\
  exists m, value18 o0 o1 o2 o3 o4 o5 o6 o7 o8 o9 o10 o11 o12 o13 o14 o15 o16 o17 = value18 t0 t1 t2 t3 t4 t5 t6 t7 t8 t9 t10 t11 t12 t13 t14 t15 t16 t17 + m * pN.

Theorem gen_rd_eliminate_correct : forall t0 t1 t2 t3 t4 t5 t6 t7 t8 t9 t10 t11 t12 t13 t14 t15 t16 t17,
  t0 <= 536870911 /\ t1 <= 268435455 /\ t2 <= 536870911 /\ t3 <= 268435455 /\ t4 <= 536870911 /\ t5 <= 268435455 /\ t6 <= 536870911 /\ t7 <= 268435455 /\ t8 <= 536870911 /\ t9 <= 268435455 /\ t10 <= 536870911 /\ t11 <= 268435455 /\ t12 <= 536870911 /\ t13 <= 268435455 /\ t14 <= 536870911 /\ t15 <= 268435455 /\ t16 <= 536870911 /\ t17 <= 2147483784 ->
  elim_post t0 t1 t2 t3 t4 t5 t6 t7 t8 t9 t10 t11 t12 t13 t14 t15 t16 t17 (gen_rd_eliminate t0 t1 t2 t3 t4 t5 t6 t7 t8 t9 t10 t11 t12 t13 t14 t15 t16 t17).
Proof.
  intros t0 t1 t2 t3 t4 t5 t6 t7 t8 t9 t10 t11 t12 t13 t14 t15 t16 t17 H. repeat match goal with H : _ /\ _ |- _ => destruct H end.
  cbv beta delta [gen_rd_eliminate].
  assert (P0 : PE t0 t1 t2 t3 t4 t5 t6 t7 t8 t9) by (unfold PE; repeat split; by_bounds).
  pose proof (gen_rd_step_even_correct t0 t1 t2 t3 t4 t5 t6 t7 t8 t9 P0) as S0. clear P0.
  destruct (gen_rd_step_even t0 t1 t2 t3 t4 t5 t6 t7 t8 t9) as [[[[[[[[[e0_0 e0_1] e0_2] e0_3] e0_4] e0_5] e0_6] e0_7] e0_8] e0_9].
  unfold even_post in S0. destruct S0 as (Z0 & B0 & V0). repeat match goal with H : _ /\ _ |- _ => destruct H end.
  set (m0 := t0 mod 536870912) in *. clearbody m0. cbv beta iota.
  assert (P1 : PO e0_1 e0_2 e0_3 e0_4 e0_5 e0_6 e0_7 e0_8 e0_9 t10) by (unfold PO; repeat split; by_bounds).
  pose proof (gen_rd_step_odd_correct e0_1 e0_2 e0_3 e0_4 e0_5 e0_6 e0_7 e0_8 e0_9 t10 P1) as S1. clear P1.
  destruct (gen_rd_step_odd e0_1 e0_2 e0_3 e0_4 e0_5 e0_6 e0_7 e0_8 e0_9 t10) as [[[[[[[[[d0_1 d0_2] d0_3] d0_4] d0_5] d0_6] d0_7] d0_8] d0_9] d0_10].
  unfold odd_post in S1. destruct S1 as (Z1 & B1 & V1). repeat match goal with H : _ /\ _ |- _ => destruct H end.
  set (m1 := e0_1 mod 268435456) in *. clearbody m1. cbv beta iota.
  assert (P2 : PE d0_2 d0_3 d0_4 d0_5 d0_6 d0_7 d0_8 d0_9 d0_10 t11) by (unfold PE; repeat split; by_bounds).
  pose proof (gen_rd_step_even_correct d0_2 d0_3 d0_4 d0_5 d0_6 d0_7 d0_8 d0_9 d0_10 t11 P2) as S2. clear P2.
  destruct (gen_rd_step_even d0_2 d0_3 d0_4 d0_5 d0_6 d0_7 d0_8 d0_9 d0_10 t11) as [[[[[[[[[e2_0 e2_1] e2_2] e2_3] e2_4] e2_5] e2_6] e2_7] e2_8] e2_9].
  unfold even_post in S2. destruct S2 as (Z2 & B2 & V2). repeat match goal with H : _ /\ _ |- _ => destruct H end.
  set (m2 := d0_2 mod 536870912) in *. clearbody m2. cbv beta iota.
  assert (P3 : PO e2_1 e2_2 e2_3 e2_4 e2_5 e2_6 e2_7 e2_8 e2_9 t12) by (unfold PO; repeat split; by_bounds).
  pose proof (gen_rd_step_odd_correct e2_1 e2_2 e2_3 e2_4 e2_5 e2_6 e2_7 e2_8 e2_9 t12 P3) as S3. clear P3.
  destruct (gen_rd_step_odd e2_1 e2_2 e2_3 e2_4 e2_5 e2_6 e2_7 e2_8 e2_9 t12) as [[[[[[[[[d2_1 d2_2] d2_3] d2_4] d2_5] d2_6] d2_7] d2_8] d2_9] d2_10].
  unfold odd_post in S3. destruct S3 as (Z3 & B3 & V3). repeat match goal with H : _ /\ _ |- _ => destruct H end.
  set (m3 := e2_1 mod 268435456) in *. clearbody m3. cbv beta iota.
  assert (P4 : PE d2_2 d2_3 d2_4 d2_5 d2_6 d2_7 d2_8 d2_9 d2_10 t13) by (unfold PE; repeat split; by_bounds).
  pose proof (gen_rd_step_even_correct d2_2 d2_3 d2_4 d2_5 d2_6 d2_7 d2_8 d2_9 d2_10 t13 P4) as S4. clear P4.
  destruct (gen_rd_step_even d2_2 d2_3 d2_4 d2_5 d2_6 d2_7 d2_8 d2_9 d2_10 t13) as [[[[[[[[[e4_0 e4_1] e4_2] e4_3] e4_4] e4_5] e4_6] e4_7] e4_8] e4_9].
  unfold even_post in S4. destruct S4 as (Z4 & B4 & V4). repeat match goal with H : _ /\ _ |- _ => destruct H end.
  set (m4 := d2_2 mod 536870912) in *. clearbody m4. cbv beta iota.
  assert (P5 : PO e4_1 e4_2 e4_3 e4_4 e4_5 e4_6 e4_7 e4_8 e4_9 t14) by (unfold PO; repeat split; by_bounds).
  pose proof (gen_rd_step_odd_correct e4_1 e4_2 e4_3 e4_4 e4_5 e4_6 e4_7 e4_8 e4_9 t14 P5) as S5. clear P5.
  destruct (gen_rd_step_odd e4_1 e4_2 e4_3 e4_4 e4_5 e4_6 e4_7 e4_8 e4_9 t14) as [[[[[[[[[d4_1 d4_2] d4_3] d4_4] d4_5] d4_6] d4_7] d4_8] d4_9] d4_10].
  unfold odd_post in S5. destruct S5 as (Z5 & B5 & V5). repeat match goal with H : _ /\ _ |- _ => destruct H end.
  set (m5 := e4_1 mod 268435456) in *. clearbody m5. cbv beta iota.
  assert (P6 : PE d4_2 d4_3 d4_4 d4_5 d4_6 d4_7 d4_8 d4_9 d4_10 t15) by (unfold PE; repeat split; by_bounds).
  pose proof (gen_rd_step_even_correct d4_2 d4_3 d4_4 d4_5 d4_6 d4_7 d4_8 d4_9 d4_10 t15 P6) as S6. clear P6.
  destruct (gen_rd_step_even d4_2 d4_3 d4_4 d4_5 d4_6 d4_7 d4_8 d4_9 d4_10 t15) as [[[[[[[[[e6_0 e6_1] e6_2] e6_3] e6_4] e6_5] e6_6] e6_7] e6_8] e6_9].
  unfold even_post in S6. destruct S6 as (Z6 & B6 & V6). repeat match goal with H : _ /\ _ |- _ => destruct H end.
  set (m6 := d4_2 mod 536870912) in *. clearbody m6. cbv beta iota.
  assert (P7 : PO e6_1 e6_2 e6_3 e6_4 e6_5 e6_6 e6_7 e6_8 e6_9 t16) by (unfold PO; repeat split; by_bounds).
  pose proof (gen_rd_step_odd_correct e6_1 e6_2 e6_3 e6_4 e6_5 e6_6 e6_7 e6_8 e6_9 t16 P7) as S7. clear P7.
  destruct (gen_rd_step_odd e6_1 e6_2 e6_3 e6_4 e6_5 e6_6 e6_7 e6_8 e6_9 t16) as [[[[[[[[[d6_1 d6_2] d6_3] d6_4] d6_5] d6_6] d6_7] d6_8] d6_9] d6_10].
  unfold odd_post in S7. destruct S7 as (Z7 & B7 & V7). repeat match goal with H : _ /\ _ |- _ => destruct H end.
  set (m7 := e6_1 mod 268435456) in *. clearbody m7. cbv beta iota.
  assert (P8 : PE_last d6_2 d6_3 d6_4 d6_5 d6_6 d6_7 d6_8 d6_9 d6_10 t17) by (unfold PE_last; repeat split; by_bounds).
  pose proof (gen_rd_step_even_last_correct d6_2 d6_3 d6_4 d6_5 d6_6 d6_7 d6_8 d6_9 d6_10 t17 P8) as S8. clear P8.
  destruct (gen_rd_step_even d6_2 d6_3 d6_4 d6_5 d6_6 d6_7 d6_8 d6_9 d6_10 t17) as [[[[[[[[[e8_0 e8_1] e8_2] e8_3] e8_4] e8_5] e8_6] e8_7] e8_8] e8_9].
  unfold even_post_last in S8. destruct S8 as (Z8 & B8 & V8). repeat match goal with H : _ /\ _ |- _ => destruct H end.
  set (m8 := d6_2 mod 536870912) in *. clearbody m8. cbv beta iota.
  unfold elim_post. split; [repeat split; assumption|]. split; [repeat split; by_bounds|].
  exists (m0 + 2^29 * m1 + 2^57 * m2 + 2^86 * m3 + 2^114 * m4 + 2^143 * m5 + 2^171 * m6 + 2^200 * m7 + 2^228 * m8).
  unfold value18, value10e, value10o in *. unfold pN in *. num_pows.
  repeat match goal with H : _ <= _ |- _ => clear H end.
  subst. lia.
Qed.

(* ---------- the repacking ------------------------------------------------------------------------------------------ *)
(* tmp[9..17] sit at bits 257, 285, ... : relative to bit 257 the radix pattern is 28, 29, 28, ...; the loop moves the
   lowest bit of every second limb down, propagates carries, and ReduceCarry folds the carry out of the top limb *)
Definition hi_value (t9 t10 t11 t12 t13 t14 t15 t16 t17 : N) : N :=
  t9 + 2^28 * t10 + 2^57 * t11 + 2^85 * t12 + 2^114 * t13 + 2^142 * t14 + 2^171 * t15 + 2^199 * t16 + 2^228 * t17.

Definition repack_post (t9 t10 t11 t12 t13 t14 t15 t16 t17 : N) (out : N*N*N*N*N*N*N*N*N) : Prop :=
  let '(c0, c1, c2, c3, c4, c5, c6, c7, c8) := out in
  loose9 c0 c1 c2 c3 c4 c5 c6 c7 c8 /\
  exists k, k <= 7 /\ value9 c0 c1 c2 c3 c4 c5 c6 c7 c8 + k * R257 = hi_value t9 t10 t11 t12 t13 t14 t15 t16 t17 + carry_row_value k.

Ltac finish_repack k :=
  unfold repack_post, loose9; pow_consts; split; [repeat split; by_bounds|]; exists k; split; [cbv; discriminate|];
  unfold value9, hi_value, R257;
  change (carry_row_value k) with ltac:(let r := eval vm_compute in (carry_row_value k) in exact r);
  num_pows; leaf_linear.

Theorem gen_rd_repack_correct : forall t9 t10 t11 t12 t13 t14 t15 t16 t17,
  t9 <= 805306369 /\ t10 <= 1610612734 /\ t11 <= 536871038 /\ t12 <= 1073741823 /\ t13 <= 536870911 /\ t14 <= 1073741823 /\ t15 <= 536870911 /\ t16 <= 1073741823 /\ t17 <= 2415919239 ->
  repack_post t9 t10 t11 t12 t13 t14 t15 t16 t17 (gen_rd_repack t9 t10 t11 t12 t13 t14 t15 t16 t17).
Proof.
  intros t9 t10 t11 t12 t13 t14 t15 t16 t17 H. repeat match goal with H : _ /\ _ |- _ => destruct H end.
  cbv beta delta [gen_rd_repack]. unfold_consts.
  do 44 exec_let.
  enum_le carry9; do 4 exec_let;
  [finish_repack 0|finish_repack 1|finish_repack 2|finish_repack 3|finish_repack 4].
Qed.

(* ---------- sm2P256ReduceDegree ------------------------------------------------------------------------------------- *)
Lemma carry_row_div : forall k, k <= 7 ->
  exists d : Z, (Z.of_N k * 2 ^ 257 - Z.of_N (carry_row_value k) = d * gen_P)%Z.
Proof.
  intros k Hk. pose proof (carry_row_cong k Hk) as H.
  assert (H0 : ((Z.of_N k * 2 ^ 257 - Z.of_N (carry_row_value k)) mod gen_P = 0)%Z).
  { rewrite Zminus_mod, H, Z.sub_diag. reflexivity. }
  apply Z.mod_divide in H0; [|discriminate]. destruct H0 as [d Hd]. exists d. exact Hd.
Qed.

(* Montgomery reduction: the result is loose and  value(out) * 2^257 = value64(b)  (mod p) *)
Definition rd_post (b_0 b_1 b_2 b_3 b_4 b_5 b_6 b_7 b_8 b_9 b_10 b_11 b_12 b_13 b_14 b_15 b_16 : N) (out : N*N*N*N*N*N*N*N*N) : Prop :=
  let '(c0, c1, c2, c3, c4, c5, c6, c7, c8) := out in
  loose9 c0 c1 c2 c3 c4 c5 c6 c7 c8 /\
  ((Z.of_N (value9 c0 c1 c2 c3 c4 c5 c6 c7 c8) * 2 ^ 257) mod gen_P = Z.of_N (value17 b_0 b_1 b_2 b_3 b_4 b_5 b_6 b_7 b_8 b_9 b_10 b_11 b_12 b_13 b_14 b_15 b_16) mod gen_P)%Z.

Theorem gen_ReduceDegree_correct : forall b_0 b_1 b_2 b_3 b_4 b_5 b_6 b_7 b_8 b_9 b_10 b_11 b_12 b_13 b_14 b_15 b_16,
  b_0 <= 18446744073709551615 -> b_1 <= 18446744073709551615 -> b_2 <= 18446744073709551615 -> b_3 <= 18446744073709551615 -> b_4 <= 18446744073709551615 -> b_5 <= 18446744073709551615 -> b_6 <= 18446744073709551615 -> b_7 <= 18446744073709551615 -> b_8 <= 18446744073709551615 -> b_9 <= 18446744073709551615 -> b_10 <= 18446744073709551615 -> b_11 <= 18446744073709551615 -> b_12 <= 18446744073709551615 -> b_13 <= 18446744073709551615 -> b_14 <= 18446744073709551615 -> b_15 <= 18446744073709551615 -> b_16 <= 1152921504606846975 ->
  rd_post b_0 b_1 b_2 b_3 b_4 b_5 b_6 b_7 b_8 b_9 b_10 b_11 b_12 b_13 b_14 b_15 b_16 (gen_sm2P256ReduceDegree b_0 b_1 b_2 b_3 b_4 b_5 b_6 b_7 b_8 b_9 b_10 b_11 b_12 b_13 b_14 b_15 b_16).
Proof.
  intros b_0 b_1 b_2 b_3 b_4 b_5 b_6 b_7 b_8 b_9 b_10 b_11 b_12 b_13 b_14 b_15 b_16 H0 H1 H2 H3 H4 H5 H6 H7 H8 H9 H10 H11 H12 H13 H14 H15 H16.
  cbv beta delta [gen_sm2P256ReduceDegree].
  pose proof (gen_rd_unpack_correct b_0 b_1 b_2 b_3 b_4 b_5 b_6 b_7 b_8 b_9 b_10 b_11 b_12 b_13 b_14 b_15 b_16 H0 H1 H2 H3 H4 H5 H6 H7 H8 H9 H10 H11 H12 H13 H14 H15 H16) as SU.
  destruct (gen_rd_unpack b_0 b_1 b_2 b_3 b_4 b_5 b_6 b_7 b_8 b_9 b_10 b_11 b_12 b_13 b_14 b_15 b_16) as [[[[[[[[[[[[[[[[[u0 u1] u2] u3] u4] u5] u6] u7] u8] u9] u10] u11] u12] u13] u14] u15] u16] u17].
  unfold unpack_post in SU. destruct SU as (BU & BU17 & VU).
  pose proof (gen_rd_eliminate_correct u0 u1 u2 u3 u4 u5 u6 u7 u8 u9 u10 u11 u12 u13 u14 u15 u16 u17 ltac:(clear - BU BU17; tauto)) as SE.
  destruct (gen_rd_eliminate u0 u1 u2 u3 u4 u5 u6 u7 u8 u9 u10 u11 u12 u13 u14 u15 u16 u17) as [[[[[[[[[[[[[[[[[e0 e1] e2] e3] e4] e5] e6] e7] e8] e9] e10] e11] e12] e13] e14] e15] e16] e17].
  unfold elim_post in SE. destruct SE as (ZE & BE & (m & VE)).
  pose proof (gen_rd_repack_correct e9 e10 e11 e12 e13 e14 e15 e16 e17 BE) as SR.
  cbv beta iota.
  destruct (gen_rd_repack e9 e10 e11 e12 e13 e14 e15 e16 e17) as [[[[[[[[c0 c1] c2] c3] c4] c5] c6] c7] c8].
  unfold repack_post in SR. destruct SR as (LR & (k & Hk & VR)).
  unfold rd_post. split; [exact LR|].
  destruct (carry_row_div k Hk) as (d & Hd).
  repeat match goal with H : _ /\ _ |- _ => destruct H end. subst.
  assert (EQ : (Z.of_N (value9 c0 c1 c2 c3 c4 c5 c6 c7 c8) * 2 ^ 257 =
                Z.of_N (value17 b_0 b_1 b_2 b_3 b_4 b_5 b_6 b_7 b_8 b_9 b_10 b_11 b_12 b_13 b_14 b_15 b_16) + (Z.of_N m - d * 2 ^ 257) * gen_P)%Z).
  { unfold value18, hi_value, R257, pN in *.
    set (vc := value9 c0 c1 c2 c3 c4 c5 c6 c7 c8) in *. set (vb := value17 b_0 b_1 b_2 b_3 b_4 b_5 b_6 b_7 b_8 b_9 b_10 b_11 b_12 b_13 b_14 b_15 b_16) in *. set (cr := carry_row_value k) in *.
    clearbody vc vb cr.
    repeat match goal with H : _ <= _ |- _ => clear H end.
    change gen_P with 115792089210356248756420345214020892766250353991924191454421193933289684991999%Z in *.
    lia. }
  rewrite EQ. apply Z_mod_plus_full.
Qed.

(* ---------- list level: ReduceDegree, Mul, Square ---------------------------------------------------------------------- *)
Theorem ReduceDegree_limbs_correct : forall b, largeOK b ->
  looseL (sm2P256ReduceDegree_limbs b) /\
  ((limbs_valueN (sm2P256ReduceDegree_limbs b) * 2 ^ 257) mod gen_P = large_valueN b mod gen_P)%Z.
Proof.
  intros b (HL & HF & H16).
  destruct b as [|t0 [|t1 [|t2 [|t3 [|t4 [|t5 [|t6 [|t7 [|t8 [|t9 [|t10 [|t11 [|t12 [|t13 [|t14 [|t15 [|t16 [|? ?]]]]]]]]]]]]]]]]]];
    try discriminate.
  cbn [sm2P256ReduceDegree_limbs]. cbn [nth] in H16.
  repeat match goal with H : Forall _ (_ :: _) |- _ => inversion H; clear H; subst end.
  change (2 ^ 63) with 9223372036854775808 in *. change (2 ^ 60) with 1152921504606846976 in *.
  pose proof (gen_ReduceDegree_correct t0 t1 t2 t3 t4 t5 t6 t7 t8 t9 t10 t11 t12 t13 t14 t15 t16
    ltac:(lia) ltac:(lia) ltac:(lia) ltac:(lia) ltac:(lia) ltac:(lia) ltac:(lia) ltac:(lia) ltac:(lia) ltac:(lia)
    ltac:(lia) ltac:(lia) ltac:(lia) ltac:(lia) ltac:(lia) ltac:(lia) ltac:(lia)) as H.
  destruct (gen_sm2P256ReduceDegree t0 t1 t2 t3 t4 t5 t6 t7 t8 t9 t10 t11 t12 t13 t14 t15 t16) as [[[[[[[[c0 c1] c2] c3] c4] c5] c6] c7] c8].
  unfold rd_post in H. destruct H as (HLo & HV). split; [exact HLo|].
  rewrite limbs_valueN_9, large_valueN_17. exact HV.
Qed.

Lemma Mul_limbs_is_reduce : forall a b, looseL a -> looseL b ->
  sm2P256Mul_limbs a b = sm2P256ReduceDegree_limbs (sm2P256Mul_product a b).
Proof.
  intros a b Ha Hb. destruct a as [|a0 [|a1 [|a2 [|a3 [|a4 [|a5 [|a6 [|a7 [|a8 [|? ?]]]]]]]]]]; try contradiction.
  destruct b as [|b0 [|b1 [|b2 [|b3 [|b4 [|b5 [|b6 [|b7 [|b8 [|? ?]]]]]]]]]]; try contradiction.
  cbn [sm2P256Mul_limbs sm2P256Mul_product]. unfold gen_sm2P256Mul.
  destruct (gen_sm2P256Mul_product a0 a1 a2 a3 a4 a5 a6 a7 a8 b0 b1 b2 b3 b4 b5 b6 b7 b8) as [[[[[[[[[[[[[[[[t0 t1] t2] t3] t4] t5] t6] t7] t8] t9] t10] t11] t12] t13] t14] t15] t16].
  reflexivity.
Qed.

Lemma Square_limbs_is_reduce : forall a, looseL a ->
  sm2P256Square_limbs a = sm2P256ReduceDegree_limbs (sm2P256Square_product a).
Proof.
  intros a Ha. destruct a as [|a0 [|a1 [|a2 [|a3 [|a4 [|a5 [|a6 [|a7 [|a8 [|? ?]]]]]]]]]]; try contradiction.
  cbn [sm2P256Square_limbs sm2P256Square_product]. unfold gen_sm2P256Square.
  destruct (gen_sm2P256Square_product a0 a1 a2 a3 a4 a5 a6 a7 a8) as [[[[[[[[[[[[[[[[t0 t1] t2] t3] t4] t5] t6] t7] t8] t9] t10] t11] t12] t13] t14] t15] t16].
  reflexivity.
Qed.

(* sm2P256Mul: Montgomery product, value(out) * 2^257 = value(a) * value(b) (mod p), loose result *)
Theorem Mul_limbs_correct : forall a b, looseL a -> looseL b ->
  looseL (sm2P256Mul_limbs a b) /\
  ((limbs_valueN (sm2P256Mul_limbs a b) * 2 ^ 257) mod gen_P = (limbs_valueN a * limbs_valueN b) mod gen_P)%Z.
Proof.
  intros a b Ha Hb. rewrite Mul_limbs_is_reduce by assumption.
  destruct (Mul_product_correct a b Ha Hb) as (HO & HV).
  destruct (ReduceDegree_limbs_correct _ HO) as (HL & HR). split; [exact HL|]. rewrite HR, HV. reflexivity.
Qed.

Theorem Square_limbs_correct : forall a, looseL a ->
  looseL (sm2P256Square_limbs a) /\
  ((limbs_valueN (sm2P256Square_limbs a) * 2 ^ 257) mod gen_P = (limbs_valueN a * limbs_valueN a) mod gen_P)%Z.
Proof.
  intros a Ha. rewrite Square_limbs_is_reduce by assumption.
  destruct (Square_product_correct a Ha) as (HO & HV).
  destruct (ReduceDegree_limbs_correct _ HO) as (HL & HR). split; [exact HL|]. rewrite HR, HV. reflexivity.
Qed.
