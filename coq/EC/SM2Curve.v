(* The SM2 recommended curve, typed from GM/T 0003.5-2012 (never from the Go code), the affine
   group operations instantiated on it, and the record SM2Facts of mathematical facts about these
   parameters (primality, associativity, order of G).  SM2Facts is an explicit premise of the theorems
   that need it, never assumed globally; it is PROVED in coq/Prime/SM2FactsProof.v (SM2Facts_proved:
   Pocklington certificates for p and n, associativity from coq/SM2/ECAssoc*.v), and coq/Props/SM2Premises.v
   restates the theorems without the premise.

   STABLE INTERFACE: sm2_p sm2_a sm2_b sm2_n sm2_Gx sm2_Gy sm2_curve sm2_G
                     sm2_on_curve sm2_valid sm2_neg sm2_double sm2_add sm2_mul sm2_base_mul SM2Facts *)
From Coq Require Import ZArith Znumtheory.
From GmsmVerif Require Import EC.ECAffine.
Open Scope Z_scope.

(* GM/T 0003.5: p, a, b, n, xG, yG *)
Definition sm2_p  : Z := 0xFFFFFFFEFFFFFFFFFFFFFFFFFFFFFFFFFFFFFFFF00000000FFFFFFFFFFFFFFFF.
Definition sm2_a  : Z := 0xFFFFFFFEFFFFFFFFFFFFFFFFFFFFFFFFFFFFFFFF00000000FFFFFFFFFFFFFFFC.
Definition sm2_b  : Z := 0x28E9FA9E9D9F5E344D5A9E4BCF6509A7F39789F515AB8F92DDBCBD414D940E93.
Definition sm2_n  : Z := 0xFFFFFFFEFFFFFFFFFFFFFFFFFFFFFFFF7203DF6B21C6052B53BBF40939D54123.
Definition sm2_Gx : Z := 0x32C4AE2C1F1981195F9904466A39C9948FE30BBFF2660BE1715A4589334C74C7.
Definition sm2_Gy : Z := 0xBC3736A2F4F6779C59BDCEE36B692153D0A9877CC62A474002DF32E52139F0A0.

Definition sm2_curve : curve := mkCurve sm2_p sm2_a sm2_b.
Definition sm2_G : point := Some (sm2_Gx, sm2_Gy).

Definition sm2_on_curve (x y : Z) : bool := on_curve sm2_curve x y.
Definition sm2_valid (P : point) : bool := point_ok sm2_curve P.
Definition sm2_neg (P : point) : point := ec_neg sm2_curve P.
Definition sm2_double (P : point) : point := ec_double sm2_curve P.
Definition sm2_add (P Q : point) : point := ec_add sm2_curve P Q.
Definition sm2_mul (k : Z) (P : point) : point := ec_mul sm2_curve k P.
Definition sm2_base_mul (k : Z) : point := ec_mul sm2_curve k sm2_G.

(* Facts about the parameters that are premises, never assumed globally:
   p and n are prime; the chord-and-tangent law is associative on the points of the curve;
   G lies on the curve and has order exactly n. *)
Record SM2Facts : Prop := mkSM2Facts {
  sm2_p_prime : prime sm2_p;
  sm2_n_prime : prime sm2_n;
  sm2_add_assoc : forall P Q R : point,
      sm2_valid P = true -> sm2_valid Q = true -> sm2_valid R = true ->
      sm2_add (sm2_add P Q) R = sm2_add P (sm2_add Q R);
  sm2_G_on_curve : sm2_on_curve sm2_Gx sm2_Gy = true;
  sm2_nG_infinity : sm2_mul sm2_n sm2_G = None;
  sm2_kG_finite : forall k, 0 < k < sm2_n -> sm2_mul k sm2_G <> None
}.

(* a = p - 3, as the standard's value says and as the doubling formula of the code relies on *)
Example sm2_a_is_p_minus_3 : sm2_a = sm2_p - 3.
Proof. reflexivity. Qed.

Example sm2_G_valid : sm2_valid sm2_G = true.
Proof. vm_compute. reflexivity. Qed.
