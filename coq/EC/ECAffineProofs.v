(* Lemmas about EC/ECAffine.v.  Part 1: the modular inverse, and Z mod p as a field (setoid).
   Part 2: the affine law of ECAffine is the generic law of EC/JacFormulas.v over that field; it stays
   on the curve, is commutative, has neutral element and opposites (needs only: p prime, p > 3). *)
From Coq Require Import ZArith Znumtheory Lia Ring Field Setoid Morphisms Bool.
From GmsmVerif Require Import EC.ECAffine EC.JacFormulas.
Open Scope Z_scope.

(* ---------- extended Euclid ---------------------------------------------------------------- *)
Lemma egcd_spec : forall fuel r0 r1 s0 s1 x m g s,
  0 <= r1 < r0 -> r0 * r1 < 2 ^ Z.of_nat fuel ->
  (exists k, r0 = s0 * x + k * m) -> (exists k, r1 = s1 * x + k * m) ->
  egcd fuel r0 r1 s0 s1 = (g, s) ->
  Zis_gcd r0 r1 g /\ 0 < g /\ exists k, g = s * x + k * m.
Proof.
  induction fuel as [|f IH]; intros r0 r1 s0 s1 x m g s Hr Hp H0 H1 He.
  - cbn [egcd] in He. injection He as <- <-.
    change (Z.of_nat 0) with 0 in Hp. change (2 ^ 0) with 1 in Hp.
    assert (r1 = 0) by nia. subst r1.
    split; [apply Zis_gcd_0|]. split; [lia|exact H0].
  - cbn [egcd] in He. destruct (Z.eqb_spec r1 0) as [E|E].
    + injection He as <- <-. subst r1. split; [apply Zis_gcd_0|]. split; [lia|exact H0].
    + assert (Hq : r0 - r0 / r1 * r1 = r0 mod r1) by (rewrite Z.mod_eq by lia; ring).
      assert (Hm : 0 <= r0 mod r1 < r1) by (apply Z.mod_pos_bound; lia).
      apply IH with (x := x) (m := m) in He.
      * destruct He as (Hg & Hpos & Hk). split; [|split; assumption].
        apply Zis_gcd_for_euclid with (q := r0 / r1). exact Hg.
      * rewrite Hq. exact Hm.
      * rewrite Hq. rewrite Nat2Z.inj_succ, Z.pow_succ_r in Hp by lia.
        pose proof (Z.div_mod r0 r1 E). assert (1 <= r0 / r1) by (apply Z.div_le_lower_bound; lia).
        nia.
      * exact H1.
      * destruct H0 as (k0 & E0). destruct H1 as (k1 & E1).
        exists (k0 - r0 / r1 * k1). rewrite E0 at 1. rewrite E1 at 2. ring.
Qed.

Lemma modinv_range : forall x m, 1 < m -> 0 <= modinv x m < m.
Proof.
  intros x m Hm. unfold modinv.
  destruct (egcd _ _ _ _ _) as [g s]. destruct (g =? 1).
  - apply Z.mod_pos_bound. lia.
  - lia.
Qed.

Lemma modinv_0 : forall x m, 1 < m -> x mod m = 0 -> modinv x m = 0.
Proof.
  intros x m Hm Hx. unfold modinv. rewrite Hx. cbn [egcd]. cbn [Z.eqb].
  destruct (Z.eqb_spec m 1); [lia|reflexivity].
Qed.

Lemma modinv_correct : forall m x, prime m -> x mod m <> 0 -> (x * modinv x m) mod m = 1.
Proof.
  intros m x Hp Hx. pose proof (prime_ge_2 _ Hp) as Hm2.
  assert (Hr : 0 < x mod m < m) by (pose proof (Z.mod_pos_bound x m); lia).
  unfold modinv.
  destruct (egcd (S (Z.to_nat (2 * Z.log2_up m))) m (x mod m) 0 1) as [g s] eqn:He.
  apply egcd_spec with (x := x mod m) (m := m) in He.
  - destruct He as (Hg & Hpos & (k & Hk)).
    assert (Hg1 : g = 1).
    { assert (Hrel : rel_prime m (x mod m)).
      { apply rel_prime_sym. apply rel_prime_le_prime; [exact Hp|lia]. }
      destruct (Zis_gcd_unique _ _ _ _ Hg Hrel); lia. }
    rewrite Hg1 in *. clear Hg1. change (1 =? 1) with true. cbv iota.
    rewrite Z.mul_mod_idemp_r by lia. rewrite <- Z.mul_mod_idemp_l by lia.
    replace (x mod m * s) with (1 + (- k) * m) by lia.
    rewrite Z.mod_add by lia. apply Z.mod_small. lia.
  - lia.
  - rewrite Nat2Z.inj_succ, Z2Nat.id by (pose proof (Z.log2_up_nonneg m); lia).
    rewrite Z.pow_succ_r by (pose proof (Z.log2_up_nonneg m); lia).
    replace (2 * Z.log2_up m) with (Z.log2_up m + Z.log2_up m) by ring.
    rewrite Z.pow_add_r by apply Z.log2_up_nonneg.
    pose proof (Z.log2_up_spec m ltac:(lia)) as [_ Hle]. nia.
  - exists 1. ring.
  - exists 0. ring.
Qed.

(* ---------- Z mod p as a field, with equality "congruent mod p" --------------------------- *)
Section Fp.
  Variable p : Z.
  Hypothesis p_prime : prime p.

  Definition feq (x y : Z) : Prop := x mod p = y mod p.
  Definition finv (x : Z) : Z := modinv x p.
  Definition fdiv (x y : Z) : Z := x * modinv y p.

  Lemma p_gt_1 : 1 < p.
  Proof. pose proof (prime_ge_2 _ p_prime). lia. Qed.

  Global Instance feq_equiv : Equivalence feq.
  Proof. split; unfold feq; congruence. Qed.

  Global Instance add_proper : Proper (feq ==> feq ==> feq) Z.add.
  Proof. intros a b H c d H'. unfold feq in *. rewrite Z.add_mod, H, H', <- Z.add_mod; pose proof p_gt_1; lia. Qed.
  Global Instance mul_proper : Proper (feq ==> feq ==> feq) Z.mul.
  Proof. intros a b H c d H'. unfold feq in *. rewrite Z.mul_mod, H, H', <- Z.mul_mod; pose proof p_gt_1; lia. Qed.
  Global Instance opp_proper : Proper (feq ==> feq) Z.opp.
  Proof.
    intros a b H. unfold feq in *. pose proof p_gt_1.
    replace (- a) with (0 - a) by ring. replace (- b) with (0 - b) by ring.
    rewrite Zminus_mod, H, <- Zminus_mod. reflexivity.
  Qed.
  Global Instance sub_proper : Proper (feq ==> feq ==> feq) Z.sub.
  Proof. intros a b H c d H'. unfold feq in *. rewrite Zminus_mod, H, H', <- Zminus_mod. reflexivity. Qed.
  Global Instance finv_proper : Proper (feq ==> feq) finv.
  Proof. intros a b H. unfold feq, finv, modinv in *. rewrite H. reflexivity. Qed.
  Global Instance fdiv_proper : Proper (feq ==> feq ==> feq) fdiv.
  Proof. intros a b H c d H'. unfold fdiv. apply mul_proper; [exact H|]. apply finv_proper. exact H'. Qed.

  Lemma mod_feq : forall x, feq (x mod p) x.
  Proof. intros x. unfold feq. apply Z.mod_mod. pose proof p_gt_1. lia. Qed.

  Lemma feq_0 : forall x, feq x 0 <-> x mod p = 0.
  Proof. intros x. unfold feq. rewrite Z.mod_0_l by (pose proof p_gt_1; lia). tauto. Qed.

  Lemma feq_mod_eq : forall x y, feq x y -> x mod p = y mod p.
  Proof. intros x y H. exact H. Qed.

  Lemma Fp_ring : ring_theory 0 1 Z.add Z.mul Z.sub Z.opp feq.
  Proof.
    constructor; intros; unfold feq; f_equal; ring.
  Qed.

  Lemma Fp_ring_ext : ring_eq_ext Z.add Z.mul Z.opp feq.
  Proof. constructor; [exact add_proper|exact mul_proper|exact opp_proper]. Qed.

  Lemma Fp_field : field_theory 0 1 Z.add Z.mul Z.sub Z.opp fdiv finv feq.
  Proof.
    constructor.
    - exact Fp_ring.
    - unfold feq. pose proof p_gt_1. rewrite Z.mod_1_l, Z.mod_0_l by lia. lia.
    - intros x y. unfold fdiv, finv. reflexivity.
    - intros x Hx. unfold feq, finv. rewrite Z.mul_comm.
      rewrite modinv_correct; [symmetry; apply Z.mod_1_l; exact p_gt_1|exact p_prime|].
      intro H0. apply Hx. apply feq_0. exact H0.
  Qed.

  Lemma finv_0 : finv 0 = 0.
  Proof. unfold finv. apply modinv_0; [exact p_gt_1|]. apply Z.mod_0_l. pose proof p_gt_1. lia. Qed.

  (* p odd and > 3 gives 2 <> 0 and 3 <> 0 *)
  Lemma small_neq_0 : forall k, 0 < k < p -> ~ feq k 0.
  Proof. intros k Hk H. apply (proj1 (feq_0 _)) in H. rewrite Z.mod_small in H by lia. lia. Qed.

  (* integral domain *)
  Lemma feq_mul_0 : forall x y, feq (x * y) 0 -> feq x 0 \/ feq y 0.
  Proof.
    intros x y H. apply (proj1 (feq_0 _)) in H. apply Zmod_divide in H; [|pose proof p_gt_1; lia].
    destruct (prime_mult _ p_prime _ _ H) as [D|D]; [left|right]; apply feq_0; apply Zdivide_mod; exact D.
  Qed.
End Fp.

(* ---------- Part 2 -------------------------------------------------------------------------- *)
Section Curve.
  Variable c : curve.
  Notation p := (cp c).
  Hypothesis Hp : prime p.
  Hypothesis Hp3 : 3 < p.

  Local Instance i_add : Proper (feq p ==> feq p ==> feq p) Z.add := add_proper p Hp.
  Local Instance i_mul : Proper (feq p ==> feq p ==> feq p) Z.mul := mul_proper p Hp.
  Local Instance i_sub : Proper (feq p ==> feq p ==> feq p) Z.sub := sub_proper p.
  Local Instance i_opp : Proper (feq p ==> feq p) Z.opp := opp_proper p Hp.
  Local Instance i_inv : Proper (feq p ==> feq p) (finv p) := finv_proper p.
  Local Instance i_div : Proper (feq p ==> feq p ==> feq p) (fdiv p) := fdiv_proper p Hp.
  Add Field FpField : (Fp_field p Hp) (setoid (feq_equiv p) (Fp_ring_ext p Hp), constants [Zcst]).

  Notation "x == y" := (feq p x y) (at level 70).
  Notation AD := (aff_double Z 1 Z.add Z.mul Z.sub (fdiv p) (ca c)).
  Notation AA := (aff_add Z Z.mul Z.sub (fdiv p)).
  Notation OC := (on_curve_F Z Z.add Z.mul (feq p) (ca c) (cb c)).

  Lemma p_pos : 0 < p.
  Proof. lia. Qed.

  Lemma two_neq : ~ c2 Z 1 Z.add == 0.
  Proof. apply small_neq_0; [exact Hp|]. unfold c2. lia. Qed.

  Lemma feq_red : forall x y, x == y -> 0 <= x < p -> 0 <= y < p -> x = y.
  Proof. intros x y H Hx Hy. unfold feq in H. rewrite !Z.mod_small in H by lia. exact H. Qed.

  Lemma modp_range : forall x, 0 <= x mod p < p.
  Proof. intros. apply Z.mod_pos_bound. lia. Qed.

  Lemma on_curve_OC : forall x y, on_curve c x y = true <-> OC x y.
  Proof. intros x y. unfold on_curve, on_curve_F, feq. apply Z.eqb_eq. Qed.

  Global Instance OC_proper : Proper (feq p ==> feq p ==> iff) OC.
  Proof. intros x x' Hx y y' Hy. unfold on_curve_F. rewrite Hx, Hy. tauto. Qed.

  Lemma ec_double_AD : forall x y, y mod p <> 0 ->
    ec_double c (Some (x, y)) = Some (fst (AD x y) mod p, snd (AD x y) mod p).
  Proof.
    intros x y Hy. unfold ec_double. destruct (Z.eqb_spec (y mod p) 0); [contradiction|].
    assert (E1 : ((3 * x * x + ca c) * modinv (2 * y) p) mod p == (3 * x * x + ca c) * modinv (2 * y) p)
      by apply (mod_feq p Hp).
    f_equal. f_equal.
    - apply feq_mod_eq. rewrite E1. unfold aff_double; cbn [fst]. reflexivity.
    - apply feq_mod_eq. rewrite (mod_feq p Hp (_ - 2 * x)). rewrite E1.
      unfold aff_double; cbn [snd]. reflexivity.
  Qed.

  Lemma ec_add_AA : forall x1 y1 x2 y2, (x1 - x2) mod p <> 0 ->
    ec_add c (Some (x1, y1)) (Some (x2, y2)) =
    Some (fst (AA x1 y1 x2 y2) mod p, snd (AA x1 y1 x2 y2) mod p).
  Proof.
    intros x1 y1 x2 y2 Hx. unfold ec_add. destruct (Z.eqb_spec ((x1 - x2) mod p) 0); [contradiction|].
    assert (E1 : ((y2 - y1) * modinv (x2 - x1) p) mod p == (y2 - y1) * modinv (x2 - x1) p)
      by apply (mod_feq p Hp).
    f_equal. f_equal.
    - apply feq_mod_eq. rewrite E1. unfold aff_add; cbn [fst]. reflexivity.
    - apply feq_mod_eq. rewrite (mod_feq p Hp (_ - x1 - x2)). rewrite E1.
      unfold aff_add; cbn [snd]. reflexivity.
  Qed.

  Lemma sub_swap_neq : forall x1 x2, (x1 - x2) mod p <> 0 -> ~ x2 - x1 == 0.
  Proof.
    intros x1 x2 H E. apply H. apply (proj1 (feq_0 p Hp _)).
    transitivity (0 - (x2 - x1)); [ring|]. rewrite E. reflexivity.
  Qed.

  (* point_ok unpacked *)
  Lemma point_ok_some : forall x y,
    point_ok c (Some (x, y)) = true <-> (0 <= x < p /\ 0 <= y < p /\ OC x y).
  Proof.
    intros x y. unfold point_ok. rewrite !andb_true_iff, !Z.leb_le, !Z.ltb_lt, on_curve_OC. tauto.
  Qed.

  Theorem ec_neg_ok : forall P, point_ok c P = true -> point_ok c (ec_neg c P) = true.
  Proof.
    intros [[x y]|] H; [|reflexivity]. apply point_ok_some in H. destruct H as (Hx & Hy & Hc).
    unfold ec_neg. apply point_ok_some. split; [exact Hx|]. split; [apply modp_range|].
    rewrite (mod_feq p Hp (- y)). unfold on_curve_F in *. rewrite <- Hc. ring.
  Qed.

  Theorem ec_double_ok : forall P, point_ok c P = true -> point_ok c (ec_double c P) = true.
  Proof.
    intros [[x y]|] H; [|reflexivity]. apply point_ok_some in H. destruct H as (Hx & Hy & Hc).
    destruct (Z.eq_dec (y mod p) 0) as [E|E].
    - unfold ec_double. rewrite E. reflexivity.
    - rewrite ec_double_AD by exact E. apply point_ok_some.
      split; [apply modp_range|]. split; [apply modp_range|].
      rewrite !(mod_feq p Hp).
      apply (aff_double_on_curve Z 0 1 Z.add Z.mul Z.sub Z.opp (fdiv p) (finv p) (feq p) (Fp_field p Hp)).
      + exact two_neq.
      + exact Hc.
      + intro H0. apply E. apply (proj1 (feq_0 p Hp _)). exact H0.
  Qed.

  Theorem ec_add_ok : forall P Q,
    point_ok c P = true -> point_ok c Q = true -> point_ok c (ec_add c P Q) = true.
  Proof.
    intros [[x1 y1]|] [[x2 y2]|] HP HQ; try assumption.
    destruct (Z.eq_dec ((x1 - x2) mod p) 0) as [E|E].
    - unfold ec_add. rewrite E. cbn [Z.eqb]. destruct (_ =? 0); [reflexivity|].
      apply ec_double_ok. exact HP.
    - rewrite ec_add_AA by exact E.
      apply point_ok_some in HP. destruct HP as (Hx1 & Hy1 & Hc1).
      apply point_ok_some in HQ. destruct HQ as (Hx2 & Hy2 & Hc2).
      apply point_ok_some. split; [apply modp_range|]. split; [apply modp_range|].
      rewrite !(mod_feq p Hp).
      apply (aff_add_on_curve Z 0 1 Z.add Z.mul Z.sub Z.opp (fdiv p) (finv p) (feq p) (Fp_field p Hp));
        [exact Hc1|exact Hc2|apply sub_swap_neq; exact E].
  Qed.

  Lemma ec_add_0_l : forall P, ec_add c None P = P.
  Proof. reflexivity. Qed.
  Lemma ec_add_0_r : forall P, ec_add c P None = P.
  Proof. intros [[x y]|]; reflexivity. Qed.

  (* x1 = x2 on the curve: the ordinates are equal or opposite *)
  Lemma same_x_cases : forall x y1 y2, OC x y1 -> OC x y2 -> y1 == y2 \/ (y1 + y2) mod p = 0.
  Proof.
    intros x y1 y2 H1 H2.
    pose proof (same_x_ys Z 0 1 Z.add Z.mul Z.sub Z.opp (fdiv p) (finv p) (feq p) (Fp_field p Hp)
                  (ca c) (cb c) x y1 x y2 H1 H2 ltac:(reflexivity)) as H.
    destruct (feq_mul_0 p Hp _ _ H) as [D|D].
    - left. transitivity ((y1 - y2) + y2); [ring|]. rewrite D. ring.
    - right. apply (proj1 (feq_0 p Hp _)). exact D.
  Qed.

  Lemma double_y_0 : forall y, (y + y) mod p = 0 <-> y mod p = 0.
  Proof.
    intros y. rewrite <- !(feq_0 p Hp). split; intro H.
    - assert (H' : 2 * y == 0) by (rewrite <- H; ring).
      destruct (feq_mul_0 p Hp _ _ H') as [D|D]; [|exact D].
      exfalso. revert D. apply small_neq_0; [exact Hp|lia].
    - rewrite H. reflexivity.
  Qed.

  Theorem ec_double_add : forall P, ec_add c P P = ec_double c P.
  Proof.
    intros [[x y]|]; [|reflexivity]. unfold ec_add. rewrite Z.sub_diag, Z.mod_0_l by lia.
    cbn [Z.eqb]. destruct (Z.eqb_spec ((y + y) mod p) 0) as [E|E]; [|reflexivity].
    apply (proj1 (double_y_0 y)) in E. unfold ec_double. rewrite E. reflexivity.
  Qed.

  Theorem ec_add_neg : forall P, point_ok c P = true -> ec_add c P (ec_neg c P) = None.
  Proof.
    intros [[x y]|] H; [|reflexivity]. unfold ec_neg, ec_add.
    rewrite Z.sub_diag, Z.mod_0_l by lia. cbn [Z.eqb].
    rewrite Z.add_mod_idemp_r by lia. rewrite Z.add_opp_diag_r, Z.mod_0_l by lia. reflexivity.
  Qed.

  Theorem ec_add_comm : forall P Q,
    point_ok c P = true -> point_ok c Q = true -> ec_add c P Q = ec_add c Q P.
  Proof.
    intros [[x1 y1]|] [[x2 y2]|] HP HQ; try reflexivity.
    destruct (Z.eq_dec ((x1 - x2) mod p) 0) as [E|E].
    - assert (E' : (x2 - x1) mod p = 0).
      { apply (proj1 (feq_0 p Hp _)). transitivity (0 - (x1 - x2)); [ring|].
        rewrite (proj2 (feq_0 p Hp _) E). reflexivity. }
      unfold ec_add. rewrite E, E'. cbn [Z.eqb]. rewrite (Z.add_comm y2 y1).
      destruct (Z.eqb_spec ((y1 + y2) mod p) 0) as [S|S]; [reflexivity|].
      apply point_ok_some in HP. destruct HP as (Hx1 & Hy1 & Hc1).
      apply point_ok_some in HQ. destruct HQ as (Hx2 & Hy2 & Hc2).
      assert (x1 = x2).
      { apply feq_red; [|assumption|assumption].
        transitivity ((x1 - x2) + x2); [ring|].
        rewrite (proj2 (feq_0 p Hp _) E). ring. }
      subst x2. destruct (same_x_cases x1 y1 y2 Hc1 Hc2) as [D|D]; [|contradiction].
      assert (y1 = y2) by (apply feq_red; assumption). subst y2. reflexivity.
    - assert (E' : (x2 - x1) mod p <> 0).
      { intro H. apply (sub_swap_neq _ _ E). apply (proj2 (feq_0 p Hp _)). exact H. }
      rewrite !ec_add_AA by assumption.
      destruct (aff_add_comm Z 0 1 Z.add Z.mul Z.sub Z.opp (fdiv p) (finv p) (feq p) (Fp_field p Hp)
                  x1 y1 x2 y2 (sub_swap_neq _ _ E)) as [A B].
      f_equal. f_equal; apply feq_mod_eq; assumption.
  Qed.

  Lemma modinv_1 : modinv 1 p = 1.
  Proof.
    pose proof (modinv_correct p 1 Hp) as H. rewrite Z.mod_1_l in H by lia.
    specialize (H ltac:(lia)). rewrite Z.mul_1_l in H.
    pose proof (modinv_range 1 p ltac:(lia)). rewrite Z.mod_small in H by lia. exact H.
  Qed.
End Curve.
