(* big.Int <-> byte string helpers of EC/P256Model.v: Bytes() after SetBytes() and back. *)
From Coq Require Import ZArith NArith List Lia.
From GmsmVerif Require Import EC.P256Model.
Import ListNotations.
Open Scope Z_scope.

Definition le_value (l : list N) : Z := fold_right (fun v acc => acc * 256 + Z.of_N v) 0 l.

Lemma os2ip_rev : forall l, os2ip (rev l) = le_value l.
Proof.
  intros l. unfold os2ip, le_value. rewrite <- fold_left_rev_right, rev_involutive. reflexivity.
Qed.

Lemma le_bytes_value : forall fuel x, 0 <= x < 256 ^ Z.of_nat fuel -> le_value (le_bytes fuel x) = x.
Proof.
  induction fuel as [|f IH]; intros x Hx.
  - change (256 ^ Z.of_nat 0) with 1 in Hx. cbn. lia.
  - cbn [le_bytes]. destruct (Z.leb_spec x 0) as [H0|H0]; [cbn; lia|].
    cbn [le_value fold_right]. fold (le_value (le_bytes f (x / 256))).
    rewrite IH.
    + rewrite Z2N.id by (apply Z.mod_pos_bound; lia). pose proof (Z.div_mod x 256 ltac:(lia)). lia.
    + rewrite Nat2Z.inj_succ, Z.pow_succ_r in Hx by lia. split; [apply Z.div_pos; lia|].
      apply Z.div_lt_upper_bound; lia.
Qed.

Lemma le_bytes_length : forall fuel x m, 0 <= x < 256 ^ Z.of_nat m -> (length (le_bytes fuel x) <= m)%nat.
Proof.
  induction fuel as [|f IH]; intros x m Hx; [cbn; lia|].
  cbn [le_bytes]. destruct (Z.leb_spec x 0) as [H0|H0]; [cbn; lia|].
  destruct m as [|m]; [change (256 ^ Z.of_nat 0) with 1 in Hx; lia|].
  cbn [length]. apply le_n_S. apply IH.
  rewrite Nat2Z.inj_succ, Z.pow_succ_r in Hx by lia. split; [apply Z.div_pos; lia|].
  apply Z.div_lt_upper_bound; lia.
Qed.

Lemma big_bytes_value : forall x, 0 <= x -> os2ip (big_bytes x) = x.
Proof.
  intros x Hx. unfold big_bytes. rewrite os2ip_rev. apply le_bytes_value.
  split; [exact Hx|]. destruct (Z.eq_dec x 0) as [->|Hn]; [apply Z.pow_pos_nonneg; lia|].
  pose proof (Z.log2_spec x ltac:(lia)) as [_ H]. pose proof (Z.log2_nonneg x).
  rewrite Nat2Z.inj_succ, Z2Nat.id by lia.
  eapply Z.lt_le_trans; [exact H|].
  change 256 with (2 ^ 8). rewrite <- Z.pow_mul_r by lia. apply Z.pow_le_mono_r; lia.
Qed.

Lemma big_bytes_length : forall x m, 0 <= x < 256 ^ Z.of_nat m -> (length (big_bytes x) <= m)%nat.
Proof. intros x m Hx. unfold big_bytes. rewrite rev_length. apply le_bytes_length. exact Hx. Qed.
