(* sm2P256ReduceDegree, parts (b)/(c): the even elimination step, for every window within the bound invariant. *)
From Coq Require Import ZArith NArith NArithRing List Bool Lia Zify.
From GmsmVerif Require Import EC.ECAffine EC.P256Model Gen.SM2Params Gen.P256Limbs EC.LimbModel EC.LimbTactics
  EC.LimbProofs EC.LimbReduceDefs.
Import ListNotations.
Open Scope N_scope.

Ltac Zify.zify_post_hook ::= Z.to_euclidean_division_equations.

Theorem gen_rd_step_even_correct : forall t0 t1 t2 t3 t4 t5 t6 t7 t8 t9,
  PE t0 t1 t2 t3 t4 t5 t6 t7 t8 t9 ->
  even_post t0 t1 t2 t3 t4 t5 t6 t7 t8 t9 (gen_rd_step_even t0 t1 t2 t3 t4 t5 t6 t7 t8 t9).
Proof.
  intros t0 t1 t2 t3 t4 t5 t6 t7 t8 t9 H. unfold PE in H. repeat match goal with H : _ /\ _ |- _ => destruct H end.
  cbv beta delta [gen_rd_step_even]. unfold_consts.
  exec; step_leaf even_post value10e.
Qed.
