(* The generated constants of /repo/sm2/p256.go (Gen/SM2Params.v, Gen/P256Tables.v) meet the side
   conditions of EC/P256Proofs.v, and the instantiated statements about Add_model, Double_model,
   IsOnCurve_model.  Everything here is re-proved against what the source says now. *)
From Coq Require Import ZArith Znumtheory Lia List Bool.
From GmsmVerif Require Import Lib.Outcome EC.ECAffine EC.SM2Curve EC.ECAffineProofs EC.P256Model EC.P256Proofs
  Gen.SM2Params Gen.P256Tables.
Import ListNotations.
Open Scope Z_scope.

(* ---------- the published parameters ------------------------------------------------------------ *)
Lemma params_are_GMT0003_5 :
  gen_P = sm2_p /\ gen_N = sm2_n /\ gen_A = sm2_a /\ gen_B = sm2_b /\ gen_Gx = sm2_Gx /\ gen_Gy = sm2_Gy /\
  gen_BitSize = 256.
Proof. repeat split; reflexivity. Qed.

Lemma gen_curve_is_sm2 : gen_curve = sm2_curve.
Proof. reflexivity. Qed.

Lemma G_on_curve : on_curve gen_curve gen_Gx gen_Gy = true /\ point_ok gen_curve (Some (gen_Gx, gen_Gy)) = true.
Proof. split; vm_compute; reflexivity. Qed.

(* R = 2^257 is the Montgomery factor of the 9-limb representation (29+28+...+29 = 257 bits) *)
Lemma RInverse_correct : (gen_RInverse * 2 ^ 257) mod gen_P = 1.
Proof. vm_compute. reflexivity. Qed.

(* ---------- limb constants ------------------------------------------------------------------------ *)
(* modulus of limb i: 2^29 for even i, 2^28 for odd i *)
Definition limb_mod (i : nat) : Z := if Nat.even i then 2 ^ 29 else 2 ^ 28.

Lemma bottom_bits_are_masks : gen_bottom29Bits = 2 ^ 29 - 1 /\ gen_bottom28Bits = 2 ^ 28 - 1.
Proof. split; reflexivity. Qed.

(* sm2P256Zero31 is 0 mod P, and in sm2P256Sub (c[i] = a[i] - b[i] + zero31[i] + carry on uint32) no
   limb can underflow or overflow as long as the operands' limbs are below twice the limb modulus -
   which every output of Mul/Square/Add/Sub is after sm2P256ReduceCarry:
   2*limb_mod i <= zero31[i]  and  zero31[i] + 2*limb_mod i + 8 <= 2^32 *)
Definition zero31_limb_ok (i : nat) (z : Z) : bool :=
  (2 * limb_mod i <=? z) && (z + 2 * limb_mod i + 8 <=? 2 ^ 32).

Fixpoint forallb_i {A} (f : nat -> A -> bool) (i : nat) (l : list A) : bool :=
  match l with [] => true | x :: t => f i x && forallb_i f (S i) t end.

Lemma Zero31_correct :
  length gen_sm2P256Zero31 = 9%nat /\
  limbs_value gen_sm2P256Zero31 mod gen_P = 0 /\
  forallb_i zero31_limb_ok 0 gen_sm2P256Zero31 = true.
Proof. repeat split; vm_compute; reflexivity. Qed.

(* sm2P256Carry[k] (added by sm2P256ReduceCarry for a carry k out of the top limb) is k*2^257 mod P
   with only limbs 0, 2, 3, 7 non-zero; sm2P256Factor[k] is the Montgomery form of k *)
Definition carry_row (k : nat) : list Z := slice gen_sm2P256Carry (k * 9) 9.

Lemma Carry_correct :
  length gen_sm2P256Carry = 72%nat /\
  forallb (fun k => (limbs_value (carry_row k) =? (Z.of_nat k * 2 ^ 257) mod gen_P) &&
                    forallb_i (fun i v => if existsb (Nat.eqb i) [0;2;3;7]%nat then true else v =? 0) 0 (carry_row k))
          (seq 0 8) = true.
Proof. split; vm_compute; reflexivity. Qed.

Lemma Factor_correct :
  length gen_sm2P256Factor = 9%nat /\
  forallb (fun k => (limbs_value (nth k gen_sm2P256Factor []) mod gen_P =? (Z.of_nat k * 2 ^ 257) mod gen_P) &&
                    (factor gen_curve gen_RInverse gen_sm2P256Factor k =? Z.of_nat k mod gen_P))
          (seq 0 9) = true.
Proof. split; vm_compute; reflexivity. Qed.

Lemma factor_value : forall k, (k <= 8)%nat ->
  factor gen_curve gen_RInverse gen_sm2P256Factor k = Z.of_nat k mod gen_P.
Proof.
  intros k Hk. destruct Factor_correct as [_ H]. rewrite forallb_forall in H.
  specialize (H k). rewrite in_seq in H. specialize (H ltac:(lia)).
  apply andb_true_iff in H. destruct H as [_ H]. apply Z.eqb_eq in H. exact H.
Qed.

Lemma gen_P_gt_3 : 3 < gen_P.
Proof. reflexivity. Qed.

Lemma gen_B_nonzero : gen_B mod gen_P <> 0.
Proof. vm_compute. discriminate. Qed.

(* ---------- instantiated theorems ------------------------------------------------------------------- *)
Section Instance.
  Hypothesis Hprime : prime sm2_p.

  Lemma gen_hyps : P256Hyps gen_curve gen_RInverse gen_sm2P256Factor.
  Proof.
    constructor.
    - exact Hprime.
    - exact gen_P_gt_3.
    - exact gen_B_nonzero.
    - exact (factor_value 1 ltac:(lia)).
    - exact (factor_value 2 ltac:(lia)).
    - exact (factor_value 3 ltac:(lia)).
    - exact (factor_value 4 ltac:(lia)).
    - exact (factor_value 8 ltac:(lia)).
  Qed.

  Theorem Add_is_group_add : forall Q1 Q2 : point,
    sm2_valid Q1 = true -> sm2_valid Q2 = true ->
    Add_model (fst (encode_point Q1)) (snd (encode_point Q1)) (fst (encode_point Q2)) (snd (encode_point Q2))
    = encode_point (sm2_add Q1 Q2).
  Proof. intros Q1 Q2 H1 H2. exact (Add_spec gen_curve _ _ gen_hyps Q1 Q2 H1 H2). Qed.

  Theorem Double_is_group_double : forall Q : point,
    sm2_valid Q = true ->
    Double_model (fst (encode_point Q)) (snd (encode_point Q)) = encode_point (sm2_double Q).
  Proof. intros Q H. exact (Double_spec gen_curve _ _ gen_hyps Q H). Qed.
End Instance.

(* IsOnCurve needs no premise at all: both sides only use + and * mod p *)
Theorem IsOnCurve_is_equation : forall x y, IsOnCurve_model x y = sm2_on_curve x y.
Proof.
  intros x y. unfold IsOnCurve_model, sm2_on_curve, IsOnCurve, on_curve.
  unfold curve_a, curve_b, sm2P256Mul, sm2P256Square, sm2P256Add, sm2P256ToBig, sm2P256FromBig, P256Model.P.
  change (cp gen_curve) with sm2_p. change (ca gen_curve) with sm2_a. change (cb gen_curve) with sm2_b.
  change (cp sm2_curve) with sm2_p. change (ca sm2_curve) with sm2_a. change (cb sm2_curve) with sm2_b.
  rewrite (Z.eqb_sym ((y * y) mod sm2_p)).
  rewrite !Zmod_mod.
  rewrite (Zmult_mod_idemp_l y (y mod sm2_p)), (Zmult_mod_idemp_r y y).
  rewrite (Zmult_mod_idemp_l x (x mod sm2_p)), (Zmult_mod_idemp_r x x).
  rewrite (Zmult_mod_idemp_l (x * x) (x mod sm2_p)), (Zmult_mod_idemp_r x (x * x)).
  rewrite (Zmult_mod_idemp_l sm2_a (x mod sm2_p)), (Zmult_mod_idemp_r x sm2_a).
  rewrite <- (Zplus_mod (x * x * x) (sm2_a * x)).
  rewrite <- (Zplus_mod (x * x * x + sm2_a * x) sm2_b).
  reflexivity.
Qed.
