(* The even elimination step of sm2P256ReduceDegree as it was BEFORE the repair a3cb9c3 ("field reduction underflowed a
   limb when the eliminated limb is 1", defect D36), kept for the refutation below.  The definition is the output of
   the same translator (harness/cmd/gen/target_sm2limbs.go) run on `git show a3cb9c3^:sm2/p256.go`; it differs from
   Gen.P256Limbs.gen_rd_step_even only in the five tests  `if tmp[i+8] < 0x20000000`  which now read
   `if tmp[i+8] < 0x20000000 && x > 1`.  This file is a frozen copy (the old source is not in the tree any more). *)
From Coq Require Import ZArith NArith List Bool Lia.
From GmsmVerif Require Import Gen.P256Limbs EC.LimbModel EC.LimbTactics EC.LimbProofs EC.LimbReduceDefs EC.LimbStepEven.
Import ListNotations.
Open Scope N_scope.

Definition reduce_step_even_old (tmp_0 tmp_1 tmp_2 tmp_3 tmp_4 tmp_5 tmp_6 tmp_7 tmp_8 tmp_9 : N) : N * N * N * N * N * N * N * N * N * N :=
  let carry := 0 in
  let x := 0 in
  let xMask := 0 in
  let tmp_1 := ((tmp_1 + (tmp_0 / k_20000000)) mod k_100000000) in
  let x := (tmp_0 mod k_20000000) in
  let tmp_0 := 0 in
  if (0 <? x) then
    let set4 := 0 in
    let set7 := 0 in
    let xMask := (((((x + k_100000000 - 1) mod k_100000000) / k_80000000) + k_100000000 - 1) mod k_100000000) in
    let tmp_2 := ((tmp_2 + (((x * 128) mod k_100000000) mod k_20000000)) mod k_100000000) in
    let tmp_3 := ((tmp_3 + (x / k_400000)) mod k_100000000) in
    if (tmp_3 <? k_10000000) then
      let set4 := 1 in
      let tmp_3 := ((tmp_3 + (N.land k_10000000 xMask)) mod k_100000000) in
      let tmp_3 := ((tmp_3 + k_100000000 - (((x * k_400) mod k_100000000) mod k_10000000)) mod k_100000000) in
      if (tmp_4 <? k_20000000) then
        let tmp_4 := ((tmp_4 + (N.land k_20000000 xMask)) mod k_100000000) in
        let tmp_4 := ((tmp_4 + k_100000000 - set4) mod k_100000000) in
        let tmp_4 := ((tmp_4 + k_100000000 - (x / k_40000)) mod k_100000000) in
        if (tmp_5 <? k_10000000) then
          let tmp_5 := ((tmp_5 + (N.land k_10000000 xMask)) mod k_100000000) in
          let tmp_5 := ((tmp_5 + k_100000000 - 1) mod k_100000000) in
          if (tmp_6 <? k_20000000) then
            let set7 := 1 in
            let tmp_6 := ((tmp_6 + (N.land k_20000000 xMask)) mod k_100000000) in
            let tmp_6 := ((tmp_6 + k_100000000 - 1) mod k_100000000) in
            if (tmp_7 <? k_10000000) then
              let tmp_7 := ((tmp_7 + (N.land k_10000000 xMask)) mod k_100000000) in
              let tmp_7 := ((tmp_7 + k_100000000 - set7) mod k_100000000) in
              let tmp_7 := ((tmp_7 + k_100000000 - (((x * k_1000000) mod k_100000000) mod k_10000000)) mod k_100000000) in
              let tmp_8 := ((tmp_8 + (((x * k_10000000) mod k_100000000) mod k_20000000)) mod k_100000000) in
              if (tmp_8 <? k_20000000) then
                let tmp_8 := ((tmp_8 + (N.land k_20000000 xMask)) mod k_100000000) in
                let tmp_8 := ((tmp_8 + k_100000000 - 1) mod k_100000000) in
                let tmp_8 := ((tmp_8 + k_100000000 - (x / 16)) mod k_100000000) in
                let tmp_9 := ((tmp_9 + (N.land (((x / 2) + k_100000000 - 1) mod k_100000000) xMask)) mod k_100000000) in
                (tmp_0, tmp_1, tmp_2, tmp_3, tmp_4, tmp_5, tmp_6, tmp_7, tmp_8, tmp_9)
              else
                let tmp_8 := ((tmp_8 + k_100000000 - 1) mod k_100000000) in
                let tmp_8 := ((tmp_8 + k_100000000 - (x / 16)) mod k_100000000) in
                let tmp_9 := ((tmp_9 + (N.land (x / 2) xMask)) mod k_100000000) in
                (tmp_0, tmp_1, tmp_2, tmp_3, tmp_4, tmp_5, tmp_6, tmp_7, tmp_8, tmp_9)
            else
              let tmp_7 := ((tmp_7 + k_100000000 - set7) mod k_100000000) in
              let tmp_7 := ((tmp_7 + k_100000000 - (((x * k_1000000) mod k_100000000) mod k_10000000)) mod k_100000000) in
              let tmp_8 := ((tmp_8 + (((x * k_10000000) mod k_100000000) mod k_20000000)) mod k_100000000) in
              if (tmp_8 <? k_20000000) then
                let tmp_8 := ((tmp_8 + (N.land k_20000000 xMask)) mod k_100000000) in
                let tmp_8 := ((tmp_8 + k_100000000 - (x / 16)) mod k_100000000) in
                let tmp_9 := ((tmp_9 + (N.land (((x / 2) + k_100000000 - 1) mod k_100000000) xMask)) mod k_100000000) in
                (tmp_0, tmp_1, tmp_2, tmp_3, tmp_4, tmp_5, tmp_6, tmp_7, tmp_8, tmp_9)
              else
                let tmp_8 := ((tmp_8 + k_100000000 - (x / 16)) mod k_100000000) in
                let tmp_9 := ((tmp_9 + (N.land (x / 2) xMask)) mod k_100000000) in
                (tmp_0, tmp_1, tmp_2, tmp_3, tmp_4, tmp_5, tmp_6, tmp_7, tmp_8, tmp_9)
          else
            let tmp_6 := ((tmp_6 + k_100000000 - 1) mod k_100000000) in
            if (tmp_7 <? k_10000000) then
              let tmp_7 := ((tmp_7 + (N.land k_10000000 xMask)) mod k_100000000) in
              let tmp_7 := ((tmp_7 + k_100000000 - set7) mod k_100000000) in
              let tmp_7 := ((tmp_7 + k_100000000 - (((x * k_1000000) mod k_100000000) mod k_10000000)) mod k_100000000) in
              let tmp_8 := ((tmp_8 + (((x * k_10000000) mod k_100000000) mod k_20000000)) mod k_100000000) in
              if (tmp_8 <? k_20000000) then
                let tmp_8 := ((tmp_8 + (N.land k_20000000 xMask)) mod k_100000000) in
                let tmp_8 := ((tmp_8 + k_100000000 - 1) mod k_100000000) in
                let tmp_8 := ((tmp_8 + k_100000000 - (x / 16)) mod k_100000000) in
                let tmp_9 := ((tmp_9 + (N.land (((x / 2) + k_100000000 - 1) mod k_100000000) xMask)) mod k_100000000) in
                (tmp_0, tmp_1, tmp_2, tmp_3, tmp_4, tmp_5, tmp_6, tmp_7, tmp_8, tmp_9)
              else
                let tmp_8 := ((tmp_8 + k_100000000 - 1) mod k_100000000) in
                let tmp_8 := ((tmp_8 + k_100000000 - (x / 16)) mod k_100000000) in
                let tmp_9 := ((tmp_9 + (N.land (x / 2) xMask)) mod k_100000000) in
                (tmp_0, tmp_1, tmp_2, tmp_3, tmp_4, tmp_5, tmp_6, tmp_7, tmp_8, tmp_9)
            else
              let tmp_7 := ((tmp_7 + k_100000000 - set7) mod k_100000000) in
              let tmp_7 := ((tmp_7 + k_100000000 - (((x * k_1000000) mod k_100000000) mod k_10000000)) mod k_100000000) in
              let tmp_8 := ((tmp_8 + (((x * k_10000000) mod k_100000000) mod k_20000000)) mod k_100000000) in
              if (tmp_8 <? k_20000000) then
                let tmp_8 := ((tmp_8 + (N.land k_20000000 xMask)) mod k_100000000) in
                let tmp_8 := ((tmp_8 + k_100000000 - (x / 16)) mod k_100000000) in
                let tmp_9 := ((tmp_9 + (N.land (((x / 2) + k_100000000 - 1) mod k_100000000) xMask)) mod k_100000000) in
                (tmp_0, tmp_1, tmp_2, tmp_3, tmp_4, tmp_5, tmp_6, tmp_7, tmp_8, tmp_9)
              else
                let tmp_8 := ((tmp_8 + k_100000000 - (x / 16)) mod k_100000000) in
                let tmp_9 := ((tmp_9 + (N.land (x / 2) xMask)) mod k_100000000) in
                (tmp_0, tmp_1, tmp_2, tmp_3, tmp_4, tmp_5, tmp_6, tmp_7, tmp_8, tmp_9)
        else
          let tmp_5 := ((tmp_5 + k_100000000 - 1) mod k_100000000) in
          if (tmp_7 <? k_10000000) then
            let tmp_7 := ((tmp_7 + (N.land k_10000000 xMask)) mod k_100000000) in
            let tmp_7 := ((tmp_7 + k_100000000 - set7) mod k_100000000) in
            let tmp_7 := ((tmp_7 + k_100000000 - (((x * k_1000000) mod k_100000000) mod k_10000000)) mod k_100000000) in
            let tmp_8 := ((tmp_8 + (((x * k_10000000) mod k_100000000) mod k_20000000)) mod k_100000000) in
            if (tmp_8 <? k_20000000) then
              let tmp_8 := ((tmp_8 + (N.land k_20000000 xMask)) mod k_100000000) in
              let tmp_8 := ((tmp_8 + k_100000000 - 1) mod k_100000000) in
              let tmp_8 := ((tmp_8 + k_100000000 - (x / 16)) mod k_100000000) in
              let tmp_9 := ((tmp_9 + (N.land (((x / 2) + k_100000000 - 1) mod k_100000000) xMask)) mod k_100000000) in
              (tmp_0, tmp_1, tmp_2, tmp_3, tmp_4, tmp_5, tmp_6, tmp_7, tmp_8, tmp_9)
            else
              let tmp_8 := ((tmp_8 + k_100000000 - 1) mod k_100000000) in
              let tmp_8 := ((tmp_8 + k_100000000 - (x / 16)) mod k_100000000) in
              let tmp_9 := ((tmp_9 + (N.land (x / 2) xMask)) mod k_100000000) in
              (tmp_0, tmp_1, tmp_2, tmp_3, tmp_4, tmp_5, tmp_6, tmp_7, tmp_8, tmp_9)
          else
            let tmp_7 := ((tmp_7 + k_100000000 - set7) mod k_100000000) in
            let tmp_7 := ((tmp_7 + k_100000000 - (((x * k_1000000) mod k_100000000) mod k_10000000)) mod k_100000000) in
            let tmp_8 := ((tmp_8 + (((x * k_10000000) mod k_100000000) mod k_20000000)) mod k_100000000) in
            if (tmp_8 <? k_20000000) then
              let tmp_8 := ((tmp_8 + (N.land k_20000000 xMask)) mod k_100000000) in
              let tmp_8 := ((tmp_8 + k_100000000 - (x / 16)) mod k_100000000) in
              let tmp_9 := ((tmp_9 + (N.land (((x / 2) + k_100000000 - 1) mod k_100000000) xMask)) mod k_100000000) in
              (tmp_0, tmp_1, tmp_2, tmp_3, tmp_4, tmp_5, tmp_6, tmp_7, tmp_8, tmp_9)
            else
              let tmp_8 := ((tmp_8 + k_100000000 - (x / 16)) mod k_100000000) in
              let tmp_9 := ((tmp_9 + (N.land (x / 2) xMask)) mod k_100000000) in
              (tmp_0, tmp_1, tmp_2, tmp_3, tmp_4, tmp_5, tmp_6, tmp_7, tmp_8, tmp_9)
      else
        let tmp_4 := ((tmp_4 + k_100000000 - set4) mod k_100000000) in
        let tmp_4 := ((tmp_4 + k_100000000 - (x / k_40000)) mod k_100000000) in
        if (tmp_7 <? k_10000000) then
          let tmp_7 := ((tmp_7 + (N.land k_10000000 xMask)) mod k_100000000) in
          let tmp_7 := ((tmp_7 + k_100000000 - set7) mod k_100000000) in
          let tmp_7 := ((tmp_7 + k_100000000 - (((x * k_1000000) mod k_100000000) mod k_10000000)) mod k_100000000) in
          let tmp_8 := ((tmp_8 + (((x * k_10000000) mod k_100000000) mod k_20000000)) mod k_100000000) in
          if (tmp_8 <? k_20000000) then
            let tmp_8 := ((tmp_8 + (N.land k_20000000 xMask)) mod k_100000000) in
            let tmp_8 := ((tmp_8 + k_100000000 - 1) mod k_100000000) in
            let tmp_8 := ((tmp_8 + k_100000000 - (x / 16)) mod k_100000000) in
            let tmp_9 := ((tmp_9 + (N.land (((x / 2) + k_100000000 - 1) mod k_100000000) xMask)) mod k_100000000) in
            (tmp_0, tmp_1, tmp_2, tmp_3, tmp_4, tmp_5, tmp_6, tmp_7, tmp_8, tmp_9)
          else
            let tmp_8 := ((tmp_8 + k_100000000 - 1) mod k_100000000) in
            let tmp_8 := ((tmp_8 + k_100000000 - (x / 16)) mod k_100000000) in
            let tmp_9 := ((tmp_9 + (N.land (x / 2) xMask)) mod k_100000000) in
            (tmp_0, tmp_1, tmp_2, tmp_3, tmp_4, tmp_5, tmp_6, tmp_7, tmp_8, tmp_9)
        else
          let tmp_7 := ((tmp_7 + k_100000000 - set7) mod k_100000000) in
          let tmp_7 := ((tmp_7 + k_100000000 - (((x * k_1000000) mod k_100000000) mod k_10000000)) mod k_100000000) in
          let tmp_8 := ((tmp_8 + (((x * k_10000000) mod k_100000000) mod k_20000000)) mod k_100000000) in
          if (tmp_8 <? k_20000000) then
            let tmp_8 := ((tmp_8 + (N.land k_20000000 xMask)) mod k_100000000) in
            let tmp_8 := ((tmp_8 + k_100000000 - (x / 16)) mod k_100000000) in
            let tmp_9 := ((tmp_9 + (N.land (((x / 2) + k_100000000 - 1) mod k_100000000) xMask)) mod k_100000000) in
            (tmp_0, tmp_1, tmp_2, tmp_3, tmp_4, tmp_5, tmp_6, tmp_7, tmp_8, tmp_9)
          else
            let tmp_8 := ((tmp_8 + k_100000000 - (x / 16)) mod k_100000000) in
            let tmp_9 := ((tmp_9 + (N.land (x / 2) xMask)) mod k_100000000) in
            (tmp_0, tmp_1, tmp_2, tmp_3, tmp_4, tmp_5, tmp_6, tmp_7, tmp_8, tmp_9)
    else
      let tmp_3 := ((tmp_3 + k_100000000 - (((x * k_400) mod k_100000000) mod k_10000000)) mod k_100000000) in
      if (tmp_4 <? k_20000000) then
        let tmp_4 := ((tmp_4 + (N.land k_20000000 xMask)) mod k_100000000) in
        let tmp_4 := ((tmp_4 + k_100000000 - set4) mod k_100000000) in
        let tmp_4 := ((tmp_4 + k_100000000 - (x / k_40000)) mod k_100000000) in
        if (tmp_5 <? k_10000000) then
          let tmp_5 := ((tmp_5 + (N.land k_10000000 xMask)) mod k_100000000) in
          let tmp_5 := ((tmp_5 + k_100000000 - 1) mod k_100000000) in
          if (tmp_6 <? k_20000000) then
            let set7 := 1 in
            let tmp_6 := ((tmp_6 + (N.land k_20000000 xMask)) mod k_100000000) in
            let tmp_6 := ((tmp_6 + k_100000000 - 1) mod k_100000000) in
            if (tmp_7 <? k_10000000) then
              let tmp_7 := ((tmp_7 + (N.land k_10000000 xMask)) mod k_100000000) in
              let tmp_7 := ((tmp_7 + k_100000000 - set7) mod k_100000000) in
              let tmp_7 := ((tmp_7 + k_100000000 - (((x * k_1000000) mod k_100000000) mod k_10000000)) mod k_100000000) in
              let tmp_8 := ((tmp_8 + (((x * k_10000000) mod k_100000000) mod k_20000000)) mod k_100000000) in
              if (tmp_8 <? k_20000000) then
                let tmp_8 := ((tmp_8 + (N.land k_20000000 xMask)) mod k_100000000) in
                let tmp_8 := ((tmp_8 + k_100000000 - 1) mod k_100000000) in
                let tmp_8 := ((tmp_8 + k_100000000 - (x / 16)) mod k_100000000) in
                let tmp_9 := ((tmp_9 + (N.land (((x / 2) + k_100000000 - 1) mod k_100000000) xMask)) mod k_100000000) in
                (tmp_0, tmp_1, tmp_2, tmp_3, tmp_4, tmp_5, tmp_6, tmp_7, tmp_8, tmp_9)
              else
                let tmp_8 := ((tmp_8 + k_100000000 - 1) mod k_100000000) in
                let tmp_8 := ((tmp_8 + k_100000000 - (x / 16)) mod k_100000000) in
                let tmp_9 := ((tmp_9 + (N.land (x / 2) xMask)) mod k_100000000) in
                (tmp_0, tmp_1, tmp_2, tmp_3, tmp_4, tmp_5, tmp_6, tmp_7, tmp_8, tmp_9)
            else
              let tmp_7 := ((tmp_7 + k_100000000 - set7) mod k_100000000) in
              let tmp_7 := ((tmp_7 + k_100000000 - (((x * k_1000000) mod k_100000000) mod k_10000000)) mod k_100000000) in
              let tmp_8 := ((tmp_8 + (((x * k_10000000) mod k_100000000) mod k_20000000)) mod k_100000000) in
              if (tmp_8 <? k_20000000) then
                let tmp_8 := ((tmp_8 + (N.land k_20000000 xMask)) mod k_100000000) in
                let tmp_8 := ((tmp_8 + k_100000000 - (x / 16)) mod k_100000000) in
                let tmp_9 := ((tmp_9 + (N.land (((x / 2) + k_100000000 - 1) mod k_100000000) xMask)) mod k_100000000) in
                (tmp_0, tmp_1, tmp_2, tmp_3, tmp_4, tmp_5, tmp_6, tmp_7, tmp_8, tmp_9)
              else
                let tmp_8 := ((tmp_8 + k_100000000 - (x / 16)) mod k_100000000) in
                let tmp_9 := ((tmp_9 + (N.land (x / 2) xMask)) mod k_100000000) in
                (tmp_0, tmp_1, tmp_2, tmp_3, tmp_4, tmp_5, tmp_6, tmp_7, tmp_8, tmp_9)
          else
            let tmp_6 := ((tmp_6 + k_100000000 - 1) mod k_100000000) in
            if (tmp_7 <? k_10000000) then
              let tmp_7 := ((tmp_7 + (N.land k_10000000 xMask)) mod k_100000000) in
              let tmp_7 := ((tmp_7 + k_100000000 - set7) mod k_100000000) in
              let tmp_7 := ((tmp_7 + k_100000000 - (((x * k_1000000) mod k_100000000) mod k_10000000)) mod k_100000000) in
              let tmp_8 := ((tmp_8 + (((x * k_10000000) mod k_100000000) mod k_20000000)) mod k_100000000) in
              if (tmp_8 <? k_20000000) then
                let tmp_8 := ((tmp_8 + (N.land k_20000000 xMask)) mod k_100000000) in
                let tmp_8 := ((tmp_8 + k_100000000 - 1) mod k_100000000) in
                let tmp_8 := ((tmp_8 + k_100000000 - (x / 16)) mod k_100000000) in
                let tmp_9 := ((tmp_9 + (N.land (((x / 2) + k_100000000 - 1) mod k_100000000) xMask)) mod k_100000000) in
                (tmp_0, tmp_1, tmp_2, tmp_3, tmp_4, tmp_5, tmp_6, tmp_7, tmp_8, tmp_9)
              else
                let tmp_8 := ((tmp_8 + k_100000000 - 1) mod k_100000000) in
                let tmp_8 := ((tmp_8 + k_100000000 - (x / 16)) mod k_100000000) in
                let tmp_9 := ((tmp_9 + (N.land (x / 2) xMask)) mod k_100000000) in
                (tmp_0, tmp_1, tmp_2, tmp_3, tmp_4, tmp_5, tmp_6, tmp_7, tmp_8, tmp_9)
            else
              let tmp_7 := ((tmp_7 + k_100000000 - set7) mod k_100000000) in
              let tmp_7 := ((tmp_7 + k_100000000 - (((x * k_1000000) mod k_100000000) mod k_10000000)) mod k_100000000) in
              let tmp_8 := ((tmp_8 + (((x * k_10000000) mod k_100000000) mod k_20000000)) mod k_100000000) in
              if (tmp_8 <? k_20000000) then
                let tmp_8 := ((tmp_8 + (N.land k_20000000 xMask)) mod k_100000000) in
                let tmp_8 := ((tmp_8 + k_100000000 - (x / 16)) mod k_100000000) in
                let tmp_9 := ((tmp_9 + (N.land (((x / 2) + k_100000000 - 1) mod k_100000000) xMask)) mod k_100000000) in
                (tmp_0, tmp_1, tmp_2, tmp_3, tmp_4, tmp_5, tmp_6, tmp_7, tmp_8, tmp_9)
              else
                let tmp_8 := ((tmp_8 + k_100000000 - (x / 16)) mod k_100000000) in
                let tmp_9 := ((tmp_9 + (N.land (x / 2) xMask)) mod k_100000000) in
                (tmp_0, tmp_1, tmp_2, tmp_3, tmp_4, tmp_5, tmp_6, tmp_7, tmp_8, tmp_9)
        else
          let tmp_5 := ((tmp_5 + k_100000000 - 1) mod k_100000000) in
          if (tmp_7 <? k_10000000) then
            let tmp_7 := ((tmp_7 + (N.land k_10000000 xMask)) mod k_100000000) in
            let tmp_7 := ((tmp_7 + k_100000000 - set7) mod k_100000000) in
            let tmp_7 := ((tmp_7 + k_100000000 - (((x * k_1000000) mod k_100000000) mod k_10000000)) mod k_100000000) in
            let tmp_8 := ((tmp_8 + (((x * k_10000000) mod k_100000000) mod k_20000000)) mod k_100000000) in
            if (tmp_8 <? k_20000000) then
              let tmp_8 := ((tmp_8 + (N.land k_20000000 xMask)) mod k_100000000) in
              let tmp_8 := ((tmp_8 + k_100000000 - 1) mod k_100000000) in
              let tmp_8 := ((tmp_8 + k_100000000 - (x / 16)) mod k_100000000) in
              let tmp_9 := ((tmp_9 + (N.land (((x / 2) + k_100000000 - 1) mod k_100000000) xMask)) mod k_100000000) in
              (tmp_0, tmp_1, tmp_2, tmp_3, tmp_4, tmp_5, tmp_6, tmp_7, tmp_8, tmp_9)
            else
              let tmp_8 := ((tmp_8 + k_100000000 - 1) mod k_100000000) in
              let tmp_8 := ((tmp_8 + k_100000000 - (x / 16)) mod k_100000000) in
              let tmp_9 := ((tmp_9 + (N.land (x / 2) xMask)) mod k_100000000) in
              (tmp_0, tmp_1, tmp_2, tmp_3, tmp_4, tmp_5, tmp_6, tmp_7, tmp_8, tmp_9)
          else
            let tmp_7 := ((tmp_7 + k_100000000 - set7) mod k_100000000) in
            let tmp_7 := ((tmp_7 + k_100000000 - (((x * k_1000000) mod k_100000000) mod k_10000000)) mod k_100000000) in
            let tmp_8 := ((tmp_8 + (((x * k_10000000) mod k_100000000) mod k_20000000)) mod k_100000000) in
            if (tmp_8 <? k_20000000) then
              let tmp_8 := ((tmp_8 + (N.land k_20000000 xMask)) mod k_100000000) in
              let tmp_8 := ((tmp_8 + k_100000000 - (x / 16)) mod k_100000000) in
              let tmp_9 := ((tmp_9 + (N.land (((x / 2) + k_100000000 - 1) mod k_100000000) xMask)) mod k_100000000) in
              (tmp_0, tmp_1, tmp_2, tmp_3, tmp_4, tmp_5, tmp_6, tmp_7, tmp_8, tmp_9)
            else
              let tmp_8 := ((tmp_8 + k_100000000 - (x / 16)) mod k_100000000) in
              let tmp_9 := ((tmp_9 + (N.land (x / 2) xMask)) mod k_100000000) in
              (tmp_0, tmp_1, tmp_2, tmp_3, tmp_4, tmp_5, tmp_6, tmp_7, tmp_8, tmp_9)
      else
        let tmp_4 := ((tmp_4 + k_100000000 - set4) mod k_100000000) in
        let tmp_4 := ((tmp_4 + k_100000000 - (x / k_40000)) mod k_100000000) in
        if (tmp_7 <? k_10000000) then
          let tmp_7 := ((tmp_7 + (N.land k_10000000 xMask)) mod k_100000000) in
          let tmp_7 := ((tmp_7 + k_100000000 - set7) mod k_100000000) in
          let tmp_7 := ((tmp_7 + k_100000000 - (((x * k_1000000) mod k_100000000) mod k_10000000)) mod k_100000000) in
          let tmp_8 := ((tmp_8 + (((x * k_10000000) mod k_100000000) mod k_20000000)) mod k_100000000) in
          if (tmp_8 <? k_20000000) then
            let tmp_8 := ((tmp_8 + (N.land k_20000000 xMask)) mod k_100000000) in
            let tmp_8 := ((tmp_8 + k_100000000 - 1) mod k_100000000) in
            let tmp_8 := ((tmp_8 + k_100000000 - (x / 16)) mod k_100000000) in
            let tmp_9 := ((tmp_9 + (N.land (((x / 2) + k_100000000 - 1) mod k_100000000) xMask)) mod k_100000000) in
            (tmp_0, tmp_1, tmp_2, tmp_3, tmp_4, tmp_5, tmp_6, tmp_7, tmp_8, tmp_9)
          else
            let tmp_8 := ((tmp_8 + k_100000000 - 1) mod k_100000000) in
            let tmp_8 := ((tmp_8 + k_100000000 - (x / 16)) mod k_100000000) in
            let tmp_9 := ((tmp_9 + (N.land (x / 2) xMask)) mod k_100000000) in
            (tmp_0, tmp_1, tmp_2, tmp_3, tmp_4, tmp_5, tmp_6, tmp_7, tmp_8, tmp_9)
        else
          let tmp_7 := ((tmp_7 + k_100000000 - set7) mod k_100000000) in
          let tmp_7 := ((tmp_7 + k_100000000 - (((x * k_1000000) mod k_100000000) mod k_10000000)) mod k_100000000) in
          let tmp_8 := ((tmp_8 + (((x * k_10000000) mod k_100000000) mod k_20000000)) mod k_100000000) in
          if (tmp_8 <? k_20000000) then
            let tmp_8 := ((tmp_8 + (N.land k_20000000 xMask)) mod k_100000000) in
            let tmp_8 := ((tmp_8 + k_100000000 - (x / 16)) mod k_100000000) in
            let tmp_9 := ((tmp_9 + (N.land (((x / 2) + k_100000000 - 1) mod k_100000000) xMask)) mod k_100000000) in
            (tmp_0, tmp_1, tmp_2, tmp_3, tmp_4, tmp_5, tmp_6, tmp_7, tmp_8, tmp_9)
          else
            let tmp_8 := ((tmp_8 + k_100000000 - (x / 16)) mod k_100000000) in
            let tmp_9 := ((tmp_9 + (N.land (x / 2) xMask)) mod k_100000000) in
            (tmp_0, tmp_1, tmp_2, tmp_3, tmp_4, tmp_5, tmp_6, tmp_7, tmp_8, tmp_9)
  else
    (tmp_0, tmp_1, tmp_2, tmp_3, tmp_4, tmp_5, tmp_6, tmp_7, tmp_8, tmp_9).

(* D36: with x = 1 and tmp[i+9] = 0 the old step adds ((x >> 1) - 1) & xMask = 0xFFFFFFFF to tmp[i+9]:
   the window (1,0,0,0,0,0,0,0,0,0) satisfies the bound invariant PE, but the result violates the bound of limb 9
   (it is 2^32 - 1) AND the value equation (off by 2^32 * 2^257) - so the step theorem gen_rd_step_even_correct
   cannot be proved for the old code; for the repaired code it holds for every window in PE. *)
Theorem reduce_step_even_old_refuted :
  exists t0 t1 t2 t3 t4 t5 t6 t7 t8 t9,
    PE t0 t1 t2 t3 t4 t5 t6 t7 t8 t9 /\
    (let '(o0, o1, o2, o3, o4, o5, o6, o7, o8, o9) := reduce_step_even_old t0 t1 t2 t3 t4 t5 t6 t7 t8 t9 in
     o9 = 4294967295 /\
     value10e o0 o1 o2 o3 o4 o5 o6 o7 o8 o9 =
       value10e t0 t1 t2 t3 t4 t5 t6 t7 t8 t9 + (t0 mod 536870912) * pN + 2 ^ 32 * 2 ^ 257) /\
    ~ even_post t0 t1 t2 t3 t4 t5 t6 t7 t8 t9 (reduce_step_even_old t0 t1 t2 t3 t4 t5 t6 t7 t8 t9) /\
    even_post t0 t1 t2 t3 t4 t5 t6 t7 t8 t9 (gen_rd_step_even t0 t1 t2 t3 t4 t5 t6 t7 t8 t9).
Proof.
  exists 1, 0, 0, 0, 0, 0, 0, 0, 0, 0.
  assert (HPE : PE 1 0 0 0 0 0 0 0 0 0) by (unfold PE; repeat split; cbv; discriminate).
  split; [exact HPE|]. split; [vm_compute; split; reflexivity|]. split.
  - intro H. unfold even_post in H.
    set (r := reduce_step_even_old 1 0 0 0 0 0 0 0 0 0) in H.
    vm_compute in r. subst r. cbv beta iota in H.
    destruct H as (_ & (_ & _ & _ & _ & _ & _ & _ & _ & H9) & _). apply H9. reflexivity.
  - apply gen_rd_step_even_correct. exact HPE.
Qed.
