(* The Jacobian point functions of p256.go at the LIMB level: sm2P256PointDouble, sm2P256PointAddMixed, sm2P256PointAdd,
   sm2P256PointSub as programs over the proved limb operations (EC/LimbRefine.v), including the decisions of PointAdd /
   PointSub, which the Go code takes on sm2P256ToBig values (z1 = 0, z2 = 0, u1 = u2 and s1 = s2).
   Theorems: for loose limb triples the limb-level functions return loose triples whose images under fe (= ToBig) are
   exactly what the F_p-level model functions of EC/P256Model.v return - so everything proved about the latter
   (totality, group law) holds for the limb code. *)
From Coq Require Import ZArith NArith List Bool Lia.
From GmsmVerif Require Import EC.ECAffine EC.P256Model Gen.SM2Params Gen.P256Tables Gen.P256Limbs EC.LimbModel
  EC.LimbProofs EC.LimbReduceFinal EC.LimbRefine.
Import ListNotations.
Open Scope Z_scope.

Notation limbs := (list N) (only parsing).
Definition jacL := (limbs * limbs * limbs)%type.
Definition looseJ (J : jacL) : Prop := looseL (fst (fst J)) /\ looseL (snd (fst J)) /\ looseL (snd J).
Definition feJ (J : jacL) : jac := (fe (fst (fst J)), fe (snd (fst J)), fe (snd J)).

Definition env6 {A} (a b c d e f : A) : nat -> A :=
  fun i => match i with 0 => a | 1 => b | 2 => c | 3 => d | 4 => e | _ => f end%nat.

Lemma eval_fe_ext : forall r1 r2 e, (forall i, r1 i = r2 i) -> eval_fe r1 e = eval_fe r2 e.
Proof. intros r1 r2 e H. induction e; cbn [eval_fe]; congruence. Qed.

Lemma env6_fe : forall a b c d e f i, fe (env6 a b c d e f i) = env6 (fe a) (fe b) (fe c) (fe d) (fe e) (fe f) i.
Proof. intros. destruct i as [|[|[|[|[|i]]]]]; reflexivity. Qed.

Lemma env6_loose : forall a b c d e f, looseL a -> looseL b -> looseL c -> looseL d -> looseL e -> looseL f ->
  forall i, looseL (env6 a b c d e f i).
Proof. intros. destruct i as [|[|[|[|[|i]]]]]; assumption. Qed.

(* a program on a 6-variable environment refines its F_p evaluation *)
Lemma prog_refines : forall a b c d e f p, looseL a -> looseL b -> looseL c -> looseL d -> looseL e -> looseL f ->
  scalars_ok p ->
  looseL (eval_limbs (env6 a b c d e f) p) /\
  fe (eval_limbs (env6 a b c d e f) p) = eval_fe (env6 (fe a) (fe b) (fe c) (fe d) (fe e) (fe f)) p.
Proof.
  intros a b c d e f p Ha Hb Hc Hd He Hf Hp.
  destruct (fexpr_refines (env6 a b c d e f) p (env6_loose _ _ _ _ _ _ Ha Hb Hc Hd He Hf) Hp) as [L E].
  split; [exact L|]. rewrite E. apply eval_fe_ext. intro i. apply env6_fe.
Qed.

(* ---------- sm2P256PointDouble (variables 0,1,2 = x,y,z): programs pd_x3 pd_y3 pd_z3 of EC/LimbRefine.v -------------- *)
Definition PointDouble_limbs (J : jacL) : jacL :=
  let '(X, Y, Z) := J in
  let rho := env6 X Y Z Z Z Z in
  (eval_limbs rho pd_x3, eval_limbs rho pd_y3, eval_limbs rho pd_z3).

Lemma PointDouble_prog : forall x y z w1 w2 w3,
  PointDouble_model (x, y, z) =
  (eval_fe (env6 x y z w1 w2 w3) pd_x3, eval_fe (env6 x y z w1 w2 w3) pd_y3, eval_fe (env6 x y z w1 w2 w3) pd_z3).
Proof.
  intros.
  unfold PointDouble_model, sm2P256PointDouble, pd_x3, pd_y3, pd_z3, pd_m, pd_s, pd_y4, pd_z4, pd_x2, pd_y2, pd_z2.
  cbn [eval_fe env6]. unfold Mul_model, Square_model, AddFe_model, SubFe_model, FromBig_model, sm2P256Dup, curve_a.
  change (ca gen_curve) with gen_A. reflexivity.
Qed.

Theorem PointDouble_limbs_correct : forall J, looseJ J ->
  looseJ (PointDouble_limbs J) /\ feJ (PointDouble_limbs J) = PointDouble_model (feJ J).
Proof.
  intros [[X Y] Z] (HX & HY & HZ). cbn [fst snd] in *.
  change (PointDouble_limbs (X, Y, Z)) with
    (eval_limbs (env6 X Y Z Z Z Z) pd_x3, eval_limbs (env6 X Y Z Z Z Z) pd_y3, eval_limbs (env6 X Y Z Z Z Z) pd_z3).
  assert (O : scalars_ok pd_x3 /\ scalars_ok pd_y3 /\ scalars_ok pd_z3) by (cbn; repeat split; lia).
  destruct O as (O1 & O2 & O3).
  destruct (prog_refines X Y Z Z Z Z pd_x3 HX HY HZ HZ HZ HZ O1) as [L1 E1].
  destruct (prog_refines X Y Z Z Z Z pd_y3 HX HY HZ HZ HZ HZ O2) as [L2 E2].
  destruct (prog_refines X Y Z Z Z Z pd_z3 HX HY HZ HZ HZ HZ O3) as [L3 E3].
  split; [repeat split; assumption|].
  unfold feJ. cbn [fst snd]. rewrite E1, E2, E3. symmetry. apply PointDouble_prog.
Qed.

(* ---------- sm2P256PointAddMixed (variables 0,1,2 = x1,y1,z1; 3,4 = x2,y2) ---------------------------------------------- *)
Definition pm_z1z1 := FSquare (FVar 2).
Definition pm_tmp := FAdd (FVar 2) (FVar 2).
Definition pm_u2 := FMul (FVar 3) pm_z1z1.
Definition pm_z1z1z1 := FMul (FVar 2) pm_z1z1.
Definition pm_s2 := FMul (FVar 4) pm_z1z1z1.
Definition pm_h := FSub pm_u2 (FVar 0).
Definition pm_i := FSquare (FAdd pm_h pm_h).
Definition pm_j := FMul pm_h pm_i.
Definition pm_r0 := FSub pm_s2 (FVar 1).
Definition pm_r := FAdd pm_r0 pm_r0.
Definition pm_v := FMul (FVar 0) pm_i.
Definition pm_z := FMul pm_tmp pm_h.
Definition pm_x := FSub (FSub (FSub (FSquare pm_r) pm_j) pm_v) pm_v.
Definition pm_y := FSub (FSub (FMul (FSub pm_v pm_x) pm_r) (FMul (FVar 1) pm_j)) (FMul (FVar 1) pm_j).

Definition PointAddMixed_limbs (J : jacL) (x2 y2 : limbs) : jacL :=
  let '(X, Y, Z) := J in
  let rho := env6 X Y Z x2 y2 y2 in
  (eval_limbs rho pm_x, eval_limbs rho pm_y, eval_limbs rho pm_z).

Lemma PointAddMixed_prog : forall x1 y1 z1 x2 y2 w,
  PointAddMixed_model (x1, y1, z1) x2 y2 =
  (eval_fe (env6 x1 y1 z1 x2 y2 w) pm_x, eval_fe (env6 x1 y1 z1 x2 y2 w) pm_y, eval_fe (env6 x1 y1 z1 x2 y2 w) pm_z).
Proof.
  intros.
  cbv beta iota zeta delta [PointAddMixed_model sm2P256PointAddMixed pm_x pm_y pm_z pm_v pm_r pm_r0 pm_j pm_i pm_h pm_s2
         pm_z1z1z1 pm_u2 pm_tmp pm_z1z1 eval_fe env6 Mul_model Square_model AddFe_model SubFe_model].
  reflexivity.
Qed.

Theorem PointAddMixed_limbs_correct : forall J x2 y2, looseJ J -> looseL x2 -> looseL y2 ->
  looseJ (PointAddMixed_limbs J x2 y2) /\
  feJ (PointAddMixed_limbs J x2 y2) = PointAddMixed_model (feJ J) (fe x2) (fe y2).
Proof.
  intros [[X Y] Z] x2 y2 (HX & HY & HZ) Hx2 Hy2. cbn [fst snd] in *.
  change (PointAddMixed_limbs (X, Y, Z) x2 y2) with
    (eval_limbs (env6 X Y Z x2 y2 y2) pm_x, eval_limbs (env6 X Y Z x2 y2 y2) pm_y, eval_limbs (env6 X Y Z x2 y2 y2) pm_z).
  assert (O : scalars_ok pm_x /\ scalars_ok pm_y /\ scalars_ok pm_z) by (cbn; repeat split; lia).
  destruct O as (O1 & O2 & O3).
  destruct (prog_refines X Y Z x2 y2 y2 pm_x HX HY HZ Hx2 Hy2 Hy2 O1) as [L1 E1].
  destruct (prog_refines X Y Z x2 y2 y2 pm_y HX HY HZ Hx2 Hy2 Hy2 O2) as [L2 E2].
  destruct (prog_refines X Y Z x2 y2 y2 pm_z HX HY HZ Hx2 Hy2 Hy2 O3) as [L3 E3].
  split; [repeat split; assumption|].
  unfold feJ. cbn [fst snd]. rewrite E1, E2, E3. symmetry. apply PointAddMixed_prog.
Qed.

(* ---------- sm2P256PointAdd / sm2P256PointSub (variables 0..5 = x1,y1,z1,x2,y2,z2) ------------------------------------ *)
Definition pa_z12 := FSquare (FVar 2).
Definition pa_z22 := FSquare (FVar 5).
Definition pa_z13 := FMul pa_z12 (FVar 2).
Definition pa_z23 := FMul pa_z22 (FVar 5).
Definition pa_u1 := FMul (FVar 0) pa_z22.
Definition pa_u2 := FMul (FVar 3) pa_z12.
Definition pa_s1 := FMul (FVar 1) pa_z23.
Definition pa_s2 := FMul (FVar 4) pa_z13.
Definition pa_h := FSub pa_u2 pa_u1.
Definition pa_r := FSub pa_s2 pa_s1.
Definition pa_h2 := FSquare pa_h.
Definition pa_x := FSub (FSub (FSquare pa_r) (FMul pa_h2 pa_h)) (FScalar (FMul pa_u1 pa_h2) 2).
Definition pa_y := FSub (FMul pa_r (FSub (FMul pa_u1 pa_h2) pa_x)) (FMul (FMul pa_h2 pa_h) pa_s1).
Definition pa_z := FMul (FMul (FVar 2) (FVar 5)) pa_h.

(* the decisions are taken on sm2P256ToBig values *)
Definition pointAdd_body_limbs (J1 J2 : jacL) : jacL :=
  let '(X1, Y1, Z1) := J1 in
  let '(X2, Y2, Z2) := J2 in
  let rho := env6 X1 Y1 Z1 X2 Y2 Z2 in
  if fe Z1 =? 0 then (X2, Y2, Z2)
  else if fe Z2 =? 0 then (X1, Y1, Z1)
  else if ((fe (eval_limbs rho pa_u1) =? fe (eval_limbs rho pa_u2)) &&
           (fe (eval_limbs rho pa_s1) =? fe (eval_limbs rho pa_s2)))%bool
  then PointDouble_limbs (X1, Y1, Z1)
  else (eval_limbs rho pa_x, eval_limbs rho pa_y, eval_limbs rho pa_z).

Definition PointAdd_limbs (J1 J2 : jacL) : jacL := pointAdd_body_limbs J1 J2.

(* y2 is replaced by FromBig(0 - ToBig(y2)) in place; result and the new y2 *)
Definition PointSub_limbs (J1 J2 : jacL) : jacL * limbs :=
  let '(X2, Y2, Z2) := J2 in
  let Y2' := sm2P256FromBig_limbs (0 - fe Y2) in
  (pointAdd_body_limbs J1 (X2, Y2', Z2), Y2').

Lemma fe_reduced : forall l, fe l mod gen_P = fe l.
Proof. intros l. unfold fe, sm2P256ToBig_limbs. apply Z.mod_mod. discriminate. Qed.

Lemma ToBig_fe : forall l, sm2P256ToBig gen_curve (fe l) = fe l.
Proof. intros l. unfold sm2P256ToBig, P256Model.P. change (cp gen_curve) with gen_P. apply fe_reduced. Qed.

Lemma ToBig_reduced : forall x, x mod gen_P = x -> sm2P256ToBig gen_curve x = x.
Proof. intros x H. unfold sm2P256ToBig, P256Model.P. change (cp gen_curve) with gen_P. exact H. Qed.

Theorem PointAdd_limbs_correct : forall J1 J2, looseJ J1 -> looseJ J2 ->
  looseJ (PointAdd_limbs J1 J2) /\ feJ (PointAdd_limbs J1 J2) = PointAdd_model (feJ J1) (feJ J2).
Proof.
  intros [[X1 Y1] Z1] [[X2 Y2] Z2] (HX1 & HY1 & HZ1) (HX2 & HY2 & HZ2). cbn [fst snd] in *.
  unfold PointAdd_limbs, pointAdd_body_limbs, PointAdd_model, sm2P256PointAdd, pointAdd_body, feJ.
  cbn [fst snd]. rewrite !ToBig_fe. unfold sm2P256Dup.
  destruct (fe Z1 =? 0); [split; [repeat split; assumption|reflexivity]|].
  destruct (fe Z2 =? 0); [split; [repeat split; assumption|reflexivity]|].
  assert (O : scalars_ok pa_u1 /\ scalars_ok pa_u2 /\ scalars_ok pa_s1 /\ scalars_ok pa_s2 /\
              scalars_ok pa_x /\ scalars_ok pa_y /\ scalars_ok pa_z) by (cbn; repeat split; lia).
  destruct O as (Ou1 & Ou2 & Os1 & Os2 & Ox & Oy & Oz).
  destruct (prog_refines X1 Y1 Z1 X2 Y2 Z2 pa_u1 HX1 HY1 HZ1 HX2 HY2 HZ2 Ou1) as [_ Eu1].
  destruct (prog_refines X1 Y1 Z1 X2 Y2 Z2 pa_u2 HX1 HY1 HZ1 HX2 HY2 HZ2 Ou2) as [_ Eu2].
  destruct (prog_refines X1 Y1 Z1 X2 Y2 Z2 pa_s1 HX1 HY1 HZ1 HX2 HY2 HZ2 Os1) as [_ Es1].
  destruct (prog_refines X1 Y1 Z1 X2 Y2 Z2 pa_s2 HX1 HY1 HZ1 HX2 HY2 HZ2 Os2) as [_ Es2].
  set (rf := env6 (fe X1) (fe Y1) (fe Z1) (fe X2) (fe Y2) (fe Z2)) in *.
  (* the model's tests are the same comparisons *)
  assert (T1 : sm2P256ToBig gen_curve
                 (sm2P256Mul gen_curve (fe X1) (sm2P256Square gen_curve (fe Z2))) = eval_fe rf pa_u1).
  { cbv beta iota zeta delta [pa_u1 pa_z22 rf eval_fe env6 Mul_model Square_model].
    unfold sm2P256ToBig, sm2P256Mul, P256Model.P. apply Z.mod_mod. discriminate. }
  assert (T2 : sm2P256ToBig gen_curve
                 (sm2P256Mul gen_curve (fe X2) (sm2P256Square gen_curve (fe Z1))) = eval_fe rf pa_u2).
  { cbv beta iota zeta delta [pa_u2 pa_z12 rf eval_fe env6 Mul_model Square_model].
    unfold sm2P256ToBig, sm2P256Mul, P256Model.P. apply Z.mod_mod. discriminate. }
  assert (T3 : sm2P256ToBig gen_curve
                 (sm2P256Mul gen_curve (fe Y1)
                    (sm2P256Mul gen_curve (sm2P256Square gen_curve (fe Z2)) (fe Z2))) = eval_fe rf pa_s1).
  { cbv beta iota zeta delta [pa_s1 pa_z23 pa_z22 rf eval_fe env6 Mul_model Square_model].
    unfold sm2P256ToBig, sm2P256Mul, P256Model.P. apply Z.mod_mod. discriminate. }
  assert (T4 : sm2P256ToBig gen_curve
                 (sm2P256Mul gen_curve (fe Y2)
                    (sm2P256Mul gen_curve (sm2P256Square gen_curve (fe Z1)) (fe Z1))) = eval_fe rf pa_s2).
  { cbv beta iota zeta delta [pa_s2 pa_z13 pa_z12 rf eval_fe env6 Mul_model Square_model].
    unfold sm2P256ToBig, sm2P256Mul, P256Model.P. apply Z.mod_mod. discriminate. }
  cbv zeta. rewrite T1, T2, T3, T4. rewrite Eu1, Eu2, Es1, Es2.
  destruct ((eval_fe rf pa_u1 =? eval_fe rf pa_u2) && (eval_fe rf pa_s1 =? eval_fe rf pa_s2))%bool.
  - assert (HJ1 : looseJ (X1, Y1, Z1)) by exact (conj HX1 (conj HY1 HZ1)).
    destruct (PointDouble_limbs_correct (X1, Y1, Z1) HJ1) as [L E].
    split; [exact L|]. exact E.
  - destruct (prog_refines X1 Y1 Z1 X2 Y2 Z2 pa_x HX1 HY1 HZ1 HX2 HY2 HZ2 Ox) as [Lx Ex].
    destruct (prog_refines X1 Y1 Z1 X2 Y2 Z2 pa_y HX1 HY1 HZ1 HX2 HY2 HZ2 Oy) as [Ly Ey].
    destruct (prog_refines X1 Y1 Z1 X2 Y2 Z2 pa_z HX1 HY1 HZ1 HX2 HY2 HZ2 Oz) as [Lz Ez].
    split; [repeat split; assumption|]. cbn [fst snd]. rewrite Ex, Ey, Ez. fold rf.
    cbv beta iota zeta delta [pa_x pa_y pa_z pa_h2 pa_r pa_h pa_s2 pa_s1 pa_u2 pa_u1 pa_z23 pa_z13 pa_z22 pa_z12 rf
                              eval_fe env6 Mul_model Square_model AddFe_model SubFe_model sm2P256Scalar].
    reflexivity.
Qed.

Theorem PointSub_limbs_correct : forall J1 J2, looseJ J1 -> looseJ J2 ->
  looseJ (fst (PointSub_limbs J1 J2)) /\ looseL (snd (PointSub_limbs J1 J2)) /\
  feJ (fst (PointSub_limbs J1 J2)) = fst (PointSub_model (feJ J1) (feJ J2)) /\
  fe (snd (PointSub_limbs J1 J2)) = snd (PointSub_model (feJ J1) (feJ J2)).
Proof.
  intros J1 [[X2 Y2] Z2] H1 (HX2 & HY2 & HZ2). cbn [fst snd] in *.
  unfold PointSub_limbs, PointSub_model, sm2P256PointSub, feJ. cbn [fst snd].
  destruct (fe_FromBig (0 - fe Y2)) as [LN EN].
  rewrite ToBig_fe.
  assert (HJ2 : looseJ (X2, sm2P256FromBig_limbs (0 - fe Y2), Z2)) by exact (conj HX2 (conj LN HZ2)).
  destruct (PointAdd_limbs_correct J1 (X2, sm2P256FromBig_limbs (0 - fe Y2), Z2) H1 HJ2) as [L E].
  split; [exact L|]. split; [exact LN|]. split; [|exact EN].
  unfold PointAdd_limbs, PointAdd_model, sm2P256PointAdd, feJ in E. cbn [fst snd] in E.
  rewrite EN in E. exact E.
Qed.
