(* Proofs about the scalar recoding of EC/P256Model.v (sm2GenrateWNaf): for EVERY byte string the
   loop terminates within its fuel, never writes outside the array, and the digits d_i satisfy
   sum d_i 2^i = OS2IP(b) reduced as the code reduces it (= OS2IP(b) mod n), every digit is 0 or odd
   with |d| <= 7, the top digit is positive. *)
From Coq Require Import ZArith NArith List Bool Lia Zify.
From GmsmVerif Require Import Lib.Outcome EC.ECAffine EC.P256Model.
Import ListNotations.
Open Scope Z_scope.

Ltac Zify.zify_post_hook ::= Z.to_euclidean_division_equations.

(* value of a digit list, least significant first *)
Fixpoint wval (l : list Z) : Z :=
  match l with [] => 0 | d :: t => d + 2 * wval t end.

Definition digit_ok (d : Z) : Prop := d = 0 \/ (Z.odd d = true /\ -7 <= d <= 7).

(* ---------- lists ------------------------------------------------------------------------------------ *)
Lemma upd_spec : forall l i v, (i < length l)%nat ->
  exists l', upd l i v = Some l' /\ length l' = length l /\ nth i l' 0 = v /\
             (forall j, j <> i -> nth j l' 0 = nth j l 0) /\
             (nth i l 0 = 0 -> wval l' = wval l + v * 2 ^ Z.of_nat i).
Proof.
  induction l as [|x t IH]; intros i v Hi; [cbn in Hi; lia|].
  destruct i as [|i].
  - exists (v :: t). cbn [upd length nth wval]. repeat split.
    + intros j Hj. destruct j; [congruence|reflexivity].
    + intros ->. cbn. lia.
  - cbn [length] in Hi. destruct (IH i v ltac:(lia)) as (t' & E & HL & HN & HO & HW).
    exists (x :: t'). cbn [upd]. rewrite E. cbn [length nth wval]. repeat split; try congruence.
    + intros j Hj. destruct j; [reflexivity|]. apply HO. congruence.
    + intros H0. rewrite (HW H0). rewrite Nat2Z.inj_succ, Z.pow_succ_r by lia. ring.
Qed.

Lemma wval_firstn : forall l m, (forall i, (m <= i)%nat -> nth i l 0 = 0) -> wval (firstn m l) = wval l.
Proof.
  induction l as [|x t IH]; intros m H; [destruct m; reflexivity|].
  destruct m as [|m].
  - cbn [firstn wval]. pose proof (H 0%nat ltac:(lia)) as H0. cbn in H0. subst x.
    rewrite <- (IH 0%nat); [destruct t; reflexivity|]. intros i _. apply (H (S i)). lia.
  - cbn [firstn wval]. rewrite IH; [reflexivity|]. intros i Hi. apply (H (S i)). lia.
Qed.

Lemma wval_repeat0 : forall m, wval (repeat 0 m) = 0.
Proof. induction m as [|m IH]; cbn [repeat wval]; [reflexivity|rewrite IH; reflexivity]. Qed.

Lemma nth_repeat0 : forall m i, nth i (repeat 0 m) 0 = 0.
Proof. induction m; destruct i; cbn; auto. Qed.

Lemma Forall_nth_upd : forall (Pr : Z -> Prop) l l' i v,
  length l' = length l -> nth i l' 0 = v -> (forall j, j <> i -> nth j l' 0 = nth j l 0) ->
  Forall Pr l -> Pr v -> Forall Pr l'.
Proof.
  intros Pr l l' i v HL HN HO HF Hv. apply Forall_forall. intros x Hx.
  destruct (In_nth _ _ 0 Hx) as (j & Hj & <-).
  destruct (Nat.eq_dec j i) as [->|Hne]; [rewrite HN; exact Hv|].
  rewrite HO by exact Hne. rewrite Forall_forall in HF. apply HF. apply nth_In. lia.
Qed.

(* ---------- bit lengths ------------------------------------------------------------------------------- *)
Lemma bitLen_nonneg : forall k, 0 <= bitLen k.
Proof. intros k. unfold bitLen. destruct (k <=? 0); [lia|]. pose proof (Z.log2_nonneg k). lia. Qed.

Lemma bitLen_le : forall k m, 0 <= k -> 0 <= m -> (bitLen k <= m <-> k < 2 ^ m).
Proof.
  intros k m Hk Hm. unfold bitLen. destruct (Z.leb_spec k 0) as [H0|H0].
  - assert (k = 0) by lia. subst k. pose proof (Z.pow_pos_nonneg 2 m). lia.
  - rewrite (Z.log2_lt_pow2 k m H0). lia.
Qed.

Lemma shiftr_small : forall k m, 0 <= k -> 0 <= m -> bitLen k < m \/ bitLen k <= m -> Z.shiftr k m = 0.
Proof.
  intros k m Hk Hm H. rewrite Z.shiftr_div_pow2 by exact Hm. apply Z.div_small.
  split; [exact Hk|]. apply bitLen_le; lia.
Qed.

Lemma odd_mod2 : forall q, q mod 2 = if Z.odd q then 1 else 0.
Proof. intros. apply Zmod_odd. Qed.

Lemma bit3 : forall v, 0 <= v < 16 -> zbit v 3 = (8 <=? v).
Proof.
  intros v Hv. unfold zbit. rewrite Z.shiftr_div_pow2 by lia. change (2 ^ 3) with 8.
  assert (H : v / 8 = 0 \/ v / 8 = 1) by lia.
  destruct (Z.leb_spec 8 v); destruct H as [H|H]; rewrite H; try reflexivity; lia.
Qed.

(* ---------- the loop ---------------------------------------------------------------------------------- *)
Section Loop.
  Variable K0 : Z.
  Hypothesis K0_pos : 0 < K0.

  Definition b2z (b : bool) : Z := if b then 1 else 0.

  Record Inv (fuel : nat) (k : Z) (carry : bool) (pos len : Z) (w : list Z) : Prop := mkInv {
    i_pos : 0 <= pos;
    i_len : 0 <= len <= bitLen K0;
    i_k : k = Z.shiftr K0 len;
    i_size : Z.of_nat (List.length w) = bitLen K0 + 1;
    i_zero : forall i, (Z.to_nat (len + (if pos =? 0 then 0 else 1))%Z <= i)%nat -> nth i w 0 = 0;
    i_val : wval w + 2 ^ (len + pos) * (Z.shiftr k pos + b2z carry) = K0;
    i_carry : carry = true -> pos <= bitLen k;
    i_digits : Forall digit_ok w;
    i_top : nth (Z.to_nat len) w 0 > 0 \/ carry = true \/ wval w = 0;
    i_fuel : Z.of_nat fuel + (len + pos) >= bitLen K0 + 2
  }.

  Record Post (w : list Z) (L : Z) : Prop := mkPost {
    p_len : 0 <= L <= bitLen K0;
    p_size : Z.of_nat (List.length w) = bitLen K0 + 1;
    p_zero : forall i, (Z.to_nat L < i)%nat -> nth i w 0 = 0;
    p_val : wval w = K0;
    p_digits : Forall digit_ok w;
    p_top : nth (Z.to_nat L) w 0 > 0
  }.

  Lemma k_nonneg : forall len, 0 <= len -> 0 <= Z.shiftr K0 len.
  Proof. intros. apply Z.shiftr_nonneg. lia. Qed.

  (* loop condition true: the position len+pos is inside the array *)
  Lemma cond_bound : forall len pos, 0 <= len <= bitLen K0 -> 0 <= pos ->
    pos <= bitLen (Z.shiftr K0 len) -> len + pos <= bitLen K0.
  Proof.
    intros len pos HL Hp Hc.
    destruct (Z.eq_dec pos 0) as [->|Hn]; [lia|].
    destruct (Z_le_gt_dec (len + pos) (bitLen K0)) as [|Hgt]; [assumption|exfalso].
    assert (Hk : 0 <= Z.shiftr K0 len) by (apply k_nonneg; lia).
    assert (Hlt : Z.shiftr K0 len < 2 ^ (pos - 1)).
    { rewrite Z.shiftr_div_pow2 by lia.
      apply Z.div_lt_upper_bound; [apply Z.pow_pos_nonneg; lia|].
      rewrite <- Z.pow_add_r by lia.
      apply (proj1 (bitLen_le K0 (len + (pos - 1)) ltac:(lia) ltac:(lia))). lia. }
    apply (proj2 (bitLen_le _ (pos - 1) Hk ltac:(lia))) in Hlt. lia.
  Qed.

  Lemma wnaf_loop_spec : forall fuel k carry pos len w,
    Inv fuel k carry pos len w ->
    exists w' L, wnaf_loop fuel k carry pos len w = Ok (w', L) /\ Post w' L.
  Proof.
    induction fuel as [|f IH]; intros k carry pos len w I.
    - (* no fuel: the loop condition must be false *)
      destruct I. cbn [wnaf_loop].
      destruct (Z.leb_spec pos (bitLen k)) as [Hc|Hc].
      + exfalso. subst k. pose proof (cond_bound len pos i_len0 i_pos0 Hc). lia.
      + exists w, len. split; [reflexivity|].
        assert (Hk : 0 <= k) by (subst k; apply k_nonneg; lia).
        assert (Hc0 : carry = false).
        { destruct carry; [|reflexivity]. specialize (i_carry0 eq_refl). lia. }
        subst carry. cbn [b2z] in *.
        rewrite (shiftr_small k pos Hk i_pos0 ltac:(lia)) in i_val0.
        rewrite Z.add_0_r, Z.mul_0_r, Z.add_0_r in i_val0.
        constructor; try assumption.
        * intros i Hi. apply i_zero0. destruct (Z.eqb_spec pos 0); lia.
        * destruct i_top0 as [H|[H|H]]; [exact H|discriminate|lia].
    - destruct I. cbn [wnaf_loop].
      assert (Hk : 0 <= k) by (subst k; apply k_nonneg; lia).
      destruct (Z.leb_spec pos (bitLen k)) as [Hc|Hc].
      + pose proof Hc as Hc'. rewrite i_k0 in Hc'.
        pose proof (cond_bound len pos i_len0 i_pos0 Hc') as Hb.
        set (q := Z.shiftr k pos) in *.
        assert (Hq : 0 <= q) by (apply Z.shiftr_nonneg; exact Hk).
        assert (Hq2 : Z.shiftr k (pos + 1) = q / 2).
        { unfold q. rewrite <- Z.shiftr_shiftr by lia. rewrite (Z.shiftr_div_pow2 _ 1) by lia. reflexivity. }
        pose proof (odd_mod2 q) as Hodd.
        unfold zbit. fold q.
        destruct (Bool.eqb (Z.odd q) carry) eqn:Eb.
        * (* the bit equals the carry: advance *)
          apply eqb_prop in Eb.
          apply IH. constructor; try assumption; try lia.
          -- intros i Hi. apply i_zero0. destruct (Z.eqb_spec pos 0); destruct (Z.eqb_spec (pos + 1) 0); lia.
          -- rewrite Hq2. rewrite <- i_val0. rewrite Z.add_assoc, Z.pow_add_r, Z.pow_1_r by lia.
             rewrite <- Eb. destruct (Z.odd q); cbn [b2z]; lia.
          -- intros Hcar. subst carry. rewrite Hcar in Hodd.
             (* bit pos of k is 1, so pos < bitLen k *)
             destruct (Z_le_gt_dec (pos + 1) (bitLen k)) as [|Hgt]; [assumption|exfalso].
             assert (q = 0) by (apply shiftr_small; lia). lia.
        * (* emit a digit at position len + pos *)
          apply eqb_false_iff in Eb.
          assert (Hq16 : Z.shiftr q 4 = q / 16) by (rewrite Z.shiftr_div_pow2 by lia; reflexivity).
          set (v := if carry then q mod 16 + 1 else q mod 16).
          assert (Hv : 1 <= v <= 15 /\ Z.odd v = true /\ v = q mod 16 + b2z carry).
          { unfold v. destruct carry; cbn [b2z].
            - assert (Z.odd q = false) by (destruct (Z.odd q); congruence).
              rewrite H in Hodd. split; [lia|]. split; [|lia].
              rewrite Z.odd_add. rewrite <- Z.negb_even. replace (Z.even (q mod 16)) with true; [reflexivity|].
              symmetry. apply Z.even_spec. exists (q mod 16 / 2). lia.
            - assert (Z.odd q = true) by (destruct (Z.odd q); congruence).
              rewrite H in Hodd. split; [lia|]. split; [|lia].
              apply Z.odd_spec. exists (q mod 16 / 2). lia. }
          destruct Hv as (Hvr & Hvo & Hve).
          fold (zbit v 3). rewrite (bit3 v) by lia.
          set (c' := 8 <=? v).
          set (d := if c' then v - 16 else v).
          assert (Hd : digit_ok d /\ d = v - 16 * b2z c' /\ (d > 0 \/ c' = true)).
          { assert (Hvm : v mod 2 = 1) by (rewrite odd_mod2, Hvo; reflexivity).
            unfold d, c'. destruct (Z.leb_spec 8 v); cbn [b2z]; (split; [right; split; [|lia]|split; [lia|]]).
            - replace (v - 16) with (v + - (16)) by lia. rewrite Z.odd_add, Hvo. reflexivity.
            - right; reflexivity.
            - exact Hvo.
            - left; lia. }
          destruct Hd as (Hdok & Hde & Hdtop).
          assert (Hidx : (Z.to_nat (len + pos)%Z < List.length w)%nat) by lia.
          destruct (upd_spec w (Z.to_nat (len + pos)) d Hidx) as (w' & E & HL & HN & HO & HW).
          rewrite E.
          assert (Hz : nth (Z.to_nat (len + pos)) w 0 = 0).
          { apply i_zero0. destruct (Z.eqb_spec pos 0); lia. }
          specialize (HW Hz). rewrite Z2Nat.id in HW by lia.
          apply IH. constructor; try lia.
          -- subst k. unfold q. rewrite Z.shiftr_shiftr by lia. reflexivity.
          -- intros i Hi. cbn [Z.eqb] in Hi. rewrite HO by lia. apply i_zero0. destruct (Z.eqb_spec pos 0); lia.
          -- rewrite Hq16, HW. rewrite <- i_val0. rewrite (Z.pow_add_r 2 (len + pos) 4) by lia.
             change (2 ^ 4) with 16. rewrite Hde, Hve.
             assert (Hdm : q = 16 * (q / 16) + q mod 16) by (apply Z.div_mod; lia).
             set (A := 2 ^ (len + pos)). set (B := q / 16) in *. set (R := q mod 16) in *.
             replace (q + b2z carry) with (16 * B + R + b2z carry) by lia. ring.
          -- intros Hc1. unfold c' in Hc1. apply Z.leb_le in Hc1.
             (* v >= 8 forces q mod 16 >= 8, so q >= 8 and bitLen q >= 4 *)
             destruct (Z_le_gt_dec 4 (bitLen q)) as [|Hgt]; [assumption|exfalso].
             assert (q < 2 ^ 3) by (apply bitLen_le; lia). change (2 ^ 3) with 8 in H.
             destruct carry; cbn [b2z] in Hve; [|lia].
             assert (Z.odd q = false) by (destruct (Z.odd q); congruence). rewrite H0 in Hodd. lia.
          -- eapply Forall_nth_upd; eassumption.
          -- rewrite HN. destruct Hdtop as [H|H]; [left; exact H|right; left; exact H].
      + (* loop condition false *)
        exists w, len. split; [reflexivity|].
        assert (Hc0 : carry = false).
        { destruct carry; [|reflexivity]. specialize (i_carry0 eq_refl). lia. }
        subst carry. cbn [b2z] in *.
        rewrite (shiftr_small k pos Hk i_pos0 ltac:(lia)) in i_val0.
        rewrite Z.add_0_r, Z.mul_0_r, Z.add_0_r in i_val0.
        constructor; try assumption.
        * intros i Hi. apply i_zero0. destruct (Z.eqb_spec pos 0); lia.
        * destruct i_top0 as [H|[H|H]]; [exact H|discriminate|lia].
  Qed.
End Loop.

(* ---------- sm2GenrateWNaf ------------------------------------------------------------------------------ *)
Lemma os2ip_nonneg : forall b, 0 <= os2ip b.
Proof.
  intros b. unfold os2ip.
  assert (H : forall l acc, 0 <= acc -> 0 <= fold_left (fun a v => a * 256 + Z.of_N v) l acc).
  { induction l as [|x t IH]; intros acc Ha; cbn [fold_left]; [exact Ha|]. apply IH. lia. }
  apply H. lia.
Qed.

(* the scalar the code works with: reduced only when >= n, which is the same as reducing always *)
Definition reduced_scalar (n : Z) (b : list N) : Z :=
  let n0 := os2ip b in if n <=? n0 then n0 mod n else n0.

Lemma reduced_scalar_mod : forall n b, 0 < n -> reduced_scalar n b = os2ip b mod n.
Proof.
  intros n b Hn. unfold reduced_scalar. pose proof (os2ip_nonneg b).
  destruct (Z.leb_spec n (os2ip b)); [reflexivity|]. symmetry. apply Z.mod_small. lia.
Qed.

Theorem wnaf_spec : forall n b, 0 < n ->
  let k := reduced_scalar n b in
  exists ds, sm2GenrateWNaf n b = Ok ds /\
             wval ds = k /\ Forall digit_ok ds /\
             (k = 0 -> ds = [0]) /\ (0 < k -> last ds 0 > 0) /\
             Z.of_nat (length ds) <= bitLen k + 1.
Proof.
  intros n b Hn k. unfold sm2GenrateWNaf. fold (reduced_scalar n b). fold k.
  assert (Hk : 0 <= k).
  { unfold k. rewrite reduced_scalar_mod by exact Hn. apply Z.mod_pos_bound. exact Hn. }
  destruct (Z.eqb_spec k 0) as [E|E].
  - rewrite E. exists [0]. cbn. repeat split; try reflexivity; try lia.
    + constructor; [left; reflexivity|constructor].
  - assert (Hpos : 0 < k) by lia.
    pose proof (bitLen_nonneg k) as Hbl.
    assert (I : Inv k (Z.to_nat (bitLen k + 2)) k false 0 0 (repeat 0 (Z.to_nat (bitLen k + 1)))).
    { apply mkInv.
      - lia.
      - lia.
      - rewrite Z.shiftr_0_r. reflexivity.
      - rewrite repeat_length. lia.
      - intros i _. apply nth_repeat0.
      - rewrite wval_repeat0, Z.shiftr_0_r. cbn [b2z]. change (2 ^ (0 + 0)) with 1. lia.
      - discriminate.
      - apply Forall_forall. intros x Hx. apply repeat_spec in Hx. left. exact Hx.
      - right; right. apply wval_repeat0.
      - lia. }
    destruct (wnaf_loop_spec k Hpos _ _ _ _ _ _ I) as (w & L & Ew & Pw).
    rewrite Ew. cbn [obind]. destruct Pw.
    assert (Hfn : wval (firstn (Z.to_nat (L + 1)) w) = wval w).
    { apply wval_firstn. intros i Hi. apply p_zero0. lia. }
    assert (Hlast : forall l m, (m < length l)%nat -> last (firstn (S m) l) 0 = nth m l 0).
    { induction l as [|x t IHl]; intros m Hm; [cbn in Hm; lia|].
      destruct m as [|m].
      - destruct t; reflexivity.
      - cbn [length] in Hm. specialize (IHl m ltac:(lia)).
        change (firstn (S (S m)) (x :: t)) with (x :: firstn (S m) t).
        destruct t as [|y t']; [cbn in Hm; lia|].
        change (firstn (S m) (y :: t')) with (y :: firstn m t') in *.
        cbn [last nth] in *. exact IHl. }
    destruct (Z.gtb_spec (Z.of_nat (length w)) (L + 1)) as [Hg|Hg].
    + exists (firstn (Z.to_nat (L + 1)) w). split; [reflexivity|].
      split; [rewrite Hfn; exact p_val0|]. split; [|split; [lia|split]].
      * apply Forall_forall. intros x Hx. rewrite Forall_forall in p_digits0. apply p_digits0.
        rewrite <- (firstn_skipn (Z.to_nat (L + 1)) w). apply in_or_app. left. exact Hx.
      * intros _. replace (Z.to_nat (L + 1)) with (S (Z.to_nat L)) by lia.
        rewrite Hlast by lia. exact p_top0.
      * rewrite firstn_length. lia.
    + (* the array is exactly L + 1 long *)
      assert (HLen : Z.of_nat (length w) = L + 1) by lia.
      exists w. split; [reflexivity|]. split; [exact p_val0|]. split; [exact p_digits0|].
      split; [lia|split].
      * intros _. rewrite <- (firstn_all w) at 1.
        replace (length w) with (S (Z.to_nat L)) by lia. rewrite Hlast by lia. exact p_top0.
      * lia.
Qed.
