(* sm2P256ReduceDegree, part (a): the unpacking of 17 x uint64 into 18 x uint32. *)
From Coq Require Import ZArith NArith NArithRing List Bool Lia Zify.
From GmsmVerif Require Import EC.ECAffine EC.P256Model Gen.SM2Params Gen.P256Limbs EC.LimbModel EC.LimbTactics
  EC.LimbProofs EC.LimbReduceDefs.
Import ListNotations.
Open Scope N_scope.

Ltac Zify.zify_post_hook ::= Z.to_euclidean_division_equations.

(* how one 64-bit word is cut: a word at an even position into 29 + 28 + 7 bits, at an odd position into 28 + 29 + 7 *)
Lemma split_even : forall b, b <= 18446744073709551615 ->
  b = b mod 536870912 + 536870912 * (b mod 4294967296 / 536870912 + b / 4294967296 mod 33554432 * 8)
      + 144115188075855872 * (b / 4294967296 / 33554432).
Proof. intros b H. lia. Qed.

Lemma split_odd : forall b, b <= 18446744073709551615 ->
  b = b mod 268435456 + 268435456 * (b mod 4294967296 / 268435456 + b / 4294967296 mod 33554432 * 16)
      + 144115188075855872 * (b / 4294967296 / 33554432).
Proof. intros b H. lia. Qed.

Lemma split_top : forall b, b <= 1152921504606846975 ->
  b = b mod 536870912 + 536870912 * (b mod 4294967296 / 536870912 + b / 4294967296 * 8).
Proof. intros b H. lia. Qed.

(* all 18 limbs normalised except the top one, which stays below 2^31 + 2^8; the value is unchanged.
   b[16] must be < 2^60 (then (b[16]>>32)<<3 does not wrap); the other words may be arbitrary uint64 *)
Definition unpack_post (v : N) (out : N*N*N*N*N*N*N*N*N*N*N*N*N*N*N*N*N*N) : Prop :=
  let '(t0, t1, t2, t3, t4, t5, t6, t7, t8, t9, t10, t11, t12, t13, t14, t15, t16, t17) := out in
  (t0 <= 536870911 /\ t1 <= 268435455 /\ t2 <= 536870911 /\ t3 <= 268435455 /\ t4 <= 536870911 /\ t5 <= 268435455 /\ t6 <= 536870911 /\ t7 <= 268435455 /\ t8 <= 536870911 /\ t9 <= 268435455 /\ t10 <= 536870911 /\ t11 <= 268435455 /\ t12 <= 536870911 /\ t13 <= 268435455 /\ t14 <= 536870911 /\ t15 <= 268435455 /\ t16 <= 536870911) /\ t17 <= 2147483784 /\ value18 t0 t1 t2 t3 t4 t5 t6 t7 t8 t9 t10 t11 t12 t13 t14 t15 t16 t17 = v.

Theorem gen_rd_unpack_correct : forall b_0 b_1 b_2 b_3 b_4 b_5 b_6 b_7 b_8 b_9 b_10 b_11 b_12 b_13 b_14 b_15 b_16,
  b_0 <= 18446744073709551615 -> b_1 <= 18446744073709551615 -> b_2 <= 18446744073709551615 -> b_3 <= 18446744073709551615 -> b_4 <= 18446744073709551615 -> b_5 <= 18446744073709551615 -> b_6 <= 18446744073709551615 -> b_7 <= 18446744073709551615 -> b_8 <= 18446744073709551615 -> b_9 <= 18446744073709551615 -> b_10 <= 18446744073709551615 -> b_11 <= 18446744073709551615 -> b_12 <= 18446744073709551615 -> b_13 <= 18446744073709551615 -> b_14 <= 18446744073709551615 -> b_15 <= 18446744073709551615 -> b_16 <= 1152921504606846975 ->
  unpack_post (value17 b_0 b_1 b_2 b_3 b_4 b_5 b_6 b_7 b_8 b_9 b_10 b_11 b_12 b_13 b_14 b_15 b_16) (gen_rd_unpack b_0 b_1 b_2 b_3 b_4 b_5 b_6 b_7 b_8 b_9 b_10 b_11 b_12 b_13 b_14 b_15 b_16).
Proof.
  intros b_0 b_1 b_2 b_3 b_4 b_5 b_6 b_7 b_8 b_9 b_10 b_11 b_12 b_13 b_14 b_15 b_16 H0 H1 H2 H3 H4 H5 H6 H7 H8 H9 H10 H11 H12 H13 H14 H15 H16.
  cbv beta delta [gen_rd_unpack]. unfold_consts.
  exec.
  unfold unpack_post. split; [repeat split; by_bounds|]. split; [by_bounds|].
  pose proof (split_even b_0 H0) as S0.
  set (pa0 := b_0 mod 536870912) in *; set (pb0 := b_0 mod 4294967296 / 536870912) in *;
  set (pc0 := b_0 / 4294967296 mod 33554432 * 8) in *; set (pd0 := b_0 / 4294967296 / 33554432) in *;
  clearbody pa0 pb0 pc0 pd0.
  pose proof (split_odd b_1 H1) as S1.
  set (pa1 := b_1 mod 268435456) in *; set (pb1 := b_1 mod 4294967296 / 268435456) in *;
  set (pc1 := b_1 / 4294967296 mod 33554432 * 16) in *; set (pd1 := b_1 / 4294967296 / 33554432) in *;
  clearbody pa1 pb1 pc1 pd1.
  pose proof (split_even b_2 H2) as S2.
  set (pa2 := b_2 mod 536870912) in *; set (pb2 := b_2 mod 4294967296 / 536870912) in *;
  set (pc2 := b_2 / 4294967296 mod 33554432 * 8) in *; set (pd2 := b_2 / 4294967296 / 33554432) in *;
  clearbody pa2 pb2 pc2 pd2.
  pose proof (split_odd b_3 H3) as S3.
  set (pa3 := b_3 mod 268435456) in *; set (pb3 := b_3 mod 4294967296 / 268435456) in *;
  set (pc3 := b_3 / 4294967296 mod 33554432 * 16) in *; set (pd3 := b_3 / 4294967296 / 33554432) in *;
  clearbody pa3 pb3 pc3 pd3.
  pose proof (split_even b_4 H4) as S4.
  set (pa4 := b_4 mod 536870912) in *; set (pb4 := b_4 mod 4294967296 / 536870912) in *;
  set (pc4 := b_4 / 4294967296 mod 33554432 * 8) in *; set (pd4 := b_4 / 4294967296 / 33554432) in *;
  clearbody pa4 pb4 pc4 pd4.
  pose proof (split_odd b_5 H5) as S5.
  set (pa5 := b_5 mod 268435456) in *; set (pb5 := b_5 mod 4294967296 / 268435456) in *;
  set (pc5 := b_5 / 4294967296 mod 33554432 * 16) in *; set (pd5 := b_5 / 4294967296 / 33554432) in *;
  clearbody pa5 pb5 pc5 pd5.
  pose proof (split_even b_6 H6) as S6.
  set (pa6 := b_6 mod 536870912) in *; set (pb6 := b_6 mod 4294967296 / 536870912) in *;
  set (pc6 := b_6 / 4294967296 mod 33554432 * 8) in *; set (pd6 := b_6 / 4294967296 / 33554432) in *;
  clearbody pa6 pb6 pc6 pd6.
  pose proof (split_odd b_7 H7) as S7.
  set (pa7 := b_7 mod 268435456) in *; set (pb7 := b_7 mod 4294967296 / 268435456) in *;
  set (pc7 := b_7 / 4294967296 mod 33554432 * 16) in *; set (pd7 := b_7 / 4294967296 / 33554432) in *;
  clearbody pa7 pb7 pc7 pd7.
  pose proof (split_even b_8 H8) as S8.
  set (pa8 := b_8 mod 536870912) in *; set (pb8 := b_8 mod 4294967296 / 536870912) in *;
  set (pc8 := b_8 / 4294967296 mod 33554432 * 8) in *; set (pd8 := b_8 / 4294967296 / 33554432) in *;
  clearbody pa8 pb8 pc8 pd8.
  pose proof (split_odd b_9 H9) as S9.
  set (pa9 := b_9 mod 268435456) in *; set (pb9 := b_9 mod 4294967296 / 268435456) in *;
  set (pc9 := b_9 / 4294967296 mod 33554432 * 16) in *; set (pd9 := b_9 / 4294967296 / 33554432) in *;
  clearbody pa9 pb9 pc9 pd9.
  pose proof (split_even b_10 H10) as S10.
  set (pa10 := b_10 mod 536870912) in *; set (pb10 := b_10 mod 4294967296 / 536870912) in *;
  set (pc10 := b_10 / 4294967296 mod 33554432 * 8) in *; set (pd10 := b_10 / 4294967296 / 33554432) in *;
  clearbody pa10 pb10 pc10 pd10.
  pose proof (split_odd b_11 H11) as S11.
  set (pa11 := b_11 mod 268435456) in *; set (pb11 := b_11 mod 4294967296 / 268435456) in *;
  set (pc11 := b_11 / 4294967296 mod 33554432 * 16) in *; set (pd11 := b_11 / 4294967296 / 33554432) in *;
  clearbody pa11 pb11 pc11 pd11.
  pose proof (split_even b_12 H12) as S12.
  set (pa12 := b_12 mod 536870912) in *; set (pb12 := b_12 mod 4294967296 / 536870912) in *;
  set (pc12 := b_12 / 4294967296 mod 33554432 * 8) in *; set (pd12 := b_12 / 4294967296 / 33554432) in *;
  clearbody pa12 pb12 pc12 pd12.
  pose proof (split_odd b_13 H13) as S13.
  set (pa13 := b_13 mod 268435456) in *; set (pb13 := b_13 mod 4294967296 / 268435456) in *;
  set (pc13 := b_13 / 4294967296 mod 33554432 * 16) in *; set (pd13 := b_13 / 4294967296 / 33554432) in *;
  clearbody pa13 pb13 pc13 pd13.
  pose proof (split_even b_14 H14) as S14.
  set (pa14 := b_14 mod 536870912) in *; set (pb14 := b_14 mod 4294967296 / 536870912) in *;
  set (pc14 := b_14 / 4294967296 mod 33554432 * 8) in *; set (pd14 := b_14 / 4294967296 / 33554432) in *;
  clearbody pa14 pb14 pc14 pd14.
  pose proof (split_odd b_15 H15) as S15.
  set (pa15 := b_15 mod 268435456) in *; set (pb15 := b_15 mod 4294967296 / 268435456) in *;
  set (pc15 := b_15 / 4294967296 mod 33554432 * 16) in *; set (pd15 := b_15 / 4294967296 / 33554432) in *;
  clearbody pa15 pb15 pc15 pd15.
  pose proof (split_top b_16 H16) as S16.
  set (pa16 := b_16 mod 536870912) in *; set (pb16 := b_16 mod 4294967296 / 536870912) in *;
  set (pc16 := b_16 / 4294967296 * 8) in *; clearbody pa16 pb16 pc16.
  unfold value18, value17. num_pows.
  euclid_pairs. subst_defs. clear_bounds. lia.
Qed.
