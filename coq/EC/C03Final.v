(* The statements of C03 about ScalarMult, ScalarBaseMult, the recoding and GenerateKey, instantiated on
   the generated constants of /repo/sm2/p256.go, under the explicit premise SM2Facts (EC/SM2Curve.v). *)
From Coq Require Import ZArith Znumtheory Lia List Bool.
From GmsmVerif Require Import Lib.Outcome EC.ECAffine EC.SM2Curve EC.ECAffineProofs EC.ECGroup
  EC.P256Model EC.P256Proofs EC.P256Instance EC.WnafProofs EC.ScalarProofs EC.BaseMultProofs EC.TableCheck
  Gen.SM2Params Gen.P256Tables.
Import ListNotations.
Open Scope Z_scope.

(* closed terms such as [n]G must never be evaluated by the conversion test *)
Local Strategy 1000 [ec_mul ec_mul_pos ec_add ec_double ec_neg point_ok on_curve modinv egcd
                     sm2P256SelectAffinePoint idx_val tval].

(* ---------- the recoding: no premise needed ------------------------------------------------------------ *)
Theorem wnaf_value : forall b : list N,
  exists ds, sm2GenrateWNaf_model b = Ok ds /\
             wval ds = os2ip b mod sm2_n /\ Forall digit_ok ds /\
             (os2ip b mod sm2_n = 0 -> ds = [0]) /\ (0 < os2ip b mod sm2_n -> last ds 0 > 0) /\
             Z.of_nat (length ds) <= 257.
Proof.
  intros b. assert (Hn : 0 < gen_N) by reflexivity.
  destruct (wnaf_spec gen_N b Hn) as (ds & E & Hv & HF & H0 & Hl & Hlen).
  rewrite reduced_scalar_mod in * by exact Hn. change gen_N with sm2_n in *.
  exists ds. repeat split; try assumption.
  pose proof (Z.mod_pos_bound (os2ip b) sm2_n ltac:(reflexivity)) as Hr.
  assert (bitLen (os2ip b mod sm2_n) <= 256).
  { apply bitLen_le; [lia|lia|]. assert (sm2_n < 2 ^ 256) by reflexivity. lia. }
  lia.
Qed.

Lemma gen_N_range : 0 < gen_N <= 2 ^ 256.
Proof. split; [reflexivity|apply Zle_bool_imp_le; reflexivity]. Qed.

Section Final.
  Hypothesis HF : SM2Facts.

  Lemma HH : P256Hyps gen_curve gen_RInverse gen_sm2P256Factor.
  Proof. exact (gen_hyps (sm2_p_prime HF)). Qed.

  Lemma gen_assoc : forall P Q R, point_ok gen_curve P = true -> point_ok gen_curve Q = true ->
    point_ok gen_curve R = true ->
    ec_add gen_curve (ec_add gen_curve P Q) R = ec_add gen_curve P (ec_add gen_curve Q R).
  Proof. exact (sm2_add_assoc HF). Qed.

  (* ---------- ScalarMult ------------------------------------------------------------------------------ *)
  (* [j]P finite for j = 1..6: every finite point of the SM2 curve satisfies this because the group has
     prime order n > 7 (cofactor 1); that fact about ALL points is not part of SM2Facts, so it is a premise
     here; for the points of the form [j]G it follows from SM2Facts (small_multiples_of_kG below). *)
  Definition small_multiples_finite (Q : point) : Prop := forall j, 1 <= j <= 6 -> sm2_mul j Q <> None.

  Theorem ScalarMult_is_smul : forall x y (k : list N),
    sm2_valid (Some (x, y)) = true -> small_multiples_finite (Some (x, y)) ->
    ScalarMult_model x y k = Ok (encode_point (sm2_mul (os2ip k mod sm2_n) (Some (x, y)))).
  Proof.
    intros x y k Hv Hs.
    exact (ScalarMult_spec gen_curve gen_N gen_RInverse gen_sm2P256Factor HH gen_assoc
             ltac:(reflexivity) x y Hv Hs k).
  Qed.

  Lemma small_multiples_of_kG : forall j, 0 < j < sm2_n -> small_multiples_finite (sm2_mul j sm2_G).
  Proof.
    intros j Hj k Hk.
    rewrite (sm2_mul_mul HF) by (vm_compute; reflexivity).
    rewrite <- (sm2_mul_mod_n HF). apply (sm2_kG_finite HF).
    pose proof (sm2_n_prime HF) as Hpr.
    assert (Hn7 : 7 < sm2_n) by reflexivity.
    pose proof (Z.mod_pos_bound (k * j) sm2_n ltac:(lia)) as Hr.
    assert (Hnz : (k * j) mod sm2_n <> 0).
    { intro E. apply Zmod_divide in E; [|lia].
      destruct (prime_mult _ Hpr _ _ E) as [D|D]; apply Zdivide_le in D; lia. }
    lia.
  Qed.

  (* ScalarMult_is_smul concludes [k mod n]P, which is what the code computes (it reduces the scalar mod n).  That this
     is the group result [k]P needs [n]P = infinity, which SM2Facts gives for the multiples of G only (for ALL curve
     points it is the cofactor-1 fact, like small_multiples_finite).  For P = [j]G both side conditions follow: *)
  Theorem ScalarMult_on_multiples_of_G : forall j x y (k : list N),
    0 < j < sm2_n -> sm2_mul j sm2_G = Some (x, y) ->
    ScalarMult_model x y k = Ok (encode_point (sm2_mul (os2ip k) (Some (x, y)))) /\
    sm2_mul (os2ip k) (Some (x, y)) = sm2_mul (os2ip k * j) sm2_G.
  Proof.
    intros j x y k Hj HP.
    assert (HG : sm2_valid sm2_G = true) by (vm_compute; reflexivity).
    assert (Hv : sm2_valid (Some (x, y)) = true) by (rewrite <- HP; apply (sm2_mul_ok HF); exact HG).
    assert (Hs : small_multiples_finite (Some (x, y))) by (rewrite <- HP; apply small_multiples_of_kG; exact Hj).
    assert (Hred : forall m, sm2_mul m (Some (x, y)) = sm2_mul (m * j) sm2_G).
    { intros m. rewrite <- HP. apply (sm2_mul_mul HF). exact HG. }
    assert (E : sm2_mul (os2ip k mod sm2_n) (Some (x, y)) = sm2_mul (os2ip k) (Some (x, y))).
    { rewrite !Hred. rewrite <- (sm2_mul_mod_n HF (os2ip k mod sm2_n * j)), <- (sm2_mul_mod_n HF (os2ip k * j)).
      rewrite Z.mul_mod_idemp_l by discriminate. reflexivity. }
    split; [|apply Hred].
    rewrite (ScalarMult_is_smul x y k Hv Hs), E. reflexivity.
  Qed.

  (* ---------- ScalarBaseMult ---------------------------------------------------------------------------- *)
  Lemma gen_table : forall h idx, (h = 0 \/ h = 1) -> 1 <= idx <= 15 ->
    let '(px, py) := sm2P256SelectAffinePoint gen_curve gen_RInverse
                       (skipn (Z.to_nat (270 * h)) gen_sm2P256Precomputed) idx in
    Some (px, py) = ec_mul gen_curve (idx_val h idx) (Some (gen_Gx, gen_Gy)).
  Proof.
    intros h idx Hh Hi. pose proof (precomputed_table_correct HF h idx Hh Hi) as H.
    unfold T, entry in H.
    destruct (sm2P256SelectAffinePoint gen_curve gen_RInverse
                (skipn (Z.to_nat (270 * h)) gen_sm2P256Precomputed) idx) as [px py].
    exact H.
  Qed.

  Theorem ScalarBaseMult_is_smul : forall k : list N,
    ScalarBaseMult_model k = Ok (encode_point (sm2_base_mul (os2ip k mod sm2_n))).
  Proof.
    intros k.
    exact (ScalarBaseMult_spec gen_curve gen_N gen_RInverse gen_sm2P256Precomputed gen_sm2P256Factor
             HH gen_assoc gen_Gx gen_Gy (proj2 G_on_curve) gen_N_range
             (sm2_kG_finite HF) gen_table k).
  Qed.

  (* ---------- GenerateKey ------------------------------------------------------------------------------------ *)
  Theorem GenerateKey_is_spec : forall rnd : list N,
    let d := os2ip (firstn 40 rnd) mod (sm2_n - 2) + 1 in
    1 <= d <= sm2_n - 2 /\
    GenerateKey_model rnd =
      if (length rnd <? 40)%nat then Err 1 else Ok (d, encode_point (sm2_base_mul d), 40%nat).
  Proof.
    intros rnd d. split.
    - unfold d. pose proof (Z.mod_pos_bound (os2ip (firstn 40 rnd)) (sm2_n - 2) ltac:(reflexivity)). lia.
    - exact (GenerateKey_spec gen_curve gen_N gen_RInverse gen_sm2P256Precomputed gen_sm2P256Factor
               HH gen_assoc gen_Gx gen_Gy (proj2 G_on_curve) gen_N_range
               (sm2_kG_finite HF) gen_table gen_BitSize rnd eq_refl ltac:(reflexivity)).
  Qed.
End Final.
