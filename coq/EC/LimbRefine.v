(* The limb layer refines the F_p-level model of EC/P256Model.v (step "connect"):
   for loose operands, each limb function commutes with the abstraction fe (= sm2P256ToBig: value * RInverse mod p)
        fe (Add_limbs a b) = sm2P256Add (fe a) (fe b)      (same for Sub, Mul, Square), fe (FromBig_limbs x) = FromBig x,
   and returns loose limbs again.  Hence every straight-line program over these operations - which is what the point
   formulas sm2P256PointDouble / PointAddMixed / PointAdd of p256.go are - computes on limbs a representation of what
   the F_p-level model computes (fexpr_refines), so the theorems of Props/C03.v items 2-5, which are about the F_p-level
   model, carry over to the limb code.  This was an ASSUMPTION tied only by differential tests before. *)
From Coq Require Import ZArith NArith List Bool Lia.
From GmsmVerif Require Import EC.ECAffine EC.P256Model Gen.SM2Params Gen.P256Tables Gen.P256Limbs EC.LimbModel
  EC.LimbProofs EC.LimbReduceFinal.
Import ListNotations.
Open Scope Z_scope.

(* the abstraction function: sm2P256ToBig on a limb vector *)
Definition fe (l : list N) : Z := sm2P256ToBig_limbs l.

Lemma fe_is_fe_of_limbs : forall l, fe l = fe_of_limbs_m (map Z.of_N l).
Proof. reflexivity. Qed.

Lemma R_Rinv : (2 ^ 257 * gen_RInverse) mod gen_P = 1.
Proof. vm_compute. reflexivity. Qed.

Lemma mont_cancel : forall x y, (x * 2 ^ 257) mod gen_P = y mod gen_P ->
  (x * gen_RInverse) mod gen_P = (y * gen_RInverse * gen_RInverse) mod gen_P.
Proof.
  intros x y H.
  assert (Hp : gen_P <> 0) by discriminate.
  transitivity ((x * 2 ^ 257 * (gen_RInverse * gen_RInverse)) mod gen_P).
  - replace (x * 2 ^ 257 * (gen_RInverse * gen_RInverse)) with (x * gen_RInverse * (2 ^ 257 * gen_RInverse)) by ring.
    rewrite (Z.mul_mod (x * gen_RInverse) (2 ^ 257 * gen_RInverse)) by exact Hp.
    rewrite R_Rinv, Z.mul_1_r, Z.mod_mod by exact Hp. reflexivity.
  - rewrite (Z.mul_mod (x * 2 ^ 257)) by exact Hp. rewrite H. rewrite <- Z.mul_mod by exact Hp.
    f_equal. ring.
Qed.

Theorem fe_Mul : forall a b, looseL a -> looseL b ->
  looseL (sm2P256Mul_limbs a b) /\ fe (sm2P256Mul_limbs a b) = Mul_model (fe a) (fe b).
Proof.
  intros a b Ha Hb. destruct (Mul_limbs_correct a b Ha Hb) as (HL & HV). split; [exact HL|].
  unfold fe, sm2P256ToBig_limbs, Mul_model, sm2P256Mul, P256Model.P. change (cp gen_curve) with gen_P.
  rewrite (mont_cancel _ _ HV). rewrite <- Z.mul_mod by discriminate. f_equal. ring.
Qed.

Theorem fe_Square : forall a, looseL a ->
  looseL (sm2P256Square_limbs a) /\ fe (sm2P256Square_limbs a) = Square_model (fe a).
Proof.
  intros a Ha. destruct (Square_limbs_correct a Ha) as (HL & HV). split; [exact HL|].
  unfold fe, sm2P256ToBig_limbs, Square_model, sm2P256Square, P256Model.P. change (cp gen_curve) with gen_P.
  rewrite (mont_cancel _ _ HV). rewrite <- Z.mul_mod by discriminate. f_equal. ring.
Qed.

Theorem fe_Add : forall a b, looseL a -> looseL b ->
  looseL (sm2P256Add_limbs a b) /\ fe (sm2P256Add_limbs a b) = AddFe_model (fe a) (fe b).
Proof.
  intros a b Ha Hb. destruct (Add_limbs_correct a b Ha Hb) as (HL & HV). split; [exact HL|].
  unfold fe, sm2P256ToBig_limbs, AddFe_model, sm2P256Add, P256Model.P. change (cp gen_curve) with gen_P.
  rewrite <- Z.mul_mod_idemp_l by discriminate. rewrite HV. rewrite Z.mul_mod_idemp_l by discriminate.
  rewrite <- Z.add_mod by discriminate. f_equal. ring.
Qed.

Theorem fe_Sub : forall a b, looseL a -> looseL b ->
  looseL (sm2P256Sub_limbs a b) /\ fe (sm2P256Sub_limbs a b) = SubFe_model (fe a) (fe b).
Proof.
  intros a b Ha Hb. destruct (Sub_limbs_correct a b Ha Hb) as (HL & HV). split; [exact HL|].
  unfold fe, sm2P256ToBig_limbs, SubFe_model, sm2P256Sub, P256Model.P. change (cp gen_curve) with gen_P.
  rewrite <- Z.mul_mod_idemp_l by discriminate. rewrite HV. rewrite Z.mul_mod_idemp_l by discriminate.
  rewrite <- Zminus_mod. f_equal. ring.
Qed.

Theorem fe_FromBig : forall x, looseL (sm2P256FromBig_limbs x) /\ fe (sm2P256FromBig_limbs x) = FromBig_model x.
Proof.
  intros x. split; [apply FromBig_loose|].
  destruct (FromBig_limbs_correct x) as (_ & _ & _ & H). exact H.
Qed.

(* the constants sm2P256Factor[k] (Montgomery form of k), used by sm2P256Scalar *)
Definition factor_limbs (k : nat) : list N := map Z.to_N (nth k gen_sm2P256Factor []).
Lemma factor_limbs_ok : forall k, (k <= 8)%nat ->
  looseL (factor_limbs k) /\ fe (factor_limbs k) = Z.of_nat k mod gen_P.
Proof.
  intros k Hk.
  assert (Hc : (k = 0 \/ k = 1 \/ k = 2 \/ k = 3 \/ k = 4 \/ k = 5 \/ k = 6 \/ k = 7 \/ k = 8)%nat) by lia.
  destruct Hc as [->|[->|[->|[->|[->|[->|[->|[->| ->]]]]]]]];
    (split; [vm_compute; repeat split; reflexivity|vm_compute; reflexivity]).
Qed.

(* ---------- straight-line programs over the field operations ---------------------------------------------------- *)
Inductive fexpr : Type :=
| FVar (i : nat)
| FAdd (a b : fexpr)
| FSub (a b : fexpr)
| FMul (a b : fexpr)
| FSquare (a : fexpr)
| FScalar (a : fexpr) (k : nat)     (* sm2P256Scalar(a, k) = sm2P256Mul(a, sm2P256Factor[k]) *)
| FConst (x : Z).                   (* a constant converted by sm2P256FromBig (curve.a, curve.b) *)

(* the program run by the Go code: on limb vectors *)
Fixpoint eval_limbs (rho : nat -> list N) (e : fexpr) : list N :=
  match e with
  | FVar i => rho i
  | FAdd a b => sm2P256Add_limbs (eval_limbs rho a) (eval_limbs rho b)
  | FSub a b => sm2P256Sub_limbs (eval_limbs rho a) (eval_limbs rho b)
  | FMul a b => sm2P256Mul_limbs (eval_limbs rho a) (eval_limbs rho b)
  | FSquare a => sm2P256Square_limbs (eval_limbs rho a)
  | FScalar a k => sm2P256Mul_limbs (eval_limbs rho a) (factor_limbs k)
  | FConst x => sm2P256FromBig_limbs x
  end.

(* the same program in the F_p-level model of EC/P256Model.v *)
Fixpoint eval_fe (rho : nat -> Z) (e : fexpr) : Z :=
  match e with
  | FVar i => rho i
  | FAdd a b => AddFe_model (eval_fe rho a) (eval_fe rho b)
  | FSub a b => SubFe_model (eval_fe rho a) (eval_fe rho b)
  | FMul a b => Mul_model (eval_fe rho a) (eval_fe rho b)
  | FSquare a => Square_model (eval_fe rho a)
  | FScalar a k => sm2P256Scalar gen_curve gen_RInverse gen_sm2P256Factor (eval_fe rho a) k
  | FConst x => FromBig_model x
  end.

Fixpoint scalars_ok (e : fexpr) : Prop :=
  match e with
  | FVar _ | FConst _ => True
  | FAdd a b | FSub a b | FMul a b => scalars_ok a /\ scalars_ok b
  | FSquare a => scalars_ok a
  | FScalar a k => scalars_ok a /\ (k <= 8)%nat
  end.

Lemma factor_model : forall k, (k <= 8)%nat ->
  factor gen_curve gen_RInverse gen_sm2P256Factor k = Z.of_nat k mod gen_P.
Proof.
  intros k Hk.
  assert (Hc : (k = 0 \/ k = 1 \/ k = 2 \/ k = 3 \/ k = 4 \/ k = 5 \/ k = 6 \/ k = 7 \/ k = 8)%nat) by lia.
  destruct Hc as [->|[->|[->|[->|[->|[->|[->|[->| ->]]]]]]]]; vm_compute; reflexivity.
Qed.

Theorem fexpr_refines : forall (rho : nat -> list N) (e : fexpr),
  (forall i, looseL (rho i)) -> scalars_ok e ->
  looseL (eval_limbs rho e) /\ fe (eval_limbs rho e) = eval_fe (fun i => fe (rho i)) e.
Proof.
  intros rho e Hrho. induction e as [i|a IHa b IHb|a IHa b IHb|a IHa b IHb|a IHa|a IHa k|x]; intros Hs;
    cbn [eval_limbs eval_fe scalars_ok] in *.
  - split; [apply Hrho|reflexivity].
  - destruct Hs as [Hsa Hsb]. destruct (IHa Hsa) as [La Ea]. destruct (IHb Hsb) as [Lb Eb].
    destruct (fe_Add _ _ La Lb) as [L E]. split; [exact L|]. rewrite E, Ea, Eb. reflexivity.
  - destruct Hs as [Hsa Hsb]. destruct (IHa Hsa) as [La Ea]. destruct (IHb Hsb) as [Lb Eb].
    destruct (fe_Sub _ _ La Lb) as [L E]. split; [exact L|]. rewrite E, Ea, Eb. reflexivity.
  - destruct Hs as [Hsa Hsb]. destruct (IHa Hsa) as [La Ea]. destruct (IHb Hsb) as [Lb Eb].
    destruct (fe_Mul _ _ La Lb) as [L E]. split; [exact L|]. rewrite E, Ea, Eb. reflexivity.
  - destruct (IHa Hs) as [La Ea].
    destruct (fe_Square _ La) as [L E]. split; [exact L|]. rewrite E, Ea. reflexivity.
  - destruct Hs as [Hsa Hk]. destruct (IHa Hsa) as [La Ea].
    destruct (factor_limbs_ok k Hk) as [Lf Ef].
    destruct (fe_Mul _ _ La Lf) as [L E]. split; [exact L|]. rewrite E, Ea, Ef.
    unfold sm2P256Scalar. rewrite (factor_model k Hk). reflexivity.
  - apply fe_FromBig.
Qed.

(* ---------- the point formulas of p256.go as programs ------------------------------------------------------------ *)
(* sm2P256PointDouble(x3, y3, z3, x, y, z): variables 0, 1, 2 = x, y, z; same temporaries as the Go code *)
Definition pd_x2 := FSquare (FVar 0).
Definition pd_y2 := FSquare (FVar 1).
Definition pd_z2 := FSquare (FVar 2).
Definition pd_z4 := FMul (FMul (FSquare (FVar 2)) (FVar 2)) (FVar 2).
Definition pd_y4 := FScalar (FMul (FMul (FSquare (FVar 1)) (FVar 1)) (FVar 1)) 8.
Definition pd_s := FScalar (FMul (FVar 0) pd_y2) 4.
Definition pd_m := FAdd (FScalar pd_x2 3) (FMul (FConst gen_A) pd_z4).
Definition pd_z3 := FSub (FSub (FSquare (FAdd (FVar 1) (FVar 2))) pd_z2) pd_y2.
Definition pd_x3 := FSub (FSub (FSquare pd_m) pd_s) pd_s.
Definition pd_y3 := FSub (FMul (FSub pd_s pd_x3) pd_m) pd_y4.

Lemma PointDouble_is_program : forall x y z,
  let rho := fun i => match i with 0%nat => x | 1%nat => y | _ => z end in
  PointDouble_model (x, y, z) = (eval_fe rho pd_x3, eval_fe rho pd_y3, eval_fe rho pd_z3).
Proof.
  intros x y z rho.
  unfold PointDouble_model, sm2P256PointDouble, rho, pd_x3, pd_y3, pd_z3, pd_m, pd_s, pd_y4, pd_z4, pd_x2, pd_y2, pd_z2.
  cbn [eval_fe]. unfold Mul_model, Square_model, AddFe_model, SubFe_model, FromBig_model, sm2P256Dup, curve_a.
  change (ca gen_curve) with gen_A. reflexivity.
Qed.

(* the limb code of sm2P256PointDouble (the program above run on limb vectors) represents what the F_p-level model
   computes, for every loose Jacobian triple *)
Theorem PointDouble_limbs_refines : forall X Y Z : list N, looseL X -> looseL Y -> looseL Z ->
  let rho := fun i => match i with 0%nat => X | 1%nat => Y | _ => Z end in
  (looseL (eval_limbs rho pd_x3) /\ looseL (eval_limbs rho pd_y3) /\ looseL (eval_limbs rho pd_z3)) /\
  (fe (eval_limbs rho pd_x3), fe (eval_limbs rho pd_y3), fe (eval_limbs rho pd_z3)) =
  PointDouble_model (fe X, fe Y, fe Z).
Proof.
  intros X Y Z HX HY HZ rho.
  assert (Hrho : forall i, looseL (rho i)) by (intros [|[|i]]; assumption).
  assert (Hok : scalars_ok pd_x3 /\ scalars_ok pd_y3 /\ scalars_ok pd_z3) by (cbn; repeat split; lia).
  destruct Hok as (O1 & O2 & O3).
  destruct (fexpr_refines rho pd_x3 Hrho O1) as [L1 E1].
  destruct (fexpr_refines rho pd_y3 Hrho O2) as [L2 E2].
  destruct (fexpr_refines rho pd_z3 Hrho O3) as [L3 E3].
  split; [repeat split; assumption|].
  rewrite E1, E2, E3. rewrite PointDouble_is_program.
  assert (Ext : forall e, eval_fe (fun i => fe (rho i)) e =
                          eval_fe (fun i => match i with 0%nat => fe X | 1%nat => fe Y | _ => fe Z end) e).
  { induction e; cbn [eval_fe]; try congruence. destruct i as [|[|i]]; reflexivity. }
  rewrite !Ext. reflexivity.
Qed.
