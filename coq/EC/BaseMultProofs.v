(* Proofs about EC/P256Model.v, part 3: base-point multiplication by the comb method over the
   precomputed table.  For EVERY byte string k:  ScalarBaseMult k = [OS2IP(k) mod n] G, with NO side
   condition on the scalar: the exceptional operands of the mixed addition (accumulator equal to the
   table entry) cannot occur, because the doubled accumulator and the table entry have disjoint
   supports in base 2^32 (lemma no_collision) and all partial sums are below n.
   Premises (hypotheses of the Section): the group-law facts (p prime, associativity, G of order n),
   n <= 2^256, and the correctness of the table (discharged by computation in EC/TableCheck.v). *)
From Coq Require Import ZArith Znumtheory Lia List Bool.
From GmsmVerif Require Import Lib.Outcome EC.ECAffine EC.ECAffineProofs EC.JacFormulas EC.ECGroup
  EC.P256Model EC.P256Proofs EC.WnafProofs EC.ByteProofs.
Import ListNotations.
Open Scope Z_scope.

(* ---------- arithmetic of the comb ------------------------------------------------------------------- *)
Definition word (s k : Z) : Z := (s / 2 ^ (32 * k)) mod 2 ^ 32.
(* the top i+1 bits of word k (i = -1: nothing, i = 31: the whole word) *)
Definition chunk (s k i : Z) : Z := word s k / 2 ^ (31 - i).

Definition eval8 (f : Z -> Z) : Z :=
  f 0 + 2 ^ 32 * f 1 + 2 ^ 64 * f 2 + 2 ^ 96 * f 3 + 2 ^ 128 * f 4 + 2 ^ 160 * f 5 + 2 ^ 192 * f 6 + 2 ^ 224 * f 7.

(* value accumulated after row i of the comb *)
Definition Vrow (s i : Z) : Z := eval8 (fun k => chunk s k i).

Definition bitz (s m : Z) : Z := if zbit s m then 1 else 0.

(* value of a table entry: half h (0 or 1), bits e0..e3 *)
Definition tval (h e0 e1 e2 e3 : Z) : Z := 2 ^ (32 * h) * (e0 + 2 ^ 64 * e1 + 2 ^ 128 * e2 + 2 ^ 192 * e3).

Lemma word_range : forall s k, 0 <= word s k < 2 ^ 32.
Proof. intros. unfold word. apply Z.mod_pos_bound. reflexivity. Qed.

Lemma zbit_testbit : forall s m, zbit s m = Z.testbit s m.
Proof. intros. unfold zbit. symmetry. apply Z.testbit_odd. Qed.

Lemma chunk_m1 : forall s k, chunk s k (-1) = 0.
Proof. intros. unfold chunk. change (31 - -1) with 32. apply Z.div_small. apply word_range. Qed.

Lemma chunk_31 : forall s k, chunk s k 31 = word s k.
Proof. intros. unfold chunk. change (31 - 31) with 0. apply Z.div_1_r. Qed.

Lemma chunk_step : forall s k i, 0 <= k -> 0 <= i <= 31 ->
  chunk s k i = 2 * chunk s k (i - 1) + bitz s (32 * k + 31 - i).
Proof.
  intros s k i Hk Hi. unfold chunk.
  replace (31 - (i - 1)) with (31 - i + 1) by ring.
  rewrite Z.pow_add_r, Z.pow_1_r by lia.
  rewrite <- Z.div_div; [|apply Z.pow_nonzero; lia|lia].
  set (q := word s k / 2 ^ (31 - i)).
  assert (Hb : q mod 2 = bitz s (32 * k + 31 - i)).
  { unfold bitz. rewrite zbit_testbit.
    replace (32 * k + 31 - i) with (31 - i + 32 * k) by ring.
    rewrite <- Z.div_pow2_bits by lia.
    rewrite <- (Z.mod_pow2_bits_low (s / 2 ^ (32 * k)) 32 (31 - i)) by lia.
    fold (word s k).
    destruct (Z.testbit (word s k) (31 - i)) eqn:E.
    - apply Z.testbit_true in E; [exact E|lia].
    - apply Z.testbit_false in E; [exact E|lia]. }
  rewrite <- Hb. apply Z.div_mod. lia.
Qed.

Lemma chunk_prev_bound : forall s k i, 0 <= i <= 31 -> 0 <= chunk s k (i - 1) < 2 ^ 31.
Proof.
  intros s k i Hi. unfold chunk. pose proof (word_range s k) as Hw.
  assert (Hpow : 2 <= 2 ^ (31 - (i - 1))).
  { change 2 with (2 ^ 1) at 1. apply Z.pow_le_mono_r; lia. }
  split; [apply Z.div_pos; lia|].
  apply Z.div_lt_upper_bound; [lia|]. change (2 ^ 32) with (2 * 2 ^ 31) in Hw. nia.
Qed.

Lemma chunk_nonneg : forall s k i, i <= 31 -> 0 <= chunk s k i.
Proof.
  intros. unfold chunk. apply Z.div_pos; [apply word_range|apply Z.pow_pos_nonneg; lia].
Qed.

Lemma chunk_le_word : forall s k i, i <= 31 -> chunk s k i <= word s k.
Proof.
  intros s k i Hi. unfold chunk. pose proof (word_range s k).
  apply Z.div_le_upper_bound; [apply Z.pow_pos_nonneg; lia|].
  assert (0 < 2 ^ (31 - i)) by (apply Z.pow_pos_nonneg; lia). nia.
Qed.

Lemma eval8_words : forall s, 0 <= s < 2 ^ 256 -> eval8 (word s) = s.
Proof.
  intros s Hs. unfold eval8, word.
  assert (D : forall a b, 0 <= a -> 0 <= b -> s / 2 ^ (a + b) = s / 2 ^ a / 2 ^ b).
  { intros a b Ha Hb. rewrite Z.pow_add_r by lia.
    rewrite Z.div_div; [reflexivity|apply Z.pow_nonzero; lia|apply Z.pow_pos_nonneg; lia]. }
  change (32 * 0) with 0. change (2 ^ 0) with 1. rewrite Z.div_1_r.
  set (s1 := s / 2 ^ 32).
  assert (E1 : s / 2 ^ (32 * 1) = s1) by reflexivity.
  assert (E2 : s / 2 ^ (32 * 2) = s1 / 2 ^ 32) by (change (32 * 2) with (32 + 32); apply (D 32 32); lia).
  set (s2 := s1 / 2 ^ 32) in *.
  assert (E3 : s / 2 ^ (32 * 3) = s2 / 2 ^ 32) by (change (32 * 3) with (64 + 32); rewrite (D 64 32) by lia; change (s / 2 ^ 64) with (s / 2 ^ (32 * 2)); rewrite E2; reflexivity).
  set (s3 := s2 / 2 ^ 32) in *.
  assert (E4 : s / 2 ^ (32 * 4) = s3 / 2 ^ 32) by (change (32 * 4) with (96 + 32); rewrite (D 96 32) by lia; change (s / 2 ^ 96) with (s / 2 ^ (32 * 3)); rewrite E3; reflexivity).
  set (s4 := s3 / 2 ^ 32) in *.
  assert (E5 : s / 2 ^ (32 * 5) = s4 / 2 ^ 32) by (change (32 * 5) with (128 + 32); rewrite (D 128 32) by lia; change (s / 2 ^ 128) with (s / 2 ^ (32 * 4)); rewrite E4; reflexivity).
  set (s5 := s4 / 2 ^ 32) in *.
  assert (E6 : s / 2 ^ (32 * 6) = s5 / 2 ^ 32) by (change (32 * 6) with (160 + 32); rewrite (D 160 32) by lia; change (s / 2 ^ 160) with (s / 2 ^ (32 * 5)); rewrite E5; reflexivity).
  set (s6 := s5 / 2 ^ 32) in *.
  assert (E7 : s / 2 ^ (32 * 7) = s6 / 2 ^ 32) by (change (32 * 7) with (192 + 32); rewrite (D 192 32) by lia; change (s / 2 ^ 192) with (s / 2 ^ (32 * 6)); rewrite E6; reflexivity).
  set (s7 := s6 / 2 ^ 32) in *.
  assert (E8 : s7 / 2 ^ 32 = 0).
  { rewrite <- E7. change (32 * 7) with 224. rewrite <- (D 224 32) by lia. apply Z.div_small. exact Hs. }
  rewrite E1, E2, E3, E4, E5, E6, E7.
  pose proof (Z.div_mod s (2 ^ 32) ltac:(lia)) as M0. fold s1 in M0.
  pose proof (Z.div_mod s1 (2 ^ 32) ltac:(lia)) as M1. fold s2 in M1.
  pose proof (Z.div_mod s2 (2 ^ 32) ltac:(lia)) as M2. fold s3 in M2.
  pose proof (Z.div_mod s3 (2 ^ 32) ltac:(lia)) as M3. fold s4 in M3.
  pose proof (Z.div_mod s4 (2 ^ 32) ltac:(lia)) as M4. fold s5 in M4.
  pose proof (Z.div_mod s5 (2 ^ 32) ltac:(lia)) as M5. fold s6 in M5.
  pose proof (Z.div_mod s6 (2 ^ 32) ltac:(lia)) as M6. fold s7 in M6.
  pose proof (Z.div_mod s7 (2 ^ 32) ltac:(lia)) as M7. rewrite E8 in M7.
  generalize dependent (s mod 2 ^ 32). generalize dependent (s1 mod 2 ^ 32).
  generalize dependent (s2 mod 2 ^ 32). generalize dependent (s3 mod 2 ^ 32).
  generalize dependent (s4 mod 2 ^ 32). generalize dependent (s5 mod 2 ^ 32).
  generalize dependent (s6 mod 2 ^ 32). generalize dependent (s7 mod 2 ^ 32).
  intros. lia.
Qed.

(* uniqueness of base-2^32 digits, one step *)
Lemma base_split : forall a a' A A', 0 <= a < 2 ^ 32 -> 0 <= a' < 2 ^ 32 ->
  a + 2 ^ 32 * A = a' + 2 ^ 32 * A' -> a = a' /\ A = A'.
Proof. intros. lia. Qed.

Lemma eval8_inj : forall f g,
  (forall k, 0 <= k <= 7 -> 0 <= f k < 2 ^ 32) -> (forall k, 0 <= k <= 7 -> 0 <= g k < 2 ^ 32) ->
  eval8 f = eval8 g -> forall k, 0 <= k <= 7 -> f k = g k.
Proof.
  intros f g Hf Hg E. unfold eval8 in E.
  assert (E0 : f 0 + 2 ^ 32 * (f 1 + 2 ^ 32 * (f 2 + 2 ^ 32 * (f 3 + 2 ^ 32 * (f 4 + 2 ^ 32 * (f 5 + 2 ^ 32 * (f 6 + 2 ^ 32 * f 7))))))
             = g 0 + 2 ^ 32 * (g 1 + 2 ^ 32 * (g 2 + 2 ^ 32 * (g 3 + 2 ^ 32 * (g 4 + 2 ^ 32 * (g 5 + 2 ^ 32 * (g 6 + 2 ^ 32 * g 7))))))).
  { ring_simplify. ring_simplify in E. exact E. }
  clear E.
  apply base_split in E0; [|apply Hf; lia|apply Hg; lia]. destruct E0 as [F0 E1].
  apply base_split in E1; [|apply Hf; lia|apply Hg; lia]. destruct E1 as [F1 E2].
  apply base_split in E2; [|apply Hf; lia|apply Hg; lia]. destruct E2 as [F2 E3].
  apply base_split in E3; [|apply Hf; lia|apply Hg; lia]. destruct E3 as [F3 E4].
  apply base_split in E4; [|apply Hf; lia|apply Hg; lia]. destruct E4 as [F4 E5].
  apply base_split in E5; [|apply Hf; lia|apply Hg; lia]. destruct E5 as [F5 E6].
  apply base_split in E6; [|apply Hf; lia|apply Hg; lia]. destruct E6 as [F6 F7].
  intros k Hk.
  assert (Hc : k = 0 \/ k = 1 \/ k = 2 \/ k = 3 \/ k = 4 \/ k = 5 \/ k = 6 \/ k = 7) by lia.
  destruct Hc as [->|[->|[->|[->|[->|[->|[->| ->]]]]]]]; assumption.
Qed.

(* digits of v are even wherever w has a non-zero digit, and w's digits are 0 or 1: v = w forces w = 0 *)
Lemma no_collision : forall d f,
  (forall k, 0 <= k <= 7 -> 0 <= d k < 2 ^ 32) -> (forall k, 0 <= k <= 7 -> 0 <= f k <= 1) ->
  (forall k, 0 <= k <= 7 -> f k <> 0 -> exists t, d k = 2 * t) ->
  eval8 d = eval8 f -> forall k, 0 <= k <= 7 -> f k = 0.
Proof.
  intros d f Hd Hf Hev E k Hk.
  pose proof (eval8_inj d f Hd ltac:(intros j Hj; specialize (Hf j Hj); lia) E k Hk) as Ek.
  destruct (Z.eq_dec (f k) 0) as [|Hn]; [assumption|].
  destruct (Hev k Hk Hn) as (t & Ht). specialize (Hf k Hk). lia.
Qed.

Lemma bitz_01 : forall s m, 0 <= bitz s m <= 1.
Proof. intros. unfold bitz. destruct (zbit s m); lia. Qed.

(* one row: V_i = 2 V_(i-1) + (entry of table 0) + (entry of table 1) *)
Lemma Vrow_step : forall s i, 0 <= i <= 31 ->
  Vrow s i = 2 * Vrow s (i - 1)
             + tval 0 (bitz s (31 - i + 0 + 64 * 0)) (bitz s (31 - i + 0 + 64 * 1)) (bitz s (31 - i + 0 + 64 * 2)) (bitz s (31 - i + 0 + 64 * 3))
             + tval 1 (bitz s (31 - i + 32 + 64 * 0)) (bitz s (31 - i + 32 + 64 * 1)) (bitz s (31 - i + 32 + 64 * 2)) (bitz s (31 - i + 32 + 64 * 3)).
Proof.
  intros s i Hi. unfold Vrow, eval8, tval.
  rewrite (chunk_step s 0 i), (chunk_step s 1 i), (chunk_step s 2 i), (chunk_step s 3 i),
          (chunk_step s 4 i), (chunk_step s 5 i), (chunk_step s 6 i), (chunk_step s 7 i) by lia.
  replace (32 * 0 + 31 - i) with (31 - i + 0 + 64 * 0) by ring.
  replace (32 * 1 + 31 - i) with (31 - i + 32 + 64 * 0) by ring.
  replace (32 * 2 + 31 - i) with (31 - i + 0 + 64 * 1) by ring.
  replace (32 * 3 + 31 - i) with (31 - i + 32 + 64 * 1) by ring.
  replace (32 * 4 + 31 - i) with (31 - i + 0 + 64 * 2) by ring.
  replace (32 * 5 + 31 - i) with (31 - i + 32 + 64 * 2) by ring.
  replace (32 * 6 + 31 - i) with (31 - i + 0 + 64 * 3) by ring.
  replace (32 * 7 + 31 - i) with (31 - i + 32 + 64 * 3) by ring.
  change (2 ^ (32 * 0)) with 1. change (2 ^ (32 * 1)) with (2 ^ 32).
  change (2 ^ 64) with (2 ^ 32 * 2 ^ 32). change (2 ^ 96) with (2 ^ 32 * 2 ^ 32 * 2 ^ 32).
  change (2 ^ 128) with (2 ^ 32 * 2 ^ 32 * 2 ^ 32 * 2 ^ 32).
  change (2 ^ 160) with (2 ^ 32 * 2 ^ 32 * 2 ^ 32 * 2 ^ 32 * 2 ^ 32).
  change (2 ^ 192) with (2 ^ 32 * 2 ^ 32 * 2 ^ 32 * 2 ^ 32 * 2 ^ 32 * 2 ^ 32).
  change (2 ^ 224) with (2 ^ 32 * 2 ^ 32 * 2 ^ 32 * 2 ^ 32 * 2 ^ 32 * 2 ^ 32 * 2 ^ 32).
  ring.
Qed.

Lemma Vrow_m1 : forall s, Vrow s (-1) = 0.
Proof. intros. unfold Vrow, eval8. rewrite !chunk_m1. reflexivity. Qed.

Lemma Vrow_31 : forall s, 0 <= s < 2 ^ 256 -> Vrow s 31 = s.
Proof.
  intros s Hs. transitivity (eval8 (word s)); [|apply eval8_words; exact Hs].
  unfold Vrow, eval8. rewrite !chunk_31. reflexivity.
Qed.

Lemma Vrow_le : forall s i, 0 <= s < 2 ^ 256 -> i <= 31 -> 0 <= Vrow s i <= s.
Proof.
  intros s i Hs Hi. pose proof (eval8_words s Hs) as Hw. unfold Vrow. unfold eval8 in *.
  pose proof (chunk_le_word s 0 i Hi). pose proof (chunk_le_word s 1 i Hi).
  pose proof (chunk_le_word s 2 i Hi). pose proof (chunk_le_word s 3 i Hi).
  pose proof (chunk_le_word s 4 i Hi). pose proof (chunk_le_word s 5 i Hi).
  pose proof (chunk_le_word s 6 i Hi). pose proof (chunk_le_word s 7 i Hi).
  pose proof (chunk_nonneg s 0 i Hi). pose proof (chunk_nonneg s 1 i Hi).
  pose proof (chunk_nonneg s 2 i Hi). pose proof (chunk_nonneg s 3 i Hi).
  pose proof (chunk_nonneg s 4 i Hi). pose proof (chunk_nonneg s 5 i Hi).
  pose proof (chunk_nonneg s 6 i Hi). pose proof (chunk_nonneg s 7 i Hi).
  lia.
Qed.

(* the two collision-freeness facts of a row *)
Lemma row_no_collision_0 : forall s i e0 e1 e2 e3, 0 <= i <= 31 ->
  0 <= e0 <= 1 -> 0 <= e1 <= 1 -> 0 <= e2 <= 1 -> 0 <= e3 <= 1 ->
  2 * Vrow s (i - 1) = tval 0 e0 e1 e2 e3 -> e0 = 0 /\ e1 = 0 /\ e2 = 0 /\ e3 = 0.
Proof.
  intros s i e0 e1 e2 e3 Hi H0 H1 H2 H3 E.
  set (d := fun k => 2 * chunk s k (i - 1)).
  set (f := fun k : Z => if k =? 0 then e0 else if k =? 2 then e1 else if k =? 4 then e2 else if k =? 6 then e3 else 0).
  assert (E' : eval8 d = eval8 f).
  { unfold eval8, d, f. cbn [Z.eqb Pos.eqb]. unfold Vrow, eval8, tval in E. change (2 ^ (32 * 0)) with 1 in E. lia. }
  pose proof (no_collision d f) as NC.
  assert (Hd : forall k, 0 <= k <= 7 -> 0 <= d k < 2 ^ 32).
  { intros k Hk. unfold d. pose proof (chunk_prev_bound s k i Hi). change (2 ^ 32) with (2 * 2 ^ 31). lia. }
  assert (Hf : forall k, 0 <= k <= 7 -> 0 <= f k <= 1).
  { intros k Hk. unfold f. repeat (destruct (_ =? _)); lia. }
  assert (Hev : forall k, 0 <= k <= 7 -> f k <> 0 -> exists t, d k = 2 * t).
  { intros k _ _. exists (chunk s k (i - 1)). reflexivity. }
  specialize (NC Hd Hf Hev E').
  pose proof (NC 0 ltac:(lia)) as A0. pose proof (NC 2 ltac:(lia)) as A1.
  pose proof (NC 4 ltac:(lia)) as A2. pose proof (NC 6 ltac:(lia)) as A3.
  unfold f in A0, A1, A2, A3. cbn [Z.eqb Pos.eqb] in *. auto.
Qed.

Lemma row_no_collision_1 : forall s i f0 f1 f2 f3 e0 e1 e2 e3, 0 <= i <= 31 ->
  0 <= f0 <= 1 -> 0 <= f1 <= 1 -> 0 <= f2 <= 1 -> 0 <= f3 <= 1 ->
  0 <= e0 <= 1 -> 0 <= e1 <= 1 -> 0 <= e2 <= 1 -> 0 <= e3 <= 1 ->
  2 * Vrow s (i - 1) + tval 0 f0 f1 f2 f3 = tval 1 e0 e1 e2 e3 -> e0 = 0 /\ e1 = 0 /\ e2 = 0 /\ e3 = 0.
Proof.
  intros s i f0 f1 f2 f3 e0 e1 e2 e3 Hi G0 G1 G2 G3 H0 H1 H2 H3 E.
  set (d := fun k => 2 * chunk s k (i - 1) +
                     (if k =? 0 then f0 else if k =? 2 then f1 else if k =? 4 then f2 else if k =? 6 then f3 else 0)).
  set (f := fun k : Z => if k =? 1 then e0 else if k =? 3 then e1 else if k =? 5 then e2 else if k =? 7 then e3 else 0).
  assert (E' : eval8 d = eval8 f).
  { unfold eval8, d, f. cbn [Z.eqb Pos.eqb]. unfold Vrow, eval8, tval in E.
    change (2 ^ (32 * 0)) with 1 in E. change (2 ^ (32 * 1)) with (2 ^ 32) in E.
    change (2 ^ 96) with (2 ^ 32 * 2 ^ 64). change (2 ^ 160) with (2 ^ 32 * 2 ^ 128).
    change (2 ^ 224) with (2 ^ 32 * 2 ^ 192). lia. }
  pose proof (no_collision d f) as NC.
  assert (Hd : forall k, 0 <= k <= 7 -> 0 <= d k < 2 ^ 32).
  { intros k Hk. unfold d. pose proof (chunk_prev_bound s k i Hi). change (2 ^ 32) with (2 * 2 ^ 31).
    repeat (destruct (_ =? _)); lia. }
  assert (Hf : forall k, 0 <= k <= 7 -> 0 <= f k <= 1).
  { intros k Hk. unfold f. repeat (destruct (_ =? _)); lia. }
  assert (Hev : forall k, 0 <= k <= 7 -> f k <> 0 -> exists t, d k = 2 * t).
  { intros k Hk Hn. exists (chunk s k (i - 1)). unfold d, f in *.
    assert (Hc : k = 0 \/ k = 1 \/ k = 2 \/ k = 3 \/ k = 4 \/ k = 5 \/ k = 6 \/ k = 7) by lia.
    destruct Hc as [->|[->|[->|[->|[->|[->|[->| ->]]]]]]]; cbn [Z.eqb Pos.eqb] in *; lia. }
  specialize (NC Hd Hf Hev E').
  pose proof (NC 1 ltac:(lia)) as A0. pose proof (NC 3 ltac:(lia)) as A1.
  pose proof (NC 5 ltac:(lia)) as A2. pose proof (NC 7 ltac:(lia)) as A3.
  unfold f in A0, A1, A2, A3. cbn [Z.eqb Pos.eqb] in *. auto.
Qed.

(* ---------- the comb evaluation of the model ----------------------------------------------------------- *)
Section Base.
  Variable c : curve.
  Variables (n rinv : Z) (precomputed : list Z) (factorT : list (list Z)).
  Notation p := (cp c).
  Hypothesis HH : P256Hyps c rinv factorT.
  Hypothesis Hassoc : forall P Q R, point_ok c P = true -> point_ok c Q = true -> point_ok c R = true ->
    ec_add c (ec_add c P Q) R = ec_add c P (ec_add c Q R).
  Variables (gx gy : Z).
  Notation G := (Some (gx, gy)).
  Hypothesis HG : point_ok c G = true.
  Hypothesis Hn : 0 < n <= 2 ^ 256.
  Hypothesis Hord : ec_mul c n G = None.
  Hypothesis Hfin : forall k, 0 < k < n -> ec_mul c k G <> None.

  Let Hp : prime p := h_prime _ _ _ HH.
  Let Hp3 : 3 < p := h_p3 _ _ _ HH.

  Notation mul := (ec_mul c).
  Notation J := (Jpt c).
  Notation PD := (sm2P256PointDouble c rinv factorT).
  Notation PM := (sm2P256PointAddMixed c).
  Notation one := (factor c rinv factorT 1).

  (* the table: entry idx (1..15) of half h is [tval h (bits of idx)] G *)
  Definition idx_val (h idx : Z) : Z :=
    tval h (idx mod 2) ((idx / 2) mod 2) ((idx / 4) mod 2) ((idx / 8) mod 2).
  Hypothesis Htable : forall h idx, (h = 0 \/ h = 1) -> 1 <= idx <= 15 ->
    let '(px, py) := sm2P256SelectAffinePoint c rinv (skipn (Z.to_nat (270 * h)) precomputed) idx in
    Some (px, py) = mul (idx_val h idx) G.

  Lemma mulG_ok : forall k, point_ok c (mul k G) = true.
  Proof. intros. apply (mul_ok c Hp Hp3). exact HG. Qed.

  (* distinct multiples below n are distinct points *)
  Lemma mulG_inj : forall v w, 0 < v < n -> 0 < w < n -> mul v G = mul w G -> v = w.
  Proof.
    assert (Hlt : forall v w, 0 < w < v -> v < n -> mul v G = mul w G -> False).
    { intros v w Hw Hv E. apply (Hfin (v - w) ltac:(lia)).
      replace (v - w) with (v + - w) by ring.
      rewrite (mul_add c Hp Hp3 Hassoc) by exact HG.
      rewrite (mul_opp c Hp Hp3) by exact HG. rewrite E.
      apply (ec_add_neg c Hp3). apply mulG_ok. }
    intros v w Hv Hw E. destruct (Z.lt_trichotomy v w) as [L|[L|L]]; [exfalso|exact L|exfalso].
    - apply (Hlt w v); [lia|lia|symmetry; exact E].
    - apply (Hlt v w); [lia|lia|exact E].
  Qed.

  (* state after a step: value v; while nothing was added the accumulator content is irrelevant *)
  Definition St (v : Z) (acc : jac) (nIsInf : bool) : Prop :=
    (nIsInf = true -> v = 0) /\ (nIsInf = false -> 0 < v /\ J acc (mul v G)).

  Lemma step_spec : forall s i h acc nIsInf v,
    (h = 0 \/ h = 1) ->
    let e0 := bitz s (31 - i + 32 * h + 64 * 0) in
    let e1 := bitz s (31 - i + 32 * h + 64 * 1) in
    let e2 := bitz s (31 - i + 32 * h + 64 * 2) in
    let e3 := bitz s (31 - i + 32 * h + 64 * 3) in
    let w := tval h e0 e1 e2 e3 in
    St v acc nIsInf -> v + w < n -> (w <> 0 -> v <> w) ->
    let '(acc', inf') := baseMult_step c rinv precomputed factorT s i (32 * h) (Z.to_nat (270 * h)) (acc, nIsInf) in
    St (v + w) acc' inf' /\ (inf' = true -> acc' = (0, 0, one)).
  Proof.
    intros s i h acc nIsInf v Hh e0 e1 e2 e3 w HS Hlt Hne.
    unfold baseMult_step. unfold sm2P256GetBit.
    fold (bitz s (31 - i + 32 * h)). fold (bitz s (95 - i + 32 * h)).
    fold (bitz s (159 - i + 32 * h)). fold (bitz s (223 - i + 32 * h)).
    replace (31 - i + 32 * h) with (31 - i + 32 * h + 64 * 0) by ring.
    replace (95 - i + 32 * h) with (31 - i + 32 * h + 64 * 1) by ring.
    replace (159 - i + 32 * h) with (31 - i + 32 * h + 64 * 2) by ring.
    replace (223 - i + 32 * h) with (31 - i + 32 * h + 64 * 3) by ring.
    fold e0 e1 e2 e3.
    pose proof (bitz_01 s (31 - i + 32 * h + 64 * 0)) as B0. fold e0 in B0.
    pose proof (bitz_01 s (31 - i + 32 * h + 64 * 1)) as B1. fold e1 in B1.
    pose proof (bitz_01 s (31 - i + 32 * h + 64 * 2)) as B2. fold e2 in B2.
    pose proof (bitz_01 s (31 - i + 32 * h + 64 * 3)) as B3. fold e3 in B3.
    set (idx := e0 + 2 * e1 + 4 * e2 + 8 * e3).
    assert (Hidx : 0 <= idx <= 15) by (unfold idx; lia).
    assert (Hw : w = idx_val h idx).
    { unfold w, idx_val. f_equal; unfold idx; lia. }
    assert (Hw0 : idx = 0 <-> w = 0).
    { unfold w, tval, idx. assert (0 < 2 ^ (32 * h)) by (apply Z.pow_pos_nonneg; lia). split; intro E0.
      - assert (e0 = 0 /\ e1 = 0 /\ e2 = 0 /\ e3 = 0) as (-> & -> & -> & ->) by lia. ring.
      - assert (e0 + 2 ^ 64 * e1 + 2 ^ 128 * e2 + 2 ^ 192 * e3 = 0) by nia. lia. }
    destruct HS as [HSt HSf].
    destruct (Z.eqb_spec idx 0) as [E0|E0].
    - (* index 0: nothing is added *)
      assert (W0 : w = 0) by (apply Hw0; exact E0). rewrite W0, Z.add_0_r.
      rewrite E0. unfold sm2P256SelectAffinePoint. cbn [Z.leb Z.compare andb negb].
      destruct nIsInf; cbn [andb negb].
      + split; [split; [intros _; apply HSt; reflexivity|discriminate]|reflexivity].
      + split; [split; [discriminate|intros _; apply HSf; reflexivity]|discriminate].
    - assert (W0 : w <> 0) by (intro H0; apply E0; apply Hw0; exact H0).
      pose proof (Htable h idx Hh ltac:(lia)) as HT.
      destruct (sm2P256SelectAffinePoint c rinv (skipn (Z.to_nat (270 * h)) precomputed) idx) as [px py].
      rewrite <- Hw in HT.
      assert (Hwpos : 0 < w).
      { unfold w, tval. assert (0 < 2 ^ (32 * h)) by (apply Z.pow_pos_nonneg; lia). nia. }
      destruct nIsInf; cbn [andb negb].
      + (* first non-zero index: the accumulator becomes the table entry *)
        assert (v = 0) by (apply HSt; reflexivity). subst v. rewrite Z.add_0_l.
        split; [|discriminate]. split; [discriminate|intros _]. split; [exact Hwpos|].
        rewrite <- HT. cbn [Jpt]. unfold jrep. rewrite (h_f1 _ _ _ HH).
        rewrite Z.mod_small by lia. split; [apply small_neq_0; [exact Hp|lia]|].
        split; unfold feq; f_equal; lia.
      + destruct (HSf eq_refl) as [Hv HJ].
        split; [|discriminate]. split; [discriminate|intros _]. split; [lia|].
        rewrite (mul_add c Hp Hp3 Hassoc) by exact HG. rewrite <- HT.
        pose proof (mulG_ok v) as Okv. pose proof (Hfin v ltac:(lia)) as Fv.
        destruct (mul v G) as [[xv yv]|] eqn:Ev; [|congruence].
        apply (PointAddMixed_total c rinv factorT HH); try assumption.
        * pose proof (mulG_ok w) as Okw. rewrite <- HT in Okw. exact Okw.
        * intro Eq. apply (Hne W0). apply mulG_inj; [lia|lia|]. rewrite Ev, <- HT. f_equal. exact Eq.
  Qed.

  (* one row of the comb *)
  Lemma row_spec : forall s i acc nIsInf, 0 <= s < n -> 0 <= i <= 31 ->
    St (Vrow s (i - 1)) acc nIsInf ->
    let acc1 := if i =? 0 then acc else PD acc in
    let st1 := baseMult_step c rinv precomputed factorT s i 0 0 (acc1, nIsInf) in
    let '(acc', inf') := baseMult_step c rinv precomputed factorT s i 32 270 st1 in
    St (Vrow s i) acc' inf' /\ (inf' = true -> acc' = (0, 0, one)).
  Proof.
    intros s i acc nIsInf Hs Hi HS acc1 st1.
    assert (Hs256 : 0 <= s < 2 ^ 256) by lia.
    pose proof (Vrow_step s i Hi) as HV.
    pose proof (Vrow_le s i Hs256 ltac:(lia)) as HVle.
    pose proof (Vrow_le s (i - 1) Hs256 ltac:(lia)) as HVle1.
    set (f0 := bitz s (31 - i + 0 + 64 * 0)) in *. set (f1 := bitz s (31 - i + 0 + 64 * 1)) in *.
    set (f2 := bitz s (31 - i + 0 + 64 * 2)) in *. set (f3 := bitz s (31 - i + 0 + 64 * 3)) in *.
    set (g0 := bitz s (31 - i + 32 + 64 * 0)) in *. set (g1 := bitz s (31 - i + 32 + 64 * 1)) in *.
    set (g2 := bitz s (31 - i + 32 + 64 * 2)) in *. set (g3 := bitz s (31 - i + 32 + 64 * 3)) in *.
    pose proof (bitz_01 s (31 - i + 0 + 64 * 0)) as F0. fold f0 in F0.
    pose proof (bitz_01 s (31 - i + 0 + 64 * 1)) as F1. fold f1 in F1.
    pose proof (bitz_01 s (31 - i + 0 + 64 * 2)) as F2. fold f2 in F2.
    pose proof (bitz_01 s (31 - i + 0 + 64 * 3)) as F3. fold f3 in F3.
    pose proof (bitz_01 s (31 - i + 32 + 64 * 0)) as G0. fold g0 in G0.
    pose proof (bitz_01 s (31 - i + 32 + 64 * 1)) as G1. fold g1 in G1.
    pose proof (bitz_01 s (31 - i + 32 + 64 * 2)) as G2. fold g2 in G2.
    pose proof (bitz_01 s (31 - i + 32 + 64 * 3)) as G3. fold g3 in G3.
    set (w0 := tval 0 f0 f1 f2 f3) in *. set (w1 := tval 1 g0 g1 g2 g3) in *.
    assert (W0 : 0 <= w0) by (unfold w0, tval; change (2 ^ (32 * 0)) with 1; lia).
    assert (W1 : 0 <= w1) by (unfold w1, tval; change (2 ^ (32 * 1)) with (2 ^ 32); lia).
    (* after the doubling the value is 2 V_(i-1) *)
    assert (HS1 : St (2 * Vrow s (i - 1)) acc1 nIsInf).
    { destruct HS as [HSt HSf]. split.
      - intros E. rewrite (HSt E). reflexivity.
      - intros E. destruct (HSf E) as [Hv HJ]. split; [lia|]. unfold acc1.
        destruct (Z.eqb_spec i 0) as [->|_].
        + exfalso. change (0 - 1) with (-1) in Hv. rewrite Vrow_m1 in Hv. lia.
        + rewrite (mul_double c Hp Hp3 Hassoc) by exact HG.
          apply (PointDouble_total c rinv factorT HH). exact HJ. }
    pose proof (step_spec s i 0 acc1 nIsInf (2 * Vrow s (i - 1)) (or_introl eq_refl)) as S0.
    cbn zeta in S0. change (32 * 0) with 0 in S0. change (Z.to_nat (270 * 0)) with 0%nat in S0.
    fold f0 f1 f2 f3 in S0. fold w0 in S0.
    specialize (S0 HS1 ltac:(lia)).
    assert (NC0 : w0 <> 0 -> 2 * Vrow s (i - 1) <> w0).
    { intros Hw0 E. destruct (row_no_collision_0 s i f0 f1 f2 f3 Hi F0 F1 F2 F3 E) as (A & B & C & D).
      apply Hw0. unfold w0. rewrite A, B, C, D. reflexivity. }
    specialize (S0 NC0). fold st1 in S0.
    destruct st1 as [acc2 inf2]. destruct S0 as [S0 _].
    pose proof (step_spec s i 1 acc2 inf2 (2 * Vrow s (i - 1) + w0) (or_intror eq_refl)) as S1.
    cbn zeta in S1. change (32 * 1) with 32 in S1. change (Z.to_nat (270 * 1)) with 270%nat in S1.
    fold g0 g1 g2 g3 in S1. fold w1 in S1.
    specialize (S1 S0 ltac:(lia)).
    assert (NC1 : w1 <> 0 -> 2 * Vrow s (i - 1) + w0 <> w1).
    { intros Hw1 E.
      destruct (row_no_collision_1 s i f0 f1 f2 f3 g0 g1 g2 g3 Hi F0 F1 F2 F3 G0 G1 G2 G3 E) as (A & B & C & D).
      apply Hw1. unfold w1. rewrite A, B, C, D. reflexivity. }
    specialize (S1 NC1).
    destruct (baseMult_step c rinv precomputed factorT s i 32 270 (acc2, inf2)) as [acc' inf'].
    rewrite HV. exact S1.
  Qed.

  Lemma loop_spec : forall s m a acc nIsInf, 0 <= s < n -> (a + m = 32)%nat ->
    St (Vrow s (Z.of_nat a - 1)) acc nIsInf ->
    let '(acc', inf') := baseMult_loop c rinv precomputed factorT s (map Z.of_nat (seq a m)) (acc, nIsInf) in
    St (Vrow s 31) acc' inf' /\
    (inf' = true -> acc' = (0, 0, one) \/ (m = 0%nat /\ acc' = acc /\ inf' = nIsInf)).
  Proof.
    intros s m. induction m as [|m IH]; intros a acc nIsInf Hs Ham HS.
    - cbn [seq map baseMult_loop]. replace (Z.of_nat a - 1) with 31 in HS by lia.
      split; [exact HS|]. intros _. right. repeat split; reflexivity.
    - cbn [seq map baseMult_loop].
      pose proof (row_spec s (Z.of_nat a) acc nIsInf Hs ltac:(lia) HS) as HR. cbn zeta in HR.
      destruct (baseMult_step c rinv precomputed factorT s (Z.of_nat a) 32 270
                  (baseMult_step c rinv precomputed factorT s (Z.of_nat a) 0 0
                     (if Z.of_nat a =? 0 then acc else PD acc, nIsInf))) as [acc1 inf1].
      destruct HR as [HS1 HI1].
      specialize (IH (S a) acc1 inf1 Hs ltac:(lia)).
      replace (Z.of_nat (S a) - 1) with (Z.of_nat a) in IH by lia. specialize (IH HS1).
      destruct (baseMult_loop c rinv precomputed factorT s (map Z.of_nat (seq (S a) m)) (acc1, inf1)) as [acc' inf'].
      destruct IH as [IH1 IH2]. split; [exact IH1|]. intros Hinf. left.
      destruct (IH2 Hinf) as [E|(_ & -> & E2)]; [exact E|].
      apply HI1. rewrite <- E2. exact Hinf.
  Qed.

  Theorem sm2P256ScalarBaseMult_spec : forall s, 0 <= s < n ->
    sm2P256ToAffine c (sm2P256ScalarBaseMult c rinv precomputed factorT s) = encode_point (mul s G).
  Proof.
    intros s Hs. unfold sm2P256ScalarBaseMult.
    pose proof (loop_spec s 32 0 jzero true Hs eq_refl) as H.
    change (Z.of_nat 0 - 1) with (-1) in H. rewrite Vrow_m1 in H.
    assert (H0 : St 0 jzero true) by (split; intros E; [reflexivity|discriminate E]).
    specialize (H H0). clear H0.
    destruct (baseMult_loop c rinv precomputed factorT s (map Z.of_nat (seq 0 32)) (jzero, true)) as [acc' inf'].
    cbn [fst]. destruct H as [[HSt HSf] HI]. rewrite Vrow_31 in * by lia.
    destruct inf'.
    - rewrite (HSt eq_refl). destruct (HI eq_refl) as [E|(E & _)]; [|discriminate]. rewrite E.
      cbn [ec_mul encode_point].
      transitivity (0 mod p, 0 mod p).
      + apply (ToAffine_rep c rinv factorT HH). unfold jrep. rewrite (h_f1 _ _ _ HH).
        rewrite Z.mod_small by lia. split; [apply small_neq_0; [exact Hp|lia]|].
        split; unfold feq; f_equal; ring.
      + rewrite Z.mod_0_l by lia. reflexivity.
    - destruct (HSf eq_refl) as [_ HJ].
      apply (ToAffine_Jpt c rinv factorT HH); [exact HJ|]. apply point_ok_red. apply mulG_ok.
  Qed.

  Lemma GetScalar_ok : forall b, sm2P256GetScalar n b = Ok (os2ip b mod n).
  Proof.
    intros b. unfold sm2P256GetScalar. fold (reduced_scalar n b).
    rewrite reduced_scalar_mod by lia.
    pose proof (Z.mod_pos_bound (os2ip b) n ltac:(lia)) as Hr.
    pose proof (big_bytes_length (os2ip b mod n) 32) as HL.
    change (256 ^ Z.of_nat 32) with (2 ^ 256) in HL. specialize (HL ltac:(lia)).
    destruct (Z.ltb_spec 32 (Z.of_nat (length (big_bytes (os2ip b mod n))))); [lia|reflexivity].
  Qed.

  Theorem ScalarBaseMult_spec : forall b,
    ScalarBaseMult c n rinv precomputed factorT b = Ok (encode_point (mul (os2ip b mod n) G)).
  Proof.
    intros b. unfold ScalarBaseMult. rewrite GetScalar_ok. cbn [obind]. f_equal.
    apply sm2P256ScalarBaseMult_spec. apply Z.mod_pos_bound. lia.
  Qed.

  (* ---------- GenerateKey ---------------------------------------------------------------------------- *)
  Theorem GenerateKey_spec : forall bitSize rnd, bitSize = 256 -> 3 < n ->
    let d := os2ip (firstn 40 rnd) mod (n - 2) + 1 in
    GenerateKey c n rinv bitSize precomputed factorT rnd =
      if (length rnd <? 40)%nat then Err 1
      else Ok (d, encode_point (mul d G), 40%nat).
  Proof.
    intros bitSize rnd -> Hn3 d. unfold GenerateKey.
    change (Z.to_nat (256 / 8 + 8)) with 40%nat.
    destruct (length rnd <? 40)%nat; [reflexivity|].
    fold d.
    assert (Hd : 1 <= d <= n - 2).
    { unfold d. pose proof (Z.mod_pos_bound (os2ip (firstn 40 rnd)) (n - 2) ltac:(lia)). lia. }
    rewrite ScalarBaseMult_spec. cbn [obind].
    rewrite big_bytes_value by lia. rewrite Z.mod_small by lia. reflexivity.
  Qed.
End Base.
