(* Model of /repo/sm2/p256.go (curve object sm2P256Curve) and of GenerateKey / randFieldElement in
   /repo/sm2/sm2.go, function by function, same names.  No proofs in this file.

   LEVEL.  A Go sm2P256FieldElement is 9 limbs of alternating 29/28 bits (257 bits, R = 2^257) in
   Montgomery form.  A limb vector X *represents* the field element
        fe_of_limbs X = limbs_value X * RInverse mod P            (this is exactly sm2P256ToBig).
   The model works with represented values: a field element is an integer in [0,P).  Under this
   abstraction sm2P256FromBig a = a mod P, sm2P256Mul/Square/Add/Sub are * + - mod P (the Montgomery
   factor cancels: Mul computes X*Y*R^-1 on limb values, i.e. x*y on represented values), and
   sm2P256Scalar(b,k) multiplies by the value represented by sm2P256Factor[k].  That the 9-limb code
   (sm2P256Mul, Square, ReduceDegree, ReduceCarry, Add, Sub, FromBig) commutes with fe_of_limbs is PROVED
   in EC/LimbRefine.v over the mechanically translated limb code (Gen/P256Limbs.v, EC/Limb*.v), and the point
   functions, selections and scalar multiplications on limbs are proved equal to this model in EC/LimbPoint.v,
   LimbScalar.v, LimbScalarMult.v, LimbAPI.v; the white-box driver harness/cmd/c03w ties both to /repo.
   Tables (sm2P256Precomputed, sm2P256Factor) enter through fe_of_limbs of the generated limb lists.

   The model is a Section over the constants of the curve object so that proofs can treat them as
   opaque; the instance over Gen.SM2Params / Gen.P256Tables is at the end of the file. *)
From Coq Require Import ZArith NArith List Bool.
From GmsmVerif Require Import Lib.Outcome EC.ECAffine Gen.SM2Params Gen.P256Tables.
Import ListNotations.
Open Scope Z_scope.

Notation byte := N (only parsing).

(* ---------- big.Int helpers (documented contracts of math/big) ---------------------------- *)
(* new(big.Int).SetBytes(b): big-endian unsigned *)
Definition os2ip (b : list byte) : Z := fold_left (fun acc v => acc * 256 + Z.of_N v) b 0.

(* x.BitLen() for x >= 0 *)
Definition bitLen (x : Z) : Z := if x <=? 0 then 0 else Z.log2 x + 1.

(* x.Bit(i) for x >= 0 *)
Definition zbit (x i : Z) : bool := Z.odd (Z.shiftr x i).

(* x.Bytes(): minimal big-endian encoding of x >= 0 (empty for 0) *)
Fixpoint le_bytes (fuel : nat) (x : Z) : list byte :=
  match fuel with
  | O => []
  | S f => if x <=? 0 then [] else Z.to_N (x mod 256) :: le_bytes f (x / 256)
  end.
Definition big_bytes (x : Z) : list byte := rev (le_bytes (S (Z.to_nat (Z.log2 x))) x).

(* ---------- limb vectors ------------------------------------------------------------------- *)
(* value of a limb list, radix 2^29, 2^28, 2^29, ... starting with 29 (w29 = true) *)
Fixpoint limbs_value_from (w29 : bool) (l : list Z) : Z :=
  match l with
  | [] => 0
  | x :: t => x + (if w29 then 536870912 else 268435456) * limbs_value_from (negb w29) t
  end.
Definition limbs_value (l : list Z) : Z := limbs_value_from true l.

(* l[off : off+len] *)
Definition slice {A} (l : list A) (off len : nat) : list A := firstn len (skipn off l).

Definition fe := Z.
Definition jac := (fe * fe * fe)%type.

Section P256.
  Variable c : curve.               (* sm2P256.P, and A, B (the integers behind curve.a, curve.b) *)
  Variable n : Z.                   (* sm2P256.N *)
  Variable rinv : Z.                (* sm2P256.RInverse *)
  Variable bitSize : Z.             (* sm2P256.BitSize *)
  Variable precomputed : list Z.    (* sm2P256Precomputed *)
  Variable factorT : list (list Z). (* sm2P256Factor *)

  Definition P := cp c.

  (* sm2P256ToBig: the abstraction function *)
  Definition fe_of_limbs (l : list Z) : fe := (limbs_value l * rinv) mod P.

  Definition sm2P256FromBig (a : Z) : fe := a mod P.
  Definition sm2P256ToBig (x : fe) : Z := x mod P.
  Definition sm2P256Mul (x y : fe) : fe := (x * y) mod P.
  Definition sm2P256Square (x : fe) : fe := (x * x) mod P.
  Definition sm2P256Add (x y : fe) : fe := (x + y) mod P.
  Definition sm2P256Sub (x y : fe) : fe := (x - y) mod P.
  Definition sm2P256Dup (x : fe) : fe := x.
  Definition factor (k : nat) : fe := fe_of_limbs (nth k factorT []).
  (* func sm2P256Scalar(b, a): b = b * sm2P256Factor[a] *)
  Definition sm2P256Scalar (x : fe) (k : nat) : fe := sm2P256Mul x (factor k).

  Definition curve_a : fe := sm2P256FromBig (ca c).
  Definition curve_b : fe := sm2P256FromBig (cb c).

  (* ---------- point formulas --------------------------------------------------------------- *)
  (* func sm2P256PointDouble(x3, y3, z3, x, y, z) *)
  Definition sm2P256PointDouble (pt : jac) : jac :=
    let '(x, y, z) := pt in
    let x2 := sm2P256Square x in
    let y2 := sm2P256Square y in
    let z2 := sm2P256Square z in
    let z4 := sm2P256Square z in
    let z4 := sm2P256Mul z4 z in
    let z4 := sm2P256Mul z4 z in
    let y4 := sm2P256Square y in
    let y4 := sm2P256Mul y4 y in
    let y4 := sm2P256Mul y4 y in
    let y4 := sm2P256Scalar y4 8 in
    let s := sm2P256Mul x y2 in
    let s := sm2P256Scalar s 4 in
    let m := sm2P256Dup x2 in
    let m := sm2P256Scalar m 3 in
    let az4 := sm2P256Mul curve_a z4 in
    let m := sm2P256Add m az4 in
    let m2 := sm2P256Square m in
    let z3 := sm2P256Add y z in
    let z3 := sm2P256Square z3 in
    let z3 := sm2P256Sub z3 z2 in
    let z3 := sm2P256Sub z3 y2 in
    let x3 := sm2P256Sub m2 s in
    let x3 := sm2P256Sub x3 s in
    let y3 := sm2P256Sub s x3 in
    let y3 := sm2P256Mul y3 m in
    let y3 := sm2P256Sub y3 y4 in
    (x3, y3, z3).

  (* func sm2P256PointAddMixed(xOut, yOut, zOut, x1, y1, z1, x2, y2) *)
  Definition sm2P256PointAddMixed (p1 : jac) (x2 y2 : fe) : jac :=
    let '(x1, y1, z1) := p1 in
    let z1z1 := sm2P256Square z1 in
    let tmp := sm2P256Add z1 z1 in
    let u2 := sm2P256Mul x2 z1z1 in
    let z1z1z1 := sm2P256Mul z1 z1z1 in
    let s2 := sm2P256Mul y2 z1z1z1 in
    let h := sm2P256Sub u2 x1 in
    let i := sm2P256Add h h in
    let i := sm2P256Square i in
    let j := sm2P256Mul h i in
    let r := sm2P256Sub s2 y1 in
    let r := sm2P256Add r r in
    let v := sm2P256Mul x1 i in
    let zOut := sm2P256Mul tmp h in
    let rr := sm2P256Square r in
    let xOut := sm2P256Sub rr j in
    let xOut := sm2P256Sub xOut v in
    let xOut := sm2P256Sub xOut v in
    let tmp := sm2P256Sub v xOut in
    let yOut := sm2P256Mul tmp r in
    let tmp := sm2P256Mul y1 j in
    let yOut := sm2P256Sub yOut tmp in
    let yOut := sm2P256Sub yOut tmp in
    (xOut, yOut, zOut).

  (* the part of sm2P256PointAdd / sm2P256PointSub after y2 has (or has not) been negated *)
  Definition pointAdd_body (p1 p2 : jac) : jac :=
    let '(x1, y1, z1) := p1 in
    let '(x2, y2, z2) := p2 in
    if sm2P256ToBig z1 =? 0 then (sm2P256Dup x2, sm2P256Dup y2, sm2P256Dup z2)
    else if sm2P256ToBig z2 =? 0 then (sm2P256Dup x1, sm2P256Dup y1, sm2P256Dup z1)
    else
      let z12 := sm2P256Square z1 in
      let z22 := sm2P256Square z2 in
      let z13 := sm2P256Mul z12 z1 in
      let z23 := sm2P256Mul z22 z2 in
      let u1 := sm2P256Mul x1 z22 in
      let u2 := sm2P256Mul x2 z12 in
      let s1 := sm2P256Mul y1 z23 in
      let s2 := sm2P256Mul y2 z13 in
      if ((sm2P256ToBig u1 =? sm2P256ToBig u2) && (sm2P256ToBig s1 =? sm2P256ToBig s2))%bool
      then sm2P256PointDouble (x1, y1, z1)
      else
        let h := sm2P256Sub u2 u1 in
        let r := sm2P256Sub s2 s1 in
        let r2 := sm2P256Square r in
        let h2 := sm2P256Square h in
        let tm := sm2P256Mul h2 h in
        let x3 := sm2P256Sub r2 tm in
        let tm := sm2P256Mul u1 h2 in
        let tm := sm2P256Scalar tm 2 in
        let x3 := sm2P256Sub x3 tm in
        let tm := sm2P256Mul u1 h2 in
        let tm := sm2P256Sub tm x3 in
        let y3 := sm2P256Mul r tm in
        let tm := sm2P256Mul h2 h in
        let tm := sm2P256Mul tm s1 in
        let y3 := sm2P256Sub y3 tm in
        let z3 := sm2P256Mul z1 z2 in
        let z3 := sm2P256Mul z3 h in
        (x3, y3, z3).

  (* func sm2P256PointAdd(x1, y1, z1, x2, y2, z2, x3, y3, z3) *)
  Definition sm2P256PointAdd (p1 p2 : jac) : jac := pointAdd_body p1 p2.

  (* func sm2P256PointSub(...): negates *y2 IN PLACE (the caller's variable changes), then adds.
     Result: (x3,y3,z3) and the new content of y2. *)
  Definition sm2P256PointSub (p1 p2 : jac) : jac * fe :=
    let '(x2, y2, z2) := p2 in
    let y := sm2P256ToBig y2 in
    let y := 0 - y in
    let y2 := sm2P256FromBig y in
    (pointAdd_body p1 (x2, y2, z2), y2).

  (* big.Int.ModInverse(z, P): the inverse, or (not invertible, here only z = 0) z left unchanged = 0 *)
  Definition bigModInverse (z : Z) : Z := modinv z P.

  (* func sm2P256PointToAffine(xOut, yOut, x, y, z) *)
  Definition sm2P256PointToAffine (pt : jac) : fe * fe :=
    let '(x, y, z) := pt in
    let zz := sm2P256ToBig z in
    let zz := bigModInverse zz in
    let zInv := sm2P256FromBig zz in
    let zInvSq := sm2P256Square zInv in
    let xOut := sm2P256Mul x zInvSq in
    let zInv := sm2P256Mul zInv zInvSq in
    let yOut := sm2P256Mul y zInv in
    (xOut, yOut).

  (* func sm2P256ToAffine(x, y, z) (two big.Int) *)
  Definition sm2P256ToAffine (pt : jac) : Z * Z :=
    let '(xx, yy) := sm2P256PointToAffine pt in (sm2P256ToBig xx, sm2P256ToBig yy).

  (* ---------- public methods: Params, IsOnCurve, Add, Double ---------------------------------- *)
  (* func (curve sm2P256Curve) IsOnCurve(X, Y) bool *)
  Definition IsOnCurve (X Y : Z) : bool :=
    let x := sm2P256FromBig X in
    let y := sm2P256FromBig Y in
    let x3 := sm2P256Square x in
    let x3 := sm2P256Mul x3 x in
    let a := sm2P256Mul curve_a x in
    let x3 := sm2P256Add x3 a in
    let x3 := sm2P256Add x3 curve_b in
    let y2 := sm2P256Square y in
    sm2P256ToBig x3 =? sm2P256ToBig y2.

  (* func zForAffine(x, y) big.Int : tests the caller's integers, not their residues *)
  Definition zForAffine (x y : Z) : Z := if ((x =? 0) && (y =? 0))%bool then 0 else 1.

  (* func (curve sm2P256Curve) Add(x1, y1, x2, y2 *big.Int) (two big.Int) *)
  Definition Add (x1 y1 x2 y2 : Z) : Z * Z :=
    let z1 := zForAffine x1 y1 in
    let z2 := zForAffine x2 y2 in
    let p1 := (sm2P256FromBig x1, sm2P256FromBig y1, sm2P256FromBig z1) in
    let p2 := (sm2P256FromBig x2, sm2P256FromBig y2, sm2P256FromBig z2) in
    sm2P256ToAffine (sm2P256PointAdd p1 p2).

  (* func (curve sm2P256Curve) Double(x1, y1 *big.Int) (two big.Int) *)
  Definition Double (x1 y1 : Z) : Z * Z :=
    let z1 := zForAffine x1 y1 in
    sm2P256ToAffine (sm2P256PointDouble (sm2P256FromBig x1, sm2P256FromBig y1, sm2P256FromBig z1)).

  (* ---------- wNAF recoding ----------------------------------------------------------------- *)
  Fixpoint upd (l : list Z) (i : nat) (v : Z) : option (list Z) :=
    match l, i with
    | [], _ => None                       (* index out of range: Go panics *)
    | _ :: t, O => Some (v :: t)
    | x :: t, S j => match upd t j v with Some t' => Some (x :: t') | None => None end
    end.

  (* the loop  for pos <= k.BitLen() { ... }  of sm2GenrateWNaf; width 4, pow2 16, sign 8, mask 15.
     One unit of fuel per iteration; returns the array and [length]. *)
  Fixpoint wnaf_loop (fuel : nat) (k : Z) (carry : bool) (pos length : Z) (wnaf : list Z)
    : outcome (list Z * Z) :=
    if pos <=? bitLen k then
      match fuel with
      | O => Hang
      | S f =>
        if Bool.eqb (zbit k pos) carry then wnaf_loop f k carry (pos + 1) length wnaf
        else
          let k := Z.shiftr k pos in
          let digit := k mod 16 in                                   (* int(k.Int64() & mask) *)
          let digit := if carry then digit + 1 else digit in
          let carry := zbit digit 3 in                               (* (digit & sign) != 0 *)
          let digit := if carry then digit - 16 else digit in
          let length := length + pos in
          match upd wnaf (Z.to_nat length) digit with
          | None => Panic
          | Some w => wnaf_loop f k carry 4 length w
          end
      end
    else Ok (wnaf, length).

  (* func sm2GenrateWNaf(b []byte) []int8 : digits, least significant first *)
  Definition sm2GenrateWNaf (b : list byte) : outcome (list Z) :=
    let n0 := os2ip b in
    let k := if n <=? n0 then n0 mod n else n0 in
    let wnaf := repeat 0 (Z.to_nat (bitLen k + 1)) in
    if k =? 0 then Ok wnaf
    else
      do '(w, length) <- wnaf_loop (Z.to_nat (bitLen k + 2)) k false 0 0 wnaf;
      Ok (if Z.of_nat (List.length w) >? length + 1 then firstn (Z.to_nat (length + 1)) w else w).

  (* func WNafReversed(wnaf []int8) []int8 *)
  Definition WNafReversed (w : list Z) : list Z := rev w.

  (* ---------- variable-point multiplication -------------------------------------------------- *)
  Definition jzero : jac := (0, 0, 0).

  (* func sm2P256SelectJacobianPoint(xOut, yOut, zOut, table *[16][3]fe, index uint32):
     the entry [index] for 1 <= index < 16, all zero otherwise (constant-time masks) *)
  Definition sm2P256SelectJacobianPoint (table : list jac) (index : Z) : jac :=
    if ((1 <=? index) && (index <? 16))%bool then nth (Z.to_nat index) table jzero else jzero.

  (* var precomp [16][3]sm2P256FieldElement as filled by sm2P256ScalarMult (entries 8..15 stay zero) *)
  Definition scalarMult_precomp (x y : fe) : list jac :=
    let p1 := (x, y, factor 1) in
    let p2 := sm2P256PointDouble p1 in
    let p3 := sm2P256PointAddMixed p2 x y in
    let p4 := sm2P256PointDouble p2 in
    let p5 := sm2P256PointAddMixed p4 x y in
    let p6 := sm2P256PointDouble p3 in
    let p7 := sm2P256PointAddMixed p6 x y in
    [jzero; p1; p2; p3; p4; p5; p6; p7; jzero; jzero; jzero; jzero; jzero; jzero; jzero; jzero].

  Definition double_n (k : nat) (acc : jac) : jac := Nat.iter k sm2P256PointDouble acc.

  (* the loop over the reversed digits; state: accumulator, nIsInfinityMask (as bool), zeroes *)
  Fixpoint scalarMult_loop (precomp : list jac) (scalar : list Z) (acc : jac) (nIsInf : bool) (zeroes : nat)
    : jac * nat :=
    match scalar with
    | [] => (acc, zeroes)
    | d :: rest =>
      if d =? 0 then scalarMult_loop precomp rest acc nIsInf (S zeroes)
      else
        let acc := double_n zeroes acc in
        let index := Z.abs d in
        let acc := sm2P256PointDouble acc in
        let '(px, py, pz) := sm2P256SelectJacobianPoint precomp index in
        let '(t, py) :=
          if 0 <? d then (sm2P256PointAdd acc (px, py, pz), py)
          else sm2P256PointSub acc (px, py, pz) in
        (* CopyConditional(out, p, nIsInfinityMask) *)
        let acc := if nIsInf then (px, py, pz) else acc in
        let pIsNoninfinite := negb (index =? 0) in
        (* CopyConditional(out, t, pIsNoninfiniteMask & ^nIsInfinityMask) *)
        let acc := if (pIsNoninfinite && negb nIsInf)%bool then t else acc in
        let nIsInf := (nIsInf && negb pIsNoninfinite)%bool in
        scalarMult_loop precomp rest acc nIsInf O
    end.

  (* func sm2P256ScalarMult(xOut, yOut, zOut, x, y, scalar []int8) *)
  Definition sm2P256ScalarMult (x y : fe) (scalar : list Z) : jac :=
    let precomp := scalarMult_precomp x y in
    let '(acc, zeroes) := scalarMult_loop precomp scalar jzero true O in
    double_n zeroes acc.

  (* func (curve sm2P256Curve) ScalarMult(x1, y1 *big.Int, k []byte) (two big.Int) *)
  Definition ScalarMult (x1 y1 : Z) (k : list byte) : outcome (Z * Z) :=
    let X1 := sm2P256FromBig x1 in
    let Y1 := sm2P256FromBig y1 in
    do scalar <- sm2GenrateWNaf k;
    let scalarReversed := WNafReversed scalar in
    Ok (sm2P256ToAffine (sm2P256ScalarMult X1 Y1 scalarReversed)).

  (* ---------- base-point multiplication (comb over sm2P256Precomputed) ------------------------ *)
  (* func sm2P256GetScalar(b *[32]byte, a []byte): the little-endian array is represented by the
     integer it encodes; writing byte index >= 32 panics *)
  Definition sm2P256GetScalar (a : list byte) : outcome Z :=
    let n0 := os2ip a in
    let k := if n <=? n0 then n0 mod n else n0 in
    if 32 <? Z.of_nat (List.length (big_bytes k)) then Panic else Ok k.

  (* func sm2P256GetBit(scalar *[32]uint8, bit uint) uint32 *)
  Definition sm2P256GetBit (scalar : Z) (bit : Z) : Z := if zbit scalar bit then 1 else 0.

  (* func sm2P256SelectAffinePoint(xOut, yOut, table []uint32, index uint32): entry index-1 of the
     15 pairs of 9-limb elements starting at table[0], zero for index 0 *)
  Definition sm2P256SelectAffinePoint (table : list Z) (index : Z) : fe * fe :=
    if ((1 <=? index) && (index <? 16))%bool then
      let off := (Z.to_nat (index - 1) * 18)%nat in
      (fe_of_limbs (slice table off 9), fe_of_limbs (slice table (off + 9) 9))
    else (0, 0).

  (* one pass j (0 or 32) of the inner loop of sm2P256ScalarBaseMult *)
  Definition baseMult_step (scalar : Z) (i j : Z) (tableOffset : nat) (st : jac * bool) : jac * bool :=
    let '(acc, nIsInf) := st in
    let bit0 := sm2P256GetBit scalar (31 - i + j) in
    let bit1 := sm2P256GetBit scalar (95 - i + j) in
    let bit2 := sm2P256GetBit scalar (159 - i + j) in
    let bit3 := sm2P256GetBit scalar (223 - i + j) in
    let index := bit0 + 2 * bit1 + 4 * bit2 + 8 * bit3 in
    let '(px, py) := sm2P256SelectAffinePoint (skipn tableOffset precomputed) index in
    let t := sm2P256PointAddMixed acc px py in
    let acc := if nIsInf then (px, py, factor 1) else acc in
    let pIsNoninfinite := negb (index =? 0) in
    let acc := if (pIsNoninfinite && negb nIsInf)%bool then t else acc in
    (acc, (nIsInf && negb pIsNoninfinite)%bool).

  Fixpoint baseMult_loop (scalar : Z) (is : list Z) (st : jac * bool) : jac * bool :=
    match is with
    | [] => st
    | i :: rest =>
      let '(acc, nIsInf) := st in
      let acc := if i =? 0 then acc else sm2P256PointDouble acc in
      let st := baseMult_step scalar i 0 0 (acc, nIsInf) in
      let st := baseMult_step scalar i 32 270 st in        (* tableOffset += 30 * 9 *)
      baseMult_loop scalar rest st
    end.

  (* func sm2P256ScalarBaseMult(xOut, yOut, zOut, scalar *[32]uint8) *)
  Definition sm2P256ScalarBaseMult (scalar : Z) : jac :=
    fst (baseMult_loop scalar (map Z.of_nat (seq 0 32)) (jzero, true)).

  (* func (curve sm2P256Curve) ScalarBaseMult(k []byte) (two big.Int) *)
  Definition ScalarBaseMult (k : list byte) : outcome (Z * Z) :=
    do scalar <- sm2P256GetScalar k;
    Ok (sm2P256ToAffine (sm2P256ScalarBaseMult scalar)).

  (* ---------- sm2.go: GenerateKey ------------------------------------------------------------- *)
  (* func GenerateKey(random io.Reader) (PrivateKey, error).  The reader is the list of bytes it will
     deliver; io.ReadFull takes exactly BitSize/8+8 of them or fails (Err 1) when fewer are left.
     Result: D, the public point, and the number of bytes consumed. *)
  Definition GenerateKey (random : list byte) : outcome (Z * (Z * Z) * nat) :=
    let len := Z.to_nat (bitSize / 8 + 8) in
    if (List.length random <? len)%nat then Err 1
    else
      let b := firstn len random in
      let k := os2ip b in
      let n2 := n - 2 in
      let k := k mod n2 in
      let k := k + 1 in
      do pub <- ScalarBaseMult (big_bytes k);
      Ok (k, pub, len).
End P256.

(* ---------- the curve object of /repo: instance over the generated constants ------------------- *)
Definition gen_curve : curve := mkCurve gen_P gen_A gen_B.

Definition fe_of_limbs_m := fe_of_limbs gen_curve gen_RInverse.
Definition IsOnCurve_model := IsOnCurve gen_curve.
Definition Add_model := Add gen_curve gen_RInverse gen_sm2P256Factor.
Definition Double_model := Double gen_curve gen_RInverse gen_sm2P256Factor.
Definition sm2GenrateWNaf_model := sm2GenrateWNaf gen_N.
Definition ScalarMult_model := ScalarMult gen_curve gen_N gen_RInverse gen_sm2P256Factor.
Definition ScalarBaseMult_model :=
  ScalarBaseMult gen_curve gen_N gen_RInverse gen_sm2P256Precomputed gen_sm2P256Factor.
Definition GenerateKey_model :=
  GenerateKey gen_curve gen_N gen_RInverse gen_BitSize gen_sm2P256Precomputed gen_sm2P256Factor.
Definition Params_model : Z * Z * Z * Z * Z * Z := (gen_P, gen_N, gen_B, gen_Gx, gen_Gy, gen_BitSize).

(* value-level field and point operations, for the white-box correspondence (harness/cmd/c03w):
   the Go limb function applied to limb vectors must commute with fe_of_limbs_m *)
Definition Mul_model := sm2P256Mul gen_curve.
Definition Square_model := sm2P256Square gen_curve.
Definition AddFe_model := sm2P256Add gen_curve.
Definition SubFe_model := sm2P256Sub gen_curve.
Definition FromBig_model := sm2P256FromBig gen_curve.
Definition PointDouble_model := sm2P256PointDouble gen_curve gen_RInverse gen_sm2P256Factor.
Definition PointAddMixed_model := sm2P256PointAddMixed gen_curve.
Definition PointAdd_model := sm2P256PointAdd gen_curve gen_RInverse gen_sm2P256Factor.
Definition PointSub_model := sm2P256PointSub gen_curve gen_RInverse gen_sm2P256Factor.

(* func sm2P256ReduceDegree(a, b): a = b / R mod P on limb values, where the 17 words of b sit at bit
   offsets 0,29,57,86,... (word k at 57*(k/2) + 29*(k mod 2)).  On represented values:
   fe(a) = value(b) * RInverse * RInverse mod P.  (Specification of the function, not a transcription:
   the 170 lines of borrow handling are outside the model.) *)
Fixpoint large_value_from (w29 : bool) (l : list Z) : Z :=
  match l with
  | [] => 0
  | x :: t => x + (if w29 then 536870912 else 268435456) * large_value_from (negb w29) t
  end.
Definition ReduceDegree_model (b : list Z) : fe :=
  (large_value_from true b * gen_RInverse * gen_RInverse) mod gen_P.
