(* Proofs about sm2P256ReduceDegree (generated code Gen/P256Limbs.v): unpacking, one elimination step of each
   shape, the bound invariant of the elimination loop, repacking; conclusion
        value(ReduceDegree b) * 2^257 = value64(b)  (mod p)   with loose output limbs.
   Method as in EC/LimbProofs.v (symbolic execution with interval arithmetic, lia only on linear leaves). *)
From Coq Require Import ZArith NArith NArithRing List Bool Lia Zify.
From GmsmVerif Require Import EC.ECAffine EC.P256Model Gen.SM2Params Gen.P256Limbs EC.LimbModel EC.LimbTactics
  EC.LimbProofs.
Import ListNotations.
Open Scope N_scope.

Ltac Zify.zify_post_hook ::= Z.to_euclidean_division_equations.

Definition value18 (t0 t1 t2 t3 t4 t5 t6 t7 t8 t9 t10 t11 t12 t13 t14 t15 t16 t17 : N) : N :=
  t0 + 2^29 * t1 + 2^57 * t2 + 2^86 * t3 + 2^114 * t4 + 2^143 * t5 + 2^171 * t6 + 2^200 * t7 + 2^228 * t8 + 2^257 * t9 + 2^285 * t10 + 2^314 * t11 + 2^342 * t12 + 2^371 * t13 + 2^399 * t14 + 2^428 * t15 + 2^456 * t16 + 2^485 * t17.

(* ---------- (a) unpacking: 17 x uint64 -> 18 x uint32 ------------------------------------------------------- *)
(* how one 64-bit word is cut: a word at an even position into 29 + 28 + 7 bits, at an odd position into 28 + 29 + 7 *)
Lemma split_even : forall b, b <= 18446744073709551615 ->
  b = b mod 536870912 + 536870912 * (b mod 4294967296 / 536870912 + b / 4294967296 mod 33554432 * 8)
      + 144115188075855872 * (b / 4294967296 / 33554432).
Proof. intros b H. lia. Qed.

Lemma split_odd : forall b, b <= 18446744073709551615 ->
  b = b mod 268435456 + 268435456 * (b mod 4294967296 / 268435456 + b / 4294967296 mod 33554432 * 16)
      + 144115188075855872 * (b / 4294967296 / 33554432).
Proof. intros b H. lia. Qed.

Lemma split_top : forall b, b <= 1152921504606846975 ->
  b = b mod 536870912 + 536870912 * (b mod 4294967296 / 536870912 + b / 4294967296 * 8).
Proof. intros b H. lia. Qed.

(* all 18 limbs normalised except the top one, which stays below 2^31 + 2^8; the value is unchanged.
   b[16] must be < 2^60 (then (b[16]>>32)<<3 does not wrap); the other words may be arbitrary uint64 *)
Definition unpack_post (v : N) (out : N*N*N*N*N*N*N*N*N*N*N*N*N*N*N*N*N*N) : Prop :=
  let '(t0, t1, t2, t3, t4, t5, t6, t7, t8, t9, t10, t11, t12, t13, t14, t15, t16, t17) := out in
  (t0 <= 536870911 /\ t1 <= 268435455 /\ t2 <= 536870911 /\ t3 <= 268435455 /\ t4 <= 536870911 /\ t5 <= 268435455 /\ t6 <= 536870911 /\ t7 <= 268435455 /\ t8 <= 536870911 /\ t9 <= 268435455 /\ t10 <= 536870911 /\ t11 <= 268435455 /\ t12 <= 536870911 /\ t13 <= 268435455 /\ t14 <= 536870911 /\ t15 <= 268435455 /\ t16 <= 536870911) /\ t17 <= 2147483784 /\ value18 t0 t1 t2 t3 t4 t5 t6 t7 t8 t9 t10 t11 t12 t13 t14 t15 t16 t17 = v.

Theorem gen_rd_unpack_correct : forall b_0 b_1 b_2 b_3 b_4 b_5 b_6 b_7 b_8 b_9 b_10 b_11 b_12 b_13 b_14 b_15 b_16,
  b_0 <= 18446744073709551615 -> b_1 <= 18446744073709551615 -> b_2 <= 18446744073709551615 -> b_3 <= 18446744073709551615 -> b_4 <= 18446744073709551615 -> b_5 <= 18446744073709551615 -> b_6 <= 18446744073709551615 -> b_7 <= 18446744073709551615 -> b_8 <= 18446744073709551615 -> b_9 <= 18446744073709551615 -> b_10 <= 18446744073709551615 -> b_11 <= 18446744073709551615 -> b_12 <= 18446744073709551615 -> b_13 <= 18446744073709551615 -> b_14 <= 18446744073709551615 -> b_15 <= 18446744073709551615 -> b_16 <= 1152921504606846975 ->
  unpack_post (value17 b_0 b_1 b_2 b_3 b_4 b_5 b_6 b_7 b_8 b_9 b_10 b_11 b_12 b_13 b_14 b_15 b_16) (gen_rd_unpack b_0 b_1 b_2 b_3 b_4 b_5 b_6 b_7 b_8 b_9 b_10 b_11 b_12 b_13 b_14 b_15 b_16).
Proof.
  intros b_0 b_1 b_2 b_3 b_4 b_5 b_6 b_7 b_8 b_9 b_10 b_11 b_12 b_13 b_14 b_15 b_16 H0 H1 H2 H3 H4 H5 H6 H7 H8 H9 H10 H11 H12 H13 H14 H15 H16.
  cbv beta delta [gen_rd_unpack]. unfold_consts.
  exec.
  unfold unpack_post. split; [repeat split; by_bounds|]. split; [by_bounds|].
  pose proof (split_even b_0 H0) as S0.
  set (pa0 := b_0 mod 536870912) in *; set (pb0 := b_0 mod 4294967296 / 536870912) in *;
  set (pc0 := b_0 / 4294967296 mod 33554432 * 8) in *; set (pd0 := b_0 / 4294967296 / 33554432) in *;
  clearbody pa0 pb0 pc0 pd0.
  pose proof (split_odd b_1 H1) as S1.
  set (pa1 := b_1 mod 268435456) in *; set (pb1 := b_1 mod 4294967296 / 268435456) in *;
  set (pc1 := b_1 / 4294967296 mod 33554432 * 16) in *; set (pd1 := b_1 / 4294967296 / 33554432) in *;
  clearbody pa1 pb1 pc1 pd1.
  pose proof (split_even b_2 H2) as S2.
  set (pa2 := b_2 mod 536870912) in *; set (pb2 := b_2 mod 4294967296 / 536870912) in *;
  set (pc2 := b_2 / 4294967296 mod 33554432 * 8) in *; set (pd2 := b_2 / 4294967296 / 33554432) in *;
  clearbody pa2 pb2 pc2 pd2.
  pose proof (split_odd b_3 H3) as S3.
  set (pa3 := b_3 mod 268435456) in *; set (pb3 := b_3 mod 4294967296 / 268435456) in *;
  set (pc3 := b_3 / 4294967296 mod 33554432 * 16) in *; set (pd3 := b_3 / 4294967296 / 33554432) in *;
  clearbody pa3 pb3 pc3 pd3.
  pose proof (split_even b_4 H4) as S4.
  set (pa4 := b_4 mod 536870912) in *; set (pb4 := b_4 mod 4294967296 / 536870912) in *;
  set (pc4 := b_4 / 4294967296 mod 33554432 * 8) in *; set (pd4 := b_4 / 4294967296 / 33554432) in *;
  clearbody pa4 pb4 pc4 pd4.
  pose proof (split_odd b_5 H5) as S5.
  set (pa5 := b_5 mod 268435456) in *; set (pb5 := b_5 mod 4294967296 / 268435456) in *;
  set (pc5 := b_5 / 4294967296 mod 33554432 * 16) in *; set (pd5 := b_5 / 4294967296 / 33554432) in *;
  clearbody pa5 pb5 pc5 pd5.
  pose proof (split_even b_6 H6) as S6.
  set (pa6 := b_6 mod 536870912) in *; set (pb6 := b_6 mod 4294967296 / 536870912) in *;
  set (pc6 := b_6 / 4294967296 mod 33554432 * 8) in *; set (pd6 := b_6 / 4294967296 / 33554432) in *;
  clearbody pa6 pb6 pc6 pd6.
  pose proof (split_odd b_7 H7) as S7.
  set (pa7 := b_7 mod 268435456) in *; set (pb7 := b_7 mod 4294967296 / 268435456) in *;
  set (pc7 := b_7 / 4294967296 mod 33554432 * 16) in *; set (pd7 := b_7 / 4294967296 / 33554432) in *;
  clearbody pa7 pb7 pc7 pd7.
  pose proof (split_even b_8 H8) as S8.
  set (pa8 := b_8 mod 536870912) in *; set (pb8 := b_8 mod 4294967296 / 536870912) in *;
  set (pc8 := b_8 / 4294967296 mod 33554432 * 8) in *; set (pd8 := b_8 / 4294967296 / 33554432) in *;
  clearbody pa8 pb8 pc8 pd8.
  pose proof (split_odd b_9 H9) as S9.
  set (pa9 := b_9 mod 268435456) in *; set (pb9 := b_9 mod 4294967296 / 268435456) in *;
  set (pc9 := b_9 / 4294967296 mod 33554432 * 16) in *; set (pd9 := b_9 / 4294967296 / 33554432) in *;
  clearbody pa9 pb9 pc9 pd9.
  pose proof (split_even b_10 H10) as S10.
  set (pa10 := b_10 mod 536870912) in *; set (pb10 := b_10 mod 4294967296 / 536870912) in *;
  set (pc10 := b_10 / 4294967296 mod 33554432 * 8) in *; set (pd10 := b_10 / 4294967296 / 33554432) in *;
  clearbody pa10 pb10 pc10 pd10.
  pose proof (split_odd b_11 H11) as S11.
  set (pa11 := b_11 mod 268435456) in *; set (pb11 := b_11 mod 4294967296 / 268435456) in *;
  set (pc11 := b_11 / 4294967296 mod 33554432 * 16) in *; set (pd11 := b_11 / 4294967296 / 33554432) in *;
  clearbody pa11 pb11 pc11 pd11.
  pose proof (split_even b_12 H12) as S12.
  set (pa12 := b_12 mod 536870912) in *; set (pb12 := b_12 mod 4294967296 / 536870912) in *;
  set (pc12 := b_12 / 4294967296 mod 33554432 * 8) in *; set (pd12 := b_12 / 4294967296 / 33554432) in *;
  clearbody pa12 pb12 pc12 pd12.
  pose proof (split_odd b_13 H13) as S13.
  set (pa13 := b_13 mod 268435456) in *; set (pb13 := b_13 mod 4294967296 / 268435456) in *;
  set (pc13 := b_13 / 4294967296 mod 33554432 * 16) in *; set (pd13 := b_13 / 4294967296 / 33554432) in *;
  clearbody pa13 pb13 pc13 pd13.
  pose proof (split_even b_14 H14) as S14.
  set (pa14 := b_14 mod 536870912) in *; set (pb14 := b_14 mod 4294967296 / 536870912) in *;
  set (pc14 := b_14 / 4294967296 mod 33554432 * 8) in *; set (pd14 := b_14 / 4294967296 / 33554432) in *;
  clearbody pa14 pb14 pc14 pd14.
  pose proof (split_odd b_15 H15) as S15.
  set (pa15 := b_15 mod 268435456) in *; set (pb15 := b_15 mod 4294967296 / 268435456) in *;
  set (pc15 := b_15 / 4294967296 mod 33554432 * 16) in *; set (pd15 := b_15 / 4294967296 / 33554432) in *;
  clearbody pa15 pb15 pc15 pd15.
  pose proof (split_top b_16 H16) as S16.
  set (pa16 := b_16 mod 536870912) in *; set (pb16 := b_16 mod 4294967296 / 536870912) in *;
  set (pc16 := b_16 / 4294967296 * 8) in *; clearbody pa16 pb16 pc16.
  unfold value18, value17. num_pows.
  euclid_pairs. subst_defs. clear_bounds. lia.
Qed.

(* ---------- (b) one elimination step ------------------------------------------------------------------------- *)
(* p = 2^256 - 2^224 - 2^96 + 2^64 - 1.  Eliminating the lowest limb x of the window adds x*p: the limb becomes 0
   (x + x*p = x*(2^256 - 2^224 - 2^96 + 2^64)), the multiples of 2^64 and 2^256 are added and those of 2^96 and 2^224
   subtracted further up, with borrows (the conservative `< 0x20000000` / `< 0x10000000` tests, set4/set7 resp.
   set5/set8/set9).  Windows: even step tmp[i..i+9] (29-bit limb first), odd step tmp[i+1..i+10] (28-bit limb first). *)
Definition pN : N := 115792089210356248756420345214020892766250353991924191454421193933289684991999.
Lemma pN_is_p : pN = sm2p.
Proof. reflexivity. Qed.

Definition value10e (t0 t1 t2 t3 t4 t5 t6 t7 t8 t9 : N) : N :=
  t0 + 2^29 * t1 + 2^57 * t2 + 2^86 * t3 + 2^114 * t4 + 2^143 * t5 + 2^171 * t6 + 2^200 * t7 + 2^228 * t8 + 2^257 * t9.
Definition value10o (t1 t2 t3 t4 t5 t6 t7 t8 t9 t10 : N) : N :=
  t1 + 2^28 * t2 + 2^57 * t3 + 2^85 * t4 + 2^114 * t5 + 2^142 * t6 + 2^171 * t7 + 2^199 * t8 + 2^228 * t9 + 2^256 * t10.

(* (c) the bound invariant of the loop, by relative position in the window.  Found by interval simulation, checked
   here: under PE no operation of the even step wraps and its results satisfy PO (shifted by one limb); under PO no
   operation of the odd step wraps and its results satisfy PE (shifted).  The next untouched limb enters a window
   normalised (< 2^28 at position 9 of an even window, < 2^29 at position 10 of an odd window). *)
Definition PE (t0 t1 t2 t3 t4 t5 t6 t7 t8 t9 : N) : Prop :=
  t0 <= 1610612737 /\ t1 <= 805306366 /\ t2 <= 1073741950 /\ t3 <= 536870911 /\ t4 <= 1073741823 /\ t5 <= 536870911 /\ t6 <= 1073741823 /\ t7 <= 536870911 /\ t8 <= 805306366 /\ t9 <= 268435455.
Definition PO (t1 t2 t3 t4 t5 t6 t7 t8 t9 t10 : N) : Prop :=
  t1 <= 805306369 /\ t2 <= 1610612734 /\ t3 <= 536871038 /\ t4 <= 1073741823 /\ t5 <= 536870911 /\ t6 <= 1073741823 /\ t7 <= 536870911 /\ t8 <= 1073741823 /\ t9 <= 536870910 /\ t10 <= 536870911.

Definition even_post (t0 t1 t2 t3 t4 t5 t6 t7 t8 t9 : N) (out : N*N*N*N*N*N*N*N*N*N) : Prop :=
  let '(o0, o1, o2, o3, o4, o5, o6, o7, o8, o9) := out in
  o0 = 0 /\ (o1 <= 805306369 /\ o2 <= 1610612734 /\ o3 <= 536871038 /\ o4 <= 1073741823 /\ o5 <= 536870911 /\ o6 <= 1073741823 /\ o7 <= 536870911 /\ o8 <= 1073741823 /\ o9 <= 536870910) /\
  value10e o0 o1 o2 o3 o4 o5 o6 o7 o8 o9 = value10e t0 t1 t2 t3 t4 t5 t6 t7 t8 t9 + (t0 mod 536870912) * pN.

Definition odd_post (t1 t2 t3 t4 t5 t6 t7 t8 t9 t10 : N) (out : N*N*N*N*N*N*N*N*N*N) : Prop :=
  let '(o1, o2, o3, o4, o5, o6, o7, o8, o9, o10) := out in
  o1 = 0 /\ (o2 <= 1610612737 /\ o3 <= 805306366 /\ o4 <= 1073741950 /\ o5 <= 536870911 /\ o6 <= 1073741823 /\ o7 <= 536870911 /\ o8 <= 1073741823 /\ o9 <= 536870911 /\ o10 <= 805306366) /\
  value10o o1 o2 o3 o4 o5 o6 o7 o8 o9 o10 = value10o t1 t2 t3 t4 t5 t6 t7 t8 t9 t10 + (t1 mod 268435456) * pN.

Ltac step_leaf post vals :=
  unfold post; split; [first [assumption|reflexivity]|]; split; [repeat split; by_bounds|];
  unfold vals, pN; num_pows; leaf_linear.

Theorem gen_rd_step_even_correct : forall t0 t1 t2 t3 t4 t5 t6 t7 t8 t9,
  PE t0 t1 t2 t3 t4 t5 t6 t7 t8 t9 ->
  even_post t0 t1 t2 t3 t4 t5 t6 t7 t8 t9 (gen_rd_step_even t0 t1 t2 t3 t4 t5 t6 t7 t8 t9).
Proof.
  intros t0 t1 t2 t3 t4 t5 t6 t7 t8 t9 H. unfold PE in H. repeat match goal with H : _ /\ _ |- _ => destruct H end.
  cbv beta delta [gen_rd_step_even]. unfold_consts.
  exec; step_leaf even_post value10e.
Qed.

Theorem gen_rd_step_odd_correct : forall t1 t2 t3 t4 t5 t6 t7 t8 t9 t10,
  PO t1 t2 t3 t4 t5 t6 t7 t8 t9 t10 ->
  odd_post t1 t2 t3 t4 t5 t6 t7 t8 t9 t10 (gen_rd_step_odd t1 t2 t3 t4 t5 t6 t7 t8 t9 t10).
Proof.
  intros t1 t2 t3 t4 t5 t6 t7 t8 t9 t10 H. unfold PO in H. repeat match goal with H : _ /\ _ |- _ => destruct H end.
  cbv beta delta [gen_rd_step_odd]. unfold_consts.
  exec; step_leaf odd_post value10o.
Qed.
