(* Symbolic execution of the generated limb code (Gen/P256Limbs.v) with interval bounds.
   The generated functions are trees of `let x := e in ...` (one Go statement each, arithmetic on N with explicit
   `mod 2^32` / `mod 2^64`) and `if a <? b then .. else ..`.  The tactics below execute a goal  Q (body)  statement by
   statement.  For every new variable they keep
        E  : x = e'         e' = e with every wrap-around that provably does not happen removed
        U  : x <= K         K a numeral, by interval arithmetic over the bounds of the variables of e'
        L  : K' <= x        (when K' > 0)
   All side conditions (no uint32/uint64 overflow, no negative difference) are decided by COMPUTING on numerals
   (interval lemmas + eq_refl), never by lia, so the cost per statement does not grow with the context.
   lia is used only at the leaves, for the linear value equations. *)
From Coq Require Import ZArith NArith List Bool Lia.
Import ListNotations.
Open Scope N_scope.

(* ---------- interval lemmas ----------------------------------------------------------------------------- *)
Lemma ub_add : forall a b Ka Kb, a <= Ka -> b <= Kb -> a + b <= Ka + Kb.
Proof. intros. lia. Qed.
Lemma ub_mul : forall a b Ka Kb, a <= Ka -> b <= Kb -> a * b <= Ka * Kb.
Proof. intros. apply N.mul_le_mono; assumption. Qed.
Lemma ub_div : forall a c Ka, a <= Ka -> a / c <= Ka / c.
Proof.
  intros a c Ka H. destruct (N.eq_dec c 0) as [->|Hc].
  - destruct a, Ka; cbn; lia.
  - apply N.div_le_mono; assumption.
Qed.
Lemma ub_mod : forall a c, c <> 0 -> a mod c <= c - 1.
Proof. intros a c Hc. pose proof (N.mod_lt a c Hc). lia. Qed.
Lemma ub_sub : forall a b Ka, a <= Ka -> a - b <= Ka.
Proof. intros. lia. Qed.

Lemma lb_add : forall a b La Lb, La <= a -> Lb <= b -> La + Lb <= a + b.
Proof. intros. lia. Qed.
Lemma lb_mul : forall a b La Lb, La <= a -> Lb <= b -> La * Lb <= a * b.
Proof. intros. apply N.mul_le_mono; assumption. Qed.
Lemma lb_div : forall a c La, La <= a -> La / c <= a / c.
Proof.
  intros a c La H. destruct (N.eq_dec c 0) as [->|Hc].
  - destruct a, La; cbn; lia.
  - apply N.div_le_mono; assumption.
Qed.
Lemma lb_sub : forall a b La Kb, La <= a -> b <= Kb -> La - Kb <= a - b.
Proof. intros. lia. Qed.

(* rewriting lemmas whose side conditions are numeral computations *)
Lemma mod_small_ub : forall a c Ka, a <= Ka -> (Ka <? c) = true -> a mod c = a.
Proof. intros a c Ka H Hc. apply N.ltb_lt in Hc. apply N.mod_small. lia. Qed.
Lemma div_small_ub : forall a c Ka, a <= Ka -> (Ka <? c) = true -> a / c = 0.
Proof. intros a c Ka H Hc. apply N.ltb_lt in Hc. apply N.div_small. lia. Qed.
Lemma sub_nowrap_ub : forall a b W Ka La Kb,
  a <= Ka -> La <= a -> b <= Kb -> (Kb <=? La) = true -> (Ka <? W) = true -> (a + W - b) mod W = a - b.
Proof.
  intros a b W Ka La Kb H1 H2 H3 Hc1 Hc2. apply N.leb_le in Hc1. apply N.ltb_lt in Hc2.
  replace (a + W - b) with ((a - b) + 1 * W) by lia. rewrite N.mod_add by lia. apply N.mod_small. lia.
Qed.
(* uint32 a - b + z with a < b allowed: the intermediate difference wraps, the sum does not (z >= b) *)
Lemma sub_add_nowrap : forall a b z W Ka Kb,
  a <= Ka -> b <= Kb -> (Kb <=? z) = true -> (Ka + z <? W) = true -> ((a + W - b) mod W + z) mod W = a + z - b.
Proof.
  intros a b z W Ka Kb H1 H2 Hc1 Hc2. apply N.leb_le in Hc1. apply N.ltb_lt in Hc2.
  destruct (N.le_gt_cases b a) as [Hba|Hba].
  - replace (a + W - b) with ((a - b) + 1 * W) by lia. rewrite N.mod_add by lia.
    rewrite (N.mod_small (a - b)) by lia. rewrite N.mod_small by lia. lia.
  - rewrite (N.mod_small (a + W - b)) by lia.
    replace (a + W - b + z) with ((a + z - b) + 1 * W) by lia. rewrite N.mod_add by lia. apply N.mod_small. lia.
Qed.
Lemma land_ones32_ub : forall c Kc, c <= Kc -> (Kc <? 4294967296) = true -> N.land c 4294967295 = c.
Proof.
  intros c Kc H Hc. apply N.ltb_lt in Hc. change 4294967295 with (N.ones 32). rewrite N.land_ones.
  apply N.mod_small. change (2 ^ 32) with 4294967296. lia.
Qed.
(* (a mod 2^32) mod 2^k = a mod 2^k for k <= 32, and the same for 2^64 *)
Lemma mod_mod_divide : forall a W m, m <> 0 -> W mod m = 0 -> W <> 0 -> (a mod W) mod m = a mod m.
Proof.
  intros a W m Hm Hd HW.
  assert (E : W = m * (W / m)) by (pose proof (N.div_mod W m Hm); lia).
  rewrite (N.div_mod a W HW) at 2. rewrite E at 2.
  rewrite <- N.mul_assoc, (N.mul_comm m), N.add_comm, N.mod_add by exact Hm. reflexivity.
Qed.

(* tmp[1] |= (hi << 3) & bottom28Bits : the OR is an addition, the operands occupy disjoint bits *)
Lemma lor_shift3 : forall a h Ka, a <= Ka -> (Ka <=? 7) = true ->
  N.lor a ((h * 8) mod 268435456) = a + (h * 8) mod 268435456.
Proof.
  intros a h Ka H Hc. apply N.leb_le in Hc.
  assert (E : (h * 8) mod 268435456 = (h mod 33554432) * 2 ^ 3).
  { change 268435456 with (33554432 * 8). change (2 ^ 3) with 8.
    rewrite N.mul_mod_distr_r by discriminate. reflexivity. }
  rewrite E. set (c := h mod 33554432).
  assert (L : N.land a (c * 2 ^ 3) = 0).
  { apply N.bits_inj. intro n. rewrite N.land_spec, N.bits_0.
    destruct (N.lt_ge_cases n 3) as [Hn|Hn].
    - rewrite (N.mul_pow2_bits_low c 3 n Hn). apply andb_false_r.
    - assert (Ha : N.testbit a n = false).
      { destruct (N.eq_dec a 0) as [->|Ha0]; [apply N.bits_0|].
        apply N.bits_above_log2. apply N.log2_lt_pow2; [lia|].
        apply N.lt_le_trans with (2 ^ 3); [change (2^3) with 8; lia|]. apply N.pow_le_mono_r; lia. }
      rewrite Ha. reflexivity. }
  rewrite <- N.lxor_lor by exact L. symmetry. apply N.add_nocarry_lxor. exact L.
Qed.

(* (x << k) & mask = (x mod 2^(w-k)) << k *)
Lemma shl_mod : forall x c m b, m = b * c -> c <> 0 -> b <> 0 -> (x * c) mod m = (x mod b) * c.
Proof. intros x c m b -> Hc Hb. apply N.mul_mod_distr_r; assumption. Qed.

(* ---------- interval computation in Ltac ------------------------------------------------------------------ *)
Definition refreshed (x : N) : Prop := True.

Ltac is_num e := lazymatch e with N0 => idtac | Npos ?p => lazymatch isPcst p with true => idtac end end
with isPcst p := lazymatch p with xH => constr:(true) | xO ?q => isPcst q | xI ?q => isPcst q | _ => constr:(false) end.

(* proof of  e <= K  for some K built from numerals *)
Ltac ub e :=
  lazymatch e with
  | ?a + ?b => let pa := ub a in let pb := ub b in constr:(ub_add _ _ _ _ pa pb)
  | ?a * ?b => let pa := ub a in let pb := ub b in constr:(ub_mul _ _ _ _ pa pb)
  | ?a / ?c => let pa := ub a in constr:(ub_div _ c _ pa)
  | ?a mod ?c => constr:(ub_mod a c ltac:(discriminate))
  | ?a - ?b => let pa := ub a in constr:(ub_sub _ b _ pa)
  | _ =>
    match goal with
    | _ => let _ := match goal with _ => is_num e end in constr:(N.le_refl e)
    | H : e <= ?K |- _ => let _ := match goal with _ => is_num K end in constr:(H)
    end
  end.

(* proof of  L <= e *)
Ltac lb e :=
  lazymatch e with
  | ?a + ?b => let pa := lb a in let pb := lb b in constr:(lb_add _ _ _ _ pa pb)
  | ?a * ?b => let pa := lb a in let pb := lb b in constr:(lb_mul _ _ _ _ pa pb)
  | ?a / ?c => let pa := lb a in constr:(lb_div _ c _ pa)
  | ?a - ?b => let pa := lb a in let pb := ub b in constr:(lb_sub _ _ _ _ pa pb)
  | _ =>
    match goal with
    | _ => let _ := match goal with _ => is_num e end in constr:(N.le_refl e)
    | H : ?L <= e |- _ => let _ := match goal with _ => is_num L end in constr:(H)
    | _ => constr:(N.le_0_l e)
    end
  end.

(* simplify the definition E : x = v : remove wrap-arounds that cannot happen *)
Ltac simp_eq E :=
  repeat match type of E with
  | context [nth ?i ?t ?d] => let r := eval vm_compute in (nth i t d) in change (nth i t d) with r in E
  | context [(?c + ?z) mod ?W] =>
    match goal with
    | Ec : c = (?a + W - ?b) mod W |- _ =>
      let pa := ub a in let pb := ub b in
      rewrite Ec in E; rewrite (sub_add_nowrap a b z W _ _ pa pb eq_refl eq_refl) in E
    end
  | context [N.lor ?a ((?h * 8) mod 268435456)] =>
    let pa := ub a in rewrite (lor_shift3 a h _ pa eq_refl) in E
  | context [(?a - ?b) mod ?c] =>
    is_num a; is_num b; is_num c;
    let r := eval vm_compute in ((a - b) mod c) in change ((a - b) mod c) with r in E
  | context [N.land ?c ?m] =>
    match goal with Em : m = 4294967295 |- _ => rewrite Em in E end
  | context [N.land ?c 4294967295] =>
    let pc := ub c in rewrite (land_ones32_ub c _ pc eq_refl) in E
  | context [(?a + ?W - ?b) mod ?W] =>
    let pa := ub a in let la := lb a in let pb := ub b in
    rewrite (sub_nowrap_ub a b W _ _ _ pa la pb eq_refl eq_refl) in E
  | context [?a mod ?c] => let pa := ub a in rewrite (mod_small_ub a c _ pa eq_refl) in E
  | context [(?a mod ?W) mod ?m] =>
    rewrite (mod_mod_divide a W m ltac:(discriminate) eq_refl ltac:(discriminate)) in E
  | context [(?x * ?c) mod ?m] =>
    is_num c; is_num m;
    let b := eval vm_compute in (m / c) in
    rewrite (shl_mod x c m b eq_refl ltac:(discriminate) ltac:(discriminate)) in E
  | context [?a / ?c] => let pa := ub a in rewrite (div_small_ub a c _ pa eq_refl) in E
  | context [?a + 0] => rewrite (N.add_0_r a) in E
  | context [0 + ?a] => rewrite (N.add_0_l a) in E
  | context [?a - 0] => rewrite (N.sub_0_r a) in E
  | context [?a * 1] => rewrite (N.mul_1_r a) in E
  end.

(* keep only the tightest numeral bounds of the variable x *)
Ltac tighten x :=
  repeat match goal with
  | H1 : x <= ?K1, H2 : x <= ?K2 |- _ =>
    is_num K1; is_num K2;
    let b := eval vm_compute in (K1 <=? K2) in
    lazymatch b with true => clear H2 | false => clear H1 end
  | H1 : ?L1 <= x, H2 : ?L2 <= x |- _ =>
    is_num L1; is_num L2;
    let b := eval vm_compute in (L1 <=? L2) in
    lazymatch b with true => clear H1 | false => clear H2 end
  end.

(* record numeral bounds for x from E : x = v *)
Ltac add_bounds x E :=
  lazymatch type of E with
  | _ = ?v =>
    let pu := ub v in
    lazymatch type of pu with
    | _ <= ?K => let K' := eval vm_compute in K in
                 let U := fresh "U" x in assert (U : x <= K') by (rewrite E; exact pu)
    end;
    let pl := lb v in
    lazymatch type of pl with
    | ?L <= _ => let L' := eval vm_compute in L in
                 lazymatch L' with
                 | 0 => idtac
                 | _ => let Lh := fresh "L" x in assert (Lh : L' <= x) by (rewrite E; exact pl)
                 end
    end
  end; tighten x.

(* execute the next statement of the goal  Q (let x := v in rest) *)
Ltac exec_let :=
  lazymatch goal with
  | |- ?Q (let x := ?v in @?b x) =>
    let x' := fresh x in let E := fresh "E" x in
    pose (x' := v); change (Q (b x')); cbv beta;
    assert (E : x' = v) by reflexivity; clearbody x'; simp_eq E; add_bounds x' E
  end.

(* a < b  ->  a <= b-1 as numeral *)
Ltac norm_lt H :=
  lazymatch type of H with
  | ?a < ?b => apply N.lt_le_pred in H; let r := eval vm_compute in (N.pred b) in change (N.pred b) with r in H
  | _ => idtac
  end.

(* after a bound of v has been refined by a branch condition: re-simplify and re-bound the variables defined from v
   (the statements between the definition and the test, e.g.  tmp[i+8] += (x << 28) & mask;  if ... && x > 1) *)
Ltac refresh v :=
  is_var v;
  repeat match goal with
  | E : ?y = ?rhs |- _ =>
    is_var y;
    lazymatch rhs with context [v] => idtac end;
    lazymatch goal with R : refreshed y |- _ => fail | _ => idtac end;
    let R := fresh "R" in assert (R : refreshed y) by exact I;
    simp_eq E; add_bounds y E; refresh y
  end.

(* a comparison with a numeral on one side: split and record the bound *)
Ltac split_ltb a b :=
  let H := fresh "C" in
  destruct (N.ltb_spec a b) as [H|H];
  [ first [ (* a < b : upper bound for a if b numeral, lower bound for b if a numeral *)
            (is_num b; norm_lt H; try (is_var a; tighten a); try refresh a)
          | (is_num a; apply N.le_succ_l in H;
             let r := eval vm_compute in (N.succ a) in change (N.succ a) with r in H; try refresh b)
          | idtac ]
  | first [ (is_num b; try refresh a) | (is_num a; try refresh b) | idtac ] ];
  repeat match goal with R : refreshed _ |- _ => clear R end;
  try (is_var a; tighten a); try (is_var b; tighten b).

(* execute an `if` of the goal *)
Ltac exec_if :=
  lazymatch goal with
  | |- ?Q (if (?a <? ?b) && (?c <? ?d) then _ else _) =>
    split_ltb a b; [split_ltb c d|]; cbv beta iota delta [andb]
  | |- ?Q (if ?a <? ?b then _ else _) => split_ltb a b; cbv beta iota
  end.

Ltac exec := repeat first [exec_let | exec_if].

(* goals  e < W  /  e <= W  by interval arithmetic *)
Lemma le_lt_num : forall e K W, e <= K -> (K <? W) = true -> e < W.
Proof. intros e K W H Hc. apply N.ltb_lt in Hc. lia. Qed.
Lemma le_le_num : forall e K W, e <= K -> (K <=? W) = true -> e <= W.
Proof. intros e K W H Hc. apply N.leb_le in Hc. lia. Qed.
Lemma le_ge_num : forall e L W, L <= e -> (W <=? L) = true -> W <= e.
Proof. intros e L W H Hc. apply N.leb_le in Hc. lia. Qed.

Ltac by_bounds :=
  lazymatch goal with
  | |- ?e < ?W => let p := ub e in exact (le_lt_num e _ W p eq_refl)
  | |- ?W <= ?e => first [ let p := ub W in exact (le_le_num W _ e p eq_refl)
                         | let p := lb e in exact (le_ge_num e _ W p eq_refl) ]
  end.

(* replace  q = s / d,  r = s mod d  by  s = d * q + r  (so that the leaves are purely linear) *)
Ltac euclid_pairs :=
  repeat match goal with
  | E1 : ?q = ?s / ?d, E2 : ?r = ?s mod ?d |- _ =>
    let H := fresh "DM" in
    pose proof (N.div_mod s d ltac:(discriminate)) as H; rewrite <- E1, <- E2 in H; clear E1 E2
  end.

(* a variable with a small upper bound: enumerate its values *)
Ltac enum_le x :=
  lazymatch goal with
  | U : x <= ?K |- _ =>
    let H := fresh in
    assert (H : x = 0 \/ x = 1 \/ x = 2 \/ x = 3 \/ x = 4 \/ x = 5 \/ x = 6 \/ x = 7) by (clear - U; lia);
    destruct H as [H|[H|[H|[H|[H|[H|[H|H]]]]]]]; try (exfalso; clear - U H; lia);
    try (exfalso; match goal with L : _ <= x |- _ => clear - L H; lia end); rewrite H in *
  end.

(* x = a - b (truncated subtraction on N) with b <= a by the intervals: replace by x + b = a *)
Lemma sub_to_add : forall x a b Kb La, x = a - b -> b <= Kb -> La <= a -> (Kb <=? La) = true -> x + b = a.
Proof. intros x a b Kb La E H1 H2 Hc. apply N.leb_le in Hc. lia. Qed.
Ltac fix_subs :=
  repeat match goal with
  | E : ?x = ?a - ?b |- _ =>
    let pb := ub b in let la := lb a in
    let H := fresh "SA" in pose proof (sub_to_add x a b _ _ E pb la eq_refl) as H; clear E
  end.

(* any remaining truncated subtraction a - b (also nested in a sum) with b <= a by the intervals:
   name it d and keep d + b = a *)
Lemma sub_def : forall a b Kb La, b <= Kb -> La <= a -> (Kb <=? La) = true -> (a - b) + b = a.
Proof. intros a b Kb La H1 H2 Hc. apply N.leb_le in Hc. lia. Qed.
Ltac name_subs :=
  repeat match goal with
  | H : context [?a - ?b] |- _ =>
    let pb := ub b in let la := lb a in
    let d := fresh "d" in let Hd := fresh "SD" in
    pose proof (sub_def a b _ _ pb la eq_refl) as Hd;
    set (d := a - b) in *; clearbody d
  | |- context [?a - ?b] =>
    let pb := ub b in let la := lb a in
    let d := fresh "d" in let Hd := fresh "SD" in
    pose proof (sub_def a b _ _ pb la eq_refl) as Hd;
    set (d := a - b) in *; clearbody d
  end.

(* every quotient / remainder by a numeral: name them q, r and keep s = d*q + r *)
Ltac name_divmods :=
  repeat match goal with
  | H : context [?s / ?d] |- _ =>
    is_num d;
    let q := fresh "q" in let r := fresh "r" in let Hd := fresh "QR" in
    pose proof (N.div_mod s d ltac:(discriminate)) as Hd;
    set (q := s / d) in *; set (r := s mod d) in *; clearbody q r
  | H : context [?s mod ?d] |- _ =>
    is_num d;
    let q := fresh "q" in let r := fresh "r" in let Hd := fresh "QR" in
    pose proof (N.div_mod s d ltac:(discriminate)) as Hd;
    set (q := s / d) in *; set (r := s mod d) in *; clearbody q r
  | |- context [?s / ?d] =>
    is_num d;
    let q := fresh "q" in let r := fresh "r" in let Hd := fresh "QR" in
    pose proof (N.div_mod s d ltac:(discriminate)) as Hd;
    set (q := s / d) in *; set (r := s mod d) in *; clearbody q r
  | |- context [?s mod ?d] =>
    is_num d;
    let q := fresh "q" in let r := fresh "r" in let Hd := fresh "QR" in
    pose proof (N.div_mod s d ltac:(discriminate)) as Hd;
    set (q := s / d) in *; set (r := s mod d) in *; clearbody q r
  end.


(* leaf recipe for linear value equations: no div/mod left, defining equations substituted *)
Ltac subst_defs := repeat match goal with E : ?x = _ |- _ => is_var x; subst x end.
Ltac clear_bounds := repeat match goal with U : _ <= _ |- _ => clear U end.
Ltac leaf_lia := euclid_pairs; subst_defs; clear_bounds; lia.
(* keeps the bounds: needed when truncated subtractions remain *)
Ltac leaf_lia_b := fix_subs; euclid_pairs; subst_defs; clear_bounds; lia.

(* the leaf recipe for paths with subtractions and shifts: purely linear at the end *)
Ltac zero_bounds := repeat match goal with H : ?x <= 0 |- _ => apply (proj1 (N.le_0_r x)) in H end.
Ltac leaf_linear := name_subs; zero_bounds; clear_bounds; name_divmods; subst_defs; lia.

(* powers of two as numerals (ring on N does not identify 2^456 with 2^228 * 2^228) *)
Ltac num_pows := repeat match goal with |- context [2 ^ ?k] => let v := eval vm_compute in (2^k) in change (2^k) with v end.
