(* Proofs about the PKCS#7 container model (C17). *)
From Coq Require Import List NArith ZArith Bool String Lia.
From GmsmVerif Require Import Lib.Outcome Dec.Access Dec.AccessProofs Dec.DecSpec Dec.ByteModels Dec.ByteProofs
  Gen.PKCS7Tables P7.P7Model.
Import ListNotations.
Local Open Scope nat_scope.
Notation length := List.length (only parsing).

Lemma bytes_eqb_eq a b : bytes_eqb a b = true <-> a = b.
Proof.
  revert b; induction a as [|x a IH]; intros [|y b]; cbn [bytes_eqb]; split; intros H;
    try reflexivity; try discriminate.
  - apply andb_true_iff in H as [H1 H2]. apply N.eqb_eq in H1. apply IH in H2. subst; reflexivity.
  - injection H as -> ->. rewrite N.eqb_refl. apply IH. reflexivity.
Qed.

Lemma bytes_eqb_refl a : bytes_eqb a a = true.
Proof. apply bytes_eqb_eq; reflexivity. Qed.

(* ---------- table facts (re-proved against the generated tables on every run) ------------------- *)
Lemma hash_table_sm3 :
  getHashForOID gen_oid_SM3 = Ok "SM3"%string /\ getHashForOID gen_oid_HashSM3 = Ok "SM3"%string /\
  getHashForOID gen_oid_SHA256 = Ok "SHA256"%string /\ getHashForOID gen_oid_DigestAlgorithmSHA1 = Ok "SHA1"%string.
Proof. vm_compute. repeat split; reflexivity. Qed.

Lemma sigalg_table_sm2 :
  getSignatureAlgorithmByHash "SM3" gen_oid_SM3withSM2 = Some "SM2WithSM3"%string /\
  getSignatureAlgorithmByHash "SHA256" gen_oid_DSASM2 = Some "SM2WithSHA256"%string.
Proof. vm_compute. repeat split; reflexivity. Qed.

Section P7Proofs.
  Variable Cert : Type.
  Variable cert_serial : Cert -> Z.
  Variable cert_rawIssuer : Cert -> list N.
  Variable hash_sum : string -> list N -> list N.
  Variable parse_octets : list N -> option (list N).
  Variable marshalAttributes : list attribute -> outcome (list N).
  Variable check_signature : Cert -> string -> list N -> list N -> bool.

  Notation verifySignature := (verifySignature Cert cert_serial cert_rawIssuer hash_sum parse_octets marshalAttributes check_signature).
  Notation Verify := (Verify Cert cert_serial cert_rawIssuer hash_sum parse_octets marshalAttributes check_signature).
  Notation verify_all := (verify_all Cert cert_serial cert_rawIssuer hash_sum parse_octets marshalAttributes check_signature).
  Notation pkcs7 := (pkcs7 Cert).

  (* what the property asks of one signer *)
  Definition signer_accepted (p7 : pkcs7) (s : signerInfo) : Prop :=
    exists h, getHashForOID (si_digestAlg s) = Ok h /\
    exists signed,
      (match si_attrs s with
       | [] => signed = p7_content Cert p7
       | _ => exists d, unmarshalAttribute parse_octets (si_attrs s) gen_oid_AttributeMessageDigest = Ok d /\
                        d = hash_sum h (p7_content Cert p7) /\ marshalAttributes (si_attrs s) = Ok signed
       end) /\
    exists c, getCertFromCertsByIssuerAndSerial Cert cert_serial cert_rawIssuer (p7_certificates Cert p7) (si_ias s) = Some c /\
    exists algo, getSignatureAlgorithmByHash h (si_digestEncAlg s) = Some algo /\
                 check_signature c algo signed (si_encryptedDigest s) = true.

  Lemma verifySignature_iff p7 s : verifySignature p7 s = Ok tt <-> signer_accepted p7 s.
  Proof.
    unfold P7Model.verifySignature, signer_accepted. split.
    - destruct (getHashForOID (si_digestAlg s)) as [h| | |]; cbn [obind]; try discriminate.
      intros H. exists h. split; [reflexivity|].
      destruct (si_attrs s) as [|a r] eqn:Ea.
      + cbn [obind] in H. exists (p7_content Cert p7). split; [reflexivity|].
        destruct (getCertFromCertsByIssuerAndSerial _ _ _ _ _) as [c|]; [|discriminate].
        exists c. split; [reflexivity|].
        destruct (getSignatureAlgorithmByHash h _) as [algo|]; [|discriminate].
        exists algo. split; [reflexivity|].
        destruct (check_signature c algo _ _); [reflexivity|discriminate].
      + destruct (unmarshalAttribute parse_octets (a :: r) _) as [d| | |]; cbn [obind] in H; try discriminate.
        destruct (bytes_eqb d _) eqn:Ed; cbn [negb] in H; [|discriminate].
        apply bytes_eqb_eq in Ed.
        destruct (marshalAttributes (a :: r)) as [signed| | |]; cbn [obind] in H; try discriminate.
        exists signed. split; [exists d; auto|].
        destruct (getCertFromCertsByIssuerAndSerial _ _ _ _ _) as [c|]; [|discriminate].
        exists c. split; [reflexivity|].
        destruct (getSignatureAlgorithmByHash h _) as [algo|]; [|discriminate].
        exists algo. split; [reflexivity|].
        destruct (check_signature c algo _ _); [reflexivity|discriminate].
    - intros (h & Hh & signed & Hs & c & Hc & algo & Ha & Hk). rewrite Hh. cbn [obind].
      destruct (si_attrs s) as [|a r] eqn:Ea.
      + subst signed. cbn [obind]. rewrite Hc, Ha, Hk. reflexivity.
      + destruct Hs as (d & Hd & Heq & Hm). rewrite Hd. cbn [obind]. subst d.
        rewrite bytes_eqb_refl. cbn [negb]. rewrite Hm. cbn [obind]. rewrite Hc, Ha, Hk. reflexivity.
  Qed.

  Lemma verify_all_iff p7 l : verify_all p7 l = Ok tt <-> Forall (signer_accepted p7) l.
  Proof.
    induction l as [|s r IH]; cbn [P7Model.verify_all].
    - split; [constructor|reflexivity].
    - split.
      + intros H. destruct (verifySignature p7 s) as [[]| | |] eqn:E; cbn [obind] in H; try discriminate.
        constructor; [apply verifySignature_iff; exact E|apply IH; exact H].
      + intros H. inversion H as [|? ? Hs Hr]; subst.
        apply verifySignature_iff in Hs. rewrite Hs. cbn [obind]. apply IH; exact Hr.
  Qed.

  Theorem signed_verify_iff p7 :
    Verify p7 = Ok tt <-> p7_signers Cert p7 <> [] /\ Forall (signer_accepted p7) (p7_signers Cert p7).
  Proof.
    unfold P7Model.Verify. destruct (p7_signers Cert p7) as [|s r] eqn:E.
    - split; [discriminate|intros [H _]; congruence].
    - rewrite verify_all_iff. split; [intros H; split; [discriminate|exact H]|intros [_ H]; exact H].
  Qed.

  (* ---------- enveloped data ---------------------------------------------------------------- *)
  Variable SK : Type.
  Variable Rnd : Type.
  Variable wrap : Cert -> list N -> Rnd -> outcome (list N).
  Variable unwrap : SK -> list N -> outcome (list N).
  Variable cbc_enc cbc_dec : list N -> list N -> list N -> list N.
  Variable gcm_seal : list N -> list N -> list N -> list N.
  Variable gcm_open : list N -> list N -> list N -> option (list N).
  Variable key_ok : calg -> list N -> bool.

  Notation PKCS7Encrypt := (PKCS7Encrypt Cert cert_serial cert_rawIssuer Rnd wrap cbc_enc gcm_seal).
  Notation Decrypt := (Decrypt Cert cert_serial cert_rawIssuer SK unwrap cbc_dec gcm_open key_ok).
  Notation wrap_all := (wrap_all Cert cert_serial cert_rawIssuer Rnd wrap).
  Notation select := (selectRecipientForCertificate Cert cert_serial cert_rawIssuer).
  Notation isMatch := (isCertMatchForIssuerAndSerial Cert cert_serial cert_rawIssuer).
  Notation c2ias := (cert2issuerAndSerial Cert cert_serial cert_rawIssuer).

  Definition ident (c : Cert) : Z * list N := (cert_serial c, cert_rawIssuer c).

  Lemma isMatch_iff c c' : isMatch c (c2ias c') = true <-> ident c = ident c'.
  Proof.
    unfold P7Model.isCertMatchForIssuerAndSerial, P7Model.cert2issuerAndSerial, ident. cbn [ias_serial ias_issuer].
    rewrite andb_true_iff, Z.eqb_eq, bytes_eqb_eq. split; [intros [-> ->]; reflexivity|intros [= -> ->]; auto].
  Qed.

  Lemma select_wrapped key rnd : forall rs ris c,
    wrap_all key rs rnd = Ok ris -> In c rs -> NoDup (map ident rs) ->
    exists enc, wrap c key (rnd c) = Ok enc /\ select ris c = Some (mkRI (c2ias c) enc).
  Proof.
    induction rs as [|c0 rs IH]; intros ris c Hw Hin Hnd; [destruct Hin|].
    cbn [P7Model.wrap_all] in Hw.
    destruct (wrap c0 key (rnd c0)) as [e0| | |] eqn:E0; cbn [obind] in Hw; try discriminate.
    destruct (wrap_all key rs rnd) as [rest| | |] eqn:Er; cbn [obind] in Hw; try discriminate.
    injection Hw as <-. inversion Hnd as [|? ? Hnotin Hnd']; subst.
    unfold P7Model.selectRecipientForCertificate. cbn [find ri_ias].
    destruct Hin as [->|Hin].
    - exists e0. split; [exact E0|]. rewrite (proj2 (isMatch_iff c c) eq_refl). reflexivity.
    - destruct (isMatch c (c2ias c0)) eqn:Em.
      + exfalso. apply isMatch_iff in Em. apply Hnotin. rewrite <- Em. apply in_map; exact Hin.
      + apply (IH rest c eq_refl Hin Hnd').
  Qed.

  Lemma select_stranger key rnd : forall rs ris c,
    wrap_all key rs rnd = Ok ris -> ~ In (ident c) (map ident rs) -> select ris c = None.
  Proof.
    induction rs as [|c0 rs IH]; intros ris c Hw Hn; cbn [P7Model.wrap_all] in Hw.
    - injection Hw as <-. reflexivity.
    - destruct (wrap c0 key (rnd c0)) as [e0| | |]; cbn [obind] in Hw; try discriminate.
      destruct (wrap_all key rs rnd) as [rest| | |] eqn:Er; cbn [obind] in Hw; try discriminate.
      injection Hw as <-. unfold P7Model.selectRecipientForCertificate. cbn [find ri_ias].
      destruct (isMatch c (c2ias c0)) eqn:Em.
      + exfalso. apply isMatch_iff in Em. apply Hn. left. symmetry; exact Em.
      + apply (IH rest c eq_refl). intros H; apply Hn; right; exact H.
  Qed.

  (* idealisation of the primitives: decryption inverts encryption *)
  Variable sk_of : Cert -> SK.
  Hypothesis unwrap_wrap : forall c k r e, wrap c k r = Ok e -> unwrap (sk_of c) e = Ok k.
  Hypothesis cbc_len_enc : forall k iv p, length (cbc_enc k iv p) = length p.
  Hypothesis cbc_len_dec : forall k iv c, length (cbc_dec k iv c) = length c.
  Hypothesis cbc_dec_enc : forall k iv p, cbc_dec k iv (cbc_enc k iv p) = p.
  Hypothesis gcm_open_seal : forall k n p, gcm_open k n (gcm_seal k n p) = Some p.

  Theorem envelope_roundtrip alg content rs key iv rnd env c :
    key_ok alg key = true ->
    length iv = (match alg with DESCBC => 8 | AES128GCM => 12 end) ->
    PKCS7Encrypt alg content rs key iv rnd = Ok env ->
    In c rs -> NoDup (map ident rs) ->
    Decrypt env c (sk_of c) = Ok content.
  Proof.
    intros Hk Hiv He Hin Hnd. unfold P7Model.PKCS7Encrypt in He.
    destruct alg.
    - unfold P7Model.encryptDESCBC in He. unfold desBlockSize in He.
      rewrite (pad_is_spec content 8 ltac:(lia)) in He. cbn [obind] in He.
      destruct (wrap_all key rs rnd) as [ris| | |] eqn:Ew; cbn [obind] in He; try discriminate.
      injection He as <-.
      destruct (select_wrapped key rnd rs ris c Ew Hin Hnd) as (enc & Hwr & Hsel).
      unfold P7Model.Decrypt. cbn [ed_recipients ed_eci]. rewrite Hsel. cbn [ri_encryptedKey].
      rewrite (unwrap_wrap c key (rnd c) enc Hwr). cbn [obind].
      unfold P7Model.eci_decrypt. cbn [e_alg e_params e_content]. rewrite Hk. cbn [negb].
      unfold p7_cbc_decrypt, desBlockSize, new_cbc, crypt_blocks.
      rewrite Hiv, Nat.eqb_refl. cbn [negb].
      destruct (pad_spec_padded content 8 ltac:(lia)) as (k & Hk8 & Hd & Hmod & Hne).
      rewrite cbc_len_enc, Hmod.
      destruct (Nat.eqb_spec (length (p7_pad_spec 8 content)) 0) as [E0|_].
      { exfalso. apply Hne. destruct (p7_pad_spec 8 content); [reflexivity|discriminate]. }
      cbn [Nat.eqb negb orb obind]. rewrite cbc_dec_enc.
      apply unpad_complete; [lia|]. exists k. auto.
    - unfold P7Model.encryptAES128GCM in He. cbn [obind] in He.
      destruct (wrap_all key rs rnd) as [ris| | |] eqn:Ew; cbn [obind] in He; try discriminate.
      injection He as <-.
      destruct (select_wrapped key rnd rs ris c Ew Hin Hnd) as (enc & Hwr & Hsel).
      unfold P7Model.Decrypt. cbn [ed_recipients ed_eci]. rewrite Hsel. cbn [ri_encryptedKey].
      rewrite (unwrap_wrap c key (rnd c) enc Hwr). cbn [obind].
      unfold P7Model.eci_decrypt. cbn [e_alg e_params e_content e_icvlen]. rewrite Hk. cbn [negb].
      unfold nonceSize, gcmOverhead. rewrite Hiv. cbn [Nat.eqb negb]. rewrite gcm_open_seal. reflexivity.
  Qed.

  (* a certificate that is not among the recipients gets an error, whatever key it comes with *)
  Theorem envelope_stranger alg content rs key iv rnd env c sk :
    PKCS7Encrypt alg content rs key iv rnd = Ok env ->
    ~ In (ident c) (map ident rs) ->
    Decrypt env c sk = Err 23.
  Proof.
    intros He Hn. unfold P7Model.PKCS7Encrypt in He.
    destruct (match alg with DESCBC => _ | AES128GCM => _ end) as [eci| | |]; cbn [obind] in He; try discriminate.
    destruct (wrap_all key rs rnd) as [ris| | |] eqn:Ew; cbn [obind] in He; try discriminate.
    injection He as <-. unfold P7Model.Decrypt. cbn [ed_recipients].
    rewrite (select_stranger key rnd rs ris c Ew Hn). reflexivity.
  Qed.

  (* a listed certificate with a private key that does not open the wrapped key gets that error *)
  Theorem envelope_wrong_key alg content rs key iv rnd env c sk e :
    PKCS7Encrypt alg content rs key iv rnd = Ok env ->
    In c rs -> NoDup (map ident rs) ->
    (forall enc, wrap c key (rnd c) = Ok enc -> unwrap sk enc = Err e) ->
    Decrypt env c sk = Err e.
  Proof.
    intros He Hin Hnd Hu. unfold P7Model.PKCS7Encrypt in He.
    destruct (match alg with DESCBC => _ | AES128GCM => _ end) as [eci| | |]; cbn [obind] in He; try discriminate.
    destruct (wrap_all key rs rnd) as [ris| | |] eqn:Ew; cbn [obind] in He; try discriminate.
    injection He as <-.
    destruct (select_wrapped key rnd rs ris c Ew Hin Hnd) as (enc & Hwr & Hsel).
    unfold P7Model.Decrypt. cbn [ed_recipients]. rewrite Hsel. cbn [ri_encryptedKey].
    rewrite (Hu enc Hwr). reflexivity.
  Qed.
End P7Proofs.
