(* What the signer side of pkcs7.go builds, Verify accepts; and Verify accepts it with another content only if
   the digests agree (C17).  Relative to: the signature scheme is correct for the key that belongs to the
   certificate, the OCTET STRING codec inverts. *)
From Coq Require Import List NArith ZArith Bool String Lia Permutation.
From GmsmVerif Require Import Lib.Outcome Dec.Access Dec.ByteModels Gen.PKCS7Tables P7.P7Model P7.P7Proofs P7.P7SignModel.
Import ListNotations.
Local Open Scope nat_scope.
Notation length := List.length (only parsing).

(* the three attribute types AddSigner writes are different OIDs; its algorithm choices are in Verify's tables *)
Lemma attr_oids_distinct :
  oid_eqb gen_oid_AttributeContentType gen_oid_AttributeMessageDigest = false /\
  oid_eqb gen_oid_AttributeSigningTime gen_oid_AttributeMessageDigest = false /\
  oid_eqb gen_oid_AttributeMessageDigest gen_oid_AttributeMessageDigest = true.
Proof. vm_compute. repeat split; reflexivity. Qed.

Lemma addSigner_algs_in_tables :
  getHashForOID (fst gen_addSigner_default) = Ok gen_addSigner_default_hash /\
  getHashForOID (fst gen_addSigner_sm2) = Ok gen_addSigner_sm2_hash /\
  getSignatureAlgorithmByHash gen_addSigner_default_hash (snd gen_addSigner_default) = Some "SHA1WithRSA"%string /\
  getSignatureAlgorithmByHash gen_addSigner_sm2_hash (snd gen_addSigner_sm2) = Some "SM2WithSM3"%string.
Proof. vm_compute. repeat split; reflexivity. Qed.

Section P7SignProofs.
  Variable Cert : Type.
  Variable cert_serial : Cert -> Z.
  Variable cert_rawIssuer : Cert -> list N.
  Variable hash_sum : string -> list N -> list N.
  Variable parse_octets : list N -> option (list N).
  Variable marshalAttributes : list attribute -> outcome (list N).
  Variable check_signature : Cert -> string -> list N -> list N -> bool.
  Variable marshal_octets : list N -> list N.
  Variable marshal_oid : list N -> list N.
  Variable enc_attr : attribute -> list N.
  Variable SK Rnd : Type.
  Variable key_kind : SK -> keyKind.
  Variable sign : SK -> list N -> Rnd -> outcome (list N).

  (* the key that belongs to the public key of a certificate *)
  Variable holds : Cert -> SK -> Prop.
  Definition algo_of (k : keyKind) : string := match k with KeySM2 => "SM2WithSM3" | _ => "SHA1WithRSA" end.

  (* premises: correctness of the signature scheme (for SM2 this is the statement of C01, for RSA of PKCS#1 v1.5),
     and the codec of the OCTET STRING holding the digest *)
  Hypothesis sign_correct : forall c sk m r s,
    holds c sk -> sign sk m r = Ok s -> check_signature c (algo_of (key_kind sk)) m s = true.
  Hypothesis octets_codec : forall d, parse_octets (marshal_octets d) = Some d.

  Notation verifySignature := (verifySignature Cert cert_serial cert_rawIssuer hash_sum parse_octets marshalAttributes check_signature).
  Notation Verify := (Verify Cert cert_serial cert_rawIssuer hash_sum parse_octets marshalAttributes check_signature).
  Notation verify_all := (verify_all Cert cert_serial cert_rawIssuer hash_sum parse_octets marshalAttributes check_signature).
  Notation signer_of := (signer_of Cert cert_serial cert_rawIssuer hash_sum marshalAttributes marshal_octets marshal_oid enc_attr SK Rnd key_kind sign).
  Notation AddSigner := (AddSigner Cert cert_serial cert_rawIssuer hash_sum marshalAttributes marshal_octets marshal_oid enc_attr SK Rnd key_kind sign).
  Notation add_signers := (add_signers Cert cert_serial cert_rawIssuer hash_sum marshalAttributes marshal_octets marshal_oid enc_attr SK Rnd key_kind sign).
  Notation sort_attrs := (sort_attrs enc_attr).
  Notation spec := (signerSpec Cert SK Rnd).
  Notation ident := (ident Cert cert_serial cert_rawIssuer).

  (* ---- sorting is a permutation ---- *)
  Lemma insert_perm x l : Permutation (insert_attr enc_attr x l) (x :: l).
  Proof.
    induction l as [|y r IH]; cbn [insert_attr]; [reflexivity|].
    destruct (bytes_ltb _ _); [reflexivity|]. rewrite IH. apply perm_swap.
  Qed.
  Lemma sort_perm l : Permutation (sort_attrs l) l.
  Proof.
    induction l as [|x l IH]; cbn [P7SignModel.sort_attrs fold_right]; [reflexivity|].
    fold (sort_attrs l). rewrite insert_perm. constructor. exact IH.
  Qed.

  (* ---- the attribute lookup does not depend on the order when one attribute has the type ---- *)
  Lemma unmarshal_unique (l : list attribute) (t : list N) a0 :
    In a0 l -> oid_eqb (at_type a0) t = true ->
    (forall a, In a l -> oid_eqb (at_type a) t = true -> a = a0) ->
    unmarshalAttribute parse_octets l t =
      match parse_octets (at_value a0) with Some d => Ok d | None => Err 12 end.
  Proof.
    induction l as [|a r IH]; intros Hin Ht Hu; [destruct Hin|]. cbn [unmarshalAttribute].
    destruct (oid_eqb (at_type a) t) eqn:E.
    - rewrite (Hu a (or_introl eq_refl) E). reflexivity.
    - destruct Hin as [->|Hin]; [congruence|]. apply IH; auto. intros a' Ha'; apply Hu; right; exact Ha'.
  Qed.

  (* ---- the certificate lookup finds the signer's certificate ---- *)
  Lemma getCert_self cs c : In c cs -> NoDup (map ident cs) ->
    getCertFromCertsByIssuerAndSerial Cert cert_serial cert_rawIssuer cs (cert2issuerAndSerial Cert cert_serial cert_rawIssuer c) = Some c.
  Proof.
    unfold getCertFromCertsByIssuerAndSerial.
    induction cs as [|c0 r IH]; intros Hin Hnd; [destruct Hin|]. cbn [find].
    inversion Hnd as [|? ? Hn Hnd']; subst.
    destruct Hin as [->|Hin].
    - rewrite (proj2 (isMatch_iff Cert cert_serial cert_rawIssuer c c) eq_refl). reflexivity.
    - destruct (isCertMatchForIssuerAndSerial Cert cert_serial cert_rawIssuer c0 _) eqn:Em.
      + exfalso. apply isMatch_iff in Em. apply Hn. rewrite Em. apply in_map. exact Hin.
      + apply IH; assumption.
  Qed.

  (* no attribute of the caller claims to be the message digest *)
  Definition extra_ok (sp : spec) : Prop :=
    forall a, In a (sp_extra Cert SK Rnd sp) -> oid_eqb (at_type a) gen_oid_AttributeMessageDigest = false.

  Definition spec_hash (sp : spec) : string :=
    snd (signer_algs (key_kind (sp_key Cert SK Rnd sp))).

  (* what a signer info made by AddSigner looks like to verifySignature *)
  Lemma signer_of_attrs data sp s :
    signer_of data sp = Ok s -> extra_ok sp ->
    si_attrs s <> [] /\
    getHashForOID (si_digestAlg s) = Ok (spec_hash sp) /\
    unmarshalAttribute parse_octets (si_attrs s) gen_oid_AttributeMessageDigest = Ok (hash_sum (spec_hash sp) data) /\
    si_ias s = cert2issuerAndSerial Cert cert_serial cert_rawIssuer (sp_cert Cert SK Rnd sp) /\
    getSignatureAlgorithmByHash (spec_hash sp) (si_digestEncAlg s) = Some (algo_of (key_kind (sp_key Cert SK Rnd sp))) /\
    key_kind (sp_key Cert SK Rnd sp) <> KeyOther /\
    exists m, marshalAttributes (si_attrs s) = Ok m /\
              sign (sp_key Cert SK Rnd sp) m (sp_rnd Cert SK Rnd sp) = Ok (si_encryptedDigest s).
  Proof.
    intros E Hx. unfold P7SignModel.signer_of in E. unfold spec_hash.
    destruct addSigner_algs_in_tables as (T1 & T2 & T3 & T4).
    destruct attr_oids_distinct as (D1 & D2 & D3).
    set (k := key_kind (sp_key Cert SK Rnd sp)) in *.
    destruct (signer_algs k) as [[dO sO] h] eqn:Esa. cbn [snd].
    set (attrs := _ ++ sp_extra Cert SK Rnd sp) in E.
    destruct (marshalAttributes (sort_attrs attrs)) as [m| | |] eqn:Em; cbn [obind] in E; try discriminate.
    match type of E with obind ?sg _ = _ => destruct sg as [sg'| | |] eqn:Es; cbn [obind] in E; try discriminate end.
    injection E as <-. cbn [si_attrs si_digestAlg si_ias si_digestEncAlg si_encryptedDigest].
    pose proof (sort_perm attrs) as P.
    assert (Hne : sort_attrs attrs <> []).
    { intros Z. rewrite Z in P. apply Permutation_nil in P. discriminate P. }
    assert (Hk : k <> KeyOther) by (intros Z; rewrite Z in Es; discriminate Es).
    assert (Hd : getHashForOID dO = Ok h /\ getSignatureAlgorithmByHash h sO = Some (algo_of k)).
    { unfold signer_algs in Esa. destruct k; [| |congruence]; injection Esa as <- <- <-; split; assumption. }
    destruct Hd as [Hd1 Hd2].
    repeat split; auto.
    - set (a0 := mkAttr gen_oid_AttributeMessageDigest (marshal_octets (hash_sum h data))).
      rewrite (unmarshal_unique (sort_attrs attrs) _ a0).
      + cbn [at_value a0]. rewrite octets_codec. reflexivity.
      + apply (Permutation_in _ (Permutation_sym P)). unfold attrs. cbn. right; left. reflexivity.
      + exact D3.
      + intros a Ha Hta. apply (Permutation_in _ P) in Ha. unfold attrs in Ha. cbn [app In] in Ha.
        destruct Ha as [<-|[<-|[<-|Ha]]].
        * cbn [at_type] in Hta. congruence.
        * reflexivity.
        * cbn [at_type] in Hta. congruence.
        * rewrite (Hx a Ha) in Hta. discriminate.
    - exists m. split; [exact Em|]. destruct k; try exact Es. congruence.
  Qed.

  Lemma verify_one p7 data sp s :
    signer_of data sp = Ok s -> extra_ok sp -> holds (sp_cert Cert SK Rnd sp) (sp_key Cert SK Rnd sp) ->
    p7_content Cert p7 = data -> In (sp_cert Cert SK Rnd sp) (p7_certificates Cert p7) ->
    NoDup (map ident (p7_certificates Cert p7)) ->
    verifySignature p7 s = Ok tt.
  Proof.
    intros E Hx Hh Hc Hin Hnd.
    destruct (signer_of_attrs data sp s E Hx) as (A1 & A2 & A3 & A4 & A5 & A6 & m & A7 & A8).
    unfold P7Model.verifySignature. rewrite A2. cbn [obind].
    destruct (si_attrs s) as [|a r] eqn:Ea; [congruence|]. rewrite ?Ea in A3, A7.
    rewrite A3. cbn [obind]. rewrite Hc, (proj2 (bytes_eqb_eq _ _) eq_refl). cbn [negb].
    rewrite A7. cbn [obind]. rewrite A4, (getCert_self _ _ Hin Hnd), A5.
    rewrite (sign_correct _ _ _ _ _ Hh A8). reflexivity.
  Qed.

  (* ---- add_signers: data kept, certificates and signer infos appended in order ---- *)
  Lemma add_signers_shape : forall l sd sd',
    add_signers sd l = Ok sd' ->
    b_data Cert sd' = b_data Cert sd /\
    b_certs Cert sd' = b_certs Cert sd ++ map (sp_cert Cert SK Rnd) l /\
    exists ss, b_signers Cert sd' = b_signers Cert sd ++ ss /\
               Forall2 (fun sp s => signer_of (b_data Cert sd) sp = Ok s) l ss.
  Proof.
    induction l as [|sp r IH]; intros sd sd' E; cbn [P7SignModel.add_signers] in E.
    - injection E as <-. rewrite !app_nil_r. repeat split; auto. exists []. rewrite app_nil_r. split; [reflexivity|constructor].
    - unfold P7SignModel.AddSigner in E.
      destruct (signer_of (b_data Cert sd) sp) as [s| | |] eqn:Es; cbn [obind] in E; try discriminate.
      apply IH in E. cbn [b_data b_certs b_signers] in E. destruct E as (E1 & E2 & ss & E3 & E4).
      split; [exact E1|]. split; [rewrite E2, <- app_assoc; reflexivity|].
      exists (s :: ss). split; [rewrite E3, <- app_assoc; reflexivity|]. constructor; assumption.
  Qed.

  (* ---- signed by the holders of the certified keys => verifies ---- *)
  Theorem sign_then_verify data l sd :
    add_signers (NewSignedData Cert data) l = Ok sd -> l <> [] ->
    Forall (fun sp => extra_ok sp /\ holds (sp_cert Cert SK Rnd sp) (sp_key Cert SK Rnd sp)) l ->
    NoDup (map ident (map (sp_cert Cert SK Rnd) l)) ->
    Verify (finish_parse Cert sd) = Ok tt.
  Proof.
    intros E Hne Hall Hnd. apply add_signers_shape in E. cbn [NewSignedData b_data b_certs b_signers app] in E.
    destruct E as (E1 & E2 & ss & E3 & E4).
    unfold P7Model.Verify, finish_parse. cbn [p7_signers]. rewrite E3.
    destruct ss as [|s0 ss0] eqn:Ess; [inversion E4; subst; congruence|]. rewrite <- Ess in *. clear Ess s0 ss0.
    set (p7 := mkP7 Cert (b_data Cert sd) (b_certs Cert sd) ss).
    assert (G : forall l0 ss0, Forall2 (fun sp s => signer_of data sp = Ok s) l0 ss0 ->
                (forall sp, In sp l0 -> In sp l) -> verify_all p7 ss0 = Ok tt).
    { induction 1 as [|sp s l0 ss0 Hs Hr IHr]; intros Hsub; cbn [P7Model.verify_all]; [reflexivity|].
      rewrite Forall_forall in Hall. destruct (Hall sp (Hsub sp (or_introl eq_refl))) as [Hx Hh].
      rewrite (verify_one p7 data sp s Hs Hx Hh).
      - cbn [obind]. apply IHr. intros sp' H'. apply Hsub. right; exact H'.
      - exact E1.
      - unfold p7. cbn [p7_certificates]. rewrite E2. apply in_map. apply Hsub. left; reflexivity.
      - unfold p7. cbn [p7_certificates]. rewrite E2. exact Hnd. }
    replace (match ss with [] => Err 17 | _ :: _ => verify_all (mkP7 Cert (b_data Cert sd) (b_certs Cert sd) ss) ss end)
      with (verify_all p7 ss) by (destruct ss; [inversion E4; subst; congruence|reflexivity]).
    apply (G l ss E4). auto.
  Qed.

  (* ---- the same signer infos and certificates around another content: accepted only if the digests agree ---- *)
  Theorem tampered_content_rejected data l sd content' :
    add_signers (NewSignedData Cert data) l = Ok sd ->
    Forall (fun sp => extra_ok sp) l ->
    Verify (mkP7 Cert content' (b_certs Cert sd) (b_signers Cert sd)) = Ok tt ->
    forall sp, In sp l -> hash_sum (spec_hash sp) content' = hash_sum (spec_hash sp) data.
  Proof.
    intros E Hall V sp Hin. apply add_signers_shape in E. cbn [NewSignedData b_data b_certs b_signers app] in E.
    destruct E as (E1 & E2 & ss & E3 & E4). rewrite E3 in V.
    set (p7 := mkP7 Cert content' (b_certs Cert sd) ss) in *.
    assert (Vall : verify_all p7 ss = Ok tt).
    { unfold P7Model.Verify in V. cbn [p7_signers] in V. destruct ss; [discriminate V|exact V]. }
    clear V.
    assert (G : forall l0 ss0, Forall2 (fun sp s => signer_of data sp = Ok s) l0 ss0 -> verify_all p7 ss0 = Ok tt ->
                (forall sp, In sp l0 -> extra_ok sp) ->
                forall sp, In sp l0 -> hash_sum (spec_hash sp) content' = hash_sum (spec_hash sp) data).
    { induction 1 as [|sp0 s l0 ss0 Hs Hr IHr]; intros Hv Hx sp' Hin'; [destruct Hin'|].
      cbn [P7Model.verify_all] in Hv.
      destruct (verifySignature p7 s) as [[]| | |] eqn:Ev; cbn [obind] in Hv; try discriminate.
      destruct Hin' as [<-|Hin'].
      - destruct (signer_of_attrs data sp0 s Hs (Hx sp0 (or_introl eq_refl))) as (A1 & A2 & A3 & _).
        unfold P7Model.verifySignature in Ev. rewrite A2 in Ev. cbn [obind] in Ev.
        destruct (si_attrs s) as [|a r] eqn:Ea; [congruence|]. rewrite ?Ea in A3.
        rewrite A3 in Ev. cbn [obind] in Ev.
        destruct (bytes_eqb (hash_sum (spec_hash sp0) data) (hash_sum (spec_hash sp0) (p7_content Cert p7))) eqn:Eb;
          [|cbn [negb obind] in Ev; discriminate].
        apply bytes_eqb_eq in Eb. symmetry. exact Eb.
      - apply IHr; auto. intros sp'' H''. apply Hx. right; exact H''. }
    rewrite Forall_forall in Hall. apply (G l ss E4 Vall); auto.
  Qed.
End P7SignProofs.
