(* Model of the container logic of /repo/x509/pkcs7.go (C17), function by function, at the level of
   the decoded structures: what encoding/asn1 does (DER of the structures) and the cryptographic
   primitives (content ciphers, SM2 / RSA key transport, hashes, signature verification) are
   Section variables.  No proofs in this file.

     getHashForOID, getSignatureAlgorithmByHash      over the generated tables (Gen/PKCS7Tables.v)
     isCertMatchForIssuerAndSerial, getCertFromCertsByIssuerAndSerial, selectRecipientForCertificate
     unmarshalAttribute, verifySignature, PKCS7.Verify
     encryptDESCBC, encryptAES128GCM, PKCS7Encrypt / PKCS7EncryptSM2,
     encryptedContentInfo.decrypt, PKCS7.Decrypt / DecryptSM2
   pad / unpad and the CBC gate are those of Dec/ByteModels.v.                                      *)
From Coq Require Import List NArith ZArith Bool String.
From GmsmVerif Require Import Lib.Outcome Dec.Access Dec.ByteModels Gen.PKCS7Tables.
Import ListNotations.
Local Open Scope nat_scope.

Notation oid := (list N) (only parsing).

(* asn1.ObjectIdentifier.Equal *)
Definition oid_eqb (a b : oid) : bool := bytes_eqb a b.

(* a tagless "switch { case oid.Equal(x): return v ... }": the first entry whose OID matches *)
Fixpoint assoc_oid {A} (tab : list (oid * A)) (o : oid) : option A :=
  match tab with
  | [] => None
  | (k, v) :: r => if oid_eqb o k then Some v else assoc_oid r o
  end.

(* func getHashForOID(oid) (Hash, error) *)
Definition getHashForOID (o : oid) : outcome string :=
  match assoc_oid gen_hashForOID o with Some h => Ok h | None => Err 10 end.

(* func getSignatureAlgorithmByHash(hash, oid) SignatureAlgorithm; None = UnknownSignatureAlgorithm *)
Fixpoint sigalg_lookup (tab : list (string * oid * string)) (h : string) (o : oid) : option string :=
  match tab with
  | [] => None
  | (h', k, v) :: r => if (String.eqb h h' && oid_eqb o k)%bool then Some v else sigalg_lookup r h o
  end.
Definition getSignatureAlgorithmByHash (h : string) (o : oid) : option string :=
  sigalg_lookup gen_sigAlgByHash h o.

Record issuerAndSerial := mkIAS { ias_issuer : list byte; ias_serial : Z }.
Record attribute := mkAttr { at_type : oid; at_value : list byte }.
Record signerInfo := mkSigner {
  si_ias : issuerAndSerial; si_digestAlg : oid; si_attrs : list attribute;
  si_digestEncAlg : oid; si_encryptedDigest : list byte }.

Inductive calg := DESCBC | AES128GCM.
Record encryptedContentInfo := mkECI { e_alg : calg; e_params : list byte; e_icvlen : nat; e_content : list byte }.
Record recipientInfo := mkRI { ri_ias : issuerAndSerial; ri_encryptedKey : list byte }.
Record envelopedData := mkEnv { ed_recipients : list recipientInfo; ed_eci : encryptedContentInfo }.

Section P7.
  (* certificates: only serial number and raw issuer are looked at by the container logic *)
  Variable Cert : Type.
  Variable cert_serial : Cert -> Z.
  Variable cert_rawIssuer : Cert -> list byte.

  (* func isCertMatchForIssuerAndSerial(cert, ias) *)
  Definition isCertMatchForIssuerAndSerial (c : Cert) (ias : issuerAndSerial) : bool :=
    (Z.eqb (cert_serial c) (ias_serial ias) && bytes_eqb (cert_rawIssuer c) (ias_issuer ias))%bool.

  (* func getCertFromCertsByIssuerAndSerial(certs, ias) *)
  Definition getCertFromCertsByIssuerAndSerial (certs : list Cert) (ias : issuerAndSerial) : option Cert :=
    find (fun c => isCertMatchForIssuerAndSerial c ias) certs.

  (* func cert2issuerAndSerial(cert) *)
  Definition cert2issuerAndSerial (c : Cert) : issuerAndSerial := mkIAS (cert_rawIssuer c) (cert_serial c).

  (* ---------- SignedData ------------------------------------------------------------------- *)
  Variable hash_sum : string -> list byte -> list byte.            (* hash.New(); Write; Sum *)
  Variable parse_octets : list byte -> option (list byte).         (* asn1.Unmarshal(value, &[]byte) *)
  Variable marshalAttributes : list attribute -> outcome (list byte).   (* DER of SET OF attributes *)
  Variable check_signature : Cert -> string -> list byte -> list byte -> bool.   (* cert.CheckSignature(algo, signed, sig) == nil *)

  Record pkcs7 := mkP7 { p7_content : list byte; p7_certificates : list Cert; p7_signers : list signerInfo }.

  (* func unmarshalAttribute(attrs, attributeType, out) *)
  Fixpoint unmarshalAttribute (attrs : list attribute) (t : oid) : outcome (list byte) :=
    match attrs with
    | [] => Err 11
    | a :: r => if oid_eqb (at_type a) t
                then match parse_octets (at_value a) with Some d => Ok d | None => Err 12 end
                else unmarshalAttribute r t
    end.

  (* func verifySignature(p7, signer) error *)
  Definition verifySignature (p7 : pkcs7) (signer : signerInfo) : outcome unit :=
    do hash <- getHashForOID (si_digestAlg signer);
    do signedData <-
      (match si_attrs signer with
       | [] => Ok (p7_content p7)
       | _ =>
         do digest <- unmarshalAttribute (si_attrs signer) gen_oid_AttributeMessageDigest;
         if negb (bytes_eqb digest (hash_sum hash (p7_content p7))) then Err 13
         else marshalAttributes (si_attrs signer)
       end);
    match getCertFromCertsByIssuerAndSerial (p7_certificates p7) (si_ias signer) with
    | None => Err 14
    | Some cert =>
      match getSignatureAlgorithmByHash hash (si_digestEncAlg signer) with
      | None => Err 15
      | Some algo =>
        if check_signature cert algo signedData (si_encryptedDigest signer) then Ok tt else Err 16
      end
    end.

  (* func (p7 PKCS7 ptr) Verify() error *)
  Fixpoint verify_all (p7 : pkcs7) (signers : list signerInfo) : outcome unit :=
    match signers with
    | [] => Ok tt
    | s :: r => do _ <- verifySignature p7 s; verify_all p7 r
    end.
  Definition Verify (p7 : pkcs7) : outcome unit :=
    match p7_signers p7 with [] => Err 17 | l => verify_all p7 l end.

  (* ---------- EnvelopedData ---------------------------------------------------------------- *)
  Variable SK : Type.                                               (* private keys *)
  Variable Rnd : Type.                                              (* randomness of one key wrap *)
  Variable wrap : Cert -> list byte -> Rnd -> outcome (list byte).  (* sm2.Encrypt / rsa.EncryptPKCS1v15 *)
  Variable unwrap : SK -> list byte -> outcome (list byte).         (* sm2.Decrypt / rsa.DecryptPKCS1v15 *)
  Variable cbc_enc cbc_dec : list byte -> list byte -> list byte -> list byte.    (* key iv data *)
  Variable gcm_seal : list byte -> list byte -> list byte -> list byte.           (* key nonce plaintext *)
  Variable gcm_open : list byte -> list byte -> list byte -> option (list byte).
  Variable key_ok : calg -> list byte -> bool.                      (* des.NewCipher / aes.NewCipher accept the key *)

  Definition desBlockSize : nat := 8.
  Definition nonceSize : nat := 12.
  Definition gcmOverhead : nat := 16.

  (* func encryptDESCBC(content) with the random key and IV as inputs *)
  Definition encryptDESCBC (content key iv : list byte) : outcome encryptedContentInfo :=
    do plaintext <- pad content desBlockSize;
    Ok (mkECI DESCBC iv 0 (cbc_enc key iv plaintext)).

  (* func encryptAES128GCM(content) *)
  Definition encryptAES128GCM (content key nonce : list byte) : outcome encryptedContentInfo :=
    Ok (mkECI AES128GCM nonce gcmOverhead (gcm_seal key nonce content)).

  (* the loop over the recipients of PKCS7Encrypt / PKCS7EncryptSM2 *)
  Fixpoint wrap_all (key : list byte) (recipients : list Cert) (rnd : Cert -> Rnd) : outcome (list recipientInfo) :=
    match recipients with
    | [] => Ok []
    | c :: r =>
      do encrypted <- wrap c key (rnd c);
      do rest <- wrap_all key r rnd;
      Ok (mkRI (cert2issuerAndSerial c) encrypted :: rest)
    end.

  (* func PKCS7Encrypt / PKCS7EncryptSM2 (content, recipients[, mode]); alg = ContentEncryptionAlgorithm *)
  Definition PKCS7Encrypt (alg : calg) (content : list byte) (recipients : list Cert)
             (key iv : list byte) (rnd : Cert -> Rnd) : outcome envelopedData :=
    do eci <- (match alg with
               | DESCBC => encryptDESCBC content key iv
               | AES128GCM => encryptAES128GCM content key iv
               end);
    do ris <- wrap_all key recipients rnd;
    Ok (mkEnv ris eci).

  (* func selectRecipientForCertificate(recipients, cert); None = the zero recipientInfo *)
  Definition selectRecipientForCertificate (recipients : list recipientInfo) (c : Cert) : option recipientInfo :=
    find (fun r => isCertMatchForIssuerAndSerial c (ri_ias r)) recipients.

  (* func (eci encryptedContentInfo) decrypt(key) *)
  Definition eci_decrypt (eci : encryptedContentInfo) (key : list byte) : outcome (list byte) :=
    if negb (key_ok (e_alg eci) key) then Err 20 else
    match e_alg eci with
    | AES128GCM =>
      if negb (Nat.eqb (List.length (e_params eci)) nonceSize) then Err 21 else
      if negb (Nat.eqb (e_icvlen eci) gcmOverhead) then Err 21 else
      match gcm_open key (e_params eci) (e_content eci) with Some p => Ok p | None => Err 22 end
    | DESCBC =>
      p7_cbc_decrypt desBlockSize (cbc_dec key (e_params eci)) (e_params eci) (e_content eci)
    end.

  (* func (p7 PKCS7 ptr) Decrypt(cert, pk) / DecryptSM2(cert, pk, mode) on parsed enveloped data *)
  Definition Decrypt (env : envelopedData) (c : Cert) (sk : SK) : outcome (list byte) :=
    match selectRecipientForCertificate (ed_recipients env) c with
    | None => Err 23
    | Some recipient =>
      do contentKey <- unwrap sk (ri_encryptedKey recipient);
      eci_decrypt (ed_eci env) contentKey
    end.
End P7.
