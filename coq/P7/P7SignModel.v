(* The signing side of /repo/x509/pkcs7.go (C17): NewSignedData, attributes.Add / ForMarshaling, AddSigner,
   signAttributes, cert2issuerAndSerial, and Finish followed by Parse at the level of the decoded structures
   (content, certificates, signer infos: what P7Model.Verify works on).  The DER codec of the structures, the
   hashes and the signature primitives are Section variables.  The OIDs and hash names AddSigner chooses for an
   RSA and for an SM2 key are read from the source by the translator (Gen/PKCS7Tables.v: gen_addSigner_default, gen_addSigner_sm2 and their hash names).
   No proofs in this file. *)
From Coq Require Import List NArith ZArith Bool String.
From GmsmVerif Require Import Lib.Outcome Dec.Access Dec.DecSpec Dec.ByteModels Gen.PKCS7Tables P7.P7Model.
Import ListNotations.
Local Open Scope nat_scope.

(* the type switch on pkey: *sm2.PrivateKey, *rsa.PrivateKey, anything else *)
Inductive keyKind := KeySM2 | KeyRSA | KeyOther.

(* bytes.Compare(a, b) < 0 *)
Fixpoint bytes_ltb (a b : list byte) : bool :=
  match a, b with
  | _, [] => false
  | [], _ :: _ => true
  | x :: a', y :: b' => if (x <? y)%N then true else if (y <? x)%N then false else bytes_ltb a' b'
  end.

Section P7Sign.
  Variable Cert : Type.
  Variable cert_serial : Cert -> Z.
  Variable cert_rawIssuer : Cert -> list byte.
  Variable hash_sum : string -> list byte -> list byte.
  Variable marshalAttributes : list attribute -> outcome (list byte).   (* DER of SET OF attributes *)
  Variable marshal_octets : list byte -> list byte.                     (* asn1.Marshal(md) for the []byte md *)
  Variable marshal_oid : oid -> list byte.                              (* asn1.Marshal(ContentType) *)
  Variable enc_attr : attribute -> list byte.                           (* asn1.Marshal(attr): the sort key *)
  Variable SK Rnd : Type.
  Variable key_kind : SK -> keyKind.
  (* signAttributes behind marshalAttributes: rsa.SignPKCS1v15(SHA1(attrBytes)) / priv.Sign(rand, attrBytes) *)
  Variable sign : SK -> list byte -> Rnd -> outcome (list byte).

  (* sort.Sort(sortables): ascending by bytes.Compare of the encodings (insertion sort: with distinct keys every
     sorting algorithm returns the same list) *)
  Fixpoint insert_attr (x : attribute) (l : list attribute) : list attribute :=
    match l with
    | [] => [x]
    | y :: r => if bytes_ltb (enc_attr x) (enc_attr y) then x :: l else y :: insert_attr x r
    end.
  Definition sort_attrs (l : list attribute) : list attribute := fold_right insert_attr [] l.

  (* the SignedData under construction: data, certs, sd.SignerInfos *)
  Record builder := mkBuilder { b_data : list byte; b_certs : list Cert; b_signers : list signerInfo }.

  (* func NewSignedData(data) *)
  Definition NewSignedData (data : list byte) : builder := mkBuilder data [] [].

  (* (digestOID, signatureOID, hash of the content) as AddSigner picks them *)
  Definition signer_algs (k : keyKind) : oid * oid * string :=
    match k with
    | KeySM2 => (fst gen_addSigner_sm2, snd gen_addSigner_sm2, gen_addSigner_sm2_hash)
    | _ => (fst gen_addSigner_default, snd gen_addSigner_default, gen_addSigner_default_hash)
    end.

  (* one call: the certificate, the key, config.ExtraSignedAttributes (already attribute{Type, SET value}),
     the encoded signing time, the randomness of the signature *)
  Record signerSpec := mkSpec { sp_cert : Cert; sp_key : SK; sp_extra : list attribute; sp_time : list byte; sp_rnd : Rnd }.

  (* the signerInfo AddSigner builds (it does not depend on earlier signers) *)
  Definition signer_of (data : list byte) (sp : signerSpec) : outcome signerInfo :=
    let '(digestOID, signatureOID, h) := signer_algs (key_kind (sp_key sp)) in
    let md := hash_sum h data in
    let attrs := [mkAttr gen_oid_AttributeContentType (marshal_oid gen_oid_Data);
                  mkAttr gen_oid_AttributeMessageDigest (marshal_octets md);
                  mkAttr gen_oid_AttributeSigningTime (sp_time sp)] ++ sp_extra sp in
    let finalAttrs := sort_attrs attrs in
    do attrBytes <- marshalAttributes finalAttrs;
    do signature <- (match key_kind (sp_key sp) with
                     | KeyOther => Err 18                       (* ErrPKCS7UnsupportedAlgorithm *)
                     | _ => sign (sp_key sp) attrBytes (sp_rnd sp)
                     end);
    Ok (mkSigner (cert2issuerAndSerial Cert cert_serial cert_rawIssuer (sp_cert sp)) digestOID finalAttrs signatureOID signature).

  (* func (sd SignedData ptr) AddSigner(cert, pkey, config) *)
  Definition AddSigner (sd : builder) (sp : signerSpec) : outcome builder :=
    do s <- signer_of (b_data sd) sp;
    Ok (mkBuilder (b_data sd) (b_certs sd ++ [sp_cert sp]) (b_signers sd ++ [s])).

  Fixpoint add_signers (sd : builder) (l : list signerSpec) : outcome builder :=
    match l with
    | [] => Ok sd
    | sp :: r => do sd' <- AddSigner sd sp; add_signers sd' r
    end.

  (* Finish, then Parse: the content, the certificates and the signer infos come back (codec of the structures) *)
  Definition finish_parse (sd : builder) : pkcs7 Cert := mkP7 Cert (b_data sd) (b_certs sd) (b_signers sd).
End P7Sign.

(* ---------- the DER codecs behind attributes.ForMarshaling, concretely (for the correspondence run) ----------
   asn1.Marshal of an ObjectIdentifier, of a []byte, and of attribute{Type, Value: RawValue{Tag 17, compound, Bytes}} *)
Fixpoint b128_hi (fuel : nat) (n : N) : list byte :=
  match fuel with
  | O => []
  | S f => if (n =? 0)%N then [] else b128_hi f (n / 128) ++ [(128 + n mod 128)%N]
  end.
Definition b128 (n : N) : list byte := b128_hi 10 (n / 128) ++ [(n mod 128)%N].
Definition der_tlv (tag : N) (c : list byte) : list byte := tag :: der_length_octets (N.of_nat (List.length c)) ++ c.
Definition der_oid_content (o : oid) : list byte :=
  match o with a :: b :: r => b128 (40 * a + b) ++ List.concat (map b128 r) | _ => [] end.
Definition der_marshal_oid (o : oid) : list byte := der_tlv 6 (der_oid_content o).
Definition der_marshal_octets (d : list byte) : list byte := der_tlv 4 d.
Definition der_enc_attr (a : attribute) : list byte := der_tlv 48 (der_marshal_oid (at_type a) ++ der_tlv 49 (at_value a)).

(* the signer info AddSigner builds for an SM2 / RSA key, given the two digests of the content, the encoded signing
   time and the extra attributes; signature and the DER of the attribute set left empty *)
Definition sgn_model (isSM2 : bool) (sha1 sm3 timeValue : list byte) (extra : list attribute) : outcome signerInfo :=
  signer_of unit (fun _ => 0%Z) (fun _ => []) (fun h _ => if String.eqb h "SM3" then sm3 else sha1) (fun _ => Ok [])
            der_marshal_octets der_marshal_oid der_enc_attr bool unit (fun k => if k then KeySM2 else KeyRSA)
            (fun _ _ _ => Ok []) [] (mkSpec unit bool unit tt isSM2 extra timeValue tt).
