(* The SM2 key transport of PKCS7EncryptSM2 / DecryptSM2 (x509/pkcs7.go encryptKeySM2 -> sm2.Encrypt,
   DecryptSM2 -> sm2.Decrypt) as an instance of the abstract wrap / unwrap of P7/P7Model.v, with the SM2
   model of the C02 family (SM2/SM2Model.v).  A recipient certificate is used through the private scalar d
   its public key [d]G belongs to.  No proofs in this file. *)
From Coq Require Import List NArith ZArith Bool Arith.
From GmsmVerif Require Import Lib.Outcome EC.SM2Curve SM2.SM2Model.
Import ListNotations.

(* sm2.Encrypt(pub, key, rand.Reader, mode) for the certificate's public key; rho is the random stream.
   The guards are the conditions under which the call is a genuine SM2 encryption: a private scalar in
   1..n-1 and enough fuel for the retry loop over the random stream. *)
Definition sm2_wrap (fuel : nat) (mode : Z) (d : Z) (key rho : list N) : outcome (list N) :=
  if ((1 <=? d)%Z && (d <? sm2_n)%Z && Nat.ltb (length rho / 40) fuel)%bool
  then omap fst (Encrypt fuel (ScalarBaseMult d) key rho mode)
  else Err 30.

(* sm2.Decrypt(priv, encryptedKey, mode) *)
Definition sm2_unwrap (mode : Z) (d : Z) (encryptedKey : list N) : outcome (list N) :=
  Decrypt (key_of d) encryptedKey mode.

(* ---- SM2 as the signature scheme of AddSigner / Verify ------------------------------------------------------
   signAttributes for an sm2.PrivateKey: priv.Sign(rand.Reader, attrBytes, nil): the DER signature; the private
   key is the scalar d.  cert.CheckSignature(SM2WithSM3, signed, sig): pub.Verify(signed, sig) for the certificate's
   public key [d]G (cert_d: the scalar it belongs to). *)
Definition sm2_p7_sign (fuel : nat) (d : Z) (attrBytes rho : list N) : outcome (list N) :=
  omap fst (Sign fuel (key_of d) rho attrBytes).

Definition sm2_p7_check {Cert : Type} (cert_d : Cert -> Z) (c : Cert) (algo : String.string) (signed sig : list N) : bool :=
  PublicKey_Verify (ScalarBaseMult (cert_d c)) signed sig.
