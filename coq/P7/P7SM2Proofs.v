(* sm2_unwrap inverts sm2_wrap: C02's round trip with the SM2 facts discharged (Prime/SM2FactsProof.v). *)
From Coq Require Import List NArith ZArith Bool Arith Lia.
From GmsmVerif Require Import Lib.Outcome EC.SM2Curve SM2.SM2Model Prime.SM2FactsProof P7.P7SM2Model.
From GmsmVerif Require Props.C02.
Import ListNotations.

Lemma sm2_unwrap_wrap fuel mode d key rho e :
  sm2_wrap fuel mode d key rho = Ok e -> sm2_unwrap mode d e = Ok key.
Proof.
  unfold sm2_wrap, sm2_unwrap.
  destruct (1 <=? d)%Z eqn:E1; cbn [andb]; [|discriminate].
  destruct (d <? sm2_n)%Z eqn:E2; cbn [andb]; [|discriminate].
  destruct (Nat.ltb_spec (length rho / 40) fuel) as [Hf|]; [|discriminate].
  destruct (Encrypt fuel (ScalarBaseMult d) key rho mode) as [[c rho']| | |] eqn:EE; cbn [omap obind fst]; try discriminate.
  intros [= <-].
  apply (C02.C02_decrypt_encrypt SM2Facts_proved fuel d key rho mode c rho'); [lia|exact Hf|exact EE].
Qed.
