(* sm2_unwrap inverts sm2_wrap: C02's round trip with the SM2 facts discharged (Prime/SM2FactsProof.v). *)
From Coq Require Import List NArith ZArith Bool Arith Lia.
From GmsmVerif Require Import Lib.Outcome EC.SM2Curve SM2.SM2Model Prime.SM2FactsProof P7.P7SM2Model.
From GmsmVerif Require Props.C02 Props.C01.
Import ListNotations.

Lemma sm2_unwrap_wrap fuel mode d key rho e :
  sm2_wrap fuel mode d key rho = Ok e -> sm2_unwrap mode d e = Ok key.
Proof.
  unfold sm2_wrap, sm2_unwrap.
  destruct (1 <=? d)%Z eqn:E1; cbn [andb]; [|discriminate].
  destruct (d <? sm2_n)%Z eqn:E2; cbn [andb]; [|discriminate].
  destruct (Nat.ltb_spec (length rho / 40) fuel) as [Hf|]; [|discriminate].
  destruct (Encrypt fuel (ScalarBaseMult d) key rho mode) as [[c rho']| | |] eqn:EE; cbn [omap obind fst]; try discriminate.
  intros [= <-].
  apply (C02.C02_decrypt_encrypt SM2Facts_proved fuel d key rho mode c rho'); [lia|exact Hf|exact EE].
Qed.

(* PublicKey.Verify accepts what PrivateKey.Sign returns: C01's theorem with the SM2 facts discharged, cited, not
   evaluated *)
Lemma sm2_p7_sign_correct (Cert : Type) (cert_d : Cert -> Z) fuel c d m r s algo :
  d = cert_d c -> (1 <= d <= sm2_n - 2)%Z ->
  sm2_p7_sign fuel d m r = Ok s -> sm2_p7_check cert_d c algo m s = true.
Proof.
  intros -> Hd. unfold sm2_p7_sign, sm2_p7_check.
  destruct (Sign fuel (key_of (cert_d c)) r m) as [[sig rho']| | |] eqn:E; cbn [omap obind fst]; try discriminate.
  intros [= <-].
  exact (C01.C01_Sign_then_PublicKey_Verify P_prime_holds Add_assoc_holds G_order_divides_n_holds G_multiples_finite_holds
           N_prime_holds fuel (cert_d c) r m sig rho' Hd E).
Qed.
