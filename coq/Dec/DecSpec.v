(* Specifications the byte-level decoder models are proved against (written from the property text
   and the formats, never from the Go code). *)
From Coq Require Import List NArith Arith Bool.
From GmsmVerif Require Import Lib.Outcome.
Import ListNotations.
Local Open Scope nat_scope.

(* PKCS#7 / CMS content padding (RFC 5652 6.3) for block length bl, 1 <= bl <= 255:
   k = bl - (|m| mod bl) bytes of value k are appended *)
Definition p7_pad_spec (bl : nat) (m : list N) : list N :=
  m ++ repeat (N.of_nat (bl - length m mod bl)) (bl - length m mod bl).

(* d is m followed by one valid pad, and fills whole blocks *)
Definition p7_padded (bl : nat) (d m : list N) : Prop :=
  exists k, 1 <= k <= bl /\ d = m ++ repeat (N.of_nat k) k /\ length d mod bl = 0 /\ d <> [].

(* DER (X.690 8.1.3, 10.1): minimal definite length octets of a length *)
Definition der_length_octets (n : N) : list N :=
  if (n <? 128)%N then [n]
  else if (n <? 256)%N then [129; n]%N
  else if (n <? 65536)%N then [130; n / 256; n mod 256]%N
  else if (n <? 16777216)%N then [131; n / 65536; (n / 256) mod 256; n mod 256]%N
  else [132; n / 16777216; (n / 65536) mod 256; (n / 256) mod 256; n mod 256]%N.

(* DER values (X.690 10): definite minimal lengths, low-tag-number identifiers (one octet), primitive or
   constructed, properly nested.  [denc] is their encoding. *)
Inductive dobj : Type :=
| DPrim (tag : N) (content : list N)
| DCons (tag : N) (children : list dobj).

Fixpoint denc (o : dobj) : list N :=
  match o with
  | DPrim t c => t :: der_length_octets (N.of_nat (length c)) ++ c
  | DCons t cs => let inner := concat (map denc cs) in
                  t :: der_length_octets (N.of_nat (length inner)) ++ inner
  end.

(* well-formed, nesting at most d constructed levels, every length below 2^31 *)
Fixpoint dwf (d : nat) (o : dobj) : Prop :=
  match o with
  | DPrim t c =>
      (t < 256)%N /\ N.land t 31 <> 31%N /\ N.land t 32 = 0%N /\
      Forall (fun x => (x < 256)%N) c /\ (N.of_nat (length c) < 2147483648)%N
  | DCons t cs =>
      (t < 256)%N /\ N.land t 31 <> 31%N /\ N.land t 32 = 32%N /\
      (N.of_nat (length (concat (map denc cs))) < 2147483648)%N /\
      match d with
      | O => False
      | S d' => (fix all (l : list dobj) : Prop := match l with [] => True | x :: r => dwf d' x /\ all r end) cs
      end
  end.
