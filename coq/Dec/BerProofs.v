(* Proofs about the model of x509/ber.go: never a panic, termination within the depth cap,
   a linear bound on the number of readObject calls. *)
From Coq Require Import List NArith Arith Bool Lia ZifyN ZifyNat ZifyBool.
From GmsmVerif Require Import Lib.Outcome Dec.Access Dec.AccessProofs Dec.BerModel.
Import ListNotations.
Local Open Scope nat_scope.

(* ---------- budgets ------------------------------------------------------------------------- *)
Definition bud_ge (b : budget) (k : nat) : Prop :=
  match b with None => True | Some n => (N.of_nat k <= n)%N end.

Lemma bud_ge_mono b k k' : k' <= k -> bud_ge b k -> bud_ge b k'.
Proof. destruct b; cbn; [lia|auto]. Qed.

Lemma tick_spec bud :
  match tick bud with
  | Ok b1 => forall k, bud_ge bud (S k) -> bud_ge b1 k
  | Hang => forall k, ~ bud_ge bud (S k)
  | _ => False
  end.
Proof.
  destruct bud as [[|p]|]; cbn [tick bud_ge]; intros; try lia; auto.
Qed.

(* ---------- header -------------------------------------------------------------------------- *)
Lemma tag_loop_spec fuel : forall ber off,
  match tag_loop fuel ber off with
  | Ok o' => off <= o'
  | Err _ => True
  | Panic => False
  | Hang => fuel + off < length ber
  end.
Proof.
  induction fuel as [|f IH]; intros ber off; cbn [tag_loop];
    (destruct (Nat.ltb_spec off (length ber)) as [H|H]; [|lia]);
    destruct (at_ok ber off H) as [x ->]; cbn [obind];
    destruct (128 <=? x)%N; try lia.
  specialize (IH ber (S off)). destruct (tag_loop f ber (S off)); auto; lia.
Qed.

Lemma len_loop_spec n : forall ber off acc,
  off + n <= length ber -> exists len, len_loop n ber off acc = Ok (len, off + n).
Proof.
  induction n as [|n IH]; intros ber off acc H; cbn [len_loop].
  - exists acc. rewrite Nat.add_0_r. reflexivity.
  - destruct (at_ok ber off ltac:(lia)) as [x ->]; cbn [obind].
    destruct (IH ber (S off) (acc * 256 + x)%N ltac:(lia)) as [len ->].
    exists len. f_equal. f_equal. lia.
Qed.

Lemma read_tag_spec ber o :
  match read_tag ber o with
  | Ok (_, te) => o < te <= length ber
  | Err _ => True
  | Panic | Hang => False
  end.
Proof.
  unfold read_tag.
  destruct (Nat.leb_spec (length ber) o) as [|Ho]; [exact I|].
  destruct (at_ok ber o Ho) as [b ->]; cbn [obind].
  destruct (N.land b 31 =? 31)%N; [|lia].
  pose proof (tag_loop_spec (length ber) ber (S o)) as T.
  destruct (tag_loop (length ber) ber (S o)) as [off| | |]; cbn [obind]; try exact I; try lia.
  destruct (Nat.leb_spec (length ber) off) as [|Hoff]; [exact I|].
  destruct (at_ok ber off Hoff) as [y ->]; cbn [obind]. lia.
Qed.

Lemma land127_pos l : (l < 256)%N -> (128 <? l)%N = true -> N.land l 127 <> 0%N.
Proof.
  intros Hl H.
  pose proof (byte_sweep (fun l => negb (128 <? l)%N || negb (N.land l 127 =? 0)%N) ltac:(vm_compute; reflexivity) l Hl) as S.
  cbv beta in S. rewrite H in S. cbn [negb orb] in S.
  apply negb_true_iff, N.eqb_neq in S. exact S.
Qed.

Lemma read_length_spec ber o :
  bytes_ok ber ->
  match read_length ber o with
  | Ok (len, off, ind) => o < off <= length ber /\ (ind = true -> len = 0%N)
  | Err _ => True
  | Panic | Hang => False
  end.
Proof.
  intros Hb. unfold read_length.
  destruct (Nat.leb_spec (length ber) o) as [|Ho]; [exact I|].
  destruct (at_ok ber o Ho) as [l El]; rewrite El; cbn [obind].
  pose proof (at_byte _ _ _ Hb El) as Hl.
  destruct (128 <? l)%N eqn:E128.
  - pose proof (land127_pos l Hl E128) as Hpos.
    set (nb := N.to_nat (N.land l 127)) in *.
    assert (Hnb0 : nb <> 0) by (unfold nb; lia).
    destruct (Nat.ltb_spec 4 nb) as [|H4]; [exact I|].
    destruct (Nat.ltb_spec (length ber - S o) nb) as [|Hnb]; [exact I|].
    destruct (at_ok ber (S o) ltac:(lia)) as [f ->]; cbn [obind].
    destruct (Nat.eqb nb 4 && (127 <? f)%N)%bool; [exact I|].
    destruct (f =? 0)%N; [exact I|].
    destruct (len_loop_spec nb ber (S o) 0%N ltac:(lia)) as [len ->]; cbn [obind].
    split; [lia|discriminate].
  - destruct (l =? 128)%N; (split; [lia|]); [reflexivity|discriminate].
Qed.

Lemma read_header_spec ber o :
  bytes_ok ber ->
  match read_header ber o with
  | Ok h => h_tagStart h = o /\ o < h_tagEnd h /\ h_tagEnd h < h_offset h /\ h_offset h <= length ber /\
            (h_indefinite h = true -> h_len h = 0%N)
  | Err _ => True
  | Panic | Hang => False
  end.
Proof.
  intros Hb. unfold read_header.
  pose proof (read_tag_spec ber o) as T.
  destruct (read_tag ber o) as [[b te]| | |]; cbn [obind]; auto.
  pose proof (read_length_spec ber te Hb) as L.
  destruct (read_length ber te) as [[[len off] ind]| | |]; cbn [obind]; auto.
  cbn [h_tagStart h_tagEnd h_offset h_indefinite h_len]. intuition lia.
Qed.

(* ---------- the child loop over an abstract reader ---------------------------------------------- *)
Section ChildrenSpec.
  Variable rd : budget -> nat -> outcome (obj * nat * budget).
  Variable ber : list N.
  Variable contentEnd : nat.
  Variable indefinite : bool.
  Variable F : Prop.            (* "the fuel of the child reader suffices" *)
  Variable Q : obj -> Prop.
  Let L := length ber.
  Hypothesis Hrd : forall bud o,
    match rd bud o with
    | Ok (s, e, bud') => o + 2 <= e <= L /\ (bud_ge bud (L - o + 1) -> bud_ge bud' (L - e + 1)) /\ Q s
    | Err _ => True
    | Panic => False
    | Hang => ~ (F /\ bud_ge bud (L - o + 1))
    end.

  Lemma children_loop_spec n : forall off acc bud,
    off <= L -> (indefinite = false -> off <= contentEnd) -> Forall Q acc ->
    match children_loop rd ber contentEnd indefinite n off acc bud with
    | Ok (subs, off', bud') =>
        off <= off' <= L /\ (indefinite = false -> off' <= contentEnd) /\
        (indefinite = true -> off' + 2 <= L) /\
        (bud_ge bud (L - off + 1) -> bud_ge bud' (L - off' + 1)) /\ Forall Q subs
    | Err _ => True
    | Panic => False
    | Hang => ~ (n + off > L /\ F /\ bud_ge bud (L - off + 1))
    end.
  Proof.
    induction n as [|n IH]; intros off acc bud HoL Hdef Hacc; cbn [children_loop];
      destruct (Nat.ltb off contentEnd || indefinite)%bool eqn:C.
    - lia.
    - repeat split; auto; try lia;
        try (intros ->; rewrite orb_true_r in C; discriminate); try (apply Forall_rev; exact Hacc).
    - pose proof (Hrd bud off) as R.
      destruct (rd bud off) as [[[s e] bud']| | |]; cbn [obind]; auto.
      2:{ intros (_ & HF & HB). apply R. split; assumption. }
      destruct R as (He & HB & HQ).
      destruct (negb indefinite && Nat.ltb contentEnd e)%bool eqn:X; [exact I|].
      destruct indefinite eqn:Ei.
      + unfold isIndefiniteTermination. fold L.
        destruct (Nat.ltb_spec (L - e) 2) as [|H2]; [exact I|].
        destruct (at_ok ber e ltac:(unfold L in *; lia)) as [x ->]; cbn [obind].
        assert (Hcont :
          match children_loop rd ber contentEnd true n e (s :: acc) bud' with
          | Ok (subs, off', bud'0) =>
              off <= off' <= L /\ (true = false -> off' <= contentEnd) /\ (true = true -> off' + 2 <= L) /\
              (bud_ge bud (L - off + 1) -> bud_ge bud'0 (L - off' + 1)) /\ Forall Q subs
          | Err _ => True
          | Panic => False
          | Hang => ~ (S n + off > L /\ F /\ bud_ge bud (L - off + 1))
          end).
        { specialize (IH e (s :: acc) bud' ltac:(lia) ltac:(discriminate) ltac:(constructor; assumption)).
          destruct (children_loop rd ber contentEnd true n e (s :: acc) bud') as [[[subs off'] b2]| | |]; auto.
          - destruct IH as (I1 & I2 & I3 & I4 & I5). repeat split; auto; try lia.
          - intros (G1 & G2 & G3). apply IH. repeat split; auto; lia. }
        destruct (x =? 0)%N; [|exact Hcont].
        destruct (at_ok ber (e + 1) ltac:(unfold L in *; lia)) as [y ->]; cbn [obind].
        destruct (y =? 0)%N; [|exact Hcont].
        repeat split; auto; try lia; try discriminate.
        apply Forall_rev. constructor; assumption.
      + cbn [negb andb] in X. apply Nat.ltb_ge in X.
        specialize (IH e (s :: acc) bud' ltac:(lia) ltac:(intros _; exact X) ltac:(constructor; assumption)).
        destruct (children_loop rd ber contentEnd false n e (s :: acc) bud') as [[[subs off'] b2]| | |]; auto.
        * destruct IH as (I1 & I2 & I3 & I4 & I5). repeat split; auto; try lia.
        * intros (G1 & G2 & G3). apply IH. repeat split; auto; lia.
    - repeat split; auto; try lia;
        try (intros ->; rewrite orb_true_r in C; discriminate); try (apply Forall_rev; exact Hacc).
  Qed.
End ChildrenSpec.

Lemma list_max_map_le {A} (f : A -> nat) (l : list A) m :
  Forall (fun x => f x <= m) l -> list_max (map f l) <= m.
Proof.
  induction 1 as [|x l Hx Hl IH]; cbn [map list_max fold_right]; [lia|].
  change (fold_right Nat.max 0 (map f l)) with (list_max (map f l)). lia.
Qed.

(* ---------- readObject ------------------------------------------------------------------------- *)
Lemma readObject_spec fuel : forall bud ber o depth,
  bytes_ok ber ->
  match readObject fuel bud ber o depth with
  | Ok (ob, e, bud') =>
      o + 2 <= e <= length ber /\
      (bud_ge bud (length ber - o + 1) -> bud_ge bud' (length ber - e + 1)) /\
      obj_depth ob + depth <= maxBERDepth + 1
  | Err _ => True
  | Panic => False
  | Hang => ~ (fuel >= 1 /\ fuel + depth >= maxBERDepth + 2 /\ bud_ge bud (length ber - o + 1))
  end.
Proof.
  induction fuel as [|fuel IH]; intros bud ber o depth Hb; cbn [readObject]; [lia|].
  set (L := length ber) in *.
  pose proof (tick_spec bud) as T.
  destruct (tick bud) as [bud1| | |]; cbn [obind]; try contradiction.
  2:{ intros (_ & _ & G). apply (T (L - o)). rewrite Nat.add_1_r in G. exact G. }
  destruct (Nat.ltb_spec maxBERDepth depth) as [|Hd]; [exact I|].
  pose proof (read_header_spec ber o Hb) as Hh.
  destruct (read_header ber o) as [h| | |]; cbn [obind]; auto.
  destruct Hh as (Hts & Hte & Hoff & HoffL & Hind). fold L in HoffL.
  destruct (N.of_nat (L - h_offset h) <? h_len h)%N eqn:E7; [exact I|].
  apply N.ltb_ge in E7.
  set (contentEnd := h_offset h + N.to_nat (h_len h)).
  assert (HcE : h_offset h <= contentEnd <= L) by (unfold contentEnd; lia).
  destruct (h_indefinite h && (h_kind h =? 0)%N)%bool eqn:E8; [exact I|].
  assert (Tk : bud_ge bud (L - o + 1) -> bud_ge bud1 (L - o)).
  { intros G. apply T. rewrite Nat.add_1_r in G. exact G. }
  destruct (h_kind h =? 0)%N eqn:Ek.
  - rewrite (slice_ok ber (h_tagStart h) (h_tagEnd h)) by (fold L; lia). cbn [obind].
    rewrite (slice_ok ber (h_offset h) contentEnd) by (fold L; lia). cbn [obind].
    split; [lia|]. split; [|cbn [obj_depth]; lia].
    intros G. eapply bud_ge_mono; [|apply Tk; exact G]. lia.
  - pose proof (children_loop_spec
                  (fun b o0 => readObject fuel b ber o0 (S depth)) ber contentEnd (h_indefinite h)
                  (fuel >= 1 /\ fuel + S depth >= maxBERDepth + 2)
                  (fun s => obj_depth s + S depth <= maxBERDepth + 1)) as CL.
    cbv beta in CL. fold L in CL.
    specialize (CL ltac:(intros b0 o0; specialize (IH b0 ber o0 (S depth) Hb); fold L in IH;
                         destruct (readObject fuel b0 ber o0 (S depth)) as [[[s e] b2]| | |]; auto;
                         intros ((G1 & G2) & G3); apply IH; auto)).
    specialize (CL (S L) (h_offset h) [] bud1 ltac:(lia) ltac:(intros _; lia) ltac:(constructor)).
    destruct (children_loop _ ber contentEnd (h_indefinite h) (S L) (h_offset h) [] bud1)
      as [[[subs off'] bud2]| | |]; cbn [obind]; auto.
    + destruct CL as (C1 & C2 & C3 & C4 & C5).
      rewrite (slice_ok ber (h_tagStart h) (h_tagEnd h)) by (fold L; lia). cbn [obind].
      split; [destruct (h_indefinite h); [specialize (C3 eq_refl)|]; lia|].
      split.
      * intros G. specialize (C4 ltac:(eapply bud_ge_mono; [|apply Tk; exact G]; lia)).
        eapply bud_ge_mono; [|exact C4].
        destruct (h_indefinite h); [lia|specialize (C2 eq_refl); lia].
      * cbn [obj_depth].
        pose proof (list_max_map_le obj_depth subs (maxBERDepth - depth)) as M.
        specialize (M ltac:(eapply Forall_impl; [|exact C5]; cbv beta; intros; lia)). lia.
    + intros (G1 & G2 & G3). apply CL. split; [lia|]. split; [lia|].
      eapply bud_ge_mono; [|apply Tk; exact G3]. lia.
Qed.

(* ---------- ber2der ---------------------------------------------------------------------------- *)
Lemma ber2der_with_spec fuel bud b :
  bytes_ok b ->
  match ber2der_with fuel bud b with
  | Ok _ | Err _ => True
  | Panic => False
  | Hang => ~ (fuel >= maxBERDepth + 2 /\ bud_ge bud (length b + 1))
  end.
Proof.
  intros Hb. unfold ber2der_with. destruct b as [|x r] eqn:Eb; [exact I|]. rewrite <- Eb in *.
  pose proof (readObject_spec fuel bud b 0 0 Hb) as R.
  destruct (readObject fuel bud b 0 0) as [[[o e] b2]| | |]; cbn [obind]; auto.
  intros (G1 & G2). apply R. rewrite Nat.sub_0_r. repeat split; try lia. exact G2.
Qed.

Lemma ber2der_never_panics fuel bud b : bytes_ok b -> ber2der_with fuel bud b <> Panic.
Proof. intros Hb E. pose proof (ber2der_with_spec fuel bud b Hb) as S. rewrite E in S. exact S. Qed.

Lemma ber2der_total b : bytes_ok b -> no_crash (ber2der b).
Proof.
  intros Hb. pose proof (ber2der_with_spec ber_fuel None b Hb) as S. unfold ber2der.
  destruct (ber2der_with ber_fuel None b); cbn [no_crash]; auto.
  apply S. unfold ber_fuel. split; [lia|exact I].
Qed.

Lemma ber2der_linear b n :
  bytes_ok b -> (N.of_nat (length b) + 1 <= n)%N -> no_crash (ber2der_budget n b).
Proof.
  intros Hb Hn. pose proof (ber2der_with_spec ber_fuel (Some n) b Hb) as S. unfold ber2der_budget.
  destruct (ber2der_with ber_fuel (Some n) b); cbn [no_crash]; auto.
  apply S. unfold ber_fuel. split; [lia|]. cbn [bud_ge]. lia.
Qed.

Lemma readObject_depth b o e bud' :
  bytes_ok b -> readObject ber_fuel None b 0 0 = Ok (o, e, bud') -> obj_depth o <= maxBERDepth + 1.
Proof.
  intros Hb E. pose proof (readObject_spec ber_fuel None b 0 0 Hb) as R. rewrite E in R.
  destruct R as (_ & _ & R). lia.
Qed.

(* the bytes consumed: a successful parse ends inside the input and behind a two-byte header *)
Lemma readObject_extent b o e bud' :
  bytes_ok b -> readObject ber_fuel None b 0 0 = Ok (o, e, bud') -> 2 <= e <= length b.
Proof.
  intros Hb E. pose proof (readObject_spec ber_fuel None b 0 0 Hb) as R. rewrite E in R.
  destruct R as (R & _). lia.
Qed.
