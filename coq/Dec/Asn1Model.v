(* Model of the DER reader of encoding/asn1 (Go 1.23: parseBase128Int, parseTagAndLength, invalidLength,
   checkInteger, parseBigInt, parseBitString, parseObjectIdentifier, setDefaultValue, parseField,
   UnmarshalWithParams) for the Go types gmsm's structures are made of: big.Int pointers, []byte, asn1.BitString,
   asn1.ObjectIdentifier, asn1.RawValue and structs of these with the field parameters optional,
   explicit, tag:n, set.  Function by function, offsets and checked accesses as in the Go code
   (Dec/Access.v: an index or slice expression out of range is Panic).  The reflection-driven dispatch of
   parseField becomes recursion on a schema ([kind]); there is no fuel: every loop is bounded by its own
   test (5 base-128 digits, numBytes length octets, the bytes of an OID).  A counter of
   parseTagAndLength calls is threaded through (the cost statement of C18).  No proofs in this file.

   Not covered (never reached for the schemas used here): SEQUENCE OF / SET OF slices, strings, times,
   bool, int, enumerated, flag, the ANY interface, application / private classes, default values.
   Error classes: 1 truncated, 2 syntax (indefinite, non-minimal ...), 3 structural (tags do not match,
   length too large ...), 4 integer not minimal / empty, 5 bit string, 6 OID.                        *)
From Coq Require Import List NArith ZArith Bool Arith.
From GmsmVerif Require Import Lib.Outcome Dec.Access.
Import ListNotations.
Local Open Scope nat_scope.

Record tagAndLength := mkTL { t_class : N; t_tag : N; t_length : N; t_isCompound : bool }.

Definition ClassUniversal : N := 0.
Definition ClassContextSpecific : N := 2.
Definition TagInteger : N := 2.
Definition TagBitString : N := 3.
Definition TagOctetString : N := 4.
Definition TagOID : N := 6.
Definition TagSequence : N := 16.
Definition TagSet : N := 17.

(* func parseBase128Int(bytes, initOffset) (ret, offset, err); [left] = 5 - shifted *)
Fixpoint parseBase128Int_go (left : nat) (first : bool) (bytes : list byte) (offset : nat) (ret64 : N)
  : outcome (N * nat) :=
  if Nat.ltb offset (length bytes) then
    match left with
    | O => Err 3                                             (* shifted == 5: too large *)
    | S left' =>
      do b <- at_ bytes offset;
      if (first && (b =? 128)%N)%bool then Err 2 else        (* not minimally encoded *)
      let ret64 := (ret64 * 128 + N.land b 127)%N in
      if (N.land b 128 =? 0)%N
      then (if (2147483647 <? ret64)%N then Err 3 else Ok (ret64, S offset))
      else parseBase128Int_go left' false bytes (S offset) ret64
    end
  else Err 1.
Definition parseBase128Int (bytes : list byte) (initOffset : nat) : outcome (N * nat) :=
  parseBase128Int_go 5 true bytes initOffset 0%N.

(* the loop "for i := 0; i < numBytes; i++" of parseTagAndLength *)
Fixpoint length_loop (numBytes : nat) (bytes : list byte) (offset : nat) (len : N) : outcome (N * nat) :=
  match numBytes with
  | O => Ok (len, offset)
  | S n =>
    if Nat.leb (length bytes) offset then Err 1 else
    do b <- at_ bytes offset;
    if (8388608 <=? len)%N then Err 3 else                   (* length too large *)
    let len := (len * 256 + b)%N in
    if (len =? 0)%N then Err 3 else                          (* superfluous leading zeros *)
    length_loop n bytes (S offset) len
  end.

(* func parseTagAndLength(bytes, initOffset) (ret tagAndLength, offset int, err error) *)
Definition parseTagAndLength (bytes : list byte) (initOffset : nat) : outcome (tagAndLength * nat) :=
  if Nat.leb (length bytes) initOffset then Err 1 else
  do b <- at_ bytes initOffset;
  let offset := S initOffset in
  let class := (b / 64)%N in
  let isCompound := (N.land b 32 =? 32)%N in
  do '(tag, offset) <-
    (if (N.land b 31 =? 31)%N then
       do '(tag, offset) <- parseBase128Int bytes offset;
       if (tag <? 31)%N then Err 2 else Ok (tag, offset)     (* non-minimal tag *)
     else Ok (N.land b 31, offset));
  if Nat.leb (length bytes) offset then Err 1 else
  do b <- at_ bytes offset;
  let offset := S offset in
  if (N.land b 128 =? 0)%N then Ok (mkTL class tag (N.land b 127) isCompound, offset)
  else
    let numBytes := N.to_nat (N.land b 127) in
    if Nat.eqb numBytes 0 then Err 2 else                    (* indefinite length *)
    do '(len, offset) <- length_loop numBytes bytes offset 0%N;
    if (len <? 128)%N then Err 3 else                        (* non-minimal length *)
    Ok (mkTL class tag len isCompound, offset).

(* func invalidLength(offset, length, sliceLength) (64-bit int: the sum does not wrap for length < 2^31) *)
Definition invalidLength (offset : nat) (len : N) (sliceLength : nat) : bool :=
  (N.of_nat sliceLength <? N.of_nat offset + len)%N.

(* func checkInteger(bytes) *)
Definition checkInteger (bytes : list byte) : outcome unit :=
  if Nat.eqb (length bytes) 0 then Err 4 else
  if Nat.eqb (length bytes) 1 then Ok tt else
  do b0 <- at_ bytes 0; do b1 <- at_ bytes 1;
  if (((b0 =? 0)%N && (N.land b1 128 =? 0)%N) || ((b0 =? 255)%N && (N.land b1 128 =? 128)%N))%bool
  then Err 4 else Ok tt.

(* func parseBigInt(bytes): the big.Int *)
Definition parseBigInt (bytes : list byte) : outcome Z :=
  do _ <- checkInteger bytes;
  do b0 <- at_ bytes 0;
  if (N.land b0 128 =? 128)%N
  then Ok (- (Z.of_N (be_value (map (fun b => N.lxor b 255) bytes)) + 1))%Z
  else Ok (Z.of_N (be_value bytes)).

(* func parseBitString(bytes) (BitString, error): (bytes, bit length) *)
Definition parseBitString (bytes : list byte) : outcome (list byte * nat) :=
  if Nat.eqb (length bytes) 0 then Err 5 else
  do b0 <- at_ bytes 0;
  let paddingBits := N.to_nat b0 in
  if Nat.ltb 7 paddingBits then Err 5 else
  if (Nat.eqb (length bytes) 1 && Nat.ltb 0 paddingBits)%bool then Err 5 else
  do lastb <- at_ bytes (length bytes - 1);
  if negb (N.land lastb (2 ^ b0 - 1) =? 0)%N then Err 5 else
  do rest <- slice_from bytes 1;
  Ok (rest, (length bytes - 1) * 8 - paddingBits).

(* the loop "for ; offset < len(bytes); i++" of parseObjectIdentifier; s has room for len(bytes)+1 arcs *)
Fixpoint oid_loop (fuel : nat) (bytes : list byte) (offset : nat) (acc : list N) : outcome (list N) :=
  if Nat.ltb offset (length bytes) then
    match fuel with
    | O => Hang
    | S f => do '(v, offset') <- parseBase128Int bytes offset; oid_loop f bytes offset' (acc ++ [v])
    end
  else Ok acc.

(* func parseObjectIdentifier(bytes) *)
Definition parseObjectIdentifier (bytes : list byte) : outcome (list N) :=
  if Nat.eqb (length bytes) 0 then Err 6 else
  do '(v, offset) <- parseBase128Int bytes 0;
  let first := if (v <? 80)%N then [v / 40; v mod 40]%N else [2; v - 80]%N in
  oid_loop (length bytes) bytes offset first.

(* ---------- the types and their field parameters ----------------------------------------------------- *)
Record fparams := mkParams { p_optional : bool; p_explicit : bool; p_tag : option N; p_set : bool }.
Definition noParams : fparams := mkParams false false None false.

Inductive kind : Type :=
| KBigInt                                   (* big.Int pointer *)
| KOctets                                   (* []byte *)
| KBitString                                (* asn1.BitString *)
| KOID                                      (* asn1.ObjectIdentifier *)
| KRawValue                                 (* asn1.RawValue *)
| KStruct (rawContent : bool) (fields : list (fparams * kind)).   (* struct; rawContent: first field is asn1.RawContent *)

Inductive value : Type :=
| VInt (z : Z)
| VBytes (b : list byte)
| VBits (b : list byte) (bitLength : nat)
| VOID (arcs : list N)
| VRaw (class tag : N) (isCompound : bool) (bytes fullBytes : list byte)
| VStruct (raw : list byte) (fields : list value)
| VAbsent.                                  (* an optional field left at its zero value *)

(* func getUniversalType(t): (matchAny, tagNumber, isCompound) *)
Definition getUniversalType (k : kind) : bool * N * bool :=
  match k with
  | KBigInt => (false, TagInteger, false)
  | KOctets => (false, TagOctetString, false)
  | KBitString => (false, TagBitString, false)
  | KOID => (false, TagOID, false)
  | KRawValue => (true, 0%N, false)          (* tag -1: never compared, matchAny *)
  | KStruct _ _ => (false, TagSequence, true)
  end.

Definition opt_eqb (a b : option N) : bool :=
  match a, b with Some x, Some y => (x =? y)%N | None, None => true | _, _ => false end.

Definition is_raw (k : kind) : bool := match k with KRawValue => true | _ => false end.

(* parseField up to the per-type switch: the optional / explicit / tag-matching logic and the bounds check.
   HAbsent: an optional field that is not there (offset stays at initOffset); HElem: the element's
   tag-and-length, its content bytes, the offset behind it.  [uni] = getUniversalType of the field type,
   [raw] = the field is an asn1.RawValue. *)
Inductive fheader :=
| HAbsent (steps : N)
| HElem (t : tagAndLength) (innerBytes : list byte) (offset : nat) (steps : N).

Definition field_header (uni : bool * N * bool) (raw : bool) (params : fparams) (bytes : list byte)
           (initOffset : nat) (steps : N) : outcome fheader :=
  if Nat.eqb initOffset (length bytes) then
    (if p_optional params then Ok (HAbsent steps) else Err 1)                    (* sequence truncated *)
  else
  do '(t, offset) <- parseTagAndLength bytes initOffset;
  let steps := (steps + 1)%N in
  (* explicit tagging *)
  do '(t, offset, steps, done) <-
    (if p_explicit params then
       if Nat.eqb offset (length bytes) then Err 3 else                          (* explicit tag has no child *)
       if ((t_class t =? ClassContextSpecific)%N && opt_eqb (Some (t_tag t)) (p_tag params) &&
           ((t_length t =? 0)%N || t_isCompound t))%bool then
         if raw then Ok (t, offset, steps, false)
         else if (0 <? t_length t)%N then
           do '(t', offset') <- parseTagAndLength bytes offset;
           Ok (t', offset', (steps + 1)%N, false)
         else Err 3                                                              (* zero length explicit tag: no Flag here *)
       else Ok (t, offset, steps, true)                                          (* tags did not match *)
     else Ok (t, offset, steps, false));
  if (done : bool) then
    (if p_optional params then Ok (HAbsent steps) else Err 3)
  else
  let '(matchAny, universalTag, compoundType) := uni in
  let universalTag := if p_set params then TagSet else universalTag in
  let implicit := (negb (p_explicit params) && match p_tag params with Some _ => true | None => false end)%bool in
  let matchAnyClassAndTag := (matchAny && negb implicit)%bool in
  let expectedClass := if implicit then ClassContextSpecific else ClassUniversal in
  let expectedTag := if implicit then match p_tag params with Some x => x | None => 0%N end else universalTag in
  if ((negb matchAnyClassAndTag && (negb (t_class t =? expectedClass)%N || negb (t_tag t =? expectedTag)%N)) ||
      (negb matchAny && negb (Bool.eqb (t_isCompound t) compoundType)))%bool then
    (if p_optional params then Ok (HAbsent steps) else Err 3)                    (* tags don't match *)
  else
  if invalidLength offset (t_length t) (length bytes) then Err 1 else            (* data truncated *)
  do innerBytes <- slice bytes offset (offset + N.to_nat (t_length t));
  Ok (HElem t innerBytes (offset + N.to_nat (t_length t)) steps).

(* func parseField(v, bytes, initOffset, params) (offset, err): (value, offset, parseTagAndLength calls) *)
Fixpoint parseField (k : kind) (params : fparams) (bytes : list byte) (initOffset : nat) (steps : N)
  : outcome (value * nat * N) :=
  do h <- field_header (getUniversalType k) (is_raw k) params bytes initOffset steps;
  match h with
  | HAbsent steps => Ok (VAbsent, initOffset, steps)
  | HElem t innerBytes offset steps =>
    match k with
    | KRawValue =>
      do full <- slice bytes initOffset offset;
      Ok (VRaw (t_class t) (t_tag t) (t_isCompound t) innerBytes full, offset, steps)
    | KOID => do o <- parseObjectIdentifier innerBytes; Ok (VOID o, offset, steps)
    | KBitString => do '(b, n) <- parseBitString innerBytes; Ok (VBits b n, offset, steps)
    | KBigInt => do z <- parseBigInt innerBytes; Ok (VInt z, offset, steps)
    | KOctets => Ok (VBytes innerBytes, offset, steps)
    | KStruct rawContent fields =>
      do raw <- (if rawContent then slice bytes initOffset offset else Ok []);
      do '(vals, steps) <-
        (fix fields_loop (fs : list (fparams * kind)) (innerOffset : nat) (steps : N) (acc : list value)
           : outcome (list value * N) :=
           match fs with
           | [] => Ok (rev acc, steps)          (* extra bytes at the end of the SEQUENCE are allowed *)
           | (fp, fk) :: r =>
             do '(v, innerOffset', steps') <- parseField fk fp innerBytes innerOffset steps;
             fields_loop r innerOffset' steps' (v :: acc)
           end) fields 0 steps [];
      Ok (VStruct raw vals, offset, steps)
    end
  end.

(* func UnmarshalWithParams(b, val, params): (value, rest, parseTagAndLength calls) *)
Definition Unmarshal (k : kind) (params : fparams) (b : list byte) : outcome (value * list byte * N) :=
  do '(v, offset, steps) <- parseField k params b 0 0%N;
  do rest <- slice_from b offset;
  Ok (v, rest, steps).

(* number of nodes of a schema *)
Fixpoint ksize (k : kind) : nat :=
  match k with
  | KStruct _ fs => S (list_sum (map (fun pf => ksize (snd pf)) fs))
  | _ => 1
  end.

(* a decoded value has the shape of its Go type (optional fields may be absent) *)
Fixpoint conforms (k : kind) (v : value) : bool :=
  match k, v with
  | KBigInt, VInt _ => true
  | KOctets, VBytes _ => true
  | KBitString, VBits _ _ => true
  | KOID, VOID _ => true
  | KRawValue, VRaw _ _ _ _ _ => true
  | KStruct _ fs, VStruct _ vs =>
    (fix go (fs : list (fparams * kind)) (vs : list value) : bool :=
       match fs, vs with
       | [], [] => true
       | (p, k') :: fr, v :: vr =>
         ((match v with VAbsent => p_optional p | _ => conforms k' v end) && go fr vr)%bool
       | _, _ => false
       end) fs vs
  | _, _ => false
  end.
