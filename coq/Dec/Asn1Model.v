(* Model of the DER reader of encoding/asn1 (Go 1.23: parseBase128Int, parseTagAndLength, invalidLength,
   checkInteger, parseBigInt, parseBitString, parseObjectIdentifier, setDefaultValue, parseField,
   UnmarshalWithParams) for the Go types gmsm's structures are made of: big.Int pointers, []byte, asn1.BitString,
   asn1.ObjectIdentifier, asn1.RawValue and structs of these with the field parameters optional,
   explicit, tag:n, set.  Function by function, offsets and checked accesses as in the Go code
   (Dec/Access.v: an index or slice expression out of range is Panic).  The reflection-driven dispatch of
   parseField becomes recursion on a schema ([kind]); there is no fuel: every loop is bounded by its own
   test (5 base-128 digits, numBytes length octets, the bytes of an OID).  A counter of
   parseTagAndLength calls is threaded through (the cost statement of C18).  No proofs in this file.

   Second part (for the schemas of Gen/Asn1Schemas.v): int (64-bit, with default:n), bool, time.Time,
   the ANY interface, SEQUENCE OF / SET OF slices (parseSequenceOf: a counting pass, then one parseField
   per element).  time.Parse / Time.Format and utf8.Valid are library functions of their own; they appear
   here as acceptance predicates (utcTime_ok, generalizedTime_ok, utf8_valid), derived from their source and
   tied by the differential run, and a time value stays the byte string it was read from.

   Not covered (never reached for the schemas used here): Go string fields and their parameters (ia5,
   utf8, printable, numeric), enumerated, flag, application / private classes, int32.
   Error classes: 1 truncated, 2 syntax (indefinite, non-minimal ...), 3 structural (tags do not match,
   length too large ...), 4 integer not minimal / empty, 5 bit string, 6 OID, 7 bool, 8 time, 9 string. *)
From Coq Require Import List NArith ZArith Bool Arith.
From GmsmVerif Require Import Lib.Outcome Dec.Access.
Import ListNotations.
Local Open Scope nat_scope.

Record tagAndLength := mkTL { t_class : N; t_tag : N; t_length : N; t_isCompound : bool }.

Definition ClassUniversal : N := 0.
Definition ClassContextSpecific : N := 2.
Definition TagBoolean : N := 1.
Definition TagInteger : N := 2.
Definition TagBitString : N := 3.
Definition TagOctetString : N := 4.
Definition TagOID : N := 6.
Definition TagSequence : N := 16.
Definition TagSet : N := 17.
Definition TagUTF8String : N := 12.
Definition TagNumericString : N := 18.
Definition TagPrintableString : N := 19.
Definition TagT61String : N := 20.
Definition TagIA5String : N := 22.
Definition TagUTCTime : N := 23.
Definition TagGeneralizedTime : N := 24.
Definition TagGeneralString : N := 27.
Definition TagBMPString : N := 30.

(* func parseBase128Int(bytes, initOffset) (ret, offset, err); [left] = 5 - shifted *)
Fixpoint parseBase128Int_go (left : nat) (first : bool) (bytes : list byte) (offset : nat) (ret64 : N)
  : outcome (N * nat) :=
  if Nat.ltb offset (length bytes) then
    match left with
    | O => Err 3                                             (* shifted == 5: too large *)
    | S left' =>
      do b <- at_ bytes offset;
      if (first && (b =? 128)%N)%bool then Err 2 else        (* not minimally encoded *)
      let ret64 := (ret64 * 128 + N.land b 127)%N in
      if (N.land b 128 =? 0)%N
      then (if (2147483647 <? ret64)%N then Err 3 else Ok (ret64, S offset))
      else parseBase128Int_go left' false bytes (S offset) ret64
    end
  else Err 1.
Definition parseBase128Int (bytes : list byte) (initOffset : nat) : outcome (N * nat) :=
  parseBase128Int_go 5 true bytes initOffset 0%N.

(* the loop "for i := 0; i < numBytes; i++" of parseTagAndLength *)
Fixpoint length_loop (numBytes : nat) (bytes : list byte) (offset : nat) (len : N) : outcome (N * nat) :=
  match numBytes with
  | O => Ok (len, offset)
  | S n =>
    if Nat.leb (length bytes) offset then Err 1 else
    do b <- at_ bytes offset;
    if (8388608 <=? len)%N then Err 3 else                   (* length too large *)
    let len := (len * 256 + b)%N in
    if (len =? 0)%N then Err 3 else                          (* superfluous leading zeros *)
    length_loop n bytes (S offset) len
  end.

(* func parseTagAndLength(bytes, initOffset) (ret tagAndLength, offset int, err error) *)
Definition parseTagAndLength (bytes : list byte) (initOffset : nat) : outcome (tagAndLength * nat) :=
  if Nat.leb (length bytes) initOffset then Err 1 else
  do b <- at_ bytes initOffset;
  let offset := S initOffset in
  let class := (b / 64)%N in
  let isCompound := (N.land b 32 =? 32)%N in
  do '(tag, offset) <-
    (if (N.land b 31 =? 31)%N then
       do '(tag, offset) <- parseBase128Int bytes offset;
       if (tag <? 31)%N then Err 2 else Ok (tag, offset)     (* non-minimal tag *)
     else Ok (N.land b 31, offset));
  if Nat.leb (length bytes) offset then Err 1 else
  do b <- at_ bytes offset;
  let offset := S offset in
  if (N.land b 128 =? 0)%N then Ok (mkTL class tag (N.land b 127) isCompound, offset)
  else
    let numBytes := N.to_nat (N.land b 127) in
    if Nat.eqb numBytes 0 then Err 2 else                    (* indefinite length *)
    do '(len, offset) <- length_loop numBytes bytes offset 0%N;
    if (len <? 128)%N then Err 3 else                        (* non-minimal length *)
    Ok (mkTL class tag len isCompound, offset).

(* func invalidLength(offset, length, sliceLength) (64-bit int: the sum does not wrap for length < 2^31) *)
Definition invalidLength (offset : nat) (len : N) (sliceLength : nat) : bool :=
  (N.of_nat sliceLength <? N.of_nat offset + len)%N.

(* func checkInteger(bytes) *)
Definition checkInteger (bytes : list byte) : outcome unit :=
  if Nat.eqb (length bytes) 0 then Err 4 else
  if Nat.eqb (length bytes) 1 then Ok tt else
  do b0 <- at_ bytes 0; do b1 <- at_ bytes 1;
  if (((b0 =? 0)%N && (N.land b1 128 =? 0)%N) || ((b0 =? 255)%N && (N.land b1 128 =? 128)%N))%bool
  then Err 4 else Ok tt.

(* func parseBigInt(bytes): the big.Int *)
Definition parseBigInt (bytes : list byte) : outcome Z :=
  do _ <- checkInteger bytes;
  do b0 <- at_ bytes 0;
  if (N.land b0 128 =? 128)%N
  then Ok (- (Z.of_N (be_value (map (fun b => N.lxor b 255) bytes)) + 1))%Z
  else Ok (Z.of_N (be_value bytes)).

(* func parseBool(bytes) *)
Definition parseBool (bytes : list byte) : outcome bool :=
  if negb (Nat.eqb (length bytes) 1) then Err 7 else
  do b0 <- at_ bytes 0;
  if (b0 =? 0)%N then Ok false else if (b0 =? 255)%N then Ok true else Err 7.

(* func parseInt64(bytes): the sign-extended value *)
Definition parseInt64 (bytes : list byte) : outcome Z :=
  do _ <- checkInteger bytes;
  if Nat.ltb 8 (length bytes) then Err 3 else                (* integer too large *)
  do b0 <- at_ bytes 0;
  if (N.land b0 128 =? 128)%N
  then Ok (- (Z.of_N (be_value (map (fun b => N.lxor b 255) bytes)) + 1))%Z
  else Ok (Z.of_N (be_value bytes)).

(* ---------- strings of the ANY case: parsePrintableString, parseNumericString, parseIA5String, parseUTF8String,
   parseBMPString accept or reject; the string is the bytes ------------------------------------------------ *)
Definition between (lo hi b : N) : bool := ((lo <=? b)%N && (b <=? hi)%N)%bool.

(* func isPrintable(b, allowAsterisk, allowAmpersand) *)
Definition isPrintable (b : byte) : bool :=
  (between 97 122 b || between 65 90 b || between 48 57 b || between 39 41 b || between 43 47 b ||
   (b =? 32)%N || (b =? 58)%N || (b =? 61)%N || (b =? 63)%N || (b =? 42)%N || (b =? 38)%N)%bool.
(* func isNumeric(b) *)
Definition isNumeric (b : byte) : bool := (between 48 57 b || (b =? 32)%N)%bool.

(* unicode/utf8.Valid: the accept ranges of its table (RFC 3629) *)
Definition cont (c : byte) : bool := between 128 191 c.
Fixpoint utf8_valid (l : list byte) : bool :=
  match l with
  | [] => true
  | a :: r =>
    if (a <? 128)%N then utf8_valid r else
    if between 194 223 a then
      match r with c1 :: r1 => (cont c1 && utf8_valid r1)%bool | _ => false end
    else if between 224 239 a then
      match r with
      | c1 :: c2 :: r2 =>
        ((if (a =? 224)%N then between 160 191 c1 else if (a =? 237)%N then between 128 159 c1 else cont c1)
         && cont c2 && utf8_valid r2)%bool
      | _ => false
      end
    else if between 240 244 a then
      match r with
      | c1 :: c2 :: c3 :: r3 =>
        ((if (a =? 240)%N then between 144 191 c1 else if (a =? 244)%N then between 128 143 c1 else cont c1)
         && cont c2 && cont c3 && utf8_valid r3)%bool
      | _ => false
      end
    else false
  end.

(* ---------- times: func parseUTCTime, parseGeneralizedTime = time.Parse with the layouts 0601021504Z0700,
   060102150405Z0700, 20060102150405.999999999Z0700, followed by the test that Format gives the input back.
   What passes both: fixed-width decimal fields in range, a day that exists in that month and year, for the
   zone either Z or a sign and hhmm with hh <= 24, mm < 60 and not both zero, for the fraction (generalized
   only) a period and one to nine digits the last of which is not 0. ------------------------------------- *)
Definition isDigit (b : byte) : bool := between 48 57 b.
Definition num2 (a b : byte) : N := ((a - 48) * 10 + (b - 48))%N.
Definition daysIn (month year : N) : N :=
  if (month =? 2)%N then
    (if ((year mod 4 =? 0)%N && (negb (year mod 100 =? 0)%N || (year mod 400 =? 0)%N))%bool then 29 else 28)%N
  else if ((month =? 4)%N || (month =? 6)%N || (month =? 9)%N || (month =? 11)%N)%bool then 30%N else 31%N.

Definition zone_ok (r : list byte) : bool :=
  match r with
  | [z] => (z =? 90)%N
  | [sg; h1; h2; m1; m2] =>
    (((sg =? 43)%N || (sg =? 45)%N) && forallb isDigit [h1; h2; m1; m2] &&
     (num2 h1 h2 <=? 24)%N && (num2 m1 m2 <? 60)%N && negb ((num2 h1 h2 =? 0)%N && (num2 m1 m2 =? 0)%N))%bool
  | _ => false
  end.

(* month, day, hour, minute after the year *)
Definition mdhm_ok (year : N) (mo1 mo2 d1 d2 h1 h2 mi1 mi2 : byte) : bool :=
  (forallb isDigit [mo1; mo2; d1; d2; h1; h2; mi1; mi2] &&
   (1 <=? num2 mo1 mo2)%N && (num2 mo1 mo2 <=? 12)%N &&
   (1 <=? num2 d1 d2)%N && (num2 d1 d2 <=? daysIn (num2 mo1 mo2) year)%N &&
   (num2 h1 h2 <? 24)%N && (num2 mi1 mi2 <? 60)%N)%bool.

Definition utcTime_ok (s : list byte) : bool :=
  match s with
  | y1 :: y2 :: mo1 :: mo2 :: d1 :: d2 :: h1 :: h2 :: mi1 :: mi2 :: r =>
    let yy := num2 y1 y2 in
    let year := (if (69 <=? yy)%N then 1900 + yy else 2000 + yy)%N in
    (isDigit y1 && isDigit y2 && mdhm_ok year mo1 mo2 d1 d2 h1 h2 mi1 mi2 &&
     (zone_ok r ||
      match r with
      | s1 :: s2 :: r' => (isDigit s1 && isDigit s2 && (num2 s1 s2 <? 60)%N && zone_ok r')%bool
      | _ => false
      end))%bool
  | _ => false
  end.

(* the digits of a fraction: (how many, is the last one 0, what follows them) *)
Fixpoint frac_digits (r : list byte) (n : nat) (lastZero : bool) : nat * bool * list byte :=
  match r with
  | d :: r' => if isDigit d then frac_digits r' (S n) (d =? 48)%N else (n, lastZero, r)
  | [] => (n, lastZero, r)
  end.

Definition generalizedTime_ok (s : list byte) : bool :=
  match s with
  | y1 :: y2 :: y3 :: y4 :: mo1 :: mo2 :: d1 :: d2 :: h1 :: h2 :: mi1 :: mi2 :: s1 :: s2 :: r =>
    let year := (num2 y1 y2 * 100 + num2 y3 y4)%N in
    (forallb isDigit [y1; y2; y3; y4; s1; s2] && mdhm_ok year mo1 mo2 d1 d2 h1 h2 mi1 mi2 &&
     (num2 s1 s2 <? 60)%N &&
     match r with
     | dot :: r' =>
       if (dot =? 46)%N then
         let '(n, lastZero, r'') := frac_digits r' 0 false in
         (Nat.leb 1 n && Nat.leb n 9 && negb lastZero && zone_ok r'')%bool
       else zone_ok r
     | [] => false
     end)%bool
  | _ => false
  end.

(* func parseBitString(bytes) (BitString, error): (bytes, bit length) *)
Definition parseBitString (bytes : list byte) : outcome (list byte * nat) :=
  if Nat.eqb (length bytes) 0 then Err 5 else
  do b0 <- at_ bytes 0;
  let paddingBits := N.to_nat b0 in
  if Nat.ltb 7 paddingBits then Err 5 else
  if (Nat.eqb (length bytes) 1 && Nat.ltb 0 paddingBits)%bool then Err 5 else
  do lastb <- at_ bytes (length bytes - 1);
  if negb (N.land lastb (2 ^ b0 - 1) =? 0)%N then Err 5 else
  do rest <- slice_from bytes 1;
  Ok (rest, (length bytes - 1) * 8 - paddingBits).

(* the loop "for ; offset < len(bytes); i++" of parseObjectIdentifier; s has room for len(bytes)+1 arcs *)
Fixpoint oid_loop (fuel : nat) (bytes : list byte) (offset : nat) (acc : list N) : outcome (list N) :=
  if Nat.ltb offset (length bytes) then
    match fuel with
    | O => Hang
    | S f => do '(v, offset') <- parseBase128Int bytes offset; oid_loop f bytes offset' (acc ++ [v])
    end
  else Ok acc.

(* func parseObjectIdentifier(bytes) *)
Definition parseObjectIdentifier (bytes : list byte) : outcome (list N) :=
  if Nat.eqb (length bytes) 0 then Err 6 else
  do '(v, offset) <- parseBase128Int bytes 0;
  let first := if (v <? 80)%N then [v / 40; v mod 40]%N else [2; v - 80]%N in
  oid_loop (length bytes) bytes offset first.

(* ---------- the types and their field parameters ----------------------------------------------------- *)
Record fparams := mkParams { p_optional : bool; p_explicit : bool; p_tag : option N; p_set : bool }.
Definition noParams : fparams := mkParams false false None false.

Inductive kind : Type :=
| KBigInt                                   (* big.Int pointer *)
| KOctets                                   (* []byte *)
| KBitString                                (* asn1.BitString *)
| KOID                                      (* asn1.ObjectIdentifier *)
| KRawValue                                 (* asn1.RawValue *)
| KInt (dflt : option Z)                    (* int, int64 (8 bytes); dflt: the default:n of the field *)
| KBool                                     (* bool *)
| KTime                                     (* time.Time *)
| KAny                                      (* the empty interface *)
| KSeqOf (setName : bool) (elem : kind)     (* slice of elem (not bytes); setName: a named slice type ending in SET *)
| KStruct (rawContent : bool) (fields : list (fparams * kind)).   (* struct; rawContent: first field is asn1.RawContent *)

Inductive value : Type :=
| VInt (z : Z)
| VBytes (b : list byte)
| VBits (b : list byte) (bitLength : nat)
| VOID (arcs : list N)
| VRaw (class tag : N) (isCompound : bool) (bytes fullBytes : list byte)
| VStruct (raw : list byte) (fields : list value)
| VBool (b : bool)
| VTime (generalized : bool) (text : list byte)
| VStr (tag : N) (text : list byte)         (* a string in an ANY *)
| VNil                                      (* an ANY left nil *)
| VSeq (elems : list value)
| VAbsent.                                  (* an optional field left at its zero value *)

(* func getUniversalType(t): (matchAny, tagNumber, isCompound) *)
Definition getUniversalType (k : kind) : bool * N * bool :=
  match k with
  | KBigInt => (false, TagInteger, false)
  | KOctets => (false, TagOctetString, false)
  | KBitString => (false, TagBitString, false)
  | KOID => (false, TagOID, false)
  | KRawValue => (true, 0%N, false)          (* tag -1: never compared, matchAny *)
  | KInt _ => (false, TagInteger, false)
  | KBool => (false, TagBoolean, false)
  | KTime => (false, TagUTCTime, false)
  | KAny => (false, 0%N, false)              (* ok = false: see parseSequenceOf; parseField never asks *)
  | KSeqOf setName _ => (false, if setName then TagSet else TagSequence, true)
  | KStruct _ _ => (false, TagSequence, true)
  end.

Definition opt_eqb (a b : option N) : bool :=
  match a, b with Some x, Some y => (x =? y)%N | None, None => true | _, _ => false end.

Definition is_raw (k : kind) : bool := match k with KRawValue => true | _ => false end.

(* parseField up to the per-type switch: the optional / explicit / tag-matching logic and the bounds check.
   HAbsent: an optional field that is not there (offset stays at initOffset); HElem: the element's
   tag-and-length, its content bytes, the offset behind it.  [uni] = getUniversalType of the field type,
   [raw] = the field is an asn1.RawValue. *)
Inductive fheader :=
| HAbsent (steps : N)
| HElem (t : tagAndLength) (innerBytes : list byte) (offset : nat) (steps : N).

Definition field_header (uni : bool * N * bool) (raw : bool) (params : fparams) (bytes : list byte)
           (initOffset : nat) (steps : N) : outcome fheader :=
  if Nat.eqb initOffset (length bytes) then
    (if p_optional params then Ok (HAbsent steps) else Err 1)                    (* sequence truncated *)
  else
  do '(t, offset) <- parseTagAndLength bytes initOffset;
  let steps := (steps + 1)%N in
  (* explicit tagging *)
  do '(t, offset, steps, done) <-
    (if p_explicit params then
       if Nat.eqb offset (length bytes) then Err 3 else                          (* explicit tag has no child *)
       if ((t_class t =? ClassContextSpecific)%N && opt_eqb (Some (t_tag t)) (p_tag params) &&
           ((t_length t =? 0)%N || t_isCompound t))%bool then
         if raw then Ok (t, offset, steps, false)
         else if (0 <? t_length t)%N then
           do '(t', offset') <- parseTagAndLength bytes offset;
           Ok (t', offset', (steps + 1)%N, false)
         else Err 3                                                              (* zero length explicit tag: no Flag here *)
       else Ok (t, offset, steps, true)                                          (* tags did not match *)
     else Ok (t, offset, steps, false));
  if (done : bool) then
    (if p_optional params then Ok (HAbsent steps) else Err 3)
  else
  let '(matchAny, universalTag, compoundType) := uni in
  (* time.Time: UTCTime and GeneralizedTime both map to it *)
  let universalTag := if ((universalTag =? TagUTCTime)%N && (t_tag t =? TagGeneralizedTime)%N &&
                          (t_class t =? ClassUniversal)%N)%bool then TagGeneralizedTime else universalTag in
  let universalTag := if p_set params then TagSet else universalTag in
  let implicit := (negb (p_explicit params) && match p_tag params with Some _ => true | None => false end)%bool in
  let matchAnyClassAndTag := (matchAny && negb implicit)%bool in
  let expectedClass := if implicit then ClassContextSpecific else ClassUniversal in
  let expectedTag := if implicit then match p_tag params with Some x => x | None => 0%N end else universalTag in
  if ((negb matchAnyClassAndTag && (negb (t_class t =? expectedClass)%N || negb (t_tag t =? expectedTag)%N)) ||
      (negb matchAny && negb (Bool.eqb (t_isCompound t) compoundType)))%bool then
    (if p_optional params then Ok (HAbsent steps) else Err 3)                    (* tags don't match *)
  else
  if invalidLength offset (t_length t) (length bytes) then Err 1 else            (* data truncated *)
  do innerBytes <- slice bytes offset (offset + N.to_nat (t_length t));
  Ok (HElem t innerBytes (offset + N.to_nat (t_length t)) steps).

(* setDefaultValue on an optional field that is not there: an int with default:n gets n *)
Definition absent_value (k : kind) : value :=
  match k with KInt (Some d) => VInt d | _ => VAbsent end.

Definition is_any (k : kind) : bool := match k with KAny => true | _ => false end.

(* parseField, the ANY case (after the end-of-data test) *)
Definition parseAny (bytes : list byte) (initOffset : nat) (steps : N) : outcome (value * nat * N) :=
  do '(t, offset) <- parseTagAndLength bytes initOffset;
  let steps := (steps + 1)%N in
  if invalidLength offset (t_length t) (length bytes) then Err 1 else
  do result <-
    (if (negb (t_isCompound t) && (t_class t =? ClassUniversal)%N)%bool then
       do innerBytes <- slice bytes offset (offset + N.to_nat (t_length t));
       let tag := t_tag t in
       if (tag =? TagPrintableString)%N then (if forallb isPrintable innerBytes then Ok (VStr tag innerBytes) else Err 9)
       else if (tag =? TagNumericString)%N then (if forallb isNumeric innerBytes then Ok (VStr tag innerBytes) else Err 9)
       else if (tag =? TagIA5String)%N then (if forallb (fun b => (b <? 128)%N) innerBytes then Ok (VStr tag innerBytes) else Err 9)
       else if (tag =? TagT61String)%N then Ok (VStr tag innerBytes)
       else if (tag =? TagUTF8String)%N then (if utf8_valid innerBytes then Ok (VStr tag innerBytes) else Err 9)
       else if (tag =? TagInteger)%N then (do z <- parseInt64 innerBytes; Ok (VInt z))
       else if (tag =? TagBitString)%N then (do '(b, n) <- parseBitString innerBytes; Ok (VBits b n))
       else if (tag =? TagOID)%N then (do o <- parseObjectIdentifier innerBytes; Ok (VOID o))
       else if (tag =? TagUTCTime)%N then (if utcTime_ok innerBytes then Ok (VTime false innerBytes) else Err 8)
       else if (tag =? TagGeneralizedTime)%N then (if generalizedTime_ok innerBytes then Ok (VTime true innerBytes) else Err 8)
       else if (tag =? TagOctetString)%N then Ok (VBytes innerBytes)
       else if (tag =? TagBMPString)%N then (if Nat.eqb (length innerBytes mod 2) 0 then Ok (VStr tag innerBytes) else Err 9)
       else Ok VNil
     else Ok VNil);
  Ok (result, offset + N.to_nat (t_length t), steps).

(* the tag a slice element is compared with in the counting pass of parseSequenceOf *)
Definition seq_norm_tag (tag : N) : N :=
  if ((tag =? TagIA5String)%N || (tag =? TagGeneralString)%N || (tag =? TagT61String)%N || (tag =? TagUTF8String)%N ||
      (tag =? TagNumericString)%N || (tag =? TagBMPString)%N)%bool then TagPrintableString
  else if ((tag =? TagGeneralizedTime)%N || (tag =? TagUTCTime)%N)%bool then TagUTCTime
  else tag.

(* func parseSequenceOf, first loop "for offset := 0; offset < len(bytes); { ... numElements++ }" *)
Fixpoint count_loop (fuel : nat) (uni : bool * N * bool) (bytes : list byte) (offset numElements : nat) (steps : N)
  : outcome (nat * N) :=
  if Nat.ltb offset (length bytes) then
    match fuel with
    | O => Hang
    | S f =>
      do '(t, offset) <- parseTagAndLength bytes offset;
      let tag := seq_norm_tag (t_tag t) in
      let '(matchAny, expectedTag, compoundType) := uni in
      if (negb matchAny && (negb (t_class t =? ClassUniversal)%N || negb (Bool.eqb (t_isCompound t) compoundType) ||
                            negb (tag =? expectedTag)%N))%bool then Err 3 else       (* sequence tag mismatch *)
      if invalidLength offset (t_length t) (length bytes) then Err 1 else            (* truncated sequence *)
      count_loop f uni bytes (offset + N.to_nat (t_length t)) (S numElements) (steps + 1)%N
    end
  else Ok (numElements, steps).

(* which parser a time.Time field gets: universalTag after the time and set adjustments of parseField *)
Definition time_is_utc (params : fparams) (t : tagAndLength) : bool :=
  (negb (p_set params) && negb ((t_tag t =? TagGeneralizedTime)%N && (t_class t =? ClassUniversal)%N))%bool.

(* func parseField(v, bytes, initOffset, params) (offset, err): (value, offset, parseTagAndLength calls) *)
Fixpoint parseField (k : kind) (params : fparams) (bytes : list byte) (initOffset : nat) (steps : N)
  : outcome (value * nat * N) :=
  if is_any k then
    (if Nat.eqb initOffset (length bytes)
     then (if p_optional params then Ok (VAbsent, initOffset, steps) else Err 1)
     else parseAny bytes initOffset steps)
  else
  do h <- field_header (getUniversalType k) (is_raw k) params bytes initOffset steps;
  match h with
  | HAbsent steps => Ok (absent_value k, initOffset, steps)
  | HElem t innerBytes offset steps =>
    match k with
    | KRawValue =>
      do full <- slice bytes initOffset offset;
      Ok (VRaw (t_class t) (t_tag t) (t_isCompound t) innerBytes full, offset, steps)
    | KOID => do o <- parseObjectIdentifier innerBytes; Ok (VOID o, offset, steps)
    | KBitString => do '(b, n) <- parseBitString innerBytes; Ok (VBits b n, offset, steps)
    | KTime =>
      if time_is_utc params t
      then (if utcTime_ok innerBytes then Ok (VTime false innerBytes, offset, steps) else Err 8)
      else (if generalizedTime_ok innerBytes then Ok (VTime true innerBytes, offset, steps) else Err 8)
    | KBigInt => do z <- parseBigInt innerBytes; Ok (VInt z, offset, steps)
    | KBool => do b <- parseBool innerBytes; Ok (VBool b, offset, steps)
    | KInt _ => do z <- parseInt64 innerBytes; Ok (VInt z, offset, steps)
    | KAny => Err 3                           (* not reached: is_any *)
    | KOctets => Ok (VBytes innerBytes, offset, steps)
    | KStruct rawContent fields =>
      do raw <- (if rawContent then slice bytes initOffset offset else Ok []);
      do '(vals, steps) <-
        (fix fields_loop (fs : list (fparams * kind)) (innerOffset : nat) (steps : N) (acc : list value)
           : outcome (list value * N) :=
           match fs with
           | [] => Ok (rev acc, steps)          (* extra bytes at the end of the SEQUENCE are allowed *)
           | (fp, fk) :: r =>
             do '(v, innerOffset', steps') <- parseField fk fp innerBytes innerOffset steps;
             fields_loop r innerOffset' steps' (v :: acc)
           end) fields 0 steps [];
      Ok (VStruct raw vals, offset, steps)
    | KSeqOf _ elem =>
      (* func parseSequenceOf(innerBytes, sliceType, elemType) *)
      if is_any elem then Err 3 else            (* unknown Go type for slice *)
      do '(numElements, steps) <- count_loop (length innerBytes) (getUniversalType elem) innerBytes 0 0 steps;
      do '(vals, steps) <-
        (fix elems_loop (n : nat) (off : nat) (steps : N) (acc : list value) : outcome (list value * N) :=
           match n with
           | O => Ok (rev acc, steps)
           | S n' =>
             do '(v, off', steps') <- parseField elem noParams innerBytes off steps;
             elems_loop n' off' steps' (v :: acc)
           end) numElements 0 steps [];
      Ok (VSeq vals, offset, steps)
    end
  end.

(* func UnmarshalWithParams(b, val, params): (value, rest, parseTagAndLength calls) *)
Definition Unmarshal (k : kind) (params : fparams) (b : list byte) : outcome (value * list byte * N) :=
  do '(v, offset, steps) <- parseField k params b 0 0%N;
  do rest <- slice_from b offset;
  Ok (v, rest, steps).

(* number of nodes of a schema *)
Fixpoint ksize (k : kind) : nat :=
  match k with
  | KStruct _ fs => S (list_sum (map (fun pf => ksize (snd pf)) fs))
  | KSeqOf _ e => S (ksize e)
  | _ => 1
  end.

(* parseTagAndLength calls per input byte that slices can cause (0 for a schema without slices) *)
Fixpoint kweight (k : kind) : nat :=
  match k with
  | KStruct _ fs => list_sum (map (fun pf => kweight (snd pf)) fs)
  | KSeqOf _ e => kweight e + ksize e + 1
  | _ => 0
  end.

(* a decoded value has the shape of its Go type (optional fields may be absent) *)
Fixpoint conforms (k : kind) (v : value) : bool :=
  match k, v with
  | KBigInt, VInt _ => true
  | KOctets, VBytes _ => true
  | KBitString, VBits _ _ => true
  | KOID, VOID _ => true
  | KRawValue, VRaw _ _ _ _ _ => true
  | KInt _, VInt _ => true
  | KBool, VBool _ => true
  | KTime, VTime _ _ => true
  | KAny, _ => true
  | KSeqOf _ e, VSeq vs =>
    (fix go (vs : list value) : bool := match vs with [] => true | v :: r => (conforms e v && go r)%bool end) vs
  | KStruct _ fs, VStruct _ vs =>
    (fix go (fs : list (fparams * kind)) (vs : list value) : bool :=
       match fs, vs with
       | [], [] => true
       | (p, k') :: fr, v :: vr =>
         ((match v with VAbsent => p_optional p | _ => conforms k' v end) && go fr vr)%bool
       | _, _ => false
       end) fs vs
  | _, _ => false
  end.
