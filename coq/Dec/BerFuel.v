(* More recursion fuel never changes an answer of the model of readObject that is not Hang; hence every
   fuel above the cap gives the result of the capped run (the recursion depth of ber2der is the cap, not
   the fuel). *)
From Coq Require Import List NArith Arith Bool Lia.
From GmsmVerif Require Import Lib.Outcome Dec.Access Dec.AccessProofs Dec.BerModel Dec.BerProofs.
Import ListNotations.
Local Open Scope nat_scope.

Section LoopMono.
  Variables rd rd' : budget -> nat -> outcome (obj * nat * budget).
  Variable ber : list N.
  Variable contentEnd : nat.
  Variable indefinite : bool.
  Hypothesis Hrd : forall b o, rd b o <> Hang -> rd' b o = rd b o.

  Lemma children_loop_mono n : forall off acc bud,
    children_loop rd ber contentEnd indefinite n off acc bud <> Hang ->
    children_loop rd' ber contentEnd indefinite n off acc bud =
    children_loop rd ber contentEnd indefinite n off acc bud.
  Proof.
    induction n as [|n IH]; intros off acc bud H; cbn [children_loop] in *;
      destruct (Nat.ltb off contentEnd || indefinite)%bool; try reflexivity.
    assert (Hne : rd bud off <> Hang) by (intros E; rewrite E in H; apply H; reflexivity).
    rewrite (Hrd bud off Hne).
    destruct (rd bud off) as [[[s e] b2]| | |]; cbn [obind] in *; try reflexivity.
    destruct (negb indefinite && Nat.ltb contentEnd e)%bool; [reflexivity|].
    destruct indefinite.
    - destruct (isIndefiniteTermination ber e) as [[|]| | |]; cbn [obind] in *; try reflexivity.
      apply IH; exact H.
    - apply IH; exact H.
  Qed.
End LoopMono.

Definition readObject_body (rd : budget -> nat -> outcome (obj * nat * budget)) (bud : budget) (ber : list N) (offset : nat) (depth : nat)
  : outcome (obj * nat * budget) :=
    do bud <- tick bud;
    if Nat.ltb maxBERDepth depth then Err 3 else
    do h <- read_header ber offset;
    let offset := h_offset h in
    if (N.of_nat (Nat.sub (length ber) offset) <? h_len h)%N then Err 7 else
    let contentEnd := offset + N.to_nat (h_len h) in
    if (h_indefinite h && (h_kind h =? 0)%N)%bool then Err 8 else
    if (h_kind h =? 0)%N then
      do tb <- slice ber (h_tagStart h) (h_tagEnd h);
      do c <- slice ber offset contentEnd;
      Ok (Prim tb (h_len h) c, contentEnd, bud)
    else
      do '(subs, offset', bud') <-
         children_loop rd ber contentEnd (h_indefinite h) (S (length ber)) offset [] bud;
      do tb <- slice ber (h_tagStart h) (h_tagEnd h);
      Ok (Struct tb subs, (if h_indefinite h then offset' + 2 else contentEnd), bud').

Lemma readObject_S fuel bud ber o depth :
  readObject (S fuel) bud ber o depth =
  readObject_body (fun b o0 => readObject fuel b ber o0 (S depth)) bud ber o depth.
Proof. reflexivity. Qed.

Lemma readObject_fuel_mono fuel : forall bud ber o depth,
  readObject fuel bud ber o depth <> Hang ->
  readObject (S fuel) bud ber o depth = readObject fuel bud ber o depth.
Proof.
  induction fuel as [|fuel IH]; intros bud ber o depth H; [exfalso; apply H; reflexivity|].
  rewrite (readObject_S (S fuel)), (readObject_S fuel). rewrite readObject_S in H.
  unfold readObject_body in *.
  destruct (tick bud) as [bud1| | |]; cbn [obind] in *; try reflexivity.
  destruct (Nat.ltb maxBERDepth depth); [reflexivity|].
  destruct (read_header ber o) as [h| | |]; cbn [obind] in *; try reflexivity.
  destruct (_ <? _)%N; [reflexivity|].
  destruct (h_indefinite h && _)%bool; [reflexivity|].
  destruct (h_kind h =? 0)%N; [reflexivity|].
  rewrite (children_loop_mono (fun b o0 => readObject fuel b ber o0 (S depth))
                              (fun b o0 => readObject (S fuel) b ber o0 (S depth))).
  - reflexivity.
  - intros b o0 Hn. apply IH. exact Hn.
  - intros E. rewrite E in H. apply H. reflexivity.
Qed.

Lemma readObject_fuel_ge fuel extra bud ber o depth :
  readObject fuel bud ber o depth <> Hang ->
  readObject (fuel + extra) bud ber o depth = readObject fuel bud ber o depth.
Proof.
  intros H. induction extra as [|e IH]; [rewrite Nat.add_0_r; reflexivity|].
  replace (fuel + S e) with (S (fuel + e)) by lia.
  rewrite readObject_fuel_mono; [exact IH|]. rewrite IH. exact H.
Qed.

(* the capped run is the run: any fuel above maxBERDepth + 2 gives the same result *)
Theorem ber2der_fuel_independent b fuel :
  bytes_ok b -> ber_fuel <= fuel -> ber2der_with fuel None b = ber2der b.
Proof.
  intros Hb Hf. unfold ber2der, ber2der_with. destruct b as [|x r] eqn:Eb; [reflexivity|]. rewrite <- Eb in *.
  replace fuel with (ber_fuel + (fuel - ber_fuel)) by lia.
  rewrite readObject_fuel_ge; [reflexivity|].
  pose proof (readObject_spec ber_fuel None b 0 0 ltac:(subst b; exact Hb)) as R.
  intros E. rewrite E in R. apply R. unfold ber_fuel. repeat split; try lia; exact I.
Qed.
