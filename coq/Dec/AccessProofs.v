(* Facts about the checked accesses of Dec/Access.v. *)
From Coq Require Import List NArith Arith Bool Lia ZifyN ZifyNat.
From GmsmVerif Require Import Lib.Outcome Dec.Access.
Import ListNotations.
Local Open Scope nat_scope.

Lemma at_ok (b : list N) i : i < length b -> exists x, at_ b i = Ok x.
Proof.
  intros H. unfold at_. destruct (nth_error b i) eqn:E; [eauto|].
  apply nth_error_None in E. lia.
Qed.

Lemma at_cases (b : list N) i :
  (i < length b /\ exists x, at_ b i = Ok x) \/ (length b <= i /\ at_ b i = Panic).
Proof.
  destruct (Nat.lt_ge_cases i (length b)) as [H|H].
  - left. split; [exact H|]. apply at_ok; exact H.
  - right. split; [exact H|]. unfold at_. apply nth_error_None in H. rewrite H. reflexivity.
Qed.

Lemma at_not_hang (b : list N) i : at_ b i <> Hang.
Proof. unfold at_; destruct (nth_error b i); discriminate. Qed.

Lemma at_not_err (b : list N) i e : at_ b i <> Err e.
Proof. unfold at_; destruct (nth_error b i); discriminate. Qed.

Lemma slice_ok (b : list N) lo hi :
  lo <= hi -> hi <= length b -> slice b lo hi = Ok (firstn (hi - lo) (skipn lo b)).
Proof.
  intros H1 H2. unfold slice.
  rewrite (proj2 (Nat.leb_le lo hi) H1), (proj2 (Nat.leb_le hi (length b)) H2). reflexivity.
Qed.

Lemma slice_length (b : list N) lo hi r : slice b lo hi = Ok r -> length r = hi - lo.
Proof.
  unfold slice. destruct (Nat.leb_spec lo hi); cbn [andb]; [|discriminate].
  destruct (Nat.leb_spec hi (length b)); [|discriminate].
  intros [= <-]. rewrite firstn_length, skipn_length. lia.
Qed.

Lemma slice_from_ok (b : list N) lo : lo <= length b -> slice_from b lo = Ok (skipn lo b).
Proof. intros H. unfold slice_from. rewrite (proj2 (Nat.leb_le _ _) H). reflexivity. Qed.

Lemma slice_to_ok (b : list N) hi : hi <= length b -> slice_to b hi = Ok (firstn hi b).
Proof. intros H. unfold slice_to. rewrite (proj2 (Nat.leb_le _ _) H). reflexivity. Qed.

Lemma slice_all (b : list N) : slice b 0 (length b) = Ok b.
Proof. rewrite slice_ok by lia. cbn [skipn]. rewrite Nat.sub_0_r, firstn_all. reflexivity. Qed.

Lemma at_byte (b : list N) i x : bytes_ok b -> at_ b i = Ok x -> (x < 256)%N.
Proof.
  unfold at_, bytes_ok. intros Hb H. destruct (nth_error b i) eqn:E; [|discriminate].
  injection H as <-. rewrite Forall_forall in Hb. apply Hb. eapply nth_error_In; exact E.
Qed.

Lemma bytes_okb_ok b : bytes_okb b = true <-> bytes_ok b.
Proof.
  unfold bytes_okb, bytes_ok. rewrite forallb_forall, Forall_forall.
  split; intros H x Hx; specialize (H x Hx); [apply N.ltb_lt|apply N.ltb_lt]; exact H.
Qed.

(* a fact about bytes proved by sweeping all 256 values *)
Lemma byte_sweep (P : N -> bool) :
  forallb P (map N.of_nat (seq 0 256)) = true -> forall x, (x < 256)%N -> P x = true.
Proof.
  intros H x Hx. rewrite forallb_forall in H. apply H.
  apply in_map_iff. exists (N.to_nat x). split; [apply N2Nat.id|].
  apply in_seq. lia.
Qed.

(* ---------- accesses relative to a known suffix ------------------------------------------------- *)
Lemma nth_error_skipn' {A} (l : list A) off i : nth_error l (off + i) = nth_error (skipn off l) i.
Proof.
  revert l; induction off as [|off IH]; intros l; [reflexivity|].
  destruct l as [|x l]; cbn [Nat.add skipn nth_error]; [destruct i; reflexivity|apply IH].
Qed.

Lemma at_from (ber : list N) off i l : skipn off ber = l -> at_ ber (off + i) = at_ l i.
Proof. intros <-. unfold at_. rewrite nth_error_skipn'. reflexivity. Qed.

Lemma skipn_add {A} (a b : nat) (l : list A) : skipn a (skipn b l) = skipn (b + a) l.
Proof.
  revert l; induction b as [|b IH]; intros l; cbn [Nat.add]; [reflexivity|].
  destruct l as [|x l]; cbn [skipn]; [destruct a; reflexivity|apply IH].
Qed.

Lemma skipn_more {A} (ber : list A) off a l : skipn off ber = a ++ l -> skipn (off + length a) ber = l.
Proof.
  intros H. rewrite <- skipn_add, H, skipn_app, skipn_all, Nat.sub_diag. reflexivity.
Qed.

Lemma len_from {A} (ber : list A) off l : skipn off ber = l -> length ber - off = length l.
Proof. intros <-. rewrite skipn_length. reflexivity. Qed.

Lemma slice_from_suffix (ber : list N) off a l :
  off <= length ber -> skipn off ber = a ++ l -> slice ber off (off + length a) = Ok a.
Proof.
  intros Hoff H. pose proof (len_from ber off _ H) as HL. rewrite app_length in HL.
  rewrite slice_ok by lia. rewrite H. f_equal.
  replace (off + length a - off) with (length a) by lia.
  rewrite firstn_app, Nat.sub_diag, firstn_all. cbn [firstn]. apply app_nil_r.
Qed.

