(* Model of /repo/x509/ber.go (ber2der, readObject, isIndefiniteTermination, encodeLength,
   lengthLength, marshalLongLength, EncodeTo), function by function.  No proofs in this file.

   - every index / slice expression is a checked access (Dec/Access.v): Panic when Go would panic;
   - readObject recurses on explicit fuel (one unit per nesting level; exhausted = Hang) and its
     child loop on a second fuel (one unit per child);
   - a step budget counts the calls of readObject: [Some n] allows n calls and yields Hang on the
     next one, [None] is unlimited.  The budget is how the cost statement of C18 is expressed;
   - error classes: 0 empty input, 1 truncated, 3 nested too deeply, 4 length too long,
     5 negative length, 6 leading zero, 7 length beyond data, 8 indefinite primitive,
     9 invalid end-of-contents, 10 element extends beyond its parent.
   The tag number accumulated by the high-tag-number loop is never used by the Go code and is
   not represented (the loop itself is, with its bounds checks).                                  *)
From Coq Require Import List NArith Arith Bool.
From GmsmVerif Require Import Lib.Outcome Dec.Access Gen.DecConsts.
Import ListNotations.
Local Open Scope nat_scope.

Definition maxBERDepth : nat := N.to_nat gen_maxBERDepth.

(* asn1Object: asn1Primitive{tagBytes,length,content} | asn1Structured{tagBytes,content} *)
Inductive obj : Type :=
| Prim (tagBytes : list byte) (len : N) (content : list byte)
| Struct (tagBytes : list byte) (content : list obj).

(* ---------- encoding ------------------------------------------------------------------------- *)
(* func lengthLength(i int): the loop "for i > 255" runs at most 7 times on a 64-bit int *)
Fixpoint lengthLength_go (fuel : nat) (i : N) (numBytes : nat) : nat :=
  match fuel with
  | O => numBytes
  | S f => if (255 <? i)%N then lengthLength_go f (i / 256)%N (S numBytes) else numBytes
  end.
Definition lengthLength (i : N) : nat := lengthLength_go 8 i 1.

(* func marshalLongLength(out, i): for n := lengthLength(i); n > 0; n-- { byte(i >> ((n-1)*8)) } *)
Fixpoint marshalLongLength_go (n : nat) (i : N) : list byte :=
  match n with
  | O => []
  | S n' => ((i / 2 ^ (8 * N.of_nat n')) mod 256)%N :: marshalLongLength_go n' i
  end.
Definition marshalLongLength (i : N) : list byte := marshalLongLength_go (lengthLength i) i.

(* func encodeLength(out, length) *)
Definition encodeLength (length : N) : list byte :=
  if (128 <=? length)%N
  then N.lor 128 (N.of_nat (lengthLength length) mod 256) :: marshalLongLength length
  else [length].

(* EncodeTo: the bytes written to out (bytes.Buffer writes do not fail) *)
Fixpoint encode (o : obj) : list byte :=
  match o with
  | Prim tb len c => tb ++ encodeLength len ++ c
  | Struct tb cs =>
    let inner := concat (map encode cs) in
    tb ++ encodeLength (N.of_nat (length inner)) ++ inner
  end.

(* ---------- decoding ------------------------------------------------------------------------- *)
Definition budget := option N.
Definition tick (b : budget) : outcome budget :=
  match b with
  | None => Ok None
  | Some 0%N => Hang
  | Some n => Ok (Some (N.pred n))
  end.

(* "for offset < len(ber) && ber[offset] >= 0x80 { ...; offset++ }" *)
Fixpoint tag_loop (fuel : nat) (ber : list byte) (offset : nat) : outcome nat :=
  if Nat.ltb offset (length ber) then
    do x <- at_ ber offset;
    if (128 <=? x)%N then
      match fuel with O => Hang | S f => tag_loop f ber (S offset) end
    else Ok offset
  else Ok offset.

(* "for i := 0; i < numberOfBytes; i++ { length = length*256 + int(ber[offset]); offset++ }" *)
Fixpoint len_loop (n : nat) (ber : list byte) (offset : nat) (len : N) : outcome (N * nat) :=
  match n with
  | O => Ok (len, offset)
  | S n' => do x <- at_ ber offset; len_loop n' ber (S offset) (len * 256 + x)%N
  end.

(* func isIndefiniteTermination(ber, offset) *)
Definition isIndefiniteTermination (ber : list byte) (offset : nat) : outcome bool :=
  if Nat.ltb (length ber - offset) 2 then Err 9
  else
    do x <- at_ ber offset;
    if (x =? 0)%N then (do y <- at_ ber (offset + 1); Ok (y =? 0)%N) else Ok false.

(* header of one object: tag bytes, kind, length octets *)
Record header := mkHeader {
  h_tagStart : nat; h_tagEnd : nat; h_kind : N; h_indefinite : bool; h_len : N; h_offset : nat }.

(* the identifier octets: first byte and the offset behind the (possibly multi-byte) tag *)
Definition read_tag (ber : list byte) (offset : nat) : outcome (byte * nat) :=
  if Nat.leb (length ber) offset then Err 1 else
  do b <- at_ ber offset;
  let offset := S offset in
  if (N.land b 31 =? 31)%N then
    do off <- tag_loop (length ber) ber offset;
    if Nat.leb (length ber) off then Err 1 else
    do _ <- at_ ber off;
    Ok (b, S off)
  else Ok (b, offset).

(* the length octets ("// read length"): value, offset behind them, indefinite form? *)
Definition read_length (ber : list byte) (offset : nat) : outcome (N * nat * bool) :=
  if Nat.leb (length ber) offset then Err 1 else
  do l <- at_ ber offset;
  let offset := S offset in
  if (128 <? l)%N then
    let numberOfBytes := N.to_nat (N.land l 127) in
    if Nat.ltb 4 numberOfBytes then Err 4 else
    if Nat.ltb (length ber - offset) numberOfBytes then Err 1 else
    do first <- at_ ber offset;
    if (Nat.eqb numberOfBytes 4 && (127 <? first)%N)%bool then Err 5 else
    do first' <- at_ ber offset;
    if (first' =? 0)%N then Err 6 else
    do '(len, off) <- len_loop numberOfBytes ber offset 0%N;
    Ok (len, off, false)
  else if (l =? 128)%N then Ok (0%N, offset, true)
  else Ok (l, offset, false).

Definition read_header (ber : list byte) (offset : nat) : outcome header :=
  do '(b, tagEnd) <- read_tag ber offset;
  do '(len, off, indefinite) <- read_length ber tagEnd;
  Ok (mkHeader offset tagEnd (N.land b 32) indefinite len off).

(* the loop "for (offset < contentEnd) || indefinite { subObj, offset, err = readObject(...) ... }"
   over an abstract reader of one child; children are accumulated in reverse *)
Section Children.
  Variable rd : budget -> nat -> outcome (obj * nat * budget).
  Variable ber : list byte.
  Variable contentEnd : nat.
  Variable indefinite : bool.

  Fixpoint children_loop (n : nat) (offset : nat) (acc : list obj) (bud : budget)
    : outcome (list obj * nat * budget) :=
    if (Nat.ltb offset contentEnd || indefinite)%bool then
      match n with
      | O => Hang
      | S n' =>
        do '(sub, off', bud') <- rd bud offset;
        if (negb indefinite && Nat.ltb contentEnd off')%bool then Err 10 else
        if indefinite then
          do t <- isIndefiniteTermination ber off';
          if (t : bool) then Ok (rev (sub :: acc), off', bud')
          else children_loop n' off' (sub :: acc) bud'
        else children_loop n' off' (sub :: acc) bud'
      end
    else Ok (rev acc, offset, bud).
End Children.

(* func readObject(ber, offset, depth) (asn1Object, int, error) *)
Fixpoint readObject (fuel : nat) (bud : budget) (ber : list byte) (offset depth : nat)
  : outcome (obj * nat * budget) :=
  match fuel with
  | O => Hang
  | S fuel' =>
    do bud <- tick bud;
    if Nat.ltb maxBERDepth depth then Err 3 else
    do h <- read_header ber offset;
    let offset := h_offset h in
    if (N.of_nat (Nat.sub (length ber) offset) <? h_len h)%N then Err 7 else
    let contentEnd := offset + N.to_nat (h_len h) in
    if (h_indefinite h && (h_kind h =? 0)%N)%bool then Err 8 else
    if (h_kind h =? 0)%N then
      do tb <- slice ber (h_tagStart h) (h_tagEnd h);
      do c <- slice ber offset contentEnd;
      Ok (Prim tb (h_len h) c, contentEnd, bud)
    else
      do '(subs, offset', bud') <-
         children_loop (fun b o => readObject fuel' b ber o (S depth)) ber contentEnd (h_indefinite h)
                       (S (length ber)) offset [] bud;
      do tb <- slice ber (h_tagStart h) (h_tagEnd h);
      Ok (Struct tb subs, (if h_indefinite h then offset' + 2 else contentEnd), bud')
  end.

(* func ber2der(ber []byte) ([]byte, error); fuel: one unit per nesting level up to the cap, the
   level beyond the cap returns at once *)
Definition ber_fuel : nat := maxBERDepth + 2.

Definition ber2der_with (fuel : nat) (bud : budget) (ber : list byte) : outcome (list byte) :=
  match ber with
  | [] => Err 0
  | _ => do '(o, _, _) <- readObject fuel bud ber 0 0; Ok (encode o)
  end.

Definition ber2der (ber : list byte) : outcome (list byte) := ber2der_with ber_fuel None ber.

(* the same with at most [steps] calls of readObject *)
Definition ber2der_budget (steps : N) (ber : list byte) : outcome (list byte) :=
  ber2der_with ber_fuel (Some steps) ber.

(* nesting depth of a decoded object *)
Fixpoint obj_depth (o : obj) : nat :=
  match o with
  | Prim _ _ _ => 0
  | Struct _ cs => S (list_max (map obj_depth cs))
  end.

(* the family of the repaired cost defect (children running past their parent): X 0 = 05 00, X (k+1) = 30 02 30 LL (X k), LL = |X k| < 128 *)
Fixpoint overlap_input (k : nat) : list byte :=
  match k with
  | O => [5; 0]%N
  | S k' => let r := overlap_input k' in [48; 2; 48; N.of_nat (length r)]%N ++ r
  end.
