(* Checked accesses shared by the decoder models of C18: every Go index / slice expression of a
   modelled decoder goes through one of these and yields Panic exactly when Go would panic.
   Slices are modelled with cap = len (a slice expression reaching beyond len is reported as Panic;
   Go would only panic beyond cap, but would then read bytes that are not part of the input).
   No proofs in this file. *)
From Coq Require Import List NArith Arith Bool.
From GmsmVerif Require Import Lib.Outcome.
Import ListNotations.

Notation byte := N (only parsing).

(* well-formed byte strings: every element below 256 (shared by theorems and generators) *)
Definition bytes_okb (b : list byte) : bool := forallb (fun x => (x <? 256)%N) b.
Definition bytes_ok (b : list byte) : Prop := Forall (fun x => (x < 256)%N) b.

(* b[i] *)
Definition at_ (b : list byte) (i : nat) : outcome byte :=
  match nth_error b i with Some x => Ok x | None => Panic end.

(* b[lo:hi] *)
Definition slice (b : list byte) (lo hi : nat) : outcome (list byte) :=
  if (Nat.leb lo hi && Nat.leb hi (length b))%bool then Ok (firstn (hi - lo) (skipn lo b)) else Panic.

(* b[lo:] *)
Definition slice_from (b : list byte) (lo : nat) : outcome (list byte) :=
  if Nat.leb lo (length b) then Ok (skipn lo b) else Panic.

(* b[:hi] *)
Definition slice_to (b : list byte) (hi : nat) : outcome (list byte) :=
  if Nat.leb hi (length b) then Ok (firstn hi b) else Panic.

(* big-endian value of a byte string (big.Int.SetBytes, length fields) *)
Definition be_value (b : list byte) : N := fold_left (fun acc x => (acc * 256 + x)%N) b 0%N.

(* an error return or a value: everything the property allows *)
Definition fails_closed {A} (o : outcome A) : Prop := no_crash o.
