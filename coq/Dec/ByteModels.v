(* Byte-level models of the hand-written decoders of gmsm other than ber2der (C18), function by
   function, with checked accesses (Dec/Access.v).  No proofs in this file.

     x509/pkcs7.go      pad, unpad, the CBC branch of encryptedContentInfo.decrypt (gate + unpad)
     sm2/sm2.go         Decrypt (length gate and C1/C3/C2 slicing, both orderings), CipherMarshal,
                        CipherUnmarshal (post-ASN.1 part)
     sm2/utils.go       Decompress (input validation)
     x509/pkcs8.go      ParsePKCS8EcryptedPrivateKey (post-ASN.1 part), ParseSm2PrivateKey (post-ASN.1)
     x509/utils.go      ReadPublicKeyFromHex, ReadPrivateKeyFromHex (hex.DecodeString modelled)
     gmtls/ticket.go    sessionState.unmarshal, decryptTicket (MAC and CTR abstract)
     gmtls/gm_handshake_messages.go   certificateRequestMsgGM.unmarshal
     gmtls/gm_key_agreement.go        length logic of the three GM key-exchange parsers

   What stdlib does (encoding/asn1, math/big, the crypto packages) appears as inputs that are already parsed
   or as Section variables.  A Go "return false" / "return nil" is Err.                           *)
From Coq Require Import List NArith Arith Bool.
From GmsmVerif Require Import Lib.Outcome Dec.Access Gen.DecConsts.
Import ListNotations.
Local Open Scope nat_scope.

(* =============================== x509/pkcs7.go =============================================== *)
(* func pad(data, blocklen): blocklen < 1 is an error; byte(padlen) wraps above 255 *)
Definition pad (data : list byte) (blocklen : nat) : outcome (list byte) :=
  if Nat.ltb blocklen 1 then Err 1 else
  let padlen := blocklen - length data mod blocklen in
  let padlen := if Nat.eqb padlen 0 then blocklen else padlen in
  Ok (data ++ repeat (N.of_nat padlen mod 256)%N padlen).

(* func unpad(data, blocklen) *)
Definition unpad (data : list byte) (blocklen : nat) : outcome (list byte) :=
  if Nat.ltb blocklen 1 then Err 1 else
  if (negb (Nat.eqb (length data mod blocklen) 0) || Nat.eqb (length data) 0)%bool then Err 2 else
  do last <- at_ data (length data - 1);
  let padlen := N.to_nat last in
  if (Nat.eqb padlen 0 || Nat.ltb blocklen padlen || Nat.ltb (length data) padlen)%bool then Err 3 else
  do pd <- slice_from data (length data - padlen);
  if forallb (fun b => (b =? N.of_nat padlen mod 256)%N) pd
  then slice_to data (length data - padlen) else Err 3.

(* cipher.NewCBCDecrypter panics on an IV of the wrong length, CryptBlocks on ragged input *)
Definition new_cbc (bs ivlen : nat) : outcome unit := if Nat.eqb ivlen bs then Ok tt else Panic.
Definition crypt_blocks (bs n : nat) : outcome unit := if Nat.eqb (n mod bs) 0 then Ok tt else Panic.

(* the CBC branch of encryptedContentInfo.decrypt after the key is known: the block cipher is a
   function on whole ciphertexts (length preserving); bs = block.BlockSize() >= 1 *)
Definition p7_cbc_decrypt (bs : nat) (dec : list byte -> list byte) (iv cyphertext : list byte)
  : outcome (list byte) :=
  if negb (Nat.eqb (length iv) bs) then Err 4 else
  if (Nat.eqb (length cyphertext) 0 || negb (Nat.eqb (length cyphertext mod bs) 0))%bool then Err 5 else
  do _ <- new_cbc bs (length iv);
  do _ <- crypt_blocks bs (length cyphertext);
  unpad (dec cyphertext) bs.

(* =============================== sm2/sm2.go ================================================== *)
Definition C1C3C2 : nat := 0.
Definition C1C2C3 : nat := 1.

(* func Decrypt(priv, data, mode) up to the scalar multiplication: length gate, 0x04 prefix,
   C1/C3/C2 slicing for both orderings, C1 on the curve (abstract test) with coordinates below p.
   Result = (x1, y1, C3, C2) as Decrypt goes on to use them *)
Definition decrypt_gate (on_curve : N -> N -> bool) (mode : nat) (data : list byte)
  : outcome (N * N * list byte * list byte) :=
  if Nat.ltb (length data) (1 + 64 + 32 + 1) then Err 1 else
  do d0 <- at_ data 0;
  if negb (d0 =? 4)%N then Err 2 else
  do data <- (if Nat.eqb mode C1C2C3 then
                do data <- slice_from data 1;
                do c1 <- slice_to data 64;
                do c2 <- slice data 64 (length data - 32);
                do c3 <- slice_from data (length data - 32);
                Ok (c1 ++ c3 ++ c2)
              else slice_from data 1);
  let length_ := length data - 96 in
  do xs <- slice_to data 32;
  do ys <- slice data 32 64;
  let x := be_value xs in
  let y := be_value ys in
  if negb (on_curve x y) then Err 3 else
  if ((gen_sm2_P <=? x) || (gen_sm2_P <=? y))%N%bool then Err 4 else
  do c2 <- slice data 96 (96 + length_);      (* data[i+96] for i < length *)
  do h <- slice data 64 96;
  Ok (x, y, h, c2).

(* func CipherMarshal(data): the four fields handed to asn1.Marshal *)
Definition cipherMarshal_gate (data : list byte)
  : outcome (list byte * list byte * list byte * list byte) :=
  if Nat.ltb (length data) (1 + 64 + 32) then Err 1 else
  do data <- slice_from data 1;
  do x <- slice_to data 32;
  do y <- slice data 32 64;
  do h <- slice data 64 96;
  do c <- slice_from data 96;
  Ok (x, y, h, c).

Definition zeroByteSlice : list byte := repeat 0%N 32.

(* func CipherUnmarshal(data) after asn1.Unmarshal succeeded: x, y are big.Int.Bytes() (minimal
   magnitude), xneg / yneg their Sign() < 0 *)
Definition cipherUnmarshal_post (xneg yneg : bool) (x y hash cipherText : list byte)
  : outcome (list byte) :=
  if (xneg || yneg || Nat.ltb 32 (length x) || Nat.ltb 32 (length y) || negb (Nat.eqb (length hash) 32))%bool
  then Err 2 else
  do x <- (if Nat.ltb (length x) 32 then do z <- slice_to zeroByteSlice (32 - length x); Ok (z ++ x) else Ok x);
  do y <- (if Nat.ltb (length y) 32 then do z <- slice_to zeroByteSlice (32 - length y); Ok (z ++ y) else Ok y);
  Ok (4%N :: x ++ y ++ hash ++ cipherText).

(* =============================== sm2/utils.go ================================================ *)
(* func Decompress(a): validation before the square root; Ok x = the abscissa that goes on *)
Definition decompress_gate (a : list byte) : outcome N :=
  if negb (Nat.eqb (length a) 33) then Err 1 else
  do a0 <- at_ a 0;
  if (1 <? a0)%N then Err 1 else
  do xs <- slice_from a 1;
  let x := be_value xs in
  if (gen_sm2_P <=? x)%N then Err 2 else Ok x.

(* =============================== x509/pkcs8.go =============================================== *)
(* func ParsePKCS8EcryptedPrivateKey after asn1.Unmarshal succeeded.  The OID tests are inputs;
   prf = 0 for an unknown PRF.  The key derivation (iteration count = the format's own parameter)
   is not represented.  Ok tt = the decrypted bytes are handed to ParsePKCS8UnecryptedPrivateKey *)
Definition pkcs8_encrypted_post (isPBES2 isPBKDF2 isAESCBC : bool) (iv encryptedKey : list byte) (prf : nat)
  : outcome unit :=
  if negb isPBES2 then Err 1 else
  if negb isPBKDF2 then Err 2 else
  if negb isAESCBC then Err 3 else
  if negb (Nat.eqb (length iv) 16) then Err 4 else
  if (Nat.eqb (length encryptedKey) 0 || negb (Nat.eqb (length encryptedKey mod 16) 0))%bool then Err 5 else
  if Nat.eqb prf 0 then Err 6 else
  do _ <- new_cbc 16 (length iv);
  crypt_blocks 16 (length encryptedKey).

(* func ParseSm2PrivateKey after asn1.Unmarshal: privKey.PrivateKey -> the 32-byte scalar *)
Fixpoint strip_zeros (fuel : nat) (pk : list byte) : outcome (list byte) :=
  if Nat.ltb 32 (length pk) then
    match fuel with
    | O => Hang
    | S f => do x <- at_ pk 0;
             if negb (x =? 0)%N then Err 2 else do pk' <- slice_from pk 1; strip_zeros f pk'
    end
  else Ok pk.

Definition parseSm2PrivateKey_post (pk : list byte) : outcome (list byte) :=
  if (gen_sm2_N <=? be_value pk)%N then Err 1 else
  do pk' <- strip_zeros (length pk) pk;
  do z <- slice_to (repeat 0%N 32) (32 - length pk');     (* copy(privateKey[32-len:], pk') *)
  Ok (z ++ pk').

(* =============================== x509/utils.go =============================================== *)
Definition fromHexChar (c : byte) : option N :=
  if ((48 <=? c) && (c <=? 57))%N%bool then Some (c - 48)%N
  else if ((97 <=? c) && (c <=? 102))%N%bool then Some (c - 97 + 10)%N
  else if ((65 <=? c) && (c <=? 70))%N%bool then Some (c - 65 + 10)%N
  else None.

(* encoding/hex DecodeString: an error for an odd length or a non-hex character *)
Fixpoint hex_decode (s : list byte) : outcome (list byte) :=
  match s with
  | [] => Ok []
  | [_] => Err 1
  | a :: b :: r =>
    match fromHexChar a, fromHexChar b with
    | Some h, Some l => do t <- hex_decode r; Ok ((h * 16 + l)%N :: t)
    | _, _ => Err 1
    end
  end.

(* func ReadPublicKeyFromHex(Qhex): (X bytes, Y bytes) *)
Definition readPublicKeyFromHex (qhex : list byte) : outcome (list byte * list byte) :=
  do q <- hex_decode qhex;
  do q <- (if Nat.eqb (length q) 65
           then do q0 <- at_ q 0; if (q0 =? 4)%N then slice_from q 1 else Ok q
           else Ok q);
  if negb (Nat.eqb (length q) 64) then Err 2 else
  do x <- slice_to q 32;
  do y <- slice_from q 32;
  Ok (x, y).

(* func ReadPrivateKeyFromHex(Dhex): the scalar D *)
Definition readPrivateKeyFromHex (dhex : list byte) : outcome N :=
  do d <- hex_decode dhex;
  let k := be_value d in
  if (gen_sm2_N - 1 <=? k)%N then Err 2 else Ok k.

(* =============================== gmtls/ticket.go ============================================= *)
Definition u16 (a b : byte) : nat := N.to_nat (a * 256 + b)%N.

Record sessionState := mkSession {
  ss_vers : N; ss_cipherSuite : N; ss_masterSecret : list byte; ss_certificates : list (list byte) }.

(* the loop "for i := range s.certificates" *)
Fixpoint unmarshal_certs (n : nat) (data : list byte) (acc : list (list byte))
  : outcome (list (list byte) * list byte) :=
  match n with
  | O => Ok (rev acc, data)
  | S n' =>
    if Nat.ltb (length data) 4 then Err 1 else
    do b0 <- at_ data 0; do b1 <- at_ data 1; do b2 <- at_ data 2; do b3 <- at_ data 3;
    let certLen := (b0 * 16777216 + b1 * 65536 + b2 * 256 + b3)%N in
    do data <- slice_from data 4;
    if (N.of_nat (length data) <? certLen)%N then Err 1 else
    do cert <- slice_to data (N.to_nat certLen);
    do data <- slice_from data (N.to_nat certLen);
    unmarshal_certs n' data (cert :: acc)
  end.

(* func (s *sessionState) unmarshal(data) bool *)
Definition sessionState_unmarshal (data : list byte) : outcome sessionState :=
  if Nat.ltb (length data) 8 then Err 1 else
  do d0 <- at_ data 0; do d1 <- at_ data 1; do d2 <- at_ data 2; do d3 <- at_ data 3;
  do d4 <- at_ data 4; do d5 <- at_ data 5;
  let masterSecretLen := u16 d4 d5 in
  do data <- slice_from data 6;
  if Nat.ltb (length data) masterSecretLen then Err 1 else
  do ms <- slice_to data masterSecretLen;
  do data <- slice_from data masterSecretLen;
  if Nat.ltb (length data) 2 then Err 1 else
  do n0 <- at_ data 0; do n1 <- at_ data 1;
  let numCerts := u16 n0 n1 in
  do data <- slice_from data 2;
  do '(certs, data) <- unmarshal_certs numCerts data [];
  if Nat.eqb (length data) 0 then Ok (mkSession (d0 * 256 + d1)%N (d2 * 256 + d3)%N ms certs) else Err 1.

Definition ticketKeyNameLen : nat := N.to_nat gen_ticketKeyNameLen.
Definition aesBlockSize : nat := 16.
Definition sha256Size : nat := 32.

Fixpoint bytes_eqb (a b : list byte) : bool :=
  match a, b with
  | [], [] => true
  | x :: a', y :: b' => (x =? y)%N && bytes_eqb a' b'
  | _, _ => false
  end.

(* func (c *Conn) decryptTicket(encrypted): HMAC-SHA256 and AES-CTR are abstract functions of the
   key material of the selected ticket key; result = (state, usedOldKey) *)
Section Ticket.
  Context {K : Type}.
  Variable keyName : K -> list byte.
  Variable mac : K -> list byte -> list byte.
  Variable ctr : K -> list byte -> list byte -> list byte.      (* key, iv, data; length preserving *)

  Fixpoint find_key (keys : list K) (name : list byte) (i : nat) : option (nat * K) :=
    match keys with
    | [] => None
    | k :: r => if bytes_eqb name (keyName k) then Some (i, k) else find_key r name (S i)
    end.

  Definition decryptTicket (disabled : bool) (keys : list K) (encrypted : list byte)
    : outcome (sessionState * bool) :=
    if (disabled || Nat.ltb (length encrypted) (ticketKeyNameLen + aesBlockSize + sha256Size))%bool then Err 1 else
    do name <- slice_to encrypted ticketKeyNameLen;
    do iv <- slice encrypted ticketKeyNameLen (ticketKeyNameLen + aesBlockSize);
    do macBytes <- slice_from encrypted (length encrypted - sha256Size);
    match find_key keys name 0 with
    | None => Err 2
    | Some (keyIndex, key) =>
      do macd <- slice_to encrypted (length encrypted - sha256Size);
      if negb (bytes_eqb macBytes (mac key macd)) then Err 3 else
      do ciphertext <- slice encrypted (ticketKeyNameLen + aesBlockSize) (length encrypted - sha256Size);
      let plaintext := ctr key iv ciphertext in
      do st <- sessionState_unmarshal plaintext;
      Ok (st, Nat.ltb 0 keyIndex)
    end.
End Ticket.

(* =============================== gmtls/gm_handshake_messages.go ============================== *)
(* the loop "for len(cas) > 0" *)
Fixpoint unmarshal_cas (fuel : nat) (cas : list byte) (acc : list (list byte)) : outcome (list (list byte)) :=
  if Nat.ltb 0 (length cas) then
    match fuel with
    | O => Hang
    | S f =>
      if Nat.ltb (length cas) 2 then Err 1 else
      do c0 <- at_ cas 0; do c1 <- at_ cas 1;
      let caLen := u16 c0 c1 in
      do cas <- slice_from cas 2;
      if Nat.ltb (length cas) caLen then Err 1 else
      do ca <- slice_to cas caLen;
      do cas <- slice_from cas caLen;
      unmarshal_cas f cas (ca :: acc)
    end
  else Ok (rev acc).

(* func (m *certificateRequestMsgGM) unmarshal(data) bool: (certificateTypes, certificateAuthorities) *)
Definition certificateRequestMsgGM_unmarshal (data : list byte)
  : outcome (list byte * list (list byte)) :=
  if Nat.ltb (length data) 5 then Err 1 else
  do d1 <- at_ data 1; do d2 <- at_ data 2; do d3 <- at_ data 3;
  let length_ := (d1 * 65536 + d2 * 256 + d3)%N in
  if negb (N.of_nat (length data - 4) =? length_)%N then Err 1 else
  do d4 <- at_ data 4;
  let numCertTypes := N.to_nat d4 in
  do data <- slice_from data 5;
  if (Nat.eqb numCertTypes 0 || Nat.leb (length data) numCertTypes)%bool then Err 1 else
  let certificateTypes := firstn numCertTypes data in          (* make + copy: min of the lengths *)
  if negb (Nat.eqb (length certificateTypes) numCertTypes) then Err 1 else
  do data <- slice_from data numCertTypes;
  if Nat.ltb (length data) 2 then Err 1 else
  do c0 <- at_ data 0; do c1 <- at_ data 1;
  let casLength := u16 c0 c1 in
  do data <- slice_from data 2;
  if Nat.ltb (length data) casLength then Err 1 else
  let cas := firstn casLength data in                          (* make(casLength) + copy *)
  do data <- slice_from data casLength;
  do cas' <- unmarshal_cas (length cas) cas [];
  if Nat.eqb (length data) 0 then Ok (certificateTypes, cas') else Err 1.

(* =============================== gmtls/gm_key_agreement.go =================================== *)
(* eccKeyAgreementGM.processClientKeyExchange: the SM2 ciphertext handed to CipherUnmarshal *)
Definition ecc_processClientKeyExchange_gate (ciphertext : list byte) : outcome (list byte) :=
  if Nat.ltb (length ciphertext) 2 then Err 1 else
  do c0 <- at_ ciphertext 0; do c1 <- at_ ciphertext 1;
  if negb (Nat.eqb (u16 c0 c1) (length ciphertext - 2)) then Err 1 else
  slice_from ciphertext 2.

(* eccKeyAgreementGM.processServerKeyExchange: the signature handed to asn1.Unmarshal / Verify *)
Definition ecc_processServerKeyExchange_gate (key : list byte) : outcome (list byte) :=
  if Nat.leb (length key) 2 then Err 1 else
  do k0 <- at_ key 0; do k1 <- at_ key 1;
  if negb (Nat.eqb (u16 k0 k1 + 2) (length key)) then Err 1 else
  slice_from key 2.

(* ecdheKeyAgreementGM.processServerKeyExchange: (curve id, public key bytes, signature);
   point_ok = elliptic.Unmarshal accepted the public key *)
Definition ecdhe_processServerKeyExchange_gate (point_ok : list byte -> bool) (key : list byte)
  : outcome (N * list byte * list byte) :=
  if Nat.ltb (length key) 4 then Err 1 else
  do k0 <- at_ key 0;
  if negb (k0 =? 3)%N then Err 2 else
  do k1 <- at_ key 1; do k2 <- at_ key 2; do k3 <- at_ key 3;
  let publicLen := N.to_nat k3 in
  if Nat.ltb (length key) (publicLen + 4) then Err 1 else
  do serverECDHParams <- slice_to key (4 + publicLen);
  do publicKey <- slice_from serverECDHParams 4;
  do sig <- slice_from key (4 + publicLen);
  if Nat.ltb (length sig) 2 then Err 1 else
  if negb (point_ok publicKey) then Err 1 else
  do s0 <- at_ sig 0; do s1 <- at_ sig 1;
  if negb (Nat.eqb (u16 s0 s1 + 2) (length sig)) then Err 1 else
  do sig <- slice_from sig 2;
  Ok ((k1 * 256 + k2)%N, publicKey, sig).
