(* ber2der is the identity on DER: for every well-formed DER value (Dec/DecSpec.v: definite minimal
   lengths below 2^31, one-octet identifiers, proper nesting, depth within the cap) the model of
   x509.ber2der returns its input. *)
From Coq Require Import List NArith ZArith Arith Bool Lia ZifyN ZifyNat ZifyBool.
From GmsmVerif Require Import Lib.Outcome Dec.Access Dec.AccessProofs Dec.DecSpec Dec.BerModel Dec.BerProofs.
Import ListNotations.
Local Open Scope nat_scope.

Ltac Zify.zify_post_hook ::= Z.div_mod_to_equations.

(* ---------- lengths ------------------------------------------------------------------------------ *)
Lemma encodeLength_der n : (n < 2147483648)%N -> encodeLength n = der_length_octets n.
Proof.
  intros Hn. unfold encodeLength, der_length_octets, marshalLongLength, lengthLength.
  destruct (N.ltb_spec n 128) as [H1|H1].
  { destruct (N.leb_spec 128 n); [lia|reflexivity]. }
  destruct (N.leb_spec 128 n); [|lia].
  destruct (N.ltb_spec n 256) as [H2|H2].
  { cbn [lengthLength_go]. destruct (N.ltb_spec 255 n); [lia|].
    cbn [marshalLongLength_go Nat.mul N.of_nat N.mul]. f_equal. f_equal.
    change (2 ^ 0)%N with 1%N. rewrite N.div_1_r. apply N.mod_small; lia. }
  destruct (N.ltb_spec n 65536) as [H3|H3].
  { cbn [lengthLength_go]. destruct (N.ltb_spec 255 n); [|lia].
    destruct (N.ltb_spec 255 (n / 256)); [lia|].
    cbn [marshalLongLength_go]. change (2 ^ (8 * N.of_nat 1))%N with 256%N. change (2 ^ (8 * N.of_nat 0))%N with 1%N.
    rewrite N.div_1_r. f_equal. f_equal. apply N.mod_small; lia. }
  destruct (N.ltb_spec n 16777216) as [H4|H4].
  { cbn [lengthLength_go]. destruct (N.ltb_spec 255 n); [|lia].
    destruct (N.ltb_spec 255 (n / 256)); [|lia].
    destruct (N.ltb_spec 255 (n / 256 / 256)); [lia|].
    cbn [marshalLongLength_go].
    change (2 ^ (8 * N.of_nat 2))%N with 65536%N. change (2 ^ (8 * N.of_nat 1))%N with 256%N. change (2 ^ (8 * N.of_nat 0))%N with 1%N.
    rewrite N.div_1_r. f_equal. f_equal. apply N.mod_small; lia. }
  cbn [lengthLength_go]. destruct (N.ltb_spec 255 n); [|lia].
  destruct (N.ltb_spec 255 (n / 256)); [|lia].
  destruct (N.ltb_spec 255 (n / 256 / 256)); [|lia].
  destruct (N.ltb_spec 255 (n / 256 / 256 / 256)); [lia|].
  cbn [marshalLongLength_go].
  change (2 ^ (8 * N.of_nat 3))%N with 16777216%N. change (2 ^ (8 * N.of_nat 2))%N with 65536%N.
  change (2 ^ (8 * N.of_nat 1))%N with 256%N. change (2 ^ (8 * N.of_nat 0))%N with 1%N.
  rewrite N.div_1_r. f_equal. f_equal. apply N.mod_small; lia.
Qed.

Lemma len_loop_from n : forall ber off acc bs l,
  skipn off ber = bs ++ l -> length bs = n ->
  len_loop n ber off acc = Ok (fold_left (fun a x => (a * 256 + x)%N) bs acc, off + n).
Proof.
  induction n as [|n IH]; intros ber off acc bs l H Hn; destruct bs as [|b bs]; try discriminate; cbn [len_loop].
  - rewrite Nat.add_0_r. reflexivity.
  - replace off with (off + 0) at 1 by lia. rewrite (at_from ber off 0 _ H). cbn [app at_ nth_error obind].
    replace (S off) with (off + length [b]) by (cbn; lia).
    rewrite (IH ber (off + length [b]) (acc * 256 + b)%N bs l); [cbn [fold_left length]; f_equal; f_equal; lia| |cbn in Hn; lia].
    apply (skipn_more ber off [b]). exact H.
Qed.

Ltac fin3 := match goal with |- Ok (?a, ?b, ?c) = Ok (?a', ?b', ?c') =>
  replace a with a' by lia; replace b with b' by lia; reflexivity end.

Lemma read_length_der ber off n l :
  (n < 2147483648)%N -> skipn off ber = der_length_octets n ++ l ->
  read_length ber off = Ok (n, off + length (der_length_octets n), false).
Proof.
  intros Hn H. pose proof (len_from ber off _ H) as HL. rewrite app_length in HL.
  unfold read_length.
  assert (Hpos : 1 <= length (der_length_octets n)).
  { unfold der_length_octets. repeat match goal with |- context [if ?c then _ else _] => destruct c end; cbn; lia. }
  destruct (Nat.leb_spec (length ber) off); [lia|].
  replace off with (off + 0) at 1 by lia. rewrite (at_from ber off 0 _ H).
  unfold der_length_octets in *.
  destruct (N.ltb_spec n 128) as [H1|H1].
  { cbn [app at_ nth_error obind]. destruct (N.ltb_spec 128 n); [lia|]. destruct (N.eqb_spec n 128); [lia|].
    cbn [length]. fin3. }
  destruct (N.ltb_spec n 256) as [H2|H2].
  { cbn [app at_ nth_error obind]. change (128 <? 129)%N with true. cbv iota.
    change (N.to_nat (N.land 129 127)) with 1. change (Nat.ltb 4 1) with false. cbv iota.
    cbn [length app] in HL. destruct (Nat.ltb_spec (length ber - S off) 1); [lia|].
    replace (S off) with (off + 1) by lia.
    rewrite (at_from ber off 1 _ H). cbn [app at_ nth_error obind]. change (Nat.eqb 1 4) with false. cbn [andb].
    destruct (N.eqb_spec n 0); [lia|].
    rewrite (len_loop_from 1 ber (off + 1) 0%N [n] l); [|apply (skipn_more ber off [129%N]); exact H|reflexivity].
    cbn [obind fold_left length]. fin3. }
  destruct (N.ltb_spec n 65536) as [H3|H3].
  { cbn [app at_ nth_error obind]. change (128 <? 130)%N with true. cbv iota.
    change (N.to_nat (N.land 130 127)) with 2. change (Nat.ltb 4 2) with false. cbv iota.
    cbn [length app] in HL. destruct (Nat.ltb_spec (length ber - S off) 2); [lia|].
    replace (S off) with (off + 1) by lia.
    rewrite (at_from ber off 1 _ H). cbn [app at_ nth_error obind]. change (Nat.eqb 2 4) with false. cbn [andb].
    destruct (N.eqb_spec (n / 256) 0); [lia|].
    rewrite (len_loop_from 2 ber (off + 1) 0%N [n / 256; n mod 256]%N l); [|apply (skipn_more ber off [130%N]); exact H|reflexivity].
    cbn [obind fold_left length]. fin3. }
  destruct (N.ltb_spec n 16777216) as [H4|H4].
  { cbn [app at_ nth_error obind]. change (128 <? 131)%N with true. cbv iota.
    change (N.to_nat (N.land 131 127)) with 3. change (Nat.ltb 4 3) with false. cbv iota.
    cbn [length app] in HL. destruct (Nat.ltb_spec (length ber - S off) 3); [lia|].
    replace (S off) with (off + 1) by lia.
    rewrite (at_from ber off 1 _ H). cbn [app at_ nth_error obind]. change (Nat.eqb 3 4) with false. cbn [andb].
    destruct (N.eqb_spec (n / 65536) 0); [lia|].
    rewrite (len_loop_from 3 ber (off + 1) 0%N [n / 65536; (n / 256) mod 256; n mod 256]%N l); [|apply (skipn_more ber off [131%N]); exact H|reflexivity].
    cbn [obind fold_left length]. fin3. }
  cbn [app at_ nth_error obind]. change (128 <? 132)%N with true. cbv iota.
  change (N.to_nat (N.land 132 127)) with 4. change (Nat.ltb 4 4) with false. cbv iota.
  cbn [length app] in HL. destruct (Nat.ltb_spec (length ber - S off) 4); [lia|].
  replace (S off) with (off + 1) by lia.
  rewrite (at_from ber off 1 _ H). cbn [app at_ nth_error obind]. change (Nat.eqb 4 4) with true. cbn [andb].
  destruct (N.ltb_spec 127 (n / 16777216)); [lia|].
  destruct (N.eqb_spec (n / 16777216) 0); [lia|].
  rewrite (len_loop_from 4 ber (off + 1) 0%N [n / 16777216; (n / 65536) mod 256; (n / 256) mod 256; n mod 256]%N l);
    [|apply (skipn_more ber off [132%N]); exact H|reflexivity].
  cbn [obind fold_left length]. fin3.
Qed.

(* ---------- header ------------------------------------------------------------------------------- *)
Lemma read_header_der ber off t n l :
  N.land t 31 <> 31%N -> (n < 2147483648)%N ->
  skipn off ber = t :: der_length_octets n ++ l ->
  read_header ber off =
    Ok (mkHeader off (S off) (N.land t 32) false n (S off + length (der_length_octets n))).
Proof.
  intros Ht Hn H. pose proof (len_from ber off _ H) as HL. cbn [length] in HL.
  unfold read_header, read_tag.
  destruct (Nat.leb_spec (length ber) off); [lia|].
  replace off with (off + 0) at 1 by lia. rewrite (at_from ber off 0 _ H). cbn [at_ nth_error obind].
  destruct (N.eqb_spec (N.land t 31) 31); [contradiction|]. cbn [obind].
  assert (H' : skipn (S off) ber = der_length_octets n ++ l).
  { replace (S off) with (off + length [t]) by (cbn; lia). apply (skipn_more ber off [t]). exact H. }
  rewrite (read_length_der ber (S off) n l Hn H'). cbn [obind]. reflexivity.
Qed.

Lemma dwf_children d cs :
  (fix all (l : list dobj) : Prop := match l with [] => True | x :: r => dwf d x /\ all r end) cs <-> Forall (dwf d) cs.
Proof.
  induction cs as [|c cs IH]; [split; [constructor|exact (fun _ => I)]|].
  split.
  - intros [H1 H2]. constructor; [exact H1|apply IH; exact H2].
  - intros H. inversion H; subst. split; [assumption|apply IH; assumption].
Qed.

Lemma denc_len_ge2 o : 2 <= length (denc o).
Proof.
  destruct o; cbn [denc length]; rewrite app_length;
    unfold der_length_octets; repeat match goal with |- context [if ?c then _ else _] => destruct c end; cbn [length]; lia.
Qed.

(* ---------- the child loop over DER children ------------------------------------------------------ *)
Section DerChildren.
  Variable d fuel depth : nat.
  Variable ber : list N.
  Hypothesis IHobj : forall o off l,
    dwf d o -> off <= length ber -> skipn off ber = denc o ++ l ->
    exists ob, readObject fuel None ber off (S depth) = Ok (ob, off + length (denc o), None) /\ encode ob = denc o.

  Lemma children_der : forall cs n off acc l,
    Forall (dwf d) cs -> off <= length ber -> skipn off ber = concat (map denc cs) ++ l ->
    n + off > length ber ->
    exists obs,
      children_loop (fun b o => readObject fuel b ber o (S depth)) ber (off + length (concat (map denc cs))) false n off acc None
        = Ok (rev acc ++ obs, off + length (concat (map denc cs)), None) /\
      concat (map encode obs) = concat (map denc cs).
  Proof.
    induction cs as [|c cs IH]; intros n off acc l Hwf Hoff Hs Hn.
    - cbn [map concat length]. rewrite Nat.add_0_r.
      destruct n; cbn [children_loop]; rewrite Nat.ltb_irrefl; cbn [orb];
        exists []; rewrite app_nil_r; split; reflexivity.
    - inversion Hwf as [|? ? Hc Hcs]; subst. cbn [map concat] in *. rewrite app_length.
      pose proof (denc_len_ge2 c) as H2.
      pose proof (len_from ber off _ Hs) as HL. rewrite !app_length in HL.
      destruct n as [|n]; [lia|]. cbn [children_loop].
      destruct (Nat.ltb_spec off (off + (length (denc c) + length (concat (map denc cs))))); [|lia]. cbn [orb].
      rewrite <- app_assoc in Hs.
      destruct (IHobj c off _ Hc Hoff Hs) as (ob & Hrd & Henc). rewrite Hrd. cbn [obind negb andb].
      destruct (Nat.ltb_spec (off + (length (denc c) + length (concat (map denc cs)))) (off + length (denc c))); [lia|].
      pose proof (skipn_more ber off (denc c) _ Hs) as Hs'.
      destruct (IH n (off + length (denc c)) (ob :: acc) l Hcs ltac:(lia) Hs' ltac:(lia)) as (obs & Hl & He).
      replace (off + length (denc c) + length (concat (map denc cs)))
        with (off + (length (denc c) + length (concat (map denc cs)))) in Hl by lia.
      rewrite Hl. exists (ob :: obs). split.
      + cbn [rev]. rewrite <- app_assoc. reflexivity.
      + cbn [map concat]. rewrite Henc, He. reflexivity.
  Qed.
End DerChildren.

(* ---------- readObject on DER ---------------------------------------------------------------------- *)
Lemma readObject_der_prim t c fuel ber off depth l :
  (t < 256)%N /\ N.land t 31 <> 31%N /\ N.land t 32 = 0%N /\
      Forall (fun x => (x < 256)%N) c /\ (N.of_nat (length c) < 2147483648)%N ->
  0 < fuel -> depth <= maxBERDepth -> off <= length ber ->
  skipn off ber = denc (DPrim t c) ++ l ->
  exists ob, readObject fuel None ber off depth = Ok (ob, off + length (denc (DPrim t c)), None) /\
             encode ob = denc (DPrim t c).
Proof.
  intros (Ht & H31 & H32 & Hc & Hlen) Hfuel Hdepth Hoff Hs.
  destruct fuel as [|fuel]; [lia|]. cbn [readObject tick obind].
  destruct (Nat.ltb_spec maxBERDepth depth); [lia|].
  cbn [denc] in *. cbn [app] in Hs. rewrite <- app_assoc in Hs.
  rewrite (read_header_der ber off t _ _ H31 Hlen Hs).
  cbn [obind h_offset h_len h_indefinite h_kind h_tagStart h_tagEnd].
  pose proof (len_from ber off _ Hs) as HL. cbn [length] in HL. rewrite !app_length in HL.
  set (o1 := S off + length (der_length_octets (N.of_nat (length c)))) in *.
  destruct (N.ltb_spec (N.of_nat (length ber - o1)) (N.of_nat (length c))); [unfold o1 in *; lia|].
  rewrite H32. cbn [andb N.eqb]. rewrite Nat2N.id.
  rewrite (slice_ok ber off (S off)) by lia.
  assert (Hs2 : skipn o1 ber = c ++ l).
  { unfold o1. replace (S off + length (der_length_octets (N.of_nat (length c))))
      with (off + length (t :: der_length_octets (N.of_nat (length c)))) by (cbn [length]; lia).
    apply (skipn_more ber off (t :: der_length_octets (N.of_nat (length c)))). exact Hs. }
  cbn [obind].
  rewrite (slice_from_suffix ber o1 c l ltac:(unfold o1; lia) Hs2). cbn [obind].
  eexists. split; [f_equal; f_equal; f_equal; unfold o1; cbn [length]; rewrite app_length; lia|].
  cbn [encode]. rewrite encodeLength_der by exact Hlen.
  replace (S off - off) with 1 by lia. rewrite Hs. reflexivity.
Qed.

Lemma readObject_der : forall d o fuel ber off depth l,
  dwf d o -> d < fuel -> depth + d <= maxBERDepth -> off <= length ber ->
  skipn off ber = denc o ++ l ->
  exists ob, readObject fuel None ber off depth = Ok (ob, off + length (denc o), None) /\ encode ob = denc o.
Proof.
  induction d as [|d IHd]; intros o fuel ber off depth l Hwf Hfuel Hdepth Hoff Hs;
    destruct o as [t c|t cs].
  - apply (readObject_der_prim t c fuel ber off depth l); auto; lia.
  - cbn [dwf] in Hwf. destruct Hwf as (_ & _ & _ & _ & []).
  - apply (readObject_der_prim t c fuel ber off depth l); auto; lia.
  - cbn [dwf] in Hwf. destruct Hwf as (Ht & H31 & H32 & Hlen & Hall). apply dwf_children in Hall.
    destruct fuel as [|fuel]; [lia|]. cbn [readObject tick obind].
    destruct (Nat.ltb_spec maxBERDepth depth); [lia|].
    cbn [denc] in *. set (inner := concat (map denc cs)) in *.
    cbn [app] in Hs. rewrite <- app_assoc in Hs.
    rewrite (read_header_der ber off t _ _ H31 Hlen Hs).
    cbn [obind h_offset h_len h_indefinite h_kind h_tagStart h_tagEnd].
    pose proof (len_from ber off _ Hs) as HL. cbn [length] in HL. rewrite !app_length in HL.
    set (o1 := S off + length (der_length_octets (N.of_nat (length inner)))) in *.
    destruct (N.ltb_spec (N.of_nat (length ber - o1)) (N.of_nat (length inner))); [unfold o1 in *; lia|].
    rewrite H32. cbn [andb]. change (32 =? 0)%N with false. cbv iota.
    rewrite Nat2N.id.
    assert (Hs2 : skipn o1 ber = inner ++ l).
    { unfold o1. replace (S off + length (der_length_octets (N.of_nat (length inner))))
        with (off + length (t :: der_length_octets (N.of_nat (length inner)))) by (cbn [length]; lia).
      apply (skipn_more ber off (t :: der_length_octets (N.of_nat (length inner)))). exact Hs. }
    destruct (children_der d fuel depth ber
                (fun o off l Hw Ho Hsk => IHd o fuel ber off (S depth) l Hw ltac:(lia) ltac:(lia) Ho Hsk)
                cs (S (length ber)) o1 [] l Hall ltac:(unfold o1; lia) Hs2 ltac:(lia)) as (obs & Hl & He).
    fold inner in Hl. rewrite Hl. cbn [obind rev app].
    rewrite (slice_ok ber off (S off)) by lia. cbn [obind].
    eexists. split; [f_equal; f_equal; f_equal; unfold o1; cbn [length]; rewrite app_length; lia|].
    cbn [encode]. rewrite He. fold inner. rewrite encodeLength_der by exact Hlen.
    replace (S off - off) with 1 by lia. rewrite Hs. reflexivity.
Qed.

Theorem ber2der_identity_on_der d o :
  dwf d o -> d <= maxBERDepth -> ber2der (denc o) = Ok (denc o).
Proof.
  intros Hwf Hd. unfold ber2der, ber2der_with.
  pose proof (denc_len_ge2 o) as H2.
  destruct (denc o) as [|x r] eqn:E; [cbn in H2; lia|]. rewrite <- E.
  destruct (readObject_der d o ber_fuel (denc o) 0 0 [] Hwf ltac:(unfold ber_fuel; lia) ltac:(lia) ltac:(lia)
              ltac:(cbn [skipn]; rewrite app_nil_r; reflexivity)) as (ob & Hr & He).
  rewrite Hr. cbn [obind]. rewrite He. reflexivity.
Qed.
