(* The encoding/asn1 model instantiated for real gmsm structures (no proofs here):
     sm2.sm2Signature / x509.ecdsaSignature   SEQUENCE { r INTEGER, s INTEGER }   (SignDataToSignDigit, checkSignature)
     sm2.sm2Cipher                            SEQUENCE { x, y INTEGER, hash, cipherText OCTET STRING }   (CipherUnmarshal)
     x509.certificate (outer split)           SEQUENCE { tbs ANY-as-RawValue, AlgorithmIdentifier { OID, params RawValue OPTIONAL }, BIT STRING }
   and the gmsm functions built directly on them. *)
From Coq Require Import List NArith ZArith Bool Arith.
From GmsmVerif Require Import Lib.Outcome Dec.Access Dec.Asn1Model Dec.ByteModels.
Import ListNotations.
Local Open Scope nat_scope.

Definition sigSchema : kind := KStruct false [(noParams, KBigInt); (noParams, KBigInt)].
Definition cipherSchema : kind :=
  KStruct false [(noParams, KBigInt); (noParams, KBigInt); (noParams, KOctets); (noParams, KOctets)].
Definition algIdSchema : kind :=
  KStruct false [(noParams, KOID); (mkParams true false None false, KRawValue)].
(* the three top-level members of a certificate, the TBSCertificate kept as one raw element *)
Definition certOuterSchema : kind :=
  KStruct true [(noParams, KRawValue); (noParams, algIdSchema); (noParams, KBitString)].

(* func SignDataToSignDigit(sign) (r, s, err): trailing bytes behind the SEQUENCE are ignored *)
Definition signDataToSignDigit (sign : list byte) : outcome (Z * Z) :=
  do '(v, _, _) <- Unmarshal sigSchema noParams sign;
  match v with
  | VStruct _ [VInt r; VInt s] => Ok (r, s)
  | _ => Panic                                   (* unreachable: the schema has two big.Int fields *)
  end.

(* big.Int.Bytes(): big-endian magnitude without leading zeros *)
Fixpoint strip0 (b : list byte) : list byte :=
  match b with 0%N :: r => strip0 r | _ => b end.
Fixpoint n_bytes_go (fuel : nat) (x : N) (acc : list byte) : list byte :=
  match fuel with
  | O => acc
  | S f => if (x =? 0)%N then acc else n_bytes_go f (x / 256)%N ((x mod 256)%N :: acc)
  end.
Definition big_bytes (z : Z) : list byte := let x := Z.abs_N z in n_bytes_go (S (N.to_nat (N.log2 x))) x [].

(* func CipherUnmarshal(data): asn1.Unmarshal into sm2Cipher, then the post-processing of Dec/ByteModels.v *)
Definition cipherUnmarshal (data : list byte) : outcome (list byte) :=
  do '(v, _, _) <- Unmarshal cipherSchema noParams data;
  match v with
  | VStruct _ [VInt x; VInt y; VBytes h; VBytes c] =>
    cipherUnmarshal_post (Z.ltb x 0) (Z.ltb y 0) (big_bytes x) (big_bytes y) h c
  | _ => Panic
  end.

(* two more structures, used only to compare this model with the real encoding/asn1 on field parameters:
   T1 = struct { A big.Int `explicit,tag:0,optional`; B []byte `tag:1,optional`; C RawValue `optional`; D OID }
   T2 = struct { V big.Int; K []byte; O OID `optional,explicit,tag:0`; P BitString `optional,explicit,tag:1` }  (the shape of sm2PrivateKey) *)
Definition t1Schema : kind :=
  KStruct false [(mkParams true true (Some 0%N) false, KBigInt); (mkParams true false (Some 1%N) false, KOctets);
                 (mkParams true false None false, KRawValue); (noParams, KOID)].
Definition t2Schema : kind :=
  KStruct false [(noParams, KBigInt); (noParams, KOctets);
                 (mkParams true true (Some 0%N) false, KOID); (mkParams true true (Some 1%N) false, KBitString)].
