(* One statement instead of two models: the offset-based, checked-access model of encoding/asn1
   (Dec/Asn1Model.v) and the suffix-based functional model of the SM2 family (SM2/DER.v: asn1_read,
   asn1_read_int, asn1_unmarshal_cipher) decode the same values and reject the same inputs, for every
   well-formed byte string. *)
From Coq Require Import List NArith ZArith Bool Arith Lia ZifyN ZifyNat ZifyBool.
From GmsmVerif Require Import Lib.Outcome Dec.Access Dec.AccessProofs Dec.Asn1Model Dec.Asn1Proofs Dec.Asn1Inst.
From GmsmVerif Require SM2.SM2Bytes SM2.DER.
Import ListNotations.
Local Open Scope nat_scope.

(* ---------- lists and offsets ---------------------------------------------------------------------- *)
Lemma skipn_cons_nth (bs : list N) off x : at_ bs off = Ok x -> skipn off bs = x :: skipn (S off) bs.
Proof.
  unfold at_. revert off; induction bs as [|b bs IH]; intros [|off]; cbn; try discriminate.
  - intros [= ->]. reflexivity.
  - intros H. apply IH. exact H.
Qed.

Lemma skipn_nil_ge (bs : list N) off : length bs <= off -> skipn off bs = [].
Proof. apply skipn_all2. Qed.

Lemma os2ip_be (l : list N) : SM2Bytes.os2ip l = Z.of_N (be_value l).
Proof.
  unfold SM2Bytes.os2ip, be_value.
  assert (G : forall acc, fold_left (fun a b => (a * 256 + Z.of_N b)%Z) l (Z.of_N acc) =
                          Z.of_N (fold_left (fun a x => (a * 256 + x)%N) l acc)).
  { induction l as [|x l IH]; intros acc; cbn [fold_left]; [reflexivity|].
    rewrite <- IH. f_equal. lia. }
  apply (G 0%N).
Qed.

(* ---------- the length octets ---------------------------------------------------------------------- *)
Lemma length_loop_link n : forall bs off acc, off + n <= length bs ->
  match length_loop n bs off acc with
  | Ok (v, o') => DER.asn1_len_loop (firstn n (skipn off bs)) (Z.of_N acc) = Some (Z.of_N v) /\ o' = off + n
  | Err _ => DER.asn1_len_loop (firstn n (skipn off bs)) (Z.of_N acc) = None
  | Panic | Hang => False
  end.
Proof.
  induction n as [|n IH]; intros bs off acc H; cbn [length_loop firstn].
  - split; [reflexivity|lia].
  - destruct (Nat.leb_spec (length bs) off); [lia|].
    destruct (at_ok bs off ltac:(lia)) as [b Eb]. rewrite Eb. cbn [obind].
    rewrite (skipn_cons_nth _ _ _ Eb). cbn [firstn DER.asn1_len_loop].
    destruct (N.leb_spec 8388608 acc) as [Hbig|Hbig].
    { destruct (Z.leb_spec (2 ^ 23) (Z.of_N acc)); [reflexivity|lia]. }
    destruct (Z.leb_spec (2 ^ 23) (Z.of_N acc)); [lia|].
    replace (Z.of_N acc * 256 + Z.of_N b)%Z with (Z.of_N (acc * 256 + b)) by lia.
    destruct (N.eqb_spec (acc * 256 + b) 0) as [E0|E0].
    { rewrite E0. reflexivity. }
    destruct (Z.eqb_spec (Z.of_N (acc * 256 + b)) 0); [lia|].
    specialize (IH bs (S off) (acc * 256 + b)%N ltac:(lia)).
    destruct (length_loop n bs (S off) (acc * 256 + b)) as [[v o']| | |]; auto.
    destruct IH as [I1 I2]. split; [exact I1|lia].
Qed.

(* ---------- identifier octet ------------------------------------------------------------------------- *)
Lemma tagbyte_sweep :
  forallb (fun T => forallb (fun c : bool => forallb (fun t =>
     (N.land t 31 =? 31)%N ||
     Bool.eqb (t =? T + (if c then 32 else 0))%N
              ((t / 64 =? 0)%N && (N.land t 31 =? T)%N && Bool.eqb (N.land t 32 =? 32)%N c))
    (map N.of_nat (seq 0 256))) [true; false]) (map N.of_nat (seq 0 31)) = true.
Proof. vm_compute. reflexivity. Qed.

Lemma tagbyte_eq T (c : bool) t : (T < 31)%N -> (t < 256)%N -> (N.land t 31 =? 31)%N = false ->
  (t =? T + (if c then 32 else 0))%N = ((t / 64 =? 0)%N && (N.land t 31 =? T)%N && Bool.eqb (N.land t 32 =? 32)%N c)%bool.
Proof.
  intros HT Ht H31. pose proof tagbyte_sweep as S. rewrite forallb_forall in S.
  specialize (S T ltac:(apply in_map_iff; exists (N.to_nat T); split; [apply N2Nat.id|apply in_seq; lia])).
  rewrite forallb_forall in S. specialize (S c ltac:(destruct c; cbn; auto)).
  rewrite forallb_forall in S.
  specialize (S t ltac:(apply in_map_iff; exists (N.to_nat t); split; [apply N2Nat.id|apply in_seq; lia])).
  rewrite H31 in S. cbn [orb] in S. apply eqb_prop in S. exact S.
Qed.

Lemma lowbits t : (t < 256)%N -> (N.land t 128 =? 0)%N = true -> N.land t 127 = t.
Proof.
  intros Ht H. pose proof (byte_sweep (fun t => negb (N.land t 128 =? 0)%N || (N.land t 127 =? t)%N)
                             ltac:(vm_compute; reflexivity) t Ht) as S.
  cbv beta in S. rewrite H in S. cbn in S. apply N.eqb_eq in S. exact S.
Qed.

(* parseTagAndLength with a high-tag-number identifier returns a tag number of at least 31 *)
Lemma ptl_high_tag bs off b t o :
  at_ bs off = Ok b -> (N.land b 31 =? 31)%N = true -> parseTagAndLength bs off = Ok (t, o) -> (31 <= t_tag t)%N.
Proof.
  intros Eb H31. unfold parseTagAndLength.
  destruct (Nat.leb_spec (length bs) off); [discriminate|]. rewrite Eb. cbn [obind]. rewrite H31.
  destruct (parseBase128Int bs (S off)) as [[tag o1]| | |]; cbn [obind]; try discriminate.
  destruct (N.ltb_spec tag 31) as [|Htag]; [discriminate|]. cbn [obind].
  destruct (Nat.leb (length bs) o1); [discriminate|].
  destruct (at_ bs o1) as [b2| | |]; cbn [obind]; try discriminate.
  destruct (N.land b2 128 =? 0)%N; [intros [= <- _]; exact Htag|].
  destruct (Nat.eqb _ 0); [discriminate|].
  destruct (length_loop _ bs (S o1) 0) as [[len o2]| | |]; cbn [obind]; try discriminate.
  destruct (len <? 128)%N; [discriminate|]. intros [= <- _]. exact Htag.
Qed.

Lemma bytes_ok_slice (bs : list N) a n : bytes_ok bs -> bytes_ok (firstn n (skipn a bs)).
Proof.
  unfold bytes_ok. intros H. rewrite <- (firstn_skipn a bs) in H. apply Forall_app in H. destruct H as [_ H].
  rewrite <- (firstn_skipn n (skipn a bs)) in H. apply Forall_app in H. tauto.
Qed.

(* ---------- one element with an expected universal identifier -------------------------------------- *)
Lemma header_link bs off st T (c : bool) :
  bytes_ok bs -> (T < 31)%N -> T <> TagUTCTime ->
  match field_header (false, T, c) false noParams bs off st with
  | Ok (HElem t inner o' st') =>
      DER.asn1_read (skipn off bs) (T + (if c then 32 else 0)) = Some (inner, skipn o' bs) /\ off < o' <= length bs /\ bytes_ok inner
  | Ok (HAbsent _) => False
  | Err _ => DER.asn1_read (skipn off bs) (T + (if c then 32 else 0)) = None
  | Panic | Hang => False
  end.
Proof.
  intros Hb HT HT23. pose proof (field_header_spec (false, T, c) false noParams bs off st) as SP.
  unfold field_header in *. cbn [p_optional p_explicit p_tag p_set noParams] in *.
  rewrite (proj2 (N.eqb_neq T TagUTCTime) HT23) in *. cbn [andb] in *.
  destruct (Nat.eqb_spec off (length bs)) as [Heq|Hne].
  { rewrite skipn_nil_ge by lia. reflexivity. }
  destruct (Nat.le_gt_cases (length bs) off) as [Hge|Hlt].
  { unfold parseTagAndLength in *. destruct (Nat.leb_spec (length bs) off); [|lia]. cbn [obind].
    rewrite skipn_nil_ge by lia. reflexivity. }
  destruct (at_ok bs off Hlt) as [t Et]. pose proof (at_byte _ _ _ Hb Et) as Ht.
  rewrite (skipn_cons_nth _ _ _ Et).
  destruct (N.land t 31 =? 31)%N eqn:H31.
  { (* high tag number: never the expected identifier *)
    assert (Hthem : forall l, DER.asn1_read (t :: l) (T + (if c then 32 else 0)) = None).
    { intros [|lb l]; cbn [DER.asn1_read]; [reflexivity|]. rewrite H31. reflexivity. }
    rewrite Hthem.
    destruct (parseTagAndLength bs off) as [[tl o]| | |] eqn:Ep; cbn [obind] in *; auto.
    pose proof (ptl_high_tag _ _ _ _ _ Et H31 Ep) as Hge.
    cbn [andb negb orb].
    destruct (N.eqb_spec (t_tag tl) T); [lia|].
    rewrite orb_true_r. cbn [orb]. reflexivity. }
  (* low tag number *)
  unfold parseTagAndLength in *. destruct (Nat.leb_spec (length bs) off); [lia|].
  rewrite Et in *. cbn [obind] in *. rewrite H31 in *. cbn [obind] in *.
  destruct (Nat.leb_spec (length bs) (S off)) as [Hs|Hs].
  { cbn [obind]. rewrite (skipn_nil_ge bs (S off)) by lia. reflexivity. }
  destruct (at_ok bs (S off) Hs) as [lb El]. pose proof (at_byte _ _ _ Hb El) as Hlb.
  rewrite El in *. cbn [obind] in *. rewrite (skipn_cons_nth _ _ _ El).
  cbn [DER.asn1_read]. rewrite H31.
  change (N.land lb 128 =? 0)%N with (N.land lb 128 =? 0)%N.
  replace (N.land lb 0x80 =? 0)%N with (N.land lb 128 =? 0)%N by reflexivity.
  (* the common tail: tag comparison, bounds, result *)
  assert (Tail : forall (len : N) (o : nat) , o <= length bs -> off < o ->
    match (if (negb false && (negb (t / 64 =? ClassUniversal)%N || negb (N.land t 31 =? T)%N) ||
               negb false && negb (Bool.eqb (N.land t 32 =? 32)%N c))%bool
           then Err 3
           else if invalidLength o len (length bs) then Err 1
                else do inner <- slice bs o (o + N.to_nat len); Ok (HElem (mkTL (t / 64) (N.land t 31) len (N.land t 32 =? 32)%N) inner (o + N.to_nat len) (st + 1)%N)) with
    | Ok (HElem _ inner o' _) =>
        (if negb (t =? T + (if c then 32 else 0))%N then None
         else if (Z.of_nat (length (skipn o bs)) <? Z.of_N len)%Z then None
              else Some (firstn (Z.to_nat (Z.of_N len)) (skipn o bs), skipn (Z.to_nat (Z.of_N len)) (skipn o bs)))
        = Some (inner, skipn o' bs) /\ off < o' <= length bs /\ bytes_ok inner
    | Ok (HAbsent _) => False
    | Err _ =>
        (if negb (t =? T + (if c then 32 else 0))%N then None
         else if (Z.of_nat (length (skipn o bs)) <? Z.of_N len)%Z then None
              else Some (firstn (Z.to_nat (Z.of_N len)) (skipn o bs), skipn (Z.to_nat (Z.of_N len)) (skipn o bs))) = None
    | Panic | Hang => False
    end).
  { intros len o Ho Hoo. rewrite (tagbyte_eq T c t HT Ht H31). unfold ClassUniversal. cbn [negb andb].
    destruct (t / 64 =? 0)%N; cbn [negb orb andb]; [|reflexivity].
    destruct (N.land t 31 =? T)%N; cbn [negb orb andb]; [|reflexivity].
    destruct (Bool.eqb (N.land t 32 =? 32)%N c); cbn [negb orb andb]; [|reflexivity].
    unfold invalidLength. rewrite skipn_length.
    destruct (N.ltb_spec (N.of_nat (length bs)) (N.of_nat o + len)) as [Hi|Hi].
    - destruct (Z.ltb_spec (Z.of_nat (length bs - o)) (Z.of_N len)); [reflexivity|lia].
    - destruct (Z.ltb_spec (Z.of_nat (length bs - o)) (Z.of_N len)); [lia|].
      rewrite slice_ok by lia. cbn [obind].
      replace (Z.to_nat (Z.of_N len)) with (N.to_nat len) by lia.
      replace (o + N.to_nat len - o) with (N.to_nat len) by lia.
      rewrite skipn_add. split; [reflexivity|]. split; [lia|apply bytes_ok_slice; exact Hb]. }
  destruct (N.land lb 128 =? 0)%N eqn:Eshort.
  - (* short form *)
    rewrite (lowbits lb Hlb Eshort). cbn [t_class t_tag t_length t_isCompound].
    apply (Tail lb (S (S off))); lia.
  - (* long form *)
    set (nb := N.to_nat (N.land lb 127)).
    replace (N.to_nat (N.land lb 0x7f)) with nb by reflexivity.
    destruct (Nat.eqb_spec nb 0) as [E0|E0]; cbn [orb]; [reflexivity|].
    destruct (Nat.ltb_spec (length (skipn (S (S off)) bs)) nb) as [Htr|Htr].
    + (* truncated: the model fails inside the loop *)
      rewrite skipn_length in Htr.
      pose proof (length_loop_spec nb bs (S (S off)) 0%N) as LS.
      destruct (length_loop nb bs (S (S off)) 0) as [[len o2]| | |]; cbn [obind]; auto.
      destruct LS as [-> [|]]; lia.
    + rewrite skipn_length in Htr.
      pose proof (length_loop_link nb bs (S (S off)) 0%N ltac:(lia)) as LL.
      destruct (length_loop nb bs (S (S off)) 0) as [[len o2]| | |]; cbn [obind]; auto.
      * destruct LL as [LL ->]. change (Z.of_N 0) with 0%Z in LL. rewrite LL.
        destruct (N.ltb_spec len 128).
        -- destruct (Z.ltb_spec (Z.of_N len) 128); [reflexivity|lia].
        -- destruct (Z.ltb_spec (Z.of_N len) 128); [lia|].
           cbn [t_class t_tag t_length t_isCompound].
           rewrite skipn_add. replace (S (S off) + nb) with (S (S off) + nb) by lia.
           apply (Tail len (S (S off) + nb)); lia.
      * change (Z.of_N 0) with 0%Z in LL. rewrite LL. reflexivity.
Qed.

(* ---------- INTEGER and OCTET STRING elements ------------------------------------------------------- *)
Lemma checkInteger_link c : (checkInteger c = Ok tt /\ DER.int_minimal c = true) \/
                            ((exists e, checkInteger c = Err e) /\ DER.int_minimal c = false).
Proof.
  unfold checkInteger, DER.int_minimal. destruct c as [|b0 [|b1 r]]; cbn [length Nat.eqb at_ nth_error obind].
  - right. split; [eauto|reflexivity].
  - left. split; reflexivity.
  - replace (N.land b1 0x80) with (N.land b1 128) by reflexivity.
    replace (b0 =? 0xff)%N with (b0 =? 255)%N by reflexivity.
    destruct (((b0 =? 0)%N && (N.land b1 128 =? 0)%N) || ((b0 =? 255)%N && (N.land b1 128 =? 128)%N))%bool;
      [right; split; [eauto|reflexivity]|left; split; reflexivity].
Qed.

Lemma parseBigInt_link c :
  match parseBigInt c with
  | Ok z => DER.int_minimal c = true /\ DER.int_value c = z
  | Err _ => DER.int_minimal c = false
  | Panic | Hang => False
  end.
Proof.
  unfold parseBigInt. destruct (checkInteger_link c) as [[-> Hm]|[[e ->] Hm]]; cbn [obind]; [|exact Hm].
  destruct c as [|b0 r]; [discriminate|]. cbn [at_ nth_error obind].
  unfold DER.int_value. cbn [hd]. replace (N.land b0 0x80 =? 0x80)%N with (N.land b0 128 =? 128)%N by reflexivity.
  destruct (N.land b0 128 =? 128)%N; (split; [exact Hm|]); rewrite os2ip_be; reflexivity.
Qed.

Lemma int_field_link bs off st : bytes_ok bs ->
  match parseField KBigInt noParams bs off st with
  | Ok (VInt z, o', _) => DER.asn1_read_int (skipn off bs) = Some (z, skipn o' bs) /\ off < o' <= length bs
  | Ok _ => False
  | Err _ => DER.asn1_read_int (skipn off bs) = None
  | Panic | Hang => False
  end.
Proof.
  intros Hb. cbn [parseField getUniversalType is_raw]. unfold DER.asn1_read_int.
  pose proof (header_link bs off st TagInteger false Hb ltac:(unfold TagInteger; lia) ltac:(discriminate)) as HL.
  change (TagInteger + (if false then 32 else 0))%N with DER.TAG_INTEGER in HL.
  destruct (field_header (false, TagInteger, false) false noParams bs off st) as [[|t inner o' st']| | |]; cbn [obind]; auto.
  - destruct HL as (-> & Ho & _). pose proof (parseBigInt_link inner) as PL.
    destruct (parseBigInt inner) as [z| | |]; cbn [obind]; auto.
    + destruct PL as [-> <-]. split; [reflexivity|exact Ho].
    + rewrite PL. reflexivity.
  - rewrite HL. reflexivity.
Qed.

Lemma octets_field_link bs off st : bytes_ok bs ->
  match parseField KOctets noParams bs off st with
  | Ok (VBytes c, o', _) => DER.asn1_read (skipn off bs) DER.TAG_OCTET_STRING = Some (c, skipn o' bs) /\ off < o' <= length bs
  | Ok _ => False
  | Err _ => DER.asn1_read (skipn off bs) DER.TAG_OCTET_STRING = None
  | Panic | Hang => False
  end.
Proof.
  intros Hb. cbn [parseField getUniversalType is_raw].
  pose proof (header_link bs off st TagOctetString false Hb ltac:(unfold TagOctetString; lia) ltac:(discriminate)) as HL.
  change (TagOctetString + (if false then 32 else 0))%N with DER.TAG_OCTET_STRING in HL.
  destruct (field_header (false, TagOctetString, false) false noParams bs off st) as [[|t inner o' st']| | |]; cbn [obind]; auto.
  destruct HL as (H1 & H2 & _). split; assumption.
Qed.

(* ---------- the two SM2 structures ------------------------------------------------------------------- *)
(* SEQUENCE { r, s INTEGER } read with the primitives of SM2/DER.v (trailing bytes allowed, as encoding/asn1 does) *)
Definition der_asn1_sig (b : list N) : option (Z * Z) :=
  match DER.asn1_read b DER.TAG_SEQUENCE with
  | Some (inner, _) =>
    match DER.asn1_read_int inner with
    | Some (r, r1) => match DER.asn1_read_int r1 with Some (s, _) => Some (r, s) | None => None end
    | None => None
    end
  | None => None
  end.

(* the field loop of a struct, as a function of its own *)
Fixpoint floop (fs : list (fparams * kind)) (inner : list N) (io : nat) (st : N) (acc : list value)
  : outcome (list value * N) :=
  match fs with
  | [] => Ok (rev acc, st)
  | (fp, fk) :: r => do '(v, io', st') <- parseField fk fp inner io st; floop r inner io' st' (v :: acc)
  end.

Lemma parseField_struct rc fs params bytes off steps :
  parseField (KStruct rc fs) params bytes off steps =
  (do h <- field_header (false, TagSequence, true) false params bytes off steps;
   match h with
   | HAbsent st => Ok (VAbsent, off, st)
   | HElem t inner o st =>
     do raw <- (if rc then slice bytes off o else Ok []);
     do '(vals, st2) <- floop fs inner 0 st [];
     Ok (VStruct raw vals, o, st2)
   end).
Proof.
  cbn [parseField getUniversalType is_raw].
  destruct (field_header (false, TagSequence, true) false params bytes off steps) as [[st|t inner o st]| | |]; cbn [obind]; try reflexivity.
  destruct (if rc then slice bytes off o else Ok []) as [raw| | |]; cbn [obind]; try reflexivity.
  assert (E : forall fs0 io st0 acc,
    (fix fields_loop (fs1 : list (fparams * kind)) (innerOffset : nat) (steps0 : N) (acc0 : list value) {struct fs1}
       : outcome (list value * N) :=
       match fs1 with
       | [] => Ok (rev acc0, steps0)
       | (fp, fk) :: r =>
         do '(v, innerOffset', steps') <- parseField fk fp inner innerOffset steps0;
         fields_loop r innerOffset' steps' (v :: acc0)
       end) fs0 io st0 acc = floop fs0 inner io st0 acc).
  { induction fs0 as [|[fp fk] r IH]; intros io st0 acc; cbn [floop]; [reflexivity|].
    destruct (parseField fk fp inner io st0) as [[[v io'] st1]| | |]; cbn [obind]; try reflexivity. apply IH. }
  rewrite E. reflexivity.
Qed.

Theorem sig_models_agree b : bytes_ok b ->
  der_asn1_sig b = match signDataToSignDigit b with Ok rs => Some rs | _ => None end.
Proof.
  intros Hb. unfold der_asn1_sig, signDataToSignDigit, Unmarshal, sigSchema. rewrite parseField_struct.
  pose proof (header_link b 0 0%N TagSequence true Hb ltac:(unfold TagSequence; lia) ltac:(discriminate)) as HL.
  change (TagSequence + (if true then 32 else 0))%N with DER.TAG_SEQUENCE in HL. cbn [skipn] in HL.
  destruct (field_header (false, TagSequence, true) false noParams b 0 0) as [[|t inner o' st']| | |]; cbn [obind]; try contradiction.
  2:{ rewrite HL. reflexivity. }
  destruct HL as (-> & Ho & Hi). cbn [floop].
  pose proof (int_field_link inner 0 st' Hi) as F1. cbn [skipn] in F1.
  destruct (parseField KBigInt noParams inner 0 st') as [[[v1 o1] s1]| | |]; cbn [obind]; try contradiction.
  2:{ rewrite F1. reflexivity. }
  destruct v1; try contradiction. destruct F1 as [-> Ho1].
  pose proof (int_field_link inner o1 s1 Hi) as F2.
  destruct (parseField KBigInt noParams inner o1 s1) as [[[v2 o2] s2]| | |]; cbn [obind]; try contradiction.
  2:{ rewrite F2. reflexivity. }
  destruct v2; try contradiction. destruct F2 as [-> Ho2]. cbn [rev app obind].
  rewrite slice_from_ok by lia. reflexivity.
Qed.

Theorem cipher_models_agree b : bytes_ok b ->
  DER.asn1_unmarshal_cipher b =
  match Unmarshal cipherSchema noParams b with
  | Ok (VStruct _ [VInt x; VInt y; VBytes h; VBytes c], _, _) => Some (x, y, h, c)
  | _ => None
  end.
Proof.
  intros Hb. unfold DER.asn1_unmarshal_cipher, Unmarshal, cipherSchema. rewrite parseField_struct.
  pose proof (header_link b 0 0%N TagSequence true Hb ltac:(unfold TagSequence; lia) ltac:(discriminate)) as HL.
  change (TagSequence + (if true then 32 else 0))%N with DER.TAG_SEQUENCE in HL. cbn [skipn] in HL.
  destruct (field_header (false, TagSequence, true) false noParams b 0 0) as [[|t inner o' st']| | |]; cbn [obind]; try contradiction.
  2:{ rewrite HL. reflexivity. }
  destruct HL as (-> & Ho & Hi). cbn [floop].
  pose proof (int_field_link inner 0 st' Hi) as F1. cbn [skipn] in F1.
  destruct (parseField KBigInt noParams inner 0 st') as [[[v1 o1] s1]| | |]; cbn [obind]; try contradiction.
  2:{ rewrite F1. reflexivity. }
  destruct v1; try contradiction. destruct F1 as [-> Ho1].
  pose proof (int_field_link inner o1 s1 Hi) as F2.
  destruct (parseField KBigInt noParams inner o1 s1) as [[[v2 o2] s2]| | |]; cbn [obind]; try contradiction.
  2:{ rewrite F2. reflexivity. }
  destruct v2; try contradiction. destruct F2 as [-> Ho2].
  pose proof (octets_field_link inner o2 s2 Hi) as F3.
  destruct (parseField KOctets noParams inner o2 s2) as [[[v3 o3] s3]| | |]; cbn [obind]; try contradiction.
  2:{ rewrite F3. reflexivity. }
  destruct v3; try contradiction. destruct F3 as [-> Ho3].
  pose proof (octets_field_link inner o3 s3 Hi) as F4.
  destruct (parseField KOctets noParams inner o3 s3) as [[[v4 o4] s4]| | |]; cbn [obind]; try contradiction.
  2:{ rewrite F4. reflexivity. }
  destruct v4; try contradiction. destruct F4 as [-> Ho4]. cbn [rev app obind].
  rewrite slice_from_ok by lia. reflexivity.
Qed.
