(* The output of ber2der is at most twice as long as its input (inputs below 2^30 bytes): the re-encoding
   drops non-minimal length octets and the end-of-contents octets of indefinite lengths, and can add at
   most a few length octets per constructed value, each of which has consumed more than that. *)
From Coq Require Import List NArith Arith Bool Lia ZifyN ZifyNat ZifyBool.
From GmsmVerif Require Import Lib.Outcome Dec.Access Dec.AccessProofs Dec.DecSpec Dec.BerModel Dec.BerProofs Dec.BerDer.
Import ListNotations.
Local Open Scope nat_scope.

Definition esize (o : obj) : nat := length (encode o).

Lemma list_sum_cons a l : list_sum (a :: l) = a + list_sum l.
Proof. reflexivity. Qed.

Lemma length_concat_map {A} (f : A -> list N) l : length (concat (map f l)) = list_sum (map (fun x => length (f x)) l).
Proof. induction l as [|x l IH]; cbn [map concat]; [reflexivity|]. rewrite app_length, IH, list_sum_cons. reflexivity. Qed.

Lemma sum_plus2 (l : list obj) :
  list_sum (map (fun s => esize s + 2) l) = list_sum (map esize l) + 2 * length l.
Proof. induction l as [|x l IH]; cbn [map length]; [reflexivity|]. rewrite !list_sum_cons. lia. Qed.

(* number of DER length octets *)
Lemma der_octets_cases n :
  length (der_length_octets n) =
    if (n <? 128)%N then 1 else if (n <? 256)%N then 2 else if (n <? 65536)%N then 3
    else if (n <? 16777216)%N then 4 else 5.
Proof. unfold der_length_octets. repeat match goal with |- context [if ?c then _ else _] => destruct c end; reflexivity. Qed.

(* ---------- the length octets read ---------------------------------------------------------------- *)
Lemma len_loop_bound n : forall ber off acc v off',
  bytes_ok ber -> len_loop n ber off acc = Ok (v, off') -> (v < (acc + 1) * 256 ^ N.of_nat n)%N.
Proof.
  induction n as [|n IH]; intros ber off acc v off' Hb H; cbn [len_loop] in H.
  - injection H as <- _. cbn. lia.
  - destruct (at_ ber off) as [x| | |] eqn:Ex; cbn [obind] in H; try discriminate.
    pose proof (at_byte _ _ _ Hb Ex) as Hx.
    specialize (IH ber (S off) (acc * 256 + x)%N v off' Hb H).
    rewrite Nat2N.inj_succ, N.pow_succ_r'. nia.
Qed.

Lemma read_length_octets ber te len off ind :
  bytes_ok ber -> read_length ber te = Ok (len, off, ind) ->
  te < off /\
  (ind = true -> off = S te /\ len = 0%N) /\
  (ind = false -> (len < 2147483648)%N /\ length (der_length_octets len) <= off - te /\ (off = S te -> (len < 128)%N)).
Proof.
  intros Hb. unfold read_length.
  destruct (Nat.leb_spec (length ber) te) as [|Ho]; [discriminate|].
  destruct (at_ok ber te Ho) as [l El]. rewrite El. cbn [obind].
  pose proof (at_byte _ _ _ Hb El) as Hl.
  destruct (128 <? l)%N eqn:E128.
  - set (nb := N.to_nat (N.land l 127)).
    destruct (Nat.ltb_spec 4 nb) as [|H4]; [discriminate|].
    destruct (Nat.ltb_spec (length ber - S te) nb) as [|Hnb]; [discriminate|].
    pose proof (land127_pos l Hl E128) as Hpos. assert (Hnb1 : 1 <= nb) by (unfold nb; lia).
    destruct (at_ok ber (S te) ltac:(lia)) as [f Ef]. rewrite Ef. cbn [obind].
    pose proof (at_byte _ _ _ Hb Ef) as Hf.
    destruct (Nat.eqb nb 4 && (127 <? f)%N)%bool eqn:E4; [discriminate|].
    destruct (f =? 0)%N eqn:Ef0; [discriminate|].
    destruct (len_loop nb ber (S te) 0) as [[v o2]| | |] eqn:EL; cbn [obind]; try discriminate.
    intros [= <- <- <-].
    destruct (len_loop_spec nb ber (S te) 0%N ltac:(lia)) as [v' EL']. rewrite EL in EL'. injection EL' as _ ->.
    (* value bound: v < (f + 1) * 256^(nb-1) *)
    assert (Hv : (v < (f + 1) * 256 ^ N.of_nat (nb - 1))%N).
    { destruct nb as [|nb'] eqn:Enb; [lia|]. cbn [len_loop] in EL. rewrite Ef in EL. cbn [obind] in EL.
      replace (S nb' - 1) with nb' by lia.
      pose proof (len_loop_bound nb' ber (S (S te)) (0 * 256 + f)%N v _ Hb EL) as B. lia. }
    split; [lia|]. split; [discriminate|]. intros _.
    assert (Hlt : (v < 2147483648)%N).
    { destruct (Nat.eqb_spec nb 4) as [E|E].
      - cbn [andb] in E4. rewrite E in Hv. change (256 ^ N.of_nat (4 - 1))%N with 16777216%N in Hv. lia.
      - assert (nb <= 3) by lia.
        assert ((256 ^ N.of_nat (nb - 1) <= 65536)%N).
        { destruct nb as [|[|[|[|]]]]; try lia; cbn; lia. }
        nia. }
    split; [exact Hlt|]. split; [|lia].
    rewrite der_octets_cases.
    assert (Hp : (v < 256 ^ N.of_nat nb)%N).
    { destruct nb as [|nb']; [lia|]. replace (S nb' - 1) with nb' in Hv by lia.
      rewrite Nat2N.inj_succ, N.pow_succ_r'. nia. }
    replace (S te + nb - te) with (S nb) by lia.
    destruct nb as [|[|[|[|[|]]]]]; try lia;
      repeat match goal with |- context [if ?c then _ else _] => destruct c eqn:? end; try lia;
      cbn in Hp; lia.
  - destruct (l =? 128)%N eqn:E80.
    + intros [= <- <- <-]. split; [lia|]. split; [auto|discriminate].
    + intros [= <- <- <-]. split; [lia|]. split; [discriminate|]. intros _.
      assert ((l < 128)%N) by lia.
      split; [lia|]. rewrite der_octets_cases. destruct (l <? 128)%N eqn:E; [|lia]. split; [lia|auto].
Qed.

Lemma read_tag_ok ber o b te : read_tag ber o = Ok (b, te) -> o < te <= length ber.
Proof. intros H. pose proof (read_tag_spec ber o) as S. rewrite H in S. exact S. Qed.

(* ---------- the child loop ----------------------------------------------------------------------- *)
Section LoopSize.
  Variable rd : budget -> nat -> outcome (obj * nat * budget).
  Variable ber : list N.
  Variable contentEnd : nat.
  Variable indefinite : bool.
  Hypothesis Hrd : forall bud o s e b', rd bud o = Ok (s, e, b') ->
    o + 2 <= e <= length ber /\ esize s + 2 <= 2 * (e - o).

  Lemma children_loop_size n : forall off acc bud subs off' bud',
    children_loop rd ber contentEnd indefinite n off acc bud = Ok (subs, off', bud') ->
    off <= off' /\ (indefinite = false -> off <= contentEnd -> off' <= contentEnd) /\
    (indefinite = true -> off' + 2 <= length ber) /\
    exists new, subs = rev acc ++ new /\ list_sum (map (fun s => esize s + 2) new) <= 2 * (off' - off).
  Proof.
    assert (Hbase : forall (off : nat) (acc : list obj) (bud : budget) (subs : list obj) (off' : nat) (bud' : budget),
      (Nat.ltb off contentEnd || indefinite)%bool = false ->
      @Ok (list obj * nat * budget) (rev acc, off, bud) = Ok (subs, off', bud') ->
      off <= off' /\ (indefinite = false -> off <= contentEnd -> off' <= contentEnd) /\
      (indefinite = true -> off' + 2 <= length ber) /\
      exists new, subs = rev acc ++ new /\ list_sum (map (fun s => esize s + 2) new) <= 2 * (off' - off)).
    { intros off acc bud subs off' bud' C H. injection H as <- <- <-. split; [lia|]. split; [auto|].
      split; [intros ->; rewrite orb_true_r in C; discriminate|].
      exists []. rewrite app_nil_r. split; [reflexivity|]. cbn [map]. change (list_sum []) with 0. lia. }
    induction n as [|n IH]; intros off acc bud subs off' bud' H; cbn [children_loop] in H;
      destruct (Nat.ltb off contentEnd || indefinite)%bool eqn:C;
      [discriminate | exact (Hbase _ _ _ _ _ _ C H) | | exact (Hbase _ _ _ _ _ _ C H)].
    destruct (rd bud off) as [[[s e] b2]| | |] eqn:Er; cbn [obind] in H; try discriminate.
    destruct (Hrd _ _ _ _ _ Er) as [He Hs].
    destruct (negb indefinite && Nat.ltb contentEnd e)%bool eqn:X; [discriminate|].
    assert (Hstep : forall subs off' bud',
      children_loop rd ber contentEnd indefinite n e (s :: acc) b2 = Ok (subs, off', bud') ->
      off <= off' /\ (indefinite = false -> off <= contentEnd -> off' <= contentEnd) /\
      (indefinite = true -> off' + 2 <= length ber) /\
      exists new, subs = rev acc ++ new /\ list_sum (map (fun s => esize s + 2) new) <= 2 * (off' - off)).
    { intros subs0 off0 bud0 H0. destruct (IH _ _ _ _ _ _ H0) as (I1 & I2 & I3 & new & -> & I4).
      split; [lia|]. split.
      - intros Hi Hc. apply I2; [exact Hi|]. rewrite Hi in X. cbn [negb andb] in X. apply Nat.ltb_ge in X. exact X.
      - split; [exact I3|]. exists (s :: new). split; [cbn [rev]; rewrite <- app_assoc; reflexivity|].
        cbn [map]. rewrite list_sum_cons. lia. }
    destruct indefinite eqn:Ei.
    - destruct (isIndefiniteTermination ber e) as [[|]| | |] eqn:Et; cbn [obind] in H; try discriminate.
      + injection H as <- <- <-. split; [lia|]. split; [discriminate|]. split.
        * intros _. unfold isIndefiniteTermination in Et. destruct (Nat.ltb_spec (length ber - e) 2); [discriminate|lia].
        * exists [s]. split; [reflexivity|]. cbn [map]. rewrite list_sum_cons. change (list_sum []) with 0. lia.
      + exact (Hstep _ _ _ H).
    - exact (Hstep _ _ _ H).
  Qed.
End LoopSize.

(* ---------- readObject ----------------------------------------------------------------------------- *)
Lemma readObject_size fuel : forall bud ber o depth ob e bud',
  bytes_ok ber -> (N.of_nat (length ber) < 1073741824)%N ->
  readObject fuel bud ber o depth = Ok (ob, e, bud') ->
  o + 2 <= e <= length ber /\ esize ob + 2 <= 2 * (e - o).
Proof.
  induction fuel as [|fuel IH]; intros bud ber o depth ob e bud' Hb Hsmall H; [discriminate|].
  cbn [readObject] in H.
  destruct (tick bud) as [bud1| | |]; cbn [obind] in H; try discriminate.
  destruct (Nat.ltb maxBERDepth depth); [discriminate|].
  unfold read_header in H.
  destruct (read_tag ber o) as [[b te]| | |] eqn:Et; cbn [obind] in H; try discriminate.
  destruct (read_length ber te) as [[[len off] ind]| | |] eqn:El; cbn [obind] in H; try discriminate.
  cbn [h_offset h_len h_indefinite h_kind h_tagStart h_tagEnd] in H.
  pose proof (read_tag_ok _ _ _ _ Et) as Hte.
  destruct (read_length_octets _ _ _ _ _ Hb El) as (Hoff & Hind & Hdef).
  pose proof (read_length_spec ber te Hb) as Lsp. rewrite El in Lsp. destruct Lsp as [HoffL _].
  destruct (N.of_nat (length ber - off) <? len)%N eqn:E7; [discriminate|]. apply N.ltb_ge in E7.
  destruct (ind && (N.land b 32 =? 0)%N)%bool eqn:E8; [discriminate|].
  destruct (N.land b 32 =? 0)%N eqn:Ek.
  - (* primitive *)
    destruct ind; [discriminate|]. destruct (Hdef eq_refl) as (Hl31 & Hoct & _).
    rewrite (slice_ok ber o te) in H by lia. cbn [obind] in H.
    rewrite (slice_ok ber off (off + N.to_nat len)) in H by lia. cbn [obind] in H.
    injection H as <- <- <-. split; [lia|].
    unfold esize. cbn [encode]. rewrite !app_length, encodeLength_der by exact Hl31.
    rewrite !firstn_length, !skipn_length. lia.
  - (* constructed *)
    destruct (children_loop _ ber (off + N.to_nat len) ind (S (length ber)) off [] bud1) as [[[subs off'] bud2]| | |] eqn:Ec;
      cbn [obind] in H; try discriminate.
    rewrite (slice_ok ber o te) in H by lia. cbn [obind] in H.
    injection H as <- <- <-.
    destruct (children_loop_size (fun b0 o0 => readObject fuel b0 ber o0 (S depth)) ber (off + N.to_nat len) ind
                (fun bud0 o0 s e0 b' Hr => IH bud0 ber o0 (S depth) s e0 b' Hb Hsmall Hr)
                _ _ _ _ _ _ _ Ec) as (C1 & C2 & C3 & new & Enew & Csum).
    cbn [rev app] in Enew. subst new.
    rewrite sum_plus2 in Csum.
    unfold esize at 1. cbn [encode]. rewrite !app_length, length_concat_map.
    fold esize. change (fun x : obj => length (encode x)) with esize.
    set (I := list_sum (map esize subs)) in *.
    rewrite firstn_length, skipn_length.
    assert (Hoff'L : off' <= length ber) by (destruct ind; [specialize (C3 eq_refl); lia|specialize (C2 eq_refl ltac:(lia)); lia]).
    assert (HI : (N.of_nat I < 2147483648)%N) by lia.
    rewrite encodeLength_der by exact HI. rewrite der_octets_cases.
    destruct ind.
    + destruct (Hind eq_refl) as [-> ->]. specialize (C3 eq_refl).
      split; [lia|].
      repeat match goal with |- context [if ?c then _ else _] => destruct c eqn:? end; lia.
    + destruct (Hdef eq_refl) as (Hl31 & Hoct & Hshort). specialize (C2 eq_refl ltac:(lia)).
      split; [lia|].
      destruct subs as [|s0 subs'].
      * cbn in I. subst I. cbn. lia.
      * cbn [length] in Csum.
        destruct (Nat.eq_dec off (S te)) as [E1|E1].
        -- specialize (Hshort E1).
           repeat match goal with |- context [if ?c then _ else _] => destruct c eqn:? end; lia.
        -- repeat match goal with |- context [if ?c then _ else _] => destruct c eqn:? end; lia.
Qed.

Theorem ber2der_output_size b out :
  bytes_ok b -> (N.of_nat (length b) < 1073741824)%N -> ber2der b = Ok out -> length out + 2 <= 2 * length b.
Proof.
  intros Hb Hs. unfold ber2der, ber2der_with. destruct b as [|x r] eqn:Eb; [discriminate|]. rewrite <- Eb in *.
  destruct (readObject ber_fuel None b 0 0) as [[[o e] b2]| | |] eqn:E; cbn [obind]; try discriminate.
  intros [= <-]. destruct (readObject_size _ _ _ _ _ _ _ _ Hb Hs E) as [He Hsz]. unfold esize in Hsz. lia.
Qed.
