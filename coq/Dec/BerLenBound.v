(* Round 6 (seeded change C18-11): the length arithmetic of readObject is done in Go's 64-bit int.  The model
   (Dec/BerModel.v) computes in N / nat and writes the bound test in the subtraction form
   "length > len(ber)-offset"; here the wrap of the machine addition is made explicit and the side condition
   "offset + length does not wrap" is proved from the width limit of the long-form length, which the translator
   reads from the source (Gen/DecBerLen.v: gen_berMaxLenOctets, gen_berNegLenOctets).  With at most 4 length
   octets and the top bit of a 4-octet length refused, length < 2^31, so for every slice a 64-bit machine can
   hold the two forms of the test ("offset+length > len(ber)" with wrapping addition, and
   "length > len(ber)-offset") decide the same; with 8 octets the first form wraps (Example below). *)
From Coq Require Import List NArith ZArith Arith Bool Lia.
From GmsmVerif Require Import Gen.DecBerLen Lib.Outcome Dec.Access Dec.AccessProofs Dec.BerModel Dec.BerProofs Dec.BerSize.
Import ListNotations.
Local Open Scope nat_scope.

(* Go's int on the 64-bit targets: two's complement wrap of a mathematical integer *)
Definition wrap64 (z : Z) : Z := ((z + 2 ^ 63) mod 2 ^ 64 - 2 ^ 63)%Z.

Lemma wrap64_id z : (- 2 ^ 63 <= z < 2 ^ 63)%Z -> wrap64 z = z.
Proof. intros H. unfold wrap64. rewrite Z.mod_small; lia. Qed.

(* the literal 4 the model uses at its two width tests (read_length: "Nat.ltb 4 numberOfBytes" and
   "Nat.eqb numberOfBytes 4") is the constant of the source at both sites *)
Definition gen_width_tie : Prop := gen_berMaxLenOctets = 4%N /\ gen_berNegLenOctets = 4%N.
Lemma ber_len_octets_tie : gen_width_tie.
Proof. split; reflexivity. Qed.

(* what the width limit gives: a length read by read_length is below 2^(8*max-1) *)
Lemma read_length_below_width ber te len off ind :
  bytes_ok ber -> read_length ber te = Ok (len, off, ind) ->
  (len < 2 ^ (8 * gen_berMaxLenOctets - 1))%N /\ te < off <= length ber.
Proof.
  intros Hb H.
  pose proof (read_length_spec ber te Hb) as S. rewrite H in S. destruct S as [S1 S2].
  pose proof (read_length_octets ber te len off ind Hb H) as [_ [Hi Hd]].
  split; [|exact S1].
  change (2 ^ (8 * gen_berMaxLenOctets - 1))%N with 2147483648%N.
  destruct ind; [destruct (Hi eq_refl) as [_ ->]; lia | exact (proj1 (Hd eq_refl))].
Qed.

(* no wrap: for every input a 64-bit machine can hold, offset + length computed in int is the mathematical sum,
   and the two forms of the bound test agree *)
Theorem ber_content_end_no_wrap ber te len off ind :
  bytes_ok ber -> (Z.of_nat (length ber) < 2 ^ 62)%Z ->
  read_length ber te = Ok (len, off, ind) ->
  wrap64 (Z.of_nat off + Z.of_N len) = (Z.of_nat off + Z.of_N len)%Z /\
  (wrap64 (Z.of_nat off + Z.of_N len) >? Z.of_nat (length ber))%Z
    = (N.of_nat (Nat.sub (length ber) off) <? len)%N.
Proof.
  intros Hb Hl H.
  destruct (read_length_below_width ber te len off ind Hb H) as [Hlen Hoff].
  change (2 ^ (8 * gen_berMaxLenOctets - 1))%N with 2147483648%N in Hlen.
  assert (E : wrap64 (Z.of_nat off + Z.of_N len) = (Z.of_nat off + Z.of_N len)%Z).
  { apply wrap64_id. lia. }
  split; [exact E|]. rewrite E.
  destruct (Z.gtb_spec (Z.of_nat off + Z.of_N len) (Z.of_nat (length ber)));
    destruct (N.ltb_spec (N.of_nat (length ber - off)) len); try reflexivity; lia.
Qed.

(* non-vacuity, and what an 8-octet limit would do: 04 88 7f ff ff ff ff ff ff fe puts offset = 10 behind the
   length octets and length = 2^63-2; the wrapped sum is negative, "contentEnd > len(ber)" is false, while the
   subtraction form refuses *)
Example wrap_with_8_octets :
  wrap64 (10 + (2 ^ 63 - 2)) = (- 2 ^ 63 + 8)%Z /\
  (wrap64 (10 + (2 ^ 63 - 2)) >? 13)%Z = false /\
  (N.of_nat (13 - 10) <? 2 ^ 63 - 2)%N = true.
Proof. vm_compute. repeat split; reflexivity. Qed.

Example no_wrap_with_4_octets :
  read_length [4; 132; 127; 255; 255; 255; 1; 2; 3]%N 1 = Ok (2147483647%N, 6, false) /\
  (wrap64 (6 + 2147483647) >? 9)%Z = true.
Proof. vm_compute. split; reflexivity. Qed.
