(* Totality of the gmsm decoders that are encoding/asn1 plus a few lines: SignDataToSignDigit, CipherUnmarshal. *)
From Coq Require Import List NArith ZArith Bool Arith Lia.
From GmsmVerif Require Import Lib.Outcome Dec.Access Dec.AccessProofs Dec.Asn1Model Dec.Asn1Proofs Dec.Asn1Inst
  Dec.ByteModels Dec.ByteProofs.
Import ListNotations.
Local Open Scope nat_scope.

Lemma conforms_sig v : conforms sigSchema v = true -> exists raw r s, v = VStruct raw [VInt r; VInt s].
Proof.
  unfold sigSchema. destruct v as [| | | | |raw vs| | | | | |]; cbn [conforms]; try discriminate.
  destruct vs as [|[] [|[] [|]]]; cbn; try discriminate; intros _; eauto 8.
Qed.

Lemma conforms_cipher v : conforms cipherSchema v = true ->
  exists raw x y h c, v = VStruct raw [VInt x; VInt y; VBytes h; VBytes c].
Proof.
  unfold cipherSchema. destruct v as [| | | | |raw vs| | | | | |]; cbn [conforms]; try discriminate.
  destruct vs as [|[] [|[] [|[] [|[] [|]]]]]; cbn; try discriminate; intros _; eauto 8.
Qed.

Theorem signDataToSignDigit_total b : no_crash (signDataToSignDigit b).
Proof.
  unfold signDataToSignDigit. pose proof (Unmarshal_total sigSchema noParams b) as U.
  destruct (Unmarshal sigSchema noParams b) as [[[v rest] st]| | |]; cbn [obind no_crash]; auto.
  destruct U as (_ & _ & C).
  assert (C' : conforms sigSchema v = true) by (destruct v; try exact C; discriminate).
  destruct (conforms_sig _ C') as (raw & r & s & ->). exact I.
Qed.

Theorem cipherUnmarshal_total b : no_crash (cipherUnmarshal b).
Proof.
  unfold cipherUnmarshal. pose proof (Unmarshal_total cipherSchema noParams b) as U.
  destruct (Unmarshal cipherSchema noParams b) as [[[v rest] st]| | |]; cbn [obind no_crash]; auto.
  destruct U as (_ & _ & C).
  assert (C' : conforms cipherSchema v = true) by (destruct v; try exact C; discriminate).
  destruct (conforms_cipher _ C') as (raw' & x & y & h & c & ->).
  apply cipherUnmarshal_post_total.
Qed.

(* cost: at most 2 * (number of schema nodes) tag-and-length reads, whatever the input *)
Theorem asn1_cost b :
  (forall v rest st, Unmarshal sigSchema noParams b = Ok (v, rest, st) -> (st <= 6)%N) /\
  (forall v rest st, Unmarshal cipherSchema noParams b = Ok (v, rest, st) -> (st <= 10)%N) /\
  (forall v rest st, Unmarshal certOuterSchema noParams b = Ok (v, rest, st) -> (st <= 12)%N).
Proof.
  repeat split; intros v rest st E.
  - exact (Unmarshal_cost_noslice sigSchema noParams b v rest st eq_refl E).
  - exact (Unmarshal_cost_noslice cipherSchema noParams b v rest st eq_refl E).
  - exact (Unmarshal_cost_noslice certOuterSchema noParams b v rest st eq_refl E).
Qed.
