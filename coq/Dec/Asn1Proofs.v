(* The model of the encoding/asn1 DER reader is total (never Panic, never Hang) for every byte string,
   every schema and every field parameter; it makes at most 2 * (size of the schema) + (weight of the
   schema) * (bytes consumed) calls of parseTagAndLength, where the weight is 0 for a schema without
   slices; what it returns has the shape of the Go type. *)
From Coq Require Import List NArith ZArith Bool Arith Lia ZifyN ZifyNat ZifyBool.
From GmsmVerif Require Import Lib.Outcome Dec.Access Dec.AccessProofs Dec.Asn1Model.
Import ListNotations.
Local Open Scope nat_scope.

Lemma b128_spec left : forall first bytes off acc,
  match parseBase128Int_go left first bytes off acc with
  | Ok (_, off') => off < off' <= length bytes
  | Err _ => True
  | Panic | Hang => False
  end.
Proof.
  induction left as [|l IH]; intros first bytes off acc; cbn [parseBase128Int_go];
    (destruct (Nat.ltb_spec off (length bytes)) as [H|H]; [|exact I]); [exact I|].
  destruct (at_ok bytes off H) as [b ->]; cbn [obind].
  destruct (first && (b =? 128)%N)%bool; [exact I|].
  destruct (N.land b 128 =? 0)%N.
  - destruct (_ <? _)%N; [exact I|lia].
  - specialize (IH false bytes (S off) (acc * 128 + N.land b 127)%N).
    destruct (parseBase128Int_go l false bytes (S off) _) as [[v o]| | |]; auto. lia.
Qed.

Lemma length_loop_spec n : forall bytes off len,
  match length_loop n bytes off len with
  | Ok (_, off') => off' = off + n /\ (n = 0 \/ off' <= length bytes)
  | Err _ => True
  | Panic | Hang => False
  end.
Proof.
  induction n as [|n IH]; intros bytes off len; cbn [length_loop]; [lia|].
  destruct (Nat.leb_spec (length bytes) off) as [|H]; [exact I|].
  destruct (at_ok bytes off H) as [b ->]; cbn [obind].
  destruct (_ <=? _)%N; [exact I|]. destruct (_ =? 0)%N; [exact I|].
  specialize (IH bytes (S off) (len * 256 + b)%N).
  destruct (length_loop n bytes (S off) _) as [[l o]| | |]; auto. lia.
Qed.

Lemma parseTagAndLength_spec bytes off :
  match parseTagAndLength bytes off with
  | Ok (_, off') => off + 2 <= off' <= length bytes
  | Err _ => True
  | Panic | Hang => False
  end.
Proof.
  unfold parseTagAndLength.
  destruct (Nat.leb_spec (length bytes) off) as [|H]; [exact I|].
  destruct (at_ok bytes off H) as [b ->]; cbn [obind].
  assert (Htag : match (if (N.land b 31 =? 31)%N
                        then do '(tag, offset) <- parseBase128Int bytes (S off);
                             if (tag <? 31)%N then Err 2 else Ok (tag, offset)
                        else Ok (N.land b 31, S off)) with
                 | Ok (_, o) => off < o <= length bytes
                 | Err _ => True | Panic | Hang => False end).
  { destruct (N.land b 31 =? 31)%N; [|lia].
    unfold parseBase128Int. pose proof (b128_spec 5 true bytes (S off) 0%N) as HS.
    destruct (parseBase128Int_go 5 true bytes (S off) 0) as [[v o]| | |]; cbn [obind]; auto.
    destruct (v <? 31)%N; [exact I|lia]. }
  destruct (if (N.land b 31 =? 31)%N then _ else _) as [[tag o]| | |]; cbn [obind]; auto.
  destruct (Nat.leb_spec (length bytes) o) as [|Ho]; [exact I|].
  destruct (at_ok bytes o Ho) as [b2 ->]; cbn [obind].
  destruct (N.land b2 128 =? 0)%N; [lia|].
  destruct (Nat.eqb_spec (N.to_nat (N.land b2 127)) 0) as [|Hn]; [exact I|].
  pose proof (length_loop_spec (N.to_nat (N.land b2 127)) bytes (S o) 0%N) as L.
  destruct (length_loop _ bytes (S o) 0) as [[len o2]| | |]; cbn [obind]; auto.
  destruct (len <? 128)%N; [exact I|lia].
Qed.

Lemma checkInteger_total bytes : no_crash (checkInteger bytes).
Proof.
  unfold checkInteger. destruct (Nat.eqb_spec (length bytes) 0); [exact I|].
  destruct (Nat.eqb_spec (length bytes) 1); [exact I|].
  destruct (at_ok bytes 0 ltac:(lia)) as [x ->]. destruct (at_ok bytes 1 ltac:(lia)) as [y ->]. cbn [obind].
  destruct (_ || _)%bool; exact I.
Qed.

Lemma parseBigInt_total bytes : no_crash (parseBigInt bytes).
Proof.
  unfold parseBigInt, checkInteger. destruct (Nat.eqb_spec (length bytes) 0); [exact I|].
  destruct (at_ok bytes 0 ltac:(lia)) as [x Ex].
  destruct (Nat.eqb_spec (length bytes) 1).
  - cbn [obind]. rewrite Ex. cbn [obind]. destruct (_ =? _)%N; exact I.
  - rewrite Ex. destruct (at_ok bytes 1 ltac:(lia)) as [y ->]. cbn [obind].
    destruct (_ || _)%bool; cbn [obind]; [exact I|]. destruct (_ =? _)%N; exact I.
Qed.

Lemma parseBool_total bytes : no_crash (parseBool bytes).
Proof.
  unfold parseBool. destruct (Nat.eqb_spec (length bytes) 1) as [E|]; cbn [negb]; [|exact I].
  destruct (at_ok bytes 0 ltac:(lia)) as [x ->]. cbn [obind].
  destruct (_ =? _)%N; [exact I|]. destruct (_ =? _)%N; exact I.
Qed.

Lemma parseInt64_total bytes : no_crash (parseInt64 bytes).
Proof.
  unfold parseInt64. pose proof (checkInteger_total bytes) as C. unfold checkInteger in *.
  destruct (Nat.eqb_spec (length bytes) 0); [exact I|].
  destruct (at_ok bytes 0 ltac:(lia)) as [x Ex].
  match goal with |- no_crash (obind ?e _) => destruct e; cbn [obind no_crash] in *; auto end.
  destruct (Nat.ltb 8 _); [exact I|]. rewrite Ex. cbn [obind]. destruct (_ =? _)%N; exact I.
Qed.

Lemma parseBitString_total bytes : no_crash (parseBitString bytes).
Proof.
  unfold parseBitString. destruct (Nat.eqb_spec (length bytes) 0); [exact I|].
  destruct (at_ok bytes 0 ltac:(lia)) as [x ->]. cbn [obind].
  destruct (Nat.ltb 7 _); [exact I|]. destruct (_ && _)%bool; [exact I|].
  destruct (at_ok bytes (length bytes - 1) ltac:(lia)) as [y ->]. cbn [obind].
  destruct (negb _); [exact I|]. rewrite slice_from_ok by lia. exact I.
Qed.

Lemma oid_loop_total fuel : forall bytes off acc, length bytes <= fuel + off -> no_crash (oid_loop fuel bytes off acc).
Proof.
  induction fuel as [|f IH]; intros bytes off acc H; cbn [oid_loop];
    (destruct (Nat.ltb_spec off (length bytes)); [|exact I]); [lia|].
  unfold parseBase128Int. pose proof (b128_spec 5 true bytes off 0%N) as HS.
  destruct (parseBase128Int_go 5 true bytes off 0) as [[v o]| | |]; cbn [obind no_crash]; auto.
  apply IH. lia.
Qed.

Lemma parseObjectIdentifier_total bytes : no_crash (parseObjectIdentifier bytes).
Proof.
  unfold parseObjectIdentifier. destruct (Nat.eqb_spec (length bytes) 0); [exact I|].
  unfold parseBase128Int. pose proof (b128_spec 5 true bytes 0 0%N) as HS.
  destruct (parseBase128Int_go 5 true bytes 0 0) as [[v o]| | |]; cbn [obind no_crash]; auto.
  apply oid_loop_total. lia.
Qed.

(* ---------- induction over schemas -------------------------------------------------------------------- *)
Section KindInd.
  Variable P : kind -> Prop.
  Hypothesis H1 : P KBigInt.
  Hypothesis H2 : P KOctets.
  Hypothesis H3 : P KBitString.
  Hypothesis H4 : P KOID.
  Hypothesis H5 : P KRawValue.
  Hypothesis H7 : forall d, P (KInt d).
  Hypothesis H8 : P KBool.
  Hypothesis H9 : P KTime.
  Hypothesis H10 : P KAny.
  Hypothesis H11 : forall sn e, P e -> P (KSeqOf sn e).
  Hypothesis H6 : forall rc fs, Forall (fun pf => P (snd pf)) fs -> P (KStruct rc fs).
  Fixpoint kind_ind' (k : kind) : P k :=
    match k with
    | KBigInt => H1 | KOctets => H2 | KBitString => H3 | KOID => H4 | KRawValue => H5
    | KInt d => H7 d | KBool => H8 | KTime => H9 | KAny => H10
    | KSeqOf sn e => H11 sn e (kind_ind' e)
    | KStruct rc fs =>
      H6 rc fs ((fix go (l : list (fparams * kind)) : Forall (fun pf => P (snd pf)) l :=
                   match l with
                   | [] => Forall_nil _
                   | pf :: r => Forall_cons pf (kind_ind' (snd pf)) (go r)
                   end) fs)
    end.
End KindInd.

Lemma field_header_spec uni raw params bytes off steps :
  match field_header uni raw params bytes off steps with
  | Ok (HAbsent st) => p_optional params = true /\ (st <= steps + 2)%N
  | Ok (HElem t inner o st) =>
      off + 2 <= o <= length bytes /\ (st <= steps + 2)%N /\ length inner + off + 2 <= o
  | Err _ => True
  | Panic | Hang => False
  end.
Proof.
  unfold field_header.
  destruct (Nat.eqb_spec off (length bytes)) as [Heq|Hne].
  { destruct (p_optional params) eqn:Eo; [split; [reflexivity|lia]|exact I]. }
  pose proof (parseTagAndLength_spec bytes off) as T1.
  destruct (parseTagAndLength bytes off) as [[t o]| | |]; cbn [obind]; auto.
  match goal with |- context [obind ?e _] =>
    assert (Hx : match e with
                 | Ok (_, o', st', _) => off + 2 <= o' <= length bytes /\ (st' <= steps + 2)%N
                 | Err _ => True | Panic | Hang => False end) end.
  { destruct (p_explicit params); [|split; lia].
    destruct (Nat.eqb_spec o (length bytes)); [exact I|].
    destruct (_ && _ && _)%bool; [|split; lia].
    destruct raw; [split; lia|].
    destruct (0 <? t_length t)%N; [|exact I].
    pose proof (parseTagAndLength_spec bytes o) as T2.
    destruct (parseTagAndLength bytes o) as [[t2 o2]| | |]; cbn [obind]; auto. split; lia. }
  match goal with |- context [obind ?e _] => destruct e as [[[[t' o'] st'] dn]| | |]; cbn [obind]; auto end.
  destruct Hx as [Ho' Hst].
  destruct dn.
  { destruct (p_optional params) eqn:Eo; [split; [reflexivity|lia]|exact I]. }
  destruct uni as [[matchAny universalTag] compoundType].
  match goal with |- context [if ?c then (if p_optional params then _ else _) else _] => destruct c end.
  { destruct (p_optional params) eqn:Eo; [split; [reflexivity|lia]|exact I]. }
  destruct (invalidLength o' (t_length t') (length bytes)) eqn:Einv; [exact I|].
  unfold invalidLength in Einv. apply N.ltb_ge in Einv.
  rewrite (slice_ok bytes o' (o' + N.to_nat (t_length t'))) by lia. cbn [obind].
  rewrite firstn_length, skipn_length. lia.
Qed.

(* the ANY case *)
Definition present (v : value) : bool := match v with VAbsent => false | _ => true end.

Lemma parseAny_spec bytes off steps :
  match parseAny bytes off steps with
  | Ok (v, off', steps') => off + 2 <= off' <= length bytes /\ steps' = (steps + 1)%N /\ present v = true
  | Err _ => True
  | Panic | Hang => False
  end.
Proof.
  unfold parseAny. pose proof (parseTagAndLength_spec bytes off) as T.
  destruct (parseTagAndLength bytes off) as [[t o]| | |]; cbn [obind]; auto.
  destruct (invalidLength o (t_length t) (length bytes)) eqn:Einv; [exact I|].
  unfold invalidLength in Einv. apply N.ltb_ge in Einv.
  match goal with |- context [obind ?e _] =>
    assert (Hx : match e with Ok v => present v = true | Err _ => True | Panic | Hang => False end) end.
  { destruct (_ && _)%bool; [|reflexivity].
    rewrite (slice_ok bytes o (o + N.to_nat (t_length t))) by lia. cbn [obind].
    set (inner := firstn _ _).
    repeat match goal with |- match (if ?c then _ else _) with _ => _ end => destruct c end; try exact I; try reflexivity.
    - pose proof (parseInt64_total inner) as B. destruct (parseInt64 inner); cbn [obind no_crash] in *; auto.
    - pose proof (parseBitString_total inner) as B. destruct (parseBitString inner) as [[? ?]| | |]; cbn [obind no_crash] in *; auto.
    - pose proof (parseObjectIdentifier_total inner) as B. destruct (parseObjectIdentifier inner); cbn [obind no_crash] in *; auto. }
  match goal with |- context [obind ?e _] => destruct e; cbn [obind] in *; auto end.
  split; [lia|split; [reflexivity|exact Hx]].
Qed.

(* the counting pass of parseSequenceOf: every element has at least two bytes *)
Lemma count_loop_spec fuel uni bytes : forall off n steps, length bytes <= fuel + off ->
  match count_loop fuel uni bytes off n steps with
  | Ok (n', steps') => 2 * (n' - n) + off <= Nat.max off (length bytes) /\ n <= n' /\ steps' = (steps + N.of_nat (n' - n))%N
  | Err _ => True
  | Panic | Hang => False
  end.
Proof.
  induction fuel as [|f IH]; intros off n steps Hf; cbn [count_loop];
    (destruct (Nat.ltb_spec off (length bytes)) as [Hlt|Hge]; [|split; [lia|split; [lia|replace (n - n) with 0 by lia; lia]]]); [lia|].
  pose proof (parseTagAndLength_spec bytes off) as T.
  destruct (parseTagAndLength bytes off) as [[t o]| | |]; cbn [obind]; auto.
  destruct uni as [[matchAny expectedTag] compoundType].
  destruct (_ && _)%bool; [exact I|].
  destruct (invalidLength o (t_length t) (length bytes)) eqn:Einv; [exact I|].
  unfold invalidLength in Einv. apply N.ltb_ge in Einv.
  specialize (IH (o + N.to_nat (t_length t)) (S n) (steps + 1)%N ltac:(lia)).
  destruct (count_loop f _ bytes _ (S n) _) as [[n' st']| | |]; auto.
  destruct IH as (A & B & C). split; [lia|split; [lia|]]. rewrite C. lia.
Qed.

(* what parseField guarantees for one schema *)
Definition field_ok (k : kind) : Prop :=
  forall params bytes off steps,
    match parseField k params bytes off steps with
    | Ok (v, off', steps') =>
        off <= off' /\ (off <= length bytes -> off' <= length bytes) /\
        (steps' <= steps + 2 * N.of_nat (ksize k) + N.of_nat (kweight k) * N.of_nat (off' - off))%N /\
        (match v with VAbsent => p_optional params | _ => conforms k v end) = true
    | Err _ => True
    | Panic | Hang => False
    end.

Ltac start_field :=
  unfold field_ok; intros params bytes off steps; cbn [parseField is_any];
  match goal with |- context [field_header ?u ?r params bytes off steps] =>
    pose proof (field_header_spec u r params bytes off steps) as HH;
    destruct (field_header u r params bytes off steps) as [[st|t inner o st]| | |]; cbn [obind]; auto;
    [ destruct HH as [Ho Hs]; cbn [ksize kweight absent_value]; repeat split; try lia; try exact Ho
    | destruct HH as (Ho & Hs & Hin) ]
  end.

Lemma conforms_present k v :
  (match v with VAbsent => false | _ => conforms k v end) = true -> conforms k v = true.
Proof. destruct v; auto; discriminate. Qed.

Lemma mix_le (a b x y z : N) : (x <= z -> y <= z -> a * x + b * y <= (a + b) * z)%N.
Proof. intros. nia. Qed.

Lemma seq_cost (m ks w L : N) : (2 * m <= L -> m + m * (2 * ks) + w * L <= (w + ks + 1) * L)%N.
Proof. intros. nia. Qed.

Lemma parseField_all : forall k, field_ok k.
Proof.
  apply kind_ind'.
  - start_field. pose proof (parseBigInt_total inner) as B.
    destruct (parseBigInt inner); cbn [obind no_crash] in *; auto. repeat split; try lia. cbn [ksize kweight]. lia.
  - start_field. repeat split; try lia. cbn [ksize kweight]. lia.
  - start_field. pose proof (parseBitString_total inner) as B.
    destruct (parseBitString inner) as [[b n]| | |]; cbn [obind no_crash] in *; auto. repeat split; try lia. cbn [ksize kweight]. lia.
  - start_field. pose proof (parseObjectIdentifier_total inner) as B.
    destruct (parseObjectIdentifier inner); cbn [obind no_crash] in *; auto. repeat split; try lia. cbn [ksize kweight]. lia.
  - start_field. rewrite (slice_ok bytes off o) by lia. cbn [obind]. repeat split; try lia. cbn [ksize kweight]. lia.
  - intros d. start_field.
    + destruct d; [reflexivity|exact Ho].
    + pose proof (parseInt64_total inner) as B.
      destruct (parseInt64 inner); cbn [obind no_crash] in *; auto. repeat split; try lia. cbn [ksize kweight]. lia.
  - start_field. pose proof (parseBool_total inner) as B.
    destruct (parseBool inner); cbn [obind no_crash] in *; auto. repeat split; try lia. cbn [ksize kweight]. lia.
  - start_field. destruct (time_is_utc params t).
    + destruct (utcTime_ok inner); [|exact I]. repeat split; try lia. cbn [ksize kweight]. lia.
    + destruct (generalizedTime_ok inner); [|exact I]. repeat split; try lia. cbn [ksize kweight]. lia.
  - unfold field_ok; intros params bytes off steps; cbn [parseField is_any].
    destruct (Nat.eqb_spec off (length bytes)).
    + destruct (p_optional params) eqn:Eo; [|exact I]. repeat split; try lia.
    + pose proof (parseAny_spec bytes off steps) as A.
      destruct (parseAny bytes off steps) as [[[v o] st]| | |]; auto. destruct A as (A1 & -> & A3).
      repeat split; try lia. { cbn [ksize kweight]. lia. } destruct v; try reflexivity; discriminate.
  - (* slices *)
    intros sn e IHe. start_field.
    destruct (is_any e); [exact I|].
    pose proof (count_loop_spec (length inner) (getUniversalType e) inner 0 0 st ltac:(lia)) as C.
    destruct (count_loop (length inner) (getUniversalType e) inner 0 0 st) as [[m st1]| | |]; cbn [obind]; auto.
    destruct C as (C1 & _ & C3). rewrite Nat.sub_0_r, Nat.add_0_r, Nat.max_0_l in C1. rewrite Nat.sub_0_r in C3.
    match goal with |- context [?f m 0 st1 []] => set (loop := f) end.
    assert (HL : forall n io st0 acc, io <= length inner ->
               match loop n io st0 acc with
               | Ok (vs, st2) => (st2 <= st0 + N.of_nat n * (2 * N.of_nat (ksize e)) + N.of_nat (kweight e) * N.of_nat (length inner - io))%N /\
                                 exists vs', vs = rev acc ++ vs' /\
                                   (fix go (vs : list value) : bool := match vs with [] => true | v :: r => (conforms e v && go r)%bool end) vs' = true
               | Err _ => True
               | Panic | Hang => False
               end).
    { induction n as [|n IHn]; intros io st0 acc Hio; cbn [loop].
      - split; [nia|]. exists []. rewrite app_nil_r. split; reflexivity.
      - specialize (IHe noParams inner io st0).
        destruct (parseField e noParams inner io st0) as [[[v io'] st2]| | |]; cbn [obind]; auto.
        destruct IHe as (F1 & F2 & F3 & F4).
        specialize (IHn io' st2 (v :: acc) (F2 Hio)).
        destruct (loop n io' st2 (v :: acc)) as [[vs st3]| | |]; auto.
        destruct IHn as (S3 & vs' & -> & G).
        split.
        + pose proof (mix_le (N.of_nat (kweight e)) (N.of_nat (kweight e)) (N.of_nat (io' - io)) (N.of_nat (length inner - io')) (N.of_nat (length inner - io)) ltac:(specialize (F2 Hio); lia) ltac:(lia)) as M.
          assert (N.of_nat (kweight e) * N.of_nat (io' - io) + N.of_nat (kweight e) * N.of_nat (length inner - io') <= N.of_nat (kweight e) * N.of_nat (length inner - io))%N.
          { specialize (F2 Hio). rewrite <- N.mul_add_distr_l. apply N.mul_le_mono_l. lia. }
          lia.
        + exists (v :: vs'). split; [cbn [rev]; rewrite <- app_assoc; reflexivity|].
          rewrite (conforms_present e v F4), G. reflexivity. }
    specialize (HL m 0 st1 [] ltac:(lia)).
    destruct (loop m 0 st1 []) as [[vs st3]| | |]; cbn [obind]; auto.
    destruct HL as (S3 & vs' & -> & G). cbn [rev app].
    repeat split; try lia.
    + cbn [ksize kweight]. rewrite Nat.sub_0_r in S3.
      pose proof (seq_cost (N.of_nat m) (N.of_nat (ksize e)) (N.of_nat (kweight e)) (N.of_nat (length inner)) ltac:(lia)) as Q.
      assert ((N.of_nat (kweight e) + N.of_nat (ksize e) + 1) * N.of_nat (length inner) <=
              N.of_nat (kweight e + ksize e + 1) * N.of_nat (o - off))%N.
      { replace (N.of_nat (kweight e + ksize e + 1)) with (N.of_nat (kweight e) + N.of_nat (ksize e) + 1)%N by lia.
        apply N.mul_le_mono_l. lia. }
      lia.
    + cbn [conforms]. exact G.
  - intros rc fs IHfs. start_field.
    assert (Hraw : exists raw, (if rc then slice bytes off o else Ok []) = Ok raw).
    { destruct rc; [rewrite slice_ok by lia|]; eauto. }
    destruct Hraw as [raw ->]. cbn [obind].
    match goal with |- context [?f fs 0 st []] => set (loop := f) end.
    assert (HL : forall fs0, Forall (fun pf => field_ok (snd pf)) fs0 -> forall io st0 acc, io <= length inner ->
               match loop fs0 io st0 acc with
               | Ok (vs, st2) => (st2 <= st0 + 2 * N.of_nat (list_sum (map (fun pf => ksize (snd pf)) fs0))
                                         + N.of_nat (list_sum (map (fun pf => kweight (snd pf)) fs0)) * N.of_nat (length inner - io))%N /\
                                 exists vs', vs = rev acc ++ vs' /\
                                   (fix go (fs : list (fparams * kind)) (vs : list value) : bool :=
                                      match fs, vs with
                                      | [], [] => true
                                      | (p, k') :: fr, v :: vr =>
                                        ((match v with VAbsent => p_optional p | _ => conforms k' v end) && go fr vr)%bool
                                      | _, _ => false
                                      end) fs0 vs' = true
               | Err _ => True
               | Panic | Hang => False
               end).
    { induction 1 as [|[fp fk] r Hf Hr IHr]; intros io st0 acc Hio; cbn [loop].
      - split; [cbn; nia|]. exists []. rewrite app_nil_r. split; reflexivity.
      - specialize (Hf fp inner io st0). cbn [snd] in Hf.
        destruct (parseField fk fp inner io st0) as [[[v io'] st2]| | |]; cbn [obind]; auto.
        destruct Hf as (F1 & F2 & F3 & F4).
        specialize (IHr io' st2 (v :: acc) (F2 Hio)).
        destruct (loop r io' st2 (v :: acc)) as [[vs st3]| | |]; auto.
        destruct IHr as (S3 & vs' & -> & G).
        split.
        + change (list_sum (map (fun pf => ksize (snd pf)) ((fp, fk) :: r))) with (ksize fk + list_sum (map (fun pf => ksize (snd pf)) r)).
          change (list_sum (map (fun pf => kweight (snd pf)) ((fp, fk) :: r))) with (kweight fk + list_sum (map (fun pf => kweight (snd pf)) r)).
          pose proof (mix_le (N.of_nat (kweight fk)) (N.of_nat (list_sum (map (fun pf => kweight (snd pf)) r)))
                        (N.of_nat (io' - io)) (N.of_nat (length inner - io')) (N.of_nat (length inner - io))
                        ltac:(specialize (F2 Hio); lia) ltac:(lia)) as M.
          replace (N.of_nat (kweight fk + list_sum (map (fun pf => kweight (snd pf)) r)))
            with (N.of_nat (kweight fk) + N.of_nat (list_sum (map (fun pf => kweight (snd pf)) r)))%N by lia.
          lia.
        + exists (v :: vs'). split; [cbn [rev]; rewrite <- app_assoc; reflexivity|].
          rewrite F4, G. reflexivity. }
    specialize (HL fs IHfs 0 st [] ltac:(lia)).
    destruct (loop fs 0 st []) as [[vs st3]| | |]; cbn [obind]; auto.
    destruct HL as (S3 & vs' & -> & G). cbn [rev app].
    repeat split; try lia.
    + cbn [ksize kweight]. rewrite Nat.sub_0_r in S3.
      assert (N.of_nat (list_sum (map (fun pf => kweight (snd pf)) fs)) * N.of_nat (length inner) <=
              N.of_nat (list_sum (map (fun pf => kweight (snd pf)) fs)) * N.of_nat (o - off))%N.
      { apply N.mul_le_mono_l. lia. }
      lia.
    + cbn [conforms]. exact G.
Qed.

Theorem Unmarshal_total k params b :
  match Unmarshal k params b with
  | Ok (v, rest, steps) => (steps <= 2 * N.of_nat (ksize k) + N.of_nat (kweight k) * N.of_nat (length b))%N /\
                           length rest <= length b /\
                           (match v with VAbsent => p_optional params | _ => conforms k v end) = true
  | Err _ => True
  | Panic | Hang => False
  end.
Proof.
  unfold Unmarshal. pose proof (parseField_all k params b 0 0%N) as F.
  destruct (parseField k params b 0 0) as [[[v off] st]| | |]; cbn [obind]; auto.
  destruct F as (F1 & F2 & F3 & F4). rewrite slice_from_ok by lia. cbn [obind].
  rewrite skipn_length. repeat split; try lia; try exact F4.
  assert (N.of_nat (kweight k) * N.of_nat (off - 0) <= N.of_nat (kweight k) * N.of_nat (length b))%N.
  { apply N.mul_le_mono_l. lia. }
  lia.
Qed.

(* without slices the cost depends on the schema only *)
Corollary Unmarshal_cost_noslice k params b v rest steps :
  kweight k = 0 -> Unmarshal k params b = Ok (v, rest, steps) -> (steps <= 2 * N.of_nat (ksize k))%N.
Proof.
  intros W E. pose proof (Unmarshal_total k params b) as T. rewrite E in T. rewrite W in T. lia.
Qed.
