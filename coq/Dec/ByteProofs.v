(* Totality (never Panic, never Hang) of the byte-level decoder models of Dec/ByteModels.v, and
   the pad / unpad facts. *)
From Coq Require Import List NArith Arith Bool Lia ZifyN ZifyNat ZifyBool.
From GmsmVerif Require Import Lib.Outcome Dec.Access Dec.AccessProofs Dec.DecSpec Dec.ByteModels.
Import ListNotations.
Local Open Scope nat_scope.

Ltac lens := repeat (rewrite skipn_length in * || rewrite firstn_length in * || rewrite app_length in * || rewrite repeat_length in *); lia.

Ltac step :=
  match goal with
  | |- context [Nat.ltb ?a ?b] => destruct (Nat.ltb_spec a b)
  | |- context [Nat.leb ?a ?b] => destruct (Nat.leb_spec a b)
  | |- context [Nat.eqb ?a ?b] => destruct (Nat.eqb_spec a b)
  | |- context [at_ ?b ?i] =>
      let x := fresh "x" in let E := fresh "E" in
      destruct (at_ok b i) as [x E]; [lens | rewrite E]
  | |- context [slice_from ?b ?i] => rewrite (slice_from_ok b i) by lens
  | |- context [slice_to ?b ?i] => rewrite (slice_to_ok b i) by lens
  | |- context [slice ?b ?i ?j] => rewrite (slice_ok b i j) by lens
  | |- context [if ?c then _ else _] => destruct c eqn:?
  end; cbn [negb orb andb obind no_crash fails_closed new_cbc crypt_blocks]; try exact I.

Ltac steps := unfold fails_closed; cbn [negb orb andb obind no_crash]; repeat step.

(* ---------- unpad / pad ------------------------------------------------------------------------ *)
Lemma unpad_total data bl : no_crash (unpad data bl).
Proof. unfold unpad. steps. Qed.

Lemma pad_total data bl : no_crash (pad data bl).
Proof. unfold pad. steps. Qed.

Lemma forallb_repeat_eq (v : N) n : forallb (fun b => (b =? v)%N) (repeat v n) = true.
Proof. induction n; cbn [repeat forallb]; [reflexivity|]. rewrite N.eqb_refl. exact IHn. Qed.

Lemma forallb_eq_repeat (v : N) l : forallb (fun b => (b =? v)%N) l = true -> l = repeat v (length l).
Proof.
  induction l as [|x l IH]; cbn [forallb length repeat]; intros H; [reflexivity|].
  apply andb_true_iff in H as [Hx Hl]. apply N.eqb_eq in Hx. subst x. f_equal. apply IH; exact Hl.
Qed.

Lemma last_nth_error {A} (l : list A) x : nth_error (l ++ [x]) (length l) = Some x.
Proof. rewrite nth_error_app2 by lia. rewrite Nat.sub_diag. reflexivity. Qed.

(* unpad accepts exactly the strings that end in one valid pad and fill whole blocks *)
Lemma unpad_sound data bl m : 1 <= bl <= 255 -> unpad data bl = Ok m -> p7_padded bl data m.
Proof.
  intros Hbl. unfold unpad.
  destruct (Nat.ltb_spec bl 1); [discriminate|].
  destruct (Nat.eqb_spec (length data mod bl) 0) as [Hmod|]; cbn [negb orb]; [|discriminate].
  destruct (Nat.eqb_spec (length data) 0) as [|Hne]; [discriminate|].
  destruct (at_ok data (length data - 1) ltac:(lia)) as [lst E]; rewrite E; cbn [obind].
  set (k := N.to_nat lst).
  destruct (Nat.eqb_spec k 0); cbn [orb]; [discriminate|].
  destruct (Nat.ltb_spec bl k); cbn [orb]; [discriminate|].
  destruct (Nat.ltb_spec (length data) k); [discriminate|].
  rewrite slice_from_ok by lia. cbn [obind].
  destruct (forallb _ _) eqn:Hall; [|discriminate].
  rewrite slice_to_ok by lia. intros [= <-].
  apply forallb_eq_repeat in Hall. rewrite skipn_length in Hall.
  replace (length data - (length data - k)) with k in Hall by lia.
  rewrite N.mod_small in Hall by lia.
  exists k. split; [lia|]. split; [|split; [exact Hmod|]].
  - rewrite <- Hall. symmetry. apply firstn_skipn.
  - intros ->. cbn in Hne. lia.
Qed.

Lemma unpad_complete data bl m : 1 <= bl <= 255 -> p7_padded bl data m -> unpad data bl = Ok m.
Proof.
  intros Hbl (k & Hk & Hd & Hmod & Hne). unfold unpad.
  destruct (Nat.ltb_spec bl 1); [lia|].
  rewrite Hmod. cbn [Nat.eqb negb orb].
  assert (Hlen : length data = length m + k) by (rewrite Hd, app_length, repeat_length; reflexivity).
  destruct (Nat.eqb_spec (length data) 0) as [|_]; [lia|].
  assert (Hlast : at_ data (length data - 1) = Ok (N.of_nat k)).
  { unfold at_. destruct k as [|k']; [lia|].
    rewrite Hd at 1. replace (S k') with (k' + 1) at 2 by lia. rewrite repeat_app. cbn [repeat].
    rewrite app_assoc.
    replace (length data - 1) with (length (m ++ repeat (N.of_nat (S k')) k'))
      by (rewrite app_length, repeat_length; lia).
    rewrite last_nth_error. reflexivity. }
  rewrite Hlast. cbn [obind]. rewrite Nat2N.id.
  destruct (Nat.eqb_spec k 0); [lia|]. destruct (Nat.ltb_spec bl k); [lia|].
  destruct (Nat.ltb_spec (length data) k); [lia|]. cbn [orb].
  rewrite slice_from_ok by lia. cbn [obind].
  assert (Hs : skipn (length data - k) data = repeat (N.of_nat k) k).
  { replace (length data - k) with (length m) by lia.
    rewrite Hd, skipn_app, skipn_all, Nat.sub_diag. reflexivity. }
  rewrite Hs. rewrite N.mod_small by lia. rewrite forallb_repeat_eq.
  rewrite slice_to_ok by lia. f_equal.
  replace (length data - k) with (length m) by lia.
  rewrite Hd, firstn_app, firstn_all, Nat.sub_diag. cbn [firstn]. apply app_nil_r.
Qed.

Lemma pad_is_spec m bl : 1 <= bl <= 255 -> pad m bl = Ok (p7_pad_spec bl m).
Proof.
  intros Hbl. unfold pad, p7_pad_spec.
  destruct (Nat.ltb_spec bl 1); [lia|].
  pose proof (Nat.mod_upper_bound (length m) bl ltac:(lia)).
  destruct (Nat.eqb_spec (bl - length m mod bl) 0); [lia|].
  rewrite N.mod_small by lia. reflexivity.
Qed.

Lemma pad_spec_padded m bl : 1 <= bl <= 255 -> p7_padded bl (p7_pad_spec bl m) m.
Proof.
  intros Hbl. unfold p7_pad_spec.
  pose proof (Nat.mod_upper_bound (length m) bl ltac:(lia)) as Hu.
  set (k := bl - length m mod bl).
  exists k. split; [unfold k; lia|]. split; [reflexivity|]. split.
  - rewrite app_length, repeat_length. unfold k.
    pose proof (Nat.div_mod (length m) bl ltac:(lia)) as Hd.
    replace (length m + (bl - length m mod bl)) with ((length m / bl + 1) * bl) by nia.
    apply Nat.mod_mul. lia.
  - intros E. apply (f_equal (@length N)) in E. rewrite app_length, repeat_length in E. cbn in E.
    unfold k in E. lia.
Qed.

Lemma unpad_pad m bl : 1 <= bl <= 255 ->
  (do p <- pad m bl; unpad p bl) = Ok m.
Proof.
  intros Hbl. rewrite pad_is_spec by exact Hbl. cbn [obind].
  apply unpad_complete; [exact Hbl|]. apply pad_spec_padded; exact Hbl.
Qed.

Lemma p7_cbc_decrypt_total bs dec iv ct :
  1 <= bs -> (forall c, length (dec c) = length c) -> no_crash (p7_cbc_decrypt bs dec iv ct).
Proof.
  intros Hbs Hdec. unfold p7_cbc_decrypt, new_cbc, crypt_blocks. steps; try contradiction; try lia. apply unpad_total.
Qed.

(* ---------- sm2 -------------------------------------------------------------------------------- *)
Lemma decrypt_gate_total oc mode data : no_crash (decrypt_gate oc mode data).
Proof. unfold decrypt_gate. steps. Qed.

Lemma decrypt_gate_short oc mode data : length data < 98 -> decrypt_gate oc mode data = Err 1.
Proof. intros H. unfold decrypt_gate. destruct (Nat.ltb_spec (length data) (1 + 64 + 32 + 1)); [reflexivity|lia]. Qed.

Lemma cipherMarshal_gate_total data : no_crash (cipherMarshal_gate data).
Proof. unfold cipherMarshal_gate. steps. Qed.

Lemma cipherUnmarshal_post_total xn yn x y h c : no_crash (cipherUnmarshal_post xn yn x y h c).
Proof. unfold cipherUnmarshal_post, zeroByteSlice. steps. Qed.

Lemma decompress_gate_total a : no_crash (decompress_gate a).
Proof. unfold decompress_gate. steps. Qed.

(* ---------- pkcs8 ------------------------------------------------------------------------------ *)
Lemma pkcs8_encrypted_post_total a b c iv ek prf : no_crash (pkcs8_encrypted_post a b c iv ek prf).
Proof. unfold pkcs8_encrypted_post, new_cbc, crypt_blocks. steps; try congruence; try lia. Qed.

Lemma strip_zeros_spec fuel : forall pk, length pk <= fuel + 32 ->
  match strip_zeros fuel pk with
  | Ok pk' => length pk' <= 32
  | Err _ => True
  | Panic | Hang => False
  end.
Proof.
  induction fuel as [|f IH]; intros pk H; cbn [strip_zeros];
    (destruct (Nat.ltb_spec 32 (length pk)); [|lia]); [lia|].
  destruct (at_ok pk 0 ltac:(lia)) as [x ->]; cbn [obind].
  destruct (negb (x =? 0)%N); [exact I|].
  rewrite slice_from_ok by lia. cbn [obind]. apply IH. rewrite skipn_length. lia.
Qed.

Lemma parseSm2PrivateKey_post_total pk : no_crash (parseSm2PrivateKey_post pk).
Proof.
  unfold parseSm2PrivateKey_post. destruct (_ <=? be_value pk)%N; [exact I|].
  pose proof (strip_zeros_spec (length pk) pk ltac:(lia)) as S.
  destruct (strip_zeros (length pk) pk) as [pk'| | |]; cbn [obind no_crash]; auto.
  rewrite slice_to_ok by (rewrite repeat_length; lia). exact I.
Qed.

(* ---------- hex -------------------------------------------------------------------------------- *)
Lemma hex_decode_total : forall n s, length s <= n -> no_crash (hex_decode s).
Proof.
  induction n as [|n IH]; intros s H.
  - destruct s; [exact I|cbn in H; lia].
  - destruct s as [|a [|b r]]; cbn [hex_decode]; try exact I.
    destruct (fromHexChar a), (fromHexChar b); try exact I.
    specialize (IH r ltac:(cbn in H; lia)). destruct (hex_decode r); cbn [obind no_crash] in *; auto.
Qed.

Lemma readPublicKeyFromHex_total q : no_crash (readPublicKeyFromHex q).
Proof.
  unfold readPublicKeyFromHex.
  pose proof (hex_decode_total (length q) q (le_n _)) as H.
  destruct (hex_decode q) as [d| | |]; cbn [obind no_crash] in *; auto. clear H.
  steps.
Qed.

Lemma readPrivateKeyFromHex_total d : no_crash (readPrivateKeyFromHex d).
Proof.
  unfold readPrivateKeyFromHex.
  pose proof (hex_decode_total (length d) d (le_n _)) as H.
  destruct (hex_decode d) as [x| | |]; cbn [obind no_crash] in *; auto.
  destruct (_ <=? _)%N; exact I.
Qed.

(* ---------- session tickets -------------------------------------------------------------------- *)
Lemma unmarshal_certs_total n : forall data acc, no_crash (unmarshal_certs n data acc).
Proof.
  induction n as [|n IH]; intros data acc; cbn [unmarshal_certs]; [exact I|].
  steps. apply IH.
Qed.

Lemma sessionState_unmarshal_total data : no_crash (sessionState_unmarshal data).
Proof.
  unfold sessionState_unmarshal. steps.
  match goal with |- context [unmarshal_certs ?n ?d ?a] =>
    pose proof (unmarshal_certs_total n d a) as HU; destruct (unmarshal_certs n d a) as [[cs rest]| | |] end;
    cbn [obind no_crash] in *; auto.
  steps.
Qed.

Lemma decryptTicket_total {K} (keyName : K -> list N) mac ctr disabled keys enc :
  no_crash (decryptTicket keyName mac ctr disabled keys enc).
Proof.
  unfold decryptTicket, aesBlockSize, sha256Size.
  destruct disabled; cbn [orb]; [exact I|].
  destruct (Nat.ltb_spec (length enc) (ticketKeyNameLen + 16 + 32)); [exact I|].
  rewrite slice_to_ok by lia. cbn [obind].
  rewrite slice_ok by lia. cbn [obind].
  rewrite slice_from_ok by lia. cbn [obind].
  destruct (find_key keyName keys _ 0) as [[i k]|]; [|exact I].
  rewrite slice_to_ok by lia. cbn [obind].
  destruct (negb _); [exact I|].
  rewrite slice_ok by lia. cbn [obind].
  match goal with |- context [sessionState_unmarshal ?p] =>
    pose proof (sessionState_unmarshal_total p) as HU; destruct (sessionState_unmarshal p) end;
    cbn [obind no_crash] in *; auto.
Qed.

(* ---------- certificate request (GM) ----------------------------------------------------------- *)
Lemma unmarshal_cas_total fuel : forall cas acc, length cas <= 2 * fuel -> no_crash (unmarshal_cas fuel cas acc).
Proof.
  induction fuel as [|f IH]; intros cas acc H; cbn [unmarshal_cas];
    (destruct (Nat.ltb_spec 0 (length cas)); [|exact I]); [lia|].
  steps. apply IH. rewrite !skipn_length. lia.
Qed.

Lemma certificateRequestMsgGM_unmarshal_total data : no_crash (certificateRequestMsgGM_unmarshal data).
Proof.
  unfold certificateRequestMsgGM_unmarshal. steps.
  all: match goal with |- context [unmarshal_cas ?n ?d ?a] =>
    pose proof (unmarshal_cas_total n d a ltac:(lens)) as HU; destruct (unmarshal_cas n d a) end;
    cbn [obind no_crash] in *; auto.
  all: steps.
Qed.

(* ---------- GM key exchange -------------------------------------------------------------------- *)
Lemma ecc_processClientKeyExchange_gate_total c : no_crash (ecc_processClientKeyExchange_gate c).
Proof. unfold ecc_processClientKeyExchange_gate. steps. Qed.

Lemma ecc_processServerKeyExchange_gate_total k : no_crash (ecc_processServerKeyExchange_gate k).
Proof. unfold ecc_processServerKeyExchange_gate. steps. Qed.

Lemma ecdhe_processServerKeyExchange_gate_total ok k : no_crash (ecdhe_processServerKeyExchange_gate ok k).
Proof. unfold ecdhe_processServerKeyExchange_gate. steps. Qed.

(* ---------- sm2.Decrypt: the slicing is the right one for both orderings ---------------------------- *)
Lemma firstn_app_exact {A} (a b : list A) : firstn (length a) (a ++ b) = a.
Proof. rewrite firstn_app, Nat.sub_diag, firstn_all. cbn [firstn]. apply app_nil_r. Qed.

Lemma skipn_app_exact {A} (a b : list A) : skipn (length a) (a ++ b) = b.
Proof. rewrite skipn_app, skipn_all, Nat.sub_diag. reflexivity. Qed.

Lemma slice_mid (pre mid post : list N) :
  slice (pre ++ mid ++ post) (length pre) (length pre + length mid) = Ok mid.
Proof.
  rewrite slice_ok by (rewrite ?app_length; lia). rewrite skipn_app_exact.
  replace (length pre + length mid - length pre) with (length mid) by lia.
  rewrite firstn_app_exact. reflexivity.
Qed.

Lemma decrypt_gate_layout oc mode x y h c2 :
  length x = 32 -> length y = 32 -> length h = 32 -> c2 <> [] ->
  oc (be_value x) (be_value y) = true ->
  (be_value x < DecConsts.gen_sm2_P)%N -> (be_value y < DecConsts.gen_sm2_P)%N ->
  decrypt_gate oc mode
    (4%N :: x ++ y ++ (if Nat.eqb mode C1C2C3 then c2 ++ h else h ++ c2)) = Ok (be_value x, be_value y, h, c2).
Proof.
  intros Hx Hy Hh Hc Hoc Hpx Hpy. unfold decrypt_gate.
  assert (Hc2 : 1 <= length c2) by (destruct c2; [congruence|cbn; lia]).
  set (data := 4%N :: x ++ y ++ (if Nat.eqb mode C1C2C3 then c2 ++ h else h ++ c2)).
  assert (Hlen : length data = 97 + length c2).
  { unfold data. destruct (Nat.eqb mode C1C2C3); cbn [length]; rewrite !app_length; lia. }
  destruct (Nat.ltb_spec (length data) (1 + 64 + 32 + 1)); [lia|].
  unfold data at 1. cbn [at_ nth_error obind]. cbn [N.eqb Pos.eqb negb].
  assert (Hnorm : (if Nat.eqb mode C1C2C3 then
                do data0 <- slice_from data 1;
                do c1 <- slice_to data0 64;
                do c2' <- slice data0 64 (length data0 - 32);
                do c3 <- slice_from data0 (length data0 - 32);
                Ok (c1 ++ c3 ++ c2')
              else slice_from data 1) = Ok (x ++ y ++ h ++ c2)).
  { unfold data. destruct (Nat.eqb mode C1C2C3).
    - rewrite slice_from_ok by (cbn [length]; lia). cbn [skipn obind].
      set (d0 := x ++ y ++ c2 ++ h).
      assert (Hd0 : length d0 = 96 + length c2) by (unfold d0; rewrite !app_length; lia).
      rewrite slice_to_ok by lia. cbn [obind].
      rewrite slice_ok by lia. cbn [obind]. rewrite slice_from_ok by lia. cbn [obind]. f_equal.
      assert (E1 : firstn 64 d0 = x ++ y).
      { unfold d0. rewrite (app_assoc x y). replace 64 with (length (x ++ y)) by (rewrite app_length; lia).
        apply firstn_app_exact. }
      assert (E3 : skipn 64 d0 = c2 ++ h).
      { unfold d0. rewrite (app_assoc x y). replace 64 with (length (x ++ y)) by (rewrite app_length; lia).
        apply skipn_app_exact. }
      assert (E2 : skipn (length d0 - 32) d0 = h).
      { replace (length d0 - 32) with (length (x ++ y ++ c2)) by (rewrite Hd0, !app_length; lia).
        unfold d0. replace (x ++ y ++ c2 ++ h) with ((x ++ y ++ c2) ++ h) by (rewrite <- !app_assoc; reflexivity).
        apply skipn_app_exact. }
      rewrite E1, E2, E3.
      replace (length d0 - 32 - 64) with (length c2) by lia. rewrite firstn_app_exact.
      rewrite <- !app_assoc. reflexivity.
    - rewrite slice_from_ok by (cbn [length]; lia). cbn [skipn obind]. reflexivity. }
  rewrite Hnorm. cbn [obind].
  assert (Hd : length (x ++ y ++ h ++ c2) = 96 + length c2) by (rewrite !app_length; lia).
  rewrite slice_to_ok by lia. cbn [obind].
  assert (F1 : firstn 32 (x ++ y ++ h ++ c2) = x) by (rewrite <- Hx; apply firstn_app_exact).
  rewrite F1.
  pose proof (slice_mid x y (h ++ c2)) as S1. rewrite Hx, Hy in S1. cbn [Nat.add] in S1. rewrite S1. cbn [obind].
  rewrite Hoc. cbn [negb].
  destruct (N.leb_spec DecConsts.gen_sm2_P (be_value x)); [lia|].
  destruct (N.leb_spec DecConsts.gen_sm2_P (be_value y)); [lia|]. cbn [orb].
  rewrite Hd. replace (96 + (96 + length c2 - 96)) with (length (x ++ y ++ h) + length c2) by (rewrite !app_length; lia).
  pose proof (slice_mid (x ++ y ++ h) c2 []) as S2. rewrite app_nil_r in S2.
  replace ((x ++ y ++ h) ++ c2) with (x ++ y ++ h ++ c2) in S2 by (rewrite <- !app_assoc; reflexivity).
  replace 96 with (length (x ++ y ++ h)) at 1 by (rewrite !app_length; lia).
  rewrite S2. cbn [obind].
  pose proof (slice_mid (x ++ y) h c2) as S3.
  replace ((x ++ y) ++ h ++ c2) with (x ++ y ++ h ++ c2) in S3 by (rewrite <- !app_assoc; reflexivity).
  rewrite app_length, Hx, Hy, Hh in S3. cbn [Nat.add] in S3. rewrite S3. reflexivity.
Qed.
