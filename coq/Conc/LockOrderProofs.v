(* C20 - a program whose threads respect one lock order never deadlocks (proofs for Conc/LockOrder.v). *)
From Coq Require Import List Arith Bool Lia.
From GmsmVerif Require Import Conc.AccessModel Conc.ConcLists Conc.NestModel Conc.NestProofs Conc.LockOrder.
Import ListNotations.

Section P.
  Variable wf : nat -> list nat -> nat.
  Variable obody : nat -> list (nat * nat).
  Variable rank : nat -> nat.
  Variables nmut nonce bound : nat.
  Notation ordered := (ordered rank nmut nonce bound).
  Notation step2 := (step2 wf obody).
  Notation apply2 := (apply2 wf obody).
  Notation run2 := (run2 wf obody).

  Record LInv (st : pst2) : Prop := {
    l_nlocks : length (locks2 (pmem2 st)) = nmut;
    l_nonce : length (odone2 (pmem2 st)) = nonce;
    l_rlen : forall m l, nth_error (locks2 (pmem2 st)) m = Some l -> length (rdrs l) = length (thr2 st);
    l_ord : forall t hl code, nth_error (thr2 st) t = Some (hl, code) -> ordered hl code = true;
    l_he : forall t hl code m, nth_error (thr2 st) t = Some (hl, code) -> In (Excl, m) hl ->
      exists l, nth_error (locks2 (pmem2 st)) m = Some l /\ writer l = Some t;
    l_hs : forall t hl code m, nth_error (thr2 st) t = Some (hl, code) -> In (Shared, m) hl ->
      exists l, nth_error (locks2 (pmem2 st)) m = Some l /\ nth t (rdrs l) false = true;
    l_we : forall m l u, nth_error (locks2 (pmem2 st)) m = Some l -> writer l = Some u ->
      exists hl code, nth_error (thr2 st) u = Some (hl, code) /\ In (Excl, m) hl;
    l_rs : forall m l u, nth_error (locks2 (pmem2 st)) m = Some l -> nth u (rdrs l) false = true ->
      exists hl code, nth_error (thr2 st) u = Some (hl, code) /\ In (Shared, m) hl }.

  Lemma nth_error_upd_inv : forall A n (x : A) l m y, nth_error (upd n x l) m = Some y ->
    (m = n /\ y = x) \/ (m <> n /\ nth_error l m = Some y).
  Proof.
    intros A n x l m y H. destruct (Nat.eq_dec m n) as [E|E].
    - subst. left. split; auto. assert (L : n < length l).
      { apply nth_error_lt in H. rewrite length_upd in H. exact H. }
      rewrite nth_error_upd_eq in H by exact L. congruence.
    - right. split; auto. rewrite nth_error_upd_neq in H by congruence. exact H.
  Qed.

  Lemma forallb_negb_nth : forall l u, forallb negb l = true -> nth u l false = false.
  Proof. induction l; intros [|u] H; simpl in *; auto; apply andb_true_iff in H; destruct H as [A B]; auto. destruct a; auto; discriminate. Qed.

  Lemma forallb_negb_false : forall l, forallb negb l = false -> exists u, nth u l false = true.
  Proof.
    induction l; simpl; intros H; try discriminate. destruct a; simpl in H.
    - exists 0. reflexivity.
    - destruct (IHl H) as [u Hu]. exists (S u). exact Hu.
  Qed.

  Lemma nth_true_lt : forall (l : list bool) u, nth u l false = true -> u < length l.
  Proof. induction l; intros [|u] H; simpl in *; try discriminate; try lia. apply IHl in H. lia. Qed.

  (* ---- the invariant holds initially ---- *)
  Lemma nth_error_repeat : forall A (x y : A) n m, nth_error (repeat x n) m = Some y -> y = x.
  Proof. intros A x y n; induction n; intros [|m] H; simpl in *; try discriminate; [congruence | eauto]. Qed.
  Lemma nth_repeat_false : forall n u, nth u (repeat false n) false = false.
  Proof. induction n; intros [|u]; simpl; auto. Qed.

  Lemma linit : forall prog nl, (forall c, In c prog -> ordered [] c = true) ->
    LInv (init2 prog nl nmut nonce).
  Proof.
    intros prog nl Ho. unfold init2. constructor; simpl.
    - apply repeat_length.
    - apply repeat_length.
    - intros m l H. apply nth_error_repeat in H. subst. simpl. rewrite repeat_length, map_length. reflexivity.
    - intros t hl code H. rewrite nth_error_map in H. destruct (nth_error prog t) eqn:E; simpl in H; try discriminate.
      inversion H; subst. apply Ho. eapply nth_error_In; eauto.
    - intros t hl code m H Hi. rewrite nth_error_map in H. destruct (nth_error prog t); simpl in H; try discriminate.
      inversion H; subst. destruct Hi.
    - intros t hl code m H Hi. rewrite nth_error_map in H. destruct (nth_error prog t); simpl in H; try discriminate.
      inversion H; subst. destruct Hi.
    - intros m l u H W. apply nth_error_repeat in H. subst. discriminate.
    - intros m l u H W. apply nth_error_repeat in H. subst. simpl in W. rewrite nth_repeat_false in W. discriminate.
  Qed.

  (* ---- and is kept by every step ---- *)
  Ltac thr_cases H :=
    apply nth_error_upd_inv in H; destruct H as [[? H]|[? H]]; [subst; inversion H; subst; clear H|].
  Ltac lock_cases H :=
    apply nth_error_upd_inv in H; destruct H as [[? H]|[? H]]; [subst|].

  Lemma ordered_lock : forall md m hl r, ordered hl (NLock md m :: r) = true ->
    m < nmut /\ rank m < bound /\ (forall x, In x hl -> rank (snd x) < rank m) /\ ordered ((md, m) :: hl) r = true.
  Proof.
    intros md m hl r H. simpl in H. repeat (apply andb_true_iff in H; destruct H as [H ?]).
    apply Nat.ltb_lt in H. apply Nat.ltb_lt in H2. rewrite forallb_forall in H1.
    repeat split; auto. intros x Hx. apply Nat.ltb_lt. auto.
  Qed.
  Lemma ordered_unlock : forall md m hl r, ordered hl (NUnlock md m :: r) = true ->
    In (md, m) hl /\ ordered (drop_lk (md, m) hl) r = true.
  Proof. intros md m hl r H. simpl in H. apply andb_true_iff in H. destruct H as [A B]. apply holds_spec in A. auto. Qed.

  Lemma lstep : forall st t st', LInv st -> step2 st t = Some st' -> LInv st'.
  Proof.
    intros st t st' I H. unfold NestModel.step2 in H.
    destruct (nth_error (thr2 st) t) as [[hl [|x code]]|] eqn:Et; try discriminate.
    destruct (apply2 t x hl (pmem2 st)) as [[m' hl']|] eqn:Ea; try discriminate. inversion H; subst; clear H.
    pose proof (nth_error_lt _ _ _ _ Et) as Lt.
    pose proof (l_ord _ I _ _ _ Et) as Ho.
    destruct I as [Inl Ino Irl Iord Ihe Ihs Iwe Irs].
    destruct x as [a|[|] k|[|] k|o]; unfold NestModel.apply2 in Ea.
    - (* access *)
      inversion Ea; subst; clear Ea.
      assert (Lk : locks2 (do_access2 wf t a (pmem2 st)) = locks2 (pmem2 st)) by (destruct a; reflexivity).
      assert (Od : odone2 (do_access2 wf t a (pmem2 st)) = odone2 (pmem2 st)) by (destruct a; reflexivity).
      constructor; simpl; rewrite ?Lk, ?Od, ?length_upd; auto.
      + intros u h c H. thr_cases H; eauto.
      + intros u h c m H Hi. thr_cases H; eauto.
      + intros u h c m H Hi. thr_cases H; eauto.
      + intros m l u H W. destruct (Iwe _ _ _ H W) as [h [c [A B]]]. destruct (Nat.eq_dec u t).
        * subst. rewrite Et in A. inversion A; subst. exists h, code. rewrite nth_error_upd_eq by exact Lt. auto.
        * exists h, c. rewrite nth_error_upd_neq by congruence. auto.
      + intros m l u H W. destruct (Irs _ _ _ H W) as [h [c [A B]]]. destruct (Nat.eq_dec u t).
        * subst. rewrite Et in A. inversion A; subst. exists h, code. rewrite nth_error_upd_eq by exact Lt. auto.
        * exists h, c. rewrite nth_error_upd_neq by congruence. auto.
    - (* Lock *)
      apply ordered_lock in Ho. destruct Ho as [Hk [_ [Hr Ho]]].
      destruct (nth_error (locks2 (pmem2 st)) k) as [l|] eqn:El; try discriminate.
      destruct (writer l) eqn:Ew; try discriminate.
      destruct (forallb negb (rdrs l)) eqn:Er; try discriminate. inversion Ea; subst; clear Ea.
      pose proof (nth_error_lt _ _ _ _ El) as Lk.
      constructor; simpl; rewrite ?length_upd; auto.
      + intros m l0 H. lock_cases H; simpl; eauto.
      + intros u h c H. thr_cases H; eauto.
      + intros u h c m H Hi. thr_cases H.
        * destruct (Nat.eq_dec m k).
          -- subst. eexists. rewrite nth_error_upd_eq by exact Lk. split; reflexivity.
          -- destruct Hi as [Hi|Hi]; [congruence|]. rewrite nth_error_upd_neq by congruence. eauto.
        * destruct (Ihe _ _ _ _ H Hi) as [l0 [A B]]. destruct (Nat.eq_dec m k); [subst; congruence|].
          rewrite nth_error_upd_neq by congruence. eauto.
      + intros u h c m H Hi. thr_cases H.
        * destruct Hi as [Hi|Hi]; [discriminate|]. destruct (Ihs _ _ _ _ Et Hi) as [l0 [A B]].
          destruct (Nat.eq_dec m k); [subst; rewrite El in A; inversion A; subst; rewrite forallb_negb_nth in B by exact Er; discriminate|].
          rewrite nth_error_upd_neq by congruence. eauto.
        * destruct (Ihs _ _ _ _ H Hi) as [l0 [A B]].
          destruct (Nat.eq_dec m k); [subst; rewrite El in A; inversion A; subst; rewrite forallb_negb_nth in B by exact Er; discriminate|].
          rewrite nth_error_upd_neq by congruence. eauto.
      + intros m l0 u H W. lock_cases H.
        * simpl in W. inversion W; subst. exists ((Excl, k) :: hl), code. rewrite nth_error_upd_eq by exact Lt. simpl; auto.
        * destruct (Iwe _ _ _ H W) as [h [c [A B]]]. destruct (Nat.eq_dec u t).
          -- subst. rewrite Et in A. inversion A; subst. eexists _, _. rewrite nth_error_upd_eq by exact Lt. split; [reflexivity|simpl; auto].
          -- exists h, c. rewrite nth_error_upd_neq by congruence. auto.
      + intros m l0 u H W. lock_cases H.
        * simpl in W. rewrite forallb_negb_nth in W by exact Er. discriminate.
        * destruct (Irs _ _ _ H W) as [h [c [A B]]]. destruct (Nat.eq_dec u t).
          -- subst. rewrite Et in A. inversion A; subst. eexists _, _. rewrite nth_error_upd_eq by exact Lt. split; [reflexivity|simpl; auto].
          -- exists h, c. rewrite nth_error_upd_neq by congruence. auto.
    - (* RLock *)
      apply ordered_lock in Ho. destruct Ho as [Hk [_ [Hr Ho]]].
      destruct (nth_error (locks2 (pmem2 st)) k) as [l|] eqn:El; try discriminate.
      destruct (writer l) eqn:Ew; try discriminate.
      destruct ((t <? length (rdrs l)) && negb (nth t (rdrs l) false)) eqn:Er; try discriminate. inversion Ea; subst; clear Ea.
      apply andb_true_iff in Er. destruct Er as [Er1 Er2]. apply Nat.ltb_lt in Er1.
      pose proof (nth_error_lt _ _ _ _ El) as Lk.
      constructor; simpl; rewrite ?length_upd; auto.
      + intros m l0 H. lock_cases H; simpl; rewrite ?length_upd; eauto.
      + intros u h c H. thr_cases H; eauto.
      + intros u h c m H Hi. thr_cases H.
        * destruct Hi as [Hi|Hi]; [discriminate|]. destruct (Ihe _ _ _ _ Et Hi) as [l0 [A B]].
          destruct (Nat.eq_dec m k); [subst; congruence|]. rewrite nth_error_upd_neq by congruence. eauto.
        * destruct (Ihe _ _ _ _ H Hi) as [l0 [A B]]. destruct (Nat.eq_dec m k); [subst; congruence|].
          rewrite nth_error_upd_neq by congruence. eauto.
      + intros u h c m H Hi. thr_cases H.
        * destruct (Nat.eq_dec m k).
          -- subst. eexists. rewrite nth_error_upd_eq by exact Lk. split; [reflexivity|]. simpl. apply nth_upd_eq. exact Er1.
          -- destruct Hi as [Hi|Hi]; [congruence|]. rewrite nth_error_upd_neq by congruence. eauto.
        * destruct (Ihs _ _ _ _ H Hi) as [l0 [A B]]. destruct (Nat.eq_dec m k).
          -- subst. rewrite El in A. inversion A; subst. eexists. rewrite nth_error_upd_eq by exact Lk. split; [reflexivity|].
             simpl. rewrite nth_upd_neq by congruence. exact B.
          -- rewrite nth_error_upd_neq by congruence. eauto.
      + intros m l0 u H W. lock_cases H.
        * simpl in W. discriminate.
        * destruct (Iwe _ _ _ H W) as [h [c [A B]]]. destruct (Nat.eq_dec u t).
          -- subst. rewrite Et in A. inversion A; subst. eexists _, _. rewrite nth_error_upd_eq by exact Lt. split; [reflexivity|simpl; auto].
          -- exists h, c. rewrite nth_error_upd_neq by congruence. auto.
      + intros m l0 u H W. lock_cases H.
        * simpl in W. destruct (Nat.eq_dec u t).
          -- subst. eexists _, _. rewrite nth_error_upd_eq by exact Lt. split; [reflexivity|simpl; auto].
          -- rewrite nth_upd_neq in W by congruence. destruct (Irs _ _ _ El W) as [h [c [A B]]].
             exists h, c. rewrite nth_error_upd_neq by congruence. auto.
        * destruct (Irs _ _ _ H W) as [h [c [A B]]]. destruct (Nat.eq_dec u t).
          -- subst. rewrite Et in A. inversion A; subst. eexists _, _. rewrite nth_error_upd_eq by exact Lt. split; [reflexivity|simpl; auto].
          -- exists h, c. rewrite nth_error_upd_neq by congruence. auto.
    - (* Unlock *)
      apply ordered_unlock in Ho. destruct Ho as [Hh Ho].
      destruct (nth_error (locks2 (pmem2 st)) k) as [l|] eqn:El; try discriminate.
      destruct (writer l) as [w|] eqn:Ew; try discriminate.
      destruct (w =? t) eqn:Ewt; try discriminate. apply Nat.eqb_eq in Ewt. subst w. inversion Ea; subst; clear Ea.
      pose proof (nth_error_lt _ _ _ _ El) as Lk.
      constructor; simpl; rewrite ?length_upd; auto.
      + intros m l0 H. lock_cases H; simpl; eauto.
      + intros u h c H. thr_cases H; eauto.
      + intros u h c m H Hi. thr_cases H.
        * apply in_drop_lk in Hi. destruct Hi as [Hi Hn]. destruct (Nat.eq_dec m k); [subst; congruence|].
          rewrite nth_error_upd_neq by congruence. eauto.
        * destruct (Ihe _ _ _ _ H Hi) as [l0 [A B]]. destruct (Nat.eq_dec m k); [subst; rewrite El in A; inversion A; subst; congruence|].
          rewrite nth_error_upd_neq by congruence. eauto.
      + intros u h c m H Hi. thr_cases H.
        * apply in_drop_lk in Hi. destruct Hi as [Hi Hn]. destruct (Ihs _ _ _ _ Et Hi) as [l0 [A B]]. destruct (Nat.eq_dec m k).
          -- subst. rewrite El in A. inversion A; subst. eexists. rewrite nth_error_upd_eq by exact Lk. split; [reflexivity|exact B].
          -- rewrite nth_error_upd_neq by congruence. eauto.
        * destruct (Ihs _ _ _ _ H Hi) as [l0 [A B]]. destruct (Nat.eq_dec m k).
          -- subst. rewrite El in A. inversion A; subst. eexists. rewrite nth_error_upd_eq by exact Lk. split; [reflexivity|exact B].
          -- rewrite nth_error_upd_neq by congruence. eauto.
      + intros m l0 u H W. lock_cases H.
        * simpl in W. discriminate.
        * destruct (Iwe _ _ _ H W) as [h [c [A B]]]. destruct (Nat.eq_dec u t).
          -- subst. rewrite Et in A. inversion A; subst. eexists _, _. rewrite nth_error_upd_eq by exact Lt. split; [reflexivity|].
             apply in_drop_lk. split; auto. congruence.
          -- exists h, c. rewrite nth_error_upd_neq by congruence. auto.
      + intros m l0 u H W. assert (exists lo, nth_error (locks2 (pmem2 st)) m = Some lo /\ nth u (rdrs lo) false = true) as [lo [Hlo Wlo]].
        { lock_cases H; [exists l; auto | exists l0; auto]. }
        destruct (Irs _ _ _ Hlo Wlo) as [h [c [A B]]]. destruct (Nat.eq_dec u t).
        * subst. rewrite Et in A. inversion A; subst. eexists _, _. rewrite nth_error_upd_eq by exact Lt. split; [reflexivity|].
          apply in_drop_lk. split; auto. congruence.
        * exists h, c. rewrite nth_error_upd_neq by congruence. auto.
    - (* RUnlock *)
      apply ordered_unlock in Ho. destruct Ho as [Hh Ho].
      destruct (nth_error (locks2 (pmem2 st)) k) as [l|] eqn:El; try discriminate.
      destruct (nth t (rdrs l) false) eqn:Er; try discriminate. inversion Ea; subst; clear Ea.
      pose proof (nth_error_lt _ _ _ _ El) as Lk. pose proof (nth_true_lt _ _ Er) as Ltr.
      constructor; simpl; rewrite ?length_upd; auto.
      + intros m l0 H. lock_cases H; simpl; rewrite ?length_upd; eauto.
      + intros u h c H. thr_cases H; eauto.
      + intros u h c m H Hi. assert (exists h0 c0, nth_error (thr2 st) u = Some (h0, c0) /\ In (Excl, m) h0) as [h0 [c0 [A B]]].
        { thr_cases H; [apply in_drop_lk in Hi; destruct Hi; eauto | eauto]. }
        destruct (Ihe _ _ _ _ A B) as [l0 [C D]]. destruct (Nat.eq_dec m k).
        * subst. rewrite El in C. inversion C; subst. eexists. rewrite nth_error_upd_eq by exact Lk. split; [reflexivity|exact D].
        * rewrite nth_error_upd_neq by congruence. eauto.
      + intros u h c m H Hi. thr_cases H.
        * apply in_drop_lk in Hi. destruct Hi as [Hi Hn]. destruct (Nat.eq_dec m k); [subst; congruence|].
          destruct (Ihs _ _ _ _ Et Hi) as [l0 [A B]]. rewrite nth_error_upd_neq by congruence. eauto.
        * destruct (Ihs _ _ _ _ H Hi) as [l0 [A B]]. destruct (Nat.eq_dec m k).
          -- subst. rewrite El in A. inversion A; subst. eexists. rewrite nth_error_upd_eq by exact Lk. split; [reflexivity|].
             simpl. rewrite nth_upd_neq by congruence. exact B.
          -- rewrite nth_error_upd_neq by congruence. eauto.
      + intros m l0 u H W. assert (exists lo, nth_error (locks2 (pmem2 st)) m = Some lo /\ writer lo = Some u) as [lo [Hlo Wlo]].
        { lock_cases H; [exists l; auto | exists l0; auto]. }
        destruct (Iwe _ _ _ Hlo Wlo) as [h [c [A B]]]. destruct (Nat.eq_dec u t).
        * subst. rewrite Et in A. inversion A; subst. eexists _, _. rewrite nth_error_upd_eq by exact Lt. split; [reflexivity|].
          apply in_drop_lk. split; auto. congruence.
        * exists h, c. rewrite nth_error_upd_neq by congruence. auto.
      + intros m l0 u H W. lock_cases H.
        * simpl in W. destruct (Nat.eq_dec u t); [subst; rewrite nth_upd_eq in W by exact Ltr; discriminate|].
          rewrite nth_upd_neq in W by congruence. destruct (Irs _ _ _ El W) as [h [c [A B]]].
          exists h, c. rewrite nth_error_upd_neq by congruence. auto.
        * destruct (Irs _ _ _ H W) as [h [c [A B]]]. destruct (Nat.eq_dec u t).
          -- subst. rewrite Et in A. inversion A; subst. eexists _, _. rewrite nth_error_upd_eq by exact Lt. split; [reflexivity|].
             apply in_drop_lk. split; auto. congruence.
          -- exists h, c. rewrite nth_error_upd_neq by congruence. auto.
    - (* Once *)
      simpl in Ho. apply andb_true_iff in Ho. destruct Ho as [_ Ho].
      destruct (o <? length (odone2 (pmem2 st))) eqn:Eo; try discriminate.
      assert (Lk : locks2 m' = locks2 (pmem2 st) /\ length (odone2 m') = length (odone2 (pmem2 st)) /\ hl' = hl).
      { destruct (nth o (odone2 (pmem2 st)) false); inversion Ea; subst; simpl; rewrite ?length_upd; auto. }
      destruct Lk as [Lk [Lo ?]]. subst hl'.
      constructor; simpl; rewrite ?Lk, ?Lo, ?length_upd; auto.
      + intros u h c H. thr_cases H; eauto.
      + intros u h c m H Hi. thr_cases H; eauto.
      + intros u h c m H Hi. thr_cases H; eauto.
      + intros m l u H W. destruct (Iwe _ _ _ H W) as [h [c [A B]]]. destruct (Nat.eq_dec u t).
        * subst. rewrite Et in A. inversion A; subst. exists h, code. rewrite nth_error_upd_eq by exact Lt. auto.
        * exists h, c. rewrite nth_error_upd_neq by congruence. auto.
      + intros m l u H W. destruct (Irs _ _ _ H W) as [h [c [A B]]]. destruct (Nat.eq_dec u t).
        * subst. rewrite Et in A. inversion A; subst. exists h, code. rewrite nth_error_upd_eq by exact Lt. auto.
        * exists h, c. rewrite nth_error_upd_neq by congruence. auto.
  Qed.

  Lemma lrun : forall sched st st', LInv st -> run2 st sched = Some st' -> LInv st'.
  Proof.
    induction sched as [|t r IH]; simpl; intros st st' I H.
    - inversion H; subst; exact I.
    - destruct (step2 st t) as [s1|] eqn:E; try discriminate. eapply IH; [eapply lstep; eauto | exact H].
  Qed.

  (* ---- progress ---- *)
  (* a thread with code left either performs its next item, or that item takes a lock which some thread holds *)
  Lemma step_or_blocked : forall st t hl x code, LInv st -> nth_error (thr2 st) t = Some (hl, x :: code) ->
    (exists st', step2 st t = Some st') \/
    (exists md k u hu cu md', x = NLock md k /\ nth_error (thr2 st) u = Some (hu, cu) /\ In (md', k) hu).
  Proof.
    intros st t hl x code I Et. pose proof (l_ord _ I _ _ _ Et) as Ho. pose proof (nth_error_lt _ _ _ _ Et) as Lt.
    unfold NestModel.step2. rewrite Et.
    destruct x as [a|[|] k|[|] k|o]; unfold NestModel.apply2.
    - left. eexists. reflexivity.
    - apply ordered_lock in Ho. destruct Ho as [Hk [_ [Hr _]]].
      destruct (nth_error (locks2 (pmem2 st)) k) as [l|] eqn:El.
      2:{ apply nth_error_None in El. rewrite (l_nlocks _ I) in El. lia. }
      destruct (writer l) as [w|] eqn:Ew.
      + right. destruct (l_we _ I _ _ _ El Ew) as [h [c [A B]]]. exists Excl, k, w, h, c, Excl. auto.
      + destruct (forallb negb (rdrs l)) eqn:Er.
        * left. eexists. reflexivity.
        * right. apply forallb_negb_false in Er. destruct Er as [u Hu].
          destruct (l_rs _ I _ _ _ El Hu) as [h [c [A B]]]. exists Excl, k, u, h, c, Shared. auto.
    - apply ordered_lock in Ho. destruct Ho as [Hk [_ [Hr _]]].
      destruct (nth_error (locks2 (pmem2 st)) k) as [l|] eqn:El.
      2:{ apply nth_error_None in El. rewrite (l_nlocks _ I) in El. lia. }
      destruct (writer l) as [w|] eqn:Ew.
      + right. destruct (l_we _ I _ _ _ El Ew) as [h [c [A B]]]. exists Shared, k, w, h, c, Excl. auto.
      + assert (L : t <? length (rdrs l) = true) by (apply Nat.ltb_lt; rewrite (l_rlen _ I _ _ El); exact Lt).
        rewrite L. destruct (nth t (rdrs l) false) eqn:Er; simpl.
        * right. destruct (l_rs _ I _ _ _ El Er) as [h [c [A B]]]. exists Shared, k, t, h, c, Shared. auto.
        * left. eexists. reflexivity.
    - apply ordered_unlock in Ho. destruct Ho as [Hh _]. destruct (l_he _ I _ _ _ _ Et Hh) as [l [A B]].
      rewrite A, B, Nat.eqb_refl. left. eexists. reflexivity.
    - apply ordered_unlock in Ho. destruct Ho as [Hh _]. destruct (l_hs _ I _ _ _ _ Et Hh) as [l [A B]].
      rewrite A, B. left. eexists. reflexivity.
    - simpl in Ho. apply andb_true_iff in Ho. destruct Ho as [Ho _]. rewrite (l_nonce _ I). rewrite Ho.
      left. destruct (nth o (odone2 (pmem2 st)) false); eexists; reflexivity.
  Qed.

  Definition wait_rank (x : nitem) : nat := match x with NLock _ k => rank k | _ => bound end.

  Lemma progress_aux : forall st, LInv st -> forall n t hl x code,
    nth_error (thr2 st) t = Some (hl, x :: code) -> bound - wait_rank x <= n -> can_step wf obody st.
  Proof.
    intros st I. induction n as [|n IH]; intros t hl x code Et Hn;
      destruct (step_or_blocked _ _ _ _ _ I Et) as [[st' S]|[md [k [u [hu [cu [md' [Ex [Eu Hi]]]]]]]]];
      try (exists t, st'; exact S); subst x; simpl in Hn;
      pose proof (l_ord _ I _ _ _ Et) as Ho; apply ordered_lock in Ho; destruct Ho as [_ [Hb _]]; try lia.
    (* the holder u has code left, and if its next item takes a lock, that lock has a larger rank *)
    pose proof (l_ord _ I _ _ _ Eu) as Hu. destruct cu as [|y cu'].
    - simpl in Hu. destruct hu; [destruct Hi | discriminate].
    - destruct (step_or_blocked _ _ _ _ _ I Eu) as [[st' S]|[md2 [k2 [u2 [hu2 [cu2 [md2' [Ey _]]]]]]]].
      + exists u, st'. exact S.
      + subst y. apply ordered_lock in Hu. destruct Hu as [_ [Hb2 [Hr2 _]]]. specialize (Hr2 _ Hi). simpl in Hr2.
        apply (IH u hu (NLock md2 k2) cu' Eu). simpl. lia.
  Qed.

  Lemma forallb_false_ex : forall A (f : A -> bool) l, forallb f l = false -> exists x, In x l /\ f x = false.
  Proof.
    induction l; simpl; intros H; try discriminate. destruct (f a) eqn:E; simpl in H.
    - destruct (IHl H) as [x [A1 B]]. exists x. auto.
    - exists a. auto.
  Qed.

  Lemma progress : forall st, LInv st -> finished2 st \/ can_step wf obody st.
  Proof.
    intros st I. destruct (finished2_b st) eqn:F.
    - left. apply finished2_b_spec. exact F.
    - right. unfold finished2_b in F. apply forallb_false_ex in F. destruct F as [[hl code] [Hin Hc]].
      destruct code as [|x code]; simpl in Hc; try discriminate.
      apply In_nth_error in Hin. destruct Hin as [t Et]. eapply (progress_aux st I _ t hl x code Et). apply le_n.
  Qed.

  (* no reachable state has every unfinished thread blocked *)
  Theorem ordered_no_deadlock : forall prog nloc sched st,
    (forall c, In c prog -> ordered [] c = true) ->
    run2 (init2 prog nloc nmut nonce) sched = Some st ->
    finished2 st \/ can_step wf obody st.
  Proof. intros prog nloc sched st Ho H. apply progress. eapply lrun; [apply linit; exact Ho | exact H]. Qed.

  (* concatenating pieces of code that each start and end without locks keeps the discipline *)
  Lemma ordered_app : forall a hl b, ordered hl a = true -> ordered [] b = true -> ordered hl (a ++ b) = true.
  Proof.
    induction a as [|x a IH]; intros hl b Ha Hb.
    - simpl in Ha. destruct hl; try discriminate. exact Hb.
    - destruct x as [ac|md m|md m|o]; simpl in *.
      + auto.
      + repeat (apply andb_true_iff in Ha; destruct Ha as [Ha ?]). rewrite Ha, H1, H0. simpl. auto.
      + apply andb_true_iff in Ha. destruct Ha as [A1 A2]. rewrite A1. simpl. auto.
      + apply andb_true_iff in Ha. destruct Ha as [A1 A2]. rewrite A1. simpl. auto.
  Qed.

  Lemma ordered_flat_map : forall A (f : A -> list nitem) l, (forall x, In x l -> ordered [] (f x) = true) ->
    ordered [] (flat_map f l) = true.
  Proof.
    induction l; simpl; intros H; auto. apply ordered_app; auto.
  Qed.
End P.
