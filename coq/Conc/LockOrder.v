(* C20 - lock-order discipline and absence of deadlock in the nested machine of Conc/NestModel.v.
   Model / definitions only (no proofs in this file).

   [ordered rank nmut nonce bound hl code]: the straight-line code, started while holding hl,
     - takes a lock m only when every lock it holds has a strictly smaller rank (in particular it never takes a lock
       it already holds, in either mode: sync.Mutex / sync.RWMutex are not re-entrant and an RLock cannot be upgraded),
     - releases only what it holds, and ends holding nothing,
     - names only existing mutexes (m < nmut, rank m < bound) and Once objects (o < nonce).
   A rank function with this property for every thread is a witness that the "held-before" relation between locks is
   acyclic.  [can_step]: some thread can perform its next item.  The theorem of Conc/LockOrderProofs.v: every state
   reachable by ANY schedule from the initial state of such a program is finished or can step - no reachable state
   has every unfinished thread blocked on a lock.
   What a sync.Once contributes to blocking (a second caller of Do waits for the first) is not in the machine, where
   an initialiser is one atomic step; the rank check of the SOURCE lock order (Conc/SourceTie.v, src_lock_order_ok)
   treats every sync.Once as a lock of its own for that reason. *)
From Coq Require Import List Arith Bool.
From GmsmVerif Require Import Conc.AccessModel Conc.NestModel.
Import ListNotations.

Section Order.
  Variable rank : nat -> nat.
  Variables nmut nonce bound : nat.

  Fixpoint ordered (hl : list lk) (code : list nitem) : bool :=
    match code with
    | [] => match hl with [] => true | _ => false end
    | NAcc _ :: r => ordered hl r
    | NOnce o :: r => (o <? nonce) && ordered hl r
    | NLock md m :: r =>
        (m <? nmut) && (rank m <? bound) && forallb (fun x => rank (snd x) <? rank m) hl && ordered ((md, m) :: hl) r
    | NUnlock md m :: r => holds (md, m) hl && ordered (drop_lk (md, m) hl) r
    end.
End Order.

Definition can_step (wf : nat -> list nat -> nat) (obody : nat -> list (nat * nat)) (st : pst2) : Prop :=
  exists t st', step2 wf obody st t = Some st'.

(* the pairs (held, taken) of a piece of code: what the rank function has to order *)
Fixpoint held_before (hl : list lk) (code : list nitem) : list (nat * nat) :=
  match code with
  | [] => []
  | NLock md m :: r => map (fun x => (snd x, m)) hl ++ held_before ((md, m) :: hl) r
  | NUnlock md m :: r => held_before (drop_lk (md, m) hl) r
  | _ :: r => held_before hl r
  end.
