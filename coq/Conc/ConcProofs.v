(* C20 - serialisability of race-free programs of the access model: every complete interleaving
   ends in the state (store, every thread's reads, Once flags) reached by executing the blocks one
   at a time in the order in which they were begun (lock acquisition order). *)
From Coq Require Import List Arith Bool Lia.
From GmsmVerif Require Import Conc.AccessModel Conc.ConcLists.
Import ListNotations.

Section Serial.
  Variable wf : nat -> list nat -> nat.
  Variable obody : nat -> list (nat * nat).

  Notation apply := (apply wf obody).
  Notation step := (step wf obody).
  Notation run := (run wf obody).

  (* ---------- the invariant ------------------------------------------------------------------------- *)
  Record Inv (st : pstate) : Prop := {
    inv_race : forall t u ct cu, t <> u ->
      nth_error (thr st) t = Some ct -> nth_error (thr st) u = Some cu ->
      pair_ok (flat (snd ct)) (flat (snd cu)) = true;
    inv_held : forall t ms body r, nth_error (thr st) t = Some (true, Sec ms body :: r) ->
      forall m, In m ms -> nth m (held (pmem st)) None = Some t /\ m < length (held (pmem st));
    inv_once : forall o, o < length (odone (pmem st)) ->
      nth o (odone (pmem st)) false = true \/
      forall t ct, nth_error (thr st) t = Some ct -> guarded (map fst (obody o)) o (snd ct) = true }.

  Lemma pair_ok_spec : forall c1 c2, pair_ok c1 c2 = true <->
    forall x y, In x c1 -> In y c2 -> conflict (snd x) (snd y) = true -> share_mutex (fst x) (fst y) = true.
  Proof.
    unfold pair_ok. intros. rewrite forallb_forall. split; intros H.
    - intros x y Hx Hy Hc. specialize (H x Hx). rewrite forallb_forall in H. specialize (H y Hy).
      rewrite Hc in H. simpl in H. exact H.
    - intros x Hx. rewrite forallb_forall. intros y Hy.
      destruct (conflict (snd x) (snd y)) eqn:Hc; simpl; auto.
  Qed.

  Lemma share_mutex_spec : forall a b, share_mutex a b = true -> exists m, In m a /\ In m b.
  Proof.
    unfold share_mutex. intros a b H. apply existsb_exists in H. destruct H as (m & Hm & H).
    apply existsb_exists in H. destruct H as (m' & Hm' & He). apply Nat.eqb_eq in He. subst. eauto.
  Qed.

  (* the code a thread still has to run only shrinks *)
  Lemma next_flat_incl : forall ts e ts', next ts = Some (e, ts') -> incl (flat (snd ts')) (flat (snd ts)).
  Proof.
    intros [[|] code] e ts' H; simpl in H.
    - destruct code as [|[ms [|a b]| |] r]; inversion H; subst; simpl; unfold flat; simpl.
      + apply incl_refl.
      + apply incl_tl, incl_refl.
    - destruct code as [|[ms body|a|o] r]; inversion H; subst; simpl; unfold flat; simpl.
      + apply incl_refl.
      + apply incl_tl, incl_refl.
      + apply incl_refl.
  Qed.

  Lemma pair_ok_incl : forall c1 c2 d1 d2, incl d1 c1 -> incl d2 c2 -> pair_ok c1 c2 = true -> pair_ok d1 d2 = true.
  Proof. intros. rewrite pair_ok_spec in *. intros. apply H1; auto. Qed.

  Lemma touches_incl : forall locs ms a b, touches locs (Sec ms (a :: b)) = false -> touches locs (Sec ms b) = false.
  Proof.
    unfold touches; simpl. intros. apply orb_false_iff in H. tauto.
  Qed.

  Lemma next_guarded : forall locs o ts e ts', next ts = Some (e, ts') -> e <> EOnce o ->
    guarded locs o (snd ts) = true -> guarded locs o (snd ts') = true.
  Proof.
    intros locs o [[|] code] e ts' H Hne G; simpl in H.
    - destruct code as [|[ms [|a b]| |] r]; inversion H; subst; simpl in *.
      + exact G.
      + apply andb_true_iff in G. destruct G as [G1 G2]. rewrite G2.
        apply negb_true_iff in G1. rewrite (touches_incl _ _ _ _ G1). reflexivity.
    - destruct code as [|[ms body|a|o'] r]; inversion H; subst; simpl in *; auto.
      + apply andb_true_iff in G. tauto.
      + destruct (o' =? o) eqn:E; auto. apply Nat.eqb_eq in E. subst. congruence.
  Qed.

  Lemma apply_held_other : forall t e m m', apply t e m = Some m' ->
    match e with EAcq _ | ERel _ => True | _ => held m' = held m end.
  Proof.
    intros t [ms|ms|[l|l]|o] m m' H; simpl in *; auto.
    - inversion H; auto.
    - inversion H; auto.
    - destruct (o <? length (odone m)); [|discriminate]. destruct (nth o (odone m) false); inversion H; auto.
  Qed.

  Lemma can_acquire_spec : forall ms h, can_acquire ms h = true ->
    forall m, In m ms -> m < length h /\ nth m h None = None.
  Proof.
    unfold can_acquire. intros ms h H m Hm. rewrite forallb_forall in H. specialize (H m Hm).
    unfold is_free in H. apply andb_true_iff in H. destruct H as [H1 H2]. apply Nat.ltb_lt in H1.
    destruct (nth m h None); [discriminate|auto].
  Qed.

  Lemma step_inv : forall st t st', Inv st -> step st t = Some st' -> Inv st'.
  Proof.
    intros st t st' I H. unfold AccessModel.step in H.
    destruct (nth_error (thr st) t) as [ts|] eqn:Ht; [|discriminate].
    destruct (next ts) as [[e ts']|] eqn:Hn; [|discriminate].
    destruct (apply t e (pmem st)) as [m'|] eqn:Ha; [|discriminate].
    inversion H; subst st'; clear H.
    pose proof (nth_error_lt _ _ _ _ Ht) as Hlt.
    assert (Hget : forall u cu, nth_error (upd t ts' (thr st)) u = Some cu ->
              (u = t /\ cu = ts') \/ (u <> t /\ nth_error (thr st) u = Some cu)).
    { intros u cu Hu. destruct (Nat.eq_dec u t) as [->|Hne].
      - rewrite nth_error_upd_eq in Hu by auto. inversion Hu. auto.
      - rewrite nth_error_upd_neq in Hu by auto. auto. }
    constructor; simpl.
    - (* race *)
      intros a b ca cb Hab Hca Hcb.
      destruct (Hget _ _ Hca) as [[-> ->]|[Hna Hca']]; destruct (Hget _ _ Hcb) as [[-> ->]|[Hnb Hcb']].
      + congruence.
      + eapply pair_ok_incl; [eapply next_flat_incl; eauto|apply incl_refl|].
        apply (inv_race _ I t b ts cb); auto.
      + eapply pair_ok_incl; [apply incl_refl|eapply next_flat_incl; eauto|].
        apply (inv_race _ I a t ca ts); auto.
      + apply (inv_race _ I a b ca cb); auto.
    - (* held *)
      intros u ms body r Hu m Hm.
      destruct (Hget _ _ Hu) as [[-> E]|[Hne Hu']]; [subst ts'|].
      + (* the stepping thread is inside a section afterwards: it acquired, or performed an access *)
        destruct ts as [[|] code]; simpl in Hn.
        * destruct code as [|[ms0 [|a b]| |] r0]; inversion Hn; subst.
          simpl in Ha. inversion Ha; subst m'.
          destruct a; simpl; exact (inv_held _ I _ _ _ _ Ht _ Hm).
        * destruct code as [|[ms0 body0|a|o] r0]; inversion Hn; subst.
          simpl in Ha. destruct (can_acquire ms (held (pmem st))) eqn:Hc; [|discriminate].
          inversion Ha; subst m'; simpl.
          destruct (can_acquire_spec _ _ Hc _ Hm) as [Hl _].
          rewrite length_set_all. split; auto. apply nth_set_all_in; auto.
      + (* another thread inside a section: its mutexes are untouched *)
        destruct (inv_held _ I _ _ _ _ Hu' _ Hm) as [Hh Hl].
        destruct e as [ms0|ms0|a|o].
        * simpl in Ha. destruct (can_acquire ms0 (held (pmem st))) eqn:Hc; [|discriminate].
          inversion Ha; subst m'; simpl. rewrite length_set_all. split; auto.
          rewrite nth_set_all_notin; auto.
          intro Hin. destruct (can_acquire_spec _ _ Hc _ Hin) as [_ Hf]. congruence.
        * simpl in Ha. inversion Ha; subst m'; simpl. rewrite length_set_all. split; auto.
          rewrite nth_set_all_notin; auto.
          intro Hin.
          (* t releases ms0, which it holds *)
          destruct ts as [[|] code]; simpl in Hn.
          -- destruct code as [|[ms1 [|a b]| |] r1]; inversion Hn; subst.
             destruct (inv_held _ I _ _ _ _ Ht _ Hin) as [Hh' _]. congruence.
          -- destruct code as [|[ms1 body1|a|o] r1]; inversion Hn.
        * pose proof (apply_held_other _ _ _ _ Ha) as E. simpl in E. rewrite E. auto.
        * pose proof (apply_held_other _ _ _ _ Ha) as E. simpl in E. rewrite E. auto.
    - (* once *)
      intros o Ho.
      assert (Hlen : length (odone m') = length (odone (pmem st))).
      { destruct e as [ms0|ms0|[l|l]|o0]; simpl in Ha.
        - destruct (can_acquire ms0 (held (pmem st))); inversion Ha; auto.
        - inversion Ha; auto.
        - inversion Ha; auto.
        - inversion Ha; auto.
        - destruct (o0 <? length (odone (pmem st))); [|discriminate].
          destruct (nth o0 (odone (pmem st)) false); inversion Ha; simpl; auto. rewrite length_upd. auto. }
      rewrite Hlen in Ho.
      destruct (Nat.eq_dec 0 0) as [_|]; [|congruence].
      destruct e as [ms0|ms0|a|o0].
      + assert (odone m' = odone (pmem st)) as ->.
        { simpl in Ha. destruct (can_acquire ms0 (held (pmem st))); inversion Ha; auto. }
        destruct (inv_once _ I o Ho) as [D|G]; [left; auto|right].
        intros u cu Hu. destruct (Hget _ _ Hu) as [[-> ->]|[Hne Hu']]; eauto.
        eapply next_guarded; eauto. congruence.
      + assert (odone m' = odone (pmem st)) as -> by (simpl in Ha; inversion Ha; auto).
        destruct (inv_once _ I o Ho) as [D|G]; [left; auto|right].
        intros u cu Hu. destruct (Hget _ _ Hu) as [[-> ->]|[Hne Hu']]; eauto.
        eapply next_guarded; eauto. congruence.
      + assert (odone m' = odone (pmem st)) as -> by (simpl in Ha; destruct a; inversion Ha; auto).
        destruct (inv_once _ I o Ho) as [D|G]; [left; auto|right].
        intros u cu Hu. destruct (Hget _ _ Hu) as [[-> ->]|[Hne Hu']]; eauto.
        eapply next_guarded; eauto. congruence.
      + simpl in Ha. destruct (o0 <? length (odone (pmem st))) eqn:Hl0; [|discriminate].
        apply Nat.ltb_lt in Hl0.
        destruct (Nat.eq_dec o0 o) as [->|Hne].
        * left. destruct (nth o (odone (pmem st)) false) eqn:D; inversion Ha; subst m'; simpl; auto.
          apply nth_upd_eq. auto.
        * destruct (inv_once _ I o Ho) as [D|G].
          -- left. destruct (nth o0 (odone (pmem st)) false); inversion Ha; subst m'; simpl; auto.
             rewrite nth_upd_neq; auto.
          -- right. intros u cu Hu. destruct (Hget _ _ Hu) as [[-> ->]|[Hne' Hu']]; eauto.
             eapply next_guarded; eauto. congruence.
  Qed.

  Lemma run_inv : forall us st st', Inv st -> run st us = Some st' -> Inv st'.
  Proof.
    induction us; simpl; intros st st' I H.
    - inversion H; subst; auto.
    - destruct (step st a) eqn:E; [|discriminate]. eapply IHus; [|eauto]. eapply step_inv; eauto.
  Qed.

  (* ---------- commutation of memory effects ------------------------------------------------------------ *)
  Definition indep (m : mem) (et eu : eff) : Prop :=
    match et, eu with
    | EAcc a, EAcc b => conflict a b = false
    | EAcc a, EOnce o => nth o (odone m) false = true \/ ~ In (loc_of a) (map fst (obody o))
    | ERel ms, EAcq ms' => forall x, In x ms -> ~ In x ms'
    | ERel ms, ERel ms' => forall x, In x ms -> ~ In x ms'
    | ERel _, _ => True
    | EAcc _, _ => True
    | _, _ => False
    end.

  Lemma conflict_false : forall a b, conflict a b = false ->
    loc_of a <> loc_of b \/ (is_write a = false /\ is_write b = false).
  Proof.
    unfold conflict. intros a b H. apply andb_false_iff in H. destruct H as [H|H].
    - left. apply Nat.eqb_neq. auto.
    - right. apply orb_false_iff in H. auto.
  Qed.

  Lemma apply_comm : forall t u et eu m m1 m2, t <> u -> indep m et eu ->
    apply u eu m = Some m1 -> apply t et m1 = Some m2 ->
    exists m3, apply t et m = Some m3 /\ apply u eu m3 = Some m2.
  Proof.
    intros t u et eu m m1 m2 Htu Hi Hu Ht.
    destruct et as [ms|ms|a|o]; simpl in Hi; try (destruct eu; contradiction).
    - (* t releases *)
      simpl in Ht. inversion Ht; subst m2; clear Ht. eexists; split; [reflexivity|].
      destruct eu as [ms'|ms'|b|o]; simpl in *.
      + destruct (can_acquire ms' (held m)) eqn:Hc; [|discriminate]. inversion Hu; subst m1; simpl.
        assert (can_acquire ms' (set_all ms None (held m)) = true) as ->.
        { unfold can_acquire. rewrite forallb_forall. intros x Hx.
          destruct (can_acquire_spec _ _ Hc _ Hx) as [Hl Hf].
          unfold is_free. rewrite length_set_all. apply Nat.ltb_lt in Hl. rewrite Hl. simpl.
          rewrite nth_set_all_notin by (intro Hin; exact (Hi _ Hin Hx)). rewrite Hf. reflexivity. }
        rewrite (set_all_comm _ ms ms'); auto.
      + inversion Hu; subst m1; simpl. rewrite (set_all_comm _ ms ms'); auto.
      + inversion Hu; subst m1. destruct b; reflexivity.
      + destruct (o <? length (odone m)); [|discriminate].
        destruct (nth o (odone m) false); inversion Hu; subst m1; reflexivity.
    - (* t performs an access *)
      simpl in Ht. inversion Ht; subst m2; clear Ht. eexists; split; [reflexivity|].
      destruct eu as [ms'|ms'|b|o]; simpl in *.
      + destruct (can_acquire ms' (held m)) eqn:Hc; [|discriminate]. inversion Hu; subst m1.
        destruct a; simpl; rewrite Hc; reflexivity.
      + inversion Hu; subst m1. destruct a; reflexivity.
      + inversion Hu; subst m1; clear Hu. f_equal.
        destruct (conflict_false _ _ Hi) as [Hl|[Wa Wb]].
        * destruct a as [l|l], b as [l'|l']; simpl in *.
          -- rewrite !(nth_upd_neq _ u t), !(nth_upd_neq _ t u) by auto.
             f_equal. apply upd_comm. auto.
          -- rewrite (nth_upd_neq _ l' l) by auto. rewrite (nth_upd_neq _ t u) by auto. reflexivity.
          -- rewrite (nth_upd_neq _ l l') by auto. rewrite (nth_upd_neq _ u t) by auto. reflexivity.
          -- f_equal. apply upd_comm. auto.
        * destruct a as [l|l], b as [l'|l']; simpl in *; try discriminate.
          rewrite !(nth_upd_neq _ u t), !(nth_upd_neq _ t u) by auto.
          f_equal. apply upd_comm. auto.
      + destruct (o <? length (odone m)) eqn:Hl; [|discriminate].
        destruct (nth o (odone m) false) eqn:D.
        * inversion Hu; subst m1. destruct a; simpl; rewrite Hl, D; reflexivity.
        * destruct Hi as [Hi|Hi]; [congruence|].
          inversion Hu; subst m1; clear Hu.
          destruct a as [l|l]; simpl in *; rewrite Hl, D; f_equal.
          -- rewrite nth_do_writes_notin by auto. reflexivity.
          -- f_equal. symmetry. apply upd_do_writes_comm. auto.
  Qed.

  (* ---------- adjacent swap ------------------------------------------------------------------------------ *)
  Lemma flat_sec_in : forall ms a b r, In (ms, a) (flat (Sec ms (a :: b) :: r)).
  Proof. intros. unfold flat. simpl. auto. Qed.

  Lemma swap : forall st t u code sa sb, Inv st -> t <> u ->
    nth_error (thr st) t = Some (true, code) ->
    step st u = Some sa -> step sa t = Some sb ->
    exists sc, step st t = Some sc /\ step sc u = Some sb.
  Proof.
    intros st t u code sa sb I Htu Ht Hu Hsb.
    unfold AccessModel.step in Hu.
    destruct (nth_error (thr st) u) as [tsu|] eqn:Eu; [|discriminate].
    destruct (next tsu) as [[eu tsu']|] eqn:Nu; [|discriminate].
    destruct (apply u eu (pmem st)) as [m1|] eqn:Au; [|discriminate].
    inversion Hu; subst sa; clear Hu.
    unfold AccessModel.step in Hsb. simpl in Hsb.
    rewrite nth_error_upd_neq in Hsb by auto. rewrite Ht in Hsb.
    destruct (next (true, code)) as [[et tst']|] eqn:Nt; [|discriminate].
    destruct (apply t et m1) as [m2|] eqn:At; [|discriminate].
    inversion Hsb; subst sb; clear Hsb.
    assert (Hi : indep (pmem st) et eu).
    { simpl in Nt. destruct code as [|[ms [|a b]| |] r]; inversion Nt; subst; clear Nt; simpl.
      - (* t releases ms *)
        destruct eu as [ms'|ms'|b|o]; auto.
        + intros x Hx Hx'. simpl in Au.
          destruct (can_acquire ms' (held (pmem st))) eqn:Hc; [|discriminate].
          destruct (can_acquire_spec _ _ Hc _ Hx') as [_ Hf].
          destruct (inv_held _ I _ _ _ _ Ht _ Hx) as [Hh _]. congruence.
        + intros x Hx Hx'.
          destruct tsu as [[|] cu]; simpl in Nu.
          * destruct cu as [|[ms1 [|a1 b1]| |] r1]; inversion Nu; subst.
            destruct (inv_held _ I _ _ _ _ Ht _ Hx) as [Hh _].
            destruct (inv_held _ I _ _ _ _ Eu _ Hx') as [Hh' _]. congruence.
          * destruct cu as [|[ms1 body1|a1|o1] r1]; inversion Nu.
      - (* t accesses a *)
        destruct eu as [ms'|ms'|b0|o]; auto.
        + destruct (conflict a b0) eqn:Hc; auto. exfalso.
          pose proof (proj1 (pair_ok_spec _ _) (inv_race _ I t u _ _ Htu Ht Eu)) as Hp.
          destruct tsu as [[|] cu]; simpl in Nu.
          * destruct cu as [|[ms1 [|a1 b1]| |] r1]; inversion Nu; subst.
            specialize (Hp (ms, a) (ms1, b0) (flat_sec_in _ _ _ _) (flat_sec_in _ _ _ _) Hc).
            simpl in Hp. apply share_mutex_spec in Hp. destruct Hp as (x & Hx & Hx').
            destruct (inv_held _ I _ _ _ _ Ht _ Hx) as [Hh _].
            destruct (inv_held _ I _ _ _ _ Eu _ Hx') as [Hh' _]. congruence.
          * destruct cu as [|[ms1 body1|a1|o1] r1]; inversion Nu; subst.
            assert (Hin : In ([], b0) (flat (Free b0 :: r1))) by (unfold flat; simpl; auto).
            specialize (Hp (ms, a) ([], b0) (flat_sec_in _ _ _ _) Hin Hc).
            simpl in Hp. apply share_mutex_spec in Hp. destruct Hp as (x & _ & []).
        + simpl in Au. destruct (o <? length (odone (pmem st))) eqn:Hl; [|discriminate].
          apply Nat.ltb_lt in Hl.
          destruct (inv_once _ I o Hl) as [D|G]; [left; auto|right].
          specialize (G _ _ Ht). simpl in G. apply andb_true_iff in G. destruct G as [G _].
          apply negb_true_iff in G. unfold touches in G. simpl in G. apply orb_false_iff in G.
          destruct G as [G _]. intro Hin.
          assert (existsb (Nat.eqb (loc_of a)) (map fst (obody o)) = true).
          { apply existsb_exists. exists (loc_of a). split; auto. apply Nat.eqb_refl. }
          congruence. }
    destruct (apply_comm _ _ _ _ _ _ _ Htu Hi Au At) as (m3 & A1 & A2).
    exists (mkP (upd t tst' (thr st)) m3). split.
    - unfold AccessModel.step. rewrite Ht, Nt, A1. reflexivity.
    - unfold AccessModel.step. simpl. rewrite nth_error_upd_neq by auto. rewrite Eu, Nu, A2.
      rewrite upd_comm by auto. reflexivity.
  Qed.

  (* ---------- moving a step of an open section to the left over steps of other threads ------------- *)
  Lemma step_other_thread : forall st u st' t, step st u = Some st' -> t <> u ->
    nth_error (thr st') t = nth_error (thr st) t.
  Proof.
    intros st u st' t H Hne. unfold AccessModel.step in H.
    destruct (nth_error (thr st) u); [|discriminate]. destruct (next t0) as [[e ts']|]; [|discriminate].
    destruct (apply u e (pmem st)); [|discriminate]. inversion H; subst; simpl.
    apply nth_error_upd_neq. auto.
  Qed.

  Lemma run_other_thread : forall us st st' t, run st us = Some st' -> ~ In t us ->
    nth_error (thr st') t = nth_error (thr st) t.
  Proof.
    induction us; simpl; intros st st' t H Hn.
    - inversion H; auto.
    - destruct (step st a) eqn:E; [|discriminate].
      rewrite (IHus _ _ _ H) by tauto. eapply step_other_thread; eauto.
  Qed.

  Lemma move_left : forall us st t code sm sb, Inv st ->
    nth_error (thr st) t = Some (true, code) -> ~ In t us ->
    run st us = Some sm -> step sm t = Some sb ->
    exists sa, step st t = Some sa /\ run sa us = Some sb.
  Proof.
    induction us; simpl; intros st t code sm sb I Ht Hn Hr Hs.
    - inversion Hr; subst. eauto.
    - destruct (step st a) as [s1|] eqn:E; [|discriminate].
      assert (Hta : t <> a) by (intro; subst; tauto).
      assert (Ht1 : nth_error (thr s1) t = Some (true, code)).
      { rewrite (step_other_thread _ _ _ _ E Hta). auto. }
      destruct (IHus s1 t code sm sb (step_inv _ _ _ I E) Ht1 (fun H => Hn (or_intror H)) Hr Hs) as (s2 & S2 & R2).
      destruct (swap st t a code s1 s2 I Hta Ht E S2) as (sc & Sc & Sa).
      exists sc. split; auto. rewrite Sa. auto.
  Qed.

  Lemma run_cons : forall st t s, run st (t :: s) = match step st t with Some s' => run s' s | None => None end.
  Proof. reflexivity. Qed.

  Lemma run_app : forall a b st, run st (a ++ b) = match run st a with Some s => run s b | None => None end.
  Proof. induction a; simpl; intros; auto. destruct (step st a); auto. Qed.

  Lemma unfinished_runs : forall st sched fin t code, run st sched = Some fin -> finished fin ->
    nth_error (thr st) t = Some (true, code) -> In t sched.
  Proof.
    intros st sched fin t code Hr Hf Ht.
    destruct (in_dec Nat.eq_dec t sched) as [|Hn]; auto. exfalso.
    rewrite <- (run_other_thread _ _ _ _ Hr Hn) in Ht.
    apply nth_error_In in Ht. apply Hf in Ht. discriminate.
  Qed.

  (* ---------- the section a thread has begun can be completed before anything else ---------------- *)
  Lemma extract : forall body t ms r st sched fin, Inv st ->
    nth_error (thr st) t = Some (true, Sec ms body :: r) ->
    run st sched = Some fin -> finished fin ->
    exists st2 sched2, run st (repeat t (S (length body))) = Some st2 /\ run st2 sched2 = Some fin /\
      length sched2 < length sched /\ Inv st2 /\ thr st2 = upd t (false, r) (thr st).
  Proof.
    induction body as [|a b IH]; intros t ms r st sched fin I Ht Hr Hf.
    - destruct (in_split_first _ _ (unfinished_runs _ _ _ _ _ Hr Hf Ht)) as (us & rest & -> & Hn).
      rewrite run_app in Hr. destruct (run st us) as [sm|] eqn:Rm; [|discriminate]. simpl in Hr.
      destruct (step sm t) as [sb|] eqn:Sb; [|discriminate].
      destruct (move_left us st t _ sm sb I Ht Hn Rm Sb) as (sa & Sa & Ra).
      exists sa, (us ++ rest). simpl. rewrite Sa. split; [reflexivity|]. split; [|split; [|split]].
      + rewrite run_app, Ra. auto.
      + rewrite !app_length. simpl. lia.
      + eapply step_inv; eauto.
      + unfold AccessModel.step in Sa. rewrite Ht in Sa. simpl in Sa. inversion Sa. reflexivity.
    - destruct (in_split_first _ _ (unfinished_runs _ _ _ _ _ Hr Hf Ht)) as (us & rest & -> & Hn).
      rewrite run_app in Hr. destruct (run st us) as [sm|] eqn:Rm; [|discriminate]. simpl in Hr.
      destruct (step sm t) as [sb|] eqn:Sb; [|discriminate].
      destruct (move_left us st t _ sm sb I Ht Hn Rm Sb) as (sa & Sa & Ra).
      assert (Hta : nth_error (thr sa) t = Some (true, Sec ms b :: r) /\ thr sa = upd t (true, Sec ms b :: r) (thr st)).
      { unfold AccessModel.step in Sa. rewrite Ht in Sa. simpl in Sa. inversion Sa; simpl.
        split; auto. apply nth_error_upd_eq. eapply nth_error_lt; eauto. }
      destruct Hta as [Hta Hthr].
      assert (Hr' : run sa (us ++ rest) = Some fin) by (rewrite run_app, Ra; auto).
      destruct (IH t ms r sa (us ++ rest) fin (step_inv _ _ _ I Sa) Hta Hr' Hf) as (st2 & sched2 & R2 & R3 & L & I2 & T2).
      exists st2, sched2. split; [|split; [exact R3|split; [|split; [exact I2|]]]].
      + change (repeat t (S (length (a :: b)))) with (t :: repeat t (S (length b))). rewrite run_cons, Sa. exact R2.
      + rewrite !app_length in *. simpl. lia.
      + rewrite T2, Hthr. apply upd_upd.
  Qed.

  (* ---------- main induction ----------------------------------------------------------------------------- *)
  Definition quiescent (st : pstate) : Prop := forall ts, In ts (thr st) -> fst ts = false.

  Lemma serial_main : forall n st sched fin, length sched <= n -> Inv st -> quiescent st ->
    run st sched = Some fin -> finished fin ->
    exists order, run_atomic wf obody st order = Some fin.
  Proof.
    induction n; intros st sched fin Hl I Q Hr Hf.
    - destruct sched; [|simpl in Hl; lia]. simpl in Hr. inversion Hr; subst. exists []. reflexivity.
    - destruct sched as [|t s1].
      + simpl in Hr. inversion Hr; subst. exists []. reflexivity.
      + simpl in Hr. destruct (step st t) as [st1|] eqn:S1; [|discriminate].
        pose proof S1 as S1'. unfold AccessModel.step in S1'.
        destruct (nth_error (thr st) t) as [[o code]|] eqn:Ht; [|discriminate].
        pose proof (Q _ (nth_error_In _ _ Ht)) as Ho. simpl in Ho. subst o.
        pose proof (nth_error_lt _ _ _ _ Ht) as Hlt.
        destruct code as [|[ms body|a|o] r]; cbn [next] in S1'; try discriminate.
        * (* a section is begun: complete it first *)
          destruct (apply t (EAcq ms) (pmem st)) as [m1|] eqn:A1; [|discriminate].
          inversion S1'; subst st1; clear S1'.
          assert (Ht1 : nth_error (thr (mkP (upd t (true, Sec ms body :: r) (thr st)) m1)) t = Some (true, Sec ms body :: r))
            by (simpl; apply nth_error_upd_eq; auto).
          destruct (extract body t ms r _ s1 fin (step_inv _ _ _ I S1) Ht1 Hr Hf) as (st2 & sched2 & R2 & R3 & L & I2 & T2).
          assert (Q2 : quiescent st2).
          { intros ts Hin. rewrite T2 in Hin. simpl in Hin. rewrite upd_upd in Hin.
            apply in_upd in Hin. destruct Hin as [->|Hin]; auto. }
          destruct (IHn st2 sched2 fin) as (order & Ho); auto. { simpl in Hl. lia. }
          exists (t :: order). simpl. unfold atomic_block. rewrite Ht.
          change (block_steps (Sec ms body)) with (S (S (length body))).
          change (repeat t (S (S (length body)))) with (t :: repeat t (S (length body))).
          rewrite run_cons, S1, R2. exact Ho.
        * destruct (apply t (EAcc a) (pmem st)) as [m1|] eqn:A1; [|discriminate].
          inversion S1'; subst st1; clear S1'.
          assert (Q1 : quiescent (mkP (upd t (false, r) (thr st)) m1)).
          { intros ts Hin. simpl in Hin. apply in_upd in Hin. destruct Hin as [->|Hin]; auto. }
          destruct (IHn (mkP (upd t (false, r) (thr st)) m1) s1 fin) as (order & Ho); auto.
          { simpl in Hl; lia. } { eapply step_inv; eauto. }
          exists (t :: order). simpl. unfold atomic_block. rewrite Ht. simpl. rewrite S1. exact Ho.
        * destruct (apply t (EOnce o) (pmem st)) as [m1|] eqn:A1; [|discriminate].
          inversion S1'; subst st1; clear S1'.
          assert (Q1 : quiescent (mkP (upd t (false, r) (thr st)) m1)).
          { intros ts Hin. simpl in Hin. apply in_upd in Hin. destruct Hin as [->|Hin]; auto. }
          destruct (IHn (mkP (upd t (false, r) (thr st)) m1) s1 fin) as (order & Ho); auto.
          { simpl in Hl; lia. } { eapply step_inv; eauto. }
          exists (t :: order). simpl. unfold atomic_block. rewrite Ht. simpl. rewrite S1. exact Ho.
  Qed.
End Serial.

(* ---------- the initial state of a race-free program satisfies the invariant -------------------------- *)
Lemma init_inv : forall obody prog nl nm no, race_free_b obody no prog = true ->
  Inv obody (init prog nl nm no).
Proof.
  intros obody prog nl nm no H. unfold race_free_b in H. apply andb_true_iff in H. destruct H as [Hp Hg].
  assert (Hthr : forall t ct, nth_error (thr (init prog nl nm no)) t = Some ct ->
            exists c, nth_error prog t = Some c /\ ct = (false, c)).
  { simpl. intros t ct Ht. rewrite nth_error_map in Ht. destruct (nth_error prog t); inversion Ht. eauto. }
  constructor.
  - intros t u ct cu Htu Ht Hu.
    destruct (Hthr _ _ Ht) as (c1 & E1 & ->). destruct (Hthr _ _ Hu) as (c2 & E2 & ->). simpl.
    unfold all_pairs_ok in Hp. rewrite forallb_forall in Hp.
    pose proof (nth_error_lt _ _ _ _ E1) as L1. pose proof (nth_error_lt _ _ _ _ E2) as L2.
    rewrite map_length in Hp.
    assert (In t (seq 0 (length prog))) as It by (apply in_seq; lia).
    assert (In u (seq 0 (length prog))) as Iu by (apply in_seq; lia).
    specialize (Hp t It). rewrite forallb_forall in Hp. specialize (Hp u Iu).
    apply orb_true_iff in Hp. destruct Hp as [Hp|Hp]; [apply Nat.eqb_eq in Hp; congruence|].
    change (@nil (list nat * access)) with (flat []) in Hp.
    rewrite !map_nth in Hp.
    rewrite (nth_error_nth _ _ [] E1), (nth_error_nth _ _ [] E2) in Hp. exact Hp.
  - intros t ms body r Ht. destruct (Hthr _ _ Ht) as (c & _ & E). discriminate.
  - intros o Ho. right. intros t ct Ht. destruct (Hthr _ _ Ht) as (c & E & ->). simpl.
    simpl in Ho. rewrite repeat_length in Ho.
    rewrite forallb_forall in Hg. assert (In o (seq 0 no)) as Io by (apply in_seq; lia).
    specialize (Hg o Io). rewrite forallb_forall in Hg. apply Hg. eapply nth_error_In; eauto.
Qed.

Lemma init_quiescent : forall prog nl nm no, quiescent (init prog nl nm no).
Proof.
  intros prog nl nm no ts Hin. simpl in Hin. apply in_map_iff in Hin. destruct Hin as (c & <- & _). reflexivity.
Qed.

Lemma finished_b_spec : forall st, finished_b st = true -> finished st.
Proof.
  unfold finished_b, finished. intros st H ts Hin. rewrite forallb_forall in H. specialize (H ts Hin).
  destruct ts as [[|] [|]]; try discriminate. reflexivity.
Qed.
