(* C20 - region serialisability for programs with nested and reader/writer locks: every complete interleaving of a
   race-free program ends in the state reached by letting the threads perform whole regions (maximal runs of
   accesses between two synchronisation operations) one at a time. *)
From Coq Require Import List Arith Bool Lia.
From GmsmVerif Require Import Conc.AccessModel Conc.ConcLists Conc.NestModel.
Import ListNotations.

Lemma mode_eqb_eq : forall a b, mode_eqb a b = true <-> a = b.
Proof. intros [|] [|]; simpl; split; congruence. Qed.

Lemma lk_eqb_eq : forall a b, lk_eqb a b = true <-> a = b.
Proof.
  intros [a1 a2] [b1 b2]. unfold lk_eqb. simpl. rewrite andb_true_iff, mode_eqb_eq, Nat.eqb_eq.
  split; [intros [-> ->]; auto|intros H; inversion H; auto].
Qed.

Lemma holds_spec : forall x hl, holds x hl = true <-> In x hl.
Proof.
  unfold holds. intros x hl. rewrite existsb_exists. split.
  - intros (y & Hy & E). apply lk_eqb_eq in E. subst. auto.
  - intros H. exists x. split; auto. apply lk_eqb_eq. auto.
Qed.

Lemma in_drop_lk : forall x y hl, In y (drop_lk x hl) <-> In y hl /\ y <> x.
Proof.
  unfold drop_lk. intros x y hl. rewrite filter_In. split; intros [H1 H2]; split; auto.
  - intro E. subst. apply negb_true_iff in H2. assert (lk_eqb x x = true) by (apply lk_eqb_eq; auto). congruence.
  - apply negb_true_iff. destruct (lk_eqb x y) eqn:E; auto. apply lk_eqb_eq in E. congruence.
Qed.

Section Regions.
  Variable wf : nat -> list nat -> nat.
  Variable obody : nat -> list (nat * nat).

  Notation apply2 := (apply2 wf obody).
  Notation step2 := (step2 wf obody).
  Notation run2 := (run2 wf obody).
  Notation do_access2 := (do_access2 wf).

  (* ---------- invariant ---------------------------------------------------------------------------------------- *)
  Record Inv2 (st : pst2) : Prop := {
    i_race : forall t u ct cu, t <> u -> nth_error (thr2 st) t = Some ct -> nth_error (thr2 st) u = Some cu ->
      pair_ok2 (annot (fst ct) (snd ct)) (annot (fst cu) (snd cu)) = true;
    i_excl : forall t ct m, nth_error (thr2 st) t = Some ct -> In (Excl, m) (fst ct) ->
      exists l, nth_error (locks2 (pmem2 st)) m = Some l /\ writer l = Some t;
    i_shared : forall t ct m, nth_error (thr2 st) t = Some ct -> In (Shared, m) (fst ct) ->
      exists l, nth_error (locks2 (pmem2 st)) m = Some l /\ nth t (rdrs l) false = true;
    i_writer : forall m l w, nth_error (locks2 (pmem2 st)) m = Some l -> writer l = Some w ->
      forall u, nth u (rdrs l) false = false;
    i_once : forall o, o < length (odone2 (pmem2 st)) ->
      nth o (odone2 (pmem2 st)) false = true \/
      forall t ct, nth_error (thr2 st) t = Some ct -> guarded2 (map fst (obody o)) o (snd ct) = true }.

  Lemma pair_ok2_spec : forall c1 c2, pair_ok2 c1 c2 = true <->
    forall x y, In x c1 -> In y c2 -> conflict (snd x) (snd y) = true -> protects (fst x) (snd x) (fst y) (snd y) = true.
  Proof.
    unfold pair_ok2. intros. rewrite forallb_forall. split; intros H.
    - intros x y Hx Hy Hc. specialize (H x Hx). rewrite forallb_forall in H. specialize (H y Hy).
      rewrite Hc in H. simpl in H. exact H.
    - intros x Hx. rewrite forallb_forall. intros y Hy. destruct (conflict (snd x) (snd y)) eqn:Hc; simpl; auto.
  Qed.

  Lemma pair_ok2_incl : forall c1 c2 d1 d2, incl d1 c1 -> incl d2 c2 -> pair_ok2 c1 c2 = true -> pair_ok2 d1 d2 = true.
  Proof. intros. rewrite pair_ok2_spec in *. intros. apply H1; auto. Qed.

  (* what a step does to the thread: the annotation of the remaining code only shrinks *)
  Lemma apply2_annot : forall t x hl m m' hl' code, apply2 t x hl m = Some (m', hl') ->
    incl (annot hl' code) (annot hl (x :: code)).
  Proof.
    intros t x hl m m' hl' code H. destruct x as [a|[|] k|[|] k|o]; simpl in H.
    - inversion H; subst. simpl. apply incl_tl, incl_refl.
    - destruct (nth_error (locks2 m) k) as [l|]; [|discriminate]. destruct (writer l); [discriminate|].
      destruct (forallb negb (rdrs l)); inversion H; subst. simpl. apply incl_refl.
    - destruct (nth_error (locks2 m) k) as [l|]; [|discriminate]. destruct (writer l); [discriminate|].
      destruct ((t <? length (rdrs l)) && negb (nth t (rdrs l) false)); inversion H; subst. simpl. apply incl_refl.
    - destruct (nth_error (locks2 m) k) as [l|]; [|discriminate]. destruct (writer l) as [w|]; [|discriminate].
      destruct (w =? t); inversion H; subst. simpl. apply incl_refl.
    - destruct (nth_error (locks2 m) k) as [l|]; [|discriminate].
      destruct (nth t (rdrs l) false); inversion H; subst. simpl. apply incl_refl.
    - destruct (o <? length (odone2 m)); [|discriminate].
      destruct (nth o (odone2 m) false); inversion H; subst; simpl; apply incl_refl.
  Qed.

  Lemma guarded2_tail : forall locs o x code, x <> NOnce o -> guarded2 locs o (x :: code) = true -> guarded2 locs o code = true.
  Proof.
    intros locs o x code Hne G. destruct x as [a|md k|md k|o']; simpl in G; auto.
    - apply andb_true_iff in G. tauto.
    - destruct (o' =? o) eqn:E; auto. apply Nat.eqb_eq in E. subst. congruence.
  Qed.

  Lemma nth_error_upd_cases2 : forall A (l : list A) i j x y, nth_error (upd i x l) j = Some y ->
    (i = j /\ y = x) \/ (i <> j /\ nth_error l j = Some y) \/ (i = j /\ nth_error l j = None).
  Proof.
    intros A l i j x y H. destruct (Nat.eq_dec i j) as [->|Hne].
    - destruct (lt_dec j (length l)).
      + rewrite nth_error_upd_eq in H by auto. inversion H. auto.
      + assert (nth_error (upd j x l) j = None) by (apply nth_error_None; rewrite length_upd; lia). congruence.
    - rewrite nth_error_upd_neq in H by auto. auto.
  Qed.

  Lemma step2_inv : forall st t st', Inv2 st -> step2 st t = Some st' -> Inv2 st'.
  Proof.
    intros st t st' I H. unfold NestModel.step2 in H.
    destruct (nth_error (thr2 st) t) as [[hl [|x code]]|] eqn:Ht; try discriminate.
    destruct (apply2 t x hl (pmem2 st)) as [[m' hl']|] eqn:Ha; [|discriminate].
    inversion H; subst st'; clear H.
    pose proof (nth_error_lt _ _ _ _ Ht) as Hlt.
    assert (Hget : forall u cu, nth_error (upd t (hl', code) (thr2 st)) u = Some cu ->
              (u = t /\ cu = (hl', code)) \/ (u <> t /\ nth_error (thr2 st) u = Some cu)).
    { intros u cu Hu. destruct (Nat.eq_dec u t) as [->|Hne].
      - rewrite nth_error_upd_eq in Hu by auto. inversion Hu. auto.
      - rewrite nth_error_upd_neq in Hu by auto. auto. }
    pose proof (apply2_annot _ _ _ _ _ _ code Ha) as Hincl.
    (* facts about the lock table, by kind of item *)
    assert (Hlocks :
      (locks2 m' = locks2 (pmem2 st) /\ hl' = hl) \/
      (exists md k l l', x = NLock md k /\ nth_error (locks2 (pmem2 st)) k = Some l /\ locks2 m' = upd k l' (locks2 (pmem2 st))
                         /\ hl' = (md, k) :: hl /\ writer l = None
                         /\ (md = Excl -> l' = mkL (Some t) (rdrs l) /\ forallb negb (rdrs l) = true)
                         /\ (md = Shared -> l' = mkL None (upd t true (rdrs l)) /\ t < length (rdrs l) /\ nth t (rdrs l) false = false)) \/
      (exists md k l l', x = NUnlock md k /\ nth_error (locks2 (pmem2 st)) k = Some l /\ locks2 m' = upd k l' (locks2 (pmem2 st))
                         /\ hl' = drop_lk (md, k) hl
                         /\ (md = Excl -> l' = mkL None (rdrs l) /\ writer l = Some t)
                         /\ (md = Shared -> l' = mkL (writer l) (upd t false (rdrs l)) /\ nth t (rdrs l) false = true))).
    { destruct x as [a|[|] k|[|] k|o]; simpl in Ha.
      - left. inversion Ha; subst. destruct a; auto.
      - right; left. destruct (nth_error (locks2 (pmem2 st)) k) as [l|] eqn:El; [|discriminate].
        destruct (writer l) eqn:Ew; [discriminate|]. destruct (forallb negb (rdrs l)) eqn:Ef; inversion Ha; subst.
        exists Excl, k, l, (mkL (Some t) (rdrs l)). repeat split; auto; discriminate.
      - right; left. destruct (nth_error (locks2 (pmem2 st)) k) as [l|] eqn:El; [|discriminate].
        destruct (writer l) eqn:Ew; [discriminate|].
        destruct ((t <? length (rdrs l)) && negb (nth t (rdrs l) false)) eqn:Ef; inversion Ha; subst.
        apply andb_true_iff in Ef. destruct Ef as [E1 E2]. apply Nat.ltb_lt in E1. apply negb_true_iff in E2.
        exists Shared, k, l, (mkL None (upd t true (rdrs l))). repeat split; auto; discriminate.
      - right; right. destruct (nth_error (locks2 (pmem2 st)) k) as [l|] eqn:El; [|discriminate].
        destruct (writer l) as [w|] eqn:Ew; [|discriminate]. destruct (w =? t) eqn:E; inversion Ha; subst.
        apply Nat.eqb_eq in E. subst w.
        exists Excl, k, l, (mkL None (rdrs l)). repeat split; auto; discriminate.
      - right; right. destruct (nth_error (locks2 (pmem2 st)) k) as [l|] eqn:El; [|discriminate].
        destruct (nth t (rdrs l) false) eqn:E; inversion Ha; subst.
        exists Shared, k, l, (mkL (writer l) (upd t false (rdrs l))). repeat split; auto; discriminate.
      - left. destruct (o <? length (odone2 (pmem2 st))); [|discriminate].
        destruct (nth o (odone2 (pmem2 st)) false); inversion Ha; subst; auto. }
    constructor; simpl.
    - (* race *)
      intros a b ca cb Hab Hca Hcb.
      destruct (Hget _ _ Hca) as [[-> ->]|[Hna Hca']]; destruct (Hget _ _ Hcb) as [[-> ->]|[Hnb Hcb']].
      + congruence.
      + eapply pair_ok2_incl; [exact Hincl|apply incl_refl|]. apply (i_race _ I t b (hl, x :: code) cb); auto.
      + eapply pair_ok2_incl; [apply incl_refl|exact Hincl|]. apply (i_race _ I a t ca (hl, x :: code)); auto.
      + apply (i_race _ I a b ca cb); auto.
    - (* exclusive holders *)
      intros u cu m Hu Hin.
      destruct Hlocks as [[EL EH]|[(md & k & l & l' & Ex & El & EL & EH & Ew & HE & HS)|(md & k & l & l' & Ex & El & EL & EH & HE & HS)]].
      + rewrite EL. destruct (Hget _ _ Hu) as [[-> ->]|[Hne Hu']].
        * subst hl'. apply (i_excl _ I t (hl, x :: code) m Ht Hin).
        * apply (i_excl _ I u cu m Hu' Hin).
      + rewrite EL. pose proof (nth_error_lt _ _ _ _ El) as Lk.
        destruct (Nat.eq_dec m k) as [->|Hmk].
        * (* the lock just taken: free before, so nobody held it exclusively *)
          destruct (Hget _ _ Hu) as [[-> ->]|[Hne Hu']].
          -- subst hl'. simpl in Hin. destruct Hin as [E|Hin].
             ++ inversion E; subst. destruct (HE eq_refl) as [-> _]. exists (mkL (Some t) (rdrs l)). split; auto.
                apply nth_error_upd_eq. auto.
             ++ destruct (i_excl _ I t (hl, x :: code) k Ht Hin) as (l0 & E0 & W0). congruence.
          -- destruct (i_excl _ I u cu k Hu' Hin) as (l0 & E0 & W0). congruence.
        * rewrite nth_error_upd_neq by auto.
          destruct (Hget _ _ Hu) as [[-> ->]|[Hne Hu']].
          -- subst hl'. simpl in Hin. destruct Hin as [E|Hin]; [inversion E; congruence|].
             apply (i_excl _ I t (hl, x :: code) m Ht Hin).
          -- apply (i_excl _ I u cu m Hu' Hin).
      + rewrite EL. pose proof (nth_error_lt _ _ _ _ El) as Lk.
        destruct (Nat.eq_dec m k) as [->|Hmk].
        * destruct (Hget _ _ Hu) as [[-> ->]|[Hne Hu']].
          -- subst hl'. simpl in Hin. apply in_drop_lk in Hin. destruct Hin as [Hin Hd].
             destruct md; [congruence|].
             destruct (HS eq_refl) as [-> _]. destruct (i_excl _ I t (hl, x :: code) k Ht Hin) as (l0 & E0 & W0).
             exists (mkL (writer l) (upd t false (rdrs l))). split; [apply nth_error_upd_eq; auto|]. simpl. congruence.
          -- destruct (i_excl _ I u cu k Hu' Hin) as (l0 & E0 & W0).
             destruct md.
             ++ destruct (HE eq_refl) as [_ W]. congruence.
             ++ destruct (HS eq_refl) as [-> _]. exists (mkL (writer l) (upd t false (rdrs l))).
                split; [apply nth_error_upd_eq; auto|]. simpl. congruence.
        * rewrite nth_error_upd_neq by auto.
          destruct (Hget _ _ Hu) as [[-> ->]|[Hne Hu']].
          -- subst hl'. simpl in Hin. apply in_drop_lk in Hin. apply (i_excl _ I t (hl, x :: code) m Ht (proj1 Hin)).
          -- apply (i_excl _ I u cu m Hu' Hin).
    - (* shared holders *)
      intros u cu m Hu Hin.
      destruct Hlocks as [[EL EH]|[(md & k & l & l' & Ex & El & EL & EH & Ew & HE & HS)|(md & k & l & l' & Ex & El & EL & EH & HE & HS)]].
      + rewrite EL. destruct (Hget _ _ Hu) as [[-> ->]|[Hne Hu']].
        * subst hl'. apply (i_shared _ I t (hl, x :: code) m Ht Hin).
        * apply (i_shared _ I u cu m Hu' Hin).
      + rewrite EL. pose proof (nth_error_lt _ _ _ _ El) as Lk.
        destruct (Nat.eq_dec m k) as [->|Hmk].
        * destruct md.
          -- (* exclusive acquisition: nobody reads *)
             destruct (HE eq_refl) as [-> Hall].
             assert (Hnone : forall v cv, nth_error (thr2 st) v = Some cv -> In (Shared, k) (fst cv) -> False).
             { intros v cv Hv Hi. destruct (i_shared _ I v cv k Hv Hi) as (l0 & E0 & R0).
               assert (l0 = l) by congruence. subst l0.
               rewrite forallb_forall in Hall.
               destruct (lt_dec v (length (rdrs l))) as [Lv|Lv].
               - specialize (Hall _ (nth_In _ false Lv)). rewrite R0 in Hall. discriminate.
               - rewrite nth_overflow in R0 by lia. discriminate. }
             destruct (Hget _ _ Hu) as [[-> ->]|[Hne Hu']].
             ++ subst hl'. simpl in Hin. destruct Hin as [E|Hin]; [inversion E|]. exfalso. eapply (Hnone t); eauto.
             ++ exfalso. eapply (Hnone u); eauto.
          -- destruct (HS eq_refl) as [-> [Lt Rt]].
             exists (mkL None (upd t true (rdrs l))). split; [apply nth_error_upd_eq; auto|]. simpl.
             destruct (Hget _ _ Hu) as [[-> ->]|[Hne Hu']].
             ++ apply nth_upd_eq. auto.
             ++ rewrite nth_upd_neq by auto.
                destruct (i_shared _ I u cu k Hu' Hin) as (l0 & E0 & R0). congruence.
        * rewrite nth_error_upd_neq by auto.
          destruct (Hget _ _ Hu) as [[-> ->]|[Hne Hu']].
          -- subst hl'. simpl in Hin. destruct Hin as [E|Hin]; [inversion E; congruence|].
             apply (i_shared _ I t (hl, x :: code) m Ht Hin).
          -- apply (i_shared _ I u cu m Hu' Hin).
      + rewrite EL. pose proof (nth_error_lt _ _ _ _ El) as Lk.
        destruct (Nat.eq_dec m k) as [->|Hmk].
        * destruct md.
          -- destruct (HE eq_refl) as [-> W]. exists (mkL None (rdrs l)). split; [apply nth_error_upd_eq; auto|]. simpl.
             destruct (Hget _ _ Hu) as [[-> ->]|[Hne Hu']].
             ++ subst hl'. simpl in Hin. apply in_drop_lk in Hin.
                destruct (i_shared _ I t (hl, x :: code) k Ht (proj1 Hin)) as (l0 & E0 & R0). congruence.
             ++ destruct (i_shared _ I u cu k Hu' Hin) as (l0 & E0 & R0). congruence.
          -- destruct (HS eq_refl) as [-> Rt].
             exists (mkL (writer l) (upd t false (rdrs l))). split; [apply nth_error_upd_eq; auto|]. simpl.
             destruct (Hget _ _ Hu) as [[-> ->]|[Hne Hu']].
             ++ subst hl'. simpl in Hin. apply in_drop_lk in Hin. destruct Hin as [_ Hd]. congruence.
             ++ rewrite nth_upd_neq by auto.
                destruct (i_shared _ I u cu k Hu' Hin) as (l0 & E0 & R0). congruence.
        * rewrite nth_error_upd_neq by auto.
          destruct (Hget _ _ Hu) as [[-> ->]|[Hne Hu']].
          -- subst hl'. simpl in Hin. apply in_drop_lk in Hin. apply (i_shared _ I t (hl, x :: code) m Ht (proj1 Hin)).
          -- apply (i_shared _ I u cu m Hu' Hin).
    - (* a writer excludes readers *)
      intros m l0 w Hm Hw u.
      destruct Hlocks as [[EL EH]|[(md & k & l & l' & Ex & El & EL & EH & Ew & HE & HS)|(md & k & l & l' & Ex & El & EL & EH & HE & HS)]].
      + rewrite EL in Hm. eapply (i_writer _ I); eauto.
      + rewrite EL in Hm. apply nth_error_upd_cases2 in Hm.
        destruct Hm as [[-> ->]|[[Hne Hm]|[-> Hm]]]; [|eapply (i_writer _ I); eauto|congruence].
        destruct md.
        * destruct (HE eq_refl) as [-> Hall]. simpl.
          destruct (lt_dec u (length (rdrs l))) as [Lu|Lu]; [|apply nth_overflow; lia].
          rewrite forallb_forall in Hall. specialize (Hall _ (nth_In _ false Lu)). apply negb_true_iff in Hall. auto.
        * destruct (HS eq_refl) as [-> _]. simpl in Hw. discriminate.
      + rewrite EL in Hm. apply nth_error_upd_cases2 in Hm.
        destruct Hm as [[-> ->]|[[Hne Hm]|[-> Hm]]]; [|eapply (i_writer _ I); eauto|congruence].
        destruct md.
        * destruct (HE eq_refl) as [-> _]. simpl in Hw. discriminate.
        * destruct (HS eq_refl) as [-> Rt]. simpl in *.
          pose proof (i_writer _ I _ l w El Hw) as Hall.
          destruct (Nat.eq_dec t u) as [->|Hne].
          -- destruct (lt_dec u (length (rdrs l))); [apply nth_upd_eq; auto|].
             rewrite nth_overflow; auto. rewrite length_upd. lia.
          -- rewrite nth_upd_neq by auto. apply Hall.
    - (* once *)
      intros o Ho.
      assert (Hod : (odone2 m' = odone2 (pmem2 st) /\ x <> NOnce o) \/
                    (x = NOnce o /\ o < length (odone2 (pmem2 st)) /\ nth o (odone2 m') false = true /\ length (odone2 m') = length (odone2 (pmem2 st))) \/
                    (exists o', x = NOnce o' /\ o' <> o /\ length (odone2 m') = length (odone2 (pmem2 st))
                                /\ nth o (odone2 m') false = nth o (odone2 (pmem2 st)) false)).
      { destruct x as [a|[|] k|[|] k|o']; simpl in Ha.
        - left. inversion Ha; subst. split; [destruct a; auto|discriminate].
        - left. destruct (nth_error (locks2 (pmem2 st)) k) as [l|]; [|discriminate]. destruct (writer l); [discriminate|].
          destruct (forallb negb (rdrs l)); inversion Ha; subst. split; [auto|discriminate].
        - left. destruct (nth_error (locks2 (pmem2 st)) k) as [l|]; [|discriminate]. destruct (writer l); [discriminate|].
          destruct ((t <? length (rdrs l)) && negb (nth t (rdrs l) false)); inversion Ha; subst. split; [auto|discriminate].
        - left. destruct (nth_error (locks2 (pmem2 st)) k) as [l|]; [|discriminate]. destruct (writer l) as [w|]; [|discriminate].
          destruct (w =? t); inversion Ha; subst. split; [auto|discriminate].
        - left. destruct (nth_error (locks2 (pmem2 st)) k) as [l|]; [|discriminate].
          destruct (nth t (rdrs l) false); inversion Ha; subst. split; [auto|discriminate].
        - destruct (o' <? length (odone2 (pmem2 st))) eqn:L; [|discriminate]. apply Nat.ltb_lt in L.
          destruct (Nat.eq_dec o' o) as [->|Hne].
          + right; left. destruct (nth o (odone2 (pmem2 st)) false) eqn:D; inversion Ha; subst; simpl.
            * auto.
            * rewrite length_upd. repeat split; auto. apply nth_upd_eq. auto.
          + right; right. exists o'. destruct (nth o' (odone2 (pmem2 st)) false) eqn:D; inversion Ha; subst; simpl.
            * auto.
            * rewrite length_upd. repeat split; auto. apply nth_upd_neq. auto. }
      destruct Hod as [[E Hne]|[(E & L & D & Len)|(o' & E & Hne & Len & D)]].
      + rewrite E in *. destruct (i_once _ I o Ho) as [Dn|G]; [left; auto|right].
        intros u cu Hu. destruct (Hget _ _ Hu) as [[-> ->]|[Hn Hu']]; eauto.
        simpl. eapply guarded2_tail; [exact Hne|]. exact (G _ _ Ht).
      + left. exact D.
      + rewrite Len in Ho. rewrite D. destruct (i_once _ I o Ho) as [Dn|G]; [left; auto|right].
        intros u cu Hu. destruct (Hget _ _ Hu) as [[-> ->]|[Hn Hu']]; eauto.
        simpl. eapply guarded2_tail; [|exact (G _ _ Ht)]. subst x. congruence.
  Qed.

  Lemma run2_inv : forall us st st', Inv2 st -> run2 st us = Some st' -> Inv2 st'.
  Proof.
    induction us; simpl; intros st st' I H.
    - inversion H; subst; auto.
    - destruct (step2 st a) eqn:E; [|discriminate]. eapply IHus; [|eauto]. eapply step2_inv; eauto.
  Qed.

  (* ---------- an access commutes with an independent step of another thread ------------------------------- *)
  Definition indep2 (m : mem2) (s : access) (x : nitem) : Prop :=
    match x with
    | NAcc b => conflict s b = false
    | NOnce o => nth o (odone2 m) false = true \/ ~ In (loc_of s) (map fst (obody o))
    | _ => True
    end.

  Lemma conflict_false2 : forall a b, conflict a b = false ->
    loc_of a <> loc_of b \/ (is_write a = false /\ is_write b = false).
  Proof.
    unfold conflict. intros a b H. apply andb_false_iff in H. destruct H as [H|H].
    - left. apply Nat.eqb_neq. auto.
    - right. apply orb_false_iff in H. auto.
  Qed.

  Lemma acc_comm : forall t u s x hlu m m1 hlu', t <> u -> indep2 m s x ->
    apply2 u x hlu m = Some (m1, hlu') ->
    apply2 u x hlu (do_access2 t s m) = Some (do_access2 t s m1, hlu').
  Proof.
    intros t u s x hlu m m1 hlu' Htu Hi Hu.
    destruct x as [b|[|] k|[|] k|o]; simpl in Hu |- *.
    - inversion Hu; subst; clear Hu. f_equal. f_equal. simpl in Hi.
      destruct (conflict_false2 _ _ Hi) as [Hl|[Wa Wb]].
      + destruct s as [l|l], b as [l'|l']; simpl in *; unfold NestModel.do_access2; simpl;
          repeat first [rewrite (nth_upd_neq _ u t) by congruence | rewrite (nth_upd_neq _ t u) by congruence
                       | rewrite (nth_upd_neq _ l l') by congruence | rewrite (nth_upd_neq _ l' l) by congruence];
          try reflexivity; f_equal; apply upd_comm; congruence.
      + destruct s as [l|l], b as [l'|l']; simpl in *; try discriminate. unfold NestModel.do_access2; simpl.
        repeat first [rewrite (nth_upd_neq _ u t) by congruence | rewrite (nth_upd_neq _ t u) by congruence].
        f_equal. apply upd_comm. congruence.
    - assert (locks2 (do_access2 t s m) = locks2 m) as -> by (destruct s; reflexivity).
      destruct (nth_error (locks2 m) k) as [l|]; [|discriminate]. destruct (writer l); [discriminate|].
      destruct (forallb negb (rdrs l)); inversion Hu; subst. destruct s; reflexivity.
    - assert (locks2 (do_access2 t s m) = locks2 m) as -> by (destruct s; reflexivity).
      destruct (nth_error (locks2 m) k) as [l|]; [|discriminate]. destruct (writer l); [discriminate|].
      destruct ((u <? length (rdrs l)) && negb (nth u (rdrs l) false)); inversion Hu; subst. destruct s; reflexivity.
    - assert (locks2 (do_access2 t s m) = locks2 m) as -> by (destruct s; reflexivity).
      destruct (nth_error (locks2 m) k) as [l|]; [|discriminate]. destruct (writer l) as [w|]; [|discriminate].
      destruct (w =? u); inversion Hu; subst. destruct s; reflexivity.
    - assert (locks2 (do_access2 t s m) = locks2 m) as -> by (destruct s; reflexivity).
      destruct (nth_error (locks2 m) k) as [l|]; [|discriminate].
      destruct (nth u (rdrs l) false); inversion Hu; subst. destruct s; reflexivity.
    - assert (odone2 (do_access2 t s m) = odone2 m) as -> by (destruct s; reflexivity).
      destruct (o <? length (odone2 m)); [|discriminate].
      destruct (nth o (odone2 m) false) eqn:D.
      + inversion Hu; subst. reflexivity.
      + inversion Hu; subst; clear Hu. simpl in Hi. destruct Hi as [Hi|Hi]; [congruence|].
        f_equal. f_equal. destruct s as [l|l]; unfold NestModel.do_access2; simpl; f_equal.
        * rewrite nth_do_writes_notin by auto. reflexivity.
        * symmetry. apply upd_do_writes_comm. auto.
  Qed.

  Lemma protects_spec : forall h1 a1 h2 a2, protects h1 a1 h2 a2 = true ->
    exists m, (In (Excl, m) h2 \/ In (Shared, m) h2) /\ (In (Excl, m) h1 \/ In (Shared, m) h1)
              /\ (is_write a1 = true -> In (Excl, m) h1) /\ (is_write a2 = true -> In (Excl, m) h2).
  Proof.
    unfold protects. intros h1 a1 h2 a2 H. apply existsb_exists in H. destruct H as ([md m] & Hin & H). simpl in H.
    apply andb_true_iff in H. destruct H as [H H3]. apply andb_true_iff in H. destruct H as [H1 H2].
    exists m. split; [|split; [|split]].
    - apply orb_true_iff in H1. destruct H1 as [H1|H1]; apply holds_spec in H1; auto.
    - destruct md; auto.
    - intros W. rewrite W in H2. simpl in H2. apply holds_spec. auto.
    - intros W. rewrite W in H3. simpl in H3. apply holds_spec. auto.
  Qed.

  Lemma swap2 : forall st t u hl s code sa sb, Inv2 st -> t <> u ->
    nth_error (thr2 st) t = Some (hl, NAcc s :: code) ->
    step2 st u = Some sa -> step2 sa t = Some sb ->
    exists sc, step2 st t = Some sc /\ step2 sc u = Some sb.
  Proof.
    intros st t u hl s code sa sb I Htu Ht Hu Hsb.
    unfold NestModel.step2 in Hu.
    destruct (nth_error (thr2 st) u) as [[hlu [|x cu]]|] eqn:Eu; try discriminate.
    destruct (apply2 u x hlu (pmem2 st)) as [[m1 hlu']|] eqn:Au; [|discriminate].
    inversion Hu; subst sa; clear Hu.
    assert (Et : nth_error (upd u (hlu', cu) (thr2 st)) t = Some (hl, NAcc s :: code))
      by (rewrite nth_error_upd_neq by auto; exact Ht).
    unfold NestModel.step2 in Hsb. cbn [thr2 pmem2] in Hsb. rewrite Et in Hsb.
    cbn [NestModel.apply2] in Hsb. inversion Hsb; subst sb; clear Hsb.
    assert (Hi : indep2 (pmem2 st) s x).
    { destruct x as [b|md k|md k|o]; simpl; auto.
      - destruct (conflict s b) eqn:Hc; auto. exfalso.
        pose proof (proj1 (pair_ok2_spec _ _) (i_race _ I t u _ _ Htu Ht Eu)) as Hp. simpl in Hp.
        specialize (Hp (hl, s) (hlu, b) (or_introl eq_refl) (or_introl eq_refl) Hc). simpl in Hp.
        apply protects_spec in Hp. destruct Hp as (m & H2 & H1 & W1 & W2).
        unfold conflict in Hc. apply andb_true_iff in Hc. destruct Hc as [_ Hw]. apply orb_true_iff in Hw.
        destruct Hw as [Hw|Hw].
        + specialize (W1 Hw). destruct (i_excl _ I t _ m Ht W1) as (l & El & Wl).
          destruct H2 as [H2|H2].
          * destruct (i_excl _ I u _ m Eu H2) as (l' & El' & Wl'). congruence.
          * destruct (i_shared _ I u _ m Eu H2) as (l' & El' & Rl'). assert (l' = l) by congruence. subst.
            rewrite (i_writer _ I m l t El Wl u) in Rl'. discriminate.
        + specialize (W2 Hw). destruct (i_excl _ I u _ m Eu W2) as (l & El & Wl).
          destruct H1 as [H1|H1].
          * destruct (i_excl _ I t _ m Ht H1) as (l' & El' & Wl'). congruence.
          * destruct (i_shared _ I t _ m Ht H1) as (l' & El' & Rl'). assert (l' = l) by congruence. subst.
            rewrite (i_writer _ I m l u El Wl t) in Rl'. discriminate.
      - simpl in Au. destruct (o <? length (odone2 (pmem2 st))) eqn:Hl; [|discriminate]. apply Nat.ltb_lt in Hl.
        destruct (i_once _ I o Hl) as [D|G]; [left; auto|right].
        specialize (G _ _ Ht). simpl in G. apply andb_true_iff in G. destruct G as [G _]. apply negb_true_iff in G.
        intro Hin. assert (existsb (Nat.eqb (loc_of s)) (map fst (obody o)) = true).
        { apply existsb_exists. exists (loc_of s). split; auto. apply Nat.eqb_refl. }
        congruence. }
    pose proof (acc_comm t u s x hlu (pmem2 st) m1 hlu' Htu Hi Au) as A2.
    exists (mkP2 (upd t (hl, code) (thr2 st)) (do_access2 t s (pmem2 st))). split.
    - unfold NestModel.step2. rewrite Ht. reflexivity.
    - assert (Eu' : nth_error (upd t (hl, code) (thr2 st)) u = Some (hlu, x :: cu))
        by (rewrite nth_error_upd_neq by auto; exact Eu).
      unfold NestModel.step2. cbn [thr2 pmem2]. rewrite Eu', A2.
      rewrite upd_comm by auto. reflexivity.
  Qed.

  (* ---------- moving an access to the left over steps of other threads ----------------------------------- *)
  Lemma step2_other_thread : forall st u st' t, step2 st u = Some st' -> t <> u ->
    nth_error (thr2 st') t = nth_error (thr2 st) t.
  Proof.
    intros st u st' t H Hne. unfold NestModel.step2 in H.
    destruct (nth_error (thr2 st) u) as [[hl [|x c]]|]; try discriminate.
    destruct (apply2 u x hl (pmem2 st)) as [[m' hl']|]; [|discriminate]. inversion H; subst; simpl.
    apply nth_error_upd_neq. auto.
  Qed.

  Lemma run2_other_thread : forall us st st' t, run2 st us = Some st' -> ~ In t us ->
    nth_error (thr2 st') t = nth_error (thr2 st) t.
  Proof.
    induction us; simpl; intros st st' t H Hn.
    - inversion H; auto.
    - destruct (step2 st a) eqn:E; [|discriminate].
      rewrite (IHus _ _ _ H) by tauto. eapply step2_other_thread; eauto.
  Qed.

  Lemma move_left2 : forall us st t hl s code sm sb, Inv2 st ->
    nth_error (thr2 st) t = Some (hl, NAcc s :: code) -> ~ In t us ->
    run2 st us = Some sm -> step2 sm t = Some sb ->
    exists sa, step2 st t = Some sa /\ run2 sa us = Some sb.
  Proof.
    induction us; simpl; intros st t hl s code sm sb I Ht Hn Hr Hs.
    - inversion Hr; subst. eauto.
    - destruct (step2 st a) as [s1|] eqn:E; [|discriminate].
      assert (Hta : t <> a) by (intro; subst; tauto).
      assert (Ht1 : nth_error (thr2 s1) t = Some (hl, NAcc s :: code)).
      { rewrite (step2_other_thread _ _ _ _ E Hta). auto. }
      destruct (IHus s1 t hl s code sm sb (step2_inv _ _ _ I E) Ht1 (fun H => Hn (or_intror H)) Hr Hs) as (s2 & S2 & R2).
      destruct (swap2 st t a hl s code s1 s2 I Hta Ht E S2) as (sc & Sc & Sa).
      exists sc. split; auto. rewrite Sa. auto.
  Qed.

  Lemma run2_cons : forall st t s, run2 st (t :: s) = match step2 st t with Some s' => run2 s' s | None => None end.
  Proof. reflexivity. Qed.

  Lemma run2_app : forall a b st, run2 st (a ++ b) = match run2 st a with Some s => run2 s b | None => None end.
  Proof. induction a; simpl; intros; auto. destruct (step2 st a); auto. Qed.

  Lemma unfinished_runs2 : forall st sched fin t hl x code, run2 st sched = Some fin -> finished2 fin ->
    nth_error (thr2 st) t = Some (hl, x :: code) -> In t sched.
  Proof.
    intros st sched fin t hl x code Hr Hf Ht.
    destruct (in_dec Nat.eq_dec t sched) as [|Hn]; auto. exfalso.
    rewrite <- (run2_other_thread _ _ _ _ Hr Hn) in Ht.
    apply nth_error_In in Ht. apply Hf in Ht. discriminate.
  Qed.

  (* ---------- the rest of a region can be performed before anything else ------------------------------------ *)
  Lemma extract2 : forall n code t hl st sched fin, lead code = n -> Inv2 st ->
    nth_error (thr2 st) t = Some (hl, code) ->
    run2 st sched = Some fin -> finished2 fin ->
    exists st2 sched2, run2 st (repeat t n) = Some st2 /\ run2 st2 sched2 = Some fin /\
      length sched2 <= length sched /\ Inv2 st2.
  Proof.
    induction n; intros code t hl st sched fin Hl I Ht Hr Hf.
    - exists st, sched. simpl. auto.
    - destruct code as [|[s| | |] code']; simpl in Hl; try discriminate. inversion Hl as [Hl'].
      destruct (in_split_first _ _ (unfinished_runs2 _ _ _ _ _ _ _ Hr Hf Ht)) as (us & rest & -> & Hn).
      rewrite run2_app in Hr. destruct (run2 st us) as [sm|] eqn:Rm; [|discriminate]. rewrite run2_cons in Hr.
      destruct (step2 sm t) as [sb|] eqn:Sb; [|discriminate].
      destruct (move_left2 us st t hl s code' sm sb I Ht Hn Rm Sb) as (sa & Sa & Ra).
      assert (Hta : nth_error (thr2 sa) t = Some (hl, code')).
      { unfold NestModel.step2 in Sa. rewrite Ht in Sa. simpl in Sa. inversion Sa; simpl.
        apply nth_error_upd_eq. eapply nth_error_lt; eauto. }
      assert (Hr' : run2 sa (us ++ rest) = Some fin) by (rewrite run2_app, Ra; auto).
      destruct (IHn code' t hl sa (us ++ rest) fin Hl' (step2_inv _ _ _ I Sa) Hta Hr' Hf) as (st2 & sched2 & R2 & R3 & L & I2).
      exists st2, sched2. split; [|split; [exact R3|split; [|exact I2]]].
      + rewrite Hl'. change (repeat t (S n)) with (t :: repeat t n). rewrite run2_cons, Sa. exact R2.
      + rewrite !app_length in *. simpl. lia.
  Qed.

  Lemma region_main : forall n st sched fin, length sched <= n -> Inv2 st ->
    run2 st sched = Some fin -> finished2 fin ->
    exists order, run_units wf obody st order = Some fin.
  Proof.
    induction n; intros st sched fin Hl I Hr Hf.
    - destruct sched; [|simpl in Hl; lia]. simpl in Hr. inversion Hr; subst. exists []. reflexivity.
    - destruct sched as [|t s1].
      + simpl in Hr. inversion Hr; subst. exists []. reflexivity.
      + rewrite run2_cons in Hr. destruct (step2 st t) as [st1|] eqn:S1; [|discriminate].
        pose proof S1 as S1'. unfold NestModel.step2 in S1'.
        destruct (nth_error (thr2 st) t) as [[hl [|x code]]|] eqn:Ht; try discriminate.
        destruct (apply2 t x hl (pmem2 st)) as [[m1 hl1]|] eqn:A1; [|discriminate].
        inversion S1'; subst st1; clear S1'.
        assert (Ht1 : nth_error (thr2 (mkP2 (upd t (hl1, code) (thr2 st)) m1)) t = Some (hl1, code)).
        { simpl. apply nth_error_upd_eq. eapply nth_error_lt; eauto. }
        pose proof (step2_inv _ _ _ I S1) as I1.
        set (k := match x with NAcc _ => lead code | _ => 0 end).
        assert (Hk : exists st2 sched2, run2 (mkP2 (upd t (hl1, code) (thr2 st)) m1) (repeat t k) = Some st2 /\
                       run2 st2 sched2 = Some fin /\ length sched2 <= length s1 /\ Inv2 st2).
        { destruct x; subst k; try (exists (mkP2 (upd t (hl1, code) (thr2 st)) m1), s1; simpl; auto; fail).
          eapply extract2; eauto. }
        destruct Hk as (st2 & sched2 & R2 & R3 & L & I2).
        destruct (IHn st2 sched2 fin) as (order & Ho); auto. { simpl in Hl. lia. }
        exists (t :: order). simpl. unfold atomic_unit. rewrite Ht.
        assert (E : unit_steps (x :: code) = S k) by (destruct x; reflexivity).
        rewrite E. change (repeat t (S k)) with (t :: repeat t k). rewrite run2_cons, S1, R2. exact Ho.
  Qed.
End Regions.

(* ---------- the initial state of a race-free program satisfies the invariant ------------------------------- *)
Lemma init2_inv : forall obody prog nl nm no, race_free2_b obody no prog = true -> Inv2 obody (init2 prog nl nm no).
Proof.
  intros obody prog nl nm no H. unfold race_free2_b in H. apply andb_true_iff in H. destruct H as [Hp Hg].
  assert (Hthr : forall t ct, nth_error (thr2 (init2 prog nl nm no)) t = Some ct ->
            exists c, nth_error prog t = Some c /\ ct = ([], c)).
  { simpl. intros t ct Ht. rewrite nth_error_map in Ht. destruct (nth_error prog t); inversion Ht. eauto. }
  constructor.
  - intros t u ct cu Htu Ht Hu.
    destruct (Hthr _ _ Ht) as (c1 & E1 & ->). destruct (Hthr _ _ Hu) as (c2 & E2 & ->). simpl.
    rewrite forallb_forall in Hp.
    pose proof (nth_error_lt _ _ _ _ E1) as L1. pose proof (nth_error_lt _ _ _ _ E2) as L2.
    rewrite map_length in Hp.
    assert (In t (seq 0 (length prog))) as It by (apply in_seq; lia).
    assert (In u (seq 0 (length prog))) as Iu by (apply in_seq; lia).
    specialize (Hp t It). rewrite forallb_forall in Hp. specialize (Hp u Iu).
    apply orb_true_iff in Hp. destruct Hp as [Hp|Hp]; [apply Nat.eqb_eq in Hp; congruence|].
    change (@nil (list lk * access)) with (annot [] []) in Hp.
    rewrite !map_nth in Hp.
    rewrite (nth_error_nth _ _ [] E1), (nth_error_nth _ _ [] E2) in Hp. exact Hp.
  - intros t ct m Ht Hin. destruct (Hthr _ _ Ht) as (c & _ & ->). simpl in Hin. contradiction.
  - intros t ct m Ht Hin. destruct (Hthr _ _ Ht) as (c & _ & ->). simpl in Hin. contradiction.
  - intros m l w Hm Hw u. simpl in Hm. apply nth_error_In in Hm. apply repeat_spec in Hm. subst. discriminate.
  - intros o Ho. right. intros t ct Ht. destruct (Hthr _ _ Ht) as (c & E & ->). simpl.
    simpl in Ho. rewrite repeat_length in Ho.
    rewrite forallb_forall in Hg. assert (In o (seq 0 no)) as Io by (apply in_seq; lia).
    specialize (Hg o Io). rewrite forallb_forall in Hg. apply Hg. eapply nth_error_In; eauto.
Qed.

Lemma finished2_b_spec : forall st, finished2_b st = true -> finished2 st.
Proof.
  unfold finished2_b, finished2. intros st H ts Hin. rewrite forallb_forall in H. specialize (H ts Hin).
  destruct (snd ts); [reflexivity|discriminate].
Qed.
