(* C20 - the logic of sharing.  Model only (no proofs in this file).

   A public operation is a list of BLOCKS over abstract shared locations, mutexes and sync.Once
   objects (all numbered):

     Sec ms body   lock every mutex of ms, perform the accesses of body one by one, unlock them
                   ("mu.Lock(); defer mu.Unlock(); ..."; a nested acquisition "a.Lock(); b.Lock()" with a
                   fixed order is modelled as one acquisition of [a; b])
     Free a        one access outside any lock
     OnceDo o      o.Do(init): the first call performs the writes of [obody o]; every call returns
                   after the initialisation has happened (contract of sync.Once: atomic for callers)

   A thread (goroutine) is a list of blocks; a program is a list of threads.  The machine executes
   MICRO-STEPS: acquire | one access | release | a free access | a Once call.  A schedule is a list of
   thread numbers: each entry lets that thread perform its next micro-step ([step] is None when the
   thread is blocked on a held mutex or has finished: such a schedule is not an execution).

   Observable state: the shared store, and for each thread the list of values it has read (its
   results); a write stores a value that is an arbitrary function [wf] of the thread and of what it
   has read so far (so "x++" is Rd x; Wr x).

   What the Go scheduler and memory model add (preemption inside an access, weak memory for
   unsynchronised accesses) is outside this model: see LEVEL_NOTE of checks/c20.py. *)
From Coq Require Import List Arith Bool.
Import ListNotations.

Inductive access := Rd (l : nat) | Wr (l : nat).
Inductive block :=
| Sec (ms : list nat) (body : list access)
| Free (a : access)
| OnceDo (o : nat).

Definition loc_of (a : access) : nat := match a with Rd l => l | Wr l => l end.
Definition is_write (a : access) : bool := match a with Wr _ => true | Rd _ => false end.

(* two accesses conflict: same location, at least one of them a write *)
Definition conflict (a b : access) : bool :=
  (loc_of a =? loc_of b) && (is_write a || is_write b).

(* ---------- machine state ------------------------------------------------------------------ *)
(* thread state: (inside the section at the head of the code?, remaining code) *)
Definition tstate := (bool * list block)%type.

Record mem := mkMem {
  store : list nat;              (* shared locations *)
  logs : list (list nat);        (* per thread: values read so far *)
  held : list (option nat);      (* per mutex: holder *)
  odone : list bool }.           (* per Once: done flag *)

Record pstate := mkP { thr : list tstate; pmem : mem }.

Fixpoint upd {A} (n : nat) (x : A) (l : list A) : list A :=
  match l, n with
  | [], _ => []
  | _ :: t, O => x :: t
  | h :: t, S n' => h :: upd n' x t
  end.

Fixpoint set_all {A} (ms : list nat) (x : A) (l : list A) : list A :=
  match ms with
  | [] => l
  | m :: r => upd m x (set_all r x l)
  end.

Definition is_free (h : list (option nat)) (m : nat) : bool :=
  (m <? length h) && match nth m h None with None => true | Some _ => false end.

Definition can_acquire (ms : list nat) (h : list (option nat)) : bool := forallb (is_free h) ms.

(* ---------- micro-steps ----------------------------------------------------------------------- *)
Inductive eff := EAcq (ms : list nat) | ERel (ms : list nat) | EAcc (a : access) | EOnce (o : nat).

(* thread-local: which micro-step comes next, and the thread state after it *)
Definition next (ts : tstate) : option (eff * tstate) :=
  match ts with
  | (false, Sec ms body :: r) => Some (EAcq ms, (true, Sec ms body :: r))
  | (true, Sec ms (a :: b) :: r) => Some (EAcc a, (true, Sec ms b :: r))
  | (true, Sec ms [] :: r) => Some (ERel ms, (false, r))
  | (false, Free a :: r) => Some (EAcc a, (false, r))
  | (false, OnceDo o :: r) => Some (EOnce o, (false, r))
  | _ => None
  end.

Section Machine.
  Variable wf : nat -> list nat -> nat.         (* value a thread writes, from what it has read *)
  Variable obody : nat -> list (nat * nat).     (* writes performed by the initialiser of each Once *)

  Definition do_access (t : nat) (a : access) (m : mem) : mem :=
    match a with
    | Rd l => mkMem (store m) (upd t (nth t (logs m) [] ++ [nth l (store m) 0]) (logs m)) (held m) (odone m)
    | Wr l => mkMem (upd l (wf t (nth t (logs m) [])) (store m)) (logs m) (held m) (odone m)
    end.

  Definition do_writes (ws : list (nat * nat)) (s : list nat) : list nat :=
    fold_left (fun s lv => upd (fst lv) (snd lv) s) ws s.

  Definition apply (t : nat) (e : eff) (m : mem) : option mem :=
    match e with
    | EAcq ms => if can_acquire ms (held m)
                 then Some (mkMem (store m) (logs m) (set_all ms (Some t) (held m)) (odone m)) else None
    | ERel ms => Some (mkMem (store m) (logs m) (set_all ms None (held m)) (odone m))
    | EAcc a => Some (do_access t a m)
    | EOnce o =>
      if o <? length (odone m) then
        if nth o (odone m) false then Some m
        else Some (mkMem (do_writes (obody o) (store m)) (logs m) (held m) (upd o true (odone m)))
      else None
    end.

  Definition step (st : pstate) (t : nat) : option pstate :=
    match nth_error (thr st) t with
    | None => None
    | Some ts =>
      match next ts with
      | None => None
      | Some (e, ts') =>
        match apply t e (pmem st) with
        | None => None
        | Some m' => Some (mkP (upd t ts' (thr st)) m')
        end
      end
    end.

  Fixpoint run (st : pstate) (sched : list nat) : option pstate :=
    match sched with
    | [] => Some st
    | t :: r => match step st t with None => None | Some st' => run st' r end
    end.

  (* number of micro-steps of the block a thread is about to start *)
  Definition block_steps (b : block) : nat :=
    match b with Sec _ body => S (S (length body)) | Free _ => 1 | OnceDo _ => 1 end.

  (* SEQUENTIAL execution: thread t performs its next block from start to end with nobody in between *)
  Definition atomic_block (st : pstate) (t : nat) : option pstate :=
    match nth_error (thr st) t with
    | Some (false, b :: _) => run st (repeat t (block_steps b))
    | _ => None
    end.

  Fixpoint run_atomic (st : pstate) (order : list nat) : option pstate :=
    match order with
    | [] => Some st
    | t :: r => match atomic_block st t with None => None | Some st' => run_atomic st' r end
    end.
End Machine.

Definition init (prog : list (list block)) (nloc nmut nonce : nat) : pstate :=
  mkP (map (fun c => (false, c)) prog)
      (mkMem (repeat 0 nloc) (repeat [] (length prog)) (repeat None nmut) (repeat false nonce)).

Definition finished (st : pstate) : Prop := forall ts, In ts (thr st) -> ts = (false, []).
Definition finished_b (st : pstate) : bool :=
  forallb (fun ts => match ts with (false, []) => true | _ => false end) (thr st).

(* ---------- the race-freedom hypothesis (decidable) ------------------------------------------------ *)
(* every access of a piece of code together with the mutexes held around it *)
Definition flat_block (b : block) : list (list nat * access) :=
  match b with
  | Sec ms body => map (fun a => (ms, a)) body
  | Free a => [([], a)]
  | OnceDo _ => []
  end.
Definition flat (code : list block) : list (list nat * access) := flat_map flat_block code.

Definition share_mutex (ms1 ms2 : list nat) : bool := existsb (fun m => existsb (Nat.eqb m) ms2) ms1.

(* two pieces of code run by different threads: every conflicting pair is inside sections of a common mutex *)
Definition pair_ok (c1 c2 : list (list nat * access)) : bool :=
  forallb (fun x => forallb (fun y => negb (conflict (snd x) (snd y)) || share_mutex (fst x) (fst y)) c2) c1.

(* locations initialised by Once o are not touched by a thread before its own o.Do(...) *)
Definition touches (locs : list nat) (b : block) : bool :=
  existsb (fun x => existsb (Nat.eqb (loc_of (snd x))) locs) (flat_block b).

Fixpoint guarded (locs : list nat) (o : nat) (code : list block) : bool :=
  match code with
  | [] => true
  | OnceDo o' :: r => if o' =? o then true else guarded locs o r
  | b :: r => negb (touches locs b) && guarded locs o r
  end.

Definition all_pairs_ok (l : list (list (list nat * access))) : bool :=
  forallb (fun i => forallb (fun j => (i =? j) || pair_ok (nth i l []) (nth j l []))
                            (seq 0 (length l))) (seq 0 (length l)).

Definition race_free_b (obody : nat -> list (nat * nat)) (nonce : nat) (prog : list (list block)) : bool :=
  all_pairs_ok (map flat prog)
  && forallb (fun o => forallb (guarded (map fst (obody o)) o) prog) (seq 0 nonce).

(* ---------- enumeration of schedules (used by Examples only) ----------------------------------------- *)
Fixpoint all_scheds (nthreads len : nat) : list (list nat) :=
  match len with
  | O => [[]]
  | S n => flat_map (fun s => map (fun t => t :: s) (seq 0 nthreads)) (all_scheds nthreads n)
  end.
