(* C20 - the access table of gmsm, written by hand from the code as it is now (no proofs here).

   One row per operation the property names, in the language of Conc/NestModel.v: locks are taken and
   released where the code takes and releases them (nested sections are nested: Conn.Read sends alerts under
   c.out while holding c.in; Conn.Write performs its atomic load inside the c.out section), RLock is a Shared
   acquisition.  Locations are whole objects / field groups (an abstraction: two fields of one group are never
   protected differently in the code).  An atomic variable is a location of its own protected by a virtual
   mutex held exactly around each atomic operation (the A_ names below).
   "Run at most once, everybody waits, later callers see the result" constructs are sync.Once objects:
     O_curve     sm2.initonce                          (sm2/p256.go:55,83)
     O_cfg       Config.serverInitOnce                 (gmtls/common.go:540,580; handshake_server.go:55 ...)
     O_conn_hs   Conn.Handshake: handshakeMutex + handshakeComplete() flag; the first caller runs the
                 handshake, every other caller blocks on handshakeMutex and then sees it complete
                 (gmtls/conn.go Handshake).  Renegotiation (client only, off by default) is outside.
     O_sysroots  x509.once (system roots)              (x509/cert_pool.go:59)
     O_suites    gmtls.once (default cipher suites)    (gmtls/common.go:970)
     O_gmcas     gmtls.initonce (getCAs)               (gmtls/gm_support.go:88-104)
   Each row names the race-detector scenario of harness/cmd/c20 that exercises it. *)
From Coq Require Import List Arith Bool.
From GmsmVerif Require Import Conc.AccessModel Conc.NestModel.
Import ListNotations.

(* ---- locations ---- *)
Definition L_sm4_subkeys := 0.   (* Sm4Cipher.subkeys of ONE shared cipher object; written by NewCipher before sharing *)
Definition L_sm4_IV := 1.        (* package variable sm4.IV (the slice header; sm4/sm4.go:30), written by SetIV under ivMu, fetched by the
                                    helpers through currentIV() under its read lock.  The 16 bytes behind it are never written by
                                    the package (SetIV stores the caller's slice: the caller must not change it afterwards) *)
Definition L_sm4_tables := 2.    (* sbox, sbox0..3, ck, fk: never written *)
Definition L_curve := 3.         (* package variable sm2.sm2P256 (CurveParams, a, b, gx, gy) *)
Definition L_sm2_tables := 4.    (* sm2P256Precomputed, sm2P256Carry, sm2P256Factor, one, two: never written *)
Definition L_x509_cea := 5.      (* package variable x509.ContentEncryptionAlgorithm (x509/pkcs7.go:816) *)
Definition L_x509_tables := 6.   (* OID tables, signatureAlgorithmDetails, hashes ...: written only by RegisterHash (registration
                                    at start-up, caller-synchronised) *)
Definition L_pool := 7.          (* one shared CertPool: bySubjectKeyId, byName, certs *)
Definition L_cert := 8.          (* shared parsed *Certificate objects *)
Definition L_cfg_fields := 9.    (* Config: exported fields incl. SessionTicketKey, SessionTicketsDisabled *)
Definition L_cfg_keys := 10.     (* Config.sessionTicketKeys *)
Definition L_lru := 11.          (* lruSessionCache: m, q *)
Definition L_conn_hs := 12.      (* Conn: handshakeErr, vers, haveVers, cipherSuite, peerCertificates, ... *)
Definition L_conn_in := 13.      (* Conn.in (halfConn), rawInput, input, hand, warnCount *)
Definition L_conn_out := 14.     (* Conn.out (halfConn), sendBuf, closeNotifySent, closeNotifyErr, bytesSent, tmp *)
Definition L_conn_ac := 15.      (* Conn.activeCall (atomic) *)
Definition L_conn_st := 16.      (* Conn.handshakeStatus (atomic) *)
Definition L_conn_const := 17.   (* Conn.conn, isClient, config: constant *)
Definition L_sysroots := 18.     (* x509.systemRoots, systemRootsErr *)
Definition L_suites := 19.       (* gmtls.varDefaultCipherSuites *)
Definition L_cfg_key_elems := 20. (* the ticketKey values behind Config.sessionTicketKeys: handshakes read them outside
                                     Config.mutex ("constant once created": ticketKeys() hands out the slice), nobody writes them *)
Definition L_gmcas := 21.        (* package variable gmtls.certCAs: its initialiser (gm_support.go getCAs, initonce) stands after a
                                    "return nil" and never runs; the translator is flow-insensitive and reports it *)
Definition n_loc := 22.

(* ---- mutexes ---- *)
Definition M_cfg := 0.     (* Config.mutex (sync.RWMutex: RLock = Shared, Lock = Excl) *)
Definition M_lru := 1.     (* lruSessionCache.Mutex *)
Definition M_in := 2.      (* Conn.in.Mutex *)
Definition M_out := 3.     (* Conn.out.Mutex *)
Definition A_ac := 4.      (* virtual: atomic operations on activeCall *)
Definition A_st := 5.      (* virtual: atomic operations on handshakeStatus *)
Definition M_hs := 6.      (* Conn.handshakeMutex *)
Definition M_iv := 7.      (* sm4.ivMu (sync.RWMutex around the package variable sm4.IV, since /repo 0fa6cb9) *)
Definition n_mut := 8.

(* ---- Once objects and what their initialisers write ---- *)
Definition O_curve := 0.
Definition O_cfg := 1.
Definition O_conn_hs := 2.
Definition O_sysroots := 3.
Definition O_suites := 4.
Definition O_gmcas := 5.
Definition n_once := 6.

Definition gm_obody (o : nat) : list (nat * nat) :=
  match o with
  | 0 => [(L_curve, 1)]                                  (* initP256Sm2 *)
  | 1 => [(L_cfg_fields, 1)]                             (* serverInit: SessionTicketKey, SessionTicketsDisabled;
                                                            sessionTicketKeys is installed under Config.mutex
                                                            since 43260b6: see cfg_once below *)
  | 2 => [(L_conn_hs, 1); (L_conn_in, 1); (L_conn_out, 1)]  (* the handshake: versions, suites, cipher states *)
  | 3 => [(L_sysroots, 1)]
  | 4 => [(L_suites, 1)]
  | 5 => [(L_gmcas, 1)]
  | _ => []
  end.

(* ---- operations ---- *)
Inductive op :=
| sm2_genkey | sm2_sign | sm2_verify | sm2_encrypt | sm2_decrypt | sm2_key_exchange | curve_first_use
| sm3_new_hash
| sm4_new_cipher | sm4_encrypt | sm4_decrypt | sm4_helper_ecb | sm4_helper_iv | sm4_gcm_helper
| sm4_set_iv                       (* SetIV at any time, also while other goroutines use the helpers (since /repo 0fa6cb9) *)
| x509_parse_cert | x509_parse_pkcs7 | x509_parse_key | x509_pkcs7_encrypt | pkcs12_codec
| x509_set_cea                     (* caller-synchronised, NOT in the claim: the application's own assignment to the exported variable
                                      x509.ContentEncryptionAlgorithm (x509/pkcs7.go:840; there is no setter); the same goes for a
                                      direct assignment "sm4.IV = ..." that bypasses SetIV.  Scenario pkcs7_cea changes the
                                      selector between the concurrent phases only *)
| certpool_add                     (* building the pool: caller-synchronised, NOT in the claim *)
| config_setup                     (* BuildNameToCertificate, GMSupport.EnableMixMode: configuration before use, NOT in the claim *)
| x509_cert_fill                   (* FromX509Certificate, CreateCertificate (template.AuthorityKeyId): caller's object, NOT in the claim *)
| x509_register_hash               (* RegisterHash: start-up registration, NOT in the claim *)
| cert_verify | cert_verify_sysroots
| config_first_use | config_ticket_keys | config_clone | config_read_fields
| config_set_ticket_keys           (* SetSessionTicketKeys at any time, also during the first use of the Config *)
| default_cipher_suites
| lru_put | lru_get
| conn_handshake | conn_read | conn_write | conn_close | conn_state.

Scheme Equality for op.     (* op_beq, op_eq_dec *)

Definition rd (l : nat) : nitem := NAcc (Rd l).
Definition wr (l : nat) : nitem := NAcc (Wr l).
Definition locked (md : mode) (m : nat) (body : list nitem) : list nitem := NLock md m :: body ++ [NUnlock md m].
Definition atomic_rmw (a l : nat) : list nitem := locked Excl a [rd l; wr l].
Definition atomic_load (a l : nat) : list nitem := locked Excl a [rd l].
Definition atomic_store (a l : nat) : list nitem := locked Excl a [wr l].

(* c.serverInitOnce.Do(func() { c.serverInit(nil) }) (gmtls/common.go:580,622-659): under the Once the exported
   fields are written; the caller that runs the initialiser also calls ticketKeys() (RLock) and installs the
   initial keys under Config.mutex only if none have been set meanwhile ("c.mutex.Lock(); if len(...) == 0 {...}").
   The two mutex sections are listed for every caller of Do (over-approximation: for the callers that find the
   Once done they stand for a locked read that keeps the keys). *)
Definition cfg_once : list nitem :=
  [NOnce O_cfg] ++ locked Shared M_cfg [rd L_cfg_keys] ++ locked Excl M_cfg [rd L_cfg_keys; wr L_cfg_keys].

Definition curve_use : list nitem := [NOnce O_curve; rd L_curve; rd L_sm2_tables].

(* c.Handshake() (gmtls/conn.go:1270-1312): handshakeMutex; handshakeErr / handshakeComplete() are looked at; the first
   caller takes c.in and runs the handshake, everybody else finds it done.  The handshake is the initialiser of
   O_conn_hs (it writes the three Conn groups, c.out also outside c.out's mutex - nobody else can hold it then); what
   it does to state that is NOT the connection's own is written out here, under handshakeMutex and c.in, because
   other connections and the Config's owner touch that state concurrently:
     the atomic store to handshakeStatus                                   (handshake_client.go, handshake_server*.go)
     the first use of the Config and its ticket keys (cfg_once, ticketKeys(), encryptTicket / decryptTicket)
     the default cipher suites, getCAs, the curve, the system roots, the verification of the peer's chain
     the client session cache (Get before the hello, Put after the Finished)
     the records sent (c.out's mutex is taken by writeRecord and sendAlert) *)
Definition first_handshake_body : list nitem :=
  atomic_store A_st L_conn_st
  ++ cfg_once ++ locked Shared M_cfg [rd L_cfg_keys] ++ [rd L_cfg_key_elems; rd L_cfg_fields]
  ++ [NOnce O_suites; rd L_suites; NOnce O_gmcas; rd L_gmcas] ++ curve_use ++ [NOnce O_sysroots; rd L_sysroots]
  ++ [rd L_pool; rd L_cert; rd L_x509_tables]
  ++ locked Excl M_lru [rd L_lru; wr L_lru]
  ++ locked Excl M_out [rd L_conn_out; wr L_conn_out].
Definition conn_Handshake : list nitem :=
  locked Excl M_hs ([NOnce O_conn_hs; rd L_conn_hs] ++ locked Excl M_in first_handshake_body).

Definition code (o : op) : list nitem :=
  match o with
  (* package-level functions on separate data: scenario sm2_ops *)
  | sm2_genkey | sm2_sign | sm2_verify | sm2_encrypt | sm2_decrypt => curve_use
  (* KeyExchangeA / KeyExchangeB with shared long-term keys and identifiers: scenario sm2_keyexchange *)
  | sm2_key_exchange => curve_use
  (* sm2.P256Sm2(): scenarios curve_first, curve_first_mixed *)
  | curve_first_use => [NOnce O_curve; rd L_curve]
  (* sm3.New + Write/Sum/Reset on the caller's own object, Sm3Sum: no shared location; scenario sm3_hash *)
  | sm3_new_hash => []
  (* sm4: scenarios sm4_shared, sm4_first *)
  | sm4_new_cipher => [rd L_sm4_tables]
  | sm4_encrypt | sm4_decrypt => [rd L_sm4_subkeys; rd L_sm4_tables]                 (* scratch is local since 6638fbe *)
  | sm4_helper_ecb => [rd L_sm4_tables]
  | sm4_helper_iv => locked Shared M_iv [rd L_sm4_IV] ++ [rd L_sm4_tables]                                (* Sm4Cbc, Sm4CFB, Sm4OFB: scenarios sm4_iv_readers, sm4_iv_set *)
  | sm4_gcm_helper => [rd L_sm4_tables]                                              (* Sm4GCM, GCMEncrypt, GCMDecrypt on one key: scenario sm4_gcm *)
  | sm4_set_iv => locked Excl M_iv [wr L_sm4_IV]                                      (* scenario sm4_iv_set *)
  (* x509: scenario x509_parse (ber.go has no package counter since c7c93cc) *)
  | x509_parse_cert | x509_parse_pkcs7 | x509_parse_key => curve_use ++ [rd L_x509_tables]
  | x509_pkcs7_encrypt => curve_use ++ [rd L_x509_cea; rd L_x509_tables]             (* scenarios x509_parse, pkcs7_cea *)
  (* pkcs12.Encode / Decode / DecodeAll / ToPEM with a shared key, certificate and container: scenario pkcs12_codec *)
  | pkcs12_codec => curve_use ++ [rd L_cert; rd L_x509_tables]
  | x509_set_cea => [wr L_x509_cea]
  | certpool_add => curve_use ++ [rd L_pool; wr L_pool]
  | config_setup => curve_use ++ [wr L_cfg_fields]
  | x509_cert_fill => curve_use ++ [wr L_cert]
  | x509_register_hash => [wr L_x509_tables]
  (* Certificate.Verify with one shared pool and shared certificates: scenario certpool_verify *)
  | cert_verify => curve_use ++ [rd L_pool; rd L_cert; rd L_x509_tables]
  | cert_verify_sysroots => [NOnce O_sysroots; rd L_sysroots]
  (* Config: scenarios hs_gm, hs_tls, hs_auto, cfg_first_rotate (rotation during the first use) *)
  | config_first_use => cfg_once
  | config_ticket_keys => cfg_once ++ locked Shared M_cfg [rd L_cfg_keys] ++ [rd L_cfg_key_elems]   (* ticketKeys(); encryptTicket/decryptTicket *)
  | config_clone => cfg_once ++ locked Shared M_cfg [rd L_cfg_keys] ++ [rd L_cfg_fields]
  | config_read_fields => cfg_once ++ [rd L_cfg_fields]
  | config_set_ticket_keys => locked Excl M_cfg [wr L_cfg_keys]
  | default_cipher_suites => [NOnce O_suites; rd L_suites]
  (* LRU client session cache: scenarios lru_cache, hs_* *)
  | lru_put | lru_get => locked Excl M_lru [rd L_lru; wr L_lru]
  (* one Conn: scenarios conn_rwc_gm, conn_rwc_tls; conn_alert_gm, conn_alert_tls (alerts sent from the read path during Writes) *)
  | conn_handshake =>
      conn_Handshake ++ [rd L_conn_const]
  | conn_read =>
      conn_Handshake ++ [rd L_conn_const]
      ++ locked Excl M_in ([rd L_conn_hs; rd L_conn_in; wr L_conn_in]
                           ++ locked Excl M_out [rd L_conn_hs; rd L_conn_out; wr L_conn_out]      (* alerts sent from the read path *)
                           ++ [rd L_conn_in; wr L_conn_in])
  | conn_write =>
      atomic_rmw A_ac L_conn_ac                                         (* CAS x -> x+2 *)
      ++ conn_Handshake ++ [rd L_conn_const]
      ++ locked Excl M_out (atomic_load A_st L_conn_st ++ [rd L_conn_hs; rd L_conn_out; wr L_conn_out])
      ++ atomic_rmw A_ac L_conn_ac                                      (* add -2 *)
  | conn_close =>
      atomic_rmw A_ac L_conn_ac                                         (* CAS x -> x|1 *)
      ++ atomic_load A_st L_conn_st
      ++ [NOnce O_conn_hs]        (* closeNotify runs only if the load returned 1 = the handshake has completed *)
      ++ locked Excl M_out [rd L_conn_hs; rd L_conn_out; wr L_conn_out]
      ++ [rd L_conn_const]
  | conn_state =>                 (* ConnectionState, OCSPResponse, VerifyHostname: under handshakeMutex, fields read once complete *)
      locked Excl M_hs (atomic_load A_st L_conn_st ++ [NOnce O_conn_hs; rd L_conn_hs])
  end.

(* the operations the property claims to be safe against each other (and against themselves) *)
Definition claimed_ops : list op :=
  [sm2_genkey; sm2_sign; sm2_verify; sm2_encrypt; sm2_decrypt; sm2_key_exchange; curve_first_use; sm3_new_hash;
   sm4_new_cipher; sm4_encrypt; sm4_decrypt; sm4_helper_ecb; sm4_helper_iv; sm4_gcm_helper; sm4_set_iv;
   x509_parse_cert; x509_parse_pkcs7; x509_parse_key; x509_pkcs7_encrypt; pkcs12_codec;
   cert_verify; cert_verify_sysroots;
   config_first_use; config_ticket_keys; config_clone; config_read_fields; config_set_ticket_keys;
   default_cipher_suites; lru_put; lru_get;
   conn_handshake; conn_read; conn_write; conn_close; conn_state].

(* every operation of the table except the caller-synchronised writers *)
Definition unclaimed_ops : list op := [x509_set_cea; certpool_add; config_setup; x509_cert_fill; x509_register_hash].

(* net effect of a piece of code on the list of held locks *)
Fixpoint final_hl (hl : list lk) (c : list nitem) : list lk :=
  match c with
  | [] => hl
  | NLock md m :: r => final_hl ((md, m) :: hl) r
  | NUnlock md m :: r => final_hl (drop_lk (md, m) hl) r
  | _ :: r => final_hl hl r
  end.

Definition ops_ok (ops : list op) : bool :=
  forallb (fun a => forallb (fun b => pair_ok2 (annot [] (code a)) (annot [] (code b))) ops) ops
  && forallb (fun o => forallb (fun a => guarded2 (map fst (gm_obody o)) o (code a)) ops) (seq 0 n_once)
  && forallb (fun a => match final_hl [] (code a) with [] => true | _ => false end) ops.   (* every row releases what it takes *)

(* ---- lock order ----
   The order in which the rows take mutexes while holding others (Conc/LockOrder.v): handshakeMutex, then c.in, then
   c.out, then the Config's or the cache's mutex; an atomic operation (virtual mutex) is innermost.  Config.mutex and
   the cache mutex are never held together, so they share a rank. *)
Definition gm_rank (m : nat) : nat :=
  match m with
  | 6 => 0          (* M_hs *)
  | 2 => 1          (* M_in *)
  | 3 => 2          (* M_out *)
  | 0 | 1 | 7 => 4  (* M_cfg, M_lru, M_iv: never held together *)
  | _ => 6          (* A_ac, A_st *)
  end.
Definition gm_rank_bound := 7.
Definition all_ops : list op := claimed_ops ++ unclaimed_ops.

(* a program: every goroutine performs any sequence of the given operations on the shared objects *)
Definition program_of (threads : list (list op)) : list (list nitem) := map (flat_map code) threads.
