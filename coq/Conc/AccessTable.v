(* C20 - the access table of gmsm, written by hand from the code as it is now (no proofs here).

   One row per operation the property names.  Locations are whole objects / fields groups (an
   abstraction: two fields of one group are never protected differently in the code).  An atomic
   variable is a location of its own protected by a virtual mutex held exactly around each atomic
   operation (the A_ names below).  When the code performs an atomic operation inside a critical section, the row
   lists it next to that section: the table is about which mutexes are held at which access.
   "Run at most once, everybody waits, later callers see the result" constructs are sync.Once objects:
     O_curve     sm2.initonce                          (sm2/p256.go:55,83)
     O_cfg       Config.serverInitOnce                 (gmtls/common.go:540,580; handshake_server.go:55 ...)
     O_conn_hs   Conn.Handshake: handshakeMutex + handshakeComplete() flag; the first caller runs the
                 handshake, every other caller blocks on handshakeMutex and then sees it complete
                 (gmtls/conn.go Handshake).  Renegotiation (client only, off by default) is outside.
     O_sysroots  x509.once (system roots)              (x509/cert_pool.go:59)
     O_suites    gmtls.once (default cipher suites)    (gmtls/common.go:970)
   Each row names the race-detector scenario of harness/cmd/c20 that exercises it. *)
From Coq Require Import List Arith Bool.
From GmsmVerif Require Import Conc.AccessModel.
Import ListNotations.

(* ---- locations ---- *)
Definition L_sm4_subkeys := 0.   (* Sm4Cipher.subkeys of ONE shared cipher object; written by NewCipher before sharing *)
Definition L_sm4_IV := 1.        (* package variable sm4.IV (sm4/sm4.go:30), written by SetIV *)
Definition L_sm4_tables := 2.    (* sbox, sbox0..3, ck, fk: never written *)
Definition L_curve := 3.         (* package variable sm2.sm2P256 (CurveParams, a, b, gx, gy) *)
Definition L_sm2_tables := 4.    (* sm2P256Precomputed, sm2P256Carry, sm2P256Factor, one, two: never written *)
Definition L_x509_cea := 5.      (* package variable x509.ContentEncryptionAlgorithm (x509/pkcs7.go:816) *)
Definition L_x509_tables := 6.   (* OID tables, signatureAlgorithmDetails ...: never written *)
Definition L_pool := 7.          (* one shared CertPool: bySubjectKeyId, byName, certs *)
Definition L_cert := 8.          (* shared parsed *Certificate objects *)
Definition L_cfg_fields := 9.    (* Config: exported fields incl. SessionTicketKey, SessionTicketsDisabled *)
Definition L_cfg_keys := 10.     (* Config.sessionTicketKeys *)
Definition L_lru := 11.          (* lruSessionCache: m, q *)
Definition L_conn_hs := 12.      (* Conn: handshakeErr, vers, haveVers, cipherSuite, peerCertificates, ... *)
Definition L_conn_in := 13.      (* Conn.in (halfConn), rawInput, input, hand, warnCount *)
Definition L_conn_out := 14.     (* Conn.out (halfConn), sendBuf, closeNotifySent, closeNotifyErr, bytesSent, tmp *)
Definition L_conn_ac := 15.      (* Conn.activeCall (atomic) *)
Definition L_conn_st := 16.      (* Conn.handshakeStatus (atomic) *)
Definition L_conn_const := 17.   (* Conn.conn, isClient, config: constant *)
Definition L_sysroots := 18.     (* x509.systemRoots, systemRootsErr *)
Definition L_suites := 19.       (* gmtls.varDefaultCipherSuites *)
Definition n_loc := 20.

(* ---- mutexes ---- *)
Definition M_cfg := 0.     (* Config.mutex (RWMutex; readers and writers both modelled as holders) *)
Definition M_lru := 1.     (* lruSessionCache.Mutex *)
Definition M_in := 2.      (* Conn.in.Mutex *)
Definition M_out := 3.     (* Conn.out.Mutex *)
Definition A_ac := 4.      (* virtual: atomic operations on activeCall *)
Definition A_st := 5.      (* virtual: atomic operations on handshakeStatus *)
Definition n_mut := 6.

(* ---- Once objects and what their initialisers write ---- *)
Definition O_curve := 0.
Definition O_cfg := 1.
Definition O_conn_hs := 2.
Definition O_sysroots := 3.
Definition O_suites := 4.
Definition n_once := 5.

Definition gm_obody (o : nat) : list (nat * nat) :=
  match o with
  | 0 => [(L_curve, 1)]                                  (* initP256Sm2 *)
  | 1 => [(L_cfg_fields, 1)]                             (* serverInit: SessionTicketKey, SessionTicketsDisabled;
                                                            sessionTicketKeys is installed under Config.mutex
                                                            since 43260b6: see cfg_once below *)
  | 2 => [(L_conn_hs, 1); (L_conn_in, 1); (L_conn_out, 1)]  (* the handshake: versions, suites, cipher states *)
  | 3 => [(L_sysroots, 1)]
  | 4 => [(L_suites, 1)]
  | _ => []
  end.

(* ---- operations ---- *)
Inductive op :=
| sm2_genkey | sm2_sign | sm2_verify | sm2_encrypt | sm2_decrypt | curve_first_use
| sm3_new_hash
| sm4_new_cipher | sm4_encrypt | sm4_decrypt | sm4_helper_ecb | sm4_helper_iv
| sm4_set_iv                       (* caller-synchronised global: NOT in the claim *)
| x509_parse_cert | x509_parse_pkcs7 | x509_parse_key | x509_pkcs7_encrypt
| x509_set_cea                     (* caller-synchronised global: NOT in the claim *)
| certpool_add                     (* building the pool: caller-synchronised, NOT in the claim *)
| cert_verify | cert_verify_sysroots
| config_first_use | config_ticket_keys | config_clone | config_read_fields
| config_set_ticket_keys           (* SetSessionTicketKeys at any time, also during the first use of the Config *)
| default_cipher_suites
| lru_put | lru_get
| conn_handshake | conn_read | conn_write | conn_close | conn_state.

(* c.serverInitOnce.Do(func() { c.serverInit(nil) }) (gmtls/common.go:580,622-659): under the Once the exported
   fields are written; the caller that runs the initialiser also calls ticketKeys() (RLock) and installs the
   initial keys under Config.mutex only if none have been set meanwhile ("c.mutex.Lock(); if len(...) == 0 {...}").
   The two mutex sections are listed for every caller of Do (over-approximation: for the callers that find the
   Once done they stand for a locked read that keeps the keys). *)
Definition cfg_once : list block :=
  [OnceDo O_cfg; Sec [M_cfg] [Rd L_cfg_keys]; Sec [M_cfg] [Rd L_cfg_keys; Wr L_cfg_keys]].

Definition curve_use : list block := [OnceDo O_curve; Free (Rd L_curve); Free (Rd L_sm2_tables)].
Definition atomic_rmw (a l : nat) : block := Sec [a] [Rd l; Wr l].
Definition atomic_load (a l : nat) : block := Sec [a] [Rd l].

Definition code (o : op) : list block :=
  match o with
  (* package-level functions on separate data: scenario sm2_ops *)
  | sm2_genkey | sm2_sign | sm2_verify | sm2_encrypt | sm2_decrypt => curve_use
  (* sm2.P256Sm2(): scenarios curve_first, curve_first_mixed *)
  | curve_first_use => [OnceDo O_curve; Free (Rd L_curve)]
  (* sm3.New + Write/Sum/Reset on the caller's own object, Sm3Sum: no shared location; scenario sm3_hash *)
  | sm3_new_hash => []
  (* sm4: scenario sm4_shared *)
  | sm4_new_cipher => [Free (Rd L_sm4_tables)]
  | sm4_encrypt | sm4_decrypt => [Free (Rd L_sm4_subkeys); Free (Rd L_sm4_tables)]   (* scratch is local since 6638fbe *)
  | sm4_helper_ecb => [Free (Rd L_sm4_tables)]
  | sm4_helper_iv => [Free (Rd L_sm4_IV); Free (Rd L_sm4_tables)]                    (* Sm4Cbc, Sm4CFB, Sm4OFB *)
  | sm4_set_iv => [Free (Wr L_sm4_IV)]
  (* x509: scenario x509_parse (ber.go has no package counter since c7c93cc) *)
  | x509_parse_cert | x509_parse_pkcs7 | x509_parse_key => curve_use ++ [Free (Rd L_x509_tables)]
  | x509_pkcs7_encrypt => curve_use ++ [Free (Rd L_x509_cea); Free (Rd L_x509_tables)]
  | x509_set_cea => [Free (Wr L_x509_cea)]
  | certpool_add => [Free (Rd L_pool); Free (Wr L_pool)]
  (* Certificate.Verify with one shared pool and shared certificates: scenario certpool_verify *)
  | cert_verify => curve_use ++ [Free (Rd L_pool); Free (Rd L_cert); Free (Rd L_x509_tables)]
  | cert_verify_sysroots => [OnceDo O_sysroots; Free (Rd L_sysroots)]
  (* Config: scenarios hs_gm, hs_tls, hs_auto, cfg_first_rotate (rotation during the first use) *)
  | config_first_use => cfg_once
  | config_ticket_keys => cfg_once ++ [Sec [M_cfg] [Rd L_cfg_keys]]
  | config_clone => cfg_once ++ [Sec [M_cfg] [Rd L_cfg_keys]; Free (Rd L_cfg_fields)]
  | config_read_fields => cfg_once ++ [Free (Rd L_cfg_fields)]
  | config_set_ticket_keys => [Sec [M_cfg] [Wr L_cfg_keys]]
  | default_cipher_suites => [OnceDo O_suites; Free (Rd L_suites)]
  (* LRU client session cache: scenarios lru_cache, hs_* *)
  | lru_put | lru_get => [Sec [M_lru] [Rd L_lru; Wr L_lru]]
  (* one Conn: scenarios conn_rwc_gm, conn_rwc_tls *)
  | conn_handshake => [OnceDo O_conn_hs; Sec [A_st] [Wr L_conn_st]; Free (Rd L_conn_const)]
  | conn_read =>
      [OnceDo O_conn_hs; Free (Rd L_conn_const);
       Sec [M_in] [Rd L_conn_hs; Rd L_conn_in; Wr L_conn_in];
       Sec [M_out] [Rd L_conn_hs; Rd L_conn_out; Wr L_conn_out]]      (* alerts sent from the read path *)
  | conn_write =>
      [atomic_rmw A_ac L_conn_ac;                                       (* CAS x -> x+2 *)
       OnceDo O_conn_hs; atomic_load A_st L_conn_st; Free (Rd L_conn_const);
       Sec [M_out] [Rd L_conn_hs; Rd L_conn_out; Wr L_conn_out];
       atomic_rmw A_ac L_conn_ac]                                       (* add -2 *)
  | conn_close =>
      [atomic_rmw A_ac L_conn_ac;                                       (* CAS x -> x|1 *)
       atomic_load A_st L_conn_st;
       OnceDo O_conn_hs;          (* closeNotify runs only if the load returned 1 = the handshake has completed *)
       Sec [M_out] [Rd L_conn_hs; Rd L_conn_out; Wr L_conn_out];
       Free (Rd L_conn_const)]
  | conn_state => [OnceDo O_conn_hs; atomic_load A_st L_conn_st]        (* ConnectionState etc. after the handshake *)
  end.

(* the operations the property claims to be safe against each other (and against themselves) *)
Definition claimed_ops : list op :=
  [sm2_genkey; sm2_sign; sm2_verify; sm2_encrypt; sm2_decrypt; curve_first_use; sm3_new_hash;
   sm4_new_cipher; sm4_encrypt; sm4_decrypt; sm4_helper_ecb; sm4_helper_iv;
   x509_parse_cert; x509_parse_pkcs7; x509_parse_key; x509_pkcs7_encrypt;
   cert_verify; cert_verify_sysroots;
   config_first_use; config_ticket_keys; config_clone; config_read_fields; config_set_ticket_keys;
   default_cipher_suites; lru_put; lru_get;
   conn_handshake; conn_read; conn_write; conn_close; conn_state].

(* every operation of the table except the caller-synchronised writers *)
Definition unclaimed_ops : list op := [sm4_set_iv; x509_set_cea; certpool_add].

Definition ops_ok (ops : list op) : bool :=
  forallb (fun a => forallb (fun b => pair_ok (flat (code a)) (flat (code b))) ops) ops
  && forallb (fun o => forallb (fun a => guarded (map fst (gm_obody o)) o (code a)) ops) (seq 0 n_once).

(* a program: every goroutine performs any sequence of the given operations on the shared objects *)
Definition program_of (threads : list (list op)) : list (list block) := map (flat_map code) threads.
