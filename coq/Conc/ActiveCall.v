(* C20 - model of the activeCall interlock of Conn.Write / Conn.Close (gmtls/conn.go:1041-1053, 1208-1231).
   No proofs in this file.

     activeCall int32: low bit = Close has been called; the other bits = 2 * number of goroutines in Write.

     Write:  for { x := atomic.Load(&ac); if x&1 != 0 { return errClosed }
                   if atomic.CAS(&ac, x, x+2) { defer atomic.Add(&ac, -2); break } }
             ... record layer ...
     Close:  for { x = atomic.Load(&ac); if x&1 != 0 { return errClosed }
                   if atomic.CAS(&ac, x, x|1) { break } }
             if x != 0 { return c.conn.Close() }       // a Write is in flight: no close_notify
             closeNotify; c.conn.Close()

   Every atomic operation is one step.  Any number of Write calls and Close calls; a schedule is a list
   of thread names (inl i = i-th Write call, inr j = j-th Close call); a finished call ignores further steps. *)
From Coq Require Import List Arith Bool.
From GmsmVerif Require Import Conc.AccessModel.
Import ListNotations.

Inductive wpc :=
| WStart                 (* before the Load *)
| WLoaded (x : nat)      (* loaded x (even), about to CAS *)
| WIn                    (* CAS succeeded: inside the record layer *)
| WDone                  (* left the record layer (counter decremented), returned *)
| WErrClosed.            (* returned errClosed without entering *)

Inductive cpc :=
| CStart
| CLoaded (x : nat)
| CWon (x : nat)         (* CAS succeeded: this call set the closed bit; x = value before *)
| CDoneQuiet             (* returned after c.conn.Close() without close_notify (x <> 0: a Write was in flight) *)
| CDoneNotify            (* sent close_notify, closed *)
| CErrClosed.            (* returned errClosed: someone else had closed *)

Record cst := mkC {
  ac : nat;
  ws : list wpc;
  cs : list cpc;
  entered_closed : bool }.   (* ghost: some Write entered the record layer while the closed bit was set *)

Definition wstep (s : cst) (i : nat) : cst :=
  match nth_error (ws s) i with
  | Some WStart =>
      if Nat.odd (ac s) then mkC (ac s) (upd i WErrClosed (ws s)) (cs s) (entered_closed s)
      else mkC (ac s) (upd i (WLoaded (ac s)) (ws s)) (cs s) (entered_closed s)
  | Some (WLoaded x) =>
      if ac s =? x
      then mkC (x + 2) (upd i WIn (ws s)) (cs s) (entered_closed s || Nat.odd (ac s))
      else mkC (ac s) (upd i WStart (ws s)) (cs s) (entered_closed s)
  | Some WIn => mkC (ac s - 2) (upd i WDone (ws s)) (cs s) (entered_closed s)
  | _ => s
  end.

Definition cstep (s : cst) (j : nat) : cst :=
  match nth_error (cs s) j with
  | Some CStart =>
      if Nat.odd (ac s) then mkC (ac s) (ws s) (upd j CErrClosed (cs s)) (entered_closed s)
      else mkC (ac s) (ws s) (upd j (CLoaded (ac s)) (cs s)) (entered_closed s)
  | Some (CLoaded x) =>
      if ac s =? x
      then mkC (x + 1) (ws s) (upd j (CWon x) (cs s)) (entered_closed s)      (* x even: x|1 = x+1 *)
      else mkC (ac s) (ws s) (upd j CStart (cs s)) (entered_closed s)
  | Some (CWon x) =>
      mkC (ac s) (ws s) (upd j (if x =? 0 then CDoneNotify else CDoneQuiet) (cs s)) (entered_closed s)
  | _ => s
  end.

Definition astep (s : cst) (t : nat + nat) : cst :=
  match t with inl i => wstep s i | inr j => cstep s j end.

Definition arun (s : cst) (sched : list (nat + nat)) : cst := fold_left astep sched s.

Definition ainit (nw nc : nat) : cst := mkC 0 (repeat WStart nw) (repeat CStart nc) false.

Definition w_in (p : wpc) : bool := match p with WIn => true | _ => false end.
Definition c_won (p : cpc) : bool :=
  match p with CWon _ | CDoneQuiet | CDoneNotify => true | _ => false end.
Definition count {A} (f : A -> bool) (l : list A) : nat := length (filter f l).

Definition closed_bit (s : cst) : bool := Nat.odd (ac s).

(* A Close call that is on the close_notify path: it won the CAS with x = 0 and goes on to closeNotify(), which takes
   c.out's mutex (CWon 0), or has done so (CDoneNotify).  The path with x <> 0 returns c.conn.Close() at once and never
   touches c.out - the lock a Write in flight holds for its whole duration, possibly parked in the transport. *)
Definition on_notify_path (p : cpc) : bool := match p with CWon 0 | CDoneNotify => true | _ => false end.

(* What Close would do if the shortcut were not taken on an established connection (e.g. "x != 0 &&
   !c.handshakeComplete()"): the winner always goes to closeNotify.  Used only for the example showing that the
   shortcut condition matters. *)
Definition cstep_always_notify (s : cst) (j : nat) : cst :=
  match nth_error (cs s) j with
  | Some (CWon _) => mkC (ac s) (ws s) (upd j CDoneNotify (cs s)) (entered_closed s)
  | _ => cstep s j
  end.
