(* C20 - the access table satisfies the hypothesis of race_free_serializable (finite check by
   vm_compute over all pairs of rows, lifted to every program built from the rows). *)
From Coq Require Import List Arith Bool Lia.
From GmsmVerif Require Import Conc.AccessModel Conc.ConcLists Conc.ConcProofs Conc.AccessTable.
Import ListNotations.

Lemma flat_app : forall a b, flat (a ++ b) = flat a ++ flat b.
Proof. intros. unfold flat. apply flat_map_app. Qed.

Lemma in_flat_program : forall x t, In x (flat (flat_map code t)) -> exists o, In o t /\ In x (flat (code o)).
Proof.
  induction t; simpl; intros H; [contradiction|].
  rewrite flat_app in H. apply in_app_or in H. destruct H as [H|H]; eauto.
  destruct (IHt H) as (o & Ho & Hx). eauto.
Qed.

Lemma guarded_app : forall locs o a b, guarded locs o a = true -> guarded locs o b = true -> guarded locs o (a ++ b) = true.
Proof.
  induction a as [|[ms body|x|o'] a IH]; simpl; intros b Ha Hb; auto.
  - apply andb_true_iff in Ha. destruct Ha as [H1 H2]. rewrite H1. simpl. auto.
  - apply andb_true_iff in Ha. destruct Ha as [H1 H2]. rewrite H1. simpl. auto.
  - destruct (o' =? o); auto.
Qed.

Lemma guarded_program : forall locs o t, (forall a, In a t -> guarded locs o (code a) = true) ->
  guarded locs o (flat_map code t) = true.
Proof.
  induction t; simpl; intros H; auto. apply guarded_app; auto.
Qed.

Lemma ops_ok_program : forall ops threads, ops_ok ops = true ->
  (forall t, In t threads -> forall o, In o t -> In o ops) ->
  race_free_b gm_obody n_once (program_of threads) = true.
Proof.
  intros ops threads Hok Hin. unfold ops_ok in Hok. apply andb_true_iff in Hok. destruct Hok as [Hp Hg].
  unfold race_free_b. apply andb_true_iff. split.
  - unfold all_pairs_ok. rewrite forallb_forall. intros i Hi. rewrite forallb_forall. intros j Hj.
    apply in_seq in Hi. apply in_seq in Hj. apply orb_true_iff. right.
    set (l := map flat (program_of threads)) in *.
    assert (Hc : forall k, k < length l -> exists t, In t threads /\ nth k l [] = flat (flat_map code t)).
    { intros k Hk. pose proof (nth_In l [] Hk) as Hn. unfold l, program_of in Hn. rewrite map_map in Hn.
      apply in_map_iff in Hn. destruct Hn as (t & E & Ht).
      exists t. split; auto. unfold l, program_of. rewrite map_map. symmetry. exact E. }
    destruct (Hc i) as (t1 & T1 & ->); [lia|]. destruct (Hc j) as (t2 & T2 & ->); [lia|].
    apply pair_ok_spec. intros x y Hx Hy Hconf.
    destruct (in_flat_program _ _ Hx) as (a & Ha & Hxa). destruct (in_flat_program _ _ Hy) as (b & Hb & Hyb).
    rewrite forallb_forall in Hp. specialize (Hp a (Hin _ T1 _ Ha)). rewrite forallb_forall in Hp.
    specialize (Hp b (Hin _ T2 _ Hb)). apply (proj1 (pair_ok_spec _ _) Hp); auto.
  - rewrite forallb_forall. intros o Ho. rewrite forallb_forall. intros c Hc.
    unfold program_of in Hc. apply in_map_iff in Hc. destruct Hc as (t & <- & Ht).
    apply guarded_program. intros a Ha.
    rewrite forallb_forall in Hg. specialize (Hg o Ho). rewrite forallb_forall in Hg. apply Hg. eauto.
Qed.

Lemma claimed_ops_ok : ops_ok claimed_ops = true.
Proof. vm_compute. reflexivity. Qed.

(* ---- first use of a Config against rotation of the ticket keys, step by step ------------------------------- *)
(* serverInit (gmtls/common.go:622-659, since 43260b6): ticketKeys() under RLock; later, under Lock, the initial
   keys are installed only if none are present.  SetSessionTicketKeys writes under Lock.
   Location 0 = sessionTicketKeys (0 = empty), thread 0 = first use of the Config (initial keys 7),
   thread 1 = SetSessionTicketKeys with keys 9. *)
Definition init_vs_rotate : list (list block) :=
  [[Sec [0] [Rd 0]; Sec [0] [Rd 0; Wr 0]]; [Sec [0] [Wr 0]]].
Definition init_vs_rotate_wf (t : nat) (log : list nat) : nat :=
  if t =? 0 then (if last log 0 =? 0 then 7 else last log 0) else 9.
Definition no_once (o : nat) : list (nat * nat) := [].

Definition final_store (sched : list nat) : option (list nat) :=
  match run init_vs_rotate_wf no_once (init init_vs_rotate 1 1 0) sched with
  | Some st => if finished_b st then Some (store (pmem st)) else None
  | None => None
  end.

(* membership in the enumeration used by the sweeps *)
Lemma all_scheds_spec : forall n s, Forall (fun t => t < n) s -> In s (all_scheds n (length s)).
Proof.
  induction s as [|t s IH]; intros F.
  - simpl. auto.
  - inversion F; subst. cbn [length all_scheds]. apply in_flat_map. exists s. split; [apply IH; auto|].
    apply in_map_iff. exists t. split; auto. apply in_seq. lia.
Qed.

Lemma init_vs_rotate_sweep :
  forallb (fun s => match final_store s with Some r => match r with [x] => x =? 9 | _ => false end | None => true end)
          (all_scheds 2 10) = true.
Proof. vm_compute. reflexivity. Qed.

Lemma init_vs_rotate_complete_runs :
  length (filter (fun s => match final_store s with Some _ => true | None => false end) (all_scheds 2 10)) = 3%nat.
Proof. vm_compute. reflexivity. Qed.

Lemma init_vs_rotate_race_free : race_free_b no_once 0 init_vs_rotate = true.
Proof. vm_compute. reflexivity. Qed.
