(* C20 - the access table satisfies the hypothesis of race_free_region_serializable (finite check by vm_compute over
   all pairs of rows, lifted to every program built from the rows). *)
From Coq Require Import List Arith Bool Lia.
From GmsmVerif Require Import Conc.AccessModel Conc.ConcLists Conc.NestModel Conc.NestProofs Conc.AccessTable.
Import ListNotations.

Lemma annot_app : forall a hl b, annot hl (a ++ b) = annot hl a ++ annot (final_hl hl a) b.
Proof.
  induction a as [|[x|md m|md m|o] a IH]; intros hl b; simpl; auto.
  rewrite IH. reflexivity.
Qed.

Lemma final_hl_app : forall a hl b, final_hl hl (a ++ b) = final_hl (final_hl hl a) b.
Proof. induction a as [|[x|md m|md m|o] a IH]; intros hl b; simpl; auto. Qed.

Definition balanced (ops : list op) : Prop := forall o, In o ops -> final_hl [] (code o) = [].

Lemma program_final : forall ops t, balanced ops -> (forall o, In o t -> In o ops) -> final_hl [] (flat_map code t) = [].
Proof.
  induction t; simpl; intros B H; auto.
  rewrite final_hl_app, B by auto. apply IHt; auto.
Qed.

Lemma in_annot_program : forall ops x t, balanced ops -> (forall o, In o t -> In o ops) ->
  In x (annot [] (flat_map code t)) -> exists o, In o t /\ In x (annot [] (code o)).
Proof.
  induction t; simpl; intros B H Hin; [contradiction|].
  rewrite annot_app in Hin. apply in_app_or in Hin. destruct Hin as [Hin|Hin]; eauto.
  rewrite B in Hin by auto. destruct (IHt B (fun o Ho => H o (or_intror Ho)) Hin) as (o & Ho & Hx). eauto.
Qed.

Lemma guarded2_app : forall locs o a b, guarded2 locs o a = true -> guarded2 locs o b = true -> guarded2 locs o (a ++ b) = true.
Proof.
  induction a as [|[x|md m|md m|o'] a IH]; simpl; intros b Ha Hb; auto.
  - apply andb_true_iff in Ha. destruct Ha as [H1 H2]. rewrite H1. simpl. auto.
  - destruct (o' =? o); auto.
Qed.

Lemma guarded2_program : forall locs o t, (forall a, In a t -> guarded2 locs o (code a) = true) ->
  guarded2 locs o (flat_map code t) = true.
Proof. induction t; simpl; intros H; auto. apply guarded2_app; auto. Qed.

Lemma ops_ok_program : forall ops threads, ops_ok ops = true ->
  (forall t, In t threads -> forall o, In o t -> In o ops) ->
  race_free2_b gm_obody n_once (program_of threads) = true.
Proof.
  intros ops threads Hok Hin. unfold ops_ok in Hok. apply andb_true_iff in Hok. destruct Hok as [Hok Hb].
  apply andb_true_iff in Hok. destruct Hok as [Hp Hg].
  assert (B : balanced ops).
  { intros o Ho. rewrite forallb_forall in Hb. specialize (Hb o Ho). destruct (final_hl [] (code o)); [reflexivity|discriminate]. }
  unfold race_free2_b. apply andb_true_iff. split.
  - rewrite forallb_forall. intros i Hi. rewrite forallb_forall. intros j Hj.
    apply in_seq in Hi. apply in_seq in Hj. apply orb_true_iff. right.
    set (l := map (annot []) (program_of threads)) in *.
    assert (Hc : forall k, k < length l -> exists t, In t threads /\ nth k l [] = annot [] (flat_map code t)).
    { intros k Hk. pose proof (nth_In l [] Hk) as Hn. unfold l, program_of in Hn. rewrite map_map in Hn.
      apply in_map_iff in Hn. destruct Hn as (t & E & Ht).
      exists t. split; auto. unfold l, program_of. rewrite map_map. symmetry. exact E. }
    destruct (Hc i) as (t1 & T1 & ->); [lia|]. destruct (Hc j) as (t2 & T2 & ->); [lia|].
    apply pair_ok2_spec. intros x y Hx Hy Hconf.
    destruct (in_annot_program ops _ _ B (Hin _ T1) Hx) as (a & Ha & Hxa).
    destruct (in_annot_program ops _ _ B (Hin _ T2) Hy) as (b & Hb' & Hyb).
    rewrite forallb_forall in Hp. specialize (Hp a (Hin _ T1 _ Ha)). rewrite forallb_forall in Hp.
    specialize (Hp b (Hin _ T2 _ Hb')). apply (proj1 (pair_ok2_spec _ _) Hp); auto.
  - rewrite forallb_forall. intros o Ho. rewrite forallb_forall. intros c Hc.
    unfold program_of in Hc. apply in_map_iff in Hc. destruct Hc as (t & <- & Ht).
    apply guarded2_program. intros a Ha.
    rewrite forallb_forall in Hg. specialize (Hg o Ho). rewrite forallb_forall in Hg. apply Hg. eauto.
Qed.

Lemma claimed_ops_ok : ops_ok claimed_ops = true.
Proof. vm_compute. reflexivity. Qed.

(* ---- first use of a Config against rotation of the ticket keys, step by step ------------------------------- *)
(* serverInit (gmtls/common.go:622-659, since 43260b6): ticketKeys() under RLock; later, under Lock, the initial
   keys are installed only if none are present.  SetSessionTicketKeys writes under Lock.
   Location 0 = sessionTicketKeys (0 = empty), mutex 0 = Config.mutex, thread 0 = first use of the Config
   (initial keys 7), thread 1 = SetSessionTicketKeys with keys 9. *)
Definition init_vs_rotate : list (list nitem) :=
  [locked Shared 0 [rd 0] ++ locked Excl 0 [rd 0; wr 0]; locked Excl 0 [wr 0]].
Definition init_vs_rotate_wf (t : nat) (log : list nat) : nat :=
  if t =? 0 then (if last log 0 =? 0 then 7 else last log 0) else 9.
Definition no_once (o : nat) : list (nat * nat) := [].

Definition final_store (sched : list nat) : option (list nat) :=
  match run2 init_vs_rotate_wf no_once (init2 init_vs_rotate 1 1 0) sched with
  | Some st => if finished2_b st then Some (store2 (pmem2 st)) else None
  | None => None
  end.

(* membership in the enumeration used by the sweeps *)
Lemma all_scheds_spec : forall n s, Forall (fun t => t < n) s -> In s (all_scheds n (length s)).
Proof.
  induction s as [|t s IH]; intros F.
  - simpl. auto.
  - inversion F; subst. cbn [length all_scheds]. apply in_flat_map. exists s. split; [apply IH; auto|].
    apply in_map_iff. exists t. split; auto. apply in_seq. lia.
Qed.

Lemma init_vs_rotate_sweep :
  forallb (fun s => match final_store s with Some r => match r with [x] => x =? 9 | _ => false end | None => true end)
          (all_scheds 2 10) = true.
Proof. vm_compute. reflexivity. Qed.

Lemma init_vs_rotate_race_free : race_free2_b no_once 0 init_vs_rotate = true.
Proof. vm_compute. reflexivity. Qed.
