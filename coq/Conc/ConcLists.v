(* C20 - list lemmas for the access model: point updates commute (Leibniz equality of states). *)
From Coq Require Import List Arith Bool Lia.
From GmsmVerif Require Import Conc.AccessModel.
Import ListNotations.

Lemma length_upd : forall A n (x : A) l, length (upd n x l) = length l.
Proof. intros A n x l; revert n; induction l; intros [|n]; simpl; auto. Qed.

Lemma nth_upd_eq : forall A n (x : A) l d, n < length l -> nth n (upd n x l) d = x.
Proof. intros A n x l; revert n; induction l; intros [|n] d H; simpl in *; try lia; auto. apply IHl; lia. Qed.

Lemma nth_upd_neq : forall A n m (x : A) l d, n <> m -> nth m (upd n x l) d = nth m l d.
Proof.
  intros A n m x l; revert n m; induction l; intros [|n] [|m] d H; simpl; auto; try congruence.
Qed.

Lemma nth_error_upd_neq : forall A n m (x : A) l, n <> m -> nth_error (upd n x l) m = nth_error l m.
Proof.
  intros A n m x l; revert n m; induction l; intros [|n] [|m] H; simpl; auto; try congruence.
Qed.

Lemma nth_error_upd_eq : forall A n (x : A) l, n < length l -> nth_error (upd n x l) n = Some x.
Proof. intros A n x l; revert n; induction l; intros [|n] H; simpl in *; try lia; auto. apply IHl; lia. Qed.

Lemma upd_comm : forall A n m (x y : A) l, n <> m -> upd n x (upd m y l) = upd m y (upd n x l).
Proof.
  intros A n m x y l; revert n m; induction l; intros [|n] [|m] H; simpl; auto; try congruence.
  f_equal. apply IHl. congruence.
Qed.

Lemma upd_upd : forall A n (x y : A) l, upd n x (upd n y l) = upd n x l.
Proof. intros A n x y l; revert n; induction l; intros [|n]; simpl; auto. f_equal; auto. Qed.

Lemma in_upd : forall A n (x y : A) l, In y (upd n x l) -> y = x \/ In y l.
Proof.
  intros A n x y l; revert n; induction l; intros [|n] H; simpl in *; auto.
  - destruct H; auto.
  - destruct H; auto. destruct (IHl _ H); auto.
Qed.

Lemma nth_error_lt : forall A (l : list A) n x, nth_error l n = Some x -> n < length l.
Proof. intros. apply nth_error_Some. congruence. Qed.

(* ---- set_all --------------------------------------------------------------------------------------- *)
Lemma length_set_all : forall A ms (x : A) l, length (set_all ms x l) = length l.
Proof. induction ms; simpl; intros; auto. rewrite length_upd. auto. Qed.

Lemma nth_set_all_notin : forall A ms (x : A) l m d, ~ In m ms -> nth m (set_all ms x l) d = nth m l d.
Proof.
  induction ms; simpl; intros; auto.
  rewrite nth_upd_neq by tauto. apply IHms. tauto.
Qed.

Lemma nth_set_all_in : forall A ms (x : A) l m d, In m ms -> m < length l -> nth m (set_all ms x l) d = x.
Proof.
  induction ms; simpl; intros; [tauto|].
  destruct (Nat.eq_dec a m) as [->|Hne].
  - apply nth_upd_eq. rewrite length_set_all. auto.
  - rewrite nth_upd_neq by auto. apply IHms; tauto.
Qed.

Lemma upd_set_all_comm : forall A ms n (x y : A) l, ~ In n ms -> upd n x (set_all ms y l) = set_all ms y (upd n x l).
Proof.
  induction ms; simpl; intros; auto.
  rewrite upd_comm by (intro; subst; tauto). f_equal. apply IHms. tauto.
Qed.

Lemma set_all_comm : forall A ms ms' (x y : A) l,
  (forall m, In m ms -> ~ In m ms') -> set_all ms x (set_all ms' y l) = set_all ms' y (set_all ms x l).
Proof.
  induction ms; simpl; intros; auto.
  rewrite IHms by (intros; apply H; auto).
  apply upd_set_all_comm. apply H. auto.
Qed.

(* ---- Once initialiser writes -------------------------------------------------------------------------- *)
Lemma nth_do_writes_notin : forall ws s l, ~ In l (map fst ws) -> nth l (do_writes ws s) 0 = nth l s 0.
Proof.
  unfold do_writes. induction ws; simpl; intros; auto.
  rewrite IHws by tauto. apply nth_upd_neq. tauto.
Qed.

Lemma upd_do_writes_comm : forall ws s l v, ~ In l (map fst ws) -> upd l v (do_writes ws s) = do_writes ws (upd l v s).
Proof.
  unfold do_writes. induction ws; simpl; intros; auto.
  rewrite IHws by tauto. f_equal. apply upd_comm. intro; subst; tauto.
Qed.

(* ---- schedules ---------------------------------------------------------------------------------------- *)
Lemma in_split_first : forall (t : nat) l, In t l -> exists a b, l = a ++ t :: b /\ ~ In t a.
Proof.
  induction l; simpl; intros; [tauto|].
  destruct (Nat.eq_dec a t) as [->|Hne].
  - exists [], l. simpl. auto.
  - destruct H; [congruence|]. destruct (IHl H) as (x & y & -> & Hn).
    exists (a :: x), y. simpl. split; auto. tauto.
Qed.
