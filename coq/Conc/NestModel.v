(* C20 - the logic of sharing with nested and reader/writer locks.  Model only (no proofs in this file).

   A thread is a straight-line list of items
     NAcc a            one access (Rd l | Wr l) to an abstract shared location
     NLock md m        mu.Lock() (md = Excl) or mu.RLock() (md = Shared): its own step, blocks while the lock is
                       unavailable; locks nest in any way the code nests them ("a.Lock(); ...; b.Lock(); ...;
                       b.Unlock(); ...; b.Lock(); ...; b.Unlock(); a.Unlock()" is written as it is)
     NUnlock md m      mu.Unlock() / mu.RUnlock()
     NOnce o           o.Do(init): the first call performs the writes of [obody o], atomically for its callers
   A sync.RWMutex allows any number of Shared holders or one Excl holder (not re-entrant, as in Go).
   Each thread state carries the list of locks it holds; the machine executes one item per step of the schedule.

   A REGION is a maximal run of consecutive accesses of a thread (no lock operation or Once call in between: the
   set of locks held is the same for all of them).  The sequential reference execution [run_units] lets a thread
   perform a whole region (or one lock / unlock / Once item) with nobody in between. *)
From Coq Require Import List Arith Bool.
From GmsmVerif Require Import Conc.AccessModel.
Import ListNotations.

Inductive mode := Excl | Shared.
Inductive nitem :=
| NAcc (a : access)
| NLock (md : mode) (m : nat)
| NUnlock (md : mode) (m : nat)
| NOnce (o : nat).

Definition lk := (mode * nat)%type.
Definition mode_eqb (a b : mode) : bool := match a, b with Excl, Excl | Shared, Shared => true | _, _ => false end.
Definition lk_eqb (a b : lk) : bool := mode_eqb (fst a) (fst b) && (snd a =? snd b).
Definition drop_lk (x : lk) (hl : list lk) : list lk := filter (fun y => negb (lk_eqb x y)) hl.
Definition holds (x : lk) (hl : list lk) : bool := existsb (lk_eqb x) hl.

Record lstate := mkL { writer : option nat; rdrs : list bool }.     (* rdrs: per thread, holds the read lock *)
Record mem2 := mkM2 { store2 : list nat; logs2 : list (list nat); locks2 : list lstate; odone2 : list bool }.
Notation tst2 := (list lk * list nitem)%type (only parsing).         (* locks held, remaining code *)
Record pst2 := mkP2 { thr2 : list tst2; pmem2 : mem2 }.

Section Machine2.
  Variable wf : nat -> list nat -> nat.
  Variable obody : nat -> list (nat * nat).

  Definition do_access2 (t : nat) (a : access) (m : mem2) : mem2 :=
    match a with
    | Rd l => mkM2 (store2 m) (upd t (nth t (logs2 m) [] ++ [nth l (store2 m) 0]) (logs2 m)) (locks2 m) (odone2 m)
    | Wr l => mkM2 (upd l (wf t (nth t (logs2 m) [])) (store2 m)) (logs2 m) (locks2 m) (odone2 m)
    end.

  Definition set_lock (k : nat) (l : lstate) (m : mem2) : mem2 :=
    mkM2 (store2 m) (logs2 m) (upd k l (locks2 m)) (odone2 m).

  (* one item of thread t, which holds hl: new memory and new list of held locks; None = blocked / not allowed *)
  Definition apply2 (t : nat) (x : nitem) (hl : list lk) (m : mem2) : option (mem2 * list lk) :=
    match x with
    | NAcc a => Some (do_access2 t a m, hl)
    | NLock Excl k =>
      match nth_error (locks2 m) k with
      | Some l => match writer l with
                  | None => if forallb negb (rdrs l) then Some (set_lock k (mkL (Some t) (rdrs l)) m, (Excl, k) :: hl) else None
                  | Some _ => None
                  end
      | None => None
      end
    | NLock Shared k =>
      match nth_error (locks2 m) k with
      | Some l => match writer l with
                  | None => if (t <? length (rdrs l)) && negb (nth t (rdrs l) false)
                            then Some (set_lock k (mkL None (upd t true (rdrs l))) m, (Shared, k) :: hl) else None
                  | Some _ => None
                  end
      | None => None
      end
    | NUnlock Excl k =>
      match nth_error (locks2 m) k with
      | Some l => match writer l with
                  | Some w => if w =? t then Some (set_lock k (mkL None (rdrs l)) m, drop_lk (Excl, k) hl) else None
                  | None => None
                  end
      | None => None
      end
    | NUnlock Shared k =>
      match nth_error (locks2 m) k with
      | Some l => if nth t (rdrs l) false
                  then Some (set_lock k (mkL (writer l) (upd t false (rdrs l))) m, drop_lk (Shared, k) hl) else None
      | None => None
      end
    | NOnce o =>
      if o <? length (odone2 m) then
        if nth o (odone2 m) false then Some (m, hl)
        else Some (mkM2 (do_writes (obody o) (store2 m)) (logs2 m) (locks2 m) (upd o true (odone2 m)), hl)
      else None
    end.

  Definition step2 (st : pst2) (t : nat) : option pst2 :=
    match nth_error (thr2 st) t with
    | Some (hl, x :: code) =>
      match apply2 t x hl (pmem2 st) with
      | Some (m', hl') => Some (mkP2 (upd t (hl', code) (thr2 st)) m')
      | None => None
      end
    | _ => None
    end.

  Fixpoint run2 (st : pst2) (sched : list nat) : option pst2 :=
    match sched with
    | [] => Some st
    | t :: r => match step2 st t with None => None | Some st' => run2 st' r end
    end.

  (* number of accesses at the head of the code *)
  Fixpoint lead (code : list nitem) : nat :=
    match code with NAcc _ :: r => S (lead r) | _ => 0 end.
  Definition unit_steps (code : list nitem) : nat :=
    match code with NAcc _ :: r => S (lead r) | _ => 1 end.

  (* thread t performs its next region (or its next lock / unlock / Once item) with nobody in between *)
  Definition atomic_unit (st : pst2) (t : nat) : option pst2 :=
    match nth_error (thr2 st) t with
    | Some (_, x :: code) => run2 st (repeat t (unit_steps (x :: code)))
    | _ => None
    end.

  Fixpoint run_units (st : pst2) (order : list nat) : option pst2 :=
    match order with
    | [] => Some st
    | t :: r => match atomic_unit st t with None => None | Some st' => run_units st' r end
    end.
End Machine2.

Definition init2 (prog : list (list nitem)) (nloc nmut nonce : nat) : pst2 :=
  mkP2 (map (fun c => ([], c)) prog)
       (mkM2 (repeat 0 nloc) (repeat [] (length prog)) (repeat (mkL None (repeat false (length prog))) nmut) (repeat false nonce)).

Definition finished2 (st : pst2) : Prop := forall ts, In ts (thr2 st) -> snd ts = [].
Definition finished2_b (st : pst2) : bool := forallb (fun ts => match snd ts with [] => true | _ => false end) (thr2 st).

(* ---------- the race-freedom hypothesis (decidable) ---------------------------------------------------------- *)
(* every access of the remaining code with the locks held around it *)
Fixpoint annot (hl : list lk) (code : list nitem) : list (list lk * access) :=
  match code with
  | [] => []
  | NAcc a :: r => (hl, a) :: annot hl r
  | NLock md m :: r => annot ((md, m) :: hl) r
  | NUnlock md m :: r => annot (drop_lk (md, m) hl) r
  | NOnce _ :: r => annot hl r
  end.

(* a common mutex orders the two accesses: both hold it, and whoever writes holds it exclusively *)
Definition protects (h1 : list lk) (a1 : access) (h2 : list lk) (a2 : access) : bool :=
  existsb (fun x => let m := snd x in
                    (holds (Excl, m) h2 || holds (Shared, m) h2)
                    && (negb (is_write a1) || holds (Excl, m) h1)
                    && (negb (is_write a2) || holds (Excl, m) h2)) h1.

Definition pair_ok2 (c1 c2 : list (list lk * access)) : bool :=
  forallb (fun x => forallb (fun y => negb (conflict (snd x) (snd y)) || protects (fst x) (snd x) (fst y) (snd y)) c2) c1.

Fixpoint guarded2 (locs : list nat) (o : nat) (code : list nitem) : bool :=
  match code with
  | [] => true
  | NOnce o' :: r => if o' =? o then true else guarded2 locs o r
  | NAcc a :: r => negb (existsb (Nat.eqb (loc_of a)) locs) && guarded2 locs o r
  | _ :: r => guarded2 locs o r
  end.

Definition race_free2_b (obody : nat -> list (nat * nat)) (nonce : nat) (prog : list (list nitem)) : bool :=
  let l := map (annot []) prog in
  forallb (fun i => forallb (fun j => (i =? j) || pair_ok2 (nth i l []) (nth j l [])) (seq 0 (length l))) (seq 0 (length l))
  && forallb (fun o => forallb (guarded2 (map fst (obody o)) o) prog) (seq 0 nonce).
