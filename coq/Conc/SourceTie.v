(* C20 - static tie between the access table and the source.

   Gen/ConcWriteSets.v is regenerated on every run by harness/cmd/gen (target conc, go/parser + go/types) from the
   CURRENT source: for every exported entry point of sm2, sm3, sm4, x509 and the Config / session cache / loader
   part of gmtls, the writes to shared state (package variables, fields of the shared object types, elements behind
   them) reachable through calls inside these packages, with the locks held.  This file maps source names to
   table locations / mutexes / Once objects and entry points to table rows (definitions only; the two checks are
   proved in TableProofs.v):
     covers        every generated write is a Wr of (one of) the row(s) of its entry point under the same mutexes,
                   or a write of the initialiser of a Once the row calls
     found_in_src  conversely every Wr / initialiser write of the tied rows is produced by the source
   A change that makes some exported function write something new (a new lazily initialised field, memoisation into
   a shared map, reuse of a shared slice's storage) changes the generated file and breaks [table_covers_source_writes]
   at build time, whatever the race detector happens to observe.
   Outside this tie: gmtls.Conn and the handshake code (rows conn_*, default_cipher_suites), reads, and the precision
   limits listed at the top of harness/cmd/gen/target_conc.go. *)
From Coq Require Import List Arith Bool String.
From GmsmVerif Require Import Conc.AccessModel Conc.NestModel Conc.AccessTable Gen.ConcWriteSets.
Import ListNotations.
Open Scope string_scope.

Definition loc_of_src (n : string) : option nat :=
  if String.eqb n "gmtls.Config.sessionTicketKeys" then Some L_cfg_keys
  else if String.eqb n "gmtls.Config.sessionTicketKeys[]" then Some L_cfg_key_elems
  else if String.prefix "gmtls.Config." n then Some L_cfg_fields
  else if String.prefix "gmtls.GMSupport." n then Some L_cfg_fields
  else if String.prefix "gmtls.lruSessionCache." n then Some L_lru
  else if String.eqb n "sm2.sm2P256" || String.eqb n "sm2.sm2P256[]" then Some L_curve
  else if String.eqb n "sm4.IV" || String.eqb n "sm4.IV[]" then Some L_sm4_IV
  else if String.eqb n "sm4.Sm4Cipher.subkeys" || String.eqb n "sm4.Sm4Cipher.subkeys[]" then Some L_sm4_subkeys
  else if String.prefix "x509.CertPool." n then Some L_pool
  else if String.prefix "x509.Certificate." n then Some L_cert
  else if String.eqb n "x509.systemRoots" || String.eqb n "x509.systemRootsErr" then Some L_sysroots
  else if String.eqb n "x509.hashes[]" || String.eqb n "x509.hashes" then Some L_x509_tables
  else if String.eqb n "x509.ContentEncryptionAlgorithm" then Some L_x509_cea
  else None.

Inductive lockref := LMutex (m : nat) | LOnce (o : nat).

Definition lock_of_src (n : string) : option lockref :=
  if String.eqb n "gmtls.Config.mutex" then Some (LMutex M_cfg)
  else if String.eqb n "gmtls.lruSessionCache.Mutex" then Some (LMutex M_lru)
  else if String.eqb n "once:sm2.initonce" then Some (LOnce O_curve)
  else if String.eqb n "once:gmtls.Config.serverInitOnce" then Some (LOnce O_cfg)
  else if String.eqb n "once:x509.once" then Some (LOnce O_sysroots)
  else None.       (* read locks ("R:..."), "atomic" and unknown mutexes cover no write of the tied rows *)

(* entry point -> the table rows that describe it; an entry point that is not listed may only initialise the curve *)
Definition rows_of_entry (e : string) : list op :=
  if String.eqb e "gmtls.Config.Clone" then [config_clone]
  else if String.eqb e "gmtls.Config.SetSessionTicketKeys" then [config_set_ticket_keys]
  else if String.eqb e "gmtls.Config.BuildNameToCertificate" || String.eqb e "gmtls.GMSupport.EnableMixMode" then [config_setup]
  else if String.eqb e "gmtls.lruSessionCache.Get" then [lru_get]
  else if String.eqb e "gmtls.lruSessionCache.Put" then [lru_put]
  else if String.eqb e "sm4.SetIV" then [sm4_set_iv]
  else if String.eqb e "x509.CertPool.AddCert" || String.eqb e "x509.CertPool.AppendCertsFromPEM" then [certpool_add]
  else if String.eqb e "x509.Certificate.FromX509Certificate" || String.eqb e "x509.CreateCertificate"
          || String.eqb e "x509.CreateCertificateToPem" then [x509_cert_fill]
  else if String.eqb e "x509.Certificate.Verify" then [cert_verify; cert_verify_sysroots]
  else if String.eqb e "x509.RegisterHash" then [x509_register_hash]
  else [curve_first_use].

Fixpoint mutexes_of (ls : list string) : option (list nat) :=
  match ls with
  | [] => Some []
  | l :: r => match lock_of_src l, mutexes_of r with
              | Some (LMutex m), Some ms => Some (m :: ms)
              | Some (LOnce _), Some ms => Some ms
              | _, _ => None
              end
  end.
Fixpoint onces_of (ls : list string) : list nat :=
  match ls with
  | [] => []
  | l :: r => match lock_of_src l with Some (LOnce o) => o :: onces_of r | _ => onces_of r end
  end.

Definition subset (a b : list nat) : bool := forallb (fun x => existsb (Nat.eqb x) b) a.
Definition same_set (a b : list nat) : bool := subset a b && subset b a.
Definition calls_once (o : nat) (code : list nitem) : bool :=
  existsb (fun b => match b with NOnce o' => Nat.eqb o' o | _ => false end) code.
(* the locks around an access of the table, as a set of mutexes - all of them must be held exclusively for a write *)
Definition excl_set (hl : list lk) : option (list nat) :=
  if forallb (fun x => match fst x with Excl => true | Shared => false end) hl then Some (map snd hl) else None.
Definition locks_are (hl : list lk) (ms : list nat) : bool :=
  match excl_set hl with Some s => same_set s ms | None => false end.

Definition covered (rows : list op) (w : string * list string) : bool :=
  match loc_of_src (fst w), mutexes_of (snd w) with
  | Some l, Some ms =>
    match ms, onces_of (snd w) with
    | [], _ :: _ =>      (* under a Once only: a write of that initialiser *)
      existsb (fun o => existsb (Nat.eqb l) (map fst (gm_obody o)) && existsb (fun r => calls_once o (code r)) rows)
              (onces_of (snd w))
    | _, _ =>            (* a Wr of a row with exactly these mutexes around it *)
      existsb (fun r => existsb (fun x => match snd x with Wr l' => Nat.eqb l' l && locks_are (fst x) ms | Rd _ => false end)
                                (annot [] (code r))) rows
    end
  | _, _ => false
  end.

Definition covers : bool :=
  forallb (fun e => forallb (covered (rows_of_entry (fst e))) (snd e)) gen_write_sets.

(* the rows (and Once objects) whose writes must all be found in the source *)
Definition tied_rows : list op :=
  [config_clone; config_set_ticket_keys; lru_get; lru_put; sm4_set_iv; certpool_add; config_setup; x509_cert_fill; x509_register_hash].
Definition tied_onces : list nat := [O_curve; O_cfg; O_sysroots].

Definition produced (p : string * list string -> bool) (r : op) : bool :=
  existsb (fun e => existsb (op_beq r) (rows_of_entry (fst e)) && existsb p (snd e)) gen_write_sets.

Definition found_in_src : bool :=
  forallb (fun r => forallb (fun x => match snd x with
                                      | Wr l => produced (fun w => match loc_of_src (fst w), mutexes_of (snd w) with
                                                                   | Some l', Some ms => Nat.eqb l' l && locks_are (fst x) ms
                                                                   | _, _ => false end) r
                                      | Rd _ => true end) (annot [] (code r))) tied_rows
  && forallb (fun o => forallb (fun l => existsb (fun e => existsb (fun w => match loc_of_src (fst w) with
                                                                            | Some l' => Nat.eqb l' l && existsb (Nat.eqb o) (onces_of (snd w))
                                                                            | None => false end) (snd e)) gen_write_sets)
                               (map fst (gm_obody o))) tied_onces.

(* sample writes for the Examples of Props/C20.v *)
Definition ex_w_dsubkeys : string * list string := ("sm4.Sm4Cipher.dsubkeys", []).
Definition ex_w_pool_memo : string * list string := ("x509.CertPool.bySubjectKeyId[]", []).
Definition ex_w_key_elems : string * list string := ("gmtls.Config.sessionTicketKeys[]", ["gmtls.Config.mutex"]).
Definition ex_w_keys_unlocked : string * list string := ("gmtls.Config.sessionTicketKeys", []).
Definition ex_w_keys_locked : string * list string := ("gmtls.Config.sessionTicketKeys", ["gmtls.Config.mutex"]).
Definition ex_w_sysroots : string * list string := ("x509.systemRoots", ["once:x509.once"]).
