(* C20 - static tie between the access table and the source.

   Gen/ConcWriteSets.v is regenerated on every run by harness/cmd/gen (target conc, go/parser + go/types) from the
   CURRENT source: for every exported entry point of sm2, sm3, sm4, x509 and the Config / session cache / loader /
   Conn part of gmtls, the writes to shared state (package variables, fields of the shared object types - for a Conn
   every field, with the halfConn / block / hash objects behind c.in, c.out, c.rawInput, c.input, c.hand attributed
   to the field they are reached through - and elements behind them) reachable through calls inside these packages,
   with the locks held (c.in / c.out / handshakeMutex by name of the Conn field, "atomic" for sync/atomic operations,
   "once:gmtls.Conn.Handshake" for everything inside Conn.Handshake).  This file maps source names to
   table locations / mutexes / Once objects and entry points to table rows (definitions only; the two checks are
   proved in TableProofs.v):
     covers        every generated write is a Wr of (one of) the row(s) of its entry point under the same mutexes,
                   or a write of the initialiser of a Once the row calls
     found_in_src  conversely every Wr / initialiser write of the tied rows is produced by the source
   A change that makes some exported function write something new (a new lazily initialised field, memoisation into
   a shared map, reuse of a shared slice's storage) changes the generated file and breaks [table_covers_source_writes]
   at build time, whatever the race detector happens to observe.
   What the translator cannot attribute (calls through function values and through interfaces it has no summary for)
   is listed in gen_unattributed, one name per distinct callee expression / interface method, and the callees it is
   told to skip in gen_excluded; [unattributed_ok] bounds both lists by the hand-reviewed lists below.
   Outside this tie: reads, and the precision limits listed at the top of harness/cmd/gen/target_conc.go. *)
From Coq Require Import List Arith Bool String.
From GmsmVerif Require Import Conc.AccessModel Conc.NestModel Conc.AccessTable Conc.LockOrder Gen.ConcWriteSets.
Import ListNotations.
Open Scope string_scope.

Definition loc_of_src (n : string) : option nat :=
  if String.eqb n "gmtls.Config.sessionTicketKeys" then Some L_cfg_keys
  else if String.eqb n "gmtls.Config.sessionTicketKeys[]" then Some L_cfg_key_elems
  else if String.prefix "gmtls.Config." n then Some L_cfg_fields
  else if String.prefix "gmtls.GMSupport." n then Some L_cfg_fields
  else if String.prefix "gmtls.lruSessionCache." n then Some L_lru
  else if String.eqb n "gmtls.Conn.activeCall" then Some L_conn_ac
  else if String.eqb n "gmtls.Conn.handshakeStatus" then Some L_conn_st
  else if existsb (fun p => String.prefix p n)
                  ["gmtls.Conn.in>"; "gmtls.Conn.rawInput"; "gmtls.Conn.input"; "gmtls.Conn.hand>"; "gmtls.Conn.warnCount"]
          || String.eqb n "gmtls.Conn.hand" || String.eqb n "gmtls.Conn.hand[]" then Some L_conn_in
  else if existsb (fun p => String.prefix p n)
                  ["gmtls.Conn.out>"; "gmtls.Conn.sendBuf"; "gmtls.Conn.tmp"; "gmtls.Conn.bytesSent"; "gmtls.Conn.packetsSent";
                   "gmtls.Conn.closeNotifySent"; "gmtls.Conn.closeNotifyErr"] then Some L_conn_out
  else if String.prefix "gmtls.Conn." n then Some L_conn_hs      (* every other field: only the handshake may write it *)
  else if String.eqb n "gmtls.varDefaultCipherSuites" || String.eqb n "gmtls.varDefaultCipherSuites[]" then Some L_suites
  else if String.eqb n "gmtls.certCAs" || String.eqb n "gmtls.certCAs[]" then Some L_gmcas
  else if String.eqb n "sm2.sm2P256" || String.eqb n "sm2.sm2P256[]" then Some L_curve
  else if String.eqb n "sm4.IV" || String.eqb n "sm4.IV[]" then Some L_sm4_IV
  else if String.eqb n "sm4.Sm4Cipher.subkeys" || String.eqb n "sm4.Sm4Cipher.subkeys[]" then Some L_sm4_subkeys
  else if String.prefix "x509.CertPool." n then Some L_pool
  else if String.prefix "x509.Certificate." n then Some L_cert
  else if String.eqb n "x509.systemRoots" || String.eqb n "x509.systemRootsErr" then Some L_sysroots
  else if String.eqb n "x509.hashes[]" || String.eqb n "x509.hashes" then Some L_x509_tables
  else if String.eqb n "x509.ContentEncryptionAlgorithm" then Some L_x509_cea
  else None.

Inductive lockref := LMutex (m : nat) | LOnce (o : nat).

(* l: the location written ("atomic" names the virtual mutex of that atomic variable) *)
Definition lock_of_src (l : nat) (n : string) : option lockref :=
  if String.eqb n "gmtls.Config.mutex" then Some (LMutex M_cfg)
  else if String.eqb n "gmtls.lruSessionCache.Mutex" then Some (LMutex M_lru)
  else if String.eqb n "gmtls.Conn.in>gmtls.halfConn.Mutex" then Some (LMutex M_in)
  else if String.eqb n "gmtls.Conn.out>gmtls.halfConn.Mutex" then Some (LMutex M_out)
  else if String.eqb n "gmtls.Conn.handshakeMutex" then Some (LMutex M_hs)
  else if String.eqb n "sm4.ivMu" then Some (LMutex M_iv)
  else if String.eqb n "atomic" then
    (if Nat.eqb l L_conn_ac then Some (LMutex A_ac) else if Nat.eqb l L_conn_st then Some (LMutex A_st) else None)
  else if String.eqb n "once:sm2.initonce" then Some (LOnce O_curve)
  else if String.eqb n "once:gmtls.Config.serverInitOnce" then Some (LOnce O_cfg)
  else if String.eqb n "once:x509.once" then Some (LOnce O_sysroots)
  else if String.eqb n "once:gmtls.Conn.Handshake" then Some (LOnce O_conn_hs)
  else if String.eqb n "once:gmtls.once" then Some (LOnce O_suites)
  else if String.eqb n "once:gmtls.initonce" then Some (LOnce O_gmcas)
  else None.       (* read locks ("R:...") and unknown mutexes cover no write of the tied rows *)

(* entry point -> the table rows that describe it; an entry point that is not listed may only initialise the curve *)
Definition rows_of_entry (e : string) : list op :=
  if String.eqb e "gmtls.Config.Clone" then [config_clone]
  else if String.eqb e "gmtls.Config.SetSessionTicketKeys" then [config_set_ticket_keys]
  else if String.eqb e "gmtls.Config.BuildNameToCertificate" || String.eqb e "gmtls.GMSupport.EnableMixMode" then [config_setup]
  else if String.eqb e "gmtls.lruSessionCache.Get" then [lru_get]
  else if String.eqb e "gmtls.lruSessionCache.Put" then [lru_put]
  else if String.eqb e "sm4.SetIV" then [sm4_set_iv]
  else if String.eqb e "sm4.Sm4GCM" || String.eqb e "sm4.GCMEncrypt" || String.eqb e "sm4.GCMDecrypt" then [sm4_gcm_helper]
  else if String.eqb e "sm2.KeyExchangeA" || String.eqb e "sm2.KeyExchangeB" then [sm2_key_exchange]
  else if String.prefix "pkcs12." e then [pkcs12_codec]
  else if String.eqb e "x509.CertPool.AddCert" || String.eqb e "x509.CertPool.AppendCertsFromPEM" then [certpool_add]
  else if String.eqb e "x509.Certificate.FromX509Certificate" || String.eqb e "x509.CreateCertificate"
          || String.eqb e "x509.CreateCertificateToPem" then [x509_cert_fill]
  else if String.eqb e "x509.Certificate.Verify" then [cert_verify; cert_verify_sysroots]
  else if String.eqb e "x509.RegisterHash" then [x509_register_hash]
  else if String.eqb e "gmtls.Conn.Handshake" then [conn_handshake]
  else if String.eqb e "gmtls.Conn.Read" then [conn_read]
  else if String.eqb e "gmtls.Conn.Write" then [conn_write]
  else if String.eqb e "gmtls.Conn.Close" || String.eqb e "gmtls.Conn.CloseWrite" then [conn_close]
  else if String.prefix "gmtls.Conn." e then [conn_state]     (* ConnectionState, OCSPResponse, VerifyHostname, addresses, deadlines *)
  else [curve_first_use].

Fixpoint mutexes_of (l : nat) (ls : list string) : option (list nat) :=
  match ls with
  | [] => Some []
  | x :: r => match lock_of_src l x, mutexes_of l r with
              | Some (LMutex m), Some ms => Some (m :: ms)
              | Some (LOnce _), Some ms => Some ms
              | _, _ => None
              end
  end.
Fixpoint onces_of (ls : list string) : list nat :=
  match ls with
  | [] => []
  | x :: r => match lock_of_src 0 x with Some (LOnce o) => o :: onces_of r | _ => onces_of r end
  end.

Definition subset (a b : list nat) : bool := forallb (fun x => existsb (Nat.eqb x) b) a.
Definition same_set (a b : list nat) : bool := subset a b && subset b a.
Definition calls_once (o : nat) (code : list nitem) : bool :=
  existsb (fun b => match b with NOnce o' => Nat.eqb o' o | _ => false end) code.
(* the locks around an access of the table, as a set of mutexes - all of them must be held exclusively for a write *)
Definition excl_set (hl : list lk) : option (list nat) :=
  if forallb (fun x => match fst x with Excl => true | Shared => false end) hl then Some (map snd hl) else None.
Definition locks_are (hl : list lk) (ms : list nat) : bool :=
  match excl_set hl with Some s => same_set s ms | None => false end.

Definition covered (rows : list op) (w : string * list string) : bool :=
  match loc_of_src (fst w) with
  | Some l =>
    match mutexes_of l (snd w) with
    | Some ms =>
      (* inside a Once whose initialiser is stated to write this location, and the row goes through that Once *)
      (if existsb (fun o => existsb (Nat.eqb l) (map fst (gm_obody o)) && existsb (fun r => calls_once o (code r)) rows)
                  (onces_of (snd w)) then true
       else
      (* or a Wr of a row with exactly these mutexes around it *)
       existsb (fun r => existsb (fun x => match snd x with Wr l' => Nat.eqb l' l && locks_are (fst x) ms | Rd _ => false end)
                                 (annot [] (code r))) rows)
    | None => false
    end
  | None => false
  end.

Definition covers : bool :=
  forallb (fun e => forallb (covered (rows_of_entry (fst e))) (snd e)) gen_write_sets.

(* the rows (and Once objects) whose writes must all be found in the source *)
Definition tied_rows : list op :=
  [config_clone; config_set_ticket_keys; lru_get; lru_put; sm4_set_iv; certpool_add; config_setup; x509_cert_fill; x509_register_hash;
   conn_handshake; conn_read; conn_write; conn_close; conn_state].
Definition tied_onces : list nat := [O_curve; O_cfg; O_sysroots; O_conn_hs; O_suites; O_gmcas].

Definition produced (p : string * list string -> bool) (r : op) : bool :=
  existsb (fun e => existsb (op_beq r) (rows_of_entry (fst e)) && existsb p (snd e)) gen_write_sets.

Definition found_in_src : bool :=
  forallb (fun r => forallb (fun x => match snd x with
                                      | Wr l => produced (fun w => match loc_of_src (fst w) with
                                                                   | Some l' => match mutexes_of l' (snd w) with
                                                                                | Some ms => Nat.eqb l' l && locks_are (fst x) ms
                                                                                | None => false end
                                                                   | None => false end) r
                                      | Rd _ => true end) (annot [] (code r))) tied_rows
  && forallb (fun o => forallb (fun l => existsb (fun e => existsb (fun w => match loc_of_src (fst w) with
                                                                            | Some l' => Nat.eqb l' l && existsb (Nat.eqb o) (onces_of (snd w))
                                                                            | None => false end) (snd e)) gen_write_sets)
                               (map fst (gm_obody o))) tied_onces.

(* sample writes for the Examples of Props/C20.v *)
Definition ex_w_dsubkeys : string * list string := ("sm4.Sm4Cipher.dsubkeys", []).
Definition ex_w_pool_memo : string * list string := ("x509.CertPool.bySubjectKeyId[]", []).
Definition ex_w_key_elems : string * list string := ("gmtls.Config.sessionTicketKeys[]", ["gmtls.Config.mutex"]).
Definition ex_w_keys_unlocked : string * list string := ("gmtls.Config.sessionTicketKeys", []).
Definition ex_w_keys_locked : string * list string := ("gmtls.Config.sessionTicketKeys", ["gmtls.Config.mutex"]).
Definition ex_w_sysroots : string * list string := ("x509.systemRoots", ["once:x509.once"]).

Definition ex_entry_close := "gmtls.Conn.Close".
Definition ex_entry_read := "gmtls.Conn.Read".
Definition ex_entry_write := "gmtls.Conn.Write".
Definition ex_conn_entries : list string :=
  [ex_entry_close; ex_entry_read; ex_entry_write; "gmtls.Conn.Handshake"; "gmtls.Conn.CloseWrite"].
Definition ex_has_entry (e : string) : bool := existsb (fun g => String.eqb (fst g) e) gen_write_sets.
Definition ex_w_close_notify_locked : string * list string := ("gmtls.Conn.closeNotifySent", ["gmtls.Conn.out>gmtls.halfConn.Mutex"]).
Definition ex_w_close_notify_unlocked : string * list string := ("gmtls.Conn.closeNotifySent", []).
Definition ex_w_close_notify_wrong_lock : string * list string := ("gmtls.Conn.closeNotifySent", ["gmtls.Conn.in>gmtls.halfConn.Mutex"]).
Definition ex_w_read_out_under_in : string * list string :=
  ("gmtls.Conn.out>gmtls.halfConn.seq[]", ["gmtls.Conn.in>gmtls.halfConn.Mutex"]).
Definition ex_w_read_out_under_both : string * list string :=
  ("gmtls.Conn.out>gmtls.halfConn.seq[]", ["gmtls.Conn.in>gmtls.halfConn.Mutex"; "gmtls.Conn.out>gmtls.halfConn.Mutex"]).
Definition ex_w_write_in_state : string * list string := ("gmtls.Conn.rawInput", ["gmtls.Conn.out>gmtls.halfConn.Mutex"]).
Definition ex_w_vers_outside_handshake : string * list string := ("gmtls.Conn.vers", ["gmtls.Conn.in>gmtls.halfConn.Mutex"]).
Definition ex_w_vers_in_handshake : string * list string :=
  ("gmtls.Conn.vers", ["gmtls.Conn.handshakeMutex"; "gmtls.Conn.in>gmtls.halfConn.Mutex"; "once:gmtls.Conn.Handshake"]).
Definition ex_w_status_plain : string * list string :=
  ("gmtls.Conn.handshakeStatus", ["gmtls.Conn.handshakeMutex"; "gmtls.Conn.in>gmtls.halfConn.Mutex"; "once:gmtls.Conn.Handshake"]).
Definition ex_w_active_plain : string * list string := ("gmtls.Conn.activeCall", []).
Definition ex_w_active_atomic : string * list string := ("gmtls.Conn.activeCall", ["atomic"]).

(* ---- what the translator could not attribute ----
   Calls through function values and through interfaces without a summary.  Each line was looked at by hand:
   the callee cannot reach the connection, the Config, the caches or a package variable of the analysed packages
   except as noted. *)
Definition allowed_unattributed : list string :=
  [ (* application callbacks of the Config (documented as such in crypto/tls): run by the handshake, under
       handshakeMutex and c.in; what they do to the application's own state is the application's business *)
    "funcvalue:c.GetCertificate"; "funcvalue:c.GetKECertificate"; "funcvalue:c.config.GetClientCertificate";
    "funcvalue:c.config.GetConfigForClient"; "funcvalue:c.config.VerifyPeerCertificate";
    "funcvalue:t in (*gmtls.Config).time";            (* Config.Time or time.Now *)
    "funcvalue:f in (x509.Hash).New";                 (* the constructor registered with RegisterHash *)
    "funcvalue:hash in pkcs12.pbkdf";                 (* the hash constructor handed to the PKCS#12 KDF (sha1.New): a fresh object *)
    (* cipher-suite table entries and PRF selection: the functions stored there are the package's own constructors
       (cipher_suites.go, prf.go), which build fresh objects; they are analysed as ordinary functions when called
       directly *)
    "funcvalue:h.prf"; "funcvalue:hs.suite.aead"; "funcvalue:hs.suite.cipher"; "funcvalue:hs.suite.ka"; "funcvalue:hs.suite.mac";
    "funcvalue:prfForVersion(version, suite)";
    (* record protection objects stored in a halfConn: per-direction objects, reached only under that direction's
       lock set (the writes to the halfConn fields holding them are tied) *)
    "iface:crypto/cipher.AEAD.NonceSize"; "iface:crypto/cipher.AEAD.Open"; "iface:crypto/cipher.AEAD.Overhead";
    "iface:crypto/cipher.AEAD.Seal"; "iface:crypto/cipher.BlockMode.BlockSize"; "iface:crypto/cipher.BlockMode.CryptBlocks";
    "iface:crypto/cipher.Stream.XORKeyStream"; "iface:gmtls.aead.Open"; "iface:gmtls.aead.Overhead"; "iface:gmtls.aead.Seal";
    "iface:gmtls.cbcMode.BlockSize"; "iface:gmtls.cbcMode.CryptBlocks"; "iface:gmtls.constantTimeHash.Reset";
    "iface:gmtls.constantTimeHash.Size"; "iface:gmtls.constantTimeHash.Write";
    (* the transport and the standard library *)
    "iface:error.Error"; "iface:io.Reader.Read"; "iface:io.Writer.Write"; "iface:io/fs.FileInfo.Name"; "iface:net.Addr.String";
    "iface:net.Conn.Close"; "iface:net.Conn.LocalAddr"; "iface:net.Conn.RemoteAddr"; "iface:net.Conn.SetDeadline";
    "iface:net.Conn.SetReadDeadline"; "iface:net.Conn.SetWriteDeadline"; "iface:net.Conn.Write"; "iface:net.Error.Temporary" ].

(* renegotiation (client side, refused unless Config.Renegotiation is set; O_conn_hs is a Once only without it) *)
Definition allowed_excluded : list string := ["(*gmtls.Conn).handleRenegotiation"].

Definition str_subset (a b : list string) : bool := forallb (fun x => existsb (String.eqb x) b) a.
Definition unattributed_ok : bool := str_subset gen_unattributed allowed_unattributed && str_subset gen_excluded allowed_excluded.

(* ---- lock order of the source ----
   gen_lock_order lists (held, taken) for every Lock / RLock / Once.Do reachable from an entry point while another
   mutex or Once is held (by the function or by its callers).  A sync.Once counts as a lock here: a second caller of
   Do waits for the first.  src_rank is a rank function for these names: for a mutex of the table it IS the table's
   rank (gm_rank through lock_of_src), so source and table are ordered by the same function; [src_lock_order_ok]
   says every pair goes strictly upwards - the held-before relation of the source is acyclic, and no lock is taken
   while a lock of the same name is held.  (Names are per type and field, not per object: two Configs' mutexes are one
   name - conservative.) *)
Definition once_rank (o : nat) : nat :=
  if Nat.eqb o O_curve then 5        (* taken inside getCAs' and the system roots' initialisers (certificate parsing) *)
  else 3.                            (* serverInitOnce (takes Config.mutex inside), x509.once, gmtls.once, gmtls.initonce *)
Definition src_rank (n : string) : option nat :=
  match lock_of_src 0 n with
  | Some (LMutex m) => Some (gm_rank m)
  | Some (LOnce o) => Some (once_rank o)
  | None => if String.eqb n "gmtls.writerMutex" then Some 4 else None      (* key-log writer: taken last, holds nothing *)
  end.
Definition src_lock_order_ok : bool :=
  forallb (fun p => match src_rank (fst p), src_rank (snd p) with Some a, Some b => Nat.ltb a b | _, _ => false end) gen_lock_order.

(* the same pairs in table terms: every source pair between two mutexes of the table is a nesting of some row, and
   every nesting of real mutexes (not the virtual ones of atomics) in the rows is found in the source *)
Definition table_pairs : list (nat * nat) := flat_map (fun o => held_before [] (code o)) all_ops.
Definition has_pair (p : nat * nat) (l : list (nat * nat)) : bool :=
  existsb (fun q => Nat.eqb (fst p) (fst q) && Nat.eqb (snd p) (snd q)) l.
Definition src_pairs : list (nat * nat) :=
  flat_map (fun p => match lock_of_src 0 (fst p), lock_of_src 0 (snd p) with
                     | Some (LMutex a), Some (LMutex b) => [(a, b)] | _, _ => [] end) gen_lock_order.
Definition is_virtual (m : nat) : bool := Nat.eqb m A_ac || Nat.eqb m A_st.
Definition lock_order_tied : bool :=
  forallb (fun p => has_pair p table_pairs) src_pairs
  && forallb (fun p => is_virtual (fst p) || is_virtual (snd p) || has_pair p src_pairs) table_pairs.

Definition ex_pair_out_in : string * string := ("gmtls.Conn.out>gmtls.halfConn.Mutex", "gmtls.Conn.in>gmtls.halfConn.Mutex").
Definition ex_pair_in_out : string * string := ("gmtls.Conn.in>gmtls.halfConn.Mutex", "gmtls.Conn.out>gmtls.halfConn.Mutex").
Definition ex_pair_cfg_cfg : string * string := ("gmtls.Config.mutex", "gmtls.Config.mutex").
Definition ex_pair_cfg_hs : string * string := ("gmtls.Config.mutex", "gmtls.Conn.handshakeMutex").
Definition pair_ranked (p : string * string) : bool :=
  match src_rank (fst p), src_rank (snd p) with Some a, Some b => Nat.ltb a b | _, _ => false end.

Definition ex_w_iv : string * list string := ("sm4.IV", ["sm4.ivMu"]).
Definition ex_w_iv_unlocked : string * list string := ("sm4.IV", []).
Definition ex_entry_setiv := "sm4.SetIV".
(* the generated file has an entry for sm4.SetIV, and all it writes is sm4.IV under sm4.ivMu *)
Definition ex_setiv_only_writes_iv : bool :=
  existsb (fun e => String.eqb (fst e) ex_entry_setiv
                    && forallb (fun w => String.eqb (fst w) (fst ex_w_iv) && match snd w with [l] => String.eqb l "sm4.ivMu" | _ => false end) (snd e)
                    && negb (match snd e with [] => true | _ => false end)) gen_write_sets.

(* ---- the shortcut of Conn.Close ----
   Conc/ActiveCall.v models "if x != 0 { return c.conn.Close() }": a Close that finds a Write in flight does not go on
   to closeNotify (c.out).  The translator reads the condition of that statement from the current source. *)
Definition close_shortcut_modelled : string := "x != 0".
Definition close_shortcut_ok : bool := String.eqb gen_close_shortcut_cond close_shortcut_modelled.
