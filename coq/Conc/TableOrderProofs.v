(* C20 - the rows of the access table take their locks in one order (gm_rank), so no program built from them can
   reach a state in which every unfinished goroutine is blocked on a lock. *)
From Coq Require Import List Arith Bool.
From GmsmVerif Require Import Conc.AccessModel Conc.NestModel Conc.NestProofs Conc.AccessTable Conc.LockOrder Conc.LockOrderProofs.
Import ListNotations.

Lemma every_row_ordered : forall o, ordered gm_rank n_mut n_once gm_rank_bound [] (code o) = true.
Proof. destruct o; vm_compute; reflexivity. Qed.

Theorem table_no_deadlock : forall wf (threads : list (list op)) sched st,
  run2 wf gm_obody (init2 (program_of threads) n_loc n_mut n_once) sched = Some st ->
  finished2 st \/ can_step wf gm_obody st.
Proof.
  intros wf threads sched st H. eapply ordered_no_deadlock; [|exact H].
  intros c Hc. unfold program_of in Hc. apply in_map_iff in Hc. destruct Hc as [t [E _]]. subst c.
  apply ordered_flat_map. intros x _. apply every_row_ordered.
Qed.

(* the pairs (held, taken) of all rows, as the rank function has to order them *)
Lemma table_pairs_ranked :
  forallb (fun o => forallb (fun p => gm_rank (fst p) <? gm_rank (snd p)) (held_before [] (code o))) all_ops = true.
Proof. vm_compute. reflexivity. Qed.
