(* C20 - the activeCall interlock: invariant over ALL schedules of any number of Write and Close calls. *)
From Coq Require Import List Arith Bool Lia.
From GmsmVerif Require Import Conc.AccessModel Conc.ConcLists Conc.ActiveCall.
Import ListNotations.

Definition b2n (b : bool) : nat := if b then 1 else 0.

Lemma count_upd : forall A (f : A -> bool) l i a b, nth_error l i = Some a ->
  count f (upd i b l) + b2n (f a) = count f l + b2n (f b).
Proof.
  unfold count. induction l; intros [|i] x b H; simpl in *; try discriminate.
  - inversion H; subst. destruct (f x), (f b); simpl; lia.
  - specialize (IHl _ _ b H). destruct (f a); simpl; lia.
Qed.

Lemma odd_even_false : forall x, Nat.even x = true -> Nat.odd x = false.
Proof. intros x H. unfold Nat.odd. rewrite H. reflexivity. Qed.

Lemma odd_false_even : forall x, Nat.odd x = false -> Nat.even x = true.
Proof. intros x H. unfold Nat.odd in H. destruct (Nat.even x); auto. Qed.

Lemma even_decomp : forall c k, Nat.even (2 * c + k) = true -> k <= 1 -> k = 0.
Proof.
  intros c k H Hk. destruct k as [|[|k]]; auto; [|lia].
  exfalso. replace (2 * c + 1) with (S (2 * c)) in H by lia.
  rewrite Nat.even_succ in H. rewrite Nat.odd_mul in H. simpl in H. discriminate.
Qed.

Lemma odd_decomp : forall c k, k <= 1 -> Nat.odd (2 * c + k) = true -> k = 1.
Proof.
  intros c k Hk H. destruct k as [|[|k]]; auto; [|lia].
  exfalso. rewrite Nat.add_0_r in H. rewrite Nat.odd_mul in H. simpl in H. discriminate.
Qed.

Record AInv (s : cst) : Prop := {
  ai_ac : ac s = 2 * count w_in (ws s) + count c_won (cs s);
  ai_one : count c_won (cs s) <= 1;
  ai_wl : forall i x, nth_error (ws s) i = Some (WLoaded x) -> Nat.even x = true;
  ai_cl : forall j x, nth_error (cs s) j = Some (CLoaded x) -> Nat.even x = true;
  ai_ghost : entered_closed s = false }.

Lemma nth_error_upd_cases : forall A (l : list A) i j x y, nth_error (upd i x l) j = Some y ->
  (i = j /\ y = x) \/ nth_error l j = Some y.
Proof.
  intros A l i j x y H. destruct (Nat.eq_dec i j) as [->|Hne].
  - destruct (lt_dec j (length l)).
    + rewrite nth_error_upd_eq in H by auto. inversion H. auto.
    + assert (nth_error (upd j x l) j = None) by (apply nth_error_None; rewrite length_upd; lia). congruence.
  - rewrite nth_error_upd_neq in H by auto. auto.
Qed.

Lemma wstep_inv : forall s i, AInv s -> AInv (wstep s i).
Proof.
  intros s i I. unfold wstep. destruct (nth_error (ws s) i) as [[|x| | |]|] eqn:E; auto.
  - (* Load *)
    destruct (Nat.odd (ac s)) eqn:O; constructor; simpl; try apply I.
    + pose proof (count_upd _ w_in _ _ _ WErrClosed E). simpl in H. pose proof (ai_ac _ I). lia.
    + intros k y Hk. apply nth_error_upd_cases in Hk. destruct Hk as [[_ Hk]|Hk]; [discriminate|]. eapply ai_wl; eauto.
    + pose proof (count_upd _ w_in _ _ _ (WLoaded (ac s)) E). simpl in H. pose proof (ai_ac _ I). lia.
    + intros k y Hk. apply nth_error_upd_cases in Hk. destruct Hk as [[_ Hk]|Hk]; [|eapply ai_wl; eauto].
      inversion Hk; subst. apply odd_false_even; auto.
  - (* CAS *)
    pose proof (ai_wl _ I _ _ E) as Ev.
    destruct (ac s =? x) eqn:Q.
    + apply Nat.eqb_eq in Q. constructor; simpl; try apply I.
      * pose proof (count_upd _ w_in _ _ _ WIn E). simpl in H. pose proof (ai_ac _ I). lia.
      * intros k y Hk. apply nth_error_upd_cases in Hk. destruct Hk as [[_ Hk]|Hk]; [discriminate|]. eapply ai_wl; eauto.
      * rewrite (ai_ghost _ I). rewrite Q. rewrite (odd_even_false _ Ev). reflexivity.
    + constructor; simpl; try apply I.
      * pose proof (count_upd _ w_in _ _ _ WStart E). simpl in H. pose proof (ai_ac _ I). lia.
      * intros k y Hk. apply nth_error_upd_cases in Hk. destruct Hk as [[_ Hk]|Hk]; [discriminate|]. eapply ai_wl; eauto.
  - (* leaving the record layer *)
    constructor; simpl; try apply I.
    + pose proof (count_upd _ w_in _ _ _ WDone E). simpl in H. pose proof (ai_ac _ I). lia.
    + intros k y Hk. apply nth_error_upd_cases in Hk. destruct Hk as [[_ Hk]|Hk]; [discriminate|]. eapply ai_wl; eauto.
Qed.

Lemma cstep_inv : forall s j, AInv s -> AInv (cstep s j).
Proof.
  intros s j I. unfold cstep. destruct (nth_error (cs s) j) as [[|x|x| | |]|] eqn:E; auto.
  - destruct (Nat.odd (ac s)) eqn:O; constructor; simpl; try apply I.
    + pose proof (count_upd _ c_won _ _ _ CErrClosed E). simpl in H. pose proof (ai_ac _ I). lia.
    + pose proof (count_upd _ c_won _ _ _ CErrClosed E). simpl in H. pose proof (ai_one _ I). lia.
    + intros k y Hk. apply nth_error_upd_cases in Hk. destruct Hk as [[_ Hk]|Hk]; [discriminate|]. eapply ai_cl; eauto.
    + pose proof (count_upd _ c_won _ _ _ (CLoaded (ac s)) E). simpl in H. pose proof (ai_ac _ I). lia.
    + pose proof (count_upd _ c_won _ _ _ (CLoaded (ac s)) E). simpl in H. pose proof (ai_one _ I). lia.
    + intros k y Hk. apply nth_error_upd_cases in Hk. destruct Hk as [[_ Hk]|Hk]; [|eapply ai_cl; eauto].
      inversion Hk; subst. apply odd_false_even; auto.
  - pose proof (ai_cl _ I _ _ E) as Ev.
    destruct (ac s =? x) eqn:Q.
    + apply Nat.eqb_eq in Q.
      assert (K : count c_won (cs s) = 0).
      { apply (even_decomp (count w_in (ws s))); [|apply I]. rewrite <- (ai_ac _ I). rewrite Q. exact Ev. }
      pose proof (count_upd _ c_won _ _ _ (CWon x) E) as H. simpl in H.
      constructor; simpl; try apply I.
      * pose proof (ai_ac _ I). lia.
      * lia.
      * intros k y Hk. apply nth_error_upd_cases in Hk. destruct Hk as [[_ Hk]|Hk]; [discriminate|]. eapply ai_cl; eauto.
    + pose proof (count_upd _ c_won _ _ _ CStart E) as H. simpl in H.
      constructor; simpl; try apply I.
      * pose proof (ai_ac _ I). lia.
      * pose proof (ai_one _ I). lia.
      * intros k y Hk. apply nth_error_upd_cases in Hk. destruct Hk as [[_ Hk]|Hk]; [discriminate|]. eapply ai_cl; eauto.
  - pose proof (count_upd _ c_won _ _ _ (if x =? 0 then CDoneNotify else CDoneQuiet) E) as H. simpl in H.
    assert (c_won (if x =? 0 then CDoneNotify else CDoneQuiet) = true) as W by (destruct (x =? 0); reflexivity).
    rewrite W in H. simpl in H.
    constructor; simpl; try apply I.
    + pose proof (ai_ac _ I). lia.
    + pose proof (ai_one _ I). lia.
    + intros k y Hk. apply nth_error_upd_cases in Hk. destruct Hk as [[_ Hk]|Hk]; [|eapply ai_cl; eauto].
      destruct (x =? 0); discriminate.
Qed.

Lemma ainit_inv : forall nw nc, AInv (ainit nw nc).
Proof.
  intros. constructor; simpl; auto.
  - assert (forall n, count w_in (repeat WStart n) = 0) as -> by (induction n; simpl; auto).
    assert (forall n, count c_won (repeat CStart n) = 0) as -> by (induction n; simpl; auto). reflexivity.
  - assert (forall n, count c_won (repeat CStart n) = 0) as -> by (induction n; simpl; auto). lia.
  - intros i x H. apply nth_error_In in H. apply repeat_spec in H. discriminate.
  - intros i x H. apply nth_error_In in H. apply repeat_spec in H. discriminate.
Qed.

Lemma arun_inv : forall sched s, AInv s -> AInv (arun s sched).
Proof.
  induction sched as [|[i|j] r IH]; simpl; intros s I; auto.
  - apply IH. apply wstep_inv; auto.
  - apply IH. apply cstep_inv; auto.
Qed.

(* once the closed bit is set, no step of any Write call enters the record layer *)
Lemma closed_no_entry : forall s i, AInv s -> closed_bit s = true ->
  count w_in (ws (wstep s i)) <= count w_in (ws s) /\
  (nth_error (ws s) i = Some WStart -> nth_error (ws (wstep s i)) i = Some WErrClosed).
Proof.
  intros s i I C. unfold closed_bit in C. unfold wstep.
  destruct (nth_error (ws s) i) as [[|x| | |]|] eqn:E; simpl; try (split; [lia|discriminate]).
  - rewrite C. simpl. pose proof (count_upd _ w_in _ _ _ WErrClosed E) as H. simpl in H. split; [lia|].
    intros _. apply nth_error_upd_eq. eapply nth_error_lt; eauto.
  - pose proof (ai_wl _ I _ _ E) as Ev.
    destruct (ac s =? x) eqn:Q.
    + apply Nat.eqb_eq in Q. rewrite Q in C. rewrite (odd_even_false _ Ev) in C. discriminate.
    + simpl. pose proof (count_upd _ w_in _ _ _ WStart E) as H. simpl in H. split; [lia|discriminate].
  - pose proof (count_upd _ w_in _ _ _ WDone E) as H. simpl in H. split; [lia|discriminate].
Qed.

(* the closed bit is never cleared *)
Lemma closed_sticky : forall s t, AInv s -> closed_bit s = true -> closed_bit (astep s t) = true.
Proof.
  intros s t I C. pose proof (ai_one _ I) as One. pose proof (ai_ac _ I) as Ac.
  assert (K : count c_won (cs s) = 1).
  { apply (odd_decomp (count w_in (ws s))); auto. rewrite <- Ac. exact C. }
  assert (I' : AInv (astep s t)) by (destruct t; [apply wstep_inv|apply cstep_inv]; auto).
  assert (K' : count c_won (cs (astep s t)) = 1).
  { pose proof (ai_one _ I') as One'.
    destruct t as [i|j]; simpl.
    - unfold wstep. destruct (nth_error (ws s) i) as [[|x| | |]|]; simpl; auto;
        [destruct (Nat.odd (ac s))|destruct (ac s =? x)]; simpl; auto.
    - unfold cstep. destruct (nth_error (cs s) j) as [[|x|x| | |]|] eqn:E; simpl; auto.
      + destruct (Nat.odd (ac s)); simpl.
        * pose proof (count_upd _ c_won _ _ _ CErrClosed E) as H. simpl in H. lia.
        * pose proof (count_upd _ c_won _ _ _ (CLoaded (ac s)) E) as H. simpl in H. lia.
      + destruct (ac s =? x) eqn:Q; simpl.
        * pose proof (count_upd _ c_won _ _ _ (CWon x) E) as H. simpl in H. simpl in One'.
          unfold cstep in One'. rewrite E, Q in One'. simpl in One'. lia.
        * pose proof (count_upd _ c_won _ _ _ CStart E) as H. simpl in H. lia.
      + pose proof (count_upd _ c_won _ _ _ (if x =? 0 then CDoneNotify else CDoneQuiet) E) as H. simpl in H.
        assert (c_won (if x =? 0 then CDoneNotify else CDoneQuiet) = true) as W by (destruct (x =? 0); reflexivity).
        rewrite W in H. simpl in H. lia. }
  unfold closed_bit. rewrite (ai_ac _ I'), K'.
  replace (2 * count w_in (ws (astep s t)) + 1) with (S (2 * count w_in (ws (astep s t)))) by lia.
  rewrite Nat.odd_succ, Nat.even_mul. reflexivity.
Qed.

(* the Close call that sets the bit sees exactly twice the number of Write calls inside the record layer *)
Lemma close_sees_writers : forall s j x, AInv s -> nth_error (cs s) j = Some (CLoaded x) -> ac s = x ->
  x = 2 * count w_in (ws s).
Proof.
  intros s j x I E Q. pose proof (ai_cl _ I _ _ E) as Ev.
  assert (K : count c_won (cs s) = 0).
  { apply (even_decomp (count w_in (ws s))); [|apply I]. rewrite <- (ai_ac _ I). rewrite Q. exact Ev. }
  pose proof (ai_ac _ I). lia.
Qed.


(* ---- a Close on the close_notify path never coexists with a Write inside the record layer ---- *)
Definition NInv (s : cst) : Prop :=
  forall j p, nth_error (cs s) j = Some p -> on_notify_path p = true -> count w_in (ws s) = 0.

Lemma notify_won : forall p, on_notify_path p = true -> c_won p = true.
Proof. intros [| | [|x] | | |]; simpl; intros; auto; discriminate. Qed.

Lemma count_pos : forall A (f : A -> bool) l j p, nth_error l j = Some p -> f p = true -> 1 <= count f l.
Proof.
  unfold count. induction l; intros [|j] p H F; simpl in *; try discriminate.
  - inversion H; subst. rewrite F. simpl. lia.
  - specialize (IHl _ _ H F). destruct (f a); simpl; lia.
Qed.

Lemma wstep_ninv : forall s i, AInv s -> NInv s -> NInv (wstep s i).
Proof.
  intros s i I N j p Hj Hp.
  assert (Hcs : cs (wstep s i) = cs s).
  { unfold wstep. destruct (nth_error (ws s) i) as [[|x| | |]|]; simpl; auto;
      [destruct (Nat.odd (ac s))|destruct (ac s =? x)]; reflexivity. }
  rewrite Hcs in Hj. pose proof (N _ _ Hj Hp) as Z.
  assert (C : closed_bit s = true).
  { unfold closed_bit. pose proof (count_pos _ c_won _ _ _ Hj (notify_won _ Hp)) as P. pose proof (ai_one _ I).
    rewrite (ai_ac _ I). replace (count c_won (cs s)) with 1 by lia. rewrite Z. reflexivity. }
  destruct (closed_no_entry s i I C) as [L _]. lia.
Qed.

Lemma cstep_ninv : forall s j, AInv s -> NInv s -> NInv (cstep s j).
Proof.
  intros s j I N k p Hk Hp. unfold cstep in *.
  destruct (nth_error (cs s) j) as [[|x|x| | |]|] eqn:E; simpl in *; try (eapply N; eauto; fail).
  - destruct (Nat.odd (ac s)); simpl in *; apply nth_error_upd_cases in Hk;
      (destruct Hk as [[_ Hk]|Hk]; [subst p; discriminate | eapply N; eauto]).
  - destruct (ac s =? x) eqn:Q; simpl in *; apply nth_error_upd_cases in Hk.
    + destruct Hk as [[_ Hk]|Hk]; [|eapply N; eauto]. subst p. apply Nat.eqb_eq in Q.
      destruct x; [|discriminate]. pose proof (ai_ac _ I). lia.
    + destruct Hk as [[_ Hk]|Hk]; [subst p; discriminate | eapply N; eauto].
  - apply nth_error_upd_cases in Hk. destruct Hk as [[_ Hk]|Hk]; [|eapply N; eauto].
    subst p. destruct x; simpl in Hp; [|discriminate]. eapply (N j (CWon 0)); eauto.
Qed.

Lemma ainit_ninv : forall nw nc, NInv (ainit nw nc).
Proof. intros nw nc j p H. simpl in H. apply nth_error_In in H. apply repeat_spec in H. subst. discriminate. Qed.

Lemma arun_ninv : forall sched s, AInv s -> NInv s -> NInv (arun s sched).
Proof.
  induction sched as [|[i|j] r IH]; simpl; intros s I N; auto.
  - apply IH; [apply wstep_inv | apply wstep_ninv]; auto.
  - apply IH; [apply cstep_inv | apply cstep_ninv]; auto.
Qed.
