(* C20 - the access table covers the writes found in the current source (and nothing in the tied rows is invented).
   If this file stops compiling, some exported entry point of sm2 / sm3 / sm4 / x509 / gmtls (Config, cache, loaders,
   Conn) now writes shared state that the access table does not know under these locks, or no longer performs a write
   the table lists, or calls through a function value / interface that is not on the reviewed list: compare
   coq/Gen/ConcWriteSets.v with coq/Conc/AccessTable.v and Conc/SourceTie.v. *)
From Coq Require Import List Arith Bool String.
From GmsmVerif Require Import Conc.AccessModel Conc.AccessTable Conc.SourceTie Gen.ConcWriteSets.
Import ListNotations.

Lemma covers_true : covers = true.
Proof. vm_compute. reflexivity. Qed.

Lemma found_in_src_true : found_in_src = true.
Proof. vm_compute. reflexivity. Qed.

Lemma covers_spec : forall e ws w, In (e, ws) gen_write_sets -> In w ws -> covered (rows_of_entry e) w = true.
Proof.
  intros e ws w He Hw. pose proof covers_true as H. unfold covers in H.
  rewrite forallb_forall in H. specialize (H _ He). simpl in H. rewrite forallb_forall in H. exact (H _ Hw).
Qed.

Lemma unattributed_ok_true : unattributed_ok = true.
Proof. vm_compute. reflexivity. Qed.

Lemma str_subset_spec : forall a b x, str_subset a b = true -> In x a -> In x b.
Proof.
  intros a b x H Hx. unfold str_subset in H. rewrite forallb_forall in H. specialize (H _ Hx).
  apply existsb_exists in H. destruct H as [y [Hy E]]. apply String.eqb_eq in E. subst. exact Hy.
Qed.

Lemma unattributed_spec :
  (forall x, In x gen_unattributed -> In x allowed_unattributed) /\ (forall x, In x gen_excluded -> In x allowed_excluded).
Proof.
  pose proof unattributed_ok_true as H. unfold unattributed_ok in H. apply andb_true_iff in H. destruct H as [A B].
  split; intros x Hx; [exact (str_subset_spec _ _ _ A Hx) | exact (str_subset_spec _ _ _ B Hx)].
Qed.

Lemma src_lock_order_ok_true : src_lock_order_ok = true.
Proof. vm_compute. reflexivity. Qed.

Lemma lock_order_tied_true : lock_order_tied = true.
Proof. vm_compute. reflexivity. Qed.

Lemma src_lock_order_spec : forall a b, In (a, b) gen_lock_order ->
  exists ra rb, src_rank a = Some ra /\ src_rank b = Some rb /\ ra < rb.
Proof.
  intros a b H. pose proof src_lock_order_ok_true as K. unfold src_lock_order_ok in K. rewrite forallb_forall in K.
  specialize (K _ H). simpl in K. destruct (src_rank a) as [ra|]; try discriminate. destruct (src_rank b) as [rb|]; try discriminate.
  exists ra, rb. repeat split; auto. apply Nat.ltb_lt. exact K.
Qed.

Lemma close_shortcut_ok_true : close_shortcut_ok = true.
Proof. vm_compute. reflexivity. Qed.

Lemma close_shortcut_spec : gen_close_shortcut_cond = close_shortcut_modelled.
Proof. apply String.eqb_eq. exact close_shortcut_ok_true. Qed.
