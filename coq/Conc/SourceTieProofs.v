(* C20 - the access table covers the writes found in the current source (and nothing in the tied rows is invented).
   If this file stops compiling, some exported entry point of sm2 / sm3 / sm4 / x509 / gmtls (Config, cache, loaders)
   now writes shared state that the access table does not know under these locks, or no longer performs a write the
   table lists: compare coq/Gen/ConcWriteSets.v with coq/Conc/AccessTable.v. *)
From Coq Require Import List Arith Bool String.
From GmsmVerif Require Import Conc.AccessModel Conc.AccessTable Conc.SourceTie Gen.ConcWriteSets.
Import ListNotations.

Lemma covers_true : covers = true.
Proof. vm_compute. reflexivity. Qed.

Lemma found_in_src_true : found_in_src = true.
Proof. vm_compute. reflexivity. Qed.

Lemma covers_spec : forall e ws w, In (e, ws) gen_write_sets -> In w ws -> covered (rows_of_entry e) w = true.
Proof.
  intros e ws w He Hw. pose proof covers_true as H. unfold covers in H.
  rewrite forallb_forall in H. specialize (H _ He). simpl in H. rewrite forallb_forall in H. exact (H _ Hw).
Qed.
