#!/bin/bash
# debug helper: run a .v file through coqtop and show the goal state before the first error
# usage: ./cq.sh File.v [context-lines] [timeout-seconds]
f="$1"; n="${2:-40}"; t="${3:-600}"
out=$(timeout "$t" coqtop -Q /verif/coq GmsmVerif < "$f" 2>&1); rc=$?
if [ $rc -eq 124 ]; then echo "TIMEOUT after ${t}s (coqtop killed: some tactic or Qed does not terminate in time) - last output:"; echo "$out" | tail -n 15; exit 124; fi
echo "$out" | awk -v n="$n" '
 { buf[NR]=$0 }
 /^Error|Error:/ && !found { found=NR }
 END { if (!found) { print "NO ERROR"; exit } s=found-n; if (s<1) s=1; for(i=s;i<=found+6&&i<=NR;i++) print buf[i] }'
