#!/bin/bash
# debug helper: run a .v file through coqtop and show the goal state before the first error
f="$1"; n="${2:-40}"
timeout 600 coqtop -Q /verif/coq GmsmVerif < "$f" 2>&1 | awk -v n="$n" '
 { buf[NR]=$0 }
 /^Error|Error:/ && !found { found=NR }
 END { if (!found) { print "NO ERROR"; exit } s=found-n; if (s<1) s=1; for(i=s;i<=found+6&&i<=NR;i++) print buf[i] }'
