(* Model of /repo/pkcs12/rc2.go, function by function.  No proofs in this file.

   Go objects modelled:
     byte, uint16            -> N; every arithmetic result is reduced explicitly (mod 256 / mod 65536)
     [64]uint16 (c.k)        -> list N of length 64, read with [nth j k 0]; a word is only ever used
                                through add16 / sub16, which reduce it mod 2^16
     piTable                 -> Gen.RC2Tables.gen_piTable (generated from the source)
     expandKey(key, t1)      -> [expandKey]: outcome, because the Go code panics on an empty key
                                (l[i-1] with i = 0) and on t1 outside 1..1024 (l[128-t8]);
                                t1 is taken >= 0 (N)
     rotl16                  -> [rotl16]
     rc2Cipher.Encrypt    -> [rc2_encrypt] : key words -> src -> outcome (8 bytes written to dst)
     rc2Cipher.Decrypt    -> [rc2_decrypt]
     New(key, t1)            -> [rc2_New]
   src shorter than 8 bytes is a Go run-time panic (src[6:] / Uint16 bounds check) -> [Panic];
   a longer src is legal, only its first 8 bytes are read.  dst is taken to have room for 8 bytes
   (the result is the 8 bytes stored). *)
From Coq Require Import List NArith ZArith Arith Bool.
From GmsmVerif Require Import Lib.Outcome Gen.RC2Tables.
Import ListNotations.
Open Scope N_scope.

Notation byte := N (only parsing).

(* ---------- uint16 / byte arithmetic ------------------------------------------------------- *)
Definition add16 (x y : N) : N := (x + y) mod 65536.
Definition sub16 (x y : N) : N := (x + 65536 - y mod 65536) mod 65536.
Definition not16 (x : N) : N := N.lxor x 65535.           (* ^x on a uint16 *)

(* func rotl16(x uint16, b uint) uint16 { return (x >> (16 - b)) | (x << b) } *)
Definition rotl16 (x : N) (b : N) : N :=
  (N.lor (N.shiftr x (16 - b)) (N.shiftl x b)) mod 65536.

Definition pi (x : N) : byte := nth (N.to_nat x) gen_piTable 0.

(* l[i] = x on a slice (no effect out of range; every use below is in range) *)
Fixpoint upd (l : list N) (i : nat) (x : N) : list N :=
  match l, i with
  | [], _ => []
  | _ :: t, O => x :: t
  | h :: t, S i' => h :: upd t i' x
  end.

(* ---------- expandKey ------------------------------------------------------------------------ *)
(* for i := len(key); i < 128; i++ { l[i] = piTable[l[i-1]+l[uint8(i-t)]] }
   n = number of iterations left, i counts up; i >= 1 here (the empty key is caught by the caller) *)
Fixpoint expand_loop1 (n : nat) (i t : nat) (l : list byte) : list byte :=
  match n with
  | O => l
  | S n' =>
    let x := pi ((nth (i - 1) l 0 + nth ((i - t) mod 256)%nat l 0) mod 256) in
    expand_loop1 n' (S i) t (upd l i x)
  end.

(* for i := 127 - t8; i >= 0; i-- { l[i] = piTable[l[i+1]^l[i+t8]] }  (n = i + 1) *)
Fixpoint expand_loop2 (n : nat) (t8 : nat) (l : list byte) : list byte :=
  match n with
  | O => l
  | S i => expand_loop2 i t8 (upd l i (pi (N.lxor (nth (i + 1) l 0) (nth (i + t8) l 0))))
  end.

(* for i := range k { k[i] = uint16(l[2*i]) + uint16(l[2*i+1])*256 } *)
Fixpoint key_words (n : nat) (l : list byte) : list N :=
  match n with
  | O => []
  | S n' =>
    match l with
    | a :: b :: rest => (a + b * 256) mod 65536 :: key_words n' rest
    | _ => []
    end
  end.

(* func expandKey(key []byte, t1 int) [64]uint16 *)
Definition expandKey (key : list byte) (t1 : N) : outcome (list N) :=
  let t := length key in
  (* l := make([]byte, 128); copy(l, key) *)
  let l := firstn 128 (key ++ repeat 0 128) in
  let t8 := (t1 + 7) / 8 in
  (* tm = byte(255 % uint(1<<(8+uint(t1)-8*uint(t8)))) *)
  let tm := (255 mod (N.shiftl 1 (8 + t1 - 8 * t8))) mod 256 in
  if (t =? 0)%nat then Panic                       (* l[i-1] with i = 0 *)
  else
    let l := expand_loop1 (128 - t) t t l in
    if (t8 =? 0) || (128 <? t8) then Panic         (* l[128-t8] out of range *)
    else
      let t8n := N.to_nat t8 in
      let l := upd l (128 - t8n) (pi (N.land (nth (128 - t8n) l 0) tm)) in
      let l := expand_loop2 (128 - t8n) t8n l in
      Ok (key_words 64 l).

(* func New(key []byte, t1 int) (cipher.Block, error): the cipher object is its expanded key *)
Definition rc2_New (key : list byte) (t1 : N) : outcome (list N) := expandKey key t1.

(* ---------- the block functions ---------------------------------------------------------------- *)
Record regs := mkRegs { R0 : N; R1 : N; R2 : N; R3 : N }.

(* c.k[j] *)
Definition K (k : list N) (j : nat) : N := nth j k 0.
(* c.k[r&63] *)
Definition Kx (k : list N) (r : N) : N := nth (N.to_nat (N.land r 63)) k 0.

(* r = r + c.k[j] + (a & b) + ((^a) & c);  r = rotl16(r, s) *)
Definition mix (r kj a b c s : N) : N :=
  rotl16 (add16 (add16 (add16 r kj) (N.land a b)) (N.land (not16 a) c)) s.

(* r = rotl16(r, 16-s);  r = r - c.k[j] - (a & b) - ((^a) & c) *)
Definition unmix (r kj a b c s : N) : N :=
  sub16 (sub16 (sub16 (rotl16 r (16 - s)) kj) (N.land a b)) (N.land (not16 a) c).

(* one pass of a "for j <= bound" loop body: mix r0, r1, r2, r3 with k[j..j+3] *)
Definition mix_round (k : list N) (j : nat) (st : regs) : regs :=
  let '(mkRegs r0 r1 r2 r3) := st in
  let r0 := mix r0 (K k j) r3 r2 r1 1 in
  let r1 := mix r1 (K k (j + 1)) r0 r3 r2 2 in
  let r2 := mix r2 (K k (j + 2)) r1 r0 r3 3 in
  let r3 := mix r3 (K k (j + 3)) r2 r1 r0 5 in
  mkRegs r0 r1 r2 r3.

(* r0 = r0 + c.k[r3&63]; r1 = r1 + c.k[r0&63]; r2 = r2 + c.k[r1&63]; r3 = r3 + c.k[r2&63] *)
Definition mash (k : list N) (st : regs) : regs :=
  let '(mkRegs r0 r1 r2 r3) := st in
  let r0 := add16 r0 (Kx k r3) in
  let r1 := add16 r1 (Kx k r0) in
  let r2 := add16 r2 (Kx k r1) in
  let r3 := add16 r3 (Kx k r2) in
  mkRegs r0 r1 r2 r3.

(* "for j <= bound { ...; j += 4 }"; returns the final j.  The loops run at most 6 times; the
   callers pass fuel 7, so the fuel never decides. *)
Fixpoint enc_loop (fuel : nat) (k : list N) (bound j : nat) (st : regs) : nat * regs :=
  match fuel with
  | O => (j, st)
  | S fuel' =>
    if (j <=? bound)%nat then enc_loop fuel' k bound (j + 4) (mix_round k j st) else (j, st)
  end.

(* one pass of a "for j >= bound" loop body of Decrypt: unmix r3, r2, r1, r0 with k[j..j-3].
   j is a Go int that ends at -1, hence Z. *)
Definition KZ (k : list N) (j : Z) : N := nth (Z.to_nat j) k 0.

Definition unmix_round (k : list N) (j : Z) (st : regs) : regs :=
  let '(mkRegs r0 r1 r2 r3) := st in
  let r3 := unmix r3 (KZ k j) r2 r1 r0 5 in
  let r2 := unmix r2 (KZ k (j - 1)) r1 r0 r3 3 in
  let r1 := unmix r1 (KZ k (j - 2)) r0 r3 r2 2 in
  let r0 := unmix r0 (KZ k (j - 3)) r3 r2 r1 1 in
  mkRegs r0 r1 r2 r3.

(* r3 = r3 - c.k[r2&63]; r2 = r2 - c.k[r1&63]; r1 = r1 - c.k[r0&63]; r0 = r0 - c.k[r3&63] *)
Definition unmash (k : list N) (st : regs) : regs :=
  let '(mkRegs r0 r1 r2 r3) := st in
  let r3 := sub16 r3 (Kx k r2) in
  let r2 := sub16 r2 (Kx k r1) in
  let r1 := sub16 r1 (Kx k r0) in
  let r0 := sub16 r0 (Kx k r3) in
  mkRegs r0 r1 r2 r3.

Fixpoint dec_loop (fuel : nat) (k : list N) (bound j : Z) (st : regs) : Z * regs :=
  match fuel with
  | O => (j, st)
  | S fuel' =>
    if (bound <=? j)%Z then dec_loop fuel' k bound (j - 4)%Z (unmix_round k j st) else (j, st)
  end.

(* binary.LittleEndian.Uint16(src[o:]) on bytes already checked to exist *)
Definition le16 (src : list byte) (o : nat) : N :=
  (nth o src 0 mod 256) + 256 * (nth (o + 1) src 0 mod 256).

Definition load_regs (src : list byte) : regs :=
  mkRegs (le16 src 0) (le16 src 2) (le16 src 4) (le16 src 6).

(* binary.LittleEndian.PutUint16(dst[0:], r0) ... (dst[6:], r3) *)
Definition store_regs (st : regs) : list byte :=
  let '(mkRegs r0 r1 r2 r3) := st in
  [r0 mod 256; (r0 / 256) mod 256; r1 mod 256; (r1 / 256) mod 256;
   r2 mod 256; (r2 / 256) mod 256; r3 mod 256; (r3 / 256) mod 256].

Definition encrypt_regs (k : list N) (st : regs) : regs :=
  let '(j, st) := enc_loop 7 k 16 0 st in
  let st := mash k st in
  let '(j, st) := enc_loop 7 k 40 j st in
  let st := mash k st in
  let '(j, st) := enc_loop 7 k 60 j st in
  st.

Definition decrypt_regs (k : list N) (st : regs) : regs :=
  let '(j, st) := dec_loop 7 k 44 63 st in
  let st := unmash k st in
  let '(j, st) := dec_loop 7 k 20 j st in
  let st := unmash k st in
  let '(j, st) := dec_loop 7 k 0 j st in
  st.

(* func (c rc2Cipher) Encrypt(dst, src []byte) *)
Definition rc2_encrypt (k : list N) (src : list byte) : outcome (list byte) :=
  if (length src <? 8)%nat then Panic
  else Ok (store_regs (encrypt_regs k (load_regs src))).

(* func (c rc2Cipher) Decrypt(dst, src []byte) *)
Definition rc2_decrypt (k : list N) (src : list byte) : outcome (list byte) :=
  if (length src <? 8)%nat then Panic
  else Ok (store_regs (decrypt_regs k (load_regs src))).
