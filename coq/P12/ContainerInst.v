(* The whole-container PKCS#12 model instantiated with the models of pkcs12/pbkdf.go (P12/PbkdfModel.v,
   proved equal to RFC 7292 B.2) and pkcs12/rc2.go (P12/RC2Model.v, proved invertible): the hypotheses
   [kdf_ok] and [create_ok] of P12/ContainerProofs.v hold for them, given a 20-byte hash and a 3DES that
   inverts. *)
From Coq Require Import List NArith ZArith Bool Arith Lia ZifyN ZifyNat ZifyBool.
From GmsmVerif Require Import Lib.Outcome Dec.Access Dec.AccessProofs P12.RC2Model P12.RC2Proofs
  P12.PbkdfSpec P12.PbkdfModel P12.PbkdfProofs P12.ContainerModel P12.ContainerProofs.
Import ListNotations.
Local Open Scope nat_scope.

Section Inst.
  Variable H : list N -> list N.                              (* sha1Sum *)
  Hypothesis H_len : forall x, length (H x) = 20.
  Hypothesis H_bytes : forall x, bytes_ok (H x).
  (* pbkdf(sha1Sum, 20, 64, salt, password, iterations, ID, size) *)
  Definition kdf_inst (id : N) (size : nat) (salt password : list N) (it : Z) : outcome (list N) :=
    pbkdf_model H 20 64 salt password it id size.

  Lemma H_iter_props r x : 1 <= r -> length (H_iter H r x) = 20 /\ bytes_ok (H_iter H r x).
  Proof.
    revert x; induction r as [|r IH]; intros x Hr; [lia|]. cbn [H_iter].
    destruct r as [|r']; [cbn [H_iter]; auto|]. apply IH. lia.
  Qed.

  Lemma rounds_props n r D I : 1 <= r ->
    length (rounds H 64 n r D I) = n * 20 /\ bytes_ok (rounds H 64 n r D I).
  Proof.
    intros Hr. revert I; induction n as [|n IH]; intros I; cbn [rounds]; [split; [reflexivity|constructor]|].
    destruct (H_iter_props r (D ++ I) Hr) as [L B]. destruct (IH (next_I 64 I (H_iter H r (D ++ I)))) as [L2 B2].
    split; [rewrite app_length; lia|apply Forall_app; split; assumption].
  Qed.

  Lemma kdf_inst_ok id size salt pw it : (it = 2048 \/ it = 1)%Z ->
    exists k, kdf_inst id size salt pw it = Ok k /\ length k = size /\ bytes_ok k.
  Proof.
    intros Hit. unfold kdf_inst.
    set (r := Z.to_nat it). assert (Hr : 1 <= r) by (unfold r; lia).
    replace it with (Z.of_nat r) by (unfold r; lia).
    rewrite (pbkdf_model_is_spec H 64 ltac:(lia) H_len salt pw r id size Hr).
    eexists. split; [reflexivity|]. unfold pbkdf_spec.
    destruct (rounds_props (ceil_div size 20) r (repeat id 64) (stretch 64 salt ++ stretch 64 pw) Hr) as [L B].
    split.
    - rewrite firstn_length, L. pose proof (ceil_mul_ge size 20 ltac:(lia)). unfold ceil_div. lia.
    - unfold bytes_ok in *. rewrite <- (firstn_skipn size) in B. apply Forall_app in B. tauto.
  Qed.

End Inst.

Section InstCreate.
  Variable des_enc des_dec : list N -> list N -> list N.      (* des.NewTripleDESCipher(key).Encrypt / Decrypt on one block *)
  Hypothesis des_ok : forall key x, length x = 8 -> bytes_ok x ->
    length (des_enc key x) = 8 /\ bytes_ok (des_enc key x) /\ des_dec key (des_enc key x) = x.

  (* shaWithTripleDESCBC.create / shaWith40BitRC2CBC.create *)
  Definition create_inst (alg : pbeAlg) (key : list N) : outcome (blockfn * blockfn) :=
    match alg with
    | PBE3DES => if Nat.eqb (length key) 24
                 then Ok ((fun b => Ok (des_enc key b)) : blockfn, (fun b => Ok (des_dec key b)) : blockfn)
                 else Err 21
    | PBERC2 => do k <- rc2_New key (N.of_nat (8 * length key)); Ok (rc2_encrypt k : blockfn, rc2_decrypt k : blockfn)
    | PBEOther => Err 20
    end.

  Lemma create_inst_ok alg key : alg <> PBEOther -> length key = keySize alg ->
    exists E D, create_inst alg key = Ok (E, D) /\ block_ok E D.
  Proof.
    intros Ha Hk. destruct alg; [| |congruence]; cbn [keySize] in Hk; unfold create_inst.
    - rewrite Hk. cbn [Nat.eqb]. eexists _, _. split; [reflexivity|].
      intros x Hx Hxo. destruct (des_ok key x Hx Hxo) as (L & B & Dx).
      eexists. split; [reflexivity|]. split; [exact L|]. split; [exact B|]. rewrite Dx. reflexivity.
    - rewrite Hk.
      destruct (rc2_cipher_roundtrip key (N.of_nat (8 * 5))) as (k & Ek & Hrt).
      { intros ->. cbn in Hk. lia. }
      { lia. }
      rewrite Ek. cbn [obind]. eexists _, _. split; [reflexivity|].
      intros x Hx Hxo. destruct (Hrt x Hx Hxo) as [Hde _].
      destruct (rc2_encrypt_outcome k x) as [[Hs _]|[_ (out & Eo & Lo & Bo)]]; [lia|].
      exists out. split; [exact Eo|]. split; [exact Lo|]. split; [exact Bo|].
      rewrite Eo in Hde. cbn [obind] in Hde. exact Hde.
  Qed.
End InstCreate.
