(* The PKCS#12 key derivation of RFC 7292, Appendix B.2, transcribed from the RFC text (not from
   the Go code).  Everything is counted in bytes: u and v are the output and block length of the
   hash H in BYTES (the RFC counts bits and assumes multiples of 8), n is the number of bytes wanted.

     1. D = v copies of ID
     2. S = copies of the salt concatenated to length v*ceil(s/v), the last copy possibly truncated;
        empty if the salt is empty
     3. P = likewise from the password
     4. I = S || P
     5. c = ceil(n/u)
     6. for i = 1..c:  A_i = H^r(D || I);  B = copies of A_i concatenated and truncated to v bytes;
        I = I_0 .. I_(k-1) in v-byte blocks, I_j := (I_j + B + 1) mod 2^(8v)
     7. A = A_1 || ... || A_c        8. the first n bytes of A.                                     *)
From Coq Require Import List NArith Arith.
Import ListNotations.

Notation byte := N (only parsing).

(* the first n bytes of pat pat pat ...  (n copies are always enough for a non-empty pat) *)
Definition copies_truncated (pat : list byte) (n : nat) : list byte := firstn n (concat (repeat pat n)).

Definition ceil_div (a b : nat) : nat := (a + b - 1) / b.

(* a byte string as a big-endian number, and back to exactly len bytes *)
Definition be2N (l : list byte) : N := fold_left (fun acc b => (acc * 256 + b)%N) l 0%N.
Fixpoint N2be (len : nat) (x : N) : list byte :=
  match len with
  | O => []
  | S len' => N2be len' (x / 256)%N ++ [(x mod 256)%N]
  end.

Section PbkdfSpec.
  Variable H : list byte -> list byte.
  Variables u v : nat.                 (* output length and block length of H, in bytes *)

  Definition stretch (x : list byte) : list byte :=
    match x with
    | [] => []
    | _ => copies_truncated x (v * ceil_div (length x) v)
    end.

  (* I as k = n blocks of v bytes *)
  Fixpoint blocks (n : nat) (I : list byte) : list (list byte) :=
    match n with
    | O => []
    | S n' => firstn v I :: blocks n' (skipn v I)
    end.

  (* step 6.B and 6.C *)
  Definition next_I (I Ai : list byte) : list byte :=
    let B := copies_truncated Ai v in
    concat (map (fun Ij => N2be v ((be2N Ij + be2N B + 1) mod 2 ^ (8 * N.of_nat v))%N)
                (blocks (length I / v) I)).

  (* H^r *)
  Fixpoint H_iter (r : nat) (x : list byte) : list byte :=
    match r with
    | O => x
    | S r' => H_iter r' (H x)
    end.

  (* A_i || ... || A_c for the c - i + 1 = n remaining rounds, from the current I *)
  Fixpoint rounds (n : nat) (r : nat) (D I : list byte) : list byte :=
    match n with
    | O => []
    | S n' =>
      let Ai := H_iter r (D ++ I) in
      Ai ++ rounds n' r D (next_I I Ai)
    end.

  Definition pbkdf_spec (salt password : list byte) (r : nat) (ID : byte) (n : nat) : list byte :=
    let D := repeat ID v in
    let S := stretch salt in
    let P := stretch password in
    let I := S ++ P in
    let c := ceil_div n u in
    firstn n (rounds c r D I).
End PbkdfSpec.
