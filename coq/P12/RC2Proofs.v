(* Proofs about the model of /repo/pkcs12/rc2.go (P12/RC2Model.v):
   - the model reproduces the RFC 2268 section 5 test vectors (key expansion + encryption);
   - Decrypt after Encrypt, and Encrypt after Decrypt, give the block back, for EVERY list of key
     words (no hypothesis on the key at all: neither its length nor the size of its entries matter,
     because a key word is only ever used reduced mod 2^16 and read with a default) and every block
     of 8 bytes.
   Method: a mixing step r' = rotl16 (r + k + (a&b) + (~a&c)) s is undone by rotl16 r' (16-s)
   (P12/RC2Sweeps.v: complete sweep of the 65536 words for s = 1,2,3,5) followed by the three
   subtractions mod 2^16; a mashing step is undone by the subtractions in reverse order; the 16
   mixing rounds and 2 mashing rounds are then peeled off one by one. *)
From Coq Require Import List NArith ZArith Arith Bool Lia ZifyN ZifyNat ZifyBool.
From GmsmVerif Require Import Lib.Outcome Gen.RC2Tables P12.RC2Model P12.RC2Sweeps.
Import ListNotations.
Open Scope N_scope.

(* ---------- RFC 2268 section 5 test vectors ---------------------------------------------------- *)
Definition rc2_enc_kat (key : list N) (t1 : N) (pt : list N) : outcome (list N) :=
  obind (rc2_New key t1) (fun k => rc2_encrypt k pt).
Definition rc2_dec_kat (key : list N) (t1 : N) (ct : list N) : outcome (list N) :=
  obind (rc2_New key t1) (fun k => rc2_decrypt k ct).

Example rfc2268_vec1 :
  rc2_enc_kat (repeat 0 8) 63 (repeat 0 8) = Ok [0xeb; 0xb7; 0x73; 0xf9; 0x93; 0x27; 0x8e; 0xff].
Proof. vm_compute. reflexivity. Qed.
Example rfc2268_vec2 :
  rc2_enc_kat (repeat 0xff 8) 64 (repeat 0xff 8) = Ok [0x27; 0x8b; 0x27; 0xe4; 0x2e; 0x2f; 0x0d; 0x49].
Proof. vm_compute. reflexivity. Qed.
Example rfc2268_vec3 :
  rc2_enc_kat [0x30; 0; 0; 0; 0; 0; 0; 0] 64 [0x10; 0; 0; 0; 0; 0; 0; 0x01]
  = Ok [0x30; 0x64; 0x9e; 0xdf; 0x9b; 0xe7; 0xd2; 0xc2].
Proof. vm_compute. reflexivity. Qed.
Example rfc2268_vec4 :
  rc2_enc_kat [0x88] 64 (repeat 0 8) = Ok [0x61; 0xa8; 0xa2; 0x44; 0xad; 0xac; 0xcc; 0xf0].
Proof. vm_compute. reflexivity. Qed.
Example rfc2268_vec5 :
  rc2_enc_kat [0x88; 0xbc; 0xa9; 0x0e; 0x90; 0x87; 0x5a] 64 (repeat 0 8)
  = Ok [0x6c; 0xcf; 0x43; 0x08; 0x97; 0x4c; 0x26; 0x7f].
Proof. vm_compute. reflexivity. Qed.
Definition key16 : list N :=
  [0x88; 0xbc; 0xa9; 0x0e; 0x90; 0x87; 0x5a; 0x7f; 0x0f; 0x79; 0xc3; 0x84; 0x62; 0x7b; 0xaf; 0xb2].
Example rfc2268_vec6 :
  rc2_enc_kat key16 64 (repeat 0 8) = Ok [0x1a; 0x80; 0x7d; 0x27; 0x2b; 0xbe; 0x5d; 0xb1].
Proof. vm_compute. reflexivity. Qed.
Example rfc2268_vec7 :
  rc2_enc_kat key16 128 (repeat 0 8) = Ok [0x22; 0x69; 0x55; 0x2a; 0xb0; 0xf8; 0x5c; 0xa6].
Proof. vm_compute. reflexivity. Qed.
Example rfc2268_vec8 :
  rc2_enc_kat (key16 ++ [0x16; 0xf8; 0x0a; 0x6f; 0x85; 0x92; 0x05; 0x84; 0xc4; 0x2f; 0xce; 0xb0;
                         0xbe; 0x25; 0x5d; 0xaf; 0x1e]) 129 (repeat 0 8)
  = Ok [0x5b; 0x78; 0xd3; 0xa4; 0x3d; 0xff; 0xf1; 0xf1].
Proof. vm_compute. reflexivity. Qed.
Example rfc2268_vec1_dec :
  rc2_dec_kat (repeat 0 8) 63 [0xeb; 0xb7; 0x73; 0xf9; 0x93; 0x27; 0x8e; 0xff] = Ok (repeat 0 8).
Proof. vm_compute. reflexivity. Qed.

(* the panics of the Go code that the model keeps *)
Example expandKey_empty_key_panics : expandKey [] 64 = Panic.
Proof. vm_compute. reflexivity. Qed.
Example expandKey_t1_zero_panics : expandKey [1; 2; 3] 0 = Panic.
Proof. vm_compute. reflexivity. Qed.
Example expandKey_t1_large_panics : expandKey [1; 2; 3] 1025 = Panic.
Proof. vm_compute. reflexivity. Qed.
Example encrypt_short_block_panics : rc2_encrypt [] [1; 2; 3; 4; 5; 6; 7] = Panic.
Proof. vm_compute. reflexivity. Qed.

(* ---------- arithmetic mod 2^16 ------------------------------------------------------------------ *)
Lemma add16_Z x y : Z.of_N (add16 x y) = ((Z.of_N x + Z.of_N y) mod 65536)%Z.
Proof. unfold add16. lia. Qed.
Lemma sub16_Z x y : Z.of_N (sub16 x y) = ((Z.of_N x - Z.of_N y) mod 65536)%Z.
Proof. unfold sub16. lia. Qed.

Lemma add16_lt a b : add16 a b < 65536.
Proof. unfold add16. apply N.mod_lt. discriminate. Qed.
Lemma sub16_lt a b : sub16 a b < 65536.
Proof. unfold sub16. apply N.mod_lt. discriminate. Qed.

Lemma sub16_add16 a b : a < 65536 -> sub16 (add16 a b) b = a.
Proof.
  intros Ha. apply N2Z.inj. rewrite sub16_Z, add16_Z, Zminus_mod_idemp_l.
  replace (Z.of_N a + Z.of_N b - Z.of_N b)%Z with (Z.of_N a) by ring.
  apply Z.mod_small. lia.
Qed.
Lemma add16_sub16 a b : a < 65536 -> add16 (sub16 a b) b = a.
Proof.
  intros Ha. apply N2Z.inj. rewrite add16_Z, sub16_Z, Zplus_mod_idemp_l.
  replace (Z.of_N a - Z.of_N b + Z.of_N b)%Z with (Z.of_N a) by ring.
  apply Z.mod_small. lia.
Qed.
Lemma sub16_add16_comm a b c : sub16 (add16 a b) c = add16 (sub16 a c) b.
Proof.
  apply N2Z.inj. rewrite sub16_Z, add16_Z, add16_Z, sub16_Z, Zminus_mod_idemp_l, Zplus_mod_idemp_l.
  f_equal. ring.
Qed.

Lemma sub_add3 r k x y : r < 65536 ->
  sub16 (sub16 (sub16 (add16 (add16 (add16 r k) x) y) k) x) y = r.
Proof.
  intros Hr.
  rewrite (sub16_add16_comm _ y k), (sub16_add16_comm _ x k), (sub16_add16 r k Hr).
  rewrite (sub16_add16_comm _ y x), (sub16_add16 r x Hr).
  apply sub16_add16; exact Hr.
Qed.
Lemma add_sub3 r k x y : r < 65536 ->
  add16 (add16 (add16 (sub16 (sub16 (sub16 r k) x) y) k) x) y = r.
Proof.
  intros Hr.
  rewrite <- (sub16_add16_comm _ k y), <- (sub16_add16_comm _ k x), (add16_sub16 r k Hr).
  rewrite <- (sub16_add16_comm _ x y), (add16_sub16 r x Hr).
  apply add16_sub16; exact Hr.
Qed.

(* ---------- one mixing step, one mashing step ---------------------------------------------------- *)
Lemma unmix_mix r kj a b c s : rc2_shift s -> r < 65536 -> unmix (mix r kj a b c s) kj a b c s = r.
Proof.
  intros Hs Hr. unfold mix, unmix.
  rewrite (rotl16_back s _ Hs (add16_lt _ _)). apply sub_add3; exact Hr.
Qed.
Lemma mix_unmix r kj a b c s : rc2_shift s -> r < 65536 -> mix (unmix r kj a b c s) kj a b c s = r.
Proof.
  intros Hs Hr. unfold mix, unmix.
  rewrite (add_sub3 _ _ _ _ (rotl16_lt r (16 - s))). apply rotl16_forth; assumption.
Qed.
Lemma mix_lt r kj a b c s : mix r kj a b c s < 65536.
Proof. apply rotl16_lt. Qed.
Lemma unmix_lt r kj a b c s : unmix r kj a b c s < 65536.
Proof. apply sub16_lt. Qed.

Definition wf (st : regs) : Prop := R0 st < 65536 /\ R1 st < 65536 /\ R2 st < 65536 /\ R3 st < 65536.

Lemma sh1 : rc2_shift 1. Proof. unfold rc2_shift; auto. Qed.
Lemma sh2 : rc2_shift 2. Proof. unfold rc2_shift; auto. Qed.
Lemma sh3 : rc2_shift 3. Proof. unfold rc2_shift; auto. Qed.
Lemma sh5 : rc2_shift 5. Proof. unfold rc2_shift; auto. Qed.

Lemma KZ_K k j d : (d <= 3)%nat -> KZ k (Z.of_nat j + 3 - Z.of_nat d) = K k (j + 3 - d).
Proof. intros Hd. unfold KZ, K. f_equal. lia. Qed.

Lemma mix_round_wf k j st : wf (mix_round k j st).
Proof. destruct st; cbn [mix_round]. repeat split; apply mix_lt. Qed.
Lemma unmix_round_wf k j st : wf (unmix_round k j st).
Proof. destruct st; cbn [unmix_round]. repeat split; apply unmix_lt. Qed.
Lemma mash_wf k st : wf (mash k st).
Proof. destruct st; cbn [mash]. repeat split; apply add16_lt. Qed.
Lemma unmash_wf k st : wf (unmash k st).
Proof. destruct st; cbn [unmash]. repeat split; apply sub16_lt. Qed.

Lemma KZ_round k j :
  KZ k (Z.of_nat j + 3) = K k (j + 3) /\ KZ k (Z.of_nat j + 3 - 1) = K k (j + 2) /\
  KZ k (Z.of_nat j + 3 - 2) = K k (j + 1) /\ KZ k (Z.of_nat j + 3 - 3) = K k j.
Proof. unfold KZ, K. repeat split; f_equal; lia. Qed.

Lemma unmix_mix_round k j st : wf st -> unmix_round k (Z.of_nat j + 3) (mix_round k j st) = st.
Proof.
  destruct st as [r0 r1 r2 r3]. intros (H0 & H1 & H2 & H3). cbn [R0 R1 R2 R3] in *.
  destruct (KZ_round k j) as (E3 & E2 & E1 & E0).
  cbn [mix_round unmix_round]. rewrite E3, E2, E1, E0.
  rewrite (unmix_mix r3 _ _ _ _ 5 sh5 H3).
  rewrite (unmix_mix r2 _ _ _ _ 3 sh3 H2).
  rewrite (unmix_mix r1 _ _ _ _ 2 sh2 H1).
  rewrite (unmix_mix r0 _ _ _ _ 1 sh1 H0).
  reflexivity.
Qed.

Lemma mix_unmix_round k j st : wf st -> mix_round k j (unmix_round k (Z.of_nat j + 3) st) = st.
Proof.
  destruct st as [r0 r1 r2 r3]. intros (H0 & H1 & H2 & H3). cbn [R0 R1 R2 R3] in *.
  destruct (KZ_round k j) as (E3 & E2 & E1 & E0).
  cbn [mix_round unmix_round]. rewrite E3, E2, E1, E0.
  rewrite (mix_unmix r0 _ _ _ _ 1 sh1 H0).
  rewrite (mix_unmix r1 _ _ _ _ 2 sh2 H1).
  rewrite (mix_unmix r2 _ _ _ _ 3 sh3 H2).
  rewrite (mix_unmix r3 _ _ _ _ 5 sh5 H3).
  reflexivity.
Qed.

Lemma unmash_mash k st : wf st -> unmash k (mash k st) = st.
Proof.
  destruct st as [r0 r1 r2 r3]. intros (H0 & H1 & H2 & H3). cbn [R0 R1 R2 R3] in *.
  cbn [mash unmash].
  rewrite (sub16_add16 r3 _ H3), (sub16_add16 r2 _ H2), (sub16_add16 r1 _ H1), (sub16_add16 r0 _ H0).
  reflexivity.
Qed.
Lemma mash_unmash k st : wf st -> mash k (unmash k st) = st.
Proof.
  destruct st as [r0 r1 r2 r3]. intros (H0 & H1 & H2 & H3). cbn [R0 R1 R2 R3] in *.
  cbn [mash unmash].
  rewrite (add16_sub16 r0 _ H0), (add16_sub16 r1 _ H1), (add16_sub16 r2 _ H2), (add16_sub16 r3 _ H3).
  reflexivity.
Qed.

(* ---------- the loops, unrolled ------------------------------------------------------------------- *)
Definition enc_rounds (k : list N) (js : list nat) (st : regs) : regs :=
  fold_left (fun s j => mix_round k j s) js st.
Definition dec_rounds (k : list N) (js : list Z) (st : regs) : regs :=
  fold_left (fun s j => unmix_round k j s) js st.
Definition last_j (js : list nat) : list Z := rev (map (fun j => (Z.of_nat j + 3)%Z) js).

Definition js1 : list nat := [0; 4; 8; 12; 16]%nat.
Definition js2 : list nat := [20; 24; 28; 32; 36; 40]%nat.
Definition js3 : list nat := [44; 48; 52; 56; 60]%nat.

Lemma encrypt_regs_unroll k st :
  encrypt_regs k st = enc_rounds k js3 (mash k (enc_rounds k js2 (mash k (enc_rounds k js1 st)))).
Proof. reflexivity. Qed.

Lemma decrypt_regs_unroll k st :
  decrypt_regs k st =
  dec_rounds k (last_j js1) (unmash k (dec_rounds k (last_j js2) (unmash k (dec_rounds k (last_j js3) st)))).
Proof. reflexivity. Qed.

Lemma enc_rounds_wf k js st : wf st -> wf (enc_rounds k js st).
Proof.
  revert st; induction js as [|j js IH]; intros st H; cbn [enc_rounds fold_left]; [exact H|].
  apply IH. apply mix_round_wf.
Qed.
Lemma dec_rounds_wf k js st : wf st -> wf (dec_rounds k js st).
Proof.
  revert st; induction js as [|j js IH]; intros st H; cbn [dec_rounds fold_left]; [exact H|].
  apply IH. apply unmix_round_wf.
Qed.

Lemma dec_enc_rounds k js st : wf st -> dec_rounds k (last_j js) (enc_rounds k js st) = st.
Proof.
  revert st; induction js as [|j js IH]; intros st H; [reflexivity|].
  unfold last_j, dec_rounds, enc_rounds in *. cbn [map rev fold_left].
  rewrite fold_left_app. cbn [fold_left].
  rewrite IH by apply mix_round_wf. apply unmix_mix_round; exact H.
Qed.
Lemma enc_dec_rounds k js st : wf st -> enc_rounds k js (dec_rounds k (last_j js) st) = st.
Proof.
  revert st; induction js as [|j js IH]; intros st H; [reflexivity|].
  unfold last_j, dec_rounds, enc_rounds in *. cbn [map rev fold_left].
  rewrite fold_left_app. cbn [fold_left].
  rewrite mix_unmix_round by (apply (dec_rounds_wf k _ st H)). apply IH; exact H.
Qed.

Lemma decrypt_encrypt_regs k st : wf st -> decrypt_regs k (encrypt_regs k st) = st.
Proof.
  intros H. rewrite decrypt_regs_unroll, encrypt_regs_unroll.
  rewrite dec_enc_rounds by apply mash_wf.
  rewrite unmash_mash by (apply enc_rounds_wf, mash_wf).
  rewrite dec_enc_rounds by apply mash_wf.
  rewrite unmash_mash by (apply enc_rounds_wf, H).
  apply dec_enc_rounds; exact H.
Qed.
Lemma encrypt_decrypt_regs k st : wf st -> encrypt_regs k (decrypt_regs k st) = st.
Proof.
  intros H. rewrite decrypt_regs_unroll, encrypt_regs_unroll.
  rewrite enc_dec_rounds by apply unmash_wf.
  rewrite mash_unmash by (apply dec_rounds_wf, unmash_wf).
  rewrite enc_dec_rounds by apply unmash_wf.
  rewrite mash_unmash by (apply dec_rounds_wf, H).
  apply enc_dec_rounds; exact H.
Qed.

(* ---------- bytes <-> registers -------------------------------------------------------------------- *)
Lemma load_regs_wf src : wf (load_regs src).
Proof. unfold wf, load_regs, le16; cbn [R0 R1 R2 R3]. repeat split; lia. Qed.

Lemma load_store st : wf st -> load_regs (store_regs st) = st.
Proof.
  destruct st as [r0 r1 r2 r3]. intros (H0 & H1 & H2 & H3). cbn [R0 R1 R2 R3] in *.
  unfold load_regs, store_regs, le16. cbn [nth Nat.add]. f_equal; lia.
Qed.

Lemma store_load blk : length blk = 8%nat -> Forall (fun b => b < 256) blk ->
  store_regs (load_regs blk) = blk.
Proof.
  intros HL HF.
  destruct blk as [|b0 [|b1 [|b2 [|b3 [|b4 [|b5 [|b6 [|b7 [|? ?]]]]]]]]]; try discriminate HL.
  repeat match goal with H : Forall _ (_ :: _) |- _ => inversion H; clear H; subst end.
  unfold load_regs, store_regs, le16. cbn [nth Nat.add].
  repeat match goal with |- _ :: _ = _ :: _ => f_equal end; lia.
Qed.

Lemma length_store st : length (store_regs st) = 8%nat.
Proof. destruct st; reflexivity. Qed.

(* ---------- the theorems ---------------------------------------------------------------------------- *)
Lemma encrypt_regs_wf k st : wf st -> wf (encrypt_regs k st).
Proof. intros H. rewrite encrypt_regs_unroll. apply enc_rounds_wf, mash_wf. Qed.
Lemma decrypt_regs_wf k st : wf st -> wf (decrypt_regs k st).
Proof. intros H. rewrite decrypt_regs_unroll. apply dec_rounds_wf, unmash_wf. Qed.

Lemma rc2_encrypt_8 k src : (length src <? 8)%nat = false ->
  rc2_encrypt k src = Ok (store_regs (encrypt_regs k (load_regs src))).
Proof. intros H. unfold rc2_encrypt. rewrite H. reflexivity. Qed.
Lemma rc2_decrypt_8 k src : (length src <? 8)%nat = false ->
  rc2_decrypt k src = Ok (store_regs (decrypt_regs k (load_regs src))).
Proof. intros H. unfold rc2_decrypt. rewrite H. reflexivity. Qed.

Lemma ltb_8_store st : (length (store_regs st) <? 8)%nat = false.
Proof. rewrite length_store. reflexivity. Qed.

Theorem rc2_decrypt_encrypt :
  forall (k : list N) (blk : list N),
    length blk = 8%nat -> Forall (fun b => b < 256) blk ->
    obind (rc2_encrypt k blk) (rc2_decrypt k) = Ok blk.
Proof.
  intros k blk HL HF.
  rewrite rc2_encrypt_8 by (rewrite HL; reflexivity).
  unfold obind. rewrite rc2_decrypt_8 by apply ltb_8_store.
  rewrite load_store by apply encrypt_regs_wf, load_regs_wf.
  rewrite decrypt_encrypt_regs by apply load_regs_wf.
  rewrite store_load by assumption. reflexivity.
Qed.
Print Assumptions rc2_decrypt_encrypt.

Theorem rc2_encrypt_decrypt :
  forall (k : list N) (blk : list N),
    length blk = 8%nat -> Forall (fun b => b < 256) blk ->
    obind (rc2_decrypt k blk) (rc2_encrypt k) = Ok blk.
Proof.
  intros k blk HL HF.
  rewrite rc2_decrypt_8 by (rewrite HL; reflexivity).
  unfold obind. rewrite rc2_encrypt_8 by apply ltb_8_store.
  rewrite load_store by apply decrypt_regs_wf, load_regs_wf.
  rewrite encrypt_decrypt_regs by apply load_regs_wf.
  rewrite store_load by assumption. reflexivity.
Qed.
Print Assumptions rc2_encrypt_decrypt.

(* the statement with the expanded key as the Go type has it (64 words of 16 bits) is an instance *)
Corollary rc2_decrypt_encrypt_key64 :
  forall (k : list N) (blk : list N),
    length k = 64%nat -> Forall (fun w => w < 65536) k ->
    length blk = 8%nat -> Forall (fun b => b < 256) blk ->
    obind (rc2_encrypt k blk) (rc2_decrypt k) = Ok blk.
Proof. intros k blk _ _. apply rc2_decrypt_encrypt. Qed.

(* the only failure of the block functions is the short-input panic; the output is 8 bytes *)
Lemma rc2_encrypt_outcome k src :
  (length src < 8)%nat /\ rc2_encrypt k src = Panic \/
  (8 <= length src)%nat /\ exists out, rc2_encrypt k src = Ok out /\ length out = 8%nat /\ Forall (fun b => b < 256) out.
Proof.
  unfold rc2_encrypt. destruct (Nat.ltb_spec (length src) 8) as [H|H]; [left; auto|right].
  split; [exact H|]. eexists; split; [reflexivity|]. split; [apply length_store|].
  destruct (encrypt_regs k (load_regs src)); cbn [store_regs].
  repeat constructor; lia.
Qed.

(* expandKey: on a non-empty key and 1 <= t1 <= 1024 it returns 64 words below 2^16 *)
Lemma key_words_spec n l : length (key_words n l) = Nat.min n (length l / 2) /\ Forall (fun w => w < 65536) (key_words n l).
Proof.
  revert l; induction n as [|n IH]; intros l; cbn [key_words].
  - split; [reflexivity|constructor].
  - destruct l as [|a [|b rest]]; cbn [length].
    + split; [reflexivity|constructor].
    + split; [reflexivity|constructor].
    + destruct (IH rest) as [IL IF]. split.
      * cbn [length]. rewrite IL.
        replace (S (S (length rest)) / 2)%nat with (S (length rest / 2)).
        -- reflexivity.
        -- change (S (S (length rest))) with (2 + length rest)%nat.
           pose proof (Nat.div_add_l 1 2 (length rest)) as E. cbn in E. lia.
      * constructor; [lia|exact IF].
Qed.

Lemma upd_length l i x : length (upd l i x) = length l.
Proof. revert i; induction l as [|h t IH]; intros [|i]; cbn [upd length]; auto. Qed.
Lemma expand_loop1_length n i t l : length (expand_loop1 n i t l) = length l.
Proof. revert i l; induction n as [|n IH]; intros i l; cbn [expand_loop1]; [reflexivity|]. rewrite IH, upd_length; reflexivity. Qed.
Lemma expand_loop2_length n t8 l : length (expand_loop2 n t8 l) = length l.
Proof. revert l; induction n as [|n IH]; intros l; cbn [expand_loop2]; [reflexivity|]. rewrite IH, upd_length; reflexivity. Qed.

Theorem expandKey_ok key t1 :
  key <> [] -> 1 <= t1 <= 1024 ->
  exists k, expandKey key t1 = Ok k /\ length k = 64%nat /\ Forall (fun w => w < 65536) k.
Proof.
  intros Hk Ht. unfold expandKey.
  destruct (Nat.eqb_spec (length key) 0) as [E|E]; [destruct key; [congruence|discriminate]|].
  assert (Ht8 : ((t1 + 7) / 8 =? 0) || (128 <? (t1 + 7) / 8) = false) by lia.
  rewrite Ht8. eexists; split; [reflexivity|].
  match goal with |- length (key_words 64 ?l) = _ /\ _ => destruct (key_words_spec 64 l) as [HL HF];
    assert (Hlen : length l = 128%nat) end.
  { rewrite expand_loop2_length, upd_length, expand_loop1_length, firstn_length, app_length, repeat_length. lia. }
  split; [|exact HF]. rewrite HL, Hlen. reflexivity.
Qed.
Print Assumptions expandKey_ok.

(* New(key, t1) followed by Encrypt / Decrypt: every non-empty key and every effective key length
   1..1024 gives a cipher object on which Decrypt inverts Encrypt (and conversely) on every block *)
Theorem rc2_cipher_roundtrip :
  forall key t1, key <> [] -> 1 <= t1 <= 1024 ->
    exists k, rc2_New key t1 = Ok k /\
      forall blk, length blk = 8%nat -> Forall (fun b => b < 256) blk ->
        obind (rc2_encrypt k blk) (rc2_decrypt k) = Ok blk /\
        obind (rc2_decrypt k blk) (rc2_encrypt k) = Ok blk.
Proof.
  intros key t1 Hk Ht. destruct (expandKey_ok key t1 Hk Ht) as (k & E & _ & _).
  exists k. split; [exact E|]. intros blk HL HF.
  split; [apply rc2_decrypt_encrypt|apply rc2_encrypt_decrypt]; assumption.
Qed.
Print Assumptions rc2_cipher_roundtrip.

(* ... and expandKey panics exactly outside that domain *)
Theorem expandKey_panics_iff :
  forall key t1, expandKey key t1 = Panic <-> (key = [] \/ t1 = 0 \/ 1024 < t1).
Proof.
  intros key t1. split.
  - intros HP. destruct key as [|a key]; [left; reflexivity|right].
    destruct (N.eq_dec t1 0) as [?|Hz]; [left; assumption|right].
    destruct (N.lt_ge_cases 1024 t1) as [?|Hle]; [assumption|].
    destruct (expandKey_ok (a :: key) t1 ltac:(discriminate) ltac:(lia)) as (k & E & _).
    rewrite E in HP. discriminate.
  - intros [->|Ht]; [reflexivity|].
    unfold expandKey. destruct (length key =? 0)%nat; [reflexivity|].
    assert (Ht8 : ((t1 + 7) / 8 =? 0) || (128 <? (t1 + 7) / 8) = true) by lia.
    rewrite Ht8. reflexivity.
Qed.
Print Assumptions expandKey_panics_iff.
