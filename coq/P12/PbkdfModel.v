(* Model of /repo/pkcs12/pbkdf.go (fillWithRepeats, pbkdf), statement by statement.  No proofs here.

   Go ints u, v, size are taken non-negative (nat); r is a Go int that may be <= 0 (Z): the loop
   "for j := 1; j < r; j++" then does nothing, i.e. r <= 0 behaves like r = 1.
   Quirks of the code that are kept:
     - A := make([]byte, c*20) and copy(A[i*20:], Ai): the 20 is hard-coded although u is an
       argument of pbkdf (all callers in /repo pass u = 20);  A[:size] panics when size > c*20;
     - integer division by zero (u = 0; v = 0 with a non-empty salt/password or c > 1) -> Panic;
     - "for len(B) < v { B = append(B, Ai...) }" does not terminate when the hash returns an empty
       slice -> Hang (fuel v is enough whenever the hash output is non-empty);
     - big.Int SetBytes / Add / Bytes with the truncation Ijb[len-v:] and the zero left-padding;
     - I is updated in place block by block; the update is skipped in the last round.
   big.Int is N; (x).Bytes() is the minimal big-endian byte string [big_Bytes]. *)
From Coq Require Import List NArith ZArith Arith Bool.
From GmsmVerif Require Import Lib.Outcome P12.PbkdfSpec.
Import ListNotations.

Notation byte := N (only parsing).

(* new(big.Int).SetBytes(b) / x.Bytes() *)
Definition big_SetBytes (b : list byte) : N := be2N b.
Definition big_Bytes (x : N) : list byte := N2be (N.to_nat ((N.size x + 7) / 8)) x.

(* func fillWithRepeats(pattern []byte, v int) []byte *)
Definition fillWithRepeats (pattern : list byte) (v : nat) : outcome (list byte) :=
  if (length pattern =? 0)%nat then Ok []
  else if (v =? 0)%nat then Panic                                   (* (len(pattern)+v-1)/v *)
  else
    let outputLen := (v * ((length pattern + v - 1) / v))%nat in
    (* bytes.Repeat(pattern, (outputLen+len(pattern)-1)/len(pattern))[:outputLen] *)
    Ok (firstn outputLen (concat (repeat pattern ((outputLen + length pattern - 1) / length pattern)))).

(* copy(A[off:], src) *)
Definition copy_at (A : list byte) (off : nat) (src : list byte) : list byte :=
  let n := Nat.min (length A - off) (length src) in
  firstn off A ++ firstn n src ++ skipn (off + n) A.

Section Pbkdf.
  Variable hash : list byte -> list byte.

  Fixpoint hash_iter (n : nat) (x : list byte) : list byte :=
    match n with
    | O => x
    | S n' => hash_iter n' (hash x)
    end.

  (* Ai := hash(append(D, I...)); for j := 1; j < r; j++ { Ai = hash(Ai) } *)
  Definition compute_Ai (r : Z) (DI : list byte) : list byte :=
    hash_iter (Z.to_nat (r - 1)) (hash DI).

  (* for len(B) < v { B = append(B, Ai[:]...) } *)
  Fixpoint B_loop (fuel : nat) (B Ai : list byte) (v : nat) : outcome (list byte) :=
    if (length B <? v)%nat then
      match fuel with
      | O => Hang
      | S fuel' => B_loop fuel' (B ++ Ai) Ai v
      end
    else Ok B.

  (* the body of "for j := 0; j < len(I)/v; j++": returns the new I *)
  Definition I_step (v : nat) (I : list byte) (Bbi : N) (j : nat) : list byte :=
    let Ij := big_SetBytes (firstn v (skipn (j * v) I)) in       (* Ij.SetBytes(I[j*v : (j+1)*v]) *)
    let Ij := (Ij + Bbi)%N in                                     (* Ij.Add(Ij, Bbi) *)
    let Ij := (Ij + 1)%N in                                       (* Ij.Add(Ij, one) *)
    let Ijb := big_Bytes Ij in
    let Ijb := if (v <? length Ijb)%nat then skipn (length Ijb - v) Ijb else Ijb in
    let Ijb := if (length Ijb <? v)%nat then repeat 0%N (v - length Ijb) ++ Ijb else Ijb in
    firstn (j * v) I ++ Ijb ++ skipn ((j + 1) * v) I.             (* copy(I[j*v:(j+1)*v], Ijb) *)

  Fixpoint I_loop (n j : nat) (v : nat) (I : list byte) (Bbi : N) : list byte :=
    match n with
    | O => I
    | S n' => I_loop n' (S j) v (I_step v I Bbi j) Bbi
    end.

  (* "for i := 0; i < c; i++ { ... }", n = c - i rounds left *)
  Fixpoint main_loop (n i c : nat) (v : nat) (r : Z) (D I A : list byte) : outcome (list byte) :=
    match n with
    | O => Ok A
    | S n' =>
      let Ai := compute_Ai r (D ++ I) in
      let A := copy_at A (i * 20) Ai in                           (* copy(A[i*20:], Ai[:]) *)
      if (i <? c - 1)%nat then                                    (* skip on last iteration *)
        do B <- B_loop v [] Ai v;
        let B := firstn v B in                                    (* B = B[:v] *)
        let Bbi := big_SetBytes B in
        if (v =? 0)%nat then Panic                                (* len(I)/v *)
        else main_loop n' (S i) c v r D (I_loop (length I / v) 0 v I Bbi) A
      else main_loop n' (S i) c v r D I A
    end.

  (* func pbkdf(hash, u, v, salt, password, r, ID, size) (key []byte) *)
  Definition pbkdf (u v : nat) (salt password : list byte) (r : Z) (ID : byte) (size : nat)
    : outcome (list byte) :=
    let D := repeat ID v in
    do S <- fillWithRepeats salt v;
    do P <- fillWithRepeats password v;
    let I := S ++ P in
    if (u =? 0)%nat then Panic                                    (* (size + u - 1) / u *)
    else
      let c := ((size + u - 1) / u)%nat in
      let A := repeat 0%N (c * 20) in                             (* make([]byte, c*20) *)
      do A <- main_loop c 0 c v r D I A;
      if (c * 20 <? size)%nat then Panic                          (* A[:size] *)
      else Ok (firstn size A).
End Pbkdf.

Definition pbkdf_model := pbkdf.
