(* Toy instances of what the whole-container PKCS#12 theorems (P12/ContainerProofs.v, Props/C17.v) leave abstract:
   codecs for the structures (a unary, self-delimiting encoding of numbers, so that EVERY structure, whatever
   numbers it holds, is encoded into bytes and decoded back), a 20-byte hash, a block "cipher" that inverts, an
   HMAC, keys and certificates.  Their only purpose: to show that the hypotheses of those theorems can hold
   together and that Encode = Ok happens (P12/ContainerToyProofs.v).  No proofs in this file. *)
From Coq Require Import List NArith ZArith Bool Arith.
From GmsmVerif Require Import Lib.Outcome Dec.Access P12.MacModel P12.ContainerModel P12.PbkdfProofs.
Import ListNotations.
Local Open Scope nat_scope.

(* a number: that many 1s, then a 0 *)
Definition enc_n (n : N) : list N := repeat 1%N (N.to_nat n) ++ [0%N].
Fixpoint dec_n (l : list N) : option (N * list N) :=
  match l with
  | [] => None
  | x :: r =>
    if (x =? 0)%N then Some (0%N, r)
    else match dec_n r with Some (n, r') => Some (N.succ n, r') | None => None end
  end.

(* a list of numbers: its length, then the elements *)
Definition enc_list (l : list N) : list N := enc_n (N.of_nat (length l)) ++ concat (map enc_n l).
Fixpoint dec_many (k : nat) (l : list N) : option (list N * list N) :=
  match k with
  | O => Some ([], l)
  | S k' =>
    match dec_n l with
    | Some (x, r) => match dec_many k' r with Some (xs, r') => Some (x :: xs, r') | None => None end
    | None => None
    end
  end.
Definition dec_list (l : list N) : option (list N * list N) :=
  match dec_n l with Some (k, r) => dec_many (N.to_nat k) r | None => None end.

Definition enc_z (z : Z) : list N :=
  match z with Z0 => [0%N] | Zpos p => 1%N :: enc_n (Npos p) | Zneg p => 2%N :: enc_n (Npos p) end.
Definition dec_z (l : list N) : option (Z * list N) :=
  match l with
  | [] => None
  | t :: r =>
    if (t =? 0)%N then Some (0%Z, r) else
    match dec_n r with
    | Some (Npos p, r') => if (t =? 1)%N then Some (Zpos p, r') else Some (Zneg p, r')
    | _ => None
    end
  end.

Definition alg_code (a : pbeAlg) : N := match a with PBE3DES => 0 | PBERC2 => 1 | PBEOther => 2 end.
Definition alg_of (n : N) : pbeAlg := if (n =? 0)%N then PBE3DES else if (n =? 1)%N then PBERC2 else PBEOther.

Definition toy_ser_blob (e : pbeBlob) : list N :=
  alg_code (pb_alg e) :: enc_list (pb_salt e) ++ enc_z (pb_iter e) ++ enc_list (pb_data e).
Definition dec_blob (l : list N) : option (pbeBlob * list N) :=
  match l with
  | [] => None
  | a :: r =>
    match dec_list r with
    | Some (salt, r1) =>
      match dec_z r1 with
      | Some (it, r2) =>
        match dec_list r2 with
        | Some (data, r3) => Some (mkBlob (alg_of a) salt it data, r3)
        | None => None
        end
      | None => None
      end
    | None => None
    end
  end.
Definition toy_de_blob (l : list N) : outcome pbeBlob :=
  match dec_blob l with Some (e, _) => Ok e | None => Err 50 end.

Definition bag_code (i : bagId) : N := match i with BagCert => 0 | BagKey => 1 | BagOther => 2 end.
Definition bag_of (n : N) : bagId := if (n =? 0)%N then BagCert else if (n =? 1)%N then BagKey else BagOther.
Definition ser_bag (b : safeBag) : list N := bag_code (sb_id b) :: enc_list (sb_value b).
Definition toy_ser_bags (l : list safeBag) : list N := enc_n (N.of_nat (length l)) ++ concat (map ser_bag l).
Fixpoint dec_bags_many (k : nat) (l : list N) : option (list safeBag * list N) :=
  match k with
  | O => Some ([], l)
  | S k' =>
    match l with
    | [] => None
    | c :: r =>
      match dec_list r with
      | Some (v, r1) =>
        match dec_bags_many k' r1 with Some (bs, r2) => Some (mkBag (bag_of c) v :: bs, r2) | None => None end
      | None => None
      end
    end
  end.
Definition toy_de_bags (l : list N) : outcome (list safeBag) :=
  match dec_n l with
  | Some (k, r) => match dec_bags_many (N.to_nat k) r with Some (bs, _) => Ok bs | None => Err 51 end
  | None => Err 51
  end.

Definition ser_ci (c : safeCI) : list N :=
  match c with
  | CIData d => 0%N :: enc_list d
  | CIEncrypted v e => 1%N :: enc_z v ++ toy_ser_blob e
  | CIOther => [2%N]
  end.
Definition dec_ci (l : list N) : option (safeCI * list N) :=
  match l with
  | [] => None
  | t :: r =>
    if (t =? 0)%N then match dec_list r with Some (d, r') => Some (CIData d, r') | None => None end
    else if (t =? 1)%N then
      match dec_z r with
      | Some (v, r1) => match dec_blob r1 with Some (e, r2) => Some (CIEncrypted v e, r2) | None => None end
      | None => None
      end
    else Some (CIOther, r)
  end.
Definition toy_ser_authsafe (l : list safeCI) : list N := enc_n (N.of_nat (length l)) ++ concat (map ser_ci l).
Fixpoint dec_cis_many (k : nat) (l : list N) : option (list safeCI * list N) :=
  match k with
  | O => Some ([], l)
  | S k' =>
    match dec_ci l with
    | Some (c, r) => match dec_cis_many k' r with Some (cs, r') => Some (c :: cs, r') | None => None end
    | None => None
    end
  end.
Definition toy_de_authsafe (l : list N) : outcome (list safeCI) :=
  match dec_n l with
  | Some (k, r) => match dec_cis_many (N.to_nat k) r with Some (cs, _) => Ok cs | None => Err 52 end
  | None => Err 52
  end.

(* keys are booleans, certificates are their own bytes, the certificate bag is the bytes *)
Definition toy_ser_key (k : bool) : outcome (list N) := Ok [if k then 1%N else 0%N].
Definition toy_de_key (b : list N) : outcome bool :=
  match b with [x] => Ok (negb (x =? 0)%N) | _ => Err 53 end.
Definition toy_cert_raw (c : list N) : list N := c.
Definition toy_parse_certs (b : list N) : outcome (list (list N)) := Ok [b].
Definition toy_certbag (b : list N) : list N := b.
Definition toy_de_certbag (b : list N) : outcome (list N) := Ok b.

Definition toy_H : list N -> list N := toy_hash 20.
Definition toy_des (key x : list N) : list N := rev x.
Definition toy_hmac (k m : list N) : list N := toy_hash 20 (k ++ m).
