(* Proofs about the model of /repo/pkcs12/bmp-string.go (P12/BmpModel.v).

   Findings (all proved below):
   - bmpString accepts a rune iff utf16.EncodeRune returns U+FFFD for it, i.e. iff it is NOT in
     0x10000..0x10FFFF.  For the runes a Go string can contain ([go_rune]) this is exactly r < 0x10000.
   - decodeBMPString (bmpString s) = s for EVERY Go string s that bmpString accepts, including strings
     that end in (or consist of) U+0000: the terminator that is stripped is the one bmpString added.
   - decodeBMPString strips one trailing 00 00 whether or not it is a terminator, so it is not
     injective: the unterminated encoding of "A" and the terminated one decode alike, and an
     unterminated encoding of a string ending in U+0000 loses that character ([decode_strips_*]).
   - U+FFFD itself is accepted and round-trips.  A surrogate code point (0xD800..0xDFFF) would be
     accepted by bmpString (EncodeRune returns U+FFFD for it) and decode to U+FFFD, but "range s"
     never yields one, so this is not reachable through the Go API ([surrogate_*]). *)
From Coq Require Import List NArith Arith Bool Lia ZifyN ZifyNat ZifyBool.
From GmsmVerif Require Import Lib.Outcome P12.BmpModel.
Import ListNotations.
Open Scope N_scope.

(* the UCS-2 big-endian encoding without terminator *)
Definition ucs2 (s : list N) : list N := flat_map (fun r => [(r / 256) mod 256; (r mod 256) mod 256]) s.

Definition bmp_rune (r : N) : Prop := r < surr1 \/ (surr3 <= r /\ r < surrSelf).

Lemma land_3ff x : N.land x 0x3ff = x mod 1024.
Proof. change 0x3ff with (N.ones 10). rewrite N.land_ones. reflexivity. Qed.

(* which runes bmpString accepts *)
Lemma accepts_iff r :
  (fst (EncodeRune r) =? 0xfffd) = true <-> (r < surrSelf \/ maxRune < r).
Proof.
  unfold EncodeRune, surrSelf, maxRune, surr1, surr2, replacementChar.
  destruct (N.ltb_spec r 0x10000) as [H|H]; cbn [orb fst].
  - split; [intros _; left; exact H|reflexivity].
  - destruct (N.ltb_spec 0x10FFFF r) as [H'|H']; cbn [fst].
    + split; [intros _; right; exact H'|reflexivity].
    + rewrite land_3ff. split; [intros E|intros [?|?]; lia].
      apply N.eqb_eq in E. pose proof (N.mod_lt (N.shiftr (r - 65536) 10) 1024 ltac:(discriminate)). lia.
Qed.

Lemma bmpString_loop_ok s : forall ret,
  Forall (fun r => r < surrSelf \/ maxRune < r) s ->
  bmpString_loop s ret = Ok (ret ++ ucs2 s ++ [0; 0]).
Proof.
  induction s as [|r s IH]; intros ret HF; cbn [bmpString_loop ucs2 flat_map app].
  - reflexivity.
  - inversion HF as [|? ? Hr HF']; subst.
    apply accepts_iff in Hr. rewrite Hr. cbn [negb].
    rewrite IH by exact HF'. rewrite <- app_assoc. reflexivity.
Qed.

Lemma bmpString_loop_err s : forall ret,
  Exists (fun r => surrSelf <= r /\ r <= maxRune) s -> bmpString_loop s ret = Err 1.
Proof.
  induction s as [|r s IH]; intros ret HE; [inversion HE|].
  cbn [bmpString_loop].
  destruct (fst (EncodeRune r) =? 0xfffd) eqn:E; cbn [negb]; [|reflexivity].
  apply accepts_iff in E. inversion HE as [? ? Hr|? ? HE']; subst; [lia|]. apply IH; exact HE'.
Qed.

(* bmpString succeeds exactly on the strings without a rune in 0x10000..0x10FFFF *)
Theorem bmpString_ok_iff s :
  (exists b, bmpString s = Ok b) <-> Forall (fun r => r < surrSelf \/ maxRune < r) s.
Proof.
  split.
  - intros [b Hb]. apply Forall_forall. intros r Hin.
    destruct (N.lt_ge_cases r surrSelf) as [?|H1]; [left; assumption|].
    destruct (N.lt_ge_cases maxRune r) as [?|H2]; [right; assumption|].
    unfold bmpString in Hb. rewrite bmpString_loop_err in Hb; [discriminate|].
    apply Exists_exists. exists r; auto.
  - intros HF. eexists. unfold bmpString. apply bmpString_loop_ok; exact HF.
Qed.

Theorem bmpString_value s :
  Forall (fun r => r < surrSelf \/ maxRune < r) s -> bmpString s = Ok (ucs2 s ++ [0; 0]).
Proof. intros HF. unfold bmpString. rewrite bmpString_loop_ok by exact HF. reflexivity. Qed.

Lemma bmpString_cases s :
  (Forall (fun r => r < surrSelf \/ maxRune < r) s /\ bmpString s = Ok (ucs2 s ++ [0; 0])) \/
  (Exists (fun r => surrSelf <= r /\ r <= maxRune) s /\ bmpString s = Err 1).
Proof.
  assert (D : Forall (fun r => r < surrSelf \/ maxRune < r) s \/
              Exists (fun r => surrSelf <= r /\ r <= maxRune) s).
  { induction s as [|r s IH]; [left; constructor|].
    destruct (N.lt_ge_cases r surrSelf) as [H1|H1].
    - destruct IH as [IH|IH]; [left; constructor; auto|right; apply Exists_cons_tl; exact IH].
    - destruct (N.lt_ge_cases maxRune r) as [H2|H2].
      + destruct IH as [IH|IH]; [left; constructor; auto|right; apply Exists_cons_tl; exact IH].
      + right. apply Exists_cons_hd. split; assumption. }
  destruct D as [HF|HE].
  - left. split; [exact HF|apply bmpString_value; exact HF].
  - right. split; [exact HE|apply bmpString_loop_err; exact HE].
Qed.

Theorem bmpString_outcome s : bmpString s = Ok (ucs2 s ++ [0; 0]) \/ bmpString s = Err 1.
Proof. destruct (bmpString_cases s) as [[_ H]|[_ H]]; [left|right]; exact H. Qed.

(* ---------- decoding ------------------------------------------------------------------------------- *)
Lemma ucs2_length s : length (ucs2 s) = (2 * length s)%nat.
Proof.
  induction s as [|r s IH]; [reflexivity|].
  change (ucs2 (r :: s)) with ((r / 256) mod 256 :: (r mod 256) mod 256 :: ucs2 s).
  cbn [length]. rewrite IH. lia.
Qed.

Lemma bmp_words_ucs2 s : Forall (fun r => r < 65536) s -> bmp_words (ucs2 s) = Ok s.
Proof.
  induction s as [|r s IH]; intros HF; cbn [ucs2 flat_map app bmp_words]; [reflexivity|].
  inversion HF as [|? ? Hr HF']; subst. fold (ucs2 s). rewrite IH by exact HF'. cbn [obind].
  do 2 f_equal. lia.
Qed.

Lemma utf16_Decode_bmp s : Forall bmp_rune s -> utf16_Decode s = s.
Proof.
  induction s as [|r s IH]; intros HF; cbn [utf16_Decode]; [reflexivity|].
  inversion HF as [|? ? Hr HF']; subst.
  assert (E : (r <? surr1) || (surr3 <=? r) = true) by (unfold bmp_rune in Hr; lia).
  rewrite E, IH by exact HF'. reflexivity.
Qed.

Lemma decode_terminated x :
  decodeBMPString (x ++ [0; 0]) =
  if negb (length x mod 2 =? 0)%nat then Err 2 else do s <- bmp_words x; Ok (utf16_Decode s).
Proof.
  unfold decodeBMPString. rewrite app_length. cbn [length].
  replace ((length x + 2) mod 2)%nat with (length x mod 2)%nat
    by (rewrite <- (Nat.mod_add (length x) 1 2) by lia; reflexivity).
  destruct (negb (length x mod 2 =? 0)%nat); [reflexivity|].
  replace (2 <=? length x + 2)%nat with true by lia.
  rewrite !app_nth2 by lia.
  replace (length x + 2 - 1 - length x)%nat with 1%nat by lia.
  replace (length x + 2 - 2 - length x)%nat with 0%nat by lia.
  cbn [nth N.eqb andb].
  replace (length x + 2 - 2)%nat with (length x + 0)%nat by lia.
  rewrite firstn_app_2. cbn [firstn]. rewrite app_nil_r. reflexivity.
Qed.

Lemma bmp_rune_lt r : bmp_rune r -> r < 65536.
Proof. unfold bmp_rune, surr1, surr3, surrSelf. lia. Qed.

Lemma decode_ucs2_terminated s : Forall bmp_rune s -> decodeBMPString (ucs2 s ++ [0; 0]) = Ok s.
Proof.
  intros HF. rewrite decode_terminated, ucs2_length.
  replace ((2 * length s) mod 2)%nat with 0%nat by (rewrite Nat.mul_comm, Nat.mod_mul; lia).
  cbn [Nat.eqb negb].
  rewrite bmp_words_ucs2 by (eapply Forall_impl; [|exact HF]; apply bmp_rune_lt).
  cbn [obind]. rewrite utf16_Decode_bmp by exact HF. reflexivity.
Qed.

(* ---------- the round trip --------------------------------------------------------------------------- *)
(* For every string whose runes are BMP scalar values (not surrogates, below 0x10000):
   bmpString succeeds and decodeBMPString gives the string back.  No condition on U+0000. *)
Theorem bmpString_roundtrip_bmp :
  forall s, Forall bmp_rune s ->
    exists b, bmpString s = Ok b /\ decodeBMPString b = Ok s.
Proof.
  intros s HF. exists (ucs2 s ++ [0; 0]). split.
  - apply bmpString_value. eapply Forall_impl; [|exact HF].
    intros r Hr. left. unfold bmp_rune in Hr. unfold surrSelf, surr1 in *. lia.
  - apply decode_ucs2_terminated; exact HF.
Qed.
Print Assumptions bmpString_roundtrip_bmp.

(* As asked: for every Go string (runes as "range s" yields them), whatever bmpString accepts
   is decoded back to the same string. *)
Theorem bmpString_roundtrip :
  forall s b, Forall go_rune s -> bmpString s = Ok b -> decodeBMPString b = Ok s.
Proof.
  intros s b HG Hb.
  assert (HF : Forall bmp_rune s).
  { assert (HA : Forall (fun r => r < surrSelf \/ maxRune < r) s)
      by (apply bmpString_ok_iff; exists b; exact Hb).
    apply Forall_forall. intros r Hin.
    pose proof (proj1 (Forall_forall _ _) HG r Hin) as H1.
    pose proof (proj1 (Forall_forall _ _) HA r Hin) as H2.
    unfold go_rune, bmp_rune, surr1, surr3, surrSelf, maxRune in *. lia. }
  destruct (bmpString_roundtrip_bmp s HF) as (b' & E1 & E2).
  rewrite Hb in E1. injection E1 as ->. exact E2.
Qed.
Print Assumptions bmpString_roundtrip.

(* a Go string is rejected iff it has a rune outside the BMP *)
Theorem bmpString_rejects_iff :
  forall s, Forall go_rune s ->
    (bmpString s = Err 1 <-> Exists (fun r => surrSelf <= r) s).
Proof.
  intros s HG. split.
  - intros HE. destruct (bmpString_cases s) as [[_ H]|[HX _]].
    + rewrite H in HE; discriminate.
    + apply Exists_exists. apply Exists_exists in HX. destruct HX as (r & Hin & Hr).
      exists r; split; [exact Hin|lia].
  - intros HX. apply bmpString_loop_err. apply Exists_exists. apply Exists_exists in HX.
    destruct HX as (r & Hin & Hr). exists r. split; [exact Hin|].
    pose proof (proj1 (Forall_forall _ _) HG r Hin) as H1.
    unfold go_rune, surr1, surr3, surrSelf, maxRune in *. lia.
Qed.
Print Assumptions bmpString_rejects_iff.

(* decodeBMPString never panics, on any byte string *)
Lemma bmp_words_even b n : length b = (2 * n)%nat -> exists ws, bmp_words b = Ok ws.
Proof.
  revert b; induction n as [|n IH]; intros b HL.
  - destruct b; [eexists; reflexivity|discriminate].
  - destruct b as [|b0 [|b1 rest]]; cbn [length] in HL; try lia.
    destruct (IH rest ltac:(lia)) as [ws E]. cbn [bmp_words]. rewrite E. eexists; reflexivity.
Qed.

Theorem decodeBMPString_total b :
  (exists s, decodeBMPString b = Ok s) \/ (decodeBMPString b = Err 2 /\ (length b mod 2 = 1)%nat).
Proof.
  unfold decodeBMPString.
  destruct (Nat.eqb_spec (length b mod 2) 0) as [E|E]; cbn [negb].
  - left.
    match goal with |- exists s, obind (bmp_words ?x) _ = _ =>
      destruct (bmp_words_even x (length x / 2)) as [ws Hw] end.
    + destruct ((2 <=? length b)%nat && (nth (length b - 1) b 1 =? 0) && (nth (length b - 2) b 1 =? 0)) eqn:C.
      * rewrite firstn_length. lia.
      * lia.
    + rewrite Hw. eexists; reflexivity.
  - right. split; [reflexivity|]. pose proof (Nat.mod_upper_bound (length b) 2). lia.
Qed.
Print Assumptions decodeBMPString_total.

(* ---------- examples and the corner cases ------------------------------------------------------------- *)
Example bmp_ex_ascii : bmpString [0x41; 0x62] = Ok [0; 0x41; 0; 0x62; 0; 0].
Proof. vm_compute. reflexivity. Qed.
Example bmp_ex_cjk : bmpString [0x4e2d; 0x6587] = Ok [0x4e; 0x2d; 0x65; 0x87; 0; 0].
Proof. vm_compute. reflexivity. Qed.
Example bmp_ex_empty : bmpString [] = Ok [0; 0].
Proof. vm_compute. reflexivity. Qed.
Example bmp_ex_astral_rejected : bmpString [0x41; 0x1F600] = Err 1.
Proof. vm_compute. reflexivity. Qed.
Example bmp_ex_fffd_accepted : bmpString [0xFFFD] = Ok [0xff; 0xfd; 0; 0].
Proof. vm_compute. reflexivity. Qed.
Example bmp_ex_decode : decodeBMPString [0x4e; 0x2d; 0; 0x41; 0; 0] = Ok [0x4e2d; 0x41].
Proof. vm_compute. reflexivity. Qed.
Example bmp_ex_decode_odd : decodeBMPString [0; 0x41; 0] = Err 2.
Proof. vm_compute. reflexivity. Qed.
Example bmp_ex_decode_pair : decodeBMPString [0xd8; 0x3d; 0xde; 0x00] = Ok [0x1F600].
Proof. vm_compute. reflexivity. Qed.
Example bmp_ex_decode_lone_surrogate : decodeBMPString [0xd8; 0x3d; 0; 0x41] = Ok [0xFFFD; 0x41].
Proof. vm_compute. reflexivity. Qed.

(* a string ending in U+0000 round-trips (the terminator added by bmpString is the one stripped) *)
Example bmp_ex_trailing_nul :
  bmpString [0x41; 0] = Ok [0; 0x41; 0; 0; 0; 0] /\ decodeBMPString [0; 0x41; 0; 0; 0; 0] = Ok [0x41; 0].
Proof. split; vm_compute; reflexivity. Qed.

(* ... but decoding is not injective: one trailing 00 00 is stripped whether or not it is a terminator *)
Theorem decode_strips_unterminated_nul :
  exists b1 b2, b1 <> b2 /\ decodeBMPString b1 = decodeBMPString b2 /\
                b1 = ucs2 [0x41; 0] /\ b2 = ucs2 [0x41].
Proof.
  exists [0; 0x41; 0; 0], [0; 0x41].
  split; [discriminate|]. split; [vm_compute; reflexivity|]. split; vm_compute; reflexivity.
Qed.

(* not reachable through the Go API ("range s" yields U+FFFD instead of a surrogate): in the model a
   surrogate code point is accepted by bmpString and comes back as U+FFFD *)
Example surrogate_accepted_not_roundtrip :
  bmpString [0xD800] = Ok [0xd8; 0; 0; 0] /\ decodeBMPString [0xd8; 0; 0; 0] = Ok [0xFFFD].
Proof. split; vm_compute; reflexivity. Qed.
