(* Model of /repo/pkcs12/bmp-string.go, function by function.  No proofs in this file.

   A Go string is modelled by the list of code points (N) that "for _, r := range s" yields.
   For a real Go string these are Unicode scalar values only: r < 0xD800 or 0xE000 <= r <= 0x10FFFF
   (invalid UTF-8, including encoded surrogates, is delivered as U+FFFD) - [go_rune] below; the
   functions are nevertheless total on every N and follow unicode/utf16 exactly there as well.
   The result of decodeBMPString, string(utf16.Decode(s)), is likewise given as the list of code
   points of that string (utf16.Decode only produces scalar values, so the conversion to a string
   changes nothing).

   unicode/utf16 (GOROOT/src/unicode/utf16/utf16.go) functions modelled: EncodeRune, DecodeRune,
   Decode.   Error classes: Err 1 = "string contains characters that cannot be encoded in UCS-2",
   Err 2 = "odd-length BMP string". *)
From Coq Require Import List NArith Arith Bool.
From GmsmVerif Require Import Lib.Outcome.
Import ListNotations.
Open Scope N_scope.

Notation byte := N (only parsing).

Definition replacementChar : N := 0xFFFD.
Definition maxRune : N := 0x10FFFF.
Definition surr1 : N := 0xd800.
Definition surr2 : N := 0xdc00.
Definition surr3 : N := 0xe000.
Definition surrSelf : N := 0x10000.

(* what "range s" can yield *)
Definition go_rune (r : N) : Prop := r < surr1 \/ (surr3 <= r /\ r <= maxRune).

(* func EncodeRune(r rune) (r1, r2 rune):
     if r < surrSelf || r > maxRune { return replacementChar, replacementChar }
     r -= surrSelf;  return surr1 + (r>>10)&0x3ff, surr2 + r&0x3ff *)
Definition EncodeRune (r : N) : N * N :=
  if (r <? surrSelf) || (maxRune <? r) then (replacementChar, replacementChar)
  else
    let r := r - surrSelf in
    (surr1 + N.land (N.shiftr r 10) 0x3ff, surr2 + N.land r 0x3ff).

(* func DecodeRune(r1, r2 rune) rune *)
Definition DecodeRune (r1 r2 : N) : N :=
  if (surr1 <=? r1) && (r1 <? surr2) && (surr2 <=? r2) && (r2 <? surr3)
  then N.lor (N.shiftl (r1 - surr1) 10) (r2 - surr2) + surrSelf
  else replacementChar.

(* func Decode(s []uint16) []rune  (the loop of decode) *)
Fixpoint utf16_Decode (s : list N) : list N :=
  match s with
  | [] => []
  | r :: t =>
    if (r <? surr1) || (surr3 <=? r) then r :: utf16_Decode t              (* normal rune *)
    else
      match t with
      | r2 :: t' =>
        if (surr1 <=? r) && (r <? surr2) && (surr2 <=? r2) && (r2 <? surr3)
        then DecodeRune r r2 :: utf16_Decode t'                             (* valid surrogate sequence, i++ *)
        else replacementChar :: utf16_Decode t                              (* invalid surrogate sequence *)
      | [] => [replacementChar]
      end
  end.

(* func bmpString(s string) ([]byte, error): the loop, ret being the slice built so far *)
Fixpoint bmpString_loop (s : list N) (ret : list byte) : outcome (list byte) :=
  match s with
  | [] => Ok (ret ++ [0; 0])                                               (* append(ret, 0, 0) *)
  | r :: rest =>
    if negb (fst (EncodeRune r) =? 0xfffd) then Err 1
    else bmpString_loop rest (ret ++ [(r / 256) mod 256; (r mod 256) mod 256])   (* byte(r/256), byte(r%256) *)
  end.

Definition bmpString (s : list N) : outcome (list byte) := bmpString_loop s [].

(* the loop "for len(bmpString) > 0 { s = append(s, uint16(b[0])<<8 + uint16(b[1])); b = b[2:] }";
   b[1] on a one-byte rest would be a run-time panic (never reached: the length is even) *)
Fixpoint bmp_words (b : list byte) : outcome (list N) :=
  match b with
  | [] => Ok []
  | [_] => Panic
  | b0 :: b1 :: rest =>
    do ws <- bmp_words rest;
    Ok (((b0 mod 256) * 256 + b1 mod 256) mod 65536 :: ws)
  end.

(* func decodeBMPString(bmpString []byte) (string, error) *)
Definition decodeBMPString (b : list byte) : outcome (list N) :=
  if negb (length b mod 2 =? 0)%nat then Err 2
  else
    let l := length b in
    (* strip terminator if present *)
    let b := if (2 <=? l)%nat && (nth (l - 1) b 1 =? 0) && (nth (l - 2) b 1 =? 0)
             then firstn (l - 2) b else b in
    do s <- bmp_words b;
    Ok (utf16_Decode s).
