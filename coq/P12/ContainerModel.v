(* Whole-container model of /repo/pkcs12 (C17): Encode, getSafeContents, Decode, DecodeAll, the safe-bag
   helpers of safebags.go and the password-based encryption of crypto.go, function by function, at the
   level of the decoded structures.  No proofs in this file.

   What encoding/asn1 does is a codec per structure (marshal / unmarshal functions: Section variables);
   bytes are kept wherever the Go code works on bytes: the authenticated safe that is MACed, the
   SafeContents and PKCS#8 blobs that are encrypted.  The key derivation [kdf] (pkcs12/pbkdf.go, modelled
   in P12/PbkdfModel.v), the block ciphers [create] (3DES from crypto/des, RC2 from pkcs12/rc2.go modelled
   in P12/RC2Model.v), HMAC-SHA1 and the certificate parser are Section variables; P12/ContainerInst.v
   plugs the models of pbkdf.go and rc2.go in.  CBC mode and the PKCS#5-style padding of pbEncrypt /
   pbDecrypt are modelled concretely.  Randomness (the three salts) is an input of Encode.            *)
From Coq Require Import List NArith ZArith Bool Arith.
From GmsmVerif Require Import Lib.Outcome Dec.Access Dec.ByteModels P12.MacModel.
Import ListNotations.
Local Open Scope nat_scope.

Inductive bagId := BagCert | BagKey | BagOther.          (* oidCertBag, oidPKCS8ShroundedKeyBag, anything else *)
Record safeBag := mkBag { sb_id : bagId; sb_value : list byte }.      (* attributes are not looked at by Decode *)

Inductive pbeAlg := PBE3DES | PBERC2 | PBEOther.          (* oidPBEWithSHAAnd3KeyTripleDESCBC, ...40BitRC2CBC *)
(* AlgorithmIdentifier{alg, pbeParams{salt, iterations}} + ciphertext: encryptedPrivateKeyInfo and
   encryptedContentInfo alike *)
Record pbeBlob := mkBlob { pb_alg : pbeAlg; pb_salt : list byte; pb_iter : Z; pb_data : list byte }.

(* one contentInfo of the authenticated safe *)
Inductive safeCI :=
| CIData (octets : list byte)                 (* oidDataContentType: the OCTET STRING holding SafeContents *)
| CIEncrypted (version : Z) (e : pbeBlob)     (* oidEncryptedDataContentType *)
| CIOther.

Definition blockfn := list byte -> outcome (list byte).   (* one 8-byte block *)

(* ---------- CBC (crypto/cipher) and the padding of pbEncrypt / pbDecrypt ------------------------- *)
Definition blockSize : nat := 8.

Fixpoint xor_bytes (a b : list byte) : list byte :=
  match a, b with
  | x :: a', y :: b' => N.lxor x y :: xor_bytes a' b'
  | _, _ => []
  end.

Fixpoint cbc_enc_go (n : nat) (E : blockfn) (prev data : list byte) : outcome (list byte) :=
  match n with
  | O => Ok []
  | S n' =>
    do c <- E (xor_bytes (firstn blockSize data) prev);
    do rest <- cbc_enc_go n' E c (skipn blockSize data);
    Ok (c ++ rest)
  end.

Fixpoint cbc_dec_go (n : nat) (D : blockfn) (prev data : list byte) : outcome (list byte) :=
  match n with
  | O => Ok []
  | S n' =>
    let blk := firstn blockSize data in
    do p <- D blk;
    do rest <- cbc_dec_go n' D blk (skipn blockSize data);
    Ok (xor_bytes p prev ++ rest)
  end.

(* cipher.NewCBCEncrypter / NewCBCDecrypter panic on an IV of the wrong length, CryptBlocks on ragged input *)
Definition cbc_crypt (go : nat -> blockfn -> list byte -> list byte -> outcome (list byte))
           (F : blockfn) (iv data : list byte) : outcome (list byte) :=
  if negb (Nat.eqb (length iv) blockSize) then Panic
  else if negb (Nat.eqb (length data mod blockSize) 0) then Panic
  else go (length data / blockSize) F iv data.

Section Container.
  (* ---------- abstract parts ----------------------------------------------------------------------- *)
  Variable kdf : N -> nat -> list byte -> list byte -> Z -> outcome (list byte).   (* ID, size, salt, password, iterations *)
  Variable create : pbeAlg -> list byte -> outcome (blockfn * blockfn).           (* pbeCipher.create(key): (Encrypt, Decrypt) *)
  Variable hmac_sha1 : list byte -> list byte -> list byte.
  Variable Key : Type.                                       (* private keys *)
  Variable Cert : Type.                                      (* parsed certificates *)
  Variable cert_raw : Cert -> list byte.
  Variable parse_certs : list byte -> outcome (list Cert).   (* x509.ParseCertificates *)
  Variable ser_key : Key -> outcome (list byte).             (* marshalPKCS8PrivateKey *)
  Variable de_key : list byte -> outcome Key.                (* unmarshal as one RawValue, then ParsePKCS8PrivateKey *)
  Variable ser_blob : pbeBlob -> list byte.                  (* asn1.Marshal(encryptedPrivateKeyInfo) *)
  Variable de_blob : list byte -> outcome pbeBlob.
  Variable ser_certbag : list byte -> list byte.             (* encodeCertBag *)
  Variable de_certbag : list byte -> outcome (list byte).    (* decodeCertBag *)
  Variable ser_bags : list safeBag -> list byte.             (* asn1.Marshal([]safeBag) *)
  Variable de_bags : list byte -> outcome (list safeBag).
  Variable ser_authsafe : list safeCI -> list byte.          (* asn1.Marshal(authenticatedSafe[:]) *)
  Variable de_authsafe : list byte -> outcome (list safeCI).

  Definition keySize (a : pbeAlg) : nat := match a with PBE3DES => 24 | PBERC2 => 5 | PBEOther => 0 end.

  (* func pbeCipherFor(algorithm, password) (cipher.Block, iv, error) *)
  Definition pbeCipherFor (e : pbeBlob) (password : list byte) : outcome (blockfn * blockfn * list byte) :=
    match pb_alg e with
    | PBEOther => Err 20
    | alg =>
      do key <- kdf 1 (keySize alg) (pb_salt e) password (pb_iter e);
      do iv <- kdf 2 8 (pb_salt e) password (pb_iter e);
      do blk <- create alg key;
      Ok (blk, iv)
    end.

  (* func pbEncrypt(info, decrypted, password): the ciphertext stored into info *)
  Definition pbEncrypt (e : pbeBlob) (decrypted password : list byte) : outcome pbeBlob :=
    do '(E, _, iv) <- pbeCipherFor e password;
    let psLen := blockSize - length decrypted mod blockSize in
    do encrypted <- cbc_crypt cbc_enc_go E iv (decrypted ++ repeat (N.of_nat psLen) psLen);
    Ok (mkBlob (pb_alg e) (pb_salt e) (pb_iter e) encrypted).

  (* func pbDecrypt(info, password) (decrypted, err) *)
  Definition pbDecrypt (e : pbeBlob) (password : list byte) : outcome (list byte) :=
    do '(_, D, iv) <- pbeCipherFor e password;
    let encrypted := pb_data e in
    if Nat.eqb (length encrypted) 0 then Err 21 else
    if negb (Nat.eqb (length encrypted mod blockSize) 0) then Err 22 else
    do decrypted <- cbc_crypt cbc_dec_go D iv encrypted;
    do lastb <- at_ decrypted (length decrypted - 1);
    let psLen := N.to_nat lastb in
    if (Nat.eqb psLen 0 || Nat.ltb blockSize psLen)%bool then Err 23 else
    if Nat.ltb (length decrypted) psLen then Err 23 else
    do ps <- slice_from decrypted (length decrypted - psLen);
    do decrypted' <- slice_to decrypted (length decrypted - psLen);
    if bytes_eqb ps (repeat (N.of_nat psLen mod 256)%N psLen) then Ok decrypted' else Err 23.

  (* ---------- Encode ----------------------------------------------------------------------------------- *)
  (* func makeSafeContents(bags, password): password = None is the nil password (unencrypted SafeContents) *)
  Definition makeSafeContents (bags : list safeBag) (password : option (list byte)) (salt : list byte) : outcome safeCI :=
    let data := ser_bags bags in
    match password with
    | None => Ok (CIData data)
    | Some pw =>
      do e <- pbEncrypt (mkBlob PBERC2 salt 2048 []) data pw;
      Ok (CIEncrypted 0 e)
    end.

  (* func encodePkcs8ShroudedKeyBag(privateKey, password) *)
  Definition encodePkcs8ShroudedKeyBag (k : Key) (password salt : list byte) : outcome (list byte) :=
    do pkData <- ser_key k;
    do e <- pbEncrypt (mkBlob PBE3DES salt 2048 []) pkData password;
    Ok (ser_blob e).

  Definition makeCertBag (certBytes : list byte) : safeBag := mkBag BagCert (ser_certbag certBytes).

  (* func Encode(privateKey, certificate, caCerts, password) with the BMP-encoded password and the three
     random salts as inputs; result: the pfxPdu that is marshalled *)
  Definition Encode (k : Key) (certificate : Cert) (caCerts : list Cert) (encodedPassword : list byte)
             (saltKey saltCerts saltMac : list byte) : outcome pfxPdu :=
    let certBags := makeCertBag (cert_raw certificate) :: map (fun c => makeCertBag (cert_raw c)) caCerts in
    do keyValue <- encodePkcs8ShroudedKeyBag k encodedPassword saltKey;
    let keyBag := mkBag BagKey keyValue in
    do ci0 <- makeSafeContents certBags (Some encodedPassword) saltCerts;
    do ci1 <- makeSafeContents [keyBag] None [];
    let authenticatedSafeBytes := ser_authsafe [ci0; ci1] in
    (* computeMac: Iterations = 1, ID 3, 20 bytes *)
    do mkey <- kdf 3 20 saltMac encodedPassword 1;
    Ok (mkPfx 3 true (Some authenticatedSafeBytes)
              (mkMac true true (hmac_sha1 mkey authenticatedSafeBytes) saltMac 1)).

  (* ---------- Decode ----------------------------------------------------------------------------------- *)
  (* the loop "for _, ci := range authenticatedSafe" of getSafeContents *)
  Fixpoint safe_contents (cis : list safeCI) (password : list byte) : outcome (list safeBag) :=
    match cis with
    | [] => Ok []
    | ci :: r =>
      do data <- (match ci with
                  | CIData d => Ok d
                  | CIEncrypted v e => if negb (Z.eqb v 0) then Err 30 else pbDecrypt e password
                  | CIOther => Err 31
                  end);
      do bags <- de_bags data;
      do rest <- safe_contents r password;
      Ok (bags ++ rest)
    end.

  (* what getSafeContents does behind the MAC check *)
  Definition after_mac (content password : list byte) : outcome (list safeBag * list byte) :=
    do authenticatedSafe <- de_authsafe content;
    if negb (Nat.eqb (length authenticatedSafe) 2) then Err 32 else
    do bags <- safe_contents authenticatedSafe password;
    Ok (bags, password).

  (* the MAC key of verifyMac is pbkdf(..., ID 3, 20 bytes); a failing derivation has no Go counterpart
     (pbkdf returns a slice): it is mapped to the empty key *)
  Definition kdf_mac (salt password : list byte) (iterations : Z) : list byte :=
    match kdf 3 20 salt password iterations with Ok k => k | _ => [] end.

  Definition getSafeContentsFull (pfx : pfxPdu) (password : list byte) : outcome (list safeBag * list byte) :=
    getSafeContents kdf_mac hmac_sha1 after_mac pfx password.

  (* func decodePkcs8ShroudedKeyBag(asn1Data, password) *)
  Definition decodePkcs8ShroudedKeyBag (asn1Data password : list byte) : outcome Key :=
    do pkinfo <- de_blob asn1Data;
    do pkData <- pbDecrypt pkinfo password;
    de_key pkData.

  (* the bag loop of DecodeAll (exactlyOneCert = false) and Decode (true), after 03f783d *)
  Fixpoint bag_loop (exactlyOneCert : bool) (bags : list safeBag) (password : list byte)
           (privateKey : option Key) (certificate : list Cert) : outcome (option Key * list Cert) :=
    match bags with
    | [] => Ok (privateKey, certificate)
    | bag :: r =>
      match sb_id bag with
      | BagCert =>
        if (exactlyOneCert && negb (Nat.eqb (length certificate) 0))%bool then Err 40 else
        do certsData <- de_certbag (sb_value bag);
        do certs <- parse_certs certsData;
        match certs with
        | [c] => bag_loop exactlyOneCert r password privateKey (certificate ++ [c])
        | _ => Err 41
        end
      | BagKey =>
        match privateKey with
        | Some _ => Err 42
        | None =>
          do k <- decodePkcs8ShroudedKeyBag (sb_value bag) password;
          bag_loop exactlyOneCert r password (Some k) certificate
        end
      | BagOther => bag_loop exactlyOneCert r password privateKey certificate
      end
    end.

  Definition finish (res : option Key * list Cert) : outcome (Key * list Cert) :=
    match res with
    | (_, []) => Err 43                 (* certificate missing *)
    | (None, _) => Err 44               (* private key missing *)
    | (Some k, certs) => Ok (k, certs)
    end.

  (* func DecodeAll(pfxData, password) on the decoded pfxPdu and the BMP-encoded password *)
  Definition DecodeAll (pfx : pfxPdu) (encodedPassword : list byte) : outcome (Key * list Cert) :=
    do '(bags, pw) <- getSafeContentsFull pfx encodedPassword;
    do res <- bag_loop false bags pw None [];
    finish res.

  (* func Decode(pfxData, password): one certificate *)
  Definition Decode (pfx : pfxPdu) (encodedPassword : list byte) : outcome (Key * Cert) :=
    do '(bags, pw) <- getSafeContentsFull pfx encodedPassword;
    do res <- bag_loop true bags pw None [];
    do '(k, certs) <- finish res;
    match certs with [c] => Ok (k, c) | _ => Err 45 end.
End Container.
