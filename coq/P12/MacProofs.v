(* The PKCS#12 MAC gate: decoding gets past getSafeContents only with a matching HMAC over the
   received authenticated-safe bytes. *)
From Coq Require Import List NArith ZArith Bool Lia.
From GmsmVerif Require Import Lib.Outcome Dec.Access Dec.ByteModels P7.P7Proofs P12.MacModel.
Import ListNotations.
Local Open Scope nat_scope.

Section P12Proofs.
  Variable kdf_mac : list N -> list N -> Z -> list N.
  Variable hmac_sha1 : list N -> list N -> list N.
  Context {R : Type}.
  Variable rest : list N -> list N -> outcome R.

  Lemma verifyMac_ok m msg pw :
    verifyMac kdf_mac hmac_sha1 m msg pw = Ok tt ->
    md_isSHA1 m = true /\ md_digest m = hmac_sha1 (kdf_mac (md_salt m) pw (md_iterations m)) msg.
  Proof.
    unfold verifyMac. destruct (md_isSHA1 m); cbn [negb]; [|discriminate].
    destruct (bytes_eqb _ _) eqn:E; [|discriminate]. intros _. split; [reflexivity|].
    apply bytes_eqb_eq; exact E.
  Qed.

  Theorem p12_mac_gate pfx pw r :
    getSafeContents kdf_mac hmac_sha1 rest pfx pw = Ok r ->
    exists content pw',
      pfx_authSafeContent pfx = Some content /\
      (pw' = pw \/ (pw = [0; 0]%N /\ pw' = [])) /\
      md_digest (pfx_mac pfx) =
        hmac_sha1 (kdf_mac (md_salt (pfx_mac pfx)) pw' (md_iterations (pfx_mac pfx))) content /\
      rest content pw' = Ok r.
  Proof.
    unfold getSafeContents.
    destruct (Z.eqb (pfx_version pfx) 3); cbn [negb]; [|discriminate].
    destruct (pfx_authSafeIsData pfx); cbn [negb]; [|discriminate].
    destruct (pfx_authSafeContent pfx) as [content|]; [|discriminate].
    destruct (md_algPresent (pfx_mac pfx)); cbn [negb]; [|discriminate].
    destruct (verifyMac kdf_mac hmac_sha1 (pfx_mac pfx) content pw) as [[]|e| |] eqn:E1; cbn [obind]; try discriminate.
    - intros H. exists content, pw. split; [reflexivity|]. split; [left; reflexivity|].
      split; [apply (verifyMac_ok _ _ _ E1)|exact H].
    - destruct e as [|[|[|e]]]; cbn [obind]; try discriminate.
      destruct (is_empty_bmp pw) eqn:Ee; cbn [obind]; [|discriminate].
      destruct (verifyMac kdf_mac hmac_sha1 (pfx_mac pfx) content []) as [[]| | |] eqn:E2; cbn [obind]; try discriminate.
      intros H. exists content, []. split; [reflexivity|]. split.
      + right. split; [apply bytes_eqb_eq; exact Ee|reflexivity].
      + split; [apply (verifyMac_ok _ _ _ E2)|exact H].
  Qed.

  (* with any other password the MAC check fails unless HMAC(KDF(pw')) happens to coincide *)
  Theorem p12_wrong_password pfx pw r :
    getSafeContents kdf_mac hmac_sha1 rest pfx pw = Ok r ->
    forall content, pfx_authSafeContent pfx = Some content ->
      md_digest (pfx_mac pfx) = hmac_sha1 (kdf_mac (md_salt (pfx_mac pfx)) pw (md_iterations (pfx_mac pfx))) content \/
      (pw = [0; 0]%N /\
       md_digest (pfx_mac pfx) = hmac_sha1 (kdf_mac (md_salt (pfx_mac pfx)) [] (md_iterations (pfx_mac pfx))) content).
  Proof.
    intros H content Hc. destruct (p12_mac_gate pfx pw r H) as (c' & pw' & Hc' & Hpw & Hm & _).
    rewrite Hc in Hc'. injection Hc' as <-. destruct Hpw as [->|[-> ->]]; [left|right; split; [reflexivity|]]; exact Hm.
  Qed.
End P12Proofs.
