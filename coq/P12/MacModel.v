(* Model of the integrity gate of PKCS#12 decoding (C17): /repo/pkcs12/mac.go verifyMac and the
   part of /repo/pkcs12/pkcs12.go getSafeContents that runs before any bag is looked at.
   What encoding/asn1 decoded is the input (a pfxPdu); the key derivation (pkcs12/pbkdf.go, modelled
   in P12/PbkdfModel.v) and HMAC-SHA1 are Section variables; everything after the MAC check is the
   continuation [rest].  No proofs in this file. *)
From Coq Require Import List NArith ZArith Bool.
From GmsmVerif Require Import Lib.Outcome Dec.Access Dec.ByteModels.
Import ListNotations.
Local Open Scope nat_scope.

Record macData := mkMac {
  md_algPresent : bool;        (* len(Mac.Algorithm.Algorithm) != 0 *)
  md_isSHA1 : bool;            (* Mac.Algorithm.Algorithm.Equal(oidSHA1) *)
  md_digest : list byte;
  md_salt : list byte;
  md_iterations : Z }.

Record pfxPdu := mkPfx {
  pfx_version : Z;
  pfx_authSafeIsData : bool;                     (* AuthSafe.ContentType.Equal(oidDataContentType) *)
  pfx_authSafeContent : option (list byte);      (* the OCTET STRING inside AuthSafe.Content; None: does not decode *)
  pfx_mac : macData }.

Section P12.
  (* pbkdf(sha1Sum, 20, 64, salt, password, iterations, 3, 20) *)
  Variable kdf_mac : list byte -> list byte -> Z -> list byte.
  Variable hmac_sha1 : list byte -> list byte -> list byte.       (* key, message *)
  Context {R : Type}.
  Variable rest : list byte -> list byte -> outcome R.            (* authenticated safe bytes, password *)

  (* func verifyMac(macData, message, password) error; Err 1 = NotImplementedError, Err 2 = ErrIncorrectPassword *)
  Definition verifyMac (m : macData) (message password : list byte) : outcome unit :=
    if negb (md_isSHA1 m) then Err 1 else
    let key := kdf_mac (md_salt m) password (md_iterations m) in
    if bytes_eqb (md_digest m) (hmac_sha1 key message) then Ok tt else Err 2.

  Definition is_empty_bmp (password : list byte) : bool := bytes_eqb password [0; 0]%N.

  (* func getSafeContents(p12Data, password) up to the end of the MAC check, then [rest] *)
  Definition getSafeContents (pfx : pfxPdu) (password : list byte) : outcome R :=
    if negb (Z.eqb (pfx_version pfx) 3) then Err 3 else
    if negb (pfx_authSafeIsData pfx) then Err 4 else
    match pfx_authSafeContent pfx with
    | None => Err 5
    | Some content =>
      if negb (md_algPresent (pfx_mac pfx)) then Err 6 else
      do password <-
        (match verifyMac (pfx_mac pfx) content password with
         | Ok _ => Ok password
         | Err 2 =>
           if is_empty_bmp password
           then (do _ <- verifyMac (pfx_mac pfx) content []; Ok [])
           else Err 2
         | Err e => Err e
         | Panic => Panic
         | Hang => Hang
         end);
      rest content password
    end.
End P12.
