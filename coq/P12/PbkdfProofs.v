(* The model of /repo/pkcs12/pbkdf.go (P12/PbkdfModel.v) computes the key derivation of RFC 7292
   Appendix B.2 (P12/PbkdfSpec.v).

   [pbkdf_model_is_spec]: for every hash function H whose output is always 20 bytes, every block
   length v > 0, every salt, password, ID, size and every iteration count r >= 1:
       pbkdf_model H 20 v salt password r ID size = Ok (pbkdf_spec H 20 v salt password r ID size).
   No condition on the byte values, on the salt/password lengths or on size is needed.

   Conditions that ARE needed, and what the Go code does outside them (all shown below):
   - u = 20 (more exactly: the hash output is 20 bytes).  The code hard-codes 20 in
     "A := make([]byte, c*20)" and "copy(A[i*20:], Ai)": with a 16-byte hash the A_i are laid out
     with 4 zero bytes between them ([pbkdf_u16_deviates]); with a 32-byte hash A[:size] panics or
     the A_i overlap ([pbkdf_u32_panics]).  Every caller in /repo passes sha1Sum, 20, 64.
   - r >= 1.  For r <= 0 the code silently behaves as for r = 1 ([pbkdf_nonpositive_r]); the RFC has
     no such case, and the callers pass the iteration count decoded from the file unchecked.
   - v > 0 (v = 0 is an integer division by zero in the Go code as soon as the salt or password is
     non-empty or more than one round is needed). *)
From Coq Require Import List NArith ZArith Arith Bool Lia ZifyN ZifyNat ZifyBool.
From GmsmVerif Require Import Lib.Outcome P12.PbkdfSpec P12.PbkdfModel.
Import ListNotations.

(* ---------- list facts ------------------------------------------------------------------------------ *)
Lemma firstn_app_len {A} (p x : list A) : firstn (length p) (p ++ x) = p.
Proof. induction p as [|a p IH]; cbn [length firstn app]; [destruct x; reflexivity|f_equal; exact IH]. Qed.
Lemma skipn_app_len {A} (p x : list A) : skipn (length p) (p ++ x) = x.
Proof. induction p as [|a p IH]; cbn [length skipn app]; [reflexivity|exact IH]. Qed.
Lemma skipn_app_len_add {A} (p x : list A) n : skipn (length p + n) (p ++ x) = skipn n x.
Proof. induction p as [|a p IH]; cbn [length skipn app Nat.add]; [reflexivity|exact IH]. Qed.

Lemma concat_repeat_length {A} (p : list A) m : length (concat (repeat p m)) = (m * length p)%nat.
Proof. induction m as [|m IH]; cbn [repeat concat]; [reflexivity|]. rewrite app_length, IH. lia. Qed.

Lemma concat_repeat_add {A} (p : list A) a b :
  concat (repeat p (a + b)) = concat (repeat p a) ++ concat (repeat p b).
Proof. rewrite repeat_app, concat_app. reflexivity. Qed.

Lemma copies_prefix {A} (p : list A) n m1 m2 :
  (n <= m1 * length p)%nat -> (n <= m2 * length p)%nat ->
  firstn n (concat (repeat p m1)) = firstn n (concat (repeat p m2)).
Proof.
  assert (G : forall a d, (n <= a * length p)%nat ->
              firstn n (concat (repeat p (a + d))) = firstn n (concat (repeat p a))).
  { intros a d Ha. rewrite concat_repeat_add, firstn_app, concat_repeat_length.
    replace (n - a * length p)%nat with 0%nat by lia. cbn [firstn]. apply app_nil_r. }
  intros H1 H2. destruct (Nat.le_ge_cases m1 m2) as [L|L].
  - replace m2 with (m1 + (m2 - m1))%nat by lia. symmetry. apply G; exact H1.
  - replace m1 with (m2 + (m1 - m2))%nat by lia. apply G; exact H2.
Qed.

Lemma ceil_mul_ge a b : (0 < b)%nat -> (a <= b * ((a + b - 1) / b))%nat.
Proof.
  intros Hb. pose proof (Nat.div_mod (a + b - 1) b ltac:(lia)) as E.
  pose proof (Nat.mod_upper_bound (a + b - 1) b ltac:(lia)). lia.
Qed.

(* ---------- fillWithRepeats = step 2/3 of the RFC -------------------------------------------------- *)
Lemma fillWithRepeats_spec x v : (0 < v)%nat -> fillWithRepeats x v = Ok (stretch v x).
Proof.
  intros Hv. unfold fillWithRepeats, stretch. destruct x as [|a x]; [reflexivity|].
  set (p := a :: x). assert (Hp : (0 < length p)%nat) by (cbn; lia).
  replace (length p =? 0)%nat with false by lia. replace (v =? 0)%nat with false by lia.
  unfold copies_truncated, ceil_div. f_equal.
  set (n := (v * ((length p + v - 1) / v))%nat).
  apply copies_prefix.
  - pose proof (ceil_mul_ge n (length p) Hp). lia.
  - nia.
Qed.

Lemma stretch_length x v : (0 < v)%nat -> exists k, length (stretch v x) = (k * v)%nat.
Proof.
  intros Hv. unfold stretch. destruct x as [|a x]; [exists 0%nat; reflexivity|].
  set (p := a :: x). assert (Hp : (0 < length p)%nat) by (cbn; lia).
  exists (ceil_div (length p) v). unfold copies_truncated.
  rewrite firstn_length, concat_repeat_length. nia.
Qed.

(* ---------- big-endian numbers ------------------------------------------------------------------------ *)
Open Scope N_scope.

Lemma N2be_length len x : length (N2be len x) = len.
Proof. revert x; induction len as [|len IH]; intros x; cbn [N2be]; [reflexivity|]. rewrite app_length, IH. cbn. lia. Qed.

Lemma N2be_split a b x : N2be (a + b) x = N2be a (x / 256 ^ N.of_nat b) ++ N2be b x.
Proof.
  revert x; induction b as [|b IH]; intros x.
  - rewrite Nat.add_0_r. cbn [N2be N.of_nat]. rewrite N.pow_0_r, N.div_1_r, app_nil_r. reflexivity.
  - rewrite Nat.add_succ_r. cbn [N2be]. rewrite IH, <- app_assoc. do 2 f_equal.
    rewrite Nat2N.inj_succ, N.pow_succ_r', N.div_div by (try apply N.pow_nonzero; discriminate).
    reflexivity.
Qed.

Lemma N2be_zero len : N2be len 0 = repeat 0 len.
Proof.
  induction len as [|len IH]; [reflexivity|]. cbn [N2be]. change (0 / 256) with 0. change (0 mod 256) with 0.
  rewrite IH. symmetry. apply (repeat_cons len 0).
Qed.

Lemma N2be_mod len x : N2be len (x mod 256 ^ N.of_nat len) = N2be len x.
Proof.
  revert x; induction len as [|len IH]; intros x; [reflexivity|]. cbn [N2be].
  rewrite Nat2N.inj_succ, N.pow_succ_r'.
  assert (Hp : 256 ^ N.of_nat len <> 0) by (apply N.pow_nonzero; discriminate).
  rewrite N.mod_mul_r by (try exact Hp; discriminate).
  set (y := (x / 256) mod 256 ^ N.of_nat len).
  replace ((x mod 256 + 256 * y) / 256) with y by lia.
  replace ((x mod 256 + 256 * y) mod 256) with (x mod 256) by lia.
  unfold y. rewrite IH. reflexivity.
Qed.

Lemma pow256 n : 256 ^ n = 2 ^ (8 * n).
Proof. rewrite N.pow_mul_r. reflexivity. Qed.

Lemma big_Bytes_bound x : x < 256 ^ N.of_nat (N.to_nat ((N.size x + 7) / 8)).
Proof.
  rewrite N2Nat.id, pow256.
  apply N.lt_le_trans with (2 ^ N.size x); [apply N.size_gt|].
  apply N.pow_le_mono_r; [discriminate|]. lia.
Qed.

(* the length adjustment of pbkdf.go applied to x.Bytes() gives the v-byte big-endian form of x mod 2^(8v) *)
Definition adjust (v : nat) (Ijb : list N) : list N :=
  let Ijb := if (v <? length Ijb)%nat then skipn (length Ijb - v) Ijb else Ijb in
  if (length Ijb <? v)%nat then repeat 0 (v - length Ijb) ++ Ijb else Ijb.

Lemma adjust_big_Bytes v x : adjust v (big_Bytes x) = N2be v x.
Proof.
  unfold adjust, big_Bytes. set (m := N.to_nat ((N.size x + 7) / 8)).
  pose proof (big_Bytes_bound x) as Hb. fold m in Hb.
  rewrite N2be_length.
  destruct (Nat.ltb_spec v m) as [H|H].
  - assert (E : skipn (m - v) (N2be m x) = N2be v x).
    { replace m with ((m - v) + v)%nat at 2 by lia. rewrite N2be_split.
      rewrite <- (N2be_length (m - v) (x / 256 ^ N.of_nat v)) at 1. apply skipn_app_len. }
    rewrite E, N2be_length. replace (v <? v)%nat with false by lia. reflexivity.
  - rewrite N2be_length. destruct (Nat.ltb_spec m v) as [H'|H'].
    + replace v with ((v - m) + m)%nat at 2 by lia. rewrite N2be_split.
      rewrite N.div_small by exact Hb. rewrite N2be_zero. reflexivity.
    + replace v with m by lia. reflexivity.
Qed.

Close Scope N_scope.

(* ---------- the hash iteration --------------------------------------------------------------------------- *)
Section Proofs.
  Variable H : list N -> list N.
  Variable v : nat.
  Hypothesis Hv : (0 < v)%nat.
  Hypothesis Hlen : forall x, length (H x) = 20%nat.

  Lemma hash_iter_eq n x : hash_iter H n x = H_iter H n x.
  Proof. revert x; induction n as [|n IH]; intros x; cbn [hash_iter H_iter]; [reflexivity|apply IH]. Qed.

  Lemma compute_Ai_spec r x : (1 <= r)%nat -> compute_Ai H (Z.of_nat r) x = H_iter H r x.
  Proof.
    intros Hr. destruct r as [|r]; [lia|]. unfold compute_Ai. cbn [H_iter].
    replace (Z.to_nat (Z.of_nat (S r) - 1)) with r by lia. apply hash_iter_eq.
  Qed.

  Lemma H_iter_length n y : length y = 20%nat -> length (H_iter H n y) = 20%nat.
  Proof. revert y; induction n as [|n IH]; intros y Hy; cbn [H_iter]; [exact Hy|]. apply IH, Hlen. Qed.

  Lemma H_iter_length1 r x : (1 <= r)%nat -> length (H_iter H r x) = 20%nat.
  Proof. intros Hr. destruct r as [|r]; [lia|]. cbn [H_iter]. apply H_iter_length, Hlen. Qed.

  (* ---------- step 6.B: the B loop ------------------------------------------------------------------------ *)
  Lemma B_loop_spec Ai : (0 < length Ai)%nat -> forall fuel k,
    (v <= fuel + k * length Ai)%nat ->
    exists k', B_loop fuel (concat (repeat Ai k)) Ai v = Ok (concat (repeat Ai k')) /\ (v <= k' * length Ai)%nat.
  Proof.
    intros HA. induction fuel as [|fuel IH]; intros k Hk; cbn [B_loop]; rewrite concat_repeat_length.
    - replace (k * length Ai <? v)%nat with false by lia. exists k. split; [reflexivity|lia].
    - destruct (Nat.ltb_spec (k * length Ai) v) as [L|L].
      + replace (concat (repeat Ai k) ++ Ai) with (concat (repeat Ai (k + 1))).
        * apply IH. lia.
        * rewrite concat_repeat_add. cbn [repeat concat]. rewrite app_nil_r. reflexivity.
      + exists k. split; [reflexivity|lia].
  Qed.

  Lemma B_spec Ai : (0 < length Ai)%nat ->
    exists Bfull, B_loop v [] Ai v = Ok Bfull /\ firstn v Bfull = copies_truncated Ai v.
  Proof.
    intros HA. destruct (B_loop_spec Ai HA v 0%nat ltac:(lia)) as (k' & E & Hk').
    exists (concat (repeat Ai k')). split; [exact E|].
    unfold copies_truncated. apply copies_prefix; [exact Hk'|nia].
  Qed.

  (* ---------- step 6.C: the in-place update of I ------------------------------------------------------------ *)
  Definition upd_block (Bbi : N) (blk : list N) : list N := N2be v (be2N blk + Bbi + 1)%N.

  Lemma I_step_spec P blk R Bbi j :
    length P = (j * v)%nat -> length blk = v ->
    I_step v (P ++ blk ++ R) Bbi j = P ++ upd_block Bbi blk ++ R.
  Proof.
    intros HP HB. unfold I_step.
    fold (adjust v (big_Bytes (big_SetBytes (firstn v (skipn (j * v) (P ++ blk ++ R))) + Bbi + 1))).
    rewrite adjust_big_Bytes.
    assert (E1 : firstn v (blk ++ R) = blk) by (rewrite <- HB; apply firstn_app_len).
    assert (E2 : skipn ((j + 1) * v) (P ++ blk ++ R) = R).
    { replace ((j + 1) * v)%nat with (length (P ++ blk) + 0)%nat by (rewrite app_length; lia).
      rewrite (app_assoc P blk R), skipn_app_len_add. reflexivity. }
    rewrite E2. rewrite <- HP, skipn_app_len, firstn_app_len, E1. reflexivity.
  Qed.

  Lemma I_loop_spec Bbi : forall n j P R,
    length P = (j * v)%nat -> length R = (n * v)%nat ->
    I_loop n j v (P ++ R) Bbi = P ++ concat (map (upd_block Bbi) (blocks v n R)).
  Proof.
    induction n as [|n IH]; intros j P R HP HR; cbn [I_loop blocks map concat].
    - destruct R; [reflexivity|discriminate].
    - rewrite <- (firstn_skipn v R) at 1.
      rewrite I_step_spec; [|exact HP|rewrite firstn_length; nia].
      rewrite app_assoc, IH.
      + rewrite <- app_assoc. reflexivity.
      + rewrite app_length. unfold upd_block. rewrite N2be_length. lia.
      + rewrite skipn_length. nia.
  Qed.

  Lemma blocks_concat_length (f : list N -> list N) : (forall b, length (f b) = v) ->
    forall n R, length (concat (map f (blocks v n R))) = (n * v)%nat.
  Proof.
    intros Hf. induction n as [|n IH]; intros R; cbn [blocks map concat]; [reflexivity|].
    rewrite app_length, Hf, IH. lia.
  Qed.

  Lemma next_I_spec I Ai k :
    length I = (k * v)%nat -> (0 < length Ai)%nat ->
    exists Bfull, B_loop v [] Ai v = Ok Bfull /\
      I_loop (length I / v) 0 v I (big_SetBytes (firstn v Bfull)) = next_I v I Ai /\
      length (next_I v I Ai) = (k * v)%nat.
  Proof.
    intros HI HA. destruct (B_spec Ai HA) as (Bfull & E & EB).
    exists Bfull. split; [exact E|].
    assert (Hk : (length I / v = k)%nat) by (rewrite HI; apply Nat.div_mul; lia).
    split.
    - rewrite EB, Hk. unfold next_I. rewrite Hk.
      rewrite (I_loop_spec _ k 0%nat [] I eq_refl HI). cbn [app]. f_equal.
      apply map_ext. intros blk. unfold upd_block, big_SetBytes.
      rewrite <- pow256. rewrite N2be_mod. reflexivity.
    - unfold next_I. rewrite Hk. apply blocks_concat_length. intros b. apply N2be_length.
  Qed.

  (* ---------- steps 6 and 7: the main loop ------------------------------------------------------------------- *)
  Lemma copy_at_spec Adone Ai n i :
    length Adone = (i * 20)%nat -> length Ai = 20%nat ->
    copy_at (Adone ++ repeat 0%N (S n * 20)) (i * 20) Ai = (Adone ++ Ai) ++ repeat 0%N (n * 20).
  Proof.
    intros HA HAi. unfold copy_at. rewrite app_length, repeat_length, HA, HAi.
    replace (Nat.min (i * 20 + S n * 20 - i * 20) 20) with 20%nat by lia.
    assert (E1 : firstn 20 Ai = Ai) by (rewrite <- HAi; apply firstn_all).
    assert (E2 : skipn 20 (repeat 0%N (S n * 20)) = repeat 0%N (n * 20)).
    { replace (S n * 20)%nat with (20 + n * 20)%nat by lia. rewrite repeat_app.
      rewrite <- (repeat_length 0%N 20) at 1. apply skipn_app_len. }
    rewrite E1. rewrite <- HA, firstn_app_len, skipn_app_len_add, E2.
    rewrite <- app_assoc. reflexivity.
  Qed.

  Lemma main_loop_spec c r D : (1 <= r)%nat -> forall n i I Adone,
    (n + i = c)%nat -> length Adone = (i * 20)%nat -> (exists k, length I = (k * v)%nat) ->
    main_loop H n i c v (Z.of_nat r) D I (Adone ++ repeat 0%N (n * 20)) = Ok (Adone ++ rounds H v n r D I).
  Proof.
    intros Hr. induction n as [|n IH]; intros i I Adone Hc HA [k HI]; cbn [main_loop rounds].
    - cbn [Nat.mul repeat]. reflexivity.
    - rewrite (compute_Ai_spec r _ Hr). set (Ai := H_iter H r (D ++ I)).
      assert (HAi : length Ai = 20%nat) by (apply H_iter_length1; exact Hr).
      rewrite (copy_at_spec Adone Ai n i HA HAi).
      assert (HA' : length (Adone ++ Ai) = (S i * 20)%nat) by (rewrite app_length; lia).
      destruct (Nat.ltb_spec i (c - 1)) as [L|L].
      + destruct (next_I_spec I Ai k HI ltac:(lia)) as (Bfull & EB & EI & EL).
        rewrite EB. cbn [obind]. replace (v =? 0)%nat with false by lia.
        rewrite EI. rewrite IH; [|lia|exact HA'|exists k; exact EL].
        rewrite <- app_assoc. reflexivity.
      + assert (n = 0)%nat by lia. subst n. cbn [main_loop rounds Nat.mul repeat].
        rewrite !app_nil_r. reflexivity.
  Qed.

  (* ---------- the theorem --------------------------------------------------------------------------------------- *)
  Theorem pbkdf_model_is_spec_sec :
    forall salt password r ID size, (1 <= r)%nat ->
      pbkdf_model H 20 v salt password (Z.of_nat r) ID size =
      Ok (pbkdf_spec H 20 v salt password r ID size).
  Proof.
    intros salt password r ID size Hr. unfold pbkdf_model, pbkdf, pbkdf_spec.
    rewrite !fillWithRepeats_spec by exact Hv. cbn [obind Nat.eqb].
    fold (ceil_div size 20). set (c := ceil_div size 20).
    destruct (stretch_length salt v Hv) as [k1 H1]. destruct (stretch_length password v Hv) as [k2 H2].
    change (repeat 0%N (c * 20)) with ([] ++ repeat 0%N (c * 20)).
    rewrite (main_loop_spec c r (repeat ID v) Hr c 0%nat (stretch v salt ++ stretch v password) []);
      [|lia|reflexivity|exists (k1 + k2)%nat; rewrite app_length; lia].
    cbn [obind app].
    replace (c * 20 <? size)%nat with false; [reflexivity|].
    pose proof (ceil_mul_ge size 20 ltac:(lia)). unfold c, ceil_div. lia.
  Qed.
End Proofs.

Theorem pbkdf_model_is_spec :
  forall (H : list N -> list N) (v : nat),
    (0 < v)%nat -> (forall x, length (H x) = 20%nat) ->
    forall salt password r ID size, (1 <= r)%nat ->
      pbkdf_model H 20 v salt password (Z.of_nat r) ID size =
      Ok (pbkdf_spec H 20 v salt password r ID size).
Proof. exact pbkdf_model_is_spec_sec. Qed.
Print Assumptions pbkdf_model_is_spec.

(* r <= 0 is not rejected: it derives the same key as r = 1 *)
Theorem pbkdf_nonpositive_r :
  forall H u v salt password r ID size, (r <= 0)%Z ->
    pbkdf_model H u v salt password r ID size = pbkdf_model H u v salt password 1 ID size.
Proof.
  intros H u v salt password r ID size Hr. unfold pbkdf_model, pbkdf.
  assert (E : forall n i c D I A, main_loop H n i c v r D I A = main_loop H n i c v 1 D I A).
  { induction n as [|n IH]; intros i c D I A; cbn [main_loop]; [reflexivity|].
    unfold compute_Ai. replace (Z.to_nat (r - 1)) with (Z.to_nat (1 - 1)) by lia.
    destruct (i <? c - 1)%nat.
    - destruct (B_loop _ _ _ _); cbn [obind]; try reflexivity. destruct (v =? 0)%nat; [reflexivity|apply IH].
    - apply IH. }
  destruct (fillWithRepeats salt v); cbn [obind]; try reflexivity.
  destruct (fillWithRepeats password v); cbn [obind]; try reflexivity.
  destruct (u =? 0)%nat; [reflexivity|]. rewrite E. reflexivity.
Qed.
Print Assumptions pbkdf_nonpositive_r.

(* ---------- examples ---------------------------------------------------------------------------------------------- *)
Open Scope N_scope.

(* a toy hash with n output bytes (position sensitive, so that block order and the I update show) *)
Definition toy_hash (n : nat) (x : list N) : list N :=
  let acc := fold_left (fun acc b => (acc * 13 + b) mod 65521) x 7 in
  map (fun i => let i := N.of_nat i in (((acc + 977 * i) mod 65521) * (i + 3)) mod 256) (seq 0 n).
Definition sq (n : nat) (a b : N) : list N := map (fun i => (a * N.of_nat i + b) mod 256) (seq 0 n).

Lemma toy_hash_length n x : length (toy_hash n x) = n.
Proof. unfold toy_hash. rewrite map_length, seq_length. reflexivity. Qed.

(* salt and password lengths not multiples of v, size > 20: three rounds, the I update runs twice.
   The value is also what /repo's pbkdf returns with the same toy hash written in Go. *)
Example pbkdf_ex1 :
  pbkdf_model (toy_hash 20) 20 8 (sq 5 255 255) (sq 9 0 255) 2 3 50
  = Ok (pbkdf_spec (toy_hash 20) 20 8 (sq 5 255 255) (sq 9 0 255) 2 3 50)
  /\ pbkdf_spec (toy_hash 20) 20 8 (sq 5 255 255) (sq 9 0 255) 2 3 50 =
     [0x0d; 0x00; 0x95; 0xcc; 0xa5; 0x20; 0x3d; 0xfc; 0x5d; 0x14; 0xc8; 0x1e; 0x16; 0xb0; 0xec; 0xca;
      0x4a; 0x6c; 0x30; 0x96; 0x35; 0xe0; 0x2d; 0x1c; 0xad; 0xe0; 0xb5; 0x2c; 0x45; 0x00; 0x5d; 0x5c;
      0xfd; 0x40; 0x25; 0xac; 0xd5; 0xa0; 0x0d; 0x1c; 0x98; 0x64; 0xd2; 0xe2; 0x94; 0xe8; 0xde; 0x76;
      0xb0; 0x8c].
Proof. split; vm_compute; reflexivity. Qed.

Example pbkdf_ex2 :
  pbkdf_model (toy_hash 20) 20 64 (sq 70 3 1) (sq 100 5 2) 1 2 65
  = Ok (pbkdf_spec (toy_hash 20) 20 64 (sq 70 3 1) (sq 100 5 2) 1 2 65).
Proof. vm_compute. reflexivity. Qed.

(* all-ff blocks: the sum I_j + B + 1 overflows 2^(8v) (truncation path) *)
Example pbkdf_ex3 :
  pbkdf_model (toy_hash 20) 20 3 (sq 4 1 250) (sq 2 1 254) 1 255 100
  = Ok (pbkdf_spec (toy_hash 20) 20 3 (sq 4 1 250) (sq 2 1 254) 1 255 100).
Proof. vm_compute. reflexivity. Qed.

(* the hard-coded 20: with a 16-byte hash (u = 16) the code leaves 4 zero bytes after each A_i ... *)
Example pbkdf_u16_deviates :
  pbkdf_model (toy_hash 16) 16 64 (sq 8 3 1) (sq 10 5 2) 2 1 40
  <> Ok (pbkdf_spec (toy_hash 16) 16 64 (sq 8 3 1) (sq 10 5 2) 2 1 40)
  /\ exists k, pbkdf_model (toy_hash 16) 16 64 (sq 8 3 1) (sq 10 5 2) 2 1 40 = Ok k /\
               firstn 4 (skipn 16 k) = [0; 0; 0; 0].
Proof.
  split.
  - vm_compute. discriminate.
  - eexists. split; vm_compute; reflexivity.
Qed.

(* ... and with a 32-byte hash (u = 32) asking for 32 bytes panics (A has 20 bytes) *)
Example pbkdf_u32_panics :
  pbkdf_model (toy_hash 32) 32 64 (sq 8 3 1) (sq 10 5 2) 2 1 32 = Panic.
Proof. vm_compute. reflexivity. Qed.

Example pbkdf_v0_panics : pbkdf_model (toy_hash 20) 20 0 [] [] 1 1 21 = Panic.
Proof. vm_compute. reflexivity. Qed.

(* a hash that returns the empty string makes the B loop spin forever *)
Example pbkdf_empty_hash_hangs : pbkdf_model (fun _ => []) 20 64 [1] [2] 1 1 21 = Hang.
Proof. vm_compute. reflexivity. Qed.
