(* The hypotheses of the whole-container PKCS#12 theorems hold together: the toy codecs of P12/ContainerToy.v
   decode what they encode, for every structure, into bytes; the toy hash has 20 bytes; the toy block function
   inverts; and Encode of a key, a certificate and a CA certificate under a password returns a container. *)
From Coq Require Import List NArith ZArith Bool Arith Lia.
From GmsmVerif Require Import Lib.Outcome Dec.Access Dec.AccessProofs P12.MacModel P12.ContainerModel P12.PbkdfProofs
  P12.ContainerInst P12.ContainerToy.
Import ListNotations.
Local Open Scope nat_scope.

Lemma dec_enc_ones k r : dec_n (repeat 1%N k ++ 0%N :: r) = Some (N.of_nat k, r).
Proof.
  induction k as [|k IH]; [reflexivity|].
  cbn [repeat app dec_n]. change (1 =? 0)%N with false. cbv iota. rewrite IH. rewrite Nat2N.inj_succ. reflexivity.
Qed.

Lemma dec_enc_n n r : dec_n (enc_n n ++ r) = Some (n, r).
Proof. unfold enc_n. rewrite <- app_assoc. cbn [app]. rewrite dec_enc_ones, N2Nat.id. reflexivity. Qed.

Lemma dec_many_enc l : forall r, dec_many (length l) (concat (map enc_n l) ++ r) = Some (l, r).
Proof.
  induction l as [|x l IH]; intros r; [reflexivity|].
  cbn [length map concat dec_many]. rewrite <- app_assoc, dec_enc_n, IH. reflexivity.
Qed.

Lemma dec_enc_list l r : dec_list (enc_list l ++ r) = Some (l, r).
Proof.
  unfold dec_list, enc_list. rewrite <- app_assoc, dec_enc_n, Nat2N.id. apply dec_many_enc.
Qed.

Lemma dec_enc_z z r : dec_z (enc_z z ++ r) = Some (z, r).
Proof.
  destruct z as [|p|p]; cbn [enc_z app dec_z]; [reflexivity| |].
  - change (1 =? 0)%N with false. cbv iota. rewrite dec_enc_n. reflexivity.
  - change (2 =? 0)%N with false. cbv iota. rewrite dec_enc_n. reflexivity.
Qed.

Lemma alg_of_code a : alg_of (alg_code a) = a.
Proof. destruct a; reflexivity. Qed.
Lemma bag_of_code i : bag_of (bag_code i) = i.
Proof. destruct i; reflexivity. Qed.

Lemma dec_ser_blob e r : dec_blob (toy_ser_blob e ++ r) = Some (e, r).
Proof.
  destruct e as [a salt it data]. unfold toy_ser_blob, dec_blob. cbn [pb_alg pb_salt pb_iter pb_data app].
  rewrite <- !app_assoc, dec_enc_list, dec_enc_z, dec_enc_list, alg_of_code. reflexivity.
Qed.

Lemma toy_blob_codec e : toy_de_blob (toy_ser_blob e) = Ok e.
Proof. unfold toy_de_blob. rewrite <- (app_nil_r (toy_ser_blob e)), dec_ser_blob. reflexivity. Qed.

Lemma dec_bags_many_ser l : forall r, dec_bags_many (length l) (concat (map ser_bag l) ++ r) = Some (l, r).
Proof.
  induction l as [|[i v] l IH]; intros r; [reflexivity|].
  cbn [length map concat dec_bags_many ser_bag sb_id sb_value app].
  rewrite <- app_assoc, dec_enc_list, IH, bag_of_code. reflexivity.
Qed.

(* everything the encoders write is a byte *)
Lemma ok_enc_n n : bytes_ok (enc_n n).
Proof.
  unfold bytes_ok, enc_n. apply Forall_app. split; [|repeat constructor].
  apply Forall_forall. intros x Hx. apply repeat_spec in Hx. subst. reflexivity.
Qed.
Lemma ok_concat (ls : list (list N)) : Forall bytes_ok ls -> bytes_ok (concat ls).
Proof.
  unfold bytes_ok. induction 1 as [|x l Hx Hl IH]; cbn [concat]; [constructor|]. apply Forall_app. split; assumption.
Qed.
Lemma ok_enc_list l : bytes_ok (enc_list l).
Proof.
  unfold enc_list. apply Forall_app. split; [apply ok_enc_n|]. apply ok_concat.
  apply Forall_forall. intros x Hx. apply in_map_iff in Hx. destruct Hx as (y & <- & _). apply ok_enc_n.
Qed.
Lemma ok_ser_bag b : bytes_ok (ser_bag b).
Proof.
  unfold ser_bag. constructor; [destruct (sb_id b); reflexivity|apply ok_enc_list].
Qed.

Lemma toy_bags_codec l : toy_de_bags (toy_ser_bags l) = Ok l /\ bytes_ok (toy_ser_bags l).
Proof.
  split.
  - unfold toy_de_bags, toy_ser_bags. rewrite dec_enc_n, Nat2N.id.
    rewrite <- (app_nil_r (concat _)), dec_bags_many_ser. reflexivity.
  - unfold toy_ser_bags. apply Forall_app. split; [apply ok_enc_n|]. apply ok_concat.
    apply Forall_forall. intros x Hx. apply in_map_iff in Hx. destruct Hx as (y & <- & _). apply ok_ser_bag.
Qed.

Lemma dec_ser_ci c r : dec_ci (ser_ci c ++ r) = Some (c, r).
Proof.
  destruct c as [d|v e|]; cbn [ser_ci app dec_ci].
  - rewrite dec_enc_list. reflexivity.
  - change (1 =? 0)%N with false. change (1 =? 1)%N with true. cbv iota.
    rewrite <- app_assoc, dec_enc_z, dec_ser_blob. reflexivity.
  - reflexivity.
Qed.

Lemma dec_cis_many_ser l : forall r, dec_cis_many (length l) (concat (map ser_ci l) ++ r) = Some (l, r).
Proof.
  induction l as [|c l IH]; intros r; [reflexivity|].
  cbn [length map concat dec_cis_many]. rewrite <- app_assoc, dec_ser_ci, IH. reflexivity.
Qed.

Lemma toy_authsafe_codec l : toy_de_authsafe (toy_ser_authsafe l) = Ok l.
Proof.
  unfold toy_de_authsafe, toy_ser_authsafe. rewrite dec_enc_n, Nat2N.id.
  rewrite <- (app_nil_r (concat _)), dec_cis_many_ser. reflexivity.
Qed.

Lemma toy_key_codec k b : toy_ser_key k = Ok b -> toy_de_key b = Ok k /\ bytes_ok b.
Proof. intros [= <-]. destruct k; split; try reflexivity; repeat constructor. Qed.

Lemma toy_certbag_codec b : toy_de_certbag (toy_certbag b) = Ok b.
Proof. reflexivity. Qed.

Lemma toy_certs_parse c : toy_parse_certs (toy_cert_raw c) = Ok [c].
Proof. reflexivity. Qed.

Lemma toy_H_len x : length (toy_H x) = 20.
Proof. apply toy_hash_length. Qed.

Lemma toy_H_bytes x : bytes_ok (toy_H x).
Proof.
  unfold toy_H, toy_hash, bytes_ok. set (acc := fold_left _ x _). clearbody acc.
  induction (seq 0 20) as [|i l IH]; cbn [map]; constructor; [|exact IH].
  apply N.mod_upper_bound. lia.
Qed.

Lemma toy_des_ok key x : length x = 8 -> bytes_ok x ->
  length (toy_des key x) = 8 /\ bytes_ok (toy_des key x) /\ toy_des key (toy_des key x) = x.
Proof.
  intros L B. unfold toy_des. rewrite rev_length, rev_involutive. repeat split; auto.
  unfold bytes_ok in *. apply Forall_rev. exact B.
Qed.

(* Encode succeeds: key true, a two-byte certificate, one CA certificate, the password "p" in BMP, three salts.
   The statement spells the instance out, so that it can be handed to the theorems of Props/C17.v as it is (no
   conversion for the kernel to do; evaluating Encode takes four key derivations of 2048 iterations and is done
   once, here, by vm_compute on a boolean). *)
Lemma toy_encode_ok :
  exists pfx,
    Encode (kdf_inst toy_H) (create_inst toy_des toy_des) toy_hmac bool (list N) toy_cert_raw toy_ser_key
           toy_ser_blob toy_certbag toy_ser_bags toy_ser_authsafe
           true [1; 2]%N [[3]%N] [0; 112; 0; 0]%N [1;2;3;4;5;6;7;8]%N [8;7;6;5;4;3;2;1]%N [9;9;9;9;9;9;9;9]%N = Ok pfx.
Proof.
  match goal with |- exists pfx, ?X = Ok pfx =>
    assert (T : (match X with Ok _ => true | _ => false end) = true) by (vm_compute; reflexivity);
    destruct X as [pfx| | |]; try discriminate T; exists pfx; reflexivity
  end.
Qed.
