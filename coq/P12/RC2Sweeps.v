(* Exhaustive sweeps over the 65536 uint16 values for the rotation lemmas of RC2
   (rotating left by s and then by 16-s, or the other way round, gives the word back; s = 1,2,3,5).
   Each sweep is a complete enumeration of the finite domain, lifted with forallb_forall. *)
From Coq Require Import List NArith Arith Bool Lia ZifyN ZifyNat ZifyBool.
From GmsmVerif Require Import Lib.Outcome P12.RC2Model.
Import ListNotations.
Open Scope N_scope.

(* all numbers below 2^bits *)
Fixpoint nbelow (bits : nat) : list N :=
  match bits with
  | O => [0]
  | S b => let l := nbelow b in map N.double l ++ map N.succ_double l
  end.

Lemma nbelow_complete bits x : x < 2 ^ N.of_nat bits -> In x (nbelow bits).
Proof.
  revert x; induction bits as [|b IH]; intros x Hx.
  - cbn in Hx. left. lia.
  - cbn [nbelow]. rewrite Nat2N.inj_succ, N.pow_succ_r' in Hx.
    apply in_or_app.
    assert (Hh : In (x / 2) (nbelow b)) by (apply IH; apply N.div_lt_upper_bound; lia).
    destruct (N.even x) eqn:Ev.
    + left. apply in_map_iff. exists (x / 2). split; [|exact Hh].
      rewrite N.double_spec. apply N.even_spec in Ev. destruct Ev as [m Hm]. lia.
    + right. apply in_map_iff. exists (x / 2). split; [|exact Hh].
      rewrite N.succ_double_spec.
      assert (Od : N.odd x = true) by (rewrite <- N.negb_even, Ev; reflexivity).
      apply N.odd_spec in Od. destruct Od as [m Hm]. lia.
Qed.

Lemma sweep16 (f : N -> bool) :
  forallb f (nbelow 16) = true -> forall x, x < 65536 -> f x = true.
Proof.
  intros H x Hx. rewrite forallb_forall in H. apply H. apply nbelow_complete. exact Hx.
Qed.

Definition rot_back (s : N) (x : N) : bool := rotl16 (rotl16 x s) (16 - s) =? x.
Definition rot_forth (s : N) (x : N) : bool := rotl16 (rotl16 x (16 - s)) s =? x.

Lemma rot_back_1 : forallb (rot_back 1) (nbelow 16) = true. Proof. vm_compute. reflexivity. Qed.
Lemma rot_back_2 : forallb (rot_back 2) (nbelow 16) = true. Proof. vm_compute. reflexivity. Qed.
Lemma rot_back_3 : forallb (rot_back 3) (nbelow 16) = true. Proof. vm_compute. reflexivity. Qed.
Lemma rot_back_5 : forallb (rot_back 5) (nbelow 16) = true. Proof. vm_compute. reflexivity. Qed.
Lemma rot_forth_1 : forallb (rot_forth 1) (nbelow 16) = true. Proof. vm_compute. reflexivity. Qed.
Lemma rot_forth_2 : forallb (rot_forth 2) (nbelow 16) = true. Proof. vm_compute. reflexivity. Qed.
Lemma rot_forth_3 : forallb (rot_forth 3) (nbelow 16) = true. Proof. vm_compute. reflexivity. Qed.
Lemma rot_forth_5 : forallb (rot_forth 5) (nbelow 16) = true. Proof. vm_compute. reflexivity. Qed.

Definition rc2_shift (s : N) : Prop := s = 1 \/ s = 2 \/ s = 3 \/ s = 5.

(* rotl16 (rotl16 x s) (16-s) = x for every 16-bit x and every shift RC2 uses *)
Lemma rotl16_back s x : rc2_shift s -> x < 65536 -> rotl16 (rotl16 x s) (16 - s) = x.
Proof.
  intros Hs Hx. apply N.eqb_eq. change (rot_back s x = true).
  destruct Hs as [-> | [-> | [-> | ->]]].
  - exact (sweep16 _ rot_back_1 x Hx).
  - exact (sweep16 _ rot_back_2 x Hx).
  - exact (sweep16 _ rot_back_3 x Hx).
  - exact (sweep16 _ rot_back_5 x Hx).
Qed.

Lemma rotl16_forth s x : rc2_shift s -> x < 65536 -> rotl16 (rotl16 x (16 - s)) s = x.
Proof.
  intros Hs Hx. apply N.eqb_eq. change (rot_forth s x = true).
  destruct Hs as [-> | [-> | [-> | ->]]].
  - exact (sweep16 _ rot_forth_1 x Hx).
  - exact (sweep16 _ rot_forth_2 x Hx).
  - exact (sweep16 _ rot_forth_3 x Hx).
  - exact (sweep16 _ rot_forth_5 x Hx).
Qed.

Lemma rotl16_lt x s : rotl16 x s < 65536.
Proof. unfold rotl16. apply N.mod_lt. discriminate. Qed.
