(* Proofs about the whole-container PKCS#12 model (C17): CBC and padding invert, Decode / DecodeAll return
   what Encode was given, the MAC gate for the concrete continuation, the one-key-bag / one-certificate-bag
   rules. *)
From Coq Require Import List NArith ZArith Bool Arith Lia ZifyN ZifyNat ZifyBool.
From GmsmVerif Require Import Lib.Outcome Dec.Access Dec.AccessProofs Dec.ByteModels Dec.ByteProofs
  P7.P7Proofs P12.MacModel P12.MacProofs P12.ContainerModel.
Import ListNotations.
Local Open Scope nat_scope.

(* ---------- bytes ---------------------------------------------------------------------------------- *)
Lemma lxor_byte a b : (a < 256)%N -> (b < 256)%N -> (N.lxor a b < 256)%N.
Proof.
  intros Ha Hb.
  pose proof (byte_sweep (fun a => forallb (fun b => (N.lxor a b <? 256)%N) (map N.of_nat (seq 0 256)))
                ltac:(vm_compute; reflexivity) a Ha) as S.
  cbv beta in S. rewrite forallb_forall in S.
  apply N.ltb_lt. apply S. apply in_map_iff. exists (N.to_nat b). split; [apply N2Nat.id|apply in_seq; lia].
Qed.

Lemma xor_bytes_length a b : length a = length b -> length (xor_bytes a b) = length a.
Proof.
  revert b; induction a as [|x a IH]; intros [|y b] H; cbn [xor_bytes length] in *; try lia.
  f_equal. apply IH. lia.
Qed.

Lemma xor_bytes_ok a b : bytes_ok a -> bytes_ok b -> bytes_ok (xor_bytes a b).
Proof.
  unfold bytes_ok. revert b; induction a as [|x a IH]; intros [|y b] Ha Hb; cbn [xor_bytes]; try constructor.
  - inversion Ha; inversion Hb; subst. apply lxor_byte; assumption.
  - inversion Ha; inversion Hb; subst. apply IH; assumption.
Qed.

Lemma xor_bytes_cancel a b : length a = length b -> xor_bytes (xor_bytes a b) b = a.
Proof.
  revert b; induction a as [|x a IH]; intros [|y b] H; cbn [xor_bytes length] in *; try lia; try reflexivity.
  f_equal; [|apply IH; lia].
  rewrite N.lxor_assoc, N.lxor_nilpotent, N.lxor_0_r. reflexivity.
Qed.

Lemma bytes_ok_app a b : bytes_ok (a ++ b) <-> bytes_ok a /\ bytes_ok b.
Proof. unfold bytes_ok. apply Forall_app. Qed.

Lemma bytes_ok_firstn n a : bytes_ok a -> bytes_ok (firstn n a).
Proof.
  unfold bytes_ok. intros H. rewrite <- (firstn_skipn n a) in H. apply Forall_app in H. tauto.
Qed.

Lemma bytes_ok_skipn n a : bytes_ok a -> bytes_ok (skipn n a).
Proof.
  unfold bytes_ok. intros H. rewrite <- (firstn_skipn n a) in H. apply Forall_app in H. tauto.
Qed.

Lemma bytes_ok_repeat x n : (x < 256)%N -> bytes_ok (repeat x n).
Proof. intros H. unfold bytes_ok. apply Forall_forall. intros y Hy. apply repeat_spec in Hy. subst. exact H. Qed.

Lemma at_last_repeat (d : list N) x k : 1 <= k ->
  at_ (d ++ repeat x k) (length (d ++ repeat x k) - 1) = Ok x.
Proof.
  intros Hk. destruct k as [|k']; [lia|].
  replace (S k') with (k' + 1) by lia. rewrite repeat_app. cbn [repeat]. rewrite app_assoc.
  replace (length ((d ++ repeat x k') ++ [x]) - 1) with (length (d ++ repeat x k'))
    by (rewrite !app_length; cbn [length]; lia).
  unfold at_. rewrite last_nth_error. reflexivity.
Qed.

(* ---------- CBC ------------------------------------------------------------------------------------ *)
(* a block cipher object: Encrypt works on every 8-byte block and Decrypt inverts it *)
Definition block_ok (E D : blockfn) : Prop :=
  forall x, length x = 8 -> bytes_ok x ->
    exists y, E x = Ok y /\ length y = 8 /\ bytes_ok y /\ D y = Ok x.

Lemma cbc_roundtrip E D : block_ok E D -> forall n prev data,
  length prev = 8 -> bytes_ok prev -> length data = 8 * n -> bytes_ok data ->
  exists ct, cbc_enc_go n E prev data = Ok ct /\ length ct = 8 * n /\ cbc_dec_go n D prev ct = Ok data.
Proof.
  intros HB. induction n as [|n IH]; intros prev data Hp Hpo Hd Hdo.
  - destruct data; [|cbn in Hd; lia]. exists []. repeat split; reflexivity.
  - cbn [cbc_enc_go]. unfold blockSize.
    set (blk := firstn 8 data). set (rest := skipn 8 data).
    assert (Hblk : length blk = 8) by (unfold blk; rewrite firstn_length; lia).
    assert (Hrest : length rest = 8 * n) by (unfold rest; rewrite skipn_length; lia).
    assert (Hx : length (xor_bytes blk prev) = 8) by (rewrite xor_bytes_length; lia).
    destruct (HB (xor_bytes blk prev) Hx) as (c & Ec & Hc & Hco & Dc).
    { apply xor_bytes_ok; [apply bytes_ok_firstn; exact Hdo|exact Hpo]. }
    rewrite Ec. cbn [obind].
    destruct (IH c rest Hc Hco Hrest ltac:(apply bytes_ok_skipn; exact Hdo)) as (ct & Ect & Hct & Dct).
    rewrite Ect. cbn [obind]. exists (c ++ ct). split; [reflexivity|]. split; [rewrite app_length; lia|].
    cbn [cbc_dec_go]. unfold blockSize.
    assert (F1 : firstn 8 (c ++ ct) = c) by (rewrite <- Hc; apply firstn_app_exact).
    assert (S1 : skipn 8 (c ++ ct) = ct) by (rewrite <- Hc; apply skipn_app_exact).
    rewrite F1, S1.
    rewrite Dc. cbn [obind]. rewrite Dct. cbn [obind].
    rewrite xor_bytes_cancel by lia. unfold blk, rest. rewrite firstn_skipn. reflexivity.
Qed.

Lemma cbc_crypt_roundtrip E D iv data :
  block_ok E D -> length iv = 8 -> bytes_ok iv -> length data mod 8 = 0 -> bytes_ok data ->
  exists ct, cbc_crypt cbc_enc_go E iv data = Ok ct /\ length ct = length data /\
             cbc_crypt cbc_dec_go D iv ct = Ok data.
Proof.
  intros HB Hiv Hivo Hm Hdo. unfold cbc_crypt, blockSize. rewrite Hiv. cbn [Nat.eqb negb].
  rewrite Hm. cbn [Nat.eqb negb].
  assert (Hl : length data = 8 * (length data / 8)).
  { pose proof (Nat.div_mod (length data) 8 ltac:(lia)). lia. }
  destruct (cbc_roundtrip E D HB (length data / 8) iv data Hiv Hivo Hl Hdo) as (ct & E1 & Hct & D1).
  exists ct. split; [exact E1|]. split; [lia|].
  replace (length ct) with (length data) by lia. rewrite Hm. cbn [Nat.eqb negb]. exact D1.
Qed.

(* ---------- the container ---------------------------------------------------------------------------- *)
Section ContainerProofs.
  Variable kdf : N -> nat -> list N -> list N -> Z -> outcome (list N).
  Variable create : pbeAlg -> list N -> outcome (blockfn * blockfn).
  Variable hmac_sha1 : list N -> list N -> list N.
  Variables Key Cert : Type.
  Variable cert_raw : Cert -> list N.
  Variable parse_certs : list N -> outcome (list Cert).
  Variable ser_key : Key -> outcome (list N).
  Variable de_key : list N -> outcome Key.
  Variable ser_blob : pbeBlob -> list N.
  Variable de_blob : list N -> outcome pbeBlob.
  Variable ser_certbag : list N -> list N.
  Variable de_certbag : list N -> outcome (list N).
  Variable ser_bags : list safeBag -> list N.
  Variable de_bags : list N -> outcome (list safeBag).
  Variable ser_authsafe : list safeCI -> list N.
  Variable de_authsafe : list N -> outcome (list safeCI).

  (* idealisations: what encoding/asn1 writes it reads back; certificates parse back; the key derivation
     yields keys of the requested size for the iteration counts Encode uses; the ciphers invert *)
  Hypothesis kdf_ok : forall id size salt pw it, (it = 2048 \/ it = 1)%Z ->
    exists k, kdf id size salt pw it = Ok k /\ length k = size /\ bytes_ok k.
  Hypothesis create_ok : forall alg key, alg <> PBEOther -> length key = keySize alg ->
    exists E D, create alg key = Ok (E, D) /\ block_ok E D.
  Hypothesis key_codec : forall k b, ser_key k = Ok b -> de_key b = Ok k /\ bytes_ok b.
  Hypothesis blob_codec : forall e, de_blob (ser_blob e) = Ok e.
  Hypothesis certbag_codec : forall b, de_certbag (ser_certbag b) = Ok b.
  Hypothesis bags_codec : forall l, de_bags (ser_bags l) = Ok l /\ bytes_ok (ser_bags l).
  Hypothesis authsafe_codec : forall l, de_authsafe (ser_authsafe l) = Ok l.
  Hypothesis certs_parse : forall c, parse_certs (cert_raw c) = Ok [c].

  Notation pbEncrypt := (pbEncrypt kdf create).
  Notation pbDecrypt := (pbDecrypt kdf create).
  Notation pbeCipherFor := (pbeCipherFor kdf create).
  Notation Encode := (Encode kdf create hmac_sha1 Key Cert cert_raw ser_key ser_blob ser_certbag ser_bags ser_authsafe).
  Notation DecodeAll := (DecodeAll kdf create hmac_sha1 Key Cert parse_certs de_key de_blob de_certbag de_bags de_authsafe).
  Notation Decode := (Decode kdf create hmac_sha1 Key Cert parse_certs de_key de_blob de_certbag de_bags de_authsafe).
  Notation bag_loop := (bag_loop kdf create Key Cert parse_certs de_key de_blob de_certbag).
  Notation safe_contents := (safe_contents kdf create de_bags).
  Notation after_mac := (after_mac kdf create de_bags de_authsafe).

  Lemma pbe_roundtrip alg salt data pw junk :
    alg <> PBEOther -> bytes_ok data ->
    exists e, pbEncrypt (mkBlob alg salt 2048 junk) data pw = Ok e /\
              pb_alg e = alg /\ pb_salt e = salt /\ pb_iter e = 2048%Z /\
              pbDecrypt e pw = Ok data.
  Proof.
    intros Halg Hdo. unfold ContainerModel.pbEncrypt, ContainerModel.pbDecrypt.
    cbn [pb_alg pb_salt pb_iter].
    destruct (kdf_ok 1 (keySize alg) salt pw 2048 ltac:(left; reflexivity)) as (key & Ek & Hk & _).
    destruct (kdf_ok 2 8 salt pw 2048 ltac:(left; reflexivity)) as (iv & Ei & Hi & Hio).
    destruct (create_ok alg key Halg Hk) as (E & D & Ec & HB).
    assert (Hcf : forall d, pbeCipherFor (mkBlob alg salt 2048 d) pw = Ok (E, D, iv)).
    { intros d. unfold ContainerModel.pbeCipherFor. cbn [pb_alg pb_salt pb_iter].
      destruct alg; try congruence; rewrite Ek; cbn [obind]; rewrite Ei; cbn [obind]; rewrite Ec; reflexivity. }
    fold (pbeCipherFor (mkBlob alg salt 2048 junk) pw). rewrite Hcf. cbn [obind].
    unfold blockSize.
    pose proof (Nat.mod_upper_bound (length data) 8 ltac:(lia)) as Hu.
    set (ps := 8 - length data mod 8) in *.
    set (padded := data ++ repeat (N.of_nat ps) ps).
    assert (Hpl : length padded = length data + ps) by (unfold padded; rewrite app_length, repeat_length; reflexivity).
    assert (Hpm : length padded mod 8 = 0).
    { rewrite Hpl. unfold ps. pose proof (Nat.div_mod (length data) 8 ltac:(lia)).
      replace (length data + (8 - length data mod 8)) with ((length data / 8 + 1) * 8) by lia.
      apply Nat.mod_mul. lia. }
    assert (Hpo : bytes_ok padded).
    { unfold padded. apply bytes_ok_app. split; [exact Hdo|apply bytes_ok_repeat; lia]. }
    destruct (cbc_crypt_roundtrip E D iv padded HB Hi Hio Hpm Hpo) as (ct & E1 & Hct & D1).
    rewrite E1. cbn [obind]. eexists. split; [reflexivity|]. cbn [pb_alg pb_salt pb_iter pb_data].
    repeat split.
    fold (pbeCipherFor (mkBlob alg salt 2048 ct) pw). rewrite Hcf. cbn [obind].
    destruct (Nat.eqb_spec (length ct) 0); [lia|].
    rewrite Hct, Hpm. cbn [Nat.eqb negb]. rewrite D1. cbn [obind].
    assert (Hlast : at_ padded (length padded - 1) = Ok (N.of_nat ps)).
    { unfold padded. apply at_last_repeat. lia. }
    rewrite Hlast. cbn [obind]. rewrite Nat2N.id.
    destruct (Nat.eqb_spec ps 0); [lia|]. destruct (Nat.ltb_spec 8 ps); [lia|]. cbn [orb].
    destruct (Nat.ltb_spec (length padded) ps); [lia|].
    rewrite slice_from_ok by lia. cbn [obind]. rewrite slice_to_ok by lia. cbn [obind].
    replace (length padded - ps) with (length data) by lia.
    unfold padded. rewrite skipn_app_exact, firstn_app_exact.
    rewrite N.mod_small by lia. rewrite bytes_eqb_refl. reflexivity.
  Qed.

  (* the certificate bags come back in order *)
  Lemma bag_loop_certs one : forall (cs : list Cert) pw key acc,
    (one = true -> length acc + length cs <= 1) ->
    bag_loop one (map (fun c => makeCertBag ser_certbag (cert_raw c)) cs) pw key acc = Ok (key, acc ++ cs).
  Proof.
    unfold makeCertBag.
    induction cs as [|c cs IH]; intros pw key acc Hone; cbn [map ContainerModel.bag_loop].
    - rewrite app_nil_r. reflexivity.
    - cbn [sb_id sb_value].
      assert (Hg : (one && negb (Nat.eqb (length acc) 0))%bool = false).
      { destruct one; [|reflexivity]. specialize (Hone eq_refl). cbn [length] in Hone.
        destruct acc; [reflexivity|cbn [length] in Hone; lia]. }
      rewrite Hg. rewrite certbag_codec. cbn [obind]. rewrite certs_parse. cbn [obind].
      rewrite IH.
      + rewrite <- app_assoc. reflexivity.
      + intros ->. specialize (Hone eq_refl). rewrite app_length. cbn [length] in *. lia.
  Qed.

  Lemma bag_loop_app one : forall a b pw key acc,
    bag_loop one (a ++ b) pw key acc =
    (do '(k, cs) <- bag_loop one a pw key acc; bag_loop one b pw k cs).
  Proof.
    induction a as [|x a IH]; intros b pw key acc; cbn [app ContainerModel.bag_loop obind]; [reflexivity|].
    destruct (sb_id x).
    - destruct (one && negb (Nat.eqb (length acc) 0))%bool; [reflexivity|].
      destruct (de_certbag (sb_value x)); cbn [obind]; try reflexivity.
      destruct (parse_certs a0) as [[|c [|c' l]]| | |]; cbn [obind]; try reflexivity. apply IH.
    - destruct key; [reflexivity|].
      destruct (decodePkcs8ShroudedKeyBag kdf create Key de_key de_blob (sb_value x) pw); cbn [obind]; try reflexivity.
      apply IH.
    - apply IH.
  Qed.

  (* the pieces Encode produced, as getSafeContents sees them *)
  Lemma encode_decode_bags k certificate caCerts pw s1 s2 s3 pfx :
    bytes_ok pw ->
    Encode k certificate caCerts pw s1 s2 s3 = Ok pfx ->
    exists keyValue,
      getSafeContentsFull kdf create hmac_sha1 de_bags de_authsafe pfx pw =
        Ok (map (fun c => makeCertBag ser_certbag (cert_raw c)) (certificate :: caCerts) ++ [mkBag BagKey keyValue], pw) /\
      decodePkcs8ShroudedKeyBag kdf create Key de_key de_blob keyValue pw = Ok k.
  Proof.
    intros Hpw. unfold ContainerModel.Encode, ContainerModel.encodePkcs8ShroudedKeyBag.
    destruct (ser_key k) as [pkData| | |] eqn:Esk; cbn [obind]; try discriminate.
    destruct (key_codec k pkData Esk) as [Hdk Hko].
    destruct (pbe_roundtrip PBE3DES s1 pkData pw [] ltac:(discriminate) Hko) as (eK & EeK & _ & _ & _ & DeK).
    rewrite EeK. cbn [obind].
    unfold ContainerModel.makeSafeContents at 1.
    set (certBags := makeCertBag ser_certbag (cert_raw certificate) :: map (fun c => makeCertBag ser_certbag (cert_raw c)) caCerts).
    destruct (bags_codec certBags) as [Hdb Hbo].
    destruct (pbe_roundtrip PBERC2 s2 (ser_bags certBags) pw [] ltac:(discriminate) Hbo) as (eC & EeC & _ & _ & _ & DeC).
    rewrite EeC. cbn [obind]. unfold ContainerModel.makeSafeContents. cbn [obind].
    destruct (kdf_ok 3 20 s3 pw 1 ltac:(right; reflexivity)) as (mk & Emk & _ & _).
    rewrite Emk. cbn [obind]. intros [= <-].
    exists (ser_blob eK). split.
    - unfold getSafeContentsFull, getSafeContents. cbn [pfx_version pfx_authSafeIsData pfx_authSafeContent pfx_mac md_algPresent].
      cbn [Z.eqb Pos.eqb negb].
      unfold verifyMac. cbn [md_isSHA1 md_salt md_iterations md_digest negb].
      unfold kdf_mac at 1. rewrite Emk. rewrite bytes_eqb_refl. cbn [obind].
      unfold ContainerModel.after_mac. rewrite authsafe_codec. cbn [obind length Nat.eqb negb].
      cbn [ContainerModel.safe_contents]. cbn [Z.eqb negb]. rewrite DeC. cbn [obind]. rewrite Hdb. cbn [obind].
      destruct (bags_codec [mkBag BagKey (ser_blob eK)]) as [Hdk2 _]. rewrite Hdk2. cbn [obind app].
      reflexivity.
    - unfold ContainerModel.decodePkcs8ShroudedKeyBag. rewrite blob_codec. cbn [obind]. rewrite DeK. cbn [obind]. exact Hdk.
  Qed.

  (* ---------- round trip ----------------------------------------------------------------------------- *)
  Theorem p12_roundtrip_all k certificate caCerts pw s1 s2 s3 pfx :
    bytes_ok pw ->
    Encode k certificate caCerts pw s1 s2 s3 = Ok pfx ->
    DecodeAll pfx pw = Ok (k, certificate :: caCerts).
  Proof.
    intros Hpw He. destruct (encode_decode_bags _ _ _ _ _ _ _ _ Hpw He) as (kv & Hg & Hk).
    unfold ContainerModel.DecodeAll. rewrite Hg. cbn [obind].
    rewrite bag_loop_app. rewrite (bag_loop_certs false) by discriminate. cbn [obind app].
    cbn [ContainerModel.bag_loop sb_id sb_value]. rewrite Hk. cbn [obind]. reflexivity.
  Qed.

  Theorem p12_roundtrip_one k certificate pw s1 s2 s3 pfx :
    bytes_ok pw ->
    Encode k certificate [] pw s1 s2 s3 = Ok pfx ->
    Decode pfx pw = Ok (k, certificate).
  Proof.
    intros Hpw He. destruct (encode_decode_bags _ _ _ _ _ _ _ _ Hpw He) as (kv & Hg & Hk).
    unfold ContainerModel.Decode. rewrite Hg. cbn [obind].
    rewrite bag_loop_app. rewrite (bag_loop_certs true) by (intros _; cbn; lia). cbn [obind app].
    cbn [ContainerModel.bag_loop sb_id sb_value]. rewrite Hk. cbn [obind]. reflexivity.
  Qed.

  (* Decode is for one certificate: a bundle with CA certificates is refused, never answered with another leaf *)
  Theorem p12_decode_refuses_extra_certificates k certificate ca caCerts pw s1 s2 s3 pfx :
    bytes_ok pw ->
    Encode k certificate (ca :: caCerts) pw s1 s2 s3 = Ok pfx ->
    Decode pfx pw = Err 40.
  Proof.
    intros Hpw He. destruct (encode_decode_bags _ _ _ _ _ _ _ _ Hpw He) as (kv & Hg & Hk).
    unfold ContainerModel.Decode. rewrite Hg. unfold makeCertBag. cbn [obind map app].
    cbn [ContainerModel.bag_loop sb_id sb_value length Nat.eqb negb andb].
    rewrite certbag_codec. cbn [obind]. rewrite certs_parse. cbn [obind app length Nat.eqb negb andb]. reflexivity.
  Qed.

  (* the rules repaired in 03f783d: a second key bag is an error for both functions, a second certificate
     bag for Decode *)
  Theorem p12_exactly_one_key_bag one v rest pw k0 acc :
    bag_loop one (mkBag BagKey v :: rest) pw (Some k0) acc = Err 42.
  Proof. reflexivity. Qed.

  Theorem p12_decode_exactly_one_certificate_bag v rest pw key c acc :
    bag_loop true (mkBag BagCert v :: rest) pw key (c :: acc) = Err 40.
  Proof. reflexivity. Qed.

  (* ---------- integrity ---------------------------------------------------------------------------------- *)
  (* whatever DecodeAll returns was computed from the received authenticated safe, and that safe carries a
     matching MAC under the key derived from the given password (or the empty one for the BMP "") *)
  Theorem p12_no_substitution pfx pw k certs :
    DecodeAll pfx pw = Ok (k, certs) ->
    exists content pw' bags,
      pfx_authSafeContent pfx = Some content /\ (pw' = pw \/ (pw = [0; 0]%N /\ pw' = [])) /\
      md_digest (pfx_mac pfx) =
        hmac_sha1 (kdf_mac kdf (md_salt (pfx_mac pfx)) pw' (md_iterations (pfx_mac pfx))) content /\
      after_mac content pw' = Ok (bags, pw') /\
      (do res <- bag_loop false bags pw' None []; finish Key Cert res) = Ok (k, certs).
  Proof.
    unfold ContainerModel.DecodeAll, getSafeContentsFull.
    destruct (getSafeContents (kdf_mac kdf) hmac_sha1 after_mac pfx pw) as [[bags pw1]| | |] eqn:E; cbn [obind]; try discriminate.
    intros H. destruct (p12_mac_gate _ _ _ _ _ _ E) as (content & pw' & Hc & Hpw & Hm & Hr).
    exists content, pw', bags. split; [exact Hc|]. split; [exact Hpw|]. split; [exact Hm|].
    assert (pw1 = pw').
    { unfold ContainerModel.after_mac in Hr. destruct (de_authsafe content); cbn [obind] in Hr; try discriminate.
      destruct (negb _); [discriminate|]. destruct (safe_contents _ _); cbn [obind] in Hr; try discriminate.
      injection Hr as _ <-. reflexivity. }
    subst pw1. split; [exact Hr|exact H].
  Qed.

  (* a bundle made with one password opens with another only through a MAC collision between the two keys *)
  Theorem p12_wrong_password k certificate caCerts pw s1 s2 s3 pfx pw2 r :
    Encode k certificate caCerts pw s1 s2 s3 = Ok pfx ->
    DecodeAll pfx pw2 = Ok r ->
    exists content pw2', pfx_authSafeContent pfx = Some content /\ (pw2' = pw2 \/ (pw2 = [0; 0]%N /\ pw2' = [])) /\
      hmac_sha1 (kdf_mac kdf s3 pw 1) content = hmac_sha1 (kdf_mac kdf s3 pw2' 1) content.
  Proof.
    intros He Hd. destruct r as [k2 c2].
    destruct (p12_no_substitution pfx pw2 k2 c2 Hd) as (content & pw' & bags & Hc & Hpw & Hm & _).
    exists content, pw'. split; [exact Hc|]. split; [exact Hpw|].
    revert He. unfold ContainerModel.Encode.
    destruct (encodePkcs8ShroudedKeyBag _ _ _ _ _ _ _ _); cbn [obind]; try discriminate.
    destruct (makeSafeContents _ _ _ _ _ _); cbn [obind]; try discriminate.
    destruct (makeSafeContents _ _ _ _ _ _); cbn [obind]; try discriminate.
    destruct (kdf 3 20 s3 pw 1) as [mk| | |] eqn:Emk; cbn [obind]; try discriminate.
    intros [= <-]. cbn [pfx_mac md_digest md_salt md_iterations pfx_authSafeContent] in *.
    injection Hc as <-. rewrite <- Hm. unfold kdf_mac. rewrite Emk. reflexivity.
  Qed.
End ContainerProofs.
