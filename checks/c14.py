"""C14 - keys, signatures and ciphertexts survive every offered serialisation unchanged."""
import re

ID = "C14"
PROPS = "Props/C14.v"
LEGS = [{"driver": "c14", "runner": ("ser", "Extract/ExtractSer.v", "Ser_model")}]
# Props/SM2Premises.v (primality of the SM2 p and n by Pocklington certificates, SM2Facts from associativity alone, and the
# corollaries for C01/C02/C03/C09/C13/C14) is built and re-checked by this check
COQ_EXTRA_TARGETS = ["Props/SM2Premises.vo"]
# every Gen file in the Coq closure of Props/C14.v and Props/SM2Premises.v is regenerated from the tree on every run, so the
# proofs are never checked against tables left by a run on another tree
GEN = ["sm2", "sm2sig", "sm2limbs", "x509tables"]
COQ_TIMEOUT = 5400

TECHNIQUE = ("Coq proofs of the round trip of every codec gmsm owns over function-by-function models (all values), tied to /repo by running the "
             "extracted models on the same inputs and comparing every produced byte; PEM/PBKDF2/AES paths and loaders checked by the property predicate")
LEVEL_TEXT = ("Theorems in Coq (Props/C14.v), for ALL values: hexadecimal private key (every d; refusal exactly for d >= n-1) and public key (x, y < 2^256); "
              "Compress/Decompress on every point of any curve over a prime field p = 3 mod 4 and rejection of wrong length/tag/x >= p/non-residues; "
              "ASN.1 signature for all r, s >= 0 below 2^21 bytes; ASN.1 ciphertext (below 4 MiB) with exact restoration of 32-byte coordinates; PKCS#8 plain for every d < n (short "
              "D.Bytes() re-padded, trailing bytes ignored); PKIX public key; PKCS#8 password-protected with PBKDF2/AES-CBC abstract; the wrong-password "
              "disjunction; decision logic of X509KeyPair / GMX509KeyPairs / GMX509KeyPairsSingle accepts <=> key matches certificate(s), including which PEM "
              "block is used (first CERTIFICATE, first *PRIVATE KEY block, readable formats). "
              "This check also builds Props/SM2Premises.v: sm2_p_is_prime, sm2_n_is_prime (Pocklington), SM2Facts_from_assoc (associativity of the affine "
              "addition is the only mathematical premise left in C01/C02/C03/C09/C13; C14 has none). "
              "The models are extracted and compared byte for byte with /repo (hex strings, compressed points, DER of signatures, ciphertexts and PKCS#8).")
LEVEL_NOTE = ("compress_decompress has the single mathematical premise prime p, and that premise is DISCHARGED for the SM2 prime: coq/Prime proves "
              "prime sm2_p and prime sm2_n by Pocklington certificates checked with vm_compute (C14_compress_decompress_unconditional in "
              "Props/SM2Premises.v); Fermat's little theorem is proved in Coq (Ser/Fermat.v, from mathcomp's fermat_little, transferred to Z). Modelled by contract, not verified: PEM armour, encoding/asn1's struct handling, "
              "math/big, encoding/hex, elliptic.Marshal/Unmarshal, ScalarBaseMult (abstract), PBKDF2 and AES-CBC (abstract with dec after enc = id). "
              "MODEL-LEVEL DECISIONS (near-definitional, no translator tie): wrong_password_outcome is the disjunction 'error or the garbage parses as a key' "
              "- it says the decoder has no third outcome; that a wrong password is refused is measured (tie = PW cases of the driver), not proved; the "
              "loader theorems (loader_accepts_iff_match, _other_algorithms, loader_pem_selection) state what the hand-transcribed decision logic accepts "
              "against the specification of Ser/SerSpec.v; that the Go loaders decide the same is the LD / LP differential. For RSA/ECDSA pairs the loader theorem carries the side condition that an ECDSA key is on its certificate's curve (the code compares "
              "X, Y only; RSA: modulus only); GMX509KeyPairs accepts SM2 pairs only (RSA pairs are outside its domain).")
TRUSTED_BASE = [
    "models coq/Ser/SerModel.v, coq/Ser/SerBytes.v (DER pieces: coq/SM2/DER.v through Ser/SerDER.v) written by hand from x509/utils.go, x509/pkcs8.go, sm2/utils.go, sm2/sm2.go, gmtls/tls.go, gmtls/gm_support.go",
    "extraction: ExtrOcamlBasic + ExtrOcamlZBigInt (positive, N, Z -> zarith Big_int_Z and its arithmetic constants); runner ocaml/ser/main.ml",
    "Go driver harness/cmd/c14: classification of certificate / key material for the loader cases (parsed with gmsm's and the standard parsers)",
    "python predicate of this module (independent re-statement of each round trip, Euler criterion for Decompress)",
]
ASSUMPTIONS = [
    "compress_decompress: prime p as a premise of the general theorem; proved for the SM2 prime (Prime/SM2Primes.v), so no premise remains for SM2",
    "PBKDF2 / AES-CBC abstract: cbc_dec key iv (cbc_enc key iv m) = m on whole blocks, length preserving",
    "encoding/asn1 returns what was marshalled and ignores bytes after the outer structure (contract)",
    "loader theorems are about the decision logic over parsed key / certificate kinds; parsing itself is the contract of the parsers",
]
RULE = ("seeded generator (VERIF_SEED): d with 1..3 leading zero bytes, odd hex-digit counts, n-4..n-2, public points found by search whose x or y has 1..3 "
        "leading zero bytes (hard-coded scalars, 1..3 bytes for x and for y, and one point with both coordinates short), random keys; hex strings with odd length / upper case / bad characters / overflow; Decompress on the other "
        "root, bad tags, bad lengths, x >= p, random x (half non-residues); (r, s) classes zero, 0x7f..0x81, top bit set, short, n-1, n-2, 33..260 bytes; "
        "ciphertexts with short and zero coordinates and payload lengths 0..300, crafted DER (33-byte, negative, wrong hash length, trailing bytes); PKCS#8 "
        "with crafted private-key octets (short, over-long with zeros, >= n); passwords {empty, 1 char, ASCII, UTF-8, 1 KiB, binary, trailing space} x 9 "
        "wrong variants (one character, case, length, nil), each against the PEM reader and the DER parsers ParsePKCS8PrivateKey / ParsePKCS8EcryptedPrivateKey; ParseSm2PrivateKey called directly (bare and full inner structure); genuine ciphertexts (Encrypt / EncryptAsn1 on one nonce stream, message lengths 1..1000) through CipherMarshal / CipherUnmarshal / DecryptAsn1 and against the model; key files of foreign encoders (hand-built ECPrivateKey / PKCS#8 / PEM / PBES2-encrypted PKCS#8 with the scalar in 30..34 octets, top bit set and clear, with and without public key and curve OID, through every reader and the two single-pair TLS loaders; python recomputes [d]G; and key files whose optional publicKey field holds a FOREIGN point [e]G, e != d: through every reader (result (d, [d]G)), X509KeyPair / GMX509KeyPairsSingle / GMX509KeyPairs with certificates of [d]G (accepted) and with the certificate of the embedded point [e]G in the single loaders and in the signing and the encryption slot of the dual loader (refused)); every loader (in-memory and file-based on the same pairs) x all certificate/key material pairs (3 SM2 file pairs, 3 fresh SM2 pairs incl. "
        "leading-zero coordinates, 2 RSA, 1 ECDSA P-256, garbage, and for three SM2 certificates the key n-d: same X, other Y; the near-miss combinations of the dual loader are always included); composed PEM files for each loader (chain after / before the leaf, skipped blocks, PKCS#8 SM2 under 'EC PRIVATE KEY', SEC 1, encrypted, Ed25519, several key blocks, swapped inputs, empty). Non-trivial: input not empty; distinct = distinct case text")

P = 0xFFFFFFFEFFFFFFFFFFFFFFFFFFFFFFFFFFFFFFFF00000000FFFFFFFFFFFFFFFF
A = P - 3
B = 0x28E9FA9E9D9F5E344D5A9E4BCF6509A7F39789F515AB8F92DDBCBD414D940E93
N = 0xFFFFFFFEFFFFFFFFFFFFFFFFFFFFFFFF7203DF6B21C6052B53BBF40939D54123


def _unhex(s):
    return b"" if s in ("-", ".", "") else bytes.fromhex(s)


def nontrivial(f):
    return not (len(f) > 2 and f[2] == "-")


def classify(f, io):
    if f[0] in ("LD", "LP"):
        return f[0] + ":" + f[2] + ":" + (" ".join(io[:2]) if io else "none")
    return f[0] + ":" + (io[0] if io else "none")


def same(f, io, mo):
    if f[0] == "P8":          # the model does not compute [d]G: compare DER and D
        return io[:4] == mo[:4]
    if f[0] == "FK":          # model: D, and the scalar it hands to the base-point multiplication (must be D itself)
        if f[4].endswith("-e"):
            # certificate of the foreign point the file embeds: the model reads the file as (d, [d]G) (pkcs8_plain_roundtrip,
            # whatever the publicKey field holds) and its loaders refuse, [d]G not being the certificate's point
            # (loader_decides_on_the_scalar); the implementation has to refuse
            return mo[0] == "ok" and mo[1] == mo[2] and io[0] == "err" and io[1].startswith("refused:")
        return io[:2] == mo[:2] and (mo[0] != "ok" or mo[1] == mo[2])
    return io == mo


GX = 0x32C4AE2C1F1981195F9904466A39C9948FE30BBFF2660BE1715A4589334C74C7
GY = 0xBC3736A2F4F6779C59BDCEE36B692153D0A9877CC62A474002DF32E52139F0A0


def _ec_add(p1, p2):
    """affine addition on the SM2 curve (None = point at infinity)"""
    if p1 is None:
        return p2
    if p2 is None:
        return p1
    (x1, y1), (x2, y2) = p1, p2
    if x1 == x2:
        if (y1 + y2) % P == 0:
            return None
        lam = (3 * x1 * x1 + A) * pow(2 * y1, P - 2, P) % P
    else:
        lam = (y2 - y1) * pow(x2 - x1, P - 2, P) % P
    x3 = (lam * lam - x1 - x2) % P
    return x3, (lam * (x1 - x3) - y1) % P


def _ec_mul(k):
    acc, q = None, (GX, GY)
    while k:
        if k & 1:
            acc = _ec_add(acc, q)
        q = _ec_add(q, q)
        k >>= 1
    return acc


def _pair_match(c, k):
    c, k = c.split(":"), k.split(":")
    if c[0] == "rsa" and k[0] == "rsa":
        return c[1] == k[1]
    if c[0] == "ec" and c[1] == "0" and k[0] == "sm2":
        return c[2:] == k[1:]
    if c[0] == "ec" and c[1] != "0" and k[0] == "ecdsa":
        return c[1] == k[1] and c[2:] == k[2:]
    return False


def _sm2_match(c, k):
    c, k = c.split(":"), k.split(":")
    return c[0] == "ec" and c[1] == "0" and k[0] == "sm2" and c[2:] == k[1:]


def _hex_text(t):
    """spec of hex.DecodeString on a text field: bytes or None"""
    s = _unhex(t).decode("latin1")
    if len(s) % 2 or not re.fullmatch(r"[0-9a-fA-F]*", s):
        return None
    return bytes.fromhex(s)


def predicate(f, io):
    """the property evaluated on what /repo returned, independent of the Coq model"""
    if not io or io[0] in ("PANIC", "HANG", "BADCASE"):
        return False, "implementation " + (io[0] if io else "gave no result")
    op = f[0]
    if op == "HP":
        d = int(f[2], 16)
        if io[0] != "ok":
            return False, "WritePrivateKeyToHex failed"
        txt = _unhex(io[1]).decode("latin1")
        if not re.fullmatch(r"[0-9a-f]*", txt) or int(txt or "0", 16) != d or (d < 2 ** 256 and len(txt) != 64):
            return False, "WritePrivateKeyToHex did not write D as 64 lower-case hex digits"
        if d < N - 1 and io[2:] != ["ok", "%x" % d]:
            return False, "private key did not survive WritePrivateKeyToHex / ReadPrivateKeyFromHex"
        if d >= N - 1 and io[2] != "err":
            return False, "ReadPrivateKeyFromHex accepted D >= n-1"
        return True, ""
    if op == "HR":
        b = _hex_text(f[2])
        want = ["err"] if b is None or int.from_bytes(b, "big") >= N - 1 else ["ok", "%x" % int.from_bytes(b, "big")]
        return (io == want), "ReadPrivateKeyFromHex: expected %s" % " ".join(want)[:80]
    if op == "HQ":
        x, y = int(f[2], 16), int(f[3], 16)
        want = ["ok", ("04%064x%064x" % (x, y)).encode().hex(), "ok", "%x" % x, "%x" % y]
        return (io == want), "public key did not survive WritePublicKeyToHex / ReadPublicKeyFromHex"
    if op == "HS":
        b = _hex_text(f[2])
        if b is not None and len(b) == 65 and b[0] == 4:
            b = b[1:]
        want = ["err"] if b is None or len(b) != 64 else ["ok", "%x" % int.from_bytes(b[:32], "big"), "%x" % int.from_bytes(b[32:], "big")]
        return (io == want), "ReadPublicKeyFromHex: expected %s" % " ".join(want)[:80]
    if op == "CP":
        x, y = int(f[2], 16), int(f[3], 16)
        want = ["ok", "%02x%064x" % (y & 1, x), "ok", "%x" % x, "%x" % y]
        return (io == want), "point did not survive Compress / Decompress"
    if op == "CD":
        c = _unhex(f[2])
        valid = None
        if len(c) == 33 and c[0] <= 1:
            x = int.from_bytes(c[1:], "big")
            if x < P:
                rhs = (x * x * x + A * x + B) % P
                y = pow(rhs, (P + 1) // 4, P)
                if y * y % P == rhs:
                    if (y & 1) != c[0]:
                        y = P - y
                    valid = ["ok", "%x" % x, "%x" % y]
        want = valid if valid is not None else ["nil"]
        return (io == want), "Decompress: expected %s" % " ".join(want)[:100]
    if op == "SG":
        if io[0] != "ok" or io[2:] != ["ok", f[2], f[3]]:
            return False, "signature did not survive SignDigitToSignData / SignDataToSignDigit"
        return True, ""
    if op == "CM":
        data = _unhex(f[2])
        if len(data) < 97:
            return (io == ["err"]), "CipherMarshal accepted a ciphertext shorter than 97 bytes"
        if io[0] != "ok" or io[2] != "ok" or _unhex(io[3]) != b"\x04" + data[1:]:
            return False, "ciphertext did not survive CipherMarshal / CipherUnmarshal"
        return True, ""
    if op == "P8":
        d = int(f[2], 16)
        if io[0] != "ok":
            return False, "MarshalSm2UnecryptedPrivateKey failed"
        if d >= N:
            return (io[2] == "err"), "ParsePKCS8UnecryptedPrivateKey accepted D >= n"
        if io[2:4] != ["ok", "%x" % d]:
            return False, "private key did not survive MarshalSm2UnecryptedPrivateKey / ParsePKCS8UnecryptedPrivateKey"
        if f[5] == "1" and io[4:6] != [f[3], f[4]]:
            return False, "public point changed across the PKCS#8 round trip"
        return True, ""
    if op == "PX":
        return (io == ["ok", f[2], f[3], "1"]), "public key did not survive MarshalSm2PublicKey / ParseSm2PublicKey (DER or PEM)"
    if op == "PM":
        return (io[:2] == ["ok", f[2]]), "private key did not survive the PEM / PKCS#8 round trip without a password"
    if op == "PW":
        if io[0] != "ok":
            return False, "password-protected PEM could not be written"
        rt, tried, rejected, samek = io[1:5]
        if rt != "1":
            return False, "private key did not survive the password-protected PEM / PKCS#8 round trip"
        if tried != rejected:
            return False, "a wrong password was accepted (%s of %s rejected, %s returned the same key)" % (rejected, tried, samek)
        if len(io) < 7 or int(io[5]) < 2 * (int(tried) - 1):
            return False, "the wrong passwords were not tried against the DER entry points"
        if io[5] != io[6]:
            return False, "a wrong password was accepted by ParsePKCS8PrivateKey / ParsePKCS8EcryptedPrivateKey on the DER form (%s of %s rejected)" % (io[6], io[5])
        return True, ""
    if op == "FK":
        d = int(f[2], 16)
        where = "%s, scalar in %s octets%s%s" % (f[4], f[3], {"1": ", public key present", "2": ", publicKey field holds a foreign point"}.get(f[5], ""),
                                                 ", curve OID present" if f[6] == "1" else "")
        if int.from_bytes(_unhex(f[7]), "big") != d or len(_unhex(f[7])) != int(f[3]):
            return False, "BADCASE: scalar octets do not encode the scalar"
        if f[5] == "2":
            # the optional publicKey field carries [e]G for a foreign scalar e: the key of the file is still d
            if len(f) < 9 or not 0 < int(f[8], 16) < N or _ec_mul(int(f[8], 16)) == _ec_mul(d):
                return False, "BADCASE: no foreign scalar"
        if f[4].endswith("-e"):
            if f[5] != "2":
                return False, "BADCASE: no foreign point"
            loader = {"x509kp-e": "X509KeyPair", "gmsingle-e": "GMX509KeyPairsSingle", "gmpairs-s-e": "GMX509KeyPairs (signing key)",
                      "gmpairs-e-e": "GMX509KeyPairs (encryption key)"}.get(f[4], f[4])
            if io[0] == "ok":
                fp = _ec_mul(int(f[8], 16))
                return False, ("%s accepted a key that does not match the certificate: key file with scalar d (in %s octets) whose publicKey field "
                               "holds the certificate's point [e]G, d != e; the accepted key reads as D=%s X=%s (certificate X=%x, [d]G X=%x)"
                               % (loader, f[3], io[1][:16], io[2][:16], fp[0], _ec_mul(d)[0]))
            if not (io[0] == "err" and len(io) > 1 and io[1].startswith("refused:")):
                return False, "%s: unexpected outcome %s" % (loader, " ".join(io)[:120])
            return True, ""
        if io[0] != "ok" or len(io) < 7:
            return False, "a valid SM2 key file of another encoder was not loaded (%s): %s" % (where, " ".join(io)[:120])
        pt = _ec_mul(d)
        want = ["%x" % d, "%x" % pt[0], "%x" % pt[1]]
        if io[1] != want[0]:
            return False, "key file of another encoder (%s): loaded D differs from the scalar in the file" % where
        if io[2:4] != want[1:]:
            return False, "key file of another encoder (%s): the loaded public point is not [d]G" % where
        if io[4:7] != want:
            return False, "key file of another encoder (%s): re-serialising the loaded key gives a key that loads to another (d, [d]G)" % where
        return True, ""
    if op == "EA":
        if io[0] != "ok" or len(io) < 7:
            return False, "Encrypt / EncryptAsn1 failed on a valid key and message"
        raw, asn = _unhex(io[1]), _unhex(io[2])
        msg = _unhex(f[3])
        # independent reading of the ASN.1 form: SEQUENCE { INTEGER x, INTEGER y, OCTET STRING hash(32), OCTET STRING c }
        def tlv(b, at):
            tag, ln, at = b[at], b[at + 1], at + 2
            if ln & 0x80:
                n = ln & 0x7f
                ln, at = int.from_bytes(b[at:at + n], "big"), at + n
            return tag, b[at:at + ln], at + ln
        try:
            t, body, end = tlv(asn, 0)
            parts, at = [], 0
            while at < len(body):
                tg, v, at = tlv(body, at)
                parts.append((tg, v))
            ok = (t == 0x30 and end == len(asn) and [p[0] for p in parts] == [2, 2, 4, 4]
                  and len(raw) == 97 + len(msg) and raw[0] == 4
                  and int.from_bytes(parts[0][1], "big") == int.from_bytes(raw[1:33], "big")
                  and int.from_bytes(parts[1][1], "big") == int.from_bytes(raw[33:65], "big")
                  and parts[2][1] == raw[65:97] and parts[3][1] == raw[97:] and len(parts[3][1]) == len(msg))
        except (IndexError, ValueError):
            ok = False
        if not ok:
            return False, "EncryptAsn1 output is not the ASN.1 form (x, y, hash, ciphertext) of the ciphertext Encrypt produces with the same nonce"
        if io[3:7] != ["1", "1", "1", "1"]:
            return False, "genuine ciphertext did not survive CipherMarshal / CipherUnmarshal / DecryptAsn1 (marshal=%s unmarshal=%s decrypt=%s method=%s)" % tuple(io[3:7])
        return True, ""
    if op == "LD":
        if f[2] in ("GMX509KeyPairs", "LoadGMX509KeyPairs"):
            want = _sm2_match(f[7], f[8]) and _sm2_match(f[9], f[10])
        else:
            want = _pair_match(f[7], f[8])
        got = io == ["ok", "1"]
        if io[0] != "ok":
            return False, "loader crashed"
        if got and not want:
            return False, "%s accepted a key that does not match the certificate" % f[2]
        if want and not got:
            return False, "%s rejected a matching certificate/key pair" % f[2]
        return True, ""
    if op == "LP":
        def offered(cf, kf):
            """(cert desc, key desc) the loader is specified to look at: first CERTIFICATE block, first block labelled as a
            private key; key readable only as PKCS#1 RSA / PKCS#8 RSA, ECDSA, SM2"""
            cb = [b.split("/") for b in cf.split(",")] if cf != "-" else []
            kb = [b.split("/") for b in kf.split(",")] if kf != "-" else []
            certs = [b for b in cb if b[0] == "CERTIFICATE"]
            keys = [b for b in kb if b[0] == "PRIVATE_KEY" or b[0].endswith("_PRIVATE_KEY")]
            if not certs or not keys:
                return None
            c = certs[0][1][5:] if certs[0][1].startswith("cert=") else "bad"
            k = keys[0][1]
            if k.startswith("p1rsa=") or k.startswith("p8rsa="):
                kd = "rsa:" + k.split("=", 1)[1]
            elif k.startswith("p8ec="):
                kd = "ecdsa:" + k.split("=", 1)[1]
            elif k.startswith("p8sm2="):
                kd = "sm2:" + k.split("=", 1)[1]
            else:
                return None
            return c, kd
        if io[0] != "ok":
            return False, "loader crashed"
        a = offered(f[3], f[4])
        if f[2] == "GMX509KeyPairs":
            b = offered(f[5], f[6])
            want = a is not None and b is not None and _sm2_match(*a) and _sm2_match(*b)
        else:
            want = a is not None and _pair_match(*a)
        got = io == ["ok", "1"]
        if got and not want:
            return False, "%s accepted PEM input whose first certificate / first key block do not form a matching pair" % f[2]
        if want and not got:
            return False, "%s rejected PEM input whose first certificate and first key block match" % f[2]
        return True, ""
    # SD, CU, PK, PS: decided by comparison with the model (decoders of arbitrary bytes)
    return True, ""
