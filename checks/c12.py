"""C12 - the SM4-GCM helpers compute standard GCM and authenticate all inputs (sm4/sm4_gcm.go)."""
import os, importlib.util

ID = "C12"
PROPS = "Props/C12.v"
COQ_TIMEOUT = 5400   # Coq build of this property incl. rebuilt dependencies; generous: on a loaded machine a rebuild after an upstream edit took > 1500 s
GEN = ["sm4tables", "sm4consts", "tlssuites", "gcmcode"]
LEGS = [{"driver": "c12", "runner": ("sm4gcm", "Extract/ExtractSM4GCM.v", "Sm4gcm_model")}]

TECHNIQUE = ("Coq proof that a function-by-function model of sm4_gcm.go equals a transcription of NIST SP 800-38D (GF(2^128) multiplication, GHASH, "
             "inc32, GCTR, J0, GCM-AE/AD, t = 128) for every key, IV length, additional data and plaintext, for an abstract block cipher; model "
             "tied to /repo by differential runs of the extracted model; /repo additionally checked against crypto/cipher's GCM over sm4.NewCipher "
             "(what the TLS suites use) and an independent python GCM")
LEVEL_TEXT = ("Theorems in Coq (Props/C12.v) over a model of addition, Rightshift, findYi, multiplication, GHASH (calculm_v block walk), GetY0, "
              "incr/addYone, MSB, GetH, GCMEncrypt, GCMDecrypt, Sm4GCM: the byte-array multiplication is Algorithm 1 of SP 800-38D (with "
              "commutativity of the field multiplication proved by additivity + a complete 128x128 basis sweep); GHASH is the standard's over "
              "A||0||C||0||[len A]_64||[len C]_64 with bit lengths; J0 for 96-bit and all other IV lengths; the counter is inc32 (low 32 bits, "
              "wrap); the loops are GCTR; Sm4GCM/GCMEncrypt return GCM-AE's (C,T) and Sm4GCM/GCMDecrypt return GCTR(C) and GCM-AD's recomputed tag "
              "for every 16-byte key, IV of any length, A and P; any history of calls returns for each call the specification's value on the values "
              "at call time (nothing is carried between calls); decrypt(encrypt) returns P and the same tag; the returned tag is "
              "E(K,J0) xor GHASH_H(A,C), two tags under one key/IV agree iff the GHASH values agree, GHASH is additive and a difference confined to one "
              "block Delta leaves the tag unchanged iff Delta.H^(k+1) = 0. Model = code for the GF(2^128) functions: addition, Rightshift, findYi, MSB, GHASH's calculateLenToBytes "
              "and multiplication (statements in front of its loop, loop header, loop body at each of the 128 indices from arbitrary loop state) are regenerated from the Go AST on every run "
              "(Gen/GCMCode.v) and proved equal to the model for all byte inputs (C12_leaf_code_is_model, C12_mult_code_is_model); these functions carry no literal fingerprint any more. Consumer: every SM4_GCM row of gmtls' suite table names aeadSM4GCM (key 16, implicit nonce 4) - "
              "a theorem over the regenerated table; that those AEADs compute this GCM with IV = implicit||explicit nonce is checked by the T "
              "cases only. The model is run (extracted, block "
              "cipher = SM4Spec) against /repo and /repo against crypto/cipher's GCM over sm4.NewCipher (the TLS suites' computation).")
LEVEL_NOTE = ("Trusted: Coq kernel incl. vm_compute, extraction (ExtrOcamlBasic only), the hand-written model of sm4_gcm.go's control flow (tied "
              "by the differential run), the transcription of SP 800-38D in GCMSpec.v (validated by RFC 8998 A.1 and tied to crypto/cipher by the "
              "driver's oracle). The block cipher is abstract (16-byte outputs); C05 supplies SM4. The helpers do not compare tags themselves: "
              "what is proved is what the returned tag is and the equation Delta.H^(k+1) = 0 for single-block differences; that this product is "
              "non-zero (no zero divisors: irreducibility of the GCM polynomial) is not proved, and differences in the IV or spread over several "
              "blocks are only exercised by the single-bit flips of the run. Caller memory: the appends of GetY0 and GHASH are modelled on a heap of arrays with Go's in-place "
              "append and proved not to touch any array of the caller (C12_caller_memory_untouched); index assignments and copies, whose "
              "destinations are all made inside the functions, are modelled on values; the run checks canaries behind K, IV, A, P, C.")
TRUSTED_BASE = [
    "translator harness/cmd/gen target sm4consts (integer literals of every function of sm4.go / sm4_gcm.go, package-level variables) -> coq/Gen/SM4Consts.v; sm4tables via the SM4 instantiation",
    "translator harness/cmd/gen target gcmcode (target_gcmcode.go: symbolic evaluation of the bodies of addition, Rightshift, findYi, MSB, calculateLenToBytes and of multiplication cut at its for loop, from the Go AST - 16-byte slices as cells, loops unrolled, calls inlined, data-dependent ifs merged cell by cell; its reading of Go's for statement and its check that only Z and V are loop-carried) and its N semantics of Go's uint8 operations -> coq/Gen/GCMCode.v; tied to the model by SM4/GCMCodeTie.v, SM4/GCMCodeTieMult.v",
    "hook /repo/gmtls/verif_gcmsuites_verif.go (build tag verif): aeadSM4GCM and the GCM rows of gmCipherSuites via mutualCipherSuiteGM; translator target tlssuites (rows of the suite tables) for C12_tls_suites_use_sm4_gcm",
    "specification coq/SM4/GCMSpec.v transcribed by hand from NIST SP 800-38D; validated by RFC 8998 A.1 (SM4-GCM) as an Example",
    "model coq/SM4/GCMModel.v written by hand from sm4/sm4_gcm.go; addition, Rightshift, findYi, MSB, calculateLenToBytes, multiplication tied to the source by theorem (SM4/GCMCodeTie.v, SM4/GCMCodeTieMult.v over Gen/GCMCode.v), the other functions (GHASH's block walk, GetY0, incr, GCMEncrypt/GCMDecrypt, Sm4GCM, GetH) by literal fingerprints (SM4/SM4ConstsGCM.v) and the correspondence run of this check",
    "block cipher abstract in the theorems; instantiated by SM4Spec in the runner; C05 ties sm4.go's cipher.Block to SM4Spec",
    "extraction: ExtrOcamlBasic only; OCaml 4.13.1 + dune; runner ocaml/sm4gcm/main.ml and ocaml/conv.ml.tmpl",
    "Go driver harness/cmd/c12 (canaries, crypto/cipher GCM oracle, construction of counter-wrapping IVs); python GCM in checks/c12.py",
]
ASSUMPTIONS = [
    "keys of 16 bytes (other lengths: Sm4GCM errs, proved; GCMEncrypt/GCMDecrypt/GetH panic, modelled); byte strings are lists of N < 256",
    "`X := make(...)` plus copy into window i is modelled by the list of windows; Go int is wide enough for all lengths (64 bit)",
    "caller memory: a heap of arrays with slice headers (array, offset, len, cap) and Go's make/copy/append semantics, used for the append sites",
    "the theorem about tag inequality is the equivalence with GHASH inequality; no irreducibility / collision-probability claim is made",
]
RULE = ("seeded generator (VERIF_SEED): RFC 8998 A.1; IV lengths 1..64 (random / all-ff / half-ff) x 6 (thorough 14) (|A|,|P|) shapes, block-boundary lengths first; |A|,|P| in 0..80: "
        "the full 81x81 grid with a 12-byte IV (quick and thorough), at IV lengths 1, 16, 17 the full grid in thorough and all block-border pairs "
        "(0,1,15 mod 16) plus a tenth of the rest in quick; one case with 64 KiB of A and one with 64 KiB of P (quick: against crypto/cipher and the python GCM only, the extracted model needs ~25 s for each; thorough: also the model); 16-byte IVs constructed "
        "(GF(2^128) inversion in the driver) so that J0 ends in ff ff ff ff / fe (30 cases, thorough 200, each >= 3 blocks) and the 32-bit counter wraps inside the message; messages up to "
        "4 KiB (thorough 64 KiB); IV, A, P (and C for decryption) placed in front of 0..40 canary bytes in their backing arrays; key lengths "
        "0..32; every single-bit change of IV, A, C and T for 4 (thorough 16) messages with IV lengths 12, 16, 17, 60 and |A|, |C| crossing 16 and 32 bytes plus truncation/extension and a key bit: the recomputed "
        "tag must differ from T; histories of 2..4 calls (Sm4GCM enc/dec, GCMEncrypt, GCMDecrypt, GetH mixed) on ONE backing array per argument, the "
        "next call's values written in place (key bit flipped / key replaced, IV counted up, data reused), each result checked against the "
        "values at call time; CONSUMER leg (hook gmtls/verif_gcmsuites_verif.go): the AEAD of every GCM row of gmCipherSuites (looked up by id through "
        "mutualCipherSuiteGM) and aeadSM4GCM directly: Seal with plaintext lengths 0,1,15,16,17,80,16384 and histories of 2..5 steps (one key with two "
        "implicit nonces, incl. nonces differing in one bit; two keys interleaved; AEAD objects reused), each sealed record = GCM with IV = implicit||explicit, "
        "Sm4GCM-made records must open, records must be rejected under a flipped implicit nonce. Every case is encrypted and decrypted, through Sm4GCM and through GCMEncrypt/GCMDecrypt. Non-trivial: all; "
        "distinct = distinct case text")

_spec = importlib.util.spec_from_file_location("checks._c05_sm4", os.path.join(os.path.dirname(os.path.abspath(__file__)), "c05.py"))
_c05 = importlib.util.module_from_spec(_spec)
_spec.loader.exec_module(_c05)
sm4_block = _c05.sm4_block

_R = 0xe1 << 120


def _gf_mul(x, y):
    z, v = 0, y
    for i in range(127, -1, -1):
        if (x >> i) & 1:
            z ^= v
        v = (v >> 1) ^ _R if v & 1 else v >> 1
    return z


def _ghash(h, data):
    y = 0
    for i in range(0, len(data), 16):
        y = _gf_mul(y ^ int.from_bytes(data[i:i + 16], "big"), h)
    return y


def _pad(b):
    return b + bytes(-len(b) % 16)


def _inc32(b):
    return b[:12] + ((int.from_bytes(b[12:], "big") + 1) & 0xffffffff).to_bytes(4, "big")


def py_gcm(key, iv, a, p):
    """SP 800-38D GCM-AE with t = 128 (independent of the Coq model and of /repo); for decryption pass c as p"""
    h = int.from_bytes(sm4_block(key, bytes(16)), "big")
    if len(iv) == 12:
        j0 = iv + b"\x00\x00\x00\x01"
    else:
        j0 = _ghash(h, _pad(iv) + bytes(8) + (8 * len(iv)).to_bytes(8, "big")).to_bytes(16, "big")
    out, cb = b"", j0
    for i in range(0, len(p), 16):
        cb = _inc32(cb)
        ks = sm4_block(key, cb)
        out += bytes(x ^ y for x, y in zip(p[i:i + 16], ks))
    return out, j0, h


def py_tag(key, j0, h, a, c):
    s = _ghash(h, _pad(a) + _pad(c) + (8 * len(a)).to_bytes(8, "big") + (8 * len(c)).to_bytes(8, "big"))
    return (s ^ int.from_bytes(sm4_block(key, j0), "big")).to_bytes(16, "big")


def _unhex(s):
    return b"" if s in ("-", ".", "") else bytes.fromhex(s)


def nontrivial(f):
    return True


def classify(f, io):
    if not io:
        return f[0] + ":none"
    if f[0] in ("G", "B"):
        return "G:iv%s:%s" % ("12" if len(_unhex(f[3])) == 12 else "x", io[0])
    if f[0] == "Q":
        return "Q:%d calls:%s" % (len(f[2].split(",")), io[0])
    if f[0] == "T":
        return "T:%s:%d steps:%s" % (f[2].split(":")[0], len(f[2].split(",")), io[0])
    return "V:%s:%s" % (f[7], io[0])


def same(f, io, mo):
    if f[0] in ("G", "B"):
        return io[:7] == mo[:7]
    return io == mo


def _hist_expected(call):
    """what SP 800-38D gives for one call of a history, from the VALUES of that call alone"""
    fn, key, iv, a, x = call.split(":")
    key, iv, a, x = _unhex(key), _unhex(iv), _unhex(a), _unhex(x)
    if fn == "H":
        return sm4_block(key, bytes(16)).hex()
    out, j0, h = py_gcm(key, iv, a, x)
    c = out if fn in ("S1", "E") else x
    t = py_tag(key, j0, h, a, c)
    return (out.hex() or "-") + "/" + t.hex()


def predicate(f, io):
    if not io or io[0] in ("PANIC", "HANG"):
        return False, "implementation " + (io[0] if io else "gave no result")
    if f[0] not in ("Q", "T"):
        key, iv, a = _unhex(f[2]), _unhex(f[3]), _unhex(f[4])
    if f[0] in ("G", "B"):
        p = _unhex(f[5])
        if len(key) != 16:
            return (io == ["err"]), "a key of %d bytes was accepted" % len(key)
        if io[0] != "ok" or len(io) != 8:
            return False, "error for a 16-byte key"
        c, t, p2, t2 = _unhex(io[1]), _unhex(io[2]), _unhex(io[3]), _unhex(io[4])
        if p2 != p:
            return False, "decryption does not return the plaintext"
        if t2 != t:
            return False, "the tag recomputed at decryption differs from the tag of the unmodified message"
        if io[5] != "1":
            return False, "caller memory (key, IV, A, P/C or the spare capacity behind them) was written"
        if io[6] != "1":
            return False, "GCMEncrypt/GCMDecrypt disagree with Sm4GCM"
        if io[7] != "1":
            return False, "ciphertext/tag differ from crypto/cipher GCM over sm4.NewCipher (the TLS suites' computation)"
        if len(p) + len(a) <= 70000:
            wc, j0, h = py_gcm(key, iv, a, p)
            if wc != c:
                return False, "ciphertext differs from SP 800-38D GCM"
            if py_tag(key, j0, h, a, c) != t:
                return False, "tag differs from SP 800-38D GCM"
        return True, ""
    if f[0] == "T":
        steps = f[2].split(",")
        if io[0] != "ok" or len(io) != 2:
            return False, "TLS suite AEAD: no result (suite missing from the table, or wrong key / implicit nonce length in its row)"
        outs = io[1].split(",")
        if len(outs) != len(steps):
            return False, "TLS suite AEAD: wrong number of results"
        for i, (st, got) in enumerate(zip(steps, outs)):
            how, key, fixed, explicit, aad, pt = st.split(":")
            key, iv, aad, pt = _unhex(key), _unhex(fixed) + _unhex(explicit), _unhex(aad), _unhex(pt)
            c, j0, h = py_gcm(key, iv, aad, pt)
            want = c + py_tag(key, j0, h, aad, c)
            sealed, o1, o2 = got.split("/")
            who = "aeadSM4GCM" if how == "d" else "GM cipher suite 0x" + how
            if _unhex(sealed) != want:
                return False, "%s: sealed record (step %d) is not SM4-GCM with IV = implicit || explicit nonce" % (who, i + 1)
            if o1 != "1":
                return False, "%s: a record made by sm4.Sm4GCM is rejected or opens to other bytes (step %d)" % (who, i + 1)
            if o2 != "1":
                return False, "%s: a record is accepted by an AEAD whose implicit nonce differs in one bit (step %d)" % (who, i + 1)
        return True, ""
    if f[0] == "Q":
        calls = f[2].split(",")
        if io[0] != "ok" or len(io) != 3:
            return False, "history: error for 16-byte keys"
        outs = io[1].split(",")
        if len(outs) != len(calls):
            return False, "history: wrong number of results"
        for i, (c, got) in enumerate(zip(calls, outs)):
            if _hist_expected(c) != got:
                return False, ("call %d of a history on reused buffers (%s) does not return the GCM value of its arguments at call time "
                               "(the result depends on earlier calls)" % (i + 1, c.split(":")[0]))
        if io[2] != "1":
            return False, "history: a call wrote to the caller's key/IV/A/P buffers"
        return True, ""
    if f[0] == "V":
        c, t = _unhex(f[5]), _unhex(f[6])
        if io[0] != "ok" or len(io) != 3:
            return False, "error for a 16-byte key"
        got = _unhex(io[1])
        if (got == t) != (f[7] == "eq"):
            return False, ("recomputed tag differs from the tag of an unmodified message" if f[7] == "eq"
                           else "recomputed tag equals the transmitted tag although an input was modified")
        _, j0, h = py_gcm(key, iv, a, b"")
        if py_tag(key, j0, h, a, c) != got:
            return False, "recomputed tag is not E(K,J0) xor GHASH_H(A,C) of the given inputs"
        return True, ""
    return True, ""
