"""C17 - PKCS#7 / PKCS#12 containers return what was put in, only to the right holder."""
ID = "C17"
PROPS = "Props/C17.v"
COQ_TIMEOUT = 5400   # Coq build of this property incl. rebuilt dependencies; generous: on a loaded machine a rebuild after an upstream edit took > 1500 s
GEN = ["pkcs7", "rc2tables", "dec", "sm2", "sm2sig"]   # every Gen file in the Coq closure of Props/C17.v is regenerated
LEGS = [{"driver": "c17", "runner": ("p12", "Extract/ExtractP12.v", "P12w"), "timeout": 3000},
        {"driver": "c17m", "runner": ("p12", "Extract/ExtractP12.v", "P12w"), "timeout": 3000}]

TECHNIQUE = ("Coq proofs over models of the container logic (recipient / signer selection, padding, algorithm tables regenerated from the "
             "source, PKCS#12 MAC gate, PKCS#12 KDF against RFC 7292 B.2, BMPString, RC2) with the cryptographic primitives abstract; "
             "black-box round-trip, wrong-holder, tamper and single-byte-corruption runs of the real packages decided by a predicate")
LEVEL_TEXT = ("Theorems in Coq (Props/C17.v): for every content, recipient list with distinct issuer+serial and both content ciphers the model of "
              "PKCS7Encrypt(SM2)/Decrypt(SM2) returns the content to every listed recipient, an error to a certificate that is not listed and "
              "the key-transport error to a listed certificate with another key; Verify accepts exactly when every signer's digest attribute, "
              "DER SET OF attributes / content signature, certificate lookup and algorithm lookup succeed (algorithm tables generated from "
              "pkcs7.go: both SM3 OIDs map to SM3); the signing side (NewSignedData / AddSigner with sorted signed attributes / Finish) produces, for every content, "
              "signer set with distinct certificates and extra attributes, signed data that Verify accepts (relative to the correctness of the signature scheme - for SM2 "
              "discharged by C01's Sign-then-Verify theorem - and the DER codecs), and the same signer infos around another content are accepted only on a digest collision, and a later Verify of the same certificates and signer infos with another content accepts only if each signer's digest of that content equals the one verified before (Verify has no memory: C17_verify_again_other_content; the driver replays call histories on one parsed object); unpad total and inverse to pad; PKCS#12 decoding passes getSafeContents only with "
              "HMAC(KDF(password)) matching the received authenticated safe; the PKCS#12 KDF model equals RFC 7292 B.2; BMPString encoding "
              "round-trips; RC2 decrypt(encrypt(b)) = b for all keys and blocks. The real packages are run on round trips, strangers, wrong "
              "keys, wrong passwords, altered content/attribute/signature and single-byte corruptions, decided by the predicate.")
LEVEL_NOTE = ("C17_envelope_roundtrip_sm2 composes the envelope theorem with the SM2 model of the C02 family (SM2Model.Encrypt on the certificate's key [d]G, "
              "SM2Model.Decrypt with d): the key-transport premise is discharged by C02_decrypt_encrypt with the SM2 facts proved (Prime/SM2FactsProof.v), so for "
              "PKCS7EncryptSM2 / DecryptSM2 only the content cipher (DES-CBC / AES-GCM decryption inverts encryption, lengths) is left as a premise; the general theorems remain "
              "relative to idealised primitives (Section hypotheses, never axioms): content ciphers and key transport invert (D(E(x)) = x), "
              "signature verification / hashes / HMAC / DER encoding of the structures are abstract functions; 'by no other key' is proved as: a "
              "non-listed certificate gets an error, a listed certificate whose key does not open the wrapped key gets that error (that a wrong "
              "SM2/RSA key fails to open is C02 / an RSA property, tested here, not proved). The container models (P7Model, "
              "MacModel) are hand-written from pkcs7.go / pkcs12.go; the model of Verify is extracted and compared with the real Verify on "
              "genuine, tampered and corrupted signed data (pieces read through a hook), the extracted Decrypt model is compared on rewritten recipient lists (issuer / serial swapped, duplicates, zero recipients, foreign or garbage wrapped keys), the MAC-gate and whole-container PKCS#12 models are tied only by the "
              "black-box runs; the "
              "PKCS#12 primitive models (RC2, BMPString, KDF with a toy hash) are extracted and compared with the real functions. Combinations the "
              "property names that the API does not carry through are explicit case classes whose predicate demands what the property "
              "demands: library-made RSA and SM2 signed data (AddSigner) must verify and reject tampering; Decode must read bundles with SM2 "
              "certificates (known finding p12-decode-sm2-cert: Decode returns the crypto/x509 certificate type, which has no SM2 curve; "
              "DecodeAll works); RSA keys written by Encode must be readable; ToPEM must work for SM2 keys; a key or certificate of the other "
              "type must give an error, not a panic; Decode of a bundle with an extra CA certificate must not return the CA as the leaf. SM2 "
              "signed data with the other digest OIDs / without attributes is built by the driver with encoding/asn1 from the structures of pkcs7.go. Passwords outside the BMP are rejected by Encode (accepted: not "
              "representable as BMPString). Enveloped data with DES-CBC carries no integrity: corrupted ciphertext may decrypt to other "
              "content (recorded; the property does not promise otherwise).")
TRUSTED_BASE = [
    "models coq/P7/P7Model.v, coq/P12/MacModel.v (P7Model.Verify: extracted and run on the pieces the library decoded, compared with the real Verify, op VER; signing side P7/P7SignModel.v: signer info structure compared with what AddSigner writes, op SGN; envelope recipient selection: extracted Decrypt compared with the real DecryptSM2 on rewritten recipient lists, op SEL; MAC gate / whole-container model: tied by the black-box runs only), coq/P12/PbkdfModel.v, coq/P12/BmpModel.v, coq/P12/RC2Model.v (tied by differential runs of the extracted models, leg c17m), coq/Dec/ByteModels.v pad/unpad (tied by C18's differential run); all written by hand from the Go sources",
    "extraction: ExtrOcamlBasic only; runner ocaml/p12/main.ml; the PKCS#12 KDF is compared with a 20-byte toy hash (Go twin in harness/cmd/c17m) because SHA-1 has no model here; hook files pkcs12/verif_p12_verif.go (bmpString, decodeBMPString, pbkdf) and x509/verif_decoders_verif.go (VerifP7Signers, VerifP7HashByName, VerifP7CheckSignature: the pieces Verify works on)",
    "translator targets 'pkcs7' (getHashForOID, getSignatureAlgorithmByHash, decrypt OID guard), 'rc2tables' (piTable), 'dec'",
    "Go driver harness/cmd/c17 (builds SM2 signed data with encoding/asn1 using copies of the structures of pkcs7.go; fixed test keys)",
    "encoding/asn1, crypto/des, crypto/aes, crypto/cipher (CBC, GCM), crypto/rsa, crypto/hmac, crypto/sha1 of Go 1.23; sm2.Encrypt/Decrypt/Sign/Verify (C01, C02)",
]
ASSUMPTIONS = [
    "content cipher: CBC decrypt inverts CBC encrypt and preserves length; GCM open(seal(p)) = p",
    "key transport: unwrap(sk_of c)(wrap c k r) = k for the key pair of certificate c (general theorems; for SM2 key transport this is proved: C17_envelope_roundtrip_sm2 uses C02_decrypt_encrypt with SM2Facts_proved, relative to the SM2 model of C02)",
    "recipient certificates have pairwise distinct (issuer, serial)",
    "DER encoding/decoding of the container structures by encoding/asn1 is the identity on the decoded structures",
    "hash, HMAC-SHA1, signature verification are functions (no collision / forgery statement is made: theorems conclude equalities of MACs / digests)",
]
RULE = ("(round 6: call histories on ONE parsed signed-data object - Verify, change p7.Content (genuine -> forged -> genuine -> one bit altered, none / empty -> genuine -> longer, forged -> genuine, attached content replaced or altered in place), Verify again, 2-5 calls, 7 signer kinds with and without signed attributes, attached and detached: every call must give the verdict of a single Verify with the content present at that call, which the extracted model of Verify computes and the case states) (round 4: SM2 keys with 31/30/29 significant scalar bytes and a public coordinate with a leading zero in the PKCS#12 round trips, compared by scalar and point; class PF: 29 structural forgeries of a PKCS#12 container without the password - macData removed, duplicated, moved or altered, safes reordered / dropped / duplicated, the encrypted certificate safe replaced by a plain one - must be refused or decode to exactly the owner's key and certificate) (audit round 2: hand-built RSA signers with and without signed attributes; VER cases carry the outcome the property states; SEL decided by an independent rule on the recipient list; a DES-CBC 'diff' after a single-byte corruption is accepted only inside IV / ciphertext / RSA-wrapped key; corruption offsets and replacement values rotate with the seed) enveloped: contents of 0,1,7,8,9,15,16,17,31,32,33,100,1000,4096 bytes and 65536 (thorough: more sizes up to 64 KiB), tails that look like "
        "padding, DES-CBC and AES-128-GCM, SM2 (both orderings) and RSA recipients, 1-3 recipients, stranger certificate, recipient certificate "
        "with another private key; signed: SM2 signers with SM3 (both OIDs) and SHA-256, with/without signed attributes, attached/detached, "
        "library-made RSA signed data; content / signing-time attribute / signature / certificate altered; PKCS#12: passwords empty, ASCII, "
        "non-ASCII BMP, non-BMP, and passwords of 1..100 characters (ASCII and CJK) with wrong passwords sharing a prefix of 16/31/32/33/64 characters, differing in one position, in the last character, shorter / longer by one; SM2, ECDSA P-256, RSA keys; SM2 and RSA certificates; wrong passwords; every length octet and sampled (thorough: "
        "all) positions of the containers replaced by b^1, b^0x80 (thorough also 00, ff). White-box leg: RC2 with key lengths 1..128 and effective key bits 1..1024, both directions; BMPString "
        "encode/decode incl. surrogates, U+FFFD, non-BMP runes, odd lengths, unterminated strings; PKCS#12 KDF with v in {1,3,8,20,21,64,128}, salt/password "
        "lengths 0..200 incl. all-0xff blocks, iteration counts -5..7, sizes 0..100; the real pbkdf(sha1Sum, 20, 64, ...) against a python implementation of RFC 7292 B.2 for salt / password lengths {0,1,31,32,33,63,64,65,200} and the package's own parameter shapes. Non-trivial = every case; distinct = distinct case text")


def nontrivial(f):
    return True


def _unhex(s):
    return b"" if s in ("-", ".", "") else bytes.fromhex(s)



def _tlv(b, off):
    """(tag, content start, content end) of the DER element at off (definite lengths)"""
    tag = b[off]
    l = b[off + 1]
    off += 2
    if l & 0x80:
        n = l & 0x7f
        l = int.from_bytes(b[off:off + n], "big")
        off += n
    return tag, off, off + l


def _children(b, lo, hi):
    out = []
    while lo < hi:
        tag, cs, ce = _tlv(b, lo)
        out.append((tag, lo, cs, ce))
        lo = ce
    return out


def _enveloped_parts(b):
    """contentInfo{oid, [0]{ envelopedData{version, SET recipientInfos, eci{oid, alg{oid, params}, [0] content}}}}"""
    _, cs, ce = _tlv(b, 0)
    ci = _children(b, cs, ce)
    _, cs, ce = _tlv(b, ci[1][2])                 # envelopedData SEQUENCE inside [0]
    ed = _children(b, cs, ce)
    return ed


def _des_malleable_range(b):
    """byte positions of the IV (algorithm parameters) and the encrypted content of a DES-CBC enveloped data"""
    try:
        ed = _enveloped_parts(b)
        eci = _children(b, ed[2][2], ed[2][3])
        alg = _children(b, eci[1][2], eci[1][3])
        return alg[1][1], eci[2][3]               # from the parameters element to the end of the encrypted content
    except Exception:
        return 0, 0


def _in_rsa_wrapped_key(b, pos):
    """RSA PKCS#1 v1.5 key transport has no check value: a corrupted wrapped key may unwrap to another content key"""
    try:
        ed = _enveloped_parts(b)
        for ri in _children(b, ed[1][2], ed[1][3]):
            parts = _children(b, ri[2], ri[3])
            if parts[-1][2] <= pos < parts[-1][3]:
                return True
    except Exception:
        pass
    return False


def p12_kdf_rfc7292(salt, password, r, ID, n, u=20, v=64):
    """RFC 7292 Appendix B.2 with SHA-1, written from the RFC (the oracle for the KDS cases)"""
    import hashlib
    D = bytes([ID]) * v

    def stretch(x):
        if not x:
            return b""
        L = v * ((len(x) + v - 1) // v)
        return (x * ((L + len(x) - 1) // len(x)))[:L]
    I = stretch(salt) + stretch(password)
    c = (n + u - 1) // u
    A = b""
    for i in range(c):
        Ai = hashlib.sha1(D + I).digest()
        for _ in range(1, r):
            Ai = hashlib.sha1(Ai).digest()
        A += Ai
        if i < c - 1:
            B = (Ai * ((v + u - 1) // u))[:v]
            Bn = int.from_bytes(B, "big") + 1
            I = b"".join(((int.from_bytes(I[j * v:(j + 1) * v], "big") + Bn) % (1 << (8 * v))).to_bytes(v, "big")
                         for j in range(len(I) // v))
    return A[:n]


def classify(f, io):
    if not io:
        return f[0] + ":none"
    if f[0] == "E":
        return "E:%s:%s:%s" % (f[2], f[3], io[0])
    if f[0] == "S":
        return "S:%s:attrs%s:det%s:%s" % (f[2], f[3], f[4], io[1] if len(io) > 1 else io[0])
    if f[0] == "P":
        return "P:%s:%s:%s:%s" % (f[3], f[4], f[5], io[0])
    if f[0] == "K":
        return "K:%s:%s" % (f[2], io[0])
    if f[0] == "EC":
        return "EC:%s:%s" % (f[2], io[0])
    if f[0] == "KDS":
        return "KDS:" + io[0]
    return f[0] + ":" + io[0]


def predicate(f, io):
    """what the property demands, decided on what /repo returned"""
    if not io or io[0] in ("HANG", "BADCASE"):
        return False, "implementation " + (io[0] if io else "gave no result")
    op = f[0]
    if op == "KDS":
        if io[0] != "ok":
            return False, "pbkdf did not return a key"
        want = p12_kdf_rfc7292(_unhex(f[2]), _unhex(f[3]), int(f[4]), int(f[5]), int(f[6]))
        if _unhex(io[1]) != want:
            return False, ("PKCS#12 key derivation differs from RFC 7292 B.2 (SHA-1) for a salt of %d and a password of %d bytes"
                           % (len(_unhex(f[2])), len(_unhex(f[3]))))
        return True, ""
    if op == "PW":
        if io[0] == "encerr":
            return False, "pkcs12.Encode failed"
        return (io[0] == "err"), ("PKCS#12 bundle encoded with a password of %d characters opens with a different password of %d characters"
                                  % (len(_unhex(f[3]).decode("utf-8")), len(_unhex(f[4]).decode("utf-8"))))
    if op == "PL":
        return (io[0] == "same"), "PKCS#12 round trip with a long password failed (%s)" % io[0]
    if op == "SEL":
        # recipient selection: compared with the extracted model of Decrypt, and decided here from the list itself: the first
        # recipient info with our issuer and serial is the one the property talks about - no such entry: an error; its wrapped
        # key is ours (K): the content; it is not (B): an error.  A different plaintext is always a failure.
        if io[0] not in ("ok", "err"):
            return False, "enveloped data with a rewritten recipient list decrypted to different content"
        ours = f[5].lower()
        first = None
        for ent in ([] if f[6] == "-" else f[6].split(",")):
            serial, issuer, verdict = ent.split(":")
            if (serial + ":" + issuer).lower() == ours:
                first = verdict
                break
        want = "ok" if first == "K" else "err"
        if io[0] != want:
            return False, ("decrypting with a certificate that is %s gave %s" %
                           ("not among the recipients" if first is None else
                            ("listed with its own wrapped key" if first == "K" else "listed with a key wrapped for somebody else"), io[0]))
        return True, ""
    if op == "SGN":
        # the signing side: structure decided by comparison with the extracted model of AddSigner; independently, the signed
        # messageDigest attribute must be the OCTET STRING of the digest of the content (SM3 for an SM2 key, SHA-1 for RSA)
        if io[0] != "ok" or len(io) < 4:
            return False, "signed data made by AddSigner could not be read back"
        want = (f[4] if f[2] == "sm2" else f[3]).lower()
        mds = [a.split("~")[1].lower() for a in io[3].split("+") if a.split("~")[0] == "1.2.840.113549.1.9.4"]
        n = len(want) // 2
        if ("04%02x%s" % (n, want)) not in mds:
            return False, "AddSigner wrote a messageDigest attribute that is not the digest of the content"
        return True, ""
    if op == "VER":
        # signed-data verification logic: compared with the extracted model of Verify; where the property states the outcome
        # (exp=ok: genuine; exp=err: other content, signer certificate missing, signature altered) it is demanded here
        if io[0] not in ("ok", "err"):
            return False, "Verify did not return"
        exp = [x[4:] for x in f if x.startswith("exp=")]
        hist = [x[5:] for x in f if x.startswith("hist=")]
        if hist and exp and exp[0] in ("ok", "err") and io[0] != exp[0]:
            # call history on ONE parsed object: earlier Verify calls with other contents, then this one; Verify has no
            # memory - the verdict is the one of a single Verify with the content present at this call
            n = len(hist[0][2:].split(","))
            return False, (("after %d earlier Verify call(s) on the same parsed object with other contents, Verify with the genuine content fails" % n)
                           if exp[0] == "ok" else
                           ("after %d earlier Verify call(s) on the same parsed object, Verify accepts a content that was not signed "
                            "(Content %s between the calls)" % (n, "altered in place" if hist[0][0] == "i" else "replaced")))
        if exp and exp[0] in ("ok", "err") and io[0] != exp[0]:
            return False, ("genuine signed data does not verify" if exp[0] == "ok"
                           else "signed data with altered content, missing signer certificate or altered signature verifies")
        return True, ""
    if op in ("RC2", "BMP", "BMD", "KDF"):
        # PKCS#12 primitives: decided by comparison with the extracted models (proved against RFC 7292 B.2 / inverse laws)
        return (io[0] in ("ok", "err")), "PKCS#12 primitive " + op + " did not return"
    if io[0] == "PANIC":
        if op == "K":
            return False, "PKCS#7 API panics on a key / certificate of the other type (%s) instead of returning an error" % f[2]
        return False, "implementation panicked"
    if op == "E":
        if io[0] != "ok":
            return False, "enveloping / parsing the library's own envelope failed: " + " ".join(io)
        per, stranger, wrong = io[1], io[2], io[3]
        if set(per) != {"="}:
            return False, "a listed recipient did not recover the content exactly (%s)" % per
        if stranger != "err":
            return False, "a certificate that is not a recipient decrypted the envelope"
        if wrong != "err":
            return False, "recipient certificate with another private key decrypted the envelope (%s)" % wrong
        return True, ""
    if op == "S":
        if io[0] == "na":
            return True, ""     # AddSigner always adds signed attributes: no attribute-less library signature exists
        if io[0] == "encerr":
            return False, "signed data cannot be produced for this signer (%s): AddSigner fails" % f[2]
        if io[0] != "ok":
            return False, "signed data could not be built / parsed: " + " ".join(io)
        v, vc, va, vs, vo = io[1:6]
        if v != "ok":
            return False, "genuine signed data (%s, attrs=%s, detached=%s) does not verify (%s)" % (f[2], f[3], f[4], v)
        if vc != "err":
            return False, "signed data verifies with altered content"
        if va not in ("err", "na"):
            return False, "signed data verifies with an altered signed attribute"
        if vs != "err":
            return False, "signed data verifies with an altered signature"
        if vo not in ("err", "na"):
            return False, "signed data verifies without the signer's certificate"
        return True, ""
    if op == "P":
        if io[0] == "encerr":
            if f[2] == "nonbmp":
                return True, ""     # a password outside the BMP cannot be written as a BMPString: rejected at Encode
            return False, "pkcs12.Encode failed"
        api = f[5]
        if api == "wrongpw":
            return (io[0] == "err"), "PKCS#12 bundle decoded with a wrong password"
        if api == "decode+ca":
            # Decode is for bundles with one certificate: an error is acceptable, another certificate as the leaf is not
            return (io[0] != "diff"), "Decode of a bundle with an extra CA certificate returned another certificate / key as the leaf"
        if api in ("decode", "decodeall", "decodeall+ca"):
            if io[0] == "same":
                return True, ""
            if io[0] == "diff":
                return False, "%s returned a different key or certificate" % api
            return False, "%s with the right password fails on the library's own bundle (key %s, certificate %s)" % (api, f[3], f[4])
        if api == "topem":
            return (io[0] == "ok"), "ToPEM with the right password fails on the library's own bundle (key %s)" % f[3]
        return False, "unknown api"
    if op == "K":
        return (io[0] == "err"), "a key / certificate of the other type was accepted (%s)" % f[2]
    if op == "PF":
        # structural forgery without the password: refused, or exactly the owner's key and certificate
        if io[0] == "diff":
            return False, "a PKCS#12 container rebuilt without the password (%s) decodes to a different key or certificate" % f[3]
        if f[3] == "asis" and io[0] != "same":
            return False, "the untouched PKCS#12 container does not decode to its key and certificate (%s)" % io[0]
        return (io[0] in ("err", "same")), "PKCS#12 forgery case did not return: " + " ".join(io)
    if op == "PC":
        if io[0] == "diff":
            return False, "a single-byte corruption of the PKCS#12 container decodes to a different key or certificate"
        return True, ""
    if op == "SC":
        if io[0] == "verified-diff":
            return False, "a corrupted signed-data container verifies with different content"
        return True, ""
    if op == "EC":
        if io[0] == "diff" and f[2] == "gcm":
            return False, "corrupted AES-GCM enveloped data decrypted to different content"
        if io[0] == "diff":
            # DES-CBC carries no integrity: a changed ciphertext or IV byte may decrypt to other content.  Anything else
            # (recipient identity, algorithm identifiers, lengths, the SM2-wrapped key, which has its own check value) must not.
            lo, hi = _des_malleable_range(_unhex(f[7]))
            pos = int(f[5])
            if not (lo <= pos < hi or (f[3] == "rsa" and _in_rsa_wrapped_key(_unhex(f[7]), pos))):
                return False, ("a corrupted byte outside the DES-CBC ciphertext and IV (position %d) changed the decrypted content" % pos)
        return True, ""
    return False, "unknown case"


# known-finding classes (a finding: line in KNOWN_FINDINGS.txt with the slug suppresses exactly these failures)
FINDING_MATCHERS = {
    # pkcs12.Decode returns the STANDARD crypto/x509 certificate type: it parses the certificate bag with crypto/x509, which
    # knows no SM2 curve -> Encode(key, certificate with an SM2 key) then Decode fails ("unsupported elliptic curve"); DecodeAll works
    "p12-decode-sm2-cert": lambda f, io: f[0] == "P" and f[5] == "decode" and f[4] == "sm2cert" and io[0] == "err-curve",
}
