"""C04 - SM3 is the GM/T 0004 digest for every input and chunking and honours hash.Hash (sm3)."""
import struct

ID = "C04"
PROPS = "Props/C04.v"
COQ_TIMEOUT = 5400   # Coq build of this property incl. rebuilt dependencies; generous: on a loaded machine a rebuild after an upstream edit took > 1500 s
GEN = ["sm3iv", "sm3consts", "sm3code", "tlssuites"]   # every Gen file in the Coq closure of Props/C04.v is regenerated (never a stale table)
LEGS = [
    {"driver": "c04", "runner": ("sm3", "Extract/ExtractSM3.v", "Sm3_model")},
    {"driver": "c04w", "runner": ("sm3", "Extract/ExtractSM3.v", "Sm3_model"), "tags": "verif"},
    {"driver": "c04c", "runner": ("sm3", "Extract/ExtractSM3.v", "Sm3_model")},   # consumers: x509 hash registry
]

TECHNIQUE = ("Coq proof that a function-by-function model of sm3/sm3.go (and of crypto/hmac, x/crypto/pbkdf2 as the hash.Hash "
             "operations they issue) meets GM/T 0004 / RFC 2104 / RFC 8018 for every input, chunking and operation history; model "
             "tied to /repo by differential runs of the extracted model and by an independent Python SM3 oracle")
LEVEL_TEXT = ("Theorems in Coq (Props/C04.v), no length bound: the loop body of update/update2 (w[68], w1[64] filled in place, the two "
              "round loops, T_j <<< j mod 32) equals the standard's CF for all states and blocks; for every list of Write/Sum/Reset "
              "operations on New() each Sum(in) returns in ++ SM3(bytes written since the last Reset), Sum leaves the state alone, Reset "
              "restores New(), with the invariant (tail < 64 bytes, counter = 8*total mod 2^64, digest = CF folded over the complete "
              "blocks); corollaries chunking independence and Sm3Sum = spec; the IV read from the source is the standard's; the hmac "
              "object of crypto/hmac over this hash honours hash.Hash with H = HMAC-SM3 for every history, and pbkdf2.Key equals RFC 8018 "
              "PBKDF2-HMAC-SM3 for all arguments. The extracted model and specification are run on the same histories, all message "
              "lengths 0..8192, partitions, streams, HMAC/PBKDF2 cases and white-box counter states as the real package.")
LEVEL_NOTE = ("Trusted: Coq kernel, extraction (ExtrOcamlBasic only), the Go drivers, generator coverage, and that SM3Spec.v transcribes "
              "GM/T 0004 (validated by the standard's two examples inside Coq and against OpenSSL's SM3 and a second, independent Python "
              "implementation on every run). Go slices are modelled twice: by value (SM3Model.v, the extracted model) and with backing "
              "arrays in a heap (SM3Heap.v: unhandleMsg, Write's p, Sum's in/result, pad's appends into spare capacity, any growth "
              "policy); the heap model is proved to refine the value model for every history in which the caller stores into any array "
              "but the object's own, Write is proved never to write or keep the caller's array, Sum to write only in[len:len+32] or a "
              "fresh array. What stays trusted there is that SM3Heap.append / re-slicing describe Go's append and slice expressions; "
              "exercised by buffer-reuse, scribble and overlap-flag histories (c04w A cases). crypto/hmac and pbkdf2 are models of the Go "
              "1.23 / x/crypto sources (modelled, not verified), tied by the differential run through the real libraries.")
TRUSTED_BASE = [
    "specification coq/SM3/SM3Spec.v (GM/T 0004-2012), coq/SM3/HMACSpec.v (RFC 2104, RFC 8018 5.2), coq/SM3/HashSpec.v (hash.Hash contract); "
    "the standard's examples A.1, A.2 are Examples by vm_compute",
    "model coq/SM3/SM3Model.v written by hand from sm3/sm3.go, Go 1.23 crypto/hmac/hmac.go and x/crypto/pbkdf2/pbkdf2.go; tied by the correspondence run of this check",
    "model and specification share the word operations trunc32/add32/rotl32/not32; these are proved equal to mod 2^32, + mod 2^32, 2^32-1-x, (x*2^k) mod 2^32 + x/2^(32-k) on words < 2^32, every intermediate value of CF is proved < 2^32, and sm3 = sm3_a (SM3Arith.v: arithmetic only, bitwise xor/and/or kept as the standard's bit operations)",
    "translator harness/cmd/gen targets sm3iv (IV of Reset -> Gen/SM3IV.v), sm3code (block body of update and update2 and the length bytes of pad translated statement by statement, loops as folds, uint32 arithmetic with explicit wrap -> Gen/SM3Code.v; theorem C04_generated_compression_is_model: generated = hand model = CF) and sm3consts (constants of the parts that stay hand-modelled: block loop 64/64, array sizes, pad's 0x80/0x00/64/56, BlockSize, Size, len(p)*8 -> Gen/SM3Consts.v; theorems C04_constants_from_source, C04_model_uses_source_constants)",
    "extraction: ExtrOcamlBasic only (Extract Inductive bool, option, unit, list, prod, sumbool, sumor; Extract Inlined Constant andb, orb); nat/positive/N stay inductive",
    "OCaml 4.13.1 + dune; runner ocaml/sm3/main.ml and ocaml/conv.ml.tmpl (hex and int conversions, the shared LCG byte stream)",
    "Go driver harness/cmd/c04c (consumers through the exported x509.SM3.New: several live objects, hmac, pbkdf2)",
    "Go drivers harness/cmd/c04 (public API only) and harness/cmd/c04w (hooks sm3.VerifSetState / VerifGetState / VerifTailOverlaps in /repo/sm3/verif_state_verif.go; gmtls.VerifPrfSM3 / VerifNewMacSM3 in /repo/gmtls/verif_prfsm3_verif.go)",
    "Agree/KeyModel.v and Agree/PrfSM3.v (C06: function-level model of gmtls/prf.go and prf12_sm3_is_P_SM3) for the chain theorem C04_gmtls_prf_via_hash_ops",
    "Python oracle in checks/c04.py: pure-Python SM3 / HMAC / PBKDF2 (self-tested on GM/T 0004 A.1, A.2 at import); hashlib's OpenSSL sm3 only for streams above 256 KiB when present",
]
ASSUMPTIONS = [
    "messages shorter than 2^61 bytes for 'is the GM/T 0004 digest' (the standard is undefined beyond 2^64 bits); the Coq equalities themselves hold for every list because model and sm3 both write the low 64 bits of the bit length",
    "Go int is 64 bits (len(p)*8 does not overflow for slices that fit in memory)",
    "Go's append and slice expressions behave as SM3Heap.append / reslice_from (in place when len+n <= cap, otherwise a new array of any capacity >= len+n; values read before written); on that heap model non-aliasing is a theorem, not an assumption",
    "the caller does not store into the array the object currently holds (it cannot obtain it: the object never returns or keeps a caller-visible array - theorems (e))",
    "one goroutine per hash object (hash.Hash is not safe for concurrent use)",
    "crypto/internal/boring disabled; which Reset path crypto/hmac takes is recorded on every run (case B: sm3.SM3 is not marshalable) and both paths are proved (MarshalBinary/UnmarshalBinary idealised as exact snapshot/restore)",
    "gmtls/prf.go pHash and cipher_suites.go tls10MAC.MAC are modelled by hand as operation sequences (SM3/GmtlsOps.v); tied by the F and C cases through the real gmtls code",
]
RULE = ("seeded generator (VERIF_SEED): op histories over Write/Sum/Reset of length <= 8 (quick) / <= 24 (thorough) with write lengths "
        "{0,1,55,56,57,63,64,65,119,120,127,128}, random < 200, random <= 8192 and Sum prefixes {nil, empty cap 64, 3 bytes no spare "
        "capacity, 3 bytes cap 64, the full grid len {0,1,31,32,33,63,64,100} x spare capacity {0,1,31,32,33} with the spare bytes pre-filled and inspected afterwards, the previous Sum result as prefix (h.Sum(prevDigest))}, every written buffer scribbled over afterwards; the same histories on hmac.New(sm3.New, key) with key "
        "lengths {0,1,63,64,65,200}; every message length 0..8192 of a seeded stream through Sm3Sum and New/Write/Sum (G: all lengths, "
        "model incremental; L: one by one against the extracted specification, 0..520 and boundary lengths in quick, all in thorough); "
        "partitions of messages into 1..8 writes with cuts biased to block boundaries and empty writes; streams 64 KiB..256 KiB (quick) / "
        "up to 64 MiB (thorough, model up to 4 MiB) in chunk sizes 1, 7, 1021, 4099, 65521; HMAC key x message length grid plus random; "
        "PBKDF2 password lengths {0,1,63,64,65,200} x iterations {1,2,1000} x dkLen {1,31,32,33,100} (1000 iterations: two cases in quick); "
        "consumers (c04c, public API): interleaved histories over 2-3 live objects from x509.SM3.New() / sm3.New() incl. re-creation in a used slot, hmac.New(x509.SM3.New) key x message grid, pbkdf2 over x509.SM3.New; "
        "gmtls PRF grid label+seed length {0,1,31,32,33,63,64,65,95,96,97,127,128,129,200,300,1000} x output {1,31,32,33,64,65,100,300}; "
        "gmtls (white box, hooks): prf12(sm3.New) for output lengths {0,1,12,31,32,33,48,64,65,128,200, random < 300} and secrets of {0,1,48,64,65,100} bytes; "
        "macSM3/tls10MAC.MAC on one object over 1..5 records with and without extra bytes; "
        "white box: histories written from ONE reused caller buffer with the overlap of the object's tail buffer and that buffer observed after every Write (must be 0), Sum results overwritten by the caller; bit counter set to 0, 2^32-8, 2^32, 2^56, 2^61-64, 2^61, 2^63, 2^64-8.. then writes of {0,1,2,8,55,56,63,64,65,128}. "
        "A case is non-trivial when it hashes at least one byte or observes at least one Sum; distinct = distinct case text")

M32 = 0xFFFFFFFF
IV = (0x7380166f, 0x4914b2b9, 0x172442d7, 0xda8a0600, 0xa96f30bc, 0x163138aa, 0xe38dee4d, 0xb0fb0e4e)


# ---- GM/T 0004 in plain Python (the oracle; independent of the Coq development) -----------------
def _rotl(x, n):
    n &= 31
    return ((x << n) | (x >> (32 - n))) & M32


_TJ = [_rotl(0x79cc4519 if j < 16 else 0x7a879d8a, j) for j in range(64)]


def _cf(V, blk):
    W = list(struct.unpack(">16I", blk))
    for j in range(16, 68):
        x = W[j - 16] ^ W[j - 9] ^ _rotl(W[j - 3], 15)
        W.append(x ^ _rotl(x, 15) ^ _rotl(x, 23) ^ _rotl(W[j - 13], 7) ^ W[j - 6])
    A, B, C, D, E, F, G, H = V
    for j in range(64):
        a12 = ((A << 12) | (A >> 20)) & M32
        s = (a12 + E + _TJ[j]) & M32
        ss1 = ((s << 7) | (s >> 25)) & M32
        ss2 = ss1 ^ a12
        if j < 16:
            ff = A ^ B ^ C
            gg = E ^ F ^ G
        else:
            ff = (A & B) | (A & C) | (B & C)
            gg = (E & F) | (~E & G & M32)
        tt1 = (ff + D + ss2 + (W[j] ^ W[j + 4])) & M32
        tt2 = (gg + H + ss1 + W[j]) & M32
        D = C
        C = ((B << 9) | (B >> 23)) & M32
        B = A
        A = tt1
        H = G
        G = ((F << 19) | (F >> 13)) & M32
        F = E
        E = tt2 ^ _rotl(tt2, 9) ^ _rotl(tt2, 17)
    return (V[0] ^ A, V[1] ^ B, V[2] ^ C, V[3] ^ D, V[4] ^ E, V[5] ^ F, V[6] ^ G, V[7] ^ H)


class PySM3:
    """streaming SM3; (V, bits, tail) can be set to any internal state (white-box cases)"""

    def __init__(self, V=IV, bits=0, tail=b""):
        self.V, self.bits, self.tail = tuple(V), bits, bytes(tail)

    def copy(self):
        return PySM3(self.V, self.bits, self.tail)

    def write(self, p):
        self.bits = (self.bits + 8 * len(p)) % (1 << 64)
        m = self.tail + bytes(p)
        n = len(m) // 64
        V = self.V
        for i in range(n):
            V = _cf(V, m[64 * i:64 * i + 64])
        self.V, self.tail = V, m[64 * n:]
        return self

    def digest(self):
        m = self.tail + b"\x80"
        m += b"\x00" * ((56 - len(m)) % 64) + struct.pack(">Q", self.bits)
        V = self.V
        for i in range(len(m) // 64):
            V = _cf(V, m[64 * i:64 * i + 64])
        return struct.pack(">8I", *V)


def sm3(m):
    return PySM3().write(m).digest()


assert sm3(b"abc").hex() == "66c7f0f462eeedd9d1f2d46bdc10e4e24167c4875cf2f7a2297da02b8f4ba8e0"
assert sm3(b"abcd" * 16).hex() == "debe9ff92275b8a138604889c18e5a4d6fdb70e5387e5765293dcba39c0c5732"


class PyHMAC:
    """RFC 2104 by hand over PySM3, as a hash.Hash-like object"""

    def __init__(self, key):
        if len(key) > 64:
            key = sm3(key)
        k = key + b"\x00" * (64 - len(key))
        self.i0 = PySM3().write(bytes(b ^ 0x36 for b in k))
        self.o0 = PySM3().write(bytes(b ^ 0x5c for b in k))
        self.inner = self.i0.copy()

    def write(self, p):
        self.inner.write(p)
        return self

    def reset(self):
        self.inner = self.i0.copy()

    def digest(self):
        return self.o0.copy().write(self.inner.digest()).digest()


def hmac_sm3(key, msg):
    return PyHMAC(key).write(msg).digest()


def pbkdf2_sm3(pw, salt, c, dklen):
    h = PyHMAC(pw)
    out = b""
    for i in range(1, (dklen + 31) // 32 + 1):
        h.reset()
        u = h.write(salt + struct.pack(">I", i)).digest()
        t = int.from_bytes(u, "big")
        for _ in range(c - 1):
            h.reset()
            u = h.write(u).digest()
            t ^= int.from_bytes(u, "big")
        out += t.to_bytes(32, "big")
    return out[:dklen]


try:
    import hashlib as _hl
    _OSSL = _hl.new("sm3", b"abc").digest() == sm3(b"abc")
except Exception:  # no sm3 in this OpenSSL
    _OSSL = False


# ---- the shared byte streams ----------------------------------------------------------------------
_streams = {}


def _stream(seed, n):
    """first n bytes of the LCG stream; cached with the chaining value after every block"""
    ent = _streams.get(seed)
    if ent is None or len(ent[0]) < n:
        need = max(n, 8256)
        x = (seed * 2654435761 + 12345) & M32
        b = bytearray(need)
        for i in range(need):
            x = (x * 1664525 + 1013904223) & M32
            b[i] = x >> 24
        b = bytes(b)
        mids = [IV]
        for i in range(need // 64):
            mids.append(_cf(mids[-1], b[64 * i:64 * i + 64]))
        ent = (b, mids)
        _streams[seed] = ent
    return ent


def _prefix_digest(seed, n):
    b, mids = _stream(seed, n)
    k = n // 64
    return PySM3(mids[k], (8 * n) % (1 << 64), b[64 * k:n]).digest().hex()


def _unhex(s):
    return b"" if s in ("-", ".", "") else bytes.fromhex(s)


def _ops(s):
    return [o.split(":") for o in s.split(",")]


# ---- module interface -------------------------------------------------------------------------------
def nontrivial(f):
    op = f[0]
    if op in ("I", "B"):
        return False
    if op in ("H", "N", "A"):
        return any(o[0] == "S" or (o[0] == "W" and o[1] != ".") for o in _ops(f[-1]))
    if op == "L":
        return int(f[3]) > 0
    return True


def classify(f, io):
    op = f[0]
    out = io[0] if io else "none"
    if op in ("H", "N", "A", "U"):
        n = len(f[-1].split(","))
        return "%s:len%s:%s" % (op, "1-4" if n <= 4 else "5-8" if n <= 8 else "9-24", out)
    if op == "T":
        return "T:%dKiB:%s" % (int(f[3]) // 1024, out)
    if op == "K":
        return "K:iter%s:%s" % (f[4], out)
    if op == "B":
        return "B:marshalable=%s" % ("".join(io[1:3]) if len(io) >= 3 else "?")
    return op + ":" + out


def same(f, io, mo):
    """implementation vs extracted model: identical observation text (digests, lengths, tails)"""
    if f[0] == "B":
        return True   # which path crypto/hmac takes is recorded (generator statistics), both are proved
    return io == mo


def _check_history(obj, digest_of, ops, io, wsuffix=""):
    if io[0] != "ok" or len(io) != 2:
        return False, "history did not complete: " + " ".join(io)[:80]
    outs = io[1].split(",")
    last = b""
    if len(outs) != len(ops):
        return False, "number of results differs from the number of operations"
    for k, (o, got) in enumerate(zip(ops, outs)):
        if o[0] == "W":
            p = _unhex(o[1])
            obj.write(p)
            if wsuffix and got == "w%d/1" % len(p):
                return False, "op %d: after Write the object's buffer overlaps the caller's slice (io.Writer: must not retain p)" % k
            if got != ("w%d" % len(p)) + wsuffix:
                return False, "op %d: Write returned %s for %d bytes" % (k, got, len(p))
        elif o[0] == "S":
            pre = last if o[1] == "p" else _unhex(o[2])
            want_b = pre + digest_of(obj)
            last = want_b
            want = want_b.hex()
            if not got.startswith("s") or "/" not in got:
                return False, "op %d: malformed Sum observation" % k
            parts = got[1:].split("/")
            res, kept = parts[0], parts[1]
            if res != want:
                if len(res) == len(want) and res[:2 * len(pre)] != pre.hex():
                    return False, "op %d: Sum(prefix) did not return the caller's prefix followed by the digest" % k
                if res[:2 * len(pre)] == pre.hex() and len(res) == len(want):
                    return False, "op %d: digest returned by Sum differs from GM/T 0004 of the bytes written since the last Reset" % k
                return False, "op %d: Sum returned %d bytes, expected prefix (%d) + 32" % (k, len(res) // 2, len(pre))
            if kept != "1":
                return False, "op %d: Sum modified the caller's prefix bytes" % k
            if o[1].startswith("g"):
                if len(parts) < 3 or parts[2] not in ("w0", "w1"):
                    return False, "op %d: Sum wrote into the caller's array outside in[len(in):len(in)+32]" % k
        elif o[0] == "R":
            obj.reset()
            if got != "r":
                return False, "op %d: bad Reset observation" % k
    return True, ""


class _SM3Obj:
    def __init__(self):
        self.h = PySM3()

    def write(self, p):
        self.h.write(p)

    def reset(self):
        self.h = PySM3()


def predicate(f, io):
    """the property, evaluated on what /repo returned, against the Python oracle (independent of the Coq model)"""
    if not io or io[0] in ("PANIC", "HANG"):
        what = {"V": "hmac.New(x509.SM3.New, key): ", "Q": "pbkdf2 over x509.SM3.New: ", "F": "gmtls prf12(sm3.New): "}.get(f[0], "")
        return False, what + "implementation " + (io[0] if io else "gave no result")
    op = f[0]
    if op == "I":
        return (io == ["ok", "32", "64"]), "Size/BlockSize are not 32/64"
    if op == "B":
        # a fact recorded, not a requirement: crypto/hmac is proved for both values (C04_hmac_both_reset_paths)
        return (io[0] == "ok" and len(io) == 3), "could not determine whether sm3.SM3 is marshalable"
    if op == "F":
        if io[0] != "ok":
            return False, "gmtls PRF: unexpected result " + io[0]
        secret, seed, n = _unhex(f[2]), _unhex(f[3]) + _unhex(f[4]), int(f[5])
        h = PyHMAC(secret)
        a = h.write(seed).digest()
        out = b""
        while len(out) < n:
            h.reset()
            out += h.write(a + seed).digest()
            h.reset()
            a = h.write(a).digest()
        return (_unhex(io[1]) == out[:n]), "gmtls prf12(sm3.New) differs from P_SM3 (RFC 5246 section 5 with HMAC-SM3)"
    if op == "C":
        if io[0] != "ok":
            return False, "gmtls record MAC: unexpected result " + io[0]
        key = _unhex(f[2])
        got = io[1].split(",")
        recs = f[3].split(",")
        if len(got) != len(recs):
            return False, "wrong number of MACs"
        for k, (r, g) in enumerate(zip(recs, got)):
            sq, hd, dt, _ = r.split(":")
            if g != hmac_sm3(key, _unhex(sq) + _unhex(hd) + _unhex(dt)).hex():
                return False, "record %d: tls10MAC over macSM3 is not HMAC-SM3(key, seq || header || data)" % k
        return True, ""
    if op == "H":
        return _check_history(_SM3Obj(), lambda o: o.h.digest(), _ops(f[2]), io)
    if op == "U":
        if io[0] != "ok" or len(io) != 2:
            return False, "multi-object history did not complete: " + " ".join(io)[:80]
        ops = f[2].split(",")
        outs = io[1].split(",")
        if len(ops) != len(outs):
            return False, "number of results differs from the number of operations"
        objs = {}
        for k, (o, got) in enumerate(zip(ops, outs)):
            p = o.split(":")
            c, i = p[0][0], int(p[0][1:])
            if c == "N":
                objs[i] = PySM3()
                ok = got == "n"
            elif c == "W":
                objs[i].write(_unhex(p[1]))
                ok = got == "w%d" % len(_unhex(p[1]))
            elif c == "R":
                objs[i] = PySM3()
                ok = got == "r"
            else:
                pre = _unhex(p[2])
                ok = got == "s" + (pre + objs[i].digest()).hex() + "/1"
                if not ok:
                    return False, ("op %d: Sum of object %d is not prefix ++ SM3 of what was written to THAT object "
                                   "(objects from the hash registry must not share state)" % (k, i))
            if not ok:
                return False, "op %d: unexpected result %s" % (k, got[:40])
        return True, ""
    if op == "V":
        if io[0] != "ok":
            return False, "hmac.New(x509.SM3.New, key): " + io[0]
        return (io[1] == hmac_sm3(_unhex(f[2]), _unhex(f[3])).hex()), "hmac over x509.SM3.New differs from RFC 2104 HMAC-SM3"
    if op == "Q":
        if io[0] != "ok":
            return False, "pbkdf2 over x509.SM3.New: " + io[0]
        return (_unhex(io[1]) == pbkdf2_sm3(_unhex(f[2]), _unhex(f[3]), int(f[4]), int(f[5]))), "pbkdf2 over x509.SM3.New differs from RFC 8018"
    if op == "A":
        return _check_history(_SM3Obj(), lambda o: o.h.digest(), _ops(f[2]), io, "/0")
    if op == "N":
        return _check_history(PyHMAC(_unhex(f[2])), lambda o: o.digest(), _ops(f[3]), io)
    if io[0] != "ok":
        return False, "unexpected result " + io[0]
    if op == "L":
        d = _prefix_digest(int(f[2]), int(f[3]))
        if io[1] != d:
            return False, "Sm3Sum differs from GM/T 0004 for a %s-byte message" % f[3]
        if io[2] != d:
            return False, "New/Write/Sum differs from GM/T 0004 for a %s-byte message" % f[3]
        return True, ""
    if op == "G":
        seed, lo, hi = int(f[2]), int(f[3]), int(f[4])
        got = io[1].split(",")
        if len(got) != hi - lo:
            return False, "wrong number of digests"
        for n, g in zip(range(lo, hi), got):
            if g != _prefix_digest(seed, n):
                return False, "digest differs from GM/T 0004 for the %d-byte message (Sm3Sum!New/Write/Sum: %s)" % (n, g[:140])
        return True, ""
    if op == "P":
        msg = b"".join(_unhex(c) for c in f[2].split(","))
        return (io[1] == sm3(msg).hex()), "digest of a message split across writes differs from GM/T 0004 of the concatenation"
    if op == "T":
        seed, total = int(f[2]), int(f[3])
        pat = _stream(seed, 251)[0][:251]
        data = (pat * (total // 251 + 1))[:total]
        if total > 256 * 1024:
            if not _OSSL:
                return True, ""   # no second oracle for this size here: left to the model comparison
            want = _hl.new("sm3", data).hexdigest()
        else:
            want = sm3(data).hex()
        return (io[1] == want), "digest of a %d-byte stream differs from GM/T 0004" % total
    if op == "M":
        return (io[1] == hmac_sm3(_unhex(f[2]), _unhex(f[3])).hex()), "crypto/hmac over sm3.New differs from RFC 2104 HMAC-SM3"
    if op == "K":
        want = pbkdf2_sm3(_unhex(f[2]), _unhex(f[3]), int(f[4]), int(f[5]))
        return (_unhex(io[1]) == want), "pbkdf2.Key over sm3.New differs from RFC 8018 PBKDF2-HMAC-SM3"
    if op == "X":
        V = [int(w, 16) for w in f[2].split(",")]
        h = PySM3(V, int(f[3], 16), _unhex(f[4])).write(_unhex(f[5]))
        if io[1] != h.digest().hex():
            return False, "digest from the given internal state differs from the standard's padding with the 64-bit length"
        if int(io[2], 16) != h.bits:
            return False, "length counter after the write is not (old + 8*len) mod 2^64"
        if _unhex(io[3]) != h.tail:
            return False, "unprocessed tail after the write is not the bytes after the last complete block"
        return True, ""
    return False, "unknown case kind " + op
