"""C06 - GMSSL/TLS handshakes agree on parameters and keys and then carry data intact (gmtls)."""
ID = "C06"
PROPS = "Props/C06.v"
GEN = ["tlssuites"]
LEGS = [{"driver": "c06", "runner": ("agree", "Extract/ExtractAgree.v", "Agree_model"), "tags": "verif", "timeout": 2400}]
COQ_TIMEOUT = 5400

TECHNIQUE = ("Coq: client and server endpoint models (abstract message alphabet, symbolic terms) run against each other over a faithful "
             "channel and swept by vm_compute over the whole finite configuration product (221 760 configurations) against a policy "
             "predicate written from the property text; proofs of the key-block layout, of mirrored read/write keys and of pHash = "
             "P_hash for all inputs; models tied to /repo by real loopback connections (gmtls<->gmtls, gmtls<->Go crypto/tls both ways) "
             "with both ends' ConnectionState, exporters, errors and 0..200 KiB payloads in random fragments; GMSSL wire captures are "
             "decoded by the extracted Coq specifications (SM3 -> HMAC -> P_hash -> key block; SM4-CBC+HMAC-SM3 and SM4-GCM records); "
             "ExportKeyingMaterial is evaluated on both ends over a grid of labels, contexts (absent, EMPTY, 1, 32, 300 bytes) and "
             "lengths and recomputed from the key-logged master secret by python (RFC 5705 over P_SM3 / P_SHA256 / P_SHA384 / MD5-SHA1) "
             "and, for GMSSL, by the extracted model of ekmFromMasterSecret")
LEVEL_TEXT = ("Theorems in Coq (Props/C06.v): for every configuration of the product server mode {GMSSL, auto, TLS} x client {GM, TLS 1.0, "
              "1.1, 1.2} x 11 client / 7 server suite lists from the generated tables x server preference x ClientAuth (5) x client "
              "certificate {none, trusted, forged issuer} x certificates {static, callbacks} x tickets {on, off} x ClientCAs {holds the "
              "CAs, empty pool} the client model and the "
              "server model either both complete with equal version, suite, master-secret term, exporter term, key-block term and each "
              "other's certificates, or both fail, and they complete exactly when policy_allows, and then a second and third connection "
              "from the same client session cache complete with the same parameters (resumed with the first master secret when tickets "
              "are on), and the negotiated suite is the first entry of the preferring side's list (server's under "
              "PreferServerCipherSuites, else the client's) that the other side supports; the key block is cut as "
              "clientMAC|serverMAC|clientKey|serverKey|clientIV|serverIV with the generated lengths and installed mirrored; prf12/pHash "
              "equals P_hash (RFC 5246 s.5 / GM/T 0024) for every secret, label, seed and length, instantiated with the HMAC-SM3 "
              "specification for GMSSL; the model of ekmFromMasterSecret (context = absent or a possibly EMPTY byte string) is RFC 5705 s.4 "
              "for every unreserved label, context below 2^16 bytes and length - an empty context contributes its two zero length bytes, "
              "an absent one nothing, and different contexts give different seeds; Conn.Write/writeRecordLocked/Conn.Read deliver every sequence of writes in order and unmodified "
              "for all write sizes, record-size schedules, the 1/n-1 split and all read buffer sizes, relative to the per-record "
              "round trip of the record protection. Every sampled configuration is run on "
              "real endpoints and compared with the model; payloads are checked byte for byte; TLS 1.0-1.2 bytes are accepted and "
              "decoded by Go's crypto/tls, GMSSL bytes by the extracted Coq specification acting as the independent GM/T 0024 decoder.")
LEVEL_NOTE = ("Limits of the code base that policy_allows states explicitly (they fail on both sides with an error, which the property's "
              "'forbidden combinations' clause covers): the server side of the ECDHE-SM2 suites (0xe011/0xe051) does not exist, so a client "
              "offering only those fails and one offering ECDHE+ECC negotiates ECC; an auto-switch server whose static list is the SM2 pair "
              "can serve TLS clients only through GetCertificate. No "
              "third-party GM/T 0024 stack exists in this sandbox: the independent decoder is the extracted Coq specification (SM3Spec, "
              "HMACSpec, SM4Spec, GcmRef, P_hash), slow, therefore run on a few small captures per tier. The in-order delivery theorem "
              "takes the record protection as a parameter with the premise open(seq, seal(seq, p)) = p (the record layer itself is C07); "
              "on real connections it is checked on every completing run (0..200 KiB, fragments 1..56 KiB, both directions "
              "concurrently). With crypto/tls on one end only class, version, exporter equality and data are compared (its suite "
              "preference is its own). Certificates are fixed (websvr/certs); clients do not verify the server chain (C08).")
TRUSTED_BASE = [
    "models coq/Agree/{AgreeModel,KeyModel}.v and coq/Resume/ResumeModel.v (negotiation functions) written by hand from gmtls/handshake_*.go, gm_handshake_*_double.go, auto_handshake_server.go, prf.go, common.go; tied by this check's correspondence run",
    "suite tables, versions, labels: coq/Gen/TLSSuites.v regenerated from /repo (harness/cmd/gen/target_tls.go)",
    "specifications imported read-only: coq/SM3/{SM3Spec,HMACSpec}.v, coq/SM4/SM4Spec.v, coq/Rec/GcmRef.v (validated by their own families' test vectors)",
    "extraction: ExtrOcamlBasic only; runner ocaml/agree/main.ml, ocaml/conv.ml.tmpl",
    "Go driver harness/cmd/c06 (loopback TCP, wire capture, key log) and Go's crypto/tls as the TLS 1.0-1.2 reference peer (GODEBUG tlsunsafeekm=1 to export keying material without EMS)",
    "python policy evaluation in checks/c06.py (written from the property text, own suite flag table)",
]
ASSUMPTIONS = [
    "faithful channel: every message sent is delivered in order, nothing else (honest run)",
    "symbolic cryptography: encryption to a key is opened only by that key, signatures verify only under the signer's key, PRF/hash terms are equal only when built alike",
    "HMAC has a fixed non-zero output length (premise of the general PRF theorem; proved for the HMAC-SM3 specification)",
    "record protection round trip per sequence number (premise of the data theorem; C07)",
    "server certificates: SM2 signing + encryption pair and one RSA certificate; client certificates: one issued by the CA, one with a forged issuer name",
]
RULE = ("seeded generator (VERIF_SEED): the completing matrix - each GMSSL suite x each ClientAuth policy x client certificate none/CA-issued/"
        "forged issuer (+ mutual-authentication rows) with the payload sizes 0, 1, 16383, 16384, 16385, 40000 rotating through both directions; "
        "every TLS suite the RSA certificate can run at every version it exists in (13 suites, 27 rows, single-suite lists); crypto/tls as "
        "server and as client at TLS 1.0, 1.1, 1.2 over the suites it still implements (30 rows); the forbidden class is kept (pairwise "
        "cover, policy matrix) but capped at about a third of the cases; then 11 fixed completing configurations with 200 KiB / boundary payloads (GMSSL CBC and GCM, auto-switch GM and "
        "TLS 1.2, TLS 1.0/1.1, GMSSL-only with callbacks, crypto/tls on either end); 8 ticket configurations with 2-3 connections from one client "
        "session cache; 8 close-after-write configurations (the writer closes right after its last write, the reader drains with a 100..4096 "
        "byte buffer until EOF: bytes before EOF must equal bytes written); the client-certificate policy matrix (5 policies x none/trusted/"
        "forged issuer x full/empty ClientCAs) for GMSSL-only, TLS-only and auto-switch; a greedy pairwise cover of the 12-dimensional case "
        "space (the 10 configuration dimensions + connections per client 1..3 + closing side); 130 (thorough 2 500) random "
        "configurations filtered to plausible ones plus (thorough) 3 000 uniform ones; 60 (thorough 1 200) interoperation runs with crypto/tls "
        "as server or client; 6 (thorough 48) captured GMSSL connections for the independent decoder; every completing connection "
        "evaluates ExportKeyingMaterial on both ends over 3 labels (1, 22, 70 bytes) x contexts {nil, []byte{}, 1, 32, 300 bytes} x lengths "
        "{1, 32, 33, 100} (ends compared, crypto/tls being one end in the interoperation rows), and up to 6 (GMSSL 24; thorough 50 / 200) "
        "connections per version and suite become K cases whose 60 exports are recomputed independently. Payload sizes 0, 1..40, 16383..16385, "
        "32768, up to 64 KiB, 200 KiB; fragments 1, 1..64, 16384, 16385..56 KiB, 1..9000 bytes. Non-trivial = completing or policy-relevant "
        "configuration (all are); distinct = distinct case text")

# id -> (ecdhe, ecdsa, tls12only); GM suites: ecdhe means "server side not implemented"
TLS = {0xcca8: (1, 0, 1), 0xcca9: (1, 1, 1), 0xc02f: (1, 0, 1), 0xc02b: (1, 1, 1), 0xc030: (1, 0, 1), 0xc02c: (1, 1, 1),
       0xc023: (1, 1, 1), 0xc009: (1, 1, 0), 0xc014: (1, 0, 0), 0xc00a: (1, 1, 0), 0x009c: (0, 0, 1), 0x009d: (0, 0, 1),
       0x003c: (0, 0, 1), 0x002f: (0, 0, 0), 0x0035: (0, 0, 0), 0xc012: (1, 0, 0), 0x000a: (0, 0, 0), 0x0005: (0, 0, 0),
       0xc011: (1, 0, 0), 0xc007: (1, 1, 0)}
TLS_DEFAULT = [0xcca8, 0xcca9, 0xc02f, 0xc030, 0xc02b, 0xc02c, 0xc009, 0xc014, 0xc00a, 0x009c, 0x009d, 0x002f, 0x0035, 0xc012, 0x000a]
GM = {0xe013: 0, 0xe053: 0, 0xe011: 1, 0xe051: 1}
GM_DEFAULT = [0xe013, 0xe053, 0xe011, 0xe051]
VERS = {"g": 0x0101, "t10": 0x0301, "t11": 0x0302, "t12": 0x0303}


def _suites(s):
    return None if s == "n" else [int(x, 16) for x in s.split("+")]


def _cfg(f):
    mode, callbacks = f[2], f[9] == "1"
    if f[11] == "gs":                       # the standard library server: plain TLS, static certificate
        mode, callbacks = "tls", False
    new = len(f) >= 19
    return dict(mode=mode, kind=f[3], cs=_suites(f[4]), ss=_suites(f[5]), prefer=f[6] == "1", auth=int(f[7]), ccert=f[8],
                callbacks=callbacks, tickets=f[10] == "1", peer=f[11], pool=(f[15] == "1") if new else True,
                conns=int(f[16]) if new else 1, closer=f[17] if new else "-", rbuf=int(f[18]) if new else 0)


def allowed(c):
    """the policy, from the property text and the documented limits of the code base"""
    gm = c["kind"] == "g"
    if (gm and c["mode"] == "tls") or (not gm and c["mode"] == "gm"):
        return False
    if not gm and c["mode"] == "auto" and not c["callbacks"]:
        return False
    cl = c["cs"] if c["cs"] is not None else (GM_DEFAULT if gm else TLS_DEFAULT)
    sl = c["ss"] if c["ss"] is not None else (GM_DEFAULT if gm else TLS_DEFAULT)
    v = VERS[c["kind"]]

    def usable(i):
        if gm:
            return i in GM and not GM[i]
        return i in TLS and not TLS[i][1] and (v == 0x0303 or not TLS[i][2])
    if not any(i in sl and usable(i) for i in cl):
        return False
    if c["auth"] in (2, 4) and c["ccert"] == "n":
        return False
    # verify-if-given / require-and-verify: a presented certificate must chain to a CA of ClientCAs
    if c["auth"] >= 3 and c["ccert"] != "n" and (c["ccert"] == "u" or not c["pool"]):
        return False
    return True


def _expected_suite(c):
    """first entry of the preferring side's list that the other side lists and both can run"""
    gm = c["kind"] == "g"
    cl = c["cs"] if c["cs"] is not None else (GM_DEFAULT if gm else TLS_DEFAULT)
    sl = c["ss"] if c["ss"] is not None else (GM_DEFAULT if gm else TLS_DEFAULT)
    v = VERS[c["kind"]]

    def usable(i):
        if gm:
            return i in GM and not GM[i]
        return i in TLS and not TLS[i][1] and (v == 0x0303 or not TLS[i][2])
    pref, other = (sl, cl) if c["prefer"] else (cl, sl)
    for i in pref:
        if i in other and usable(i):
            return i
    return None


def _letters(s):
    """the per-connection letters of the 'more' field without the bracketed error texts"""
    out, depth = "", 0
    for ch in s:
        if ch == "[":
            depth += 1
        elif ch == "]":
            depth -= 1
        elif depth == 0:
            out += ch
    return out


def _payload(seed, direction, n):
    return bytes((i * 131 + seed * 17 + direction * 91 + (i >> 8)) & 0xff for i in range(n))


def _digest(b):
    s1 = s2 = 0
    for i, x in enumerate(b):
        s1 = (s1 + x) % 65521
        s2 = (s2 + (i + 1) * x) % 4294967291
    return "%d:%d:%d:%s" % (len(b), s1, s2, b[:16].hex() or "-")


# ---- exported keying material, computed here from RFC 5705 section 4 / RFC 5246 section 5 / RFC 2246 section 5 /
# GM/T 0024 (P_SM3) with the hash functions of python's hashlib (OpenSSL) - nothing of /repo, nothing of Go.
# The grid is the driver's: every label x context x length, concatenated; contexts: absent, EMPTY, 1, 32, 300 bytes.
EKM_LABELS = [b"a", b"EXPERIMENTAL verif c06", b"EXPORTER-verif-c06-" + b"x" * 51]
EKM_CONTEXTS = [None, b"", b"\x5a", bytes((i * 3 + 1) & 255 for i in range(32)), bytes((i * 7 + 5) & 255 for i in range(300))]
EKM_LENGTHS = [1, 32, 33, 100]
EKM_CTX_NAMES = ["absent (nil)", "EMPTY (zero-length, not nil)", "1 byte", "32 bytes", "300 bytes"]
SHA384_SUITES = (0x009d, 0xc030, 0xc02c)


def _sm3_py(msg):
    """SM3 (GM/T 0004) in plain python, used when hashlib has no sm3"""
    rol = lambda x, n: ((x << (n % 32)) | (x >> (32 - n % 32))) & 0xffffffff if n % 32 else x
    p0 = lambda x: x ^ rol(x, 9) ^ rol(x, 17)
    p1 = lambda x: x ^ rol(x, 15) ^ rol(x, 23)
    v = [0x7380166f, 0x4914b2b9, 0x172442d7, 0xda8a0600, 0xa96f30bc, 0x163138aa, 0xe38dee4d, 0xb0fb0e4e]
    m = msg + b"\x80" + b"\x00" * ((55 - len(msg)) % 64) + (8 * len(msg)).to_bytes(8, "big")
    for o in range(0, len(m), 64):
        w = [int.from_bytes(m[o + 4 * i:o + 4 * i + 4], "big") for i in range(16)]
        for j in range(16, 68):
            w.append(p1(w[j - 16] ^ w[j - 9] ^ rol(w[j - 3], 15)) ^ rol(w[j - 13], 7) ^ w[j - 6])
        a, b, c, d, e, f, g, h = v
        for j in range(64):
            t = 0x79cc4519 if j < 16 else 0x7a879d8a
            ss1 = rol((rol(a, 12) + e + rol(t, j)) & 0xffffffff, 7)
            ss2 = ss1 ^ rol(a, 12)
            ff = (a ^ b ^ c) if j < 16 else ((a & b) | (a & c) | (b & c))
            gg = (e ^ f ^ g) if j < 16 else ((e & f) | (~e & g & 0xffffffff))
            tt1 = (ff + d + ss2 + (w[j] ^ w[j + 4])) & 0xffffffff
            tt2 = (gg + h + ss1 + w[j]) & 0xffffffff
            a, b, c, d, e, f, g, h = tt1, a, rol(b, 9), c, p0(tt2), e, rol(f, 19), g
        v = [x ^ y for x, y in zip(v, (a, b, c, d, e, f, g, h))]
    return b"".join(x.to_bytes(4, "big") for x in v)


def _hash(name):
    import hashlib
    if name == "sm3":
        try:
            hashlib.new("sm3", b"")
        except Exception:
            return _sm3_py, 64
        return (lambda m: hashlib.new("sm3", m).digest()), 64
    return (lambda m: hashlib.new(name, m).digest()), (128 if name == "sha384" else 64)


def _hmac(name, key, msg):
    """RFC 2104, written out (no use of the hmac module's digest plumbing, so the plain-python SM3 fits too)"""
    h, block = _hash(name)
    if len(key) > block:
        key = h(key)
    key = key + b"\x00" * (block - len(key))
    return h(bytes(x ^ 0x5c for x in key) + h(bytes(x ^ 0x36 for x in key) + msg))


def _p_hash(name, secret, seed, n):
    out, a = b"", seed
    while len(out) < n:
        a = _hmac(name, secret, a)
        out += _hmac(name, secret, a + seed)
    return out[:n]


def _prf(vers, suite, secret, label, seed, n):
    if vers == 0x0101:
        return _p_hash("sm3", secret, label + seed, n)
    if vers == 0x0303:
        return _p_hash("sha384" if suite in SHA384_SUITES else "sha256", secret, label + seed, n)
    half = (len(secret) + 1) // 2  # RFC 2246 section 5: P_MD5(S1, ..) xor P_SHA-1(S2, ..)
    a = _p_hash("md5", secret[:half], label + seed, n)
    b = _p_hash("sha1", secret[len(secret) - half:], label + seed, n)
    return bytes(x ^ y for x, y in zip(a, b))


def _ekm(vers, suite, ms, cr, sr, label, context, n):
    seed = cr + sr
    if context is not None:
        seed += len(context).to_bytes(2, "big") + context
    return _prf(vers, suite, ms, label, seed, n)


def _ekm_grid(vers, suite, ms, cr, sr):
    """[(label index, context index, length, bytes)] in the driver's order"""
    return [(li, ci, n, _ekm(vers, suite, ms, cr, sr, l, c, n))
            for li, l in enumerate(EKM_LABELS) for ci, c in enumerate(EKM_CONTEXTS) for n in EKM_LENGTHS]


# measured while a check runs (reported through evidence_extra())
DECODED = {"connections": 0, "records": 0, "bytes": 0, "exporters": 0, "exports": 0}


def nontrivial(f):
    return True


def classify(f, io):
    if f[0] == "A":
        extra = ""
        if len(f) >= 19:
            extra = ":n%s%s" % (f[16], "" if f[17] == "-" else ":close-" + f[17])
        return "A:%s:%s:%s%s" % (f[11], f[3], io[1] if len(io) > 1 else "none", extra)
    return f[0] + ":" + f[2] + ":" + (io[0] if io else "none")


def same(f, io, mo):
    if f[0] == "D":
        ok = io == mo
        if ok and len(f) >= 11 and f[6] != "-":
            nrec = sum(0 if x in ("-", "") else x.count(",") + 1 for x in (f[9], f[10]))
            DECODED["connections"] += 1
            DECODED["records"] += nrec
            DECODED["bytes"] += int(f[4]) + int(f[5])
        return ok
    if f[0] == "A":
        if len(io) < 2 or len(mo) < 2 or io[1] != mo[1]:
            return False
        if io[1] != "C":
            return True
        more_i = _letters(io[8]) if len(io) > 8 else "-"
        more_m = mo[8] if len(mo) > 8 else "-"
        if f[11] != "gg":
            return io[2] == mo[2] and more_i == more_m
        return (io[2], io[3], io[5], io[6], more_i) == (mo[2], mo[3], mo[5], mo[6], more_m)
    if f[0] == "K":
        # the extracted model gives every context at one label and one length (rotating with the case number)
        if len(io) < 2 or len(mo) < 2 or io[0] != "ok" or mo[0] != "ok":
            return False
        li, ni = int(f[1]) % 3, int(f[1]) % 4
        per_ctx = sum(EKM_LENGTHS)
        picked = ""
        for ci in range(len(EKM_CONTEXTS)):
            off = (li * len(EKM_CONTEXTS) + ci) * per_ctx + sum(EKM_LENGTHS[:ni])
            picked += io[1][2 * off:2 * (off + EKM_LENGTHS[ni])]
        return picked == mo[1]
    return io == mo


def evidence_extra(wd):
    """measured coverage of the independent decoder, merged into the evidence by verif.py"""
    return {"independently_recomputed_exporters": DECODED["exporters"],
            "independently_recomputed_exports": DECODED["exports"],
            "independent_exporter": "checks/c06.py: RFC 5705 section 4 over P_SM3 / P_SHA256 / P_SHA384 / the MD5-SHA1 PRF with hashlib's "
                                    "hash functions, from the key-logged master secret and the hello randoms read off the wire; for GMSSL "
                                    "also the extracted Coq model (Agree/KeyModel.v ekmFromMasterSecret_bytes over SM3/HMACSpec.v)",
            "independently_decoded_connections": DECODED["connections"],
            "independently_decoded_records": DECODED["records"],
            "independently_decoded_bytes": DECODED["bytes"],
            "independent_decoder": "extracted Coq specification: key block from the key-logged master secret (Agree/KeyModel.v P_hash over "
                                   "SM3/HMACSpec.v), records opened by Rec/RecordModel.v decrypt with SM4/SM4Spec.v, SM3/HMACSpec.v, "
                                   "Rec/GcmRef.v; a connection counts when both directions decode to what the applications wrote"}


def predicate(f, io):
    if not io or io[0] in ("PANIC", "HANG", "BADCASE"):
        return False, "implementation " + (io[0] if io else "gave no result")
    if f[0] == "D":
        if io[0] != "ok":
            return False, "captured GMSSL connection did not complete: " + " ".join(io)[:160]
        want = [_digest(_payload(int(f[3]), 1, int(f[4]))), _digest(_payload(int(f[3]), 2, int(f[5])))]
        return (io[1:3] == want), "application data differs from what was written"
    if f[0] == "K":
        if io[0] != "ok" or len(io) < 2:
            return False, "exported keying material not produced: " + " ".join(io)[:160]
        vers, suite = int(f[2], 16), int(f[3], 16)
        try:
            got = bytes.fromhex(io[1])
        except ValueError:
            return False, "an export was refused or malformed: " + io[1][:80]
        pos = 0
        for li, ci, n, want in _ekm_grid(vers, suite, bytes.fromhex(f[4]), bytes.fromhex(f[5]), bytes.fromhex(f[6])):
            if got[pos:pos + n] != want:
                return False, ("ExportKeyingMaterial(label %r, context %s, %d) on a %04x/%04x connection gave %s..., RFC 5705 with "
                               "the connection's master secret and randoms gives %s..."
                               % (EKM_LABELS[li].decode()[:24], EKM_CTX_NAMES[ci], n, vers, suite, got[pos:pos + n][:8].hex(), want[:8].hex()))
            pos += n
        if pos != len(got):
            return False, "exported keying material has %d bytes, the grid has %d" % (len(got), pos)
        DECODED["exporters"] += 1
        DECODED["exports"] += len(EKM_LABELS) * len(EKM_CONTEXTS) * len(EKM_LENGTHS)
        return True, ""
    c = _cfg(f)
    cls = io[1] if len(io) > 1 else "?"
    if cls not in ("C", "E"):
        return False, "handshake ended with %s (panic / hang / one-sided completion / the ends disagree): %s" % (cls, " ".join(io[2:])[:200])
    ok = allowed(c)
    if cls == "E":
        return (not ok), "a supported combination failed on both sides"
    if not ok:
        return False, "a combination the policy forbids completed"
    vers, suite, ekmeq, pcc, pcs, data = int(io[2], 16), int(io[3], 16), io[4], io[5], io[6], io[7]
    if vers != VERS[c["kind"]]:
        return False, "negotiated version %04x is not the client's %04x" % (vers, VERS[c["kind"]])
    if (c["cs"] is not None and suite not in c["cs"]) or (c["ss"] is not None and suite not in c["ss"]):
        return False, "negotiated suite %04x is not in both configured lists" % suite
    if c["peer"] == "gg" and suite != _expected_suite(c):
        return False, ("negotiated suite %04x is not the first acceptable entry of the %s's list (%04x)"
                       % (suite, "server" if c["prefer"] else "client", _expected_suite(c) or 0))
    if ekmeq != "1":
        return False, ("the two ends export different keying material (ExportKeyingMaterial over 3 labels x contexts absent / EMPTY / 1 / "
                       "32 / 300 bytes x lengths 1, 32, 33, 100)")
    want_pcc = "gm" if c["kind"] == "g" else "rsa"
    want_pcs = "-" if (c["auth"] == 0 or c["ccert"] == "n") else c["ccert"]
    if pcc != want_pcc or pcs != want_pcs:
        return False, "peer certificates reported (%s / %s) differ from the configured ones (%s / %s)" % (pcc, pcs, want_pcc, want_pcs)
    if data != "1":
        if c["closer"] != "-":
            return False, ("application data: the bytes received before EOF differ from the bytes written (writer '%s' closed right after "
                           "its last write, reader buffer %d)" % (c["closer"], c["rbuf"]))
        return False, "application data was not delivered in order and unmodified in both directions"
    more = io[8] if len(io) > 8 else "-"
    if c["conns"] > 1:
        if _letters(more) != "C" * (c["conns"] - 1):
            return False, ("a further connection with the same configurations and client session cache (tickets %s) did not complete with "
                           "the same version, suite, peer certificates, equal exporters and intact data: %s" % ("on" if c["tickets"] else "off", more[:200]))
    return True, ""
