"""C02 - SM2 encryption round-trips, matches GM/T 0003.4 and rejects forged ciphertexts (sm2/sm2.go)."""
import os, sys
sys.path.insert(0, os.path.dirname(os.path.abspath(__file__)))
import sm2_oracle as o

ID = "C02"
PROPS = "Props/C02.v"
GEN = ["sm2", "sm2sig"]      # curve constants (sm2/p256.go) and default_uid / limits / mode values (sm2/sm2.go)
LEGS = [{"driver": "c02", "runner": ("sm2", "Extract/ExtractSM2.v", "Sm2_model")}]
COQ_TIMEOUT = 5400

TECHNIQUE = ("Coq proof over an executable model of Encrypt / Decrypt / EncryptAsn1 / DecryptAsn1 / CipherMarshal / CipherUnmarshal / kdf "
             "(all keys, plaintexts, streams, byte strings, both orderings); model tied to /repo by differential runs of the extracted model; "
             "the property itself decided on /repo's outputs by an independent plain-python GM/T 0003.4 oracle")
LEVEL_TEXT = ("Theorems in Coq (Props/C02.v): Encrypt returns exactly the GM/T 0003.4 ciphertext (C1C3C2 or C1C2C3, 04 prefix, 32-byte coordinates, "
              "97+|M| bytes) for the first nonce of the stream whose KDF output is not all zero, consuming 40 bytes per attempt; it returns a "
              "ciphertext or an error for every plaintext length (error for the empty one) and never hangs with fuel |rho|/40+1; Decrypt equals the "
              "standard's decryption on the parsed components for ALL byte strings: error below 98 bytes, for a first byte other than 04, for C1 "
              "not a curve point with coordinates in [0,p) (whatever the key: no invalid-curve oracle), for an all-zero KDF output, for C3 different "
              "from SM3(x2||M'||y2); an altered C3 is rejected, an altered C2 is rejected or exhibits an SM3 collision; KDF is the standard's counter "
              "mode; CipherUnmarshal inverts CipherMarshal for all coordinates below 2^256; under SM2Facts decryption inverts encryption in both "
              "orderings, raw and ASN.1.")
LEVEL_NOTE = ("Relative to C03: ScalarBaseMult / ScalarMult / IsOnCurve are the affine operations of EC/SM2Curve.v with infinity written (0,0). "
              "The round trip is relative to the premise SM2Facts (p, n prime; associativity; ord G = n), visible in the statement; everything else "
              "is premise-free. encoding/asn1, math/big and SM3 are modelled (SM3 by SM3Spec), tied by the differential run; the ASN.1 round trip is "
              "proved for plaintexts below 65000 bytes. DecryptAsn1 accepts trailing bytes after / extra fields inside the SEQUENCE (encoding/asn1 "
              "laxness, outside the property's quantifier; modelled faithfully). Decrypt returns the unauthenticated bytes together with the error "
              "on a C3 mismatch; the projection is 'error'. 'made for a different key': theorem C02_other_key_rejected_or_collision - a ciphertext for [d]G that another key d' decrypts "
              "without error exhibits SM3(x2'||M'||y2') = SM3(x2||M||y2) with [d']C1 <> [d]C1 and different input strings (an explicit collision), not a probability "
              "statement. Round trip: minimal premises p prime, associativity, [k]G finite (the _min theorems); associativity itself is proved (SM2/ECAssoc.v), so the "
              "_noassoc theorems need p prime and [k]G finite only. Layout constants (prefix 04, 32-byte padding, offsets, minimal length) are read from the source "
              "by the translator and compared in C02_source_layout_tied (bodies of unmodelled same-package helpers are accounted at their call sites, so the fingerprint does not depend on whether the padding block stands inline or in a helper); C02_source_pad_sites_tied proves every padding site, read with the source's constants, equal to the model's pad32 on every buffer.")
TRUSTED_BASE = [
    "model coq/SM2/SM2Model.v, coq/SM2/DER.v written by hand from sm2/sm2.go and encoding/asn1; tied by the correspondence run of this check",
    "specification coq/SM2/SM2Spec.v typed from GM/T 0003.4 over EC/SM2Curve.v and SM3/SM3Spec.v; the python oracle reproduces the GM/T 0003.5 encryption example",
    "extraction: ExtrOcamlBasic + ExtrOcamlZBigInt (positive/N/Z -> zarith Big_int_Z and its arithmetic constants); no other Extract directive; OCaml 4.13.1, zarith 1.12, dune; runner ocaml/sm2/main.ml",
    "consumer legs use the existing hook gmtls.VerifECCProcessClientKeyExchange (gmtls/verif_handshake_verif.go) and the public PKCS#7 API; the symmetric layer of PKCS#7 belongs to C17",
    "Go driver harness/cmd/c02 (deterministic counting reader, deadline for hang detection, mutation catalogue, hard-coded invalid-curve points of order 2, 3, 4)",
    "translator targets sm2 (build-ec) and sm2sig (harness/cmd/gen/target_sm2sig.go): curve constants, nonce length, mode values, length limits read from the source into coq/Gen/*.v (theorem C02_source_constants_tied)",
    "python oracle checks/sm2_oracle.py (SM3, affine EC, KDF, encrypt/decrypt per GM/T 0003.4, strict DER of the ciphertext structure) for the predicate",
]
ASSUMPTIONS = [
    "relative to C03: curve methods = affine spec operations with infinity as (0,0)",
    "SM2Facts (premise of the round-trip theorems only): p and n prime, affine addition associative on curve points, G on the curve of order n",
    "public key coordinates in [0,p) for the conformance theorem; private value in [1,n-1] for the round trip",
    "the random reader delivers the bytes of the stream in order (io.ReadFull semantics)",
]
RULE = ("seeded generator (VERIF_SEED): keys {1,2,n-2, random, leading-zero d/X/Y}; plaintext lengths 0..4097: 0..40, and EVERY KDF block boundary k = 1..128 at one of 32k-1, 32k, 32k+1 in one of the four forms (mode 0, 1, ASN.1, other mode), cell chosen by a seed-dependent rotation (thorough: all 3 x 128 x 4 cells); every length 41..200 once (all residues of |M| mod 64; conformance case, form rotating); sparse scalars 2^e, 2^e +- 1, 3*2^e (e in {0,1,63,64,127,128,129,200,254,255}) as nonce k (conformance) and as private key d (round trip); rejection-catalogue bases at |M| = 65, 96, 97, >= 1000 and two/three of {1,19,33,64} rotating with the seed; modes 0,1 and others; raw and ASN.1; "
        "nonce streams {random, k=1, all-ff, k=n-1, short, hard-coded nonces giving leading-zero x1,y1,x2,y2}; every honest ciphertext decrypted back (and with the other mode); "
        "rejection catalogue on base ciphertexts: single-byte changes (incl. the 04 prefix), truncations, extensions, C1 replaced by small-order points of other curves / off-curve / "
        "(0,0) / coordinates >= p / (x+p,y) with and without recomputed C3,C2, wrong key, ASN.1 structural variants; corpus: regression cases D33 (prefix byte) and D34 (x >= p); consumer legs: T = gmtls eccKeyAgreementGM.processClientKeyExchange (48/47/49-byte secrets, altered C3/C2/C1, other key, truncations, length-prefix errors), Q = PKCS#7 enveloped data with SM2 key transport (altered C3/C2/C1, prefix, other key). "
        "Non-trivial: every case; distinct = distinct case text")


def nontrivial(f):
    return True


def classify(f, io):
    return f[0] + ":" + (io[0] if io else "none")


def _expected_encrypt(pub, msg, rho, mode):
    """ciphertext and bytes consumed per GM/T 0003.4 for the stream, 'err', or None (outside the property's domain)"""
    if not o.on_curve(pub):
        return None
    if len(msg) == 0:
        return "err"
    for i in range(len(rho) // 40):
        c = o.encrypt_with_nonce(pub, msg, o.nonce_of(rho[40 * i:40 * i + 40]), 1 if mode == 1 else 0)
        if c is not None:
            return c, 40 * (i + 1)
    return "err"


def predicate(f, io):
    """the property, evaluated on what /repo returned (independent of the Coq model)"""
    if not io or io[0] in ("PANIC", "HANG"):
        return False, "implementation " + (io[0] if io else "gave no result") + (" (Encrypt did not terminate)" if io and io[0] == "HANG" and f[0] in ("E", "EA") else "")
    op = f[0]
    if op in ("E", "EA"):
        pub = (o.zint(f[2]), o.zint(f[3]))
        if op == "E":
            mode, msg, rho = int(f[4]), o.unhex(f[5]), o.unhex(f[6])
        else:
            mode, msg, rho = 0, o.unhex(f[4]), o.unhex(f[5])
        want = _expected_encrypt(pub, msg, rho, mode)
        if want is None:
            return True, ""
        if want == "err":
            return io[0] == "err", "encryption returned a ciphertext for an empty plaintext or an exhausted nonce stream"
        if io[0] != "ok":
            return False, "encryption failed although the stream holds an admissible nonce"
        c, used = want
        if op == "EA":
            c = o.asn1_ciphertext(c)
        if o.unhex(io[1]) != c:
            return False, "ciphertext differs byte-for-byte from GM/T 0003.4 for this key, plaintext and nonce"
        if int(io[2]) != used:
            return False, "bytes consumed from the random reader differ from 40 per attempt"
        return True, ""
    if op in ("D", "DP", "DA"):
        d = o.zint(f[2])
        if not (1 <= d < o.N):
            return True, ""
        if op == "D":
            mode, raw = int(f[3]), o.unhex(f[4])
        elif op == "DP":
            mode, raw = 0, o.unhex(f[3])
        else:
            mode, der = 0, o.unhex(f[3])
            raw = o.asn1_ciphertext_decode(der)
            if raw is None:
                # not the strict DER structure: outside "a valid ciphertext in ASN.1 form".  encoding/asn1 tolerates trailing
                # data and extra fields; the property requires an error only for what the quantifier lists (byte changes,
                # truncations), all of which either break the structure for /repo too or change a component.
                lax = _lax_decode(der)
                if lax is None:
                    return io[0] == "err", "DecryptAsn1 accepted bytes that do not contain the ciphertext structure"
                raw = lax
        m = o.decrypt(d, raw, 1 if mode == 1 else 0)
        if m is None:
            return io[0] == "err", "decryption accepted a ciphertext GM/T 0003.4 rejects (C1 off the curve / altered C2 or C3 / too short / other key)"
        if io[0] != "ok":
            return False, "decryption rejected a ciphertext that GM/T 0003.4 decrypts"
        return o.unhex(io[1]) == m, "decryption returned a plaintext different from the standard's"
    if op == "T":
        # gmtls eccKeyAgreementGM.processClientKeyExchange: a premaster secret only for a ciphertext the standard decrypts to 48 bytes
        d, body = o.zint(f[2]), o.unhex(f[3])
        m = None
        if len(body) >= 2 and (body[0] << 8 | body[1]) == len(body) - 2:
            raw = o.asn1_ciphertext_decode(body[2:])
            if raw is None:
                raw = _lax_decode(body[2:])
            if raw is not None:
                m = o.decrypt(d, raw, 0)
        if m is None or len(m) != 48:
            return io[0] == "err", "the TLS key exchange accepted a ClientKeyExchange whose ciphertext GM/T 0003.4 rejects (decryption error swallowed) or whose secret is not 48 bytes"
        if io[0] != "ok":
            return False, "the TLS key exchange rejected a valid ClientKeyExchange"
        return o.unhex(io[1]) == m, "the TLS key exchange returned a premaster secret different from the decrypted plaintext"
    if op == "Q":
        # PKCS#7 enveloped data: the content comes out iff the SM2-wrapped key decrypts per the standard
        d, mode, ek, content, p7 = o.zint(f[2]), int(f[3]), o.unhex(f[4]), o.unhex(f[5]), o.unhex(f[6])
        if ek not in p7:
            return False, "case inconsistent: wrapped key not inside the envelope"
        key = o.decrypt(d, ek, 1 if mode == 1 else 0)
        if key is None:
            return io[0] == "err", "PKCS#7 DecryptSM2 delivered content although the wrapped key does not decrypt (altered C1/C2/C3 or other key)"
        return io[0] == "ok" and o.unhex(io[1]) == content, "PKCS#7 DecryptSM2 failed or returned other content for a valid envelope"
    if op == "M":
        raw = o.unhex(f[2])
        if len(raw) < 97:
            return io[0] == "err", "CipherMarshal accepted a ciphertext shorter than C1 and C3"
        return io[0] == "ok" and o.unhex(io[1]) == o.asn1_ciphertext(raw), "CipherMarshal is not the DER of SEQUENCE{x, y, hash, cipher}"
    if op == "U":
        der = o.unhex(f[2])
        raw = o.asn1_ciphertext_decode(der)
        if raw is not None:
            return io[0] == "ok" and o.unhex(io[1]) == raw, "CipherUnmarshal does not restore 04 || x(32) || y(32) || hash || cipher"
        return True, ""   # non-strict inputs: decided by the model comparison
    return True, ""


def _lax_decode(der):
    """what a DER reader that ignores trailing data after / extra elements inside the SEQUENCE sees (encoding/asn1
    behaviour, outside the property's quantifier): raw C1C3C2 bytes or None"""
    t = o._der_read(der, 0x30)
    if t is None:
        return None
    x = o._der_read_int(t[0])
    if x is None:
        return None
    y = o._der_read_int(x[1])
    if y is None:
        return None
    h = o._der_read(y[1], 0x04)
    if h is None:
        return None
    c = o._der_read(h[1], 0x04)
    if c is None:
        return None
    if not (0 <= x[0] < (1 << 256) and 0 <= y[0] < (1 << 256)) or len(h[0]) != 32:
        return None
    return b"\x04" + o.i2osp(x[0]) + o.i2osp(y[0]) + h[0] + c[0]
