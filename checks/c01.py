"""C01 - SM2 signatures are complete, sound and match GM/T 0003.2 (sm2/sm2.go)."""
import os, sys
sys.path.insert(0, os.path.dirname(os.path.abspath(__file__)))
import sm2_oracle as o

ID = "C01"
PROPS = "Props/C01.v"
GEN = ["sm2", "sm2sig"]      # curve constants (sm2/p256.go) and default_uid / limits / mode values (sm2/sm2.go)
LEGS = [{"driver": "c01", "runner": ("sm2", "Extract/ExtractSM2.v", "Sm2_model")}]
COQ_TIMEOUT = 5400

TECHNIQUE = ("Coq proof over an executable model of Sm2Sign / Sign / Sm2Verify / Verify / PublicKey.Verify / ZA / randFieldElement "
             "(for all keys, digests, random streams, byte strings); model tied to /repo by differential runs of the extracted model; "
             "the property itself decided on /repo's outputs by an independent plain-python GM/T 0003.2 oracle")
LEVEL_TEXT = ("Theorems in Coq (Props/C01.v): the signing loop returns exactly the GM/T 0003.2 pair for the first admissible nonce of the "
              "reader's stream and consumes 40 bytes per attempt (all d with gcd(1+d,n)=1, all e, all streams); the verifiers accept exactly "
              "the standard's relation (range of r and s, t<>0, R=r), hence reject out-of-range r/s, r+s=0 mod n and any digest not congruent "
              "mod n; PublicKey.Verify accepts a byte string iff it is the strict DER SEQUENCE of two INTEGERs of an accepted (r,s); ZA is the "
              "standard's ZA with 32-byte coordinates and IDs of 8192 bytes or more are refused; every signature of a key in [1,n-2] verifies "
              "(under SM2Facts: p, n prime, associativity, ord G = n); distinct attempts and distinct calls read disjoint stream positions; "
              "a different public key: P accepts (e,r,s) iff [t]P = R - [s]G for a curve point R with x(R) = r-e mod n, so an accepting key [d]G is one of the "
              "at most four listed keys [t^-1](R - [s]G); each theorem also exists with its minimal premises (SM2/SM2GroupMin.v); d = n-1 panics (outside the domain); "
              "associativity of the affine law is PROVED (SM2/ECAssocAbstract.v, ECAssoc.v: 221-leaf case analysis closed by nsatz; theorem C01_add_assoc_proved, premise 'p prime'), "
              "so the _noassoc variants need only: p prime, n prime, [n]G = O, [k]G finite for 0<k<n.")
LEVEL_NOTE = ("Relative to C03: the curve methods ScalarBaseMult / ScalarMult / Add / IsOnCurve are taken to be the affine group operations "
              "of EC/SM2Curve.v with infinity written (0,0) (C03 proves that for the Go curve object). Completeness is relative to the premise "
              "SM2Facts (primality of p and n, associativity of the chord-and-tangent law, order of G), visible in the statement. "
              "math/big, cryptobyte and SM3 are modelled (SM3 by the GM/T 0004 transcription SM3Spec), tied by the differential run. "
              "The retry branches r=0, r+k=n, s=0 cannot be reached through the API with honest hashing: covered by the theorem and by three vm_compute Examples on the "
              "model with crafted digests (Props/C01.v: first nonce sent back, result = the standard's pair for the next nonce). For d = n-1 ModInverse returns nil and "
              "Sm2Sign panics (probe against /repo; model: Panic, theorem C01_sign_invalid_key_panics); the property's domain is d in [1, n-2]. "
              "'never share the same r' is PARTIAL: proved are (a) fresh calls read fresh stream positions, (b) equal r with equal e forces k1 = k2, or k1 + k2 = n, or "
              "abscissae differing by exactly n (C01_distinct_nonces_distinct_x, C01_same_r_nonce_cases_partial); that fresh random bytes make these events unlikely is a "
              "probability statement about the reader and is not proved; the concurrent leg tests it on schedules that happen. The premises of the completeness theorems "
              "are discharged in Props/SM2Premises.v (primality certificates, [n]G = O by computation, associativity proved). If [s]G+[t]P is the point at infinity the code uses x = 0 (the standard is silent). "
              "sm2.Verify(pub, hash, r, s) is the digest-level entry point: it takes the caller's bytes as the integer e without bounding them, so a "
              "33-byte 'hash' equal to e+n is accepted exactly when e is (the relation depends on e mod n only, theorem C01_verify_characterisation); "
              "the property speaks about messages and IDs (Sm2Verify / PublicKey.Verify hash them to 32 bytes), so this is outside it and only recorded here. "
              "Concurrency: the theorems are about one call; that concurrent signers do not influence each other is checked by the concurrent leg of the "
              "driver (op C: 2/8/32 goroutines on their own yielding readers, each signature compared with the pair its own stream prescribes, all r distinct), "
              "a test over schedules that happen, not a proof over all schedules (C20 covers races). "
              "Constants: theorem C01_source_constants_tied compares p, n, a, b, G, BitSize/8+8, default_uid, the ID limit and mode values with Gen/*.v "
              "regenerated from sm2/p256.go and sm2/sm2.go on every run.")
TRUSTED_BASE = [
    "model coq/SM2/SM2Model.v, coq/SM2/DER.v written by hand from sm2/sm2.go and cryptobyte; tied by the correspondence run of this check",
    "specification coq/SM2/SM2Spec.v typed from GM/T 0003.2 over EC/SM2Curve.v (GM/T 0003.5 constants) and SM3/SM3Spec.v (GM/T 0004); validated against the standard's example by the python oracle self-test and the Annex corpus cases",
    "extraction: ExtrOcamlBasic + ExtrOcamlZBigInt (positive/N/Z -> zarith Big_int_Z; Pos/N/Z add, sub, mul, div, modulo, compare, shifts, ...); no other Extract directive; OCaml 4.13.1, zarith 1.12, dune; runner ocaml/sm2/main.ml",
    "Go driver harness/cmd/c01 (deterministic counting reader, case catalogue, concurrent leg with yielding readers, consumer leg); hook /repo/gmtls/verif_sm2consumers_verif.go (exports verifyHandshakeSignature for the two SM2 branches)",
    "translator targets sm2 (build-ec) and sm2sig (harness/cmd/gen/target_sm2sig.go): constants read from the source into coq/Gen/SM2Params.v, SM2SigParams.v",
    "python oracle checks/sm2_oracle.py (SM3, affine EC, sign/verify per GM/T 0003.2, strict DER) for the predicate",
]
ASSUMPTIONS = [
    "relative to C03: curve methods = affine spec operations with infinity as (0,0)",
    "SM2Facts (premise of verify_complete only): p and n prime, affine addition associative on curve points, G on the curve of order n",
    "big.Int arguments are non-negative; public key coordinates below 2^256 where bytes are formed",
    "the random reader delivers the bytes of the stream in order (io.ReadFull semantics); no other reader errors",
]
RULE = ("seeded generator (VERIF_SEED): keys {1,2,n-2,n-3, random, d/X/Y with 1-3 leading zero bytes}; message lengths {0,1,31..33,55,56,63..65,119..129,1000,4096,65535,65536}; "
        "IDs {nil, default, 1, 16, 8191, 8192, 8193 bytes and a seeded spread: 2..15, 17..64, powers of two +-1 up to 4097, 8188..8190, 65..8125}; message lengths additionally 4097 and two seeded values in 4098..65534; nonce streams {random, all-zero, all-ff, k=n-1, short}; for every valid base tuple the rejection catalogue: "
        "bit flips of message/ID/r/s/X/Y, r,s in {0,n,n+r,-r,2^256,...}, r+s=n, other keys, hash variants, DER variants {non-minimal, negative, long-form, indefinite, trailing, "
        "wrong tags, SET, three integers, empty, truncations, byte changes}; the full DER catalogue on four eligible bases rotating with the seed (thorough: all); public keys off the curve must be rejected (predicate: false); consumer leg (op W): every P case through two of the three consumers, rotating (thorough: all three): gmtls verifyHandshakeSignature (SM2 and ECDSA-on-SM2 branches) and x509 CheckSignature; crafted digest-level tuples (H) with special relations between the summands of [s]G + [t]P ([s]G = [t]P: doubling, [s]G = -[t]P: infinity, s or t in {1,2,n-2,n-1}) and sparse s, t, d, k (2^e, 2^e +- 1, 3*2^e); every residue mod 64 of |M| and |ID| in the S and D legs; history leg (op Y): Sign / Verify / Sm3Digest sequences in which one ID buffer, one message buffer and (mode 1) one key object are reused and overwritten in place between the calls, incl. evict-and-return patterns over two keys; each call judged against the standard for the bytes at call time; concurrent leg (op C): 2 / 8 / 32 goroutines released together, each signing 8 / 8 / 4 messages on its own yielding reader, every signature compared with the pair its own stream prescribes and all r required to be pairwise distinct. A case is non-trivial unless both message and id are empty; distinct = distinct case text")


def nontrivial(f):
    return True


def classify(f, io):
    return f[0] + ":" + (" ".join(io[:2]) if io and io[0] == "ok" and f[0] in "VHP" else (io[0] if io else "none"))


def _uid(s):
    u = o.unhex(s)
    return u if u else o.DEFAULT_ID


def _expected_sign(d, pub, uid, msg, rho):
    """(r, s, consumed) the standard prescribes for the stream, 'err', or None when d is outside the property's domain"""
    if not (1 <= d <= o.N - 2):
        return None
    e = o.msg_e(pub, uid, msg)
    if e is None:
        return "err"
    for i in range(len(rho) // 40):
        rs = o.sign_with_nonce(d, e, o.nonce_of(rho[40 * i:40 * i + 40]))
        if rs is not None:
            return rs[0], rs[1], 40 * (i + 1)
    return "err"


def _expect_verify(pub, e, r, s):
    """True/False per GM/T 0003.2 7.1, None when the standard is silent ([s]G + [t]P = O)"""
    if not (1 <= r < o.N and 1 <= s < o.N) or (r + s) % o.N == 0:
        return False
    pt = o.ec_add(o.ec_mul(s, o.G), o.ec_mul((r + s) % o.N, pub))
    if pt is None:
        # [s]G + [t]P = O: no x1 exists, the standard cannot accept; /repo uses x = 0, so only e = r (mod n) is left open
        return False if e % o.N != r else None
    return (e + pt[0]) % o.N == r


def predicate(f, io):
    """the property, evaluated on what /repo returned (independent of the Coq model)"""
    if not io or io[0] in ("PANIC", "HANG"):
        return False, "implementation " + (io[0] if io else "gave no result")
    op = f[0]
    if op == "W":
        # consumers (gmtls verifyHandshakeSignature, x509 CheckSignature): accept iff the strict verifier accepts
        ok, why = predicate(["P", f[1], f[3], f[4], f[5], f[6]], io)
        names = {"s": "gmtls verifyHandshakeSignature/SM2", "e": "gmtls verifyHandshakeSignature/ECDSA-on-SM2", "x": "x509 CheckSignature"}
        return ok, (why.replace("PublicKey.Verify", names.get(f[2], "consumer")) if why else why)
    if op in ("S", "G"):
        d = o.zint(f[2])
        pub = o.ec_mul(d, o.G)
        if op == "S":
            uid, msg, rho = _uid(f[3]), o.unhex(f[4]), o.unhex(f[5])
        else:
            uid, msg, rho = o.DEFAULT_ID, o.unhex(f[3]), o.unhex(f[4])
        want = _expected_sign(d, pub, uid, msg, rho)
        if want is None:
            return True, ""
        if want == "err":
            return (io[0] == "err"), "signing succeeded although the standard cannot produce a signature (ID too long / stream exhausted)"
        if io[0] != "ok":
            return False, "signing failed although the stream holds an admissible nonce"
        r, s, used = want
        if op == "S":
            got = (o.zint(io[1]), o.zint(io[2]), int(io[3]))
            if got[:2] != (r, s):
                return False, "(r,s) differs from the GM/T 0003.2 pair for this key, message, ID and nonce"
            if got[2] != used:
                return False, "bytes consumed from the random reader differ from 40 per attempt"
            if not o.verify(pub, o.msg_e(pub, uid, msg), got[0], got[1]):
                return False, "the signature produced does not verify under the matching key"
        else:
            if o.unhex(io[1]) != o.der_sig(r, s):
                return False, "Sign did not return the strict DER encoding of the GM/T 0003.2 pair"
            if int(io[2]) != used:
                return False, "bytes consumed from the random reader differ from 40 per attempt"
        return True, ""
    if op in ("V", "H", "P"):
        pub = (o.zint(f[2]), o.zint(f[3]))
        # a "public key" that is not a point of the curve (perturbed X / Y, coordinates >= p, (0,0)) is not a key of the
        # standard: GM/T 0003.2 verification presupposes a valid PA, so the property demands rejection
        valid_key = o.on_curve(pub)
        if op == "V":
            r, s = o.zint(f[6]), o.zint(f[7])
            e = o.msg_e(pub, _uid(f[4]), o.unhex(f[5]))
            want = False if (e is None or not valid_key) else _expect_verify(pub, e, r, s)
        elif op == "H":
            r, s = o.zint(f[5]), o.zint(f[6])
            want = _expect_verify(pub, o.os2ip(o.unhex(f[4])), r, s) if valid_key else False
        else:
            rs = o.der_sig_decode(o.unhex(f[5]))
            if rs is None or not valid_key:
                want = False
            else:
                want = _expect_verify(pub, o.msg_e(pub, o.DEFAULT_ID, o.unhex(f[4])), rs[0], rs[1])
        if io[0] != "ok" or len(io) < 2:
            return False, "verifier returned no boolean"
        got = io[1] == "1"
        if want is None:
            return True, ""
        if got and not want:
            return False, "verification accepted what GM/T 0003.2 rejects (" + {"V": "Sm2Verify", "H": "Verify", "P": "PublicKey.Verify"}[op] + ")"
        if want and not got:
            return False, "verification rejected a signature GM/T 0003.2 accepts"
        return True, ""
    if op == "C":
        return _predicate_concurrent(f, io)
    if op == "Y":
        return _predicate_history(f, io)
    if op == "D":
        pub = (o.zint(f[2]), o.zint(f[3]))
        e = o.msg_e(pub, _uid(f[4]), o.unhex(f[5]))
        if e is None:
            return io[0] == "err", "Sm3Digest accepted an ID of 8192 bytes or more"
        if io[0] != "ok":
            return False, "Sm3Digest failed"
        return o.os2ip(o.unhex(io[1])) == e, "Sm3Digest is not SM3(ZA || M) as an integer"
    return True, ""


def _hexlist(s):
    return [] if s in ("-", "") else [b"" if x == "." else bytes.fromhex(x) for x in s.split(",")]


def _predicate_concurrent(f, io):
    """concurrent leg: every goroutine's signatures are the GM/T 0003.2 pairs for ITS OWN nonce stream (40 bytes per
    attempt, in order), whatever the interleaving; and signatures made from different nonces never share r"""
    d, g, m = o.zint(f[2]), int(f[3]), int(f[4])
    streams, msgs = _hexlist(f[5]), _hexlist(f[6])
    if io[0] != "ok" or len(io) != 1 + g:
        return False, "concurrent signing failed"
    pub = o.ec_mul(d, o.G)
    seen = {}
    for j in range(g):
        if io[1 + j] == "err":
            return False, "goroutine %d: signing failed although its stream holds admissible nonces" % j
        sigs, _, used = io[1 + j].partition("/")
        got = [tuple(o.zint(x) for x in p.split(".")) for p in sigs.split(",")]
        if len(got) != m:
            return False, "goroutine %d returned %d signatures instead of %d" % (j, len(got), m)
        pos = 0
        for i in range(m):
            e = o.msg_e(pub, o.DEFAULT_ID, msgs[j * m + i])
            want = None
            while want is None and pos + 40 <= len(streams[j]):
                chunk = streams[j][pos:pos + 40]
                want = o.sign_with_nonce(d, e, o.nonce_of(chunk))
                pos += 40
            if want is None:
                return False, "goroutine %d: stream exhausted" % j
            r, s = got[i]
            other = seen.get(r)
            if other is not None and other != chunk:
                return False, ("two signatures made with different nonces share r (goroutine %d, signature %d): "
                               "the private key is recoverable" % (j, i))
            seen[r] = chunk
            if (r, s) != want:
                return False, ("goroutine %d, signature %d: (r,s) is not the GM/T 0003.2 pair for this goroutine's own "
                               "nonce stream (concurrent signers influence each other)" % (j, i))
        if int(used) != pos:
            return False, "goroutine %d: bytes consumed from its reader differ from 40 per attempt" % j
    return True, ""


def _predicate_history(f, io):
    """history on reused buffers: every call must give the standard's result for the bytes that were in the buffers at call
    time, whatever earlier calls saw in the same buffers / key objects"""
    ds = [o.zint(f[3]), o.zint(f[4])]
    pubs = [o.ec_mul(d, o.G) for d in ds]
    steps = f[5].split(",")
    if io[0] != "ok" or len(io) < 2:
        return False, "history failed"
    outs = io[1].split(",")
    if len(outs) != len(steps):
        return False, "history returned %d results for %d steps" % (len(outs), len(steps))
    sigs = []
    for i, (st, got) in enumerate(zip(steps, outs)):
        kind, k, uid, msg, extra = st.split(".")
        k = int(k)
        uid, msg = _uid(uid), o.unhex(msg)
        sig = None
        if kind == "s":
            want = _expected_sign(ds[k], pubs[k], uid, msg, o.unhex(extra))
            if want == "err":
                if got != "err":
                    return False, "history step %d: signing succeeded where the standard cannot sign" % i
            elif want is not None:
                if got == "err":
                    return False, "history step %d: signing failed" % i
                r, s = (o.zint(x) for x in got.split("."))
                sig = (r, s)
                if (r, s) != want[:2]:
                    return False, ("history step %d: (r,s) is not the GM/T 0003.2 pair for the ID and message in the buffers at call time "
                                   "(an earlier call on the same buffers / key object leaks into this one)" % i)
        elif kind == "v":
            j = int(extra)
            ref = sigs[j] if 0 <= j < len(sigs) else None
            if ref is None:
                want = False
            else:
                want = _expect_verify(pubs[k], o.msg_e(pubs[k], uid, msg), ref[0], ref[1])
            if want is not None and (got == "1") != want:
                return False, ("history step %d: Sm2Verify %s a signature against the standard for the ID and message in the buffers at "
                               "call time (stale state from an earlier call)" % (i, "accepted" if got == "1" else "rejected"))
        else:
            e = o.msg_e(pubs[k], uid, msg)
            if e is None:
                if got != "err":
                    return False, "history step %d: Sm3Digest accepted a too long ID" % i
            elif got == "err" or o.os2ip(o.unhex(got)) != e:
                return False, "history step %d: Sm3Digest is not SM3(ZA || M) for the bytes in the buffers at call time" % i
        sigs.append(sig)
    return True, ""
