"""C18 - decoders of untrusted bytes fail closed: an error, never a panic or endless loop."""
ID = "C18"
PROPS = "Props/C18.v"
COQ_TIMEOUT = 5400   # Coq build of this property incl. rebuilt dependencies; generous: on a loaded machine a rebuild after an upstream edit took > 1500 s
GEN = ["dec", "asn1schemas"]
LEGS = [{"driver": "c18", "runner": ("dec", "Extract/ExtractDec.v", "Dec_model"), "timeout": 3000}]

TECHNIQUE = ("Coq proofs of totality (never Panic, never Hang) and of a linear step bound over byte-level models with checked "
             "accesses of the hand-written decoders; models tied to /repo by differential runs of the extracted models; every "
             "decoder of the property (incl. the encoding/asn1 wrappers and the TLS message parsers) run on a mutation corpus "
             "under recover() with time and allocation limits")
LEVEL_TEXT = ("Theorems in Coq (Props/C18.v) for every byte string: the models of x509.ber2der/readObject (total, recursion within "
              "maxBERDepth+2 frames, at most |b|+1 readObject calls), x509.unpad/pad (total, accepts exactly valid pads, unpad(pad m)=m), "
              "the byte-level gates of sm2.Decrypt (both orderings), CipherMarshal/CipherUnmarshal, Decompress, the post-ASN.1 logic of "
              "ParsePKCS8EcryptedPrivateKey and ParseSm2PrivateKey, ReadPublicKeyFromHex/ReadPrivateKeyFromHex, sessionState.unmarshal, "
              "decryptTicket (MAC/CTR abstract), certificateRequestMsgGM.unmarshal and the three GM key-exchange parsers never index or "
              "slice out of range and always terminate; so does a model of the DER reader of encoding/asn1 (parseTagAndLength, parseField ... "
              "parseSequenceOf for big.Int, []byte, BitString, OID, RawValue, int, bool, time.Time, the empty interface, slices and structs of "
              "these with optional/explicit/tag/set/default parameters) for every schema, with at most 2*|schema| + W(schema)*|input| "
              "tag-and-length reads (W = 0 without slices), instantiated for the 75 Go types gmsm hands to asn1.Unmarshal, whose schemas the "
              "translator reads from the struct declarations and asn1 tags (C18_gmsm_asn1_decoders_total), and end to end for "
              "SignDataToSignDigit and CipherUnmarshal. The extracted models are run on the same mutated inputs as /repo and every "
              "projected result (value or error class) compared.")
LEVEL_NOTE = ("PROVED for all byte strings: only the hand-written byte-level decoders listed above, as modelled (models written by hand, "
              "tied by the differential run). The encoding/asn1 reader model is compared with the real package value for value (decoded fields and rest bytes) on about 10k mutants of "
              "signatures, SM2 ciphertexts, the outer certificate split and two structures with optional / explicit / implicit fields, and by accept / reject and rest bytes "
              "with asn1.Unmarshal into the REAL Go types of gmsm (hooks VerifAsn1Unmarshal) on about 23k cases per quick run (every element of every corpus object offered to every type, "
              "mutants of what is accepted, crafted time strings, ANY strings, booleans, integers, slice element tags); time.Parse/Format and utf8.Valid enter that model as acceptance "
              "predicates written from their source. That the gmsm code AROUND these Unmarshal calls (what it does with the decoded structs) cannot panic is still only checked by the corpus. NOT PROVED, checked by the corpus only (about 100k mutated inputs per quick run under "
              "recover(), 2 s / 64 MiB limits): everything that is a thin wrapper over encoding/asn1, encoding/pem, math/big, "
              "crypto/* - ParseCertificate(s), ParseCertificateRequest, ParseCRL/ParseDERCRL, ParsePKCS7 (+Verify/Decrypt/DecryptSM2), "
              "PKCS#8/PEM readers, ParseSm2PublicKey, pkcs12.Decode/DecodeAll/ToPEM, DecryptAsn1, SignDataToSignDigit, PublicKey.Verify, "
              "sm4.ReadKeyFromPem - and, in this check, the stdlib-derived TLS message parsers of gmtls/handshake_messages.go (their totality is proved in the C15 check, message parsers section; here they get the corpus and the structure-aware mutants). The EC arithmetic "
              "behind the sm2 gates (IsOnCurve, ScalarMult, ModSqrt) and the stdlib are modelled as returning a value or an error. "
              "Password-stretching iteration counts are the format's own parameter and are excluded (cases with an iteration count "
              "above 10^6 are classified 'excluded' when slow). Type assertions on caller-supplied key / certificate "
              "objects in the PKCS#7 API (repaired in 69f785e) are not byte strings: they are exercised by class K of the C17 check.")
TRUSTED_BASE = [
    "models coq/Dec/BerModel.v, coq/Dec/ByteModels.v, coq/Dec/Asn1Model.v (encoding/asn1 of Go 1.23, from its source) written by hand from x509/ber.go, x509/pkcs7.go, x509/pkcs8.go, x509/utils.go, sm2/sm2.go, sm2/utils.go, gmtls/ticket.go, gmtls/gm_handshake_messages.go, gmtls/gm_key_agreement.go; tied by the correspondence run of this check",
    "checked-access layer coq/Dec/Access.v: slices modelled with cap = len",
    "translator target 'dec' (maxBERDepth, sm2 P and N, ticketKeyNameLen) -> coq/Gen/DecConsts.v, and the two width limits of readObject's long-form length (numberOfBytes > 4, numberOfBytes == 4) -> coq/Gen/DecBerLen.v; target 'asn1schemas' (struct declarations and asn1 tags of x509, pkcs12, sm2 and GOROOT crypto/x509/pkix -> coq/Gen/Asn1Schemas.v; its root table of Unmarshal destinations is a list in the target; x509.nameConstraints / generalSubtree (ia5 string fields) are excluded from the model and corpus-checked: certificates with permitted / excluded / critical / non-critical name constraints of several subtree kinds and mutants inside that extension value are in the corpus)",
    "extraction: ExtrOcamlBasic only; OCaml 4.13.1 + dune; runner ocaml/dec/main.ml and ocaml/conv.ml.tmpl",
    "Go driver harness/cmd/c18 (mutation generator, DER walker, recover()/deadline wrapper hx.Guard, second timed run + runtime.MemStats for expensive calls); hook files x509/verif_decoders_verif.go, gmtls/verif_decoders_verif.go, {x509,pkcs12,sm2}/verif_asn1schemas_verif.go",
    "encoding/asn1, encoding/pem, encoding/hex, math/big, crypto/* of Go 1.23: 'returns a value or an error' (exercised by the corpus, not verified)",
]
ASSUMPTIONS = [
    "byte strings are lists of N below 256 (bytes_ok) where the statement says so",
    "Go int is 64 bit and slices are shorter than 2^62 bytes (then offset+length of readObject does not wrap: C18_ber_content_end_no_wrap, from the width limit read from the source)",
    "block cipher / HMAC / CTR / elliptic-curve operations behind the gates return without panicking when their documented preconditions (IV length, whole blocks) hold; the preconditions themselves are part of the models (Panic otherwise)",
    "cost of ber2der is counted in calls of readObject (each call does work bounded by the bytes it consumes plus the copies made by EncodeTo)",
]
RULE = ("corpus = valid encodings made by the library itself (SM2 and RSA certificates, CSR, CRL, PKCS#7 enveloped (DES-CBC and AES-GCM, SM2 both "
        "orderings and RSA), signed and degenerate, PKCS#8 with and without password in DER and PEM, public keys, hex keys, PKCS#12, SM2 "
        "ciphertexts (raw both orderings, ASN.1), compressed points, signatures, SM4 key PEM, all handshake message types, session state, "
        "tickets, GM key-exchange bodies); from each: every truncation, every byte replaced by {00,01,7f,80,ff,b^1,b^80}, every TLV length "
        "rewritten to {0,len-1,len+1,0x80,0x84ffffffff}, long-form lengths of every width (1..10, 126, 127 length octets) with values around each width's limits (all ff, 7f ff.., 80 00.., 2^31-1..2^31+1, 2^32-1..2^32+1, 2^63-1-k for k <= 40, 2^63, 2^64-1-k) on primitive and constructed tags, alone, after a sibling and nested in definite / indefinite constructed values, through the ber2der model and through ber2der / ParsePKCS7, every TLV tag swapped among 11 universal tags (quick tier: TLV rewrites all, the "
        "rest sampled at a fixed stride per base; thorough: all), empty input, random strings; handshake messages additionally get structure-aware mutants (harness/cmd/c18/tlstree.go: the message is parsed into its tree of length-prefixed vectors; the content of each vector becomes empty / 1 / 2 bytes / one shorter / one longer, list elements and extensions move first / last / alone, are duplicated or dropped, extensions of every known and of unknown types are inserted with tiny bodies, every enclosing length recomputed); BER nesting 1..200 through the model and "
        "1000/10000 (definite and indefinite), 20000 siblings, the repaired overlap family through the implementation; certificate / CSR / CRL shapes with every extension parseCertificate knows (hand-made values for all its branches, DSA / RSA keys assembled by hand, CSR with extension request, CRL with entry extensions) and every extension value mutated on its own inside a correctly encoded, signed certificate (harness/cmd/c18/certshapes.go); cold start (op COLD, harness/cmd/c18/cold.go): one call of each decoder family on a valid, a damaged and a halved input, and the compressed-point forms, each in a fresh re-executed child process that has built no key and no corpus before; size ladders per decoder and shape for the relative cost (op LAD, harness/cmd/c18/ladder.go: growth exponent of CPU time and allocation above 1.7 is a failure; quick: six ladders to 100 KB rotating with the seed, thorough: 22 to 3 MB); op A1G: every element at any depth of every DER object of the corpus is offered to each of the 75 Go root types, accepted ones (largest first) are bases for the same mutations, plus crafted families (harness/cmd/c18/asn1schemas.go). A case is "
        "non-trivial when its input is non-empty; distinct = distinct case text")

MODELLED = {"BER", "UNP", "PAD", "SDG", "CUM", "CMA", "DCP", "P8E", "SKP", "HPU", "HPR", "SSU", "CRQ", "KXC", "KXS", "KXE",
            "A1S", "A1C", "A1X", "A1T1", "A1T2", "A1G"}
GATED = {"SDG", "DCP", "P8E", "KXC", "KXS", "KXE"}   # the model decides only the gate: err | pass


def _input(f):
    if f[0] == "D":
        return f[3]
    if f[0] in ("UNP", "PAD", "SDG", "A1G", "COLD"):
        return f[3]
    return f[2]


def nontrivial(f):
    return _input(f) != "-"


def classify(f, io):
    name = f[0] if f[0] != "D" else "D:" + f[2].split(":")[0]
    return name + ":" + (io[0] if io else "none")


def _excluded(f):
    # password stretching: the iteration count is the format's own parameter (P8E lines carry the flag)
    return f[0] == "P8E" and len(f) > 11 and f[11] == "1"


def predicate(f, io):
    """the property on what /repo did: a value or an error, within the time and memory limits"""
    if not io:
        return False, "no observation"
    if io[0] in ("ok", "err"):
        return True, ""
    if io[0] in ("SLOW", "HANG") and _excluded(f):
        return True, ""
    if io[0] == "PANIC":
        if f[0] == "COLD":
            return False, "decoder %s panicked as the first operation of a fresh process (%s)" % (f[2], " ".join(io[1:])[:200])
        return False, "decoder panicked"
    if io[0] == "HANG":
        return False, "decoder did not return within 10 s"
    if io[0] == "SLOW":
        return False, "decoder took " + " ".join(io[1:]) + " on an input of %d bytes" % (len(_input(f)) // 2)
    if io[0] == "COLDDIFF":
        return False, "decoder %s answers differently as the first operation of a fresh process: %s" % (f[2], " ".join(io[1:]))
    if io[0] == "SUPERLINEAR":
        return False, "decoder cost grows faster than its input (size ladder %s): %s" % (f[2], " ".join(io[1:]))
    if io[0] == "ALLOC":
        return False, "decoder allocated " + " ".join(io[1:]) + " for an input of %d bytes" % (len(_input(f)) // 2)
    return False, "unexpected driver result " + " ".join(io)


def same(f, io, mo):
    """projected observables: ok/err class and the decoded value where the model produces it"""
    if io[0] not in ("ok", "err"):
        # panic / hang / slow: the predicate reports it; the model must then not claim a clean result silently
        return mo[0] in ("PANIC", "HANG")
    if f[0] in GATED:
        if mo[0] == "err":
            return io[0] == "err"
        if mo[0] == "pass":
            if f[0] == "DCP" and io[0] == "ok":
                return io[1:] == mo[1:]
            return True
        return False
    return io == mo
