"""C05 - SM4 block encryption is the GM/T 0002 permutation and decryption is its inverse (sm4/sm4.go)."""
ID = "C05"
PROPS = "Props/C05.v"
COQ_TIMEOUT = 5400   # Coq build of this property incl. rebuilt dependencies; generous: on a loaded machine a rebuild after an upstream edit took > 1500 s
GEN = ["sm4tables", "sm4consts", "sm4code"]
LEGS = [{"driver": "c05", "runner": ("sm4", "Extract/ExtractSM4.v", "Sm4_model")}]

TECHNIQUE = ("Coq proof that a function-by-function model of sm4.go over the tables regenerated from the source equals a "
             "transcription of GM/T 0002-2012 for all keys, blocks and call histories; cryptBlock and generateSubKeys are regenerated "
             "from the source text by a partial evaluator and proved equal to the model for all inputs; the rest of the model is tied to "
             "/repo by differential runs of the extracted model, /repo additionally checked against an independent pure-python SM4")
LEVEL_TEXT = ("Theorems in Coq (Props/C05.v): the S-box, FK, CK and the four 256-entry T-tables read from sm4.go by the translator equal "
              "the standard's S-box (a permutation), constants, ck formula and L(Sbox(b)<<8k) (complete sweeps); the T-table round equals "
              "T = L.tau for every word; the unrolled 8x4 loops of cryptBlock, generateSubKeys, NewCipher, Encrypt, Decrypt equal the "
              "standard's key schedule / 32 rounds / reverse transform for all 16-byte keys and blocks; decryption inverts encryption and "
              "conversely (Feistel argument for any round function and any round keys); any history of Encrypt/Decrypt calls on one object "
              "returns the specification's value for each call; dst/src in one memory with any overlap; NewCipher errs exactly when "
              "len(key) != 16; the Gallina code of cryptBlock (both directions) and generateSubKeys that the translator regenerates from sm4.go "
              "(Gen/SM4Code.v) equals the model for all inputs (C05_generated_code_is_model), so for these two functions model = source is a "
              "theorem; NewCipher, the Encrypt/Decrypt wrappers, the scratch handling and aliasing remain hand-modelled and tied by the "
              "differential run. The specification is validated by the standard's vector (in Coq) and the 1,000,000-fold vector (thorough, "
              "extracted model and /repo).")
LEVEL_NOTE = ("Trusted: Coq kernel incl. vm_compute, the translator reading the tables (a wrong read would break the table theorems), "
              "extraction (ExtrOcamlBasic only), the partial evaluator that regenerates cryptBlock / generateSubKeys (harness/cmd/gen "
              "target_sm2limbs.go + target_sm4code.go) and its N semantics of Go's uint32/uint8 operations, the hand-written model of "
              "NewCipher, the Encrypt/Decrypt wrappers, scratch handling and aliasing (tied by the differential run on every generated case), the transcription of GM/T 0002 in SM4Spec.v (tied to the standard by its two published vectors and to "
              "an independent python SM4 by the predicate). Buffers shorter than 16 bytes and concurrent use (C20) are outside this check.")
TRUSTED_BASE = [
    "specification coq/SM4/SM4Spec.v transcribed by hand from GM/T 0002-2012; validated by Annex A.1 (Example, vm_compute) and A.2 (1,000,000-fold, thorough tier, extracted)",
    "model coq/SM4/SM4Model.v written by hand from sm4/sm4.go; cryptBlock and generateSubKeys tied to the source by theorem (SM4/SM4CodeTie.v over Gen/SM4Code.v), NewCipher / Encrypt / Decrypt wrappers / scratch / aliasing by the correspondence run of this check",
    "partial evaluator harness/cmd/gen target sm4code (target_sm2limbs.go + target_sm4code.go): straight-line Gallina over N from the Go AST (loops unrolled, pure helpers inlined, uint32 wrap as mod 2^32, shifts as * and / by powers of two, uint8 as mod 256)",
    "translator harness/cmd/gen targets sm4tables (fk, ck, sbox, sbox0..3, BlockSize) -> coq/Gen/SM4Tables.v and sm4consts (integer literals per function, package-level variables; used for rl / l0 / p / NewCipher, whose constants are pinned, while cryptBlock and generateSubKeys carry no literal fingerprint because they are tied semantically) -> coq/Gen/SM4Consts.v",
    "extraction: ExtrOcamlBasic only; nat/positive/N stay inductive; OCaml 4.13.1 + dune; runner ocaml/sm4/main.ml and ocaml/conv.ml.tmpl",
    "Go driver harness/cmd/c05; independent oracle: the pure-python SM4 in checks/c05.py",
]
ASSUMPTIONS = [
    "Go uint32/uint8 arithmetic is modelled by N with explicit masks; slices by lists (index past the end = Panic, copy = min of the lengths)",
    "theorems quantify over keys and blocks of exactly 16 bytes with byte values < 256, and dst buffers of 16 bytes (the aliasing theorem: any memory holding both)",
    "sequential use of one object (concurrent use is C20)",
]
RULE = ("seeded generator (VERIF_SEED): the standard's vector; all 128 single-bit keys and blocks; all-zero/all-one key x block; every byte value "
        "at every one of the 16 block positions (256 x 16 x enc/dec; positions 4..15 sweep every S-box lane of the first round) and a fifth of the values through each key-schedule lane; random and "
        "special (single bit set/cleared, repeated byte) keys and blocks; histories of 1..24 (thorough 40) interleaved Encrypt/Decrypt calls on one "
        "object with repeated and fed-back blocks; the same with the caller's key buffer overwritten in place after NewCipher returned (zeroed, one bit "
        "flipped, replaced) and one src / one dst array reused for every call; dst==src, disjoint and partially overlapping windows of one backing array; key lengths 0..64; "
        "n-fold in-place encryption (quick 2000, thorough 1,000,000 = Annex A.2). A case is non-trivial unless it is a key-length case; "
        "distinct = distinct case text")

# ---- an independent SM4 (GM/T 0002-2012), python stdlib only ---------------------------------------------
_S = bytes.fromhex(
    "d690e9fecce13db716b614c228fb2c052b679a762abe04c3aa441326498606999c4250f491ef987a33540b43edcfac62"
    "e4b31ca9c908e89580df94fa758f3fa64707a7fcf37317ba83593c19e6854fa8686b81b27164da8bf8eb0f4b70569d35"
    "1e240e5e6358d1a225227c3b01217887d40046579fd327524c3602e7a0c4c89eeabf8ad240c738b5a3f7f2cef96115a1"
    "e0ae5da49b341a55ad933230f58cb1e31df6e22e8266ca60c02923ab0d534e6fd5db3745defd8e2f03ff6a726d6c5b51"
    "8d1baf92bbddbc7f11d95c411f105ad80ac13188a5cd7bbd2d74d012b8e5b4b08969974a0c96777e65b9f109c56ec684"
    "18f07dec3adc4d2079ee5f3ed7cb3948")
_FK = (0xa3b1bac6, 0x56aa3350, 0x677d9197, 0xb27022dc)
_CK = [sum((((4 * i + j) * 7) % 256) << (24 - 8 * j) for j in range(4)) for i in range(32)]


def _rotl(x, k):
    return ((x << k) | (x >> (32 - k))) & 0xffffffff


def _tau(a):
    return (_S[a >> 24] << 24) | (_S[(a >> 16) & 255] << 16) | (_S[(a >> 8) & 255] << 8) | _S[a & 255]


def _T(a):
    b = _tau(a)
    return b ^ _rotl(b, 2) ^ _rotl(b, 10) ^ _rotl(b, 18) ^ _rotl(b, 24)


def _T2(a):
    b = _tau(a)
    return b ^ _rotl(b, 13) ^ _rotl(b, 23)


_rk_cache = {}


def _round_keys(key):
    rk = _rk_cache.get(key)
    if rk is None:
        k = [int.from_bytes(key[4 * i:4 * i + 4], "big") ^ _FK[i] for i in range(4)]
        rk = []
        for i in range(32):
            k.append(k[i] ^ _T2(k[i + 1] ^ k[i + 2] ^ k[i + 3] ^ _CK[i]))
            rk.append(k[i + 4])
        if len(_rk_cache) < 4096:
            _rk_cache[key] = rk
    return rk


def sm4_block(key, blk, decrypt=False):
    rk = _round_keys(key)
    if decrypt:
        rk = rk[::-1]
    x = [int.from_bytes(blk[4 * i:4 * i + 4], "big") for i in range(4)]
    for i in range(32):
        x.append(x[i] ^ _T(x[i + 1] ^ x[i + 2] ^ x[i + 3] ^ rk[i]))
    return b"".join(v.to_bytes(4, "big") for v in (x[35], x[34], x[33], x[32]))


assert sm4_block(bytes.fromhex("0123456789abcdeffedcba9876543210"), bytes.fromhex("0123456789abcdeffedcba9876543210")).hex() \
    == "681edf34d206965e86b3e94f536e4246"

A2_RESULT = "595298c7c6fd271f0402f804c33d3f66"   # GM/T 0002 Annex A.2, 1,000,000 encryptions
_STD = "0123456789abcdeffedcba9876543210"


def _unhex(s):
    return b"" if s in ("-", ".", "") else bytes.fromhex(s)


def nontrivial(f):
    return f[0] != "K"


def classify(f, io):
    return f[0] + ":" + (io[0] if io else "none")


def predicate(f, io):
    """the property, evaluated on what /repo returned, against the python SM4 (independent of the Coq model)"""
    if not io or io[0] in ("PANIC", "HANG"):
        return False, "implementation " + (io[0] if io else "gave no result")
    op = f[0]
    if op == "K":
        n = len(_unhex(f[2]))
        if n == 16:
            return (io == ["ok", "16"]), "NewCipher rejected a 16-byte key or BlockSize() != 16"
        return (io == ["err"]), "NewCipher accepted a key of %d bytes" % n
    if io[0] != "ok" or len(io) < 2:
        return False, "error on a 16-byte key"
    key = _unhex(f[2])
    if op in ("E", "D"):
        blk = _unhex(f[3])
        want = sm4_block(key, blk, op == "D")
        if _unhex(io[1]) != want:
            return False, "%s differs from GM/T 0002 SM4" % ("ciphertext" if op == "E" else "decryption")
        # decryption inverts encryption (on the value /repo returned)
        if sm4_block(key, _unhex(io[1]), op == "E") != blk:
            return False, "inverse direction does not return the original block"
        return True, ""
    if op == "H":
        ops = f[3].split(",")
        outs = io[1].split(",")
        if len(outs) != len(ops):
            return False, "history: wrong number of results"
        for o, got in zip(ops, outs):
            if _unhex(got) != sm4_block(key, _unhex(o[1:]), o[0] == "d"):
                return False, "result depends on the blocks the object processed before (or is not SM4)"
        return True, ""
    if op == "N":
        ops = f[4].split(",")
        outs = io[1].split(",")
        if len(outs) != len(ops) or len(io) != 3:
            return False, "history: wrong number of results"
        for o, got in zip(ops, outs):
            if _unhex(got) != sm4_block(key, _unhex(o[1:]), o[0] == "d"):
                return False, "after the caller overwrote its key buffer the cipher object no longer computes SM4 under the key it was created with"
        if io[2] != f[3]:
            return False, "the cipher object wrote to the caller's key buffer"
        return True, ""
    if op == "A":
        mem = _unhex(f[4])
        doff, soff = int(f[5]), int(f[6])
        want = mem[:doff] + sm4_block(key, mem[soff:soff + 16], f[3] == "d") + mem[doff + 16:]
        if _unhex(io[1]) != want:
            return False, "aliased buffers: dst is not SM4(src) or bytes outside dst changed"
        return True, ""
    if op == "M":
        n = int(f[4])
        if n <= 5000:
            b = _unhex(f[3])
            for _ in range(n):
                b = sm4_block(key, b)
            if _unhex(io[1]) != b:
                return False, "iterated in-place encryption differs from SM4"
        if n == 1000000 and f[2] == _STD and f[3] == _STD and io[1] != A2_RESULT:
            return False, "1,000,000-fold encryption differs from GM/T 0002 Annex A.2"
        return True, ""
    return True, ""
