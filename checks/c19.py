"""C19 - streaming PKCS#7 padding is independent of chunking (sm4/padding)."""
ID = "C19"
PROPS = "Props/C19.v"
COQ_TIMEOUT = 5400   # Coq build of this property incl. rebuilt dependencies; generous: on a loaded machine a rebuild after an upstream edit took > 1500 s
LEGS = [{"driver": "c19", "runner": ("pad", "Extract/ExtractPad.v", "Pad_model")}]

TECHNIQUE = "Coq proof over an executable model of sm4/padding (reader/writer/stream helpers) for all data, schedules and chunkings; model tied to /repo by differential runs of the extracted model"
LEVEL_TEXT = ("Theorems in Coq (Props/C19.v) over a function-by-function model of PKCS7PaddingReader, PKCS7PaddingWriter, "
              "P7BlockEnc and P7BlockDecrypt: for every data, block size, source schedule (1-byte, short, zero-byte reads, EOF with data) "
              "and caller chunking the output is data++pad / the unpadded data, errors exactly on invalid pads, never a panic or hang. "
              "The model is run (extracted to OCaml) on the same scripted sources and chunkings as the real package and every delivered byte compared.")
LEVEL_NOTE = ("Trusted: Coq kernel, extraction (ExtrOcamlBasic directives only), the Go driver's scripted io.Reader being the twin of "
              "PadModel.src_read, generator coverage. cipher.BlockMode is abstract in the theorems (state machine, block-aligned, "
              "dec after enc = id) and instantiated without premise for CBC over the GM/T 0002 specification of SM4 (C19_stream_roundtrip_sm4_cbc); checked with a toy chaining mode against the model and with real SM4-CBC against the stdlib oracle. "
              "Source errors other than io.EOF and failing sinks are outside the model.")
TRUSTED_BASE = [
    "model coq/Pad/PadModel.v written by hand from sm4/padding/*.go; tied by the correspondence run of this check",
    "extraction: ExtrOcamlBasic only (Extract Inductive bool, option, unit, list, prod, sumbool, sumor; Extract Inlined Constant andb, orb); nat/positive/N stay inductive",
    "OCaml 4.13.1 + dune; runner ocaml/pad/main.ml and ocaml/conv.ml.tmpl (hex and int conversions)",
    "Go driver harness/cmd/c19 (scripted io.Reader, toy BlockMode twin of PadModel.toy_enc/toy_dec)",
]
ASSUMPTIONS = [
    "io.Reader sources behave as PadModel.src_read: each Read returns at most the requested bytes, io.EOF alone or with the last bytes; no other errors",
    "the sink is a bytes.Buffer (writes never fail)",
    "BlockMode abstract in the theorems: length preserving, block aligned, decrypt(encrypt(s)) = s over the whole stream",
    "block sizes 1..255 (the property names 8 and 16); stream helpers additionally need the block size to divide 1024",
]
RULE = ("seeded generator (VERIF_SEED): data lengths biased to 0,1,bs-1,bs,bs+1,2bs..,1023..1025,2047..2049 and random <= 5000; source schedules "
        "{full, all 1-byte, EOF-with-data, random mixes incl. zero-byte answers}; caller buffers 1..4096 in five styles; writer chunkings 1..8192 in five "
        "styles incl. empty writes, plus streams of 8-32 KiB written in single writes of 4448..8192 bytes; SM4-CBC round trips at lengths 0,1,15,16,17,31,32,1024 and random; invalid pads: each pad byte corrupted, pad value 0 / > bs, ragged, short, empty. A case is non-trivial when "
        "its data or stream is non-empty; distinct = distinct case text")


def nontrivial(f):
    if f[0] == "R":
        return f[3] != "-"
    if f[0] == "W":
        return f[3] != "-"
    return f[5] != "-" if f[0] in ("E", "D") else f[4] != "-"


def classify(f, io):
    return f[0] + ":" + (io[0] if io else "none")


def _unhex(s):
    return b"" if s in ("-", ".", "") else bytes.fromhex(s)


def _pad(data, bs):
    k = bs - len(data) % bs
    return data + bytes([k % 256]) * k


def predicate(f, io):
    """the property, evaluated on what /repo returned (independent of the Coq model)"""
    if not io or io[0] in ("PANIC", "HANG"):
        return False, "implementation " + (io[0] if io else "gave no result")
    op = f[0]
    if op == "R":
        bs, data = int(f[2]), _unhex(f[3])
        bufs = [int(x) for x in f[5].split(",")] if f[5] != "-" else []
        if io[0] != "ok":
            return False, "reader returned an error on a well-behaved source"
        out, eof = _unhex(io[1]), io[2] == "1"
        want = _pad(data, bs)
        if not want.startswith(out):
            return False, "reader output is not a prefix of data followed by one PKCS#7 pad"
        if eof and out != want:
            return False, "reader reported EOF before delivering data+pad"
        if len(bufs) > len(want) and not (eof and out == want):
            return False, "reader did not finish although the caller kept reading"
        if out != want[:sum(bufs)]:
            return False, "reader delivered fewer bytes than requested although more were available"
        return True, ""
    if op == "W":
        bs = int(f[2])
        s = b"".join(_unhex(c) for c in (f[3].split(",") if f[3] != "-" else []))
        valid = None
        if len(s) >= bs and len(s) > 0:
            k = s[-1]
            if 1 <= k <= bs and s[-k:] == bytes([k]) * k:
                valid = s[:-k]
        if io[0] == "ok":
            if valid is None:
                return False, "writer accepted a stream that does not end in a valid pad"
            if _unhex(io[1]) != valid:
                return False, "writer emitted bytes different from the unpadded stream"
            return True, ""
        if io[0] == "err":
            if valid is not None:
                return False, "writer rejected a validly padded stream"
            if not s.startswith(_unhex(io[1])):
                return False, "writer emitted bytes that are not a prefix of the stream"
            return True, ""
        return False, "writer: unexpected result " + io[0]
    if op == "X":
        if io[:3] != ["ok", "1", "1"]:
            return False, "SM4-CBC stream helper: ciphertext differs from CBC over the padded data, or decrypt(encrypt(s)) != s"
        return True, ""
    if op in ("E", "D"):
        # the toy chaining mode of the driver, re-implemented here: c_i = p_i + prev_i + k (mod 256) per block,
        # prev = previous ciphertext block, initially the IV
        bs, k, prev, body = int(f[2]), int(f[3]), _unhex(f[4]), _unhex(f[5])
        if op == "E":
            want = b""
            p = _pad(body, bs)
            for off in range(0, len(p), bs):
                prev = bytes((p[off + i] + prev[i] + k) % 256 for i in range(bs))
                want += prev
            if io[0] != "ok":
                return False, "encrypt helper returned an error on a well-behaved source"
            if _unhex(io[1] if len(io) > 1 else "") != want:
                return False, "encrypt helper output is not mode(data followed by one PKCS#7 pad)"
            return True, ""
        if len(body) == 0 or len(body) % bs != 0:
            want_ok = None
        else:
            pt = b""
            for off in range(0, len(body), bs):
                blk = body[off:off + bs]
                pt += bytes((blk[i] - prev[i] - k) % 256 for i in range(bs))
                prev = blk
            kk = pt[-1]
            want_ok = pt[:-kk] if 1 <= kk <= bs and pt[-kk:] == bytes([kk]) * kk else None
        if io[0] == "ok":
            if want_ok is None:
                return False, "decrypt helper accepted a ciphertext that is ragged or does not decrypt to a valid pad"
            if _unhex(io[1] if len(io) > 1 else "") != want_ok:
                return False, "decrypt helper emitted bytes different from the original stream"
            return True, ""
        if io[0] == "err":
            if want_ok is not None:
                return False, "decrypt helper rejected a valid ciphertext"
            return True, ""
        return False, "stream helper: unexpected result " + io[0]
    return True, ""
