"""C15 - a misbehaving handshake peer gets an error, never completion, a crash or a hang (gmtls)."""
ID = "C15"
PROPS = "Props/C15.v"
COQ_TIMEOUT = 5400   # Coq build of this property incl. rebuilt dependencies; generous: on a loaded machine a rebuild after an upstream edit took > 1500 s
GEN = ["hstables", "hssig"]      # suite tables, default suite lists, version/size constants, message/alert/ClientAuth numbers, the reads of every flight
LEGS = [{"driver": "c15", "runner": ("hs", "Extract/ExtractHS.v", "Hs_model"), "timeout": 3000}]

TECHNIQUE = ("Coq proofs over message-level state machines of the gmtls client and server handshakes (GMSSL-only, auto-switch, TLS) "
             "with symbolic cryptography, plus byte-level models of gmsm's own handshake parsers; models tied to /repo by a scripted "
             "peer driving real endpoints and by differential runs of the extracted models")
LEVEL_TEXT = ("Theorems in Coq (Props/C15.v): for every sequence of any length over {every handshake message type with arbitrary fields, "
              "rejected bodies, unknown types, over-long messages, ChangeCipherSpec, alerts, application data, bad records, end of stream} "
              "delivered to the server model in each mode and to the client models (GMSSL, TLS) the outcome is never Panic or Hang and end of stream is an error; "
              "completion happens only on the honest flights of the GMSSL client, the TLS client and the servers (stated declaratively with every check, full handshakes and resumptions); the ClientHello version gate is swept over all 65536 values; the suite tables and protocol constants of the models are re-proved equal to the ones regenerated from the source, and so are the handshake message numbers (against readHandshake's dispatch switch), the alert numbers the models interpret, "
              "every numeric ClientAuth test of the server model (against the AST's tests of Config.ClientAuth) and the ORDER OF READS of every flight: what a completing run of a model consumed is, type by type, the sequence of msg.(*xxxMsg) assertions and ChangeCipherSpec reads extracted from serverHandshake / serverHandshakeGM / serverHandshakeAutoSwitch / clientHandshakeState(GM).handshake (mandatory and optional reads, full and resumption branch); "
              "eccKeyAgreementGM length logic, certificateRequestMsgGM.unmarshal and readHandshake reassembly are total on all byte strings; "
              "byte-level models (every index/slice a checked access) of the handshake_messages.go parsers - clientHelloMsg.unmarshal with its extension loop, serverHelloMsg, certificateMsg, "
              "serverKeyExchangeMsg, clientKeyExchangeMsg, certificateRequestMsg, certificateVerifyMsg, finishedMsg, newSessionTicketMsg, certificateStatusMsg, nextProtoMsg - never Panic or Hang on any byte string, "
              "and a ClientHello / ServerHello is accepted iff it has the declarative shape ch_shape / sh_shape (extension blocks: ext_block_ok / sh_ext_block_ok), else return false; marshal() of the same messages is modelled too and unmarshal(marshal m) = m is proved for every message value inside the field widths (so marshal is injective, and a byte transcript is read back into exactly the values that were marshalled). "
              "(The panic of the TLS client on an RSA key exchange against a non-RSA certificate, found by this check, was repaired in /repo 4334fea; its scripts stay in corpus/c15.) "
              "The same scripts (about 45 000 quick) are played by a scripted peer against real endpoints under recover() and a deadline and outcome classes compared.")
LEVEL_NOTE = ("Trusted: Coq kernel, extraction (ExtrOcamlBasic only), the hand-written models, the Go driver's abstraction of the bytes it sends into model tokens "
              "(derived by running gmtls's own unmarshal on them), generator coverage; the byte-level parser models of HSMsgParsers.v are tied to handshake_messages.go by the PM cases "
              "(same bytes to the real unmarshal through a hook, every parsed field compared) - the state machines still take the parsers' result as an abstract token. Modelled-not-verified: x509 chain verification (a predicate per certificate), record protection after ChangeCipherSpec, "
              "sm2/asn1 decoding behind the length logic.")
TRUSTED_BASE = [
    "models coq/HS/HSModel.v, HSParsers.v, HSMsgParsers.v written by hand from gmtls/*.go; tied by the correspondence run of this check",
    "extraction: ExtrOcamlBasic only; nat/positive/N stay inductive; OCaml 4.13.1 + dune; runner ocaml/hs/main.ml and ocaml/conv.ml.tmpl",
    "Go driver harness/cmd/c15 (scripted in-memory net.Conn, token abstraction via gmtls's own unmarshal functions) and hook file gmtls/verif_handshake_verif.go",
]
ASSUMPTIONS = [
    "symbolic (perfect) cryptography: signatures, public-key encryption, PRF and hash are free constructors; ECDHE is an ephemeral KEM; RSA decryption failure continues with a random pre-master secret",
    "in the state machines a handshake message is a token (parsed fields, or IHsMalformed when unmarshal rejects); the byte-level parsers are separate models (HSMsgParsers.v, read_handshakes) proved total and compared field by field, not composed with the state machines inside Coq",
    "chain verification is a predicate per certificate (the ids listed in c_trusted / s_client_trusted)",
    "Config: MinVersion unset, Renegotiation=Never, GetConfigForClient/VerifyPeerCertificate/GetClientCertificate nil, client NextProtos empty, no OCSP staple, first handshake on the connection",
    "record protection after ChangeCipherSpec not modelled (C07): a Finished is accepted iff its verify_data is right",
]
RULE = ("seeded generator (VERIF_SEED). S: scripted peer vs real endpoint (roles cg ct sg sa st): all sequences of length <=3 (quick) / <=4 (thorough) over ~11 typical tokens, "
        "honest prefix + every single deviation at every position, every truncation and every length/count field perturbation of every message body, "
        "stall scripts (honest prefix, then only the header / header and part of the body of the next record, then silence with the connection open while the endpoint has a 250 ms deadline: Handshake must return an error); ClientHello/ServerHello versions 0x0000..0x0400 (quick: stride + boundaries) x suite lists, random sequences up to length 12, certificate-kind mixes; "
        "H: real client vs real server for every mode pair x ClientAuth x suites x tickets x resumption x MaxVersion; V: version gate black box; "
        "R: an otherwise honest scripted peer (genuine key exchange and verify_data through hooks) re-packing its flights into records (every coalescing, Finished in the clear before ChangeCipherSpec, ChangeCipherSpec twice / early / missing) and offering ClientHello versions in the gap 0x0102..0x02ff; per-extension perturbations of ClientHello/ServerHello (every extension type x body lengths 0,1,2,len-1,len+1 x position); PK/PS/PR/PH: byte-level parsers through hooks; PM: every handshake message of every S case (all truncations, length-field pokes, the per-extension matrix) plus exhaustive short inputs, structured random ClientHello/ServerHello extension blocks, certificate lists with overrunning entries, both hasSignatureAndHash flags - fed to the real unmarshal of each of 12 message types and to the byte-level model, every parsed field compared; PW: message VALUES (the parsed fields of every accepted PM case, random values inside the canonical domain with edge lengths, and values outside it) marshalled by the real marshal() and by the byte-level model, output bytes compared, and unmarshal(marshal(m)) = m checked on both sides. Non-trivial: every case except the empty script; distinct = distinct case text")

STATIC_FINDINGS = ()


_GM_IDS = {"e013", "e053"}
_TLS_IDS = {"002f", "c02f", "c013", "009c"}


def _kv(s):
    return dict(x.split("=", 1) for x in s.split(","))


def _r_legal(f):
    """R case: is the scripted peer's behaviour a legal handshake - GMSSL for the victims sg / sa / cg (ClientHello version
    0x0101), standard TLS with an RSA key exchange for st / ct - i.e. messages in the honest order, Finished after the one
    ChangeCipherSpec?  Coalescing handshake messages into one record is legal."""
    victim, cfg, chv, packing = f[2], _kv(f[4]), f[5], f[6].replace("CKXL+1", "CKXLp1").replace("CKXH+1", "CKXHp1")
    flights = packing.split("/")
    if len(flights) != 2:
        return False
    recs = [[r.split("+") for r in fl.split("|")] for fl in flights]
    if any("CCS" in r and len(r) > 1 for fl in recs for r in fl):
        return False
    # CKXH+1 (a trailing byte after the SM2 ciphertext, handshake and inner length both one longer: CONSISTENT length fields) is
    # the same ClientKeyExchange to the key agreement - sm2.CipherUnmarshal ignores bytes after the ASN.1 structure (observation)
    flat = [["CKX" if m == "CKXHp1" else m for r in fl for m in r] for fl in recs]
    if victim in ("sg", "sa", "st"):
        if victim != "st" and chv != "0101":
            return False
        auth, cc = int(cfg["auth"]), cfg["cc"] == "1"
        want2 = (["CCERT"] if auth >= 1 else []) + ["CKX"] + (["CV"] if auth >= 1 and cc else []) + ["CCS", "FIN"]
        return flat[0] == ["CH"] and flat[1] == want2
    # client victims: cg (GMSSL: ServerKeyExchange mandatory), ct (standard TLS, RSA key exchange: none)
    want1 = ["SH", "CERT"] + (["SKX"] if victim == "cg" else []) + (["CR"] if cfg["cr"] == "1" else []) + ["SHD"]
    want2 = (["NST"] if cfg["tk"] == "1" else []) + ["CCS", "FIN"]
    return flat[0] == want1 and flat[1] == want2


def nontrivial(f):
    if f[0] == "S":
        return f[4] != "-"
    return True


def classify(f, io):
    k = f[0] + (":" + f[2] if f[0] in ("S", "H", "V", "VC", "VG", "R", "PM", "PW", "PE") else "")
    if f[0] == "PW":
        return k + ":wf" + f[4] + ":rt" + (io[-1] if io else "none")
    return k + ":" + (io[0] if io else "none")


def predicate(f, io):
    """the property on /repo's own outcome, independent of the model"""
    if not io:
        return False, "no observation"
    if f[0] == "S" and "HANG" in io and f[5].split(";")[-1].startswith("Z"):
        # stall script: the peer sent only the start of a record and stays silent with the connection open; the endpoint has a read deadline
        return False, "Handshake() did not return after the endpoint's read deadline had expired (peer stalled in the middle of a record, connection open)"
    if any(x in ("PANIC", "HANG") for x in io):
        return False, "endpoint " + ("panicked" if "PANIC" in io else "kept waiting after the peer's stream had ended (deadline)")
    op = f[0]
    if op == "S":
        if io[0] == "ok":
            return False, "handshake reported complete although the scripted peer never sent a valid Finished"
        if io[0] != "err":
            return False, "unexpected outcome " + io[0]
        return True, ""
    if op == "R":
        # an otherwise honest scripted peer (genuine key exchange and verify_data) that deviates in record packing,
        # message order or ClientHello version: completion is allowed only when nothing deviates
        if io[0] == "ok" and not _r_legal(f):
            return False, "handshake reported complete although the peer deviated (packing/order %s, client_version %s)" % (f[6], f[5])
        if io[0] not in ("ok", "err"):
            return False, "unexpected outcome " + io[0]
        # positive control: a legal handshake of the scripted peer must complete, unless the ClientAuth policy forbids it
        cfg = _kv(f[4])
        if "cm" in cfg:
            cm = "" if cfg["cm"] == "-" else cfg["cm"]
            has_null = "00" in [cm[i:i + 2] for i in range(0, len(cm), 2)]
            if _r_legal(f) and (io[0] == "ok") != has_null:
                return False, "honest handshake with compression methods [%s] %s" % (cfg["cm"], "did not complete" if has_null else "completed")
            return True, ""
        if _r_legal(f):
            must_fail = f[2] in ("sg", "sa", "st") and int(cfg["auth"]) in (2, 4) and cfg["cc"] == "0"
            if (io[0] == "ok") == must_fail:
                return False, "control: a legal handshake %s (%s)" % ("completed against the ClientAuth policy" if must_fail else "did not complete", f[6])
        return True, ""
    if op == "VC":
        # a ClientHello (version and suites acceptable to this server) is answered iff its compression list contains 0
        comp = "" if f[5] == "-" else f[5]
        has_null = "00" in [comp[i:i + 2] for i in range(0, len(comp), 2)]
        if (io[0] == "acc") != has_null:
            return False, "ClientHello with compression methods [%s] %s" % (f[5], "refused although it offers null compression" if has_null else "answered although it does not offer null compression")
        return True, ""
    if op in ("V", "VG"):
        # version gate, stated without the model (VG: the same with GetConfigForClient / GetCertificate set - they return nil): a ClientHello version that is not implemented is never answered with a
        # ServerHello; an answer carries an implemented version not above the offer (GMSSL 0x0101 only for an offer of 0x0101,
        # never from the TLS-only server) and one of the offered suites
        v, role, ss = int(f[3], 16), f[2], f[4]
        if io[0] == "acc":
            a = int(io[1], 16)
            if v < 0x0300 and v != 0x0101:
                return False, "a ClientHello with the unsupported version %04x was answered with a ServerHello" % v
            if a not in (0x0101, 0x0300, 0x0301, 0x0302, 0x0303) or (a == 0x0101) != (v == 0x0101) or \
               (v != 0x0101 and a != min(v, 0x0303)) or (role == "st" and a == 0x0101):
                return False, "ServerHello version %04x for ClientHello version %04x" % (a, v)
            offered = {"gm": _GM_IDS, "tls": _TLS_IDS}.get(ss, _GM_IDS | _TLS_IDS)
            if io[2] not in offered:
                return False, "ServerHello selects suite %s which was not offered" % io[2]
        elif io[0] != "rej":
            return False, "unexpected outcome " + io[0]
        return True, ""
    if op == "PW":
        # marshal of a message value inside the canonical domain must be parsed back to the same value by the
        # package's own unmarshal (computed by the hook, independent of the model)
        if f[4] == "1" and io[-1] != "1":
            return False, "unmarshal(marshal(m)) != m for a well-formed message value of type " + f[2]
        return True, ""
    if op == "H":
        # both ends complete or both fail: never one side complete with the other failed
        if len(io) < 2 or (io[0] == "ok") != (io[1] == "ok"):
            return False, "honest run: one side completed and the other did not"
        # positive controls: a GMSSL client with a GMSSL-capable server (gg, ga), a TLS client with a TLS-capable server
        # (tt, ta) complete unless the ClientAuth policy wants a certificate the client does not have; a GMSSL client with
        # the TLS-only server and a TLS client with the GMSSL-only server (gt, tg) fail.  (Suite c013 is not in the
        # package's table: recorded observation, the pair fails.)
        cfg = _kv(f[3])
        compatible = f[2] in ("gg", "ga", "tt", "ta") and cfg["su"] != "c013"
        forbidden = int(cfg["auth"]) in (2, 4) and cfg["cc"] == "0"
        if (io[0] == "ok") != (compatible and not forbidden):
            return False, "honest run %s %s: %s" % (f[2], f[3], "did not complete" if io[0] != "ok" else "completed although the modes / the ClientAuth policy exclude it")
        return True, ""
    return True, ""


def same(f, io, mo):
    if io == mo:
        return True
    op = f[0]
    if op == "R":                        # a second token (pt=..) is an observation of the implementation only
        return bool(io) and bool(mo) and io[0] == mo[0]
    if op in ("PK", "PS", "PE") and mo and mo[0] == "any":
        return io[0] in ("ok", "err")
    if op == "PH" and mo and mo[-1] == "any":
        pre = mo[0]
        return pre == "-" or io[0] == pre or io[0].startswith(pre + ",")
    return False


FINDING_MATCHERS = {}
